//! Program-text facts (C18/C19/C20), regenerated from every `.rs` file under miniz_oxide/src:
//! cfg guards of items and what they mention, `unsafe` tokens (token level: includes code that
//! is compiled out), crate attributes, the module tree, struct fields with their types and
//! serde attributes, `big_array!` lengths, reset/constructor field assignments.
use proc_macro2::{TokenStream, TokenTree};
use quote::ToTokens;
use std::collections::BTreeMap;
use std::fmt::Write as _;
use syn::*;

#[derive(Clone, Debug)]
enum C { Tt, Atom(usize), Not(Box<C>), And(Box<C>, Box<C>), Or(Box<C>, Box<C>) }
impl C {
    fn lean(&self) -> String {
        match self { C::Tt => ".tt".into(), C::Atom(i) => format!("(.atom {})", i), C::Not(c) => format!("(.not {})", c.lean()), C::And(a, b) => format!("(.and {} {})", a.lean(), b.lean()), C::Or(a, b) => format!("(.or {} {})", a.lean(), b.lean()) }
    }
    fn and(a: C, b: C) -> C { match (&a, &b) { (C::Tt, _) => b, (_, C::Tt) => a, _ => C::And(Box::new(a), Box::new(b)) } }
}

struct Atoms { names: Vec<String> }
impl Atoms {
    fn id(&mut self, s: &str) -> usize { if let Some(i) = self.names.iter().position(|x| x == s) { i } else { self.names.push(s.to_string()); self.names.len() - 1 } }
}

fn cfg_of_meta(m: &Meta, atoms: &mut Atoms) -> C {
    match m {
        Meta::Path(p) => C::Atom(atoms.id(&p.to_token_stream().to_string())),
        Meta::NameValue(nv) => {
            let k = nv.path.to_token_stream().to_string();
            let v = nv.value.to_token_stream().to_string().replace('"', "");
            C::Atom(atoms.id(&if k == "feature" { v } else { format!("{}={}", k, v) }))
        }
        Meta::List(l) => {
            let name = l.path.to_token_stream().to_string();
            let inner: Vec<Meta> = l.parse_args_with(punctuated::Punctuated::<Meta, Token![,]>::parse_terminated).map(|p| p.into_iter().collect()).unwrap_or_default();
            let parts: Vec<C> = inner.iter().map(|m| cfg_of_meta(m, atoms)).collect();
            match name.as_str() {
                "not" => C::Not(Box::new(parts.into_iter().next().unwrap_or(C::Tt))),
                "all" => parts.into_iter().fold(C::Tt, C::and),
                "any" => { let mut it = parts.into_iter(); let first = it.next().unwrap_or(C::Not(Box::new(C::Tt))); it.fold(first, |a, b| C::Or(Box::new(a), Box::new(b))) }
                _ => C::Atom(atoms.id(&name)),
            }
        }
    }
}

fn guard_of(attrs: &[Attribute], atoms: &mut Atoms) -> C {
    let mut g = C::Tt;
    for a in attrs { if a.path().is_ident("cfg") { if let Ok(m) = a.parse_args::<Meta>() { g = C::and(g, cfg_of_meta(&m, atoms)); } } }
    g
}

fn scan(ts: TokenStream, alloc: &mut bool, std: &mut bool, uns: &mut usize) {
    for t in ts {
        match t {
            TokenTree::Group(g) => scan(g.stream(), alloc, std, uns),
            TokenTree::Ident(i) => {
                let s = i.to_string();
                if matches!(s.as_str(), "alloc" | "Vec" | "Box" | "vec" | "String" | "ToString" | "format" | "Rc" | "Arc") { *alloc = true; }
                if s == "std" { *std = true; }
                if s == "unsafe" { *uns += 1; }
            }
            _ => {}
        }
    }
}

struct Out { items: Vec<String>, n_items: usize }

fn item_attrs(it: &Item) -> Vec<Attribute> {
    match it {
        Item::Const(x) => x.attrs.clone(), Item::Enum(x) => x.attrs.clone(), Item::ExternCrate(x) => x.attrs.clone(), Item::Fn(x) => x.attrs.clone(),
        Item::Impl(x) => x.attrs.clone(), Item::Macro(x) => x.attrs.clone(), Item::Mod(x) => x.attrs.clone(), Item::Static(x) => x.attrs.clone(),
        Item::Struct(x) => x.attrs.clone(), Item::Trait(x) => x.attrs.clone(), Item::Type(x) => x.attrs.clone(), Item::Use(x) => x.attrs.clone(), _ => vec![],
    }
}

/// Parts of a statement / member that carry their own `#[cfg]` (struct-expression fields, match
/// arms): each becomes an item of its own with the conjoined guard and is removed from the parent.
struct Peel<'a> { found: Vec<(usize, C, TokenStream)>, outer: C, atoms: &'a mut Atoms }
impl<'a> syn::visit_mut::VisitMut for Peel<'a> {
    fn visit_expr_struct_mut(&mut self, e: &mut ExprStruct) {
        let fields: Vec<FieldValue> = e.fields.iter().cloned().collect();
        let mut keep: syn::punctuated::Punctuated<FieldValue, Token![,]> = syn::punctuated::Punctuated::new();
        for f in fields {
            let g = guard_of(&f.attrs, self.atoms);
            if matches!(g, C::Tt) { keep.push(f); }
            else { let line = syn::spanned::Spanned::span(&f).start().line; self.found.push((line, C::and(self.outer.clone(), g), f.to_token_stream())); }
        }
        e.fields = keep;
        syn::visit_mut::visit_expr_struct_mut(self, e);
    }
    fn visit_expr_match_mut(&mut self, e: &mut ExprMatch) {
        let arms: Vec<Arm> = e.arms.drain(..).collect();
        for a in arms {
            let g = guard_of(&a.attrs, self.atoms);
            if matches!(g, C::Tt) { e.arms.push(a); }
            else { let line = syn::spanned::Spanned::span(&a).start().line; self.found.push((line, C::and(self.outer.clone(), g), a.to_token_stream())); }
        }
        syn::visit_mut::visit_expr_match_mut(self, e);
    }
}

fn push_peeled_stmt(out: &mut Out, file: usize, line: usize, guard: &C, st: &Stmt, atoms: &mut Atoms) {
    let mut st = st.clone();
    let mut p = Peel { found: vec![], outer: guard.clone(), atoms };
    syn::visit_mut::VisitMut::visit_stmt_mut(&mut p, &mut st);
    let found = std::mem::take(&mut p.found);
    push_item(out, file, line, guard, st.to_token_stream());
    for (l, g, ts) in found { push_item(out, file, l, &g, ts); }
}

fn push_item(out: &mut Out, file: usize, line: usize, guard: &C, ts: TokenStream) {
    let (mut a, mut s, mut u) = (false, false, 0usize);
    scan(ts, &mut a, &mut s, &mut u);
    out.items.push(format!("  {{ file := {}, line := {}, guard := {}, alloc := {}, std := {}, unsafeTok := {} }}", file, line, guard.lean(), a, s, u));
    out.n_items += 1;
}

fn walk_items(items: &[Item], file: usize, outer: &C, atoms: &mut Atoms, out: &mut Out) {
    for it in items {
        let g = C::and(outer.clone(), guard_of(&item_attrs(it), atoms));
        let line = syn::spanned::Spanned::span(it).start().line;
        match it {
            Item::Mod(m) => {
                if let Some((_, inner)) = &m.content { walk_items(inner, file, &g, atoms, out); }
                else { push_item(out, file, line, &g, it.to_token_stream()); }
            }
            Item::Impl(im) => {
                // the impl header (types it names) and every member with its own guard
                let mut header = im.clone(); header.items.clear();
                push_item(out, file, line, &g, header.to_token_stream());
                for ii in &im.items {
                    let attrs = match ii { ImplItem::Fn(f) => f.attrs.clone(), ImplItem::Const(c) => c.attrs.clone(), ImplItem::Type(t) => t.attrs.clone(), _ => vec![] };
                    let gi = C::and(g.clone(), guard_of(&attrs, atoms));
                    if let ImplItem::Fn(f) = ii {
                        push_item(out, file, syn::spanned::Spanned::span(ii).start().line, &gi, f.sig.to_token_stream());
                        for st in &f.block.stmts {
                            let sattrs: Vec<Attribute> = match st { Stmt::Local(l) => l.attrs.clone(), Stmt::Expr(e, _) => expr_attrs(e), Stmt::Macro(m) => m.attrs.clone(), Stmt::Item(i) => item_attrs(i) };
                            let gs = C::and(gi.clone(), guard_of(&sattrs, atoms));
                            push_peeled_stmt(out, file, syn::spanned::Spanned::span(st).start().line, &gs, st, atoms);
                        }
                    } else {
                        push_item(out, file, syn::spanned::Spanned::span(ii).start().line, &gi, ii.to_token_stream());
                    }
                }
            }
            Item::Struct(s) => {
                // fields may carry their own cfg
                let mut header = s.clone();
                if let Fields::Named(n) = &mut header.fields { n.named.clear(); }
                push_item(out, file, line, &g, header.to_token_stream());
                for f in s.fields.iter() { let gf = C::and(g.clone(), guard_of(&f.attrs, atoms)); push_item(out, file, syn::spanned::Spanned::span(f).start().line, &gf, f.to_token_stream()); }
            }
            Item::Fn(f) => {
                // statements inside a function may be individually guarded (e.g. `#[cfg(feature = …)] if …`)
                push_item(out, file, line, &g, f.sig.to_token_stream());
                for st in &f.block.stmts {
                    let attrs: Vec<Attribute> = match st { Stmt::Local(l) => l.attrs.clone(), Stmt::Expr(e, _) => expr_attrs(e), Stmt::Macro(m) => m.attrs.clone(), Stmt::Item(i) => item_attrs(i) };
                    let gs = C::and(g.clone(), guard_of(&attrs, atoms));
                    push_peeled_stmt(out, file, syn::spanned::Spanned::span(st).start().line, &gs, st, atoms);
                }
            }
            _ => push_item(out, file, line, &g, it.to_token_stream()),
        }
    }
}

fn expr_attrs(e: &Expr) -> Vec<Attribute> {
    match e { Expr::If(x) => x.attrs.clone(), Expr::Block(x) => x.attrs.clone(), Expr::Match(x) => x.attrs.clone(), Expr::Call(x) => x.attrs.clone(), Expr::MethodCall(x) => x.attrs.clone(), Expr::Assign(x) => x.attrs.clone(), Expr::Macro(x) => x.attrs.clone(), _ => vec![] }
}

fn list_rs(dir: &std::path::Path, out: &mut Vec<std::path::PathBuf>) {
    let mut es: Vec<_> = std::fs::read_dir(dir).map(|r| r.filter_map(|e| e.ok()).map(|e| e.path()).collect()).unwrap_or_default();
    es.sort();
    for p in es { if p.is_dir() { list_rs(&p, out); } else if p.extension().map(|e| e == "rs").unwrap_or(false) { out.push(p); } }
}

/// `len_term`: resolve an array length expression of `file` to a Lean term over Gen.* constants.
pub fn emit(repo: &str, outdir: &str, len_term: &mut dyn FnMut(&str, &Expr) -> Option<String>) -> std::result::Result<(), String> {
    let src = std::path::Path::new(repo).join("miniz_oxide/src");
    let mut paths = vec![]; list_rs(&src, &mut paths);
    let rel = |p: &std::path::Path| p.strip_prefix(&src).unwrap().to_string_lossy().to_string();
    let files: Vec<String> = paths.iter().map(|p| rel(p)).collect();
    let fid = |name: &str| files.iter().position(|f| f == name);
    let mut atoms = Atoms { names: vec!["with-alloc".into(), "std".into(), "serde".into(), "block-boundary".into(), "simd".into(), "rustc-dep-of-std".into(), "test".into()] };
    let mut parsed: Vec<(usize, File)> = vec![];
    let mut file_unsafe: Vec<(usize, usize)> = vec![];
    for (i, p) in paths.iter().enumerate() {
        let text = std::fs::read_to_string(p).map_err(|e| e.to_string())?;
        // token-level scan of the whole file (covers everything that lexes, including cfg'd-out code)
        let ts: TokenStream = text.parse().map_err(|e| format!("{}: {}", files[i], e))?;
        let (mut a, mut s, mut u) = (false, false, 0usize); scan(ts, &mut a, &mut s, &mut u);
        file_unsafe.push((i, u));
        parsed.push((i, syn::parse_file(&text).map_err(|e| format!("{}: {}", files[i], e))?));
    }
    // module tree
    let mut decls: Vec<(usize, usize, C)> = vec![];
    let mut file_guard: BTreeMap<usize, C> = BTreeMap::new();
    let root = fid("lib.rs").ok_or("lib.rs not found")?;
    file_guard.insert(root, C::Tt);
    let mut work = vec![root];
    while let Some(f) = work.pop() {
        let fg = file_guard[&f].clone();
        let ast = &parsed.iter().find(|(i, _)| *i == f).unwrap().1;
        let dir = std::path::Path::new(&files[f]).parent().map(|p| p.to_path_buf()).unwrap_or_default();
        let stem = std::path::Path::new(&files[f]).file_stem().unwrap().to_string_lossy().to_string();
        let base = if stem == "mod" || stem == "lib" { dir.clone() } else { dir.join(&stem) };
        fn mods<'a>(items: &'a [Item], outer: C, atoms: &mut Atoms, acc: &mut Vec<(String, C)>) {
            for it in items { if let Item::Mod(m) = it { let g = C::and(outer.clone(), guard_of(&m.attrs, atoms)); if let Some((_, inner)) = &m.content { mods(inner, g, atoms, acc); } else { acc.push((m.ident.to_string(), g)); } } }
        }
        let mut acc = vec![]; mods(&ast.items, C::Tt, &mut atoms, &mut acc);
        for (name, g) in acc {
            let c1 = base.join(format!("{}.rs", name)).to_string_lossy().to_string();
            let c2 = base.join(&name).join("mod.rs").to_string_lossy().to_string();
            let child = fid(&c1).or_else(|| fid(&c2));
            match child { Some(c) => { let full = C::and(fg.clone(), g.clone()); decls.push((f, c, g)); if !file_guard.contains_key(&c) { file_guard.insert(c, full); work.push(c); } } None => return Err(format!("module `{}` declared in {} has no file", name, files[f])) }
        }
    }
    // crate attributes of the root
    let root_ast = &parsed.iter().find(|(i, _)| *i == root).unwrap().1;
    let mut forbid = false; let mut no_std = C::Not(Box::new(C::Tt));
    for a in &root_ast.attrs {
        let s = a.to_token_stream().to_string().replace(' ', "");
        if s == "#![forbid(unsafe_code)]" { forbid = true; }
        if s == "#![no_std]" { no_std = C::Tt; }
        if a.path().is_ident("cfg_attr") {
            if let Ok(list) = a.parse_args_with(punctuated::Punctuated::<Meta, Token![,]>::parse_terminated) {
                let v: Vec<Meta> = list.into_iter().collect();
                if v.len() >= 2 && v[1..].iter().any(|m| m.to_token_stream().to_string() == "no_std") { no_std = cfg_of_meta(&v[0], &mut atoms); }
            }
        }
    }
    // items
    let mut out = Out { items: vec![], n_items: 0 };
    for (i, ast) in &parsed {
        let fg = file_guard.get(i).cloned().unwrap_or(C::Tt);
        walk_items(&ast.items, *i, &fg, &mut atoms, &mut out);
    }
    // structs and enums
    let mut type_names: Vec<String> = vec![];
    let mut field_names: Vec<String> = vec![];
    let mut tid = |n: &str, v: &mut Vec<String>| -> usize { if let Some(i) = v.iter().position(|x| x == n) { i } else { v.push(n.to_string()); v.len() - 1 } };
    let mut decl_types: Vec<(String, usize)> = vec![];
    for (i, ast) in &parsed { fn coll(items: &[Item], i: usize, acc: &mut Vec<(String, usize)>) { for it in items { match it { Item::Struct(s) => acc.push((s.ident.to_string(), i)), Item::Enum(e) => acc.push((e.ident.to_string(), i)), Item::Mod(m) => { if m.ident != "test" && m.ident != "tests" { if let Some((_, inner)) = &m.content { coll(inner, i, acc); } } } _ => {} } } } coll(&ast.items, *i, &mut decl_types); }
    for (n, _) in &decl_types { tid(n, &mut type_names); }
    fn derives(attrs: &[Attribute]) -> (bool, bool) {
        let mut clone = false; let mut serde = false;
        for a in attrs {
            let s = a.to_token_stream().to_string();
            if (a.path().is_ident("derive") || a.path().is_ident("cfg_attr")) && s.contains("derive") {
                if s.contains("Clone") { clone = true; }
                if s.contains("Serialize") && s.contains("Deserialize") { serde = true; }
            }
        }
        (clone, serde)
    }
    let mut structs: Vec<String> = vec![];
    let mut ty_of = |t: &Type, file: usize, type_names: &mut Vec<String>, len_term: &mut dyn FnMut(&str, &Expr) -> Option<String>| -> String {
        fn go(t: &Type, fname: &str, type_names: &mut Vec<String>, len_term: &mut dyn FnMut(&str, &Expr) -> Option<String>) -> String {
            match t {
                Type::Array(a) => { let l = len_term(fname, &a.len).unwrap_or_else(|| "(-1)".into()); format!("(.arr {} {})", go(&a.elem, fname, type_names, len_term), l) }
                Type::Paren(p) => go(&p.elem, fname, type_names, len_term),
                Type::Path(p) if p.qself.is_none() => {
                    let last = p.path.segments.last().unwrap();
                    let n = last.ident.to_string();
                    if matches!(n.as_str(), "u8" | "u16" | "u32" | "u64" | "usize" | "i8" | "i16" | "i32" | "i64" | "isize" | "bool" | "BitBuffer") { return ".prim".into(); }
                    if n == "Box" { if let PathArguments::AngleBracketed(ab) = &last.arguments { if let Some(GenericArgument::Type(inner)) = ab.args.first() { return format!("(.box {})", go(inner, fname, type_names, len_term)); } } return ".other".into(); }
                    if !matches!(last.arguments, PathArguments::None) { return ".other".into(); }
                    if let Some(i) = type_names.iter().position(|x| *x == n) { return format!("(.named {})", i); }
                    ".other".into()
                }
                _ => ".other".into(),
            }
        }
        let fname = file.to_string();
        go(t, &fname, type_names, len_term)
    };
    let mut big_lens: Vec<String> = vec![];
    for (i, ast) in &parsed {
        fn visit<'a>(items: &'a [Item], acc: &mut Vec<&'a Item>) { for it in items { match it { Item::Mod(m) => { if m.ident != "test" && m.ident != "tests" { if let Some((_, inner)) = &m.content { visit(inner, acc); } } } _ => acc.push(it) } } }
        let mut its = vec![]; visit(&ast.items, &mut its);
        for it in its {
            match it {
                Item::Struct(s) => {
                    let (cl, se) = derives(&s.attrs);
                    let id = tid(&s.ident.to_string(), &mut type_names);
                    let mut fs = vec![];
                    for f in s.fields.iter() {
                        // fields added by the verification hooks are not part of the crate under study
                        if f.attrs.iter().any(|a| a.path().is_ident("cfg") && a.to_token_stream().to_string().contains("miniz_oxide_verif")) { continue; }
                        let name = f.ident.as_ref().map(|x| x.to_string()).unwrap_or_default();
                        let at: String = f.attrs.iter().map(|a| a.to_token_stream().to_string()).collect::<Vec<_>>().join(" ");
                        let big = at.contains("serde") && at.contains("BigArray");
                        let skip = at.contains("serde") && at.contains("skip");
                        let fi = tid(&name, &mut field_names);
                        fs.push(format!("{{ name := {}, ty := {}, bigArray := {}, serdeSkip := {} }}", fi, ty_of(&f.ty, *i, &mut type_names, len_term), big, skip));
                    }
                    structs.push(format!("  {{ id := {}, file := {}, deriveClone := {}, deriveSerde := {}, isEnum := false, unitOnly := false, fields := [{}] }}", id, i, cl, se, fs.join(", ")));
                }
                Item::Enum(e) => {
                    let (cl, se) = derives(&e.attrs);
                    let id = tid(&e.ident.to_string(), &mut type_names);
                    let unit = e.variants.iter().all(|v| matches!(v.fields, Fields::Unit));
                    structs.push(format!("  {{ id := {}, file := {}, deriveClone := {}, deriveSerde := {}, isEnum := true, unitOnly := {}, fields := [] }}", id, i, cl, se, unit));
                }
                Item::Macro(m) if m.mac.path.is_ident("big_array") => {
                    let parser = punctuated::Punctuated::<Expr, Token![,]>::parse_terminated;
                    if let Ok(list) = parse::Parser::parse2(parser, m.mac.tokens.clone()) { for e in list { if let Some(t) = len_term(&i.to_string(), &e) { big_lens.push(t); } } }
                }
                _ => {}
            }
        }
    }
    // reset / constructor bodies: which fields of the receiver a method assigns (or resets through a
    // method call on the field), and which other reset it delegates to
    let mut resets: Vec<String> = vec![];
    {
        fn root_field(e: &Expr, recv: &[&str]) -> Option<String> {
            match e {
                Expr::Field(f) => {
                    if let Expr::Path(p) = &*f.base { if p.path.segments.len() == 1 && recv.contains(&p.path.segments[0].ident.to_string().as_str()) { if let Member::Named(n) = &f.member { return Some(n.to_string()); } } }
                    root_field(&f.base, recv)
                }
                Expr::Unary(u) => root_field(&u.expr, recv),
                Expr::Paren(p) => root_field(&p.expr, recv),
                Expr::MethodCall(m) => root_field(&m.receiver, recv),
                Expr::Index(i) => root_field(&i.expr, recv),
                _ => None,
            }
        }
        let wanted: [(&str, &str, &str); 8] = [("ParamsOxide", "reset", "ParamsOxide"), ("DictOxide", "reset", "DictOxide"), ("CompressorOxide", "reset", "CompressorOxide"), ("HashBuffers", "reset", "HashBuffers"),
            ("ResetPolicy for MinReset", "reset", "InflateState"), ("ResetPolicy for ZeroReset", "reset", "InflateState"), ("ResetPolicy for FullReset", "reset", "InflateState"), ("DecompressorOxide", "init", "DecompressorOxide")];
        for (_, ast) in &parsed {
            fn impls<'a>(items: &'a [Item], acc: &mut Vec<&'a ItemImpl>) { for it in items { match it { Item::Impl(i) => acc.push(i), Item::Mod(m) => { if m.ident != "test" && m.ident != "tests" { if let Some((_, inner)) = &m.content { impls(inner, acc); } } } _ => {} } } }
            let mut is = vec![]; impls(&ast.items, &mut is);
            for im in is {
                let st = im.self_ty.to_token_stream().to_string().replace(' ', "");
                let name = match &im.trait_ { Some((_, p, _)) => format!("{} for {}", p.to_token_stream().to_string().replace(' ', ""), st), None => st.clone() };
                for ii in &im.items {
                    if let ImplItem::Fn(f) = ii {
                        for (iname, mname, target) in wanted.iter() {
                            if name == *iname && f.sig.ident == *mname {
                                let mut assigned: Vec<String> = vec![]; let mut delegates: Vec<String> = vec![];
                                for stt in &f.block.stmts {
                                    if let Stmt::Expr(e, _) = stt {
                                        match e {
                                            Expr::Assign(a) => { if let Some(fl) = root_field(&a.left, &["self", "state"]) { assigned.push(fl); } }
                                            Expr::MethodCall(m) => {
                                                if let Some(fl) = root_field(&m.receiver, &["self", "state"]) { assigned.push(fl); }
                                                else if let Expr::Path(p) = &*m.receiver { delegates.push(p.path.segments.last().unwrap().ident.to_string()); }
                                                else if let Expr::MethodCall(inner) = &*m.receiver { if let Some(fl) = root_field(&inner.receiver, &["self", "state"]) { let _ = fl; } if inner.method == "decompressor" { assigned.push("decomp".into()); } }
                                            }
                                            _ => {}
                                        }
                                    }
                                }
                                let ids: Vec<String> = assigned.iter().map(|n| tid(n, &mut field_names).to_string()).collect();
                                let key = st.clone();
                                let del: Vec<String> = delegates.iter().map(|d| tid(d, &mut type_names).to_string()).collect();
                                resets.push(format!("  ({}, {}, [{}], [{}])", tid(&key, &mut type_names), tid(target, &mut type_names), ids.join(", "), del.join(", ")));
                            }
                        }
                    }
                }
            }
        }
    }
    // write-back completeness of the engines' cached registers: for every exit of compress_normal /
    // compress_fast / compress_stored, which of the locals that cache a field of `d` (declared
    // before that exit) are stored back on the way out
    let mut writebacks: Vec<String> = vec![];
    {
        fn path_str(e: &Expr) -> Option<String> {
            match e {
                Expr::Path(p) if p.path.segments.len() == 1 => Some(p.path.segments[0].ident.to_string()),
                Expr::Field(f) => { let b = path_str(&f.base)?; if let Member::Named(n) = &f.member { Some(format!("{}.{}", b, n)) } else { None } }
                _ => None,
            }
        }
        // walk blocks keeping the chain of (statements before the current one) of every ancestor block
        fn walk(stmts: &[Stmt], anc: &mut Vec<Vec<Stmt>>, cached: &mut Vec<(String, String)>, exits: &mut Vec<(usize, Vec<String>, Vec<String>)>) {
            let mut before: Vec<Stmt> = vec![];
            for st in stmts {
                // cached register declarations: `let mut x = d.a.b;`
                if let Stmt::Local(l) = st {
                    if let (Pat::Ident(pi), Some(init)) = (&l.pat, &l.init) {
                        if let Some(p) = path_str(&init.expr) { if p.starts_with("d.") { cached.push((pi.ident.to_string(), p)); } }
                    }
                }
                let mut visit_expr = |e: &Expr, before: &Vec<Stmt>, anc: &mut Vec<Vec<Stmt>>, cached: &mut Vec<(String, String)>, exits: &mut Vec<(usize, Vec<String>, Vec<String>)>| {
                    fn inner(e: &Expr, before: &Vec<Stmt>, anc: &mut Vec<Vec<Stmt>>, cached: &mut Vec<(String, String)>, exits: &mut Vec<(usize, Vec<String>, Vec<String>)>) {
                        match e {
                            Expr::Return(r) => {
                                let mut written: Vec<String> = vec![];
                                let mut scan = |sts: &Vec<Stmt>| { for s2 in sts { if let Stmt::Expr(Expr::Assign(a), _) = s2 { if let (Some(l), Some(rv)) = (path_str(&a.left), path_str(&a.right)) { if cached.iter().any(|(x, p)| *x == rv && *p == l) { written.push(l); } } } } };
                                for a in anc.iter() { scan(a); }
                                scan(before);
                                let required: Vec<String> = cached.iter().map(|(_, p)| p.clone()).collect();
                                exits.push((syn::spanned::Spanned::span(r).start().line, required, written));
                            }
                            Expr::If(i) => {
                                anc.push(before.clone());
                                walk(&i.then_branch.stmts, anc, cached, exits);
                                if let Some((_, el)) = &i.else_branch { inner(el, &vec![], anc, cached, exits); }
                                anc.pop();
                            }
                            Expr::Block(b) => { anc.push(before.clone()); walk(&b.block.stmts, anc, cached, exits); anc.pop(); }
                            Expr::While(w) => { anc.push(before.clone()); walk(&w.body.stmts, anc, cached, exits); anc.pop(); }
                            Expr::Loop(w) => { anc.push(before.clone()); walk(&w.body.stmts, anc, cached, exits); anc.pop(); }
                            Expr::ForLoop(w) => { anc.push(before.clone()); walk(&w.body.stmts, anc, cached, exits); anc.pop(); }
                            Expr::Match(m) => { for arm in &m.arms { inner(&arm.body, before, anc, cached, exits); } }
                            Expr::Let(l) => inner(&l.expr, before, anc, cached, exits),
                            _ => {}
                        }
                    }
                    inner(e, before, anc, cached, exits)
                };
                match st {
                    Stmt::Expr(e, _) => visit_expr(e, &before, anc, cached, exits),
                    Stmt::Local(l) => { if let Some(init) = &l.init { visit_expr(&init.expr, &before, anc, cached, exits); if let Some((_, d)) = &init.diverge { visit_expr(d, &before, anc, cached, exits); } } }
                    _ => {}
                }
                before.push(st.clone());
            }
        }
        for (fi, ast) in &parsed {
            for it in &ast.items {
                if let Item::Fn(f) = it {
                    let name = f.sig.ident.to_string();
                    if !matches!(name.as_str(), "compress_normal" | "compress_fast" | "compress_stored") { continue; }
                    let mut cached = vec![]; let mut exits = vec![]; let mut anc: Vec<Vec<Stmt>> = vec![];
                    walk(&f.block.stmts, &mut anc, &mut cached, &mut exits);
                    // the fall-through exit at the end of the function
                    {
                        let mut written = vec![];
                        for s2 in &f.block.stmts { if let Stmt::Expr(Expr::Assign(a), _) = s2 { if let (Some(l), Some(rv)) = (path_str(&a.left), path_str(&a.right)) { if cached.iter().any(|(x, p)| *x == rv && *p == l) { written.push(l); } } } }
                        exits.push((f.block.brace_token.span.close().start().line, cached.iter().map(|(_, p)| p.clone()).collect(), written));
                    }
                    // an exit that comes before the first loop of the function and before any assignment to a
                    // cached local leaves every cached value equal to the field it was loaded from
                    let first_effect = {
                        use syn::visit::Visit;
                        struct V { min: usize, names: Vec<String> }
                        impl<'ast> Visit<'ast> for V {
                            fn visit_expr_while(&mut self, w: &'ast ExprWhile) { self.min = self.min.min(syn::spanned::Spanned::span(w).start().line); syn::visit::visit_expr_while(self, w); }
                            fn visit_expr_loop(&mut self, w: &'ast ExprLoop) { self.min = self.min.min(syn::spanned::Spanned::span(w).start().line); syn::visit::visit_expr_loop(self, w); }
                            fn visit_expr_for_loop(&mut self, w: &'ast ExprForLoop) { self.min = self.min.min(syn::spanned::Spanned::span(w).start().line); syn::visit::visit_expr_for_loop(self, w); }
                            fn visit_expr_assign(&mut self, a: &'ast ExprAssign) { if let Expr::Path(p) = &*a.left { if p.path.segments.len() == 1 && self.names.contains(&p.path.segments[0].ident.to_string()) { self.min = self.min.min(syn::spanned::Spanned::span(a).start().line); } } syn::visit::visit_expr_assign(self, a); }
                            fn visit_expr_binary(&mut self, b: &'ast ExprBinary) { if matches!(b.op, BinOp::AddAssign(_) | BinOp::SubAssign(_) | BinOp::MulAssign(_) | BinOp::BitOrAssign(_) | BinOp::BitAndAssign(_) | BinOp::ShlAssign(_) | BinOp::ShrAssign(_)) { if let Expr::Path(p) = &*b.left { if p.path.segments.len() == 1 && self.names.contains(&p.path.segments[0].ident.to_string()) { self.min = self.min.min(syn::spanned::Spanned::span(b).start().line); } } } syn::visit::visit_expr_binary(self, b); }
                        }
                        let mut v = V { min: usize::MAX, names: cached.iter().map(|(x, _)| x.clone()).collect() };
                        v.visit_block(&f.block);
                        v.min
                    };
                    for (line, req, wr) in exits {
                        let req = if line < first_effect { vec![] } else { req };
                        let ids = |v: &Vec<String>, fnv: &mut Vec<String>| -> String { v.iter().map(|n| tid(n, fnv).to_string()).collect::<Vec<_>>().join(", ") };
                        writebacks.push(format!("  ({}, {}, {}, [{}], [{}])", fi, tid(&name, &mut type_names), line, ids(&req, &mut field_names), ids(&wr, &mut field_names)));
                    }
                }
            }
        }
    }
    let mut s = String::new();
    s.push_str("/-\nREGENERATED by /verif/translator (facts.rs) from every .rs file under /repo/miniz_oxide/src.\nDo not edit.\n-/\nimport MinizProof.Model.ProgramText\nimport MinizProof.Gen.All\nset_option maxRecDepth 100000\nnamespace Gen.Facts\nopen PT\n\n");
    writeln!(s, "def atomNames : List String := [{}]", atoms.names.iter().map(|x| format!("\"{}\"", x)).collect::<Vec<_>>().join(", ")).unwrap();
    writeln!(s, "def fileNames : List String := [{}]", files.iter().map(|x| format!("\"{}\"", x)).collect::<Vec<_>>().join(", ")).unwrap();
    writeln!(s, "def typeNames : List String := [{}]", type_names.iter().map(|x| format!("\"{}\"", x)).collect::<Vec<_>>().join(", ")).unwrap();
    writeln!(s, "def fieldNames : List String := [{}]", field_names.iter().map(|x| format!("\"{}\"", x)).collect::<Vec<_>>().join(", ")).unwrap();
    writeln!(s, "def nFiles : Nat := {}", files.len()).unwrap();
    writeln!(s, "def rootFile : Nat := {}", root).unwrap();
    writeln!(s, "/-- `unsafe` tokens per file (whole-file token scan, includes compiled-out code) -/\ndef fileUnsafe : List (Nat × Nat) := [{}]", file_unsafe.iter().map(|(a, b)| format!("({}, {})", a, b)).collect::<Vec<_>>().join(", ")).unwrap();
    writeln!(s, "/-- `#![forbid(unsafe_code)]` present unconditionally at the crate root -/\ndef rootForbidUnsafe : Bool := {}", forbid).unwrap();
    writeln!(s, "/-- condition under which `#![no_std]` applies -/\ndef rootNoStd : Cfg := {}", no_std.lean()).unwrap();
    writeln!(s, "/-- `mod` declarations: (parent file, child file, guard on the declaration) -/\ndef modDecls : List (Nat × Nat × Cfg) := [{}]", decls.iter().map(|(a, b, c)| format!("({}, {}, {})", a, b, c.lean())).collect::<Vec<_>>().join(", ")).unwrap();
    writeln!(s, "def items : List Item := [\n{}\n]", out.items.join(",\n")).unwrap();
    writeln!(s, "def structs : List Struct := [\n{}\n]", structs.join(",\n")).unwrap();
    writeln!(s, "/-- reset bodies: (type whose `reset`/`init` it is, struct it acts on, fields assigned or reset, resets delegated to) -/\ndef resets : List (Nat × Nat × List Nat × List Nat) := [\n{}\n]", resets.join(",\n")).unwrap();
    writeln!(s, "/-- exits of the token engines: (file, function, line, fields cached in locals declared before the exit, fields stored back on the way out) -/\ndef engineExits : List (Nat × Nat × Nat × List Nat × List Nat) := [\n{}\n]", writebacks.join(",\n")).unwrap();
    writeln!(s, "/-- lengths listed in `big_array! {{ … }}` -/\ndef bigArrayLens : List Int := [{}]", big_lens.join(", ")).unwrap();
    let ty = |n: &str| type_names.iter().position(|x| x == n).map(|i| i.to_string()).unwrap_or("9999".into());
    for n in ["DecompressorOxide", "HuffmanTable", "InflateState", "CompressorOxide", "BlockBoundaryState", "ParamsOxide", "DictOxide", "LZOxide", "HuffmanOxide", "HashBuffers", "LocalBuf", "State", "TINFLStatus", "DataFormat", "TDEFLFlush", "TDEFLStatus", "MinReset", "ZeroReset", "FullReset"] {
        writeln!(s, "def ty_{} : Nat := {}", n, ty(n)).unwrap();
    }
    for n in ["flags", "greedy_parsing", "window_bits_max", "max_probes", "loop_len", "dict", "data_format", "decomp", "dict_ofs", "dict_avail", "first_call", "has_flushed", "last_status", "state", "lz", "params", "huff", "next", "hash", "local_buf"] {
        writeln!(s, "def fld_{} : Nat := {}", n, field_names.iter().position(|x| x == n).map(|i| i.to_string()).unwrap_or("9999".into())).unwrap();
    }
    s.push_str("\nend Gen.Facts\n");
    std::fs::write(format!("{}/Facts.lean", outdir), s).map_err(|e| e.to_string())?;
    Ok(())
}
