//! Program-text facts (C18/C19/C20): filled in below.
pub fn emit(_repo: &str, _outdir: &str) -> Result<(), String> { Ok(()) }
