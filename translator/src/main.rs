//! mztranslate: regenerates /verif/lean/MinizProof/Gen/All.lean (+ Facts.lean) from /repo's
//! current sources. Accepts a small, explicitly checked subset of Rust (integer constants and
//! tables, C-like enums, straight-line integer functions with if/match/let/assignment) and
//! REFUSES everything else with an error naming the item (leg T of bin/check).
//!
//! usage: mztranslate <repo> <out-dir>
mod facts;

use proc_macro2::Span;
use quote::ToTokens;
use std::collections::{BTreeMap, HashMap};
use std::fmt::Write as _;
use syn::spanned::Spanned;
use syn::*;

#[derive(Clone, Debug, PartialEq)]
pub enum Ty {
    U(u32),
    I(u32),
    Bool,
    Enum(String),
    Tuple(Vec<Ty>),
    Arr(Box<Ty>),
    Action,
    Res,
    Opt(Box<Ty>),
    Lit,
    Unknown,
}

impl Ty {
    fn is_int(&self) -> bool { matches!(self, Ty::U(_) | Ty::I(_)) }
    fn lean(&self) -> String {
        match self {
            Ty::U(b) => format!("(.u {})", b),
            Ty::I(b) => format!("(.i {})", b),
            _ => "(.i 64)".into(),
        }
    }
    fn lean_type(&self) -> String {
        match self {
            Ty::Bool => "Bool".into(),
            Ty::Tuple(ts) => ts.iter().map(|t| t.lean_type()).collect::<Vec<_>>().join(" × "),
            Ty::Arr(_) => "Array Int".into(),
            Ty::Action => "G.Action".into(),
            Ty::Res => "G.Res".into(),
            Ty::Opt(t) => format!("Option {}", t.lean_type()),
            _ => "Int".into(),
        }
    }
}

fn ty_from_name(s: &str) -> Ty {
    match s {
        "u8" => Ty::U(8), "u16" => Ty::U(16), "u32" => Ty::U(32), "u64" => Ty::U(64), "usize" => Ty::U(64),
        "i8" => Ty::I(8), "i16" => Ty::I(16), "i32" => Ty::I(32), "i64" => Ty::I(64), "isize" => Ty::I(64),
        "c_ulong" => Ty::U(64), "c_uint" | "mz_uint" | "mz_uint32" => Ty::U(32), "c_int" | "mz_bool" => Ty::I(32),
        "size_t" => Ty::U(64), "BitBuffer" => Ty::U(64),
        "bool" => Ty::Bool, "Action" => Ty::Action,
        "Self" => Ty::Enum("Self".into()),
        other => Ty::Enum(other.to_string()),
    }
}

fn ty_from_syn(t: &Type) -> Ty {
    match t {
        Type::Path(p) => {
            let last = p.path.segments.last().unwrap();
            let name = last.ident.to_string();
            if name == "Result" || name == "MZResult" { return Ty::Res; }
            if name == "Option" {
                if let PathArguments::AngleBracketed(a) = &last.arguments {
                    if let Some(GenericArgument::Type(t)) = a.args.first() { return Ty::Opt(Box::new(ty_from_syn(t))); }
                }
                return Ty::Opt(Box::new(Ty::Unknown));
            }
            ty_from_name(&name)
        }
        Type::Tuple(t) => Ty::Tuple(t.elems.iter().map(ty_from_syn).collect()),
        Type::Array(a) => Ty::Arr(Box::new(ty_from_syn(&a.elem))),
        Type::Reference(r) => ty_from_syn(&r.elem),
        Type::Paren(p) => ty_from_syn(&p.elem),
        _ => Ty::Unknown,
    }
}

const LEAN_KW: &[&str] = &["self", "end", "from", "at", "in", "do", "then", "open", "local", "fun", "show", "have", "by", "match", "with", "if", "else", "let", "mut", "return", "for", "where", "instance", "class", "section", "namespace", "theorem", "def", "variable", "universe", "prefix", "infix", "macro", "syntax", "deriving", "private", "protected", "partial", "unsafe", "matches", "extends", "structure", "inductive", "example", "abbrev", "axiom", "opaque", "attribute", "export", "import", "set_option", "using", "calc", "exists", "forall", "Type", "Prop", "Sort"];
fn mangle(s: &str) -> String { if LEAN_KW.contains(&s) { format!("{}_", s) } else { s.to_string() } }

pub fn cfg_true(attrs: &[Attribute]) -> bool {
    for a in attrs {
        if a.path().is_ident("cfg") {
            if let Ok(m) = a.parse_args::<Meta>() { if !eval_cfg(&m) { return false; } }
        }
    }
    true
}
fn eval_cfg(m: &Meta) -> bool {
    match m {
        Meta::Path(p) => {
            let s = p.get_ident().map(|i| i.to_string()).unwrap_or_default();
            matches!(s.as_str(), "miniz_oxide_verif" | "unix")
        }
        Meta::NameValue(nv) => {
            let k = nv.path.get_ident().map(|i| i.to_string()).unwrap_or_default();
            let v = nv.value.to_token_stream().to_string().replace('"', "");
            match k.as_str() {
                "target_pointer_width" => v == "64",
                "target_arch" => v == "x86_64",
                "target_os" => v == "linux",
                "feature" => matches!(v.as_str(), "with-alloc" | "std" | "block-boundary" | "serde"),
                _ => false,
            }
        }
        Meta::List(l) => {
            let name = l.path.get_ident().map(|i| i.to_string()).unwrap_or_default();
            let inner: Vec<Meta> = l.parse_args_with(punctuated::Punctuated::<Meta, Token![,]>::parse_terminated).map(|p| p.into_iter().collect()).unwrap_or_default();
            match name.as_str() {
                "not" => !inner.iter().all(eval_cfg),
                "all" => inner.iter().all(eval_cfg),
                "any" => inner.iter().any(eval_cfg),
                _ => false,
            }
        }
    }
}

#[derive(Default)]
struct Global {
    consts: HashMap<String, Vec<(String, Ty)>>,
    enums: HashMap<String, (String, Vec<(String, i64)>)>,
    variants: HashMap<String, Vec<(String, String)>>,
    fns: HashMap<String, Vec<(String, Ty, Vec<Ty>)>>,
    /// types of free variables that may appear in fragments (field chains)
    free: HashMap<String, Ty>,
}

struct Tr<'g> {
    g: &'g Global,
    ns: String,
    locals: Vec<HashMap<String, Ty>>,
    self_enum: Option<String>,
    free_used: Vec<(String, Ty)>,
    tmp: usize,
    /// call-name substitutions for fragments: callee -> constant
    call_consts: HashMap<String, i64>,
}

type R<T> = std::result::Result<T, String>;

fn loc(sp: Span) -> String { format!("line {}", sp.start().line) }

impl<'g> Tr<'g> {
    fn new(g: &'g Global, ns: &str) -> Self {
        Tr { g, ns: ns.to_string(), locals: vec![HashMap::new()], self_enum: None, free_used: vec![], tmp: 0, call_consts: HashMap::new() }
    }
    fn lookup_local(&self, n: &str) -> Option<Ty> {
        for m in self.locals.iter().rev() { if let Some(t) = m.get(n) { return Some(t.clone()); } }
        None
    }
    fn bind(&mut self, n: &str, t: Ty) { self.locals.last_mut().unwrap().insert(n.to_string(), t); }

    fn resolve_const(&self, name: &str) -> Option<(String, Ty)> {
        let v = self.g.consts.get(name)?;
        if let Some(x) = v.iter().find(|(ns, _)| *ns == self.ns) { return Some((format!("Gen.{}.{}", x.0, name), x.1.clone())); }
        if v.len() == 1 { return Some((format!("Gen.{}.{}", v[0].0, name), v[0].1.clone())); }
        // several definers with (presumably) the same meaning: take the first deterministically
        let mut w = v.clone(); w.sort_by(|a, b| a.0.cmp(&b.0));
        Some((format!("Gen.{}.{}", w[0].0, name), w[0].1.clone()))
    }
    fn resolve_variant(&self, en: Option<&str>, var: &str) -> Option<(String, Ty)> {
        if let Some(en) = en {
            let en = if en == "Self" { self.self_enum.clone()? } else { en.to_string() };
            let v = self.g.variants.get(var)?;
            let pick = v.iter().find(|(_, e)| *e == en)?;
            return Some((format!("Gen.{}.{}.{}", pick.0, en, var), Ty::Enum(en)));
        }
        let v = self.g.variants.get(var)?;
        let pick = v.iter().find(|(ns, _)| *ns == self.ns).or_else(|| if v.len() == 1 { v.first() } else { None })?;
        Some((format!("Gen.{}.{}.{}", pick.0, pick.1, var), Ty::Enum(pick.1.clone())))
    }

    fn free_var(&mut self, name: &str) -> R<(String, Ty)> {
        let t = self.g.free.get(name).cloned().ok_or_else(|| format!("unknown free variable `{}`", name))?;
        if !self.free_used.iter().any(|(n, _)| n == name) { self.free_used.push((name.to_string(), t.clone())); }
        Ok((mangle(name), t))
    }

    fn chain_name(e: &Expr) -> Option<String> {
        match e {
            Expr::Path(p) if p.path.segments.len() == 1 => Some(p.path.segments[0].ident.to_string()),
            Expr::Field(f) => { let b = Self::chain_name(&f.base)?; match &f.member { Member::Named(i) => Some(format!("{}_{}", b, i)), Member::Unnamed(_) => None } }
            Expr::Paren(p) => Self::chain_name(&p.expr),
            Expr::Reference(r) => Self::chain_name(&r.expr),
            Expr::Unary(u) if matches!(u.op, UnOp::Deref(_)) => Self::chain_name(&u.expr),
            _ => None,
        }
    }

    fn lit_int(l: &LitInt) -> R<(i128, Ty)> {
        let v: i128 = l.base10_parse::<i128>().map_err(|e| e.to_string())?;
        let t = if l.suffix().is_empty() { Ty::Lit } else { ty_from_name(l.suffix()) };
        Ok((v, t))
    }

    fn coerce(&self, s: String, from: &Ty, to: &Ty) -> String {
        // literals adopt the context type without wrapping; everything else is already in range
        let _ = (from, to);
        s
    }

    fn ex(&mut self, e: &Expr, expect: &Ty) -> R<(String, Ty)> {
        match e {
            Expr::Lit(l) => match &l.lit {
                Lit::Int(i) => {
                    let (v, t) = Self::lit_int(i)?;
                    let t = if t == Ty::Lit && expect.is_int() { expect.clone() } else { t };
                    Ok((format!("({}:Int)", v), t))
                }
                Lit::Bool(b) => Ok((format!("{}", b.value), Ty::Bool)),
                _ => Err(format!("unsupported literal at {}", loc(e.span()))),
            },
            Expr::Paren(p) => self.ex(&p.expr, expect),
            Expr::Group(p) => self.ex(&p.expr, expect),
            Expr::Reference(r) => self.ex(&r.expr, expect),
            Expr::Path(p) => self.path(p, e.span()),
            Expr::Unary(u) => {
                match u.op {
                    UnOp::Deref(_) => self.ex(&u.expr, expect),
                    UnOp::Not(_) => {
                        let (s, t) = self.ex(&u.expr, expect)?;
                        if t == Ty::Bool { Ok((format!("(!{})", s), Ty::Bool)) }
                        else if t.is_int() { Ok((format!("(G.bnot {} {})", t.lean(), s), t)) }
                        else { Err(format!("`!` on untyped operand at {}", loc(e.span()))) }
                    }
                    UnOp::Neg(_) => {
                        let (s, t) = self.ex(&u.expr, expect)?;
                        if t.is_int() { Ok((format!("(G.neg {} {})", t.lean(), s), t)) } else { Ok((format!("(-{})", s), t)) }
                    }
                    _ => Err(format!("unsupported unary op at {}", loc(e.span()))),
                }
            }
            Expr::Binary(b) => self.binary(b, expect),
            Expr::Cast(c) => {
                let target = ty_from_syn(&c.ty);
                let (s, t) = self.ex(&c.expr, &Ty::Unknown)?;
                let s = if t == Ty::Bool { format!("(G.b2i {})", s) } else { s };
                if target.is_int() { Ok((format!("(G.wrap {} {})", target.lean(), s), target)) } else { Ok((s, target)) }
            }
            Expr::If(i) => {
                let (c, ct) = self.ex(&i.cond, &Ty::Bool)?;
                if ct != Ty::Bool { return Err(format!("non-bool condition at {}", loc(i.cond.span()))); }
                let (a, at) = self.block_expr(&i.then_branch, expect)?;
                let eb = i.else_branch.as_ref().ok_or_else(|| format!("if without else in expression at {}", loc(e.span())))?;
                let (b, bt) = self.ex(&eb.1, if at != Ty::Lit { &at } else { expect })?;
                let t = if at != Ty::Lit && at != Ty::Unknown { at } else { bt };
                Ok((format!("(if {} then {} else {})", c, a, b), t))
            }
            Expr::Block(b) => self.block_expr(&b.block, expect),
            Expr::Match(m) => self.match_expr(m, expect),
            Expr::MethodCall(m) => self.method(m, expect),
            Expr::Call(c) => self.call(c, expect),
            Expr::Field(f) => {
                if let Member::Unnamed(ix) = &f.member {
                    let (s, t) = self.ex(&f.base, &Ty::Unknown)?;
                    if let Ty::Tuple(ts) = &t {
                        let n = ts.len(); let i = ix.index as usize;
                        // Lean nested pairs: (a, b, c) = (a, (b, c))
                        let mut acc = s;
                        for _ in 0..i { acc = format!("{}.2", acc); }
                        if i + 1 < n { acc = format!("{}.1", acc); }
                        return Ok((format!("({})", acc), ts[i].clone()));
                    }
                    return Err(format!("tuple index on non-tuple at {}", loc(e.span())));
                }
                let name = Self::chain_name(e).ok_or_else(|| format!("unsupported field access at {}", loc(e.span())))?;
                self.free_var(&name)
            }
            Expr::Index(ix) => {
                let (a, at) = self.ex(&ix.expr, &Ty::Unknown)?;
                let (i, _) = self.ex(&ix.index, &Ty::U(64))?;
                match at {
                    Ty::Arr(el) => Ok((format!("(G.idx {} {})", a, i), *el)),
                    _ => Err(format!("index into non-array at {}", loc(e.span()))),
                }
            }
            Expr::Tuple(t) => {
                let mut parts = vec![]; let mut tys = vec![];
                let exps: Vec<Ty> = if let Ty::Tuple(ts) = expect { ts.clone() } else { vec![Ty::Unknown; t.elems.len()] };
                for (k, x) in t.elems.iter().enumerate() { let (s, ty) = self.ex(x, exps.get(k).unwrap_or(&Ty::Unknown))?; parts.push(s); tys.push(ty); }
                Ok((format!("({})", parts.join(", ")), Ty::Tuple(tys)))
            }
            Expr::Array(a) => {
                let el = if let Ty::Arr(t) = expect { (**t).clone() } else { Ty::Unknown };
                let mut parts = vec![]; let mut ety = el.clone();
                for x in a.elems.iter() { let (s, t) = self.ex(x, &el)?; parts.push(s); if ety == Ty::Unknown || ety == Ty::Lit { ety = t; } }
                Ok((format!("#[{}]", parts.join(", ")), Ty::Arr(Box::new(ety))))
            }
            Expr::Macro(m) => self.mac(&m.mac, e.span()),
            Expr::Return(_) => Err(format!("`return` in expression position at {}", loc(e.span()))),
            _ => Err(format!("unsupported expression `{}` at {}", e.to_token_stream().to_string().chars().take(60).collect::<String>(), loc(e.span()))),
        }
    }

    fn path(&mut self, p: &ExprPath, sp: Span) -> R<(String, Ty)> {
        let segs: Vec<String> = p.path.segments.iter().map(|s| s.ident.to_string()).collect();
        if segs.len() == 1 {
            let n = &segs[0];
            if let Some(t) = self.lookup_local(n) { return Ok((mangle(n), t)); }
            if n == "self" { if let Some(t) = self.lookup_local("self") { return Ok(("self_".into(), t)); } }
            if let Some(x) = self.resolve_const(n) { return Ok(x); }
            if let Some(x) = self.resolve_variant(None, n) { return Ok(x); }
            if self.g.free.contains_key(n) { return self.free_var(n); }
            return Err(format!("unresolved name `{}` at {}", n, loc(sp)));
        }
        let last = &segs[segs.len() - 1];
        let prev = &segs[segs.len() - 2];
        if last == "MAX" || last == "MIN" {
            let t = ty_from_name(prev);
            if t.is_int() { return Ok((format!("(G.ty{} {})", if last == "MAX" { "Max" } else { "Min" }, t.lean()), t)); }
        }
        if let Some(x) = self.resolve_variant(Some(prev), last) { return Ok(x); }
        if let Some(x) = self.resolve_const(last) { return Ok(x); }
        Err(format!("unresolved path `{}` at {}", segs.join("::"), loc(sp)))
    }

    fn binary(&mut self, b: &ExprBinary, expect: &Ty) -> R<(String, Ty)> {
        use BinOp::*;
        let is_shift = matches!(b.op, Shl(_) | Shr(_));
        let is_cmp = matches!(b.op, Eq(_) | Ne(_) | Lt(_) | Le(_) | Gt(_) | Ge(_));
        let is_logic = matches!(b.op, And(_) | Or(_));
        let lexp = if is_cmp || is_logic { Ty::Unknown } else { expect.clone() };
        let (mut l, mut lt) = self.ex(&b.left, &lexp)?;
        let rexp = if is_shift { Ty::Unknown } else if lt == Ty::Lit { lexp.clone() } else { lt.clone() };
        let (r, rt) = self.ex(&b.right, &rexp)?;
        if lt == Ty::Lit && !is_shift && rt != Ty::Lit { let x = self.ex(&b.left, &rt)?; l = x.0; lt = x.1; }
        if is_logic {
            return Ok((format!("({} {} {})", l, if matches!(b.op, And(_)) { "&&" } else { "||" }, r), Ty::Bool));
        }
        if is_cmp {
            let s = match b.op {
                Eq(_) => format!("({} == {})", l, r),
                Ne(_) => format!("({} != {})", l, r),
                Lt(_) => format!("(decide ({} < {}))", l, r),
                Le(_) => format!("(decide ({} ≤ {}))", l, r),
                Gt(_) => format!("(decide ({} > {}))", l, r),
                Ge(_) => format!("(decide ({} ≥ {}))", l, r),
                _ => unreachable!(),
            };
            return Ok((s, Ty::Bool));
        }
        if lt == Ty::Bool {
            let s = match b.op {
                BitAnd(_) => format!("({} && {})", l, r),
                BitOr(_) => format!("({} || {})", l, r),
                BitXor(_) => format!("({} != {})", l, r),
                _ => return Err(format!("unsupported bool operator at {}", loc(b.span()))),
            };
            return Ok((s, Ty::Bool));
        }
        let t = lt.clone();
        if !t.is_int() {
            // untyped literal arithmetic: exact
            let s = match b.op {
                Add(_) => format!("({} + {})", l, r), Sub(_) => format!("({} - {})", l, r), Mul(_) => format!("({} * {})", l, r),
                Div(_) => format!("(Int.tdiv {} {})", l, r), Rem(_) => format!("(Int.tmod {} {})", l, r),
                Shl(_) => format!("({} * G.two ^ ({}).toNat)", l, r), Shr(_) => format!("({} >>> ({}).toNat)", l, r),
                _ => return Err(format!("bit operator on untyped literals at {}", loc(b.span()))),
            };
            return Ok((s, Ty::Lit));
        }
        let f = match b.op {
            Add(_) => "add", Sub(_) => "sub", Mul(_) => "mul", Div(_) => "div", Rem(_) => "rem",
            BitAnd(_) => "band", BitOr(_) => "bor", BitXor(_) => "bxor", Shl(_) => "shl", Shr(_) => "shr",
            _ => return Err(format!("unsupported operator at {}", loc(b.span()))),
        };
        Ok((format!("(G.{} {} {} {})", f, t.lean(), l, r), t))
    }

    fn block_expr(&mut self, b: &Block, expect: &Ty) -> R<(String, Ty)> {
        // pure block: only a tail expression
        if b.stmts.len() == 1 {
            if let Stmt::Expr(e, None) = &b.stmts[0] { return self.ex(e, expect); }
        }
        // general block: nested do
        self.locals.push(HashMap::new());
        let mut out = vec![];
        let t = self.stmts(&b.stmts, expect, 2, &mut out, true);
        self.locals.pop();
        let t = t?;
        Ok((format!("(Id.run do\n{})", out.join("\n")), t))
    }

    fn pat_cond(&mut self, p: &Pat, scrut: &str, st: &Ty) -> R<(String, Option<String>)> {
        match p {
            Pat::Wild(_) => Ok(("true".into(), None)),
            Pat::Lit(l) => { let (s, _) = self.ex(&Expr::Lit(ExprLit { attrs: vec![], lit: l.lit.clone() }), st)?; Ok((format!("({} == {})", scrut, s), None)) }
            Pat::Path(pp) => { let (s, _) = self.path(&ExprPath { attrs: vec![], qself: None, path: pp.path.clone() }, p.span())?; Ok((format!("({} == {})", scrut, s), None)) }
            Pat::Ident(i) => {
                let n = i.ident.to_string();
                // a bare identifier may be an enum variant / const brought in by `use`
                if self.lookup_local(&n).is_none() {
                    if let Some((s, _)) = self.resolve_variant(None, &n).or_else(|| self.resolve_const(&n)) { return Ok((format!("({} == {})", scrut, s), None)); }
                }
                Ok(("true".into(), Some(n)))
            }
            Pat::Or(o) => {
                let mut cs = vec![];
                for c in o.cases.iter() { let (s, b) = self.pat_cond(c, scrut, st)?; if b.is_some() { return Err("binding inside or-pattern".into()); } cs.push(s); }
                Ok((format!("({})", cs.join(" || ")), None))
            }
            Pat::Paren(pp) => self.pat_cond(&pp.pat, scrut, st),
            Pat::Range(r) => {
                let lo = r.start.as_ref().map(|e| self.ex(e, st)).transpose()?;
                let hi = r.end.as_ref().map(|e| self.ex(e, st)).transpose()?;
                let mut cs = vec![];
                if let Some((s, _)) = lo { cs.push(format!("decide ({} ≤ {})", s, scrut)); }
                if let Some((s, _)) = hi { cs.push(match r.limits { RangeLimits::Closed(_) => format!("decide ({} ≤ {})", scrut, s), RangeLimits::HalfOpen(_) => format!("decide ({} < {})", scrut, s) }); }
                Ok((format!("({})", cs.join(" && ")), None))
            }
            _ => {
                // negative literal patterns arrive as Pat::Lit with a negative literal in syn 2; anything else is refused
                Err(format!("unsupported pattern `{}` at {}", p.to_token_stream(), loc(p.span())))
            }
        }
    }

    fn match_expr(&mut self, m: &ExprMatch, expect: &Ty) -> R<(String, Ty)> {
        let (s, st) = self.ex(&m.expr, &Ty::Unknown)?;
        self.tmp += 1;
        let v = format!("m{}_", self.tmp);
        let mut out = format!("(let {} := {};\n", v, s);
        let mut ty = Ty::Unknown;
        let mut closed = false;
        let mut depth = 0;
        for arm in &m.arms {
            if arm.guard.is_some() { return Err(format!("match guard at {}", loc(arm.span()))); }
            let (c, bindv) = self.pat_cond(&arm.pat, &v, &st)?;
            self.locals.push(HashMap::new());
            let mut pre = String::new();
            if let Some(b) = &bindv { self.bind(b, st.clone()); pre = format!("let {} := {}; ", mangle(b), v); }
            let body = self.ex(&arm.body, if ty == Ty::Unknown || ty == Ty::Lit { expect } else { &ty });
            self.locals.pop();
            let (body, bt) = body?;
            if ty == Ty::Unknown || ty == Ty::Lit { ty = bt; }
            depth += 1;
            // rustc checks exhaustiveness, so the last arm of a match is reached exactly when no
            // earlier arm matched: it is emitted as the final `else`.
            if c == "true" || depth == m.arms.len() { write!(out, "{}{}", pre, body).unwrap(); closed = true; break; }
            write!(out, "if {} then {}{} else\n", c, pre, body).unwrap();
        }
        if !closed { return Err(format!("empty match at {}", loc(m.span()))); }
        out.push(')');
        Ok((out, ty))
    }

    fn method(&mut self, m: &ExprMethodCall, expect: &Ty) -> R<(String, Ty)> {
        let name = m.method.to_string();
        let args: Vec<&Expr> = m.args.iter().collect();
        match name.as_str() {
            "len" => {
                let base = Self::chain_name(&m.receiver).ok_or_else(|| format!("len() on complex receiver at {}", loc(m.span())))?;
                self.free_var(&format!("{}_len", base))
            }
            "contains" => {
                // (a..=b).contains(&x)
                let mut rcv = &*m.receiver;
                while let Expr::Paren(p) = rcv { rcv = &p.expr; }
                if let Expr::Range(r) = rcv {
                    let (x, xt) = self.ex(args[0], &Ty::Unknown)?;
                    let mut cs = vec![];
                    if let Some(lo) = &r.start { let (s, _) = self.ex(lo, &xt)?; cs.push(format!("decide ({} ≤ {})", s, x)); }
                    if let Some(hi) = &r.end { let (s, _) = self.ex(hi, &xt)?; cs.push(match r.limits { RangeLimits::Closed(_) => format!("decide ({} ≤ {})", x, s), RangeLimits::HalfOpen(_) => format!("decide ({} < {})", x, s) }); }
                    return Ok((format!("({})", cs.join(" && ")), Ty::Bool));
                }
                Err(format!("unsupported contains() at {}", loc(m.span())))
            }
            "into" => {
                let (s, t) = self.ex(&m.receiver, &Ty::Unknown)?;
                if expect.is_int() { Ok((format!("(G.wrap {} {})", expect.lean(), s), expect.clone())) } else { Ok((s, t)) }
            }
            "saturating_sub" | "saturating_add" | "wrapping_add" | "wrapping_sub" | "wrapping_mul" | "min" | "max" => {
                let (s, t) = self.ex(&m.receiver, expect)?;
                let (a, at) = self.ex(args[0], &t)?;
                let t = if t.is_int() { t } else { at };
                if !t.is_int() { return Err(format!("untyped receiver of {} at {}", name, loc(m.span()))); }
                let s2 = match name.as_str() {
                    "saturating_sub" => format!("(G.satSub {} {} {})", t.lean(), s, a),
                    "saturating_add" => format!("(G.satAdd {} {} {})", t.lean(), s, a),
                    "wrapping_add" => format!("(G.add {} {} {})", t.lean(), s, a),
                    "wrapping_sub" => format!("(G.sub {} {} {})", t.lean(), s, a),
                    "wrapping_mul" => format!("(G.mul {} {} {})", t.lean(), s, a),
                    "min" => format!("(min {} {})", s, a),
                    _ => format!("(max {} {})", s, a),
                };
                Ok((s2, t))
            }
            "clamp" => {
                let (s, t) = self.ex(&m.receiver, expect)?;
                let (lo, lt) = self.ex(args[0], &t)?;
                let (hi, _) = self.ex(args[1], &t)?;
                let t = if t.is_int() { t } else { lt };
                if !t.is_int() { return Err(format!("untyped receiver of clamp at {}", loc(m.span()))); }
                Ok((format!("(max {} (min {} {}))", lo, hi, s), t))
            }
            _ => Err(format!("unsupported method `{}` at {}", name, loc(m.span()))),
        }
    }

    fn call(&mut self, c: &ExprCall, expect: &Ty) -> R<(String, Ty)> {
        let args: Vec<&Expr> = c.args.iter().collect();
        let fpath = if let Expr::Path(p) = &*c.func { p } else { return Err(format!("unsupported callee at {}", loc(c.span()))); };
        let segs: Vec<String> = fpath.path.segments.iter().map(|s| s.ident.to_string()).collect();
        let last = segs.last().unwrap().as_str();
        let prev = if segs.len() >= 2 { segs[segs.len() - 2].as_str() } else { "" };
        if let Some(k) = self.call_consts.get(last) { return Ok((format!("({}:Int)", k), Ty::I(32))); }
        if last == "from" && ty_from_name(prev).is_int() {
            let t = ty_from_name(prev);
            let (s, st) = self.ex(args[0], &Ty::Unknown)?;
            let s = if st == Ty::Bool { format!("(G.b2i {})", s) } else { s };
            return Ok((format!("(G.wrap {} {})", t.lean(), s), t));
        }
        if (last == "min" || last == "max") && args.len() == 2 {
            let (a, at) = self.ex(args[0], expect)?;
            let (b, bt) = self.ex(args[1], &at)?;
            let (a, at) = if at == Ty::Lit && bt != Ty::Lit { self.ex(args[0], &bt)? } else { (a, at) };
            return Ok((format!("({} {} {})", last, a, b), if at != Ty::Lit { at } else { bt }));
        }
        match last {
            "Ok" | "Err" => { let (s, _) = self.ex(args[0], &Ty::Unknown)?; return Ok((format!("(G.Res.{} {})", if last == "Ok" { "ok" } else { "err" }, s), Ty::Res)); }
            "Some" => { let el = if let Ty::Opt(t) = expect { (**t).clone() } else { Ty::Unknown }; let (s, t) = self.ex(args[0], &el)?; return Ok((format!("(some {})", s), Ty::Opt(Box::new(t)))); }
            "Jump" if prev == "Action" => { let (s, _) = self.ex(args[0], &Ty::Unknown)?; return Ok((format!("(G.Action.jump {})", s), Ty::Action)); }
            "End" if prev == "Action" => { let (s, _) = self.ex(args[0], &Ty::Unknown)?; return Ok((format!("(G.Action.fin {})", s), Ty::Action)); }
            _ => {}
        }
        // user function
        let key = if !prev.is_empty() && prev.chars().next().unwrap().is_uppercase() {
            let p = if prev == "Self" { self.self_enum.clone().unwrap_or_default() } else { prev.to_string() };
            format!("{}_{}", p, last)
        } else { last.to_string() };
        if let Some(v) = self.g.fns.get(&key) {
            let pick = v.iter().find(|(ns, _, _)| *ns == self.ns).or_else(|| v.first()).unwrap().clone();
            if pick.2.len() != args.len() { return Err(format!("arity mismatch calling {} at {}", key, loc(c.span()))); }
            let mut parts = vec![];
            for (a, pt) in args.iter().zip(pick.2.iter()) { let (s, _) = self.ex(a, pt)?; parts.push(s); }
            return Ok((format!("(Gen.{}.{} {})", pick.0, key, parts.join(" ")), pick.1));
        }
        Err(format!("call to untranslated function `{}` at {}", segs.join("::"), loc(c.span())))
    }

    fn mac(&mut self, m: &Macro, sp: Span) -> R<(String, Ty)> {
        let name = m.path.segments.last().unwrap().ident.to_string();
        if name == "matches" {
            let parser = |input: parse::ParseStream| -> Result<(Expr, Pat)> {
                let e: Expr = input.parse()?; let _: Token![,] = input.parse()?; let p = Pat::parse_multi_with_leading_vert(input)?; Ok((e, p))
            };
            let (e, p) = parse::Parser::parse2(parser, m.tokens.clone()).map_err(|e| format!("matches!: {}", e))?;
            let (s, st) = self.ex(&e, &Ty::Unknown)?;
            let (c, b) = self.pat_cond(&p, &s, &st)?;
            if b.is_some() { return Err("binding in matches!".into()); }
            return Ok((c, Ty::Bool));
        }
        Err(format!("unsupported macro `{}!` at {}", name, loc(sp)))
    }

    fn assign_target(&mut self, e: &Expr) -> R<(String, Ty)> {
        match e {
            Expr::Path(p) if p.path.segments.len() == 1 => {
                let n = p.path.segments[0].ident.to_string();
                let t = self.lookup_local(&n).ok_or_else(|| format!("assignment to non-local `{}`", n))?;
                Ok((mangle(&n), t))
            }
            Expr::Unary(u) if matches!(u.op, UnOp::Deref(_)) => self.assign_target(&u.expr),
            _ => Err(format!("unsupported assignment target at {}", loc(e.span()))),
        }
    }

    /// Emit do-block statements. `tail_returns`: the final expression is the block's value.
    fn stmts(&mut self, stmts: &[Stmt], ret: &Ty, ind: usize, out: &mut Vec<String>, tail_returns: bool) -> R<Ty> {
        let pad = " ".repeat(ind);
        let mut result_ty = Ty::Unknown;
        for (k, s) in stmts.iter().enumerate() {
            let is_last = k + 1 == stmts.len();
            match s {
                Stmt::Local(l) => {
                    if !cfg_true(&l.attrs) { continue; }
                    let init = l.init.as_ref().ok_or_else(|| format!("let without initializer at {}", loc(l.span())))?;
                    let (pat, ann) = match &l.pat { Pat::Type(pt) => (&*pt.pat, ty_from_syn(&pt.ty)), p => (p, Ty::Unknown) };
                    let (v, vt) = self.ex(&init.expr, &ann)?;
                    let vt = if ann != Ty::Unknown { ann } else { vt };
                    match pat {
                        Pat::Ident(i) => { let n = i.ident.to_string(); out.push(format!("{}let mut {} := {}", pad, mangle(&n), v)); self.bind(&n, vt); }
                        Pat::Tuple(t) => {
                            let names: Vec<String> = t.elems.iter().map(|p| if let Pat::Ident(i) = p { Ok(i.ident.to_string()) } else { Err(format!("nested pattern at {}", loc(p.span()))) }).collect::<R<_>>()?;
                            self.tmp += 1; let tv = format!("t{}_", self.tmp);
                            out.push(format!("{}let {} := {}", pad, tv, v));
                            if let Ty::Tuple(ts) = &vt {
                                let n = names.len();
                                for (i, nm) in names.iter().enumerate() {
                                    let mut acc = tv.clone(); for _ in 0..i { acc = format!("{}.2", acc); } if i + 1 < n { acc = format!("{}.1", acc); }
                                    out.push(format!("{}let mut {} := {}", pad, mangle(nm), acc)); self.bind(nm, ts[i].clone());
                                }
                            } else { return Err(format!("tuple pattern on non-tuple at {}", loc(l.span()))); }
                        }
                        _ => return Err(format!("unsupported let pattern at {}", loc(l.span()))),
                    }
                }
                Stmt::Macro(m) => {
                    let n = m.mac.path.segments.last().unwrap().ident.to_string();
                    if n.starts_with("debug_assert") { continue; }
                    return Err(format!("unsupported macro statement `{}!` at {}", n, loc(m.span())));
                }
                Stmt::Item(Item::Use(_)) => {}
                Stmt::Item(_) => return Err(format!("nested item at {}", loc(s.span()))),
                Stmt::Expr(e, semi) => {
                    let tail = is_last && semi.is_none() && tail_returns;
                    match e {
                        Expr::Assign(a) => {
                            let (n, t) = self.assign_target(&a.left)?;
                            let (v, _) = self.ex(&a.right, &t)?;
                            out.push(format!("{}{} := {}", pad, n, v));
                        }
                        Expr::Binary(b) if matches!(b.op, BinOp::AddAssign(_) | BinOp::SubAssign(_) | BinOp::MulAssign(_) | BinOp::BitOrAssign(_) | BinOp::BitAndAssign(_) | BinOp::BitXorAssign(_) | BinOp::ShlAssign(_) | BinOp::ShrAssign(_)) => {
                            let (n, t) = self.assign_target(&b.left)?;
                            let (r, _) = self.ex(&b.right, if matches!(b.op, BinOp::ShlAssign(_) | BinOp::ShrAssign(_)) { &Ty::Unknown } else { &t })?;
                            let v = if t == Ty::Bool {
                                match b.op { BinOp::BitOrAssign(_) => format!("({} || {})", n, r), BinOp::BitAndAssign(_) => format!("({} && {})", n, r), BinOp::BitXorAssign(_) => format!("({} != {})", n, r), _ => return Err("arith on bool".into()) }
                            } else {
                                let f = match b.op { BinOp::AddAssign(_) => "add", BinOp::SubAssign(_) => "sub", BinOp::MulAssign(_) => "mul", BinOp::BitOrAssign(_) => "bor", BinOp::BitAndAssign(_) => "band", BinOp::BitXorAssign(_) => "bxor", BinOp::ShlAssign(_) => "shl", _ => "shr" };
                                format!("(G.{} {} {} {})", f, t.lean(), n, r)
                            };
                            out.push(format!("{}{} := {}", pad, n, v));
                        }
                        Expr::Return(r) => {
                            let (v, t) = self.ex(r.expr.as_ref().ok_or("bare return")?, ret)?;
                            out.push(format!("{}return {}", pad, v)); result_ty = t;
                        }
                        Expr::If(i) if !tail || Self::has_stmts(i) => {
                            let t = self.if_stmt(i, ret, ind, out, tail)?;
                            if tail { result_ty = t; }
                        }
                        _ if tail => {
                            let (v, t) = self.ex(e, ret)?;
                            out.push(format!("{}return {}", pad, v)); result_ty = t;
                        }
                        Expr::Macro(m) if m.mac.path.segments.last().unwrap().ident.to_string().starts_with("debug_assert") => {}
                        _ => return Err(format!("unsupported statement `{}` at {}", e.to_token_stream().to_string().chars().take(50).collect::<String>(), loc(e.span()))),
                    }
                }
            }
        }
        Ok(result_ty)
    }

    fn has_stmts(i: &ExprIf) -> bool {
        let blk = |b: &Block| !(b.stmts.len() == 1 && matches!(&b.stmts[0], Stmt::Expr(e, None) if !matches!(e, Expr::Return(_))));
        if blk(&i.then_branch) { return true; }
        match &i.else_branch { None => true, Some((_, e)) => match &**e { Expr::Block(b) => blk(&b.block), Expr::If(j) => Self::has_stmts(j), _ => false } }
    }

    fn if_stmt(&mut self, i: &ExprIf, ret: &Ty, ind: usize, out: &mut Vec<String>, tail: bool) -> R<Ty> {
        let pad = " ".repeat(ind);
        let (c, ct) = self.ex(&i.cond, &Ty::Bool)?;
        if ct != Ty::Bool { return Err(format!("non-bool condition at {}", loc(i.cond.span()))); }
        out.push(format!("{}if {} then", pad, c));
        self.locals.push(HashMap::new());
        let n0 = out.len();
        let mut t = self.stmts(&i.then_branch.stmts, ret, ind + 2, out, tail)?;
        if out.len() == n0 { out.push(format!("{}  pure ()", pad)); }
        self.locals.pop();
        if let Some((_, e)) = &i.else_branch {
            out.push(format!("{}else", pad));
            self.locals.push(HashMap::new());
            let n1 = out.len();
            let t2 = match &**e {
                Expr::Block(b) => self.stmts(&b.block.stmts, ret, ind + 2, out, tail)?,
                Expr::If(j) => self.if_stmt(j, ret, ind + 2, out, tail)?,
                _ => return Err("unsupported else".into()),
            };
            if out.len() == n1 { out.push(format!("{}  pure ()", pad)); }
            self.locals.pop();
            if t == Ty::Unknown || t == Ty::Lit { t = t2; }
        }
        Ok(t)
    }
}

// ---------------------------------------------------------------------------------------------

struct ModSpec { ns: &'static str, path: &'static str, fns: &'static [&'static str] }

const MODS: &[ModSpec] = &[
    ModSpec { ns: "Shared", path: "miniz_oxide/src/shared.rs", fns: &[] },
    ModSpec { ns: "Lib", path: "miniz_oxide/src/lib.rs", fns: &["MZFlush::new", "DataFormat::from_window_bits", "DataFormat::to_window_bits"] },
    ModSpec { ns: "Buffer", path: "miniz_oxide/src/deflate/buffer.rs", fns: &["update_hash"] },
    ModSpec { ns: "InflMod", path: "miniz_oxide/src/inflate/mod.rs", fns: &[] },
    ModSpec { ns: "InflCore", path: "miniz_oxide/src/inflate/core.rs", fns: &["num_extra_bits_for_distance_code", "validate_zlib_header", "end_of_input", "State::is_failure"] },
    ModSpec { ns: "InflStream", path: "miniz_oxide/src/inflate/stream.rs", fns: &[] },
    ModSpec { ns: "OutBuf", path: "miniz_oxide/src/inflate/output_buffer.rs", fns: &[] },
    ModSpec { ns: "DeflMod", path: "miniz_oxide/src/deflate/mod.rs", fns: &["From<CompressionLevel> for u8::from"] },
    ModSpec { ns: "DeflCore", path: "miniz_oxide/src/deflate/core.rs", fns: &["TDEFLFlush::new", "From<MZFlush> for TDEFLFlush::from", "change_window_bits_from_format", "limit_level_by_window_bits", "probes_from_flags", "create_comp_flags_from_zip_params", "window_bits_from_flags", "ParamsOxide::max_match_dist"] },
    ModSpec { ns: "Zlib", path: "miniz_oxide/src/deflate/zlib.rs", fns: &["add_fcheck", "zlib_level_from_flags", "header_from_level", "header_from_flags"] },
    ModSpec { ns: "CApi", path: "src/lib.rs", fns: &["mz_deflateBound", "buffer_too_large"] },
    ModSpec { ns: "CApiOxide", path: "src/lib_oxide.rs", fns: &["invalid_window_bits"] },
];

fn collect_items<'a>(items: &'a [Item], out: &mut Vec<&'a Item>) {
    for it in items {
        match it {
            Item::Mod(m) => { if cfg_true(&m.attrs) { if let Some((_, its)) = &m.content { if m.ident != "test" && m.ident != "tests" { collect_items(its, out); } } } }
            Item::Macro(m) => { let _ = m; out.push(it); }
            _ => out.push(it),
        }
    }
}

fn item_attrs(it: &Item) -> &[Attribute] {
    match it { Item::Const(c) => &c.attrs, Item::Fn(f) => &f.attrs, Item::Enum(e) => &e.attrs, Item::Impl(i) => &i.attrs, Item::Static(s) => &s.attrs, Item::Type(t) => &t.attrs, _ => &[] }
}

fn hash_str(s: &str) -> String { let mut h = 0xcbf29ce484222325u64; for b in s.bytes() { h ^= b as u64; h = h.wrapping_mul(0x100000001b3); } format!("{:016x}", h) }

struct FnSrc<'a> { key: String, sig: &'a Signature, block: &'a Block, self_ty: Option<String>, span: Span }

fn impl_name(i: &ItemImpl) -> String {
    let st = i.self_ty.to_token_stream().to_string().replace(' ', "");
    match &i.trait_ { Some((_, p, _)) => format!("{} for {}", p.to_token_stream().to_string().replace(" < ", "<").replace(" >", ">").replace(' ', ""), st), None => st }
}

fn find_fns<'a>(items: &[&'a Item]) -> Vec<FnSrc<'a>> {
    let mut v = vec![];
    for it in items {
        if !cfg_true(item_attrs(it)) { continue; }
        match it {
            Item::Fn(f) => v.push(FnSrc { key: f.sig.ident.to_string(), sig: &f.sig, block: &f.block, self_ty: None, span: f.span() }),
            Item::Impl(i) => {
                let name = impl_name(i);
                let st = i.self_ty.to_token_stream().to_string().replace(' ', "");
                for ii in &i.items { if let ImplItem::Fn(f) = ii { if cfg_true(&f.attrs) { v.push(FnSrc { key: format!("{}::{}", name, f.sig.ident), sig: &f.sig, block: &f.block, self_ty: Some(st.clone()), span: f.span() }); } } }
            }
            Item::Macro(m) => {
                // functions inside `unmangle!( ... )`
                if m.mac.path.segments.last().map(|s| s.ident == "unmangle").unwrap_or(false) {
                    if let Ok(file) = syn::parse2::<File>(m.mac.tokens.clone()) {
                        for it2 in file.items { if let Item::Fn(f) = it2 { let f: &'static ItemFn = Box::leak(Box::new(f)); v.push(FnSrc { key: f.sig.ident.to_string(), sig: &f.sig, block: &f.block, self_ty: None, span: f.span() }); } }
                    }
                }
            }
            _ => {}
        }
    }
    v
}

fn lean_fn_name(key: &str) -> String {
    // "MZFlush::new" -> MZFlush_new ; "From<X> for Y::from" -> Y_from_X
    if let Some(rest) = key.strip_prefix("From<") {
        let (x, tail) = rest.split_once("> for ").unwrap();
        let (y, f) = tail.split_once("::").unwrap();
        return format!("{}_{}_{}", y, f, x);
    }
    key.replace("::", "_")
}

fn main() {
    let a: Vec<String> = std::env::args().collect();
    if a.len() < 3 { eprintln!("usage: mztranslate <repo> <out-dir>"); std::process::exit(2); }
    let repo = &a[1]; let outdir = &a[2];
    let mut errors: Vec<String> = vec![];
    let mut files: Vec<(usize, String, File)> = vec![];
    for (i, m) in MODS.iter().enumerate() {
        let p = format!("{}/{}", repo, m.path);
        match std::fs::read_to_string(&p) {
            Ok(src) => match syn::parse_file(&src) { Ok(f) => files.push((i, src, f)), Err(e) => errors.push(format!("{}: parse error: {}", m.path, e)) },
            Err(e) => errors.push(format!("{}: {}", m.path, e)),
        }
    }
    let mut g = Global::default();
    for (n, t) in [("flags", Ty::U(32)), ("d_params_flags", Ty::U(32)), ("self_flags", Ty::U(32)), ("self_window_bits_max", Ty::U(8)),
                   ("out_len", Ty::U(64)), ("out_pos", Ty::U(64)), ("slice_len", Ty::U(64)), ("position", Ty::U(64)), ("max_count", Ty::U(64)),
                   ("in_buf_len", Ty::U(64)), ("out_max", Ty::U(64)), ("l_counter", Ty::U(32)), ("d_params_prev_return_status", Ty::Enum("TDEFLStatus".into())), ("d_params_flush", Ty::Enum("TDEFLFlush".into())), ("flush", Ty::Enum("TDEFLFlush".into()))] { g.free.insert(n.to_string(), t); }

    // pass 1: enums (discriminants), const and fn signatures
    let mut per_mod_items: Vec<Vec<&Item>> = vec![];
    for (_, _, f) in &files { let mut v = vec![]; collect_items(&f.items, &mut v); per_mod_items.push(v); }
    for ((mi, _, _), items) in files.iter().zip(per_mod_items.iter()) {
        let ns = MODS[*mi].ns;
        for it in items {
            if !cfg_true(item_attrs(it)) { continue; }
            match it {
                Item::Const(c) => { g.consts.entry(c.ident.to_string()).or_default().push((ns.to_string(), ty_from_syn(&c.ty))); }
                Item::Enum(e) => {
                    if e.variants.iter().all(|v| matches!(v.fields, Fields::Unit)) {
                        g.enums.insert(e.ident.to_string(), (ns.to_string(), vec![]));
                        for v in &e.variants { if cfg_true(&v.attrs) { g.variants.entry(v.ident.to_string()).or_default().push((ns.to_string(), e.ident.to_string())); } }
                    }
                }
                _ => {}
            }
        }
        for f in find_fns(items) {
            if MODS[*mi].fns.contains(&f.key.as_str()) {
                let ret = match &f.sig.output { ReturnType::Default => Ty::Unknown, ReturnType::Type(_, t) => { let t = ty_from_syn(t); if t == Ty::Enum("Self".into()) { Ty::Enum(f.self_ty.clone().unwrap_or_default()) } else { t } } };
                let mut ps = vec![];
                for inp in &f.sig.inputs { match inp { FnArg::Typed(pt) => ps.push(ty_from_syn(&pt.ty)), FnArg::Receiver(_) => ps.push(Ty::Enum(f.self_ty.clone().unwrap_or_default())) } }
                g.fns.entry(lean_fn_name(&f.key)).or_default().push((ns.to_string(), ret, ps));
            }
        }
    }

    let mut defs: Vec<(String, String)> = vec![]; // (qualified name, text)
    let mut manifest = String::from("[\n");
    let mut first_manifest = true;
    let mut add_manifest = |path: &str, item: &str, sp: Span, text: &str, manifest: &mut String| {
        if !first_manifest { manifest.push_str(",\n"); } first_manifest = false;
        write!(manifest, "  {{\"file\": \"{}\", \"item\": \"{}\", \"lines\": [{}, {}], \"hash\": \"{}\"}}", path, item.replace('"', "'"), sp.start().line, sp.end().line, hash_str(text)).unwrap();
    };

    for ((mi, _, _), items) in files.iter().zip(per_mod_items.iter()) {
        let spec = &MODS[*mi];
        let ns = spec.ns;
        // enums
        for it in items {
            if !cfg_true(item_attrs(it)) { continue; }
            if let Item::Enum(e) = it {
                if !g.enums.contains_key(&e.ident.to_string()) { continue; }
                let mut next: Option<String> = None;
                let mut tr = Tr::new(&g, ns);
                let mut names = vec![];
                for v in &e.variants {
                    if !cfg_true(&v.attrs) { continue; }
                    let val = if let Some((_, d)) = &v.discriminant {
                        match tr.ex(d, &Ty::I(64)) { Ok((s, _)) => s, Err(er) => { errors.push(format!("{}: enum {}::{}: {}", spec.path, e.ident, v.ident, er)); "(0:Int)".into() } }
                    } else { match &next { None => "(0:Int)".into(), Some(p) => format!("({} + 1)", p) } };
                    let q = format!("Gen.{}.{}.{}", ns, e.ident, v.ident);
                    defs.push((q.clone(), format!("-- enum {}::{} ({}:{})\ndef {} : Int := {}\n", e.ident, v.ident, spec.path, v.span().start().line, q, val)));
                    next = Some(q.clone());
                    names.push(q);
                }
                let q = format!("Gen.{}.{}.all", ns, e.ident);
                defs.push((q.clone(), format!("def {} : List Int := [{}]\n", q, names.join(", "))));
                add_manifest(spec.path, &format!("enum {}", e.ident), e.span(), &e.to_token_stream().to_string(), &mut manifest);
            }
        }
        // consts
        for it in items {
            if !cfg_true(item_attrs(it)) { continue; }
            if let Item::Const(c) = it {
                let t = ty_from_syn(&c.ty);
                let mut tr = Tr::new(&g, ns);
                let q = format!("Gen.{}.{}", ns, c.ident);
                match tr.ex(&c.expr, &if let Ty::Arr(el) = &t { Ty::Arr(el.clone()) } else { t.clone() }) {
                    Ok((s, _)) => {
                        defs.push((q.clone(), format!("-- const {} ({}:{})\ndef {} : {} := {}\n", c.ident, spec.path, c.span().start().line, q, t.lean_type(), s)));
                        add_manifest(spec.path, &format!("const {}", c.ident), c.span(), &c.to_token_stream().to_string(), &mut manifest);
                    }
                    Err(e) => { defs.push((format!("{}!skipped", q), format!("-- const {} ({}) not translated: {}\n", c.ident, spec.path, e.replace('\n', " ")))); }
                }
            }
        }
        // functions, in the order requested
        let fns = find_fns(items);
        for want in spec.fns {
            let f = match fns.iter().find(|f| f.key == *want) { Some(f) => f, None => { errors.push(format!("{}: function `{}` not found", spec.path, want)); continue; } };
            let mut tr = Tr::new(&g, ns);
            tr.self_enum = f.self_ty.clone();
            let mut params = vec![];
            for inp in &f.sig.inputs {
                match inp {
                    FnArg::Typed(pt) => {
                        let n = if let Pat::Ident(i) = &*pt.pat { i.ident.to_string() } else { errors.push(format!("{}: {}: complex parameter", spec.path, want)); continue; };
                        let t = ty_from_syn(&pt.ty);
                        params.push(format!("({} : {})", mangle(&n), t.lean_type())); tr.bind(&n, t);
                    }
                    FnArg::Receiver(_) => { let t = Ty::Enum(f.self_ty.clone().unwrap_or_default()); params.push("(self_ : Int)".into()); tr.bind("self", t); }
                }
            }
            let ret = match &f.sig.output { ReturnType::Default => Ty::Unknown, ReturnType::Type(_, t) => ty_from_syn(t) };
            let mut body = vec![];
            match tr.stmts(&f.block.stmts, &ret, 2, &mut body, true) {
                Ok(_) => {
                    let free: Vec<String> = tr.free_used.iter().map(|(n, t)| format!("({} : {})", mangle(n), t.lean_type())).collect();
                    let q = format!("Gen.{}.{}", ns, lean_fn_name(want));
                    defs.push((q.clone(), format!("-- fn {} ({}:{})\ndef {} {} {} : {} := Id.run do\n{}\n", want, spec.path, f.span.start().line, q, free.join(" "), params.join(" "), ret.lean_type(), body.join("\n"))));
                    add_manifest(spec.path, &format!("fn {}", want), f.span, &f.block.to_token_stream().to_string(), &mut manifest);
                }
                Err(e) => errors.push(format!("{}: fn `{}` is outside the translatable subset: {}", spec.path, want, e)),
            }
        }
        // fragments
        let mut frag = String::new();
        if ns == "OutBuf" {
            // OutputBuffer::from_slice_pos_and_max: the statements before the struct literal, returning `max`
            match fns.iter().find(|f| f.key == "OutputBuffer<'a>::from_slice_pos_and_max" || f.key.ends_with("::from_slice_pos_and_max")) {
                None => errors.push(format!("{}: from_slice_pos_and_max not found", spec.path)),
                Some(f) => {
                    let mut tr = Tr::new(&g, ns);
                    tr.bind("position", Ty::U(64)); tr.bind("max_count", Ty::U(64));
                    let n = f.block.stmts.len();
                    let mut body = vec![];
                    let is_struct_tail = matches!(f.block.stmts.last(), Some(Stmt::Expr(Expr::Struct(_), None)));
                    if !is_struct_tail { errors.push(format!("{}: from_slice_pos_and_max: tail is not a struct literal", spec.path)); }
                    else {
                        match tr.stmts(&f.block.stmts[..n - 1], &Ty::U(64), 2, &mut body, false) {
                            Ok(_) => {
                                body.push("  return max".into());
                                defs.push(("Gen.OutBuf.window_end".into(), format!("-- fragment: `max` computed by OutputBuffer::from_slice_pos_and_max ({}:{})\ndef Gen.OutBuf.window_end (slice_len : Int) (position : Int) (max_count : Int) : Int := Id.run do\n{}\n", spec.path, f.span.start().line, body.join("\n"))));
                                add_manifest(spec.path, "fragment window_end", f.span, &f.block.to_token_stream().to_string(), &mut manifest);
                            }
                            Err(e) => errors.push(format!("{}: from_slice_pos_and_max: {}", spec.path, e)),
                        }
                    }
                }
            }
        }
        if ns == "InflCore" { fragment_geometry(&g, &fns, spec, &mut frag, &mut errors, &mut manifest, &mut add_manifest); if !frag.is_empty() { defs.push(("Gen.InflCore.geometry_rejects".into(), frag.clone())); }
            fragment_decoder_guards(&g, &fns, spec, &mut defs, &mut errors, &mut manifest, &mut add_manifest); }
        if ns == "DeflCore" { fragment_routing(&g, &fns, spec, &mut frag, &mut errors, &mut manifest, &mut add_manifest); if !frag.is_empty() { defs.push(("Gen.DeflCore.route".into(), frag.clone())); }
            structural_consts(&fns, spec, &mut defs, &mut errors);
            let mut frag2 = String::new();
            fragment_guard(&g, &fns, spec, &mut frag2, &mut errors, &mut manifest, &mut add_manifest); if !frag2.is_empty() { defs.push(("Gen.DeflCore.guard_rejects".into(), frag2)); } }
    }
    // order definitions so that every `Gen.…` name is defined before it is used
    let names: Vec<String> = defs.iter().map(|d| d.0.clone()).collect();
    let ident_chars = |c: char| c.is_alphanumeric() || c == '_' || c == '.';
    let deps: Vec<Vec<usize>> = defs.iter().map(|(q, text)| {
        let mut v = vec![];
        let body = text.split_once(":=").map(|x| x.1).unwrap_or("");
        let mut i = 0; let b: Vec<char> = body.chars().collect();
        while i < b.len() {
            if b[i] == 'G' && b[i..].iter().take(4).collect::<String>() == "Gen." && (i == 0 || !ident_chars(b[i - 1])) {
                let mut j = i; while j < b.len() && ident_chars(b[j]) { j += 1; }
                let id: String = b[i..j].iter().collect();
                if let Some(k) = names.iter().position(|n| *n == id) { if names[k] != *q && !v.contains(&k) { v.push(k); } }
                i = j;
            } else { i += 1; }
        }
        v
    }).collect();
    let mut emitted = vec![false; defs.len()];
    let mut order = vec![];
    loop {
        let mut progress = false;
        for k in 0..defs.len() {
            if !emitted[k] && deps[k].iter().all(|&d| emitted[d]) { emitted[k] = true; order.push(k); progress = true; }
        }
        if !progress { break; }
    }
    for k in 0..defs.len() { if !emitted[k] { errors.push(format!("definition cycle involving {}", defs[k].0)); } }
    let mut out = String::new();
    out.push_str("/-\nREGENERATED by /verif/translator from /repo's current sources on every run of bin/check.\nDo not edit. Every definition below is the translation of the Rust item named in the comment above it.\n-/\nimport MinizProof.Gen.Prelude\nset_option maxRecDepth 100000\nset_option linter.unusedVariables false\n\n");
    for k in order { out.push_str(&defs[k].1); out.push('\n'); }
    manifest.push_str("\n]\n");
    std::fs::create_dir_all(outdir).unwrap();
    std::fs::write(format!("{}/All.lean", outdir), &out).unwrap();
    std::fs::write(format!("{}/gen_manifest.json", outdir), &manifest).unwrap();
    {
        let mut len_term = |_file: &str, e: &Expr| -> Option<String> {
            let mut tr = Tr::new(&g, "");
            tr.ex(e, &Ty::U(64)).ok().map(|x| x.0)
        };
        match facts::emit(repo, outdir, &mut len_term) { Ok(()) => {}, Err(e) => errors.push(format!("facts: {}", e)) }
    }
    if !errors.is_empty() {
        for e in &errors { println!("TRANSLATE-ERROR {}", e); }
        std::process::exit(1);
    }
    println!("TRANSLATE-OK items={}", manifest.matches("\"item\"").count());
}

/// The geometry test at the top of `decompress_with_limit`: the statements up to and including
/// the first `if … { return (TINFLStatus::BadParam, 0, 0); }`, as a predicate over
/// (flags, out.len(), out_pos).
fn fragment_geometry(g: &Global, fns: &[FnSrc], spec: &ModSpec, out: &mut String, errors: &mut Vec<String>, manifest: &mut String, add: &mut dyn FnMut(&str, &str, Span, &str, &mut String)) {
    let f = match fns.iter().find(|f| f.key == "decompress_with_limit") { Some(f) => f, None => { errors.push("inflate/core.rs: decompress_with_limit not found".into()); return; } };
    let mut tr = Tr::new(g, "InflCore");
    tr.bind("flags", Ty::U(32)); tr.bind("out_pos", Ty::U(64));
    let mut body = vec![];
    let mut found = false;
    let mut text = String::new();
    for s in &f.block.stmts {
        text.push_str(&s.to_token_stream().to_string());
        match s {
            Stmt::Local(_) => { if let Err(e) = tr.stmts(std::slice::from_ref(s), &Ty::Bool, 2, &mut body, false) { errors.push(format!("{}: geometry fragment: {}", spec.path, e)); return; } }
            Stmt::Expr(Expr::If(i), _) => {
                let is_badparam = i.then_branch.to_token_stream().to_string().contains("BadParam");
                if !is_badparam { errors.push(format!("{}: geometry fragment: first `if` does not return BadParam", spec.path)); return; }
                match tr.ex(&i.cond, &Ty::Bool) { Ok((c, _)) => { body.push(format!("  return {}", c)); found = true; } Err(e) => { errors.push(format!("{}: geometry fragment: {}", spec.path, e)); return; } }
                break;
            }
            _ => { errors.push(format!("{}: geometry fragment: unexpected statement before the parameter check", spec.path)); return; }
        }
    }
    if !found { errors.push(format!("{}: geometry fragment: parameter check not found", spec.path)); return; }
    writeln!(out, "-- fragment: parameter check at the top of decompress_with_limit ({}:{}); true = BadParam", spec.path, f.span.start().line).unwrap();
    writeln!(out, "def Gen.InflCore.geometry_rejects (flags : Int) (out_len : Int) (out_pos : Int) : Bool := Id.run do\n{}\n", body.join("\n")).unwrap();
    add(spec.path, "fragment geometry_rejects", f.span, &text, manifest);
}

/// Validity checks of the decoder that sit inside untranslated functions, as predicates over the
/// locals they read (true = the stream is rejected):
///  * `tree_oversubscribed(left)` and `tree_incomplete_rejects(total, bt, max_code_len)`: the
///    conditions of the two `if`s in `init_tree` that return `Jump(BadTotalSymbols)`;
///  * `fast_litlen_invalid(l_counter)` and `fast_dist_invalid(symbol)`: the conditions in
///    `decompress_fast` that lead to `InvalidLitlen` / `InvalidDist`.
fn fragment_decoder_guards(g: &Global, fns: &[FnSrc], spec: &ModSpec, defs: &mut Vec<(String, String)>, errors: &mut Vec<String>, manifest: &mut String, add: &mut dyn FnMut(&str, &str, Span, &str, &mut String)) {
    use syn::visit::Visit;
    // every `if` together with the simple `let`s that precede it in its block
    struct Ifs<'a> { v: Vec<(&'a ExprIf, Vec<&'a Stmt>)> }
    impl<'ast> Visit<'ast> for Ifs<'ast> {
        fn visit_block(&mut self, b: &'ast Block) {
            let mut before: Vec<&'ast Stmt> = vec![];
            for st in &b.stmts {
                if let Stmt::Expr(Expr::If(i), _) = st { self.v.push((i, before.clone())); }
                if let Stmt::Local(_) = st { before.push(st); }
            }
            syn::visit::visit_block(self, b);
        }
        fn visit_expr_if(&mut self, i: &'ast ExprIf) {
            // `else if` chains: the nested `if` is not a statement of a block
            if let Some((_, e)) = &i.else_branch { if let Expr::If(n) = &**e { self.v.push((n, vec![])); } }
            syn::visit::visit_expr_if(self, i);
        }
    }
    let leads_to = |b: &Block, state: &str| -> bool { b.to_token_stream().to_string().contains(state) && b.stmts.len() <= 2 };
    let mut emit = |fname: &str, state: &str, mention: Option<&str>, avoid: Option<&str>, binds: &[(&str, Ty)], def: &str, params: &str, what: &str, defs: &mut Vec<(String, String)>, errors: &mut Vec<String>, manifest: &mut String| {
        let f = match fns.iter().find(|f| f.key == fname) { Some(f) => f, None => { errors.push(format!("{}: {} not found", spec.path, fname)); return; } };
        let mut v = Ifs { v: vec![] };
        v.visit_block(f.block);
        let hits: Vec<&(&ExprIf, Vec<&Stmt>)> = v.v.iter().filter(|(i, _)| {
            let c = i.cond.to_token_stream().to_string();
            leads_to(&i.then_branch, state) && mention.map(|m| c.contains(m)).unwrap_or(true) && avoid.map(|m| !c.contains(m)).unwrap_or(true)
        }).collect();
        if hits.len() != 1 { errors.push(format!("{}: {}: expected exactly one check leading to {} ({:?}/{:?}), found {}", spec.path, fname, state, mention, avoid, hits.len())); return; }
        let (the_if, before) = hits[0];
        let mut tr = Tr::new(g, "InflCore");
        for (n, t) in binds { tr.bind(n, t.clone()); }
        let mut body: Vec<String> = vec![];
        // simple lets before the check that translate from the bound locals (never a re-binding of one of them)
        for st in before {
            if let Stmt::Local(l) = st { if let Pat::Ident(i) = &l.pat {
                let n = i.ident.to_string();
                if binds.iter().any(|(b, _)| *b == n) { continue; }
                let mut probe = vec![];
                let fu = tr.free_used.len();
                if tr.stmts(std::slice::from_ref(*st), &Ty::Bool, 2, &mut probe, false).is_ok() && tr.free_used.len() == fu { body.extend(probe); } else { tr.free_used.truncate(fu); }
            } }
        }
        match tr.ex(&the_if.cond, &Ty::Bool) {
            Ok((c, Ty::Bool)) => {
                let mut out = String::new();
                writeln!(out, "-- fragment: {} ({}:{}); true = rejected", what, spec.path, the_if.span().start().line).unwrap();
                if body.is_empty() { writeln!(out, "def Gen.InflCore.{} {} : Bool := {}\n", def, params, c).unwrap(); }
                else { writeln!(out, "def Gen.InflCore.{} {} : Bool := Id.run do\n{}\n  return {}\n", def, params, body.join("\n"), c).unwrap(); }
                defs.push((format!("Gen.InflCore.{}", def), out));
                add(spec.path, &format!("fragment {}", def), the_if.span(), &the_if.cond.to_token_stream().to_string(), manifest);
            }
            Ok(_) => errors.push(format!("{}: {}: the check leading to {} is not a boolean expression", spec.path, fname, state)),
            Err(e) => errors.push(format!("{}: {}: check leading to {}: {}", spec.path, fname, state, e)),
        }
    };
    emit("init_tree", "BadTotalSymbols", Some("left"), None, &[("left", Ty::I(32))], "tree_oversubscribed", "(left : Int)",
        "over-subscription check in init_tree", defs, errors, manifest);
    emit("init_tree", "BadTotalSymbols", None, Some("left"), &[("total", Ty::U(32)), ("bt", Ty::U(64)), ("max_code_len", Ty::U(32))],
        "tree_incomplete_rejects", "(total : Int) (bt : Int) (max_code_len : Int)", "incomplete-code check in init_tree", defs, errors, manifest);
    emit("decompress_fast", "InvalidLitlen", Some("counter"), None, &[("l_counter", Ty::U(32))], "fast_litlen_invalid", "(l_counter : Int)",
        "literal/length symbol check in decompress_fast", defs, errors, manifest);
    emit("decompress_fast", "InvalidDist", Some("symbol"), None, &[("symbol", Ty::I(32))], "fast_dist_invalid", "(symbol : Int)",
        "distance symbol check in decompress_fast", defs, errors, manifest);
}

/// The engine routing in `compress_inner`: the `let`s feeding `let compress_success = if … `
/// as a function of the flags: 0 = compress_stored, 1 = compress_fast, 2 = compress_normal.
fn fragment_routing(g: &Global, fns: &[FnSrc], spec: &ModSpec, out: &mut String, errors: &mut Vec<String>, manifest: &mut String, add: &mut dyn FnMut(&str, &str, Span, &str, &mut String)) {
    let f = match fns.iter().find(|f| f.key == "compress_inner") { Some(f) => f, None => { errors.push("deflate/core.rs: compress_inner not found".into()); return; } };
    let mut tr = Tr::new(g, "DeflCore");
    tr.call_consts.insert("compress_stored".into(), 0);
    tr.call_consts.insert("compress_fast".into(), 1);
    tr.call_consts.insert("compress_normal".into(), 2);
    let mut body = vec![];
    let mut text = String::new();
    let mut done = false;
    // every simple `let` before `compress_success` that translates from what is bound so far (the
    // flags word and earlier such lets) is taken; anything else is not needed by the routing and skipped
    for s in &f.block.stmts {
        if let Stmt::Local(l) = s {
            if let Pat::Ident(i) = &l.pat {
                let n = i.ident.to_string();
                if n == "compress_success" {
                    text.push_str(&s.to_token_stream().to_string());
                    match tr.ex(&l.init.as_ref().unwrap().expr, &Ty::I(32)) { Ok((v, _)) => { body.push(format!("  return {}", v)); done = true; } Err(e) => { errors.push(format!("{}: routing fragment: {}", spec.path, e)); return; } }
                    break;
                }
                if ["prev_ok", "flush_finish_once"].contains(&n.as_str()) { continue; }
                let mut probe = vec![];
                let free_before = tr.free_used.len();
                if tr.stmts(std::slice::from_ref(s), &Ty::I(32), 2, &mut probe, false).is_ok() && tr.free_used.iter().all(|(n, _)| n == "d_params_flags") {
                    text.push_str(&s.to_token_stream().to_string());
                    body.extend(probe);
                } else { tr.free_used.truncate(free_before); }
            }
        }
    }
    if !done { errors.push(format!("{}: routing fragment: `let compress_success = if …` not found", spec.path)); return; }
    writeln!(out, "-- fragment: engine routing in compress_inner ({}:{}); 0 stored, 1 fast, 2 normal", spec.path, f.span.start().line).unwrap();
    writeln!(out, "def Gen.DeflCore.route (d_params_flags : Int) : Int := Id.run do\n{}\n", body.join("\n")).unwrap();
    add(spec.path, "fragment route", f.span, &text, manifest);
}

/// The usage guard at the top of `compress_inner`: the two `let`s `prev_ok`, `flush_finish_once`
/// and the condition of the `if` that returns `BadParam`, as a predicate over
/// (prev_return_status, previous flush, requested flush).
fn fragment_guard(g: &Global, fns: &[FnSrc], spec: &ModSpec, out: &mut String, errors: &mut Vec<String>, manifest: &mut String, add: &mut dyn FnMut(&str, &str, Span, &str, &mut String)) {
    let f = match fns.iter().find(|f| f.key == "compress_inner") { Some(f) => f, None => { errors.push("deflate/core.rs: compress_inner not found".into()); return; } };
    let mut tr = Tr::new(g, "DeflCore");
    let mut body = vec![];
    let mut text = String::new();
    let mut done = false;
    // the guard: the first top-level `if` whose then-branch mentions BadParam; the locals it needs: every
    // `let <ident> = <expr>;` before it whose name the condition uses, directly or through other such locals
    // (whatever they are called: a rewrite of the condition through differently named helpers is still read)
    fn idents_of(e: &Expr) -> Vec<String> {
        use syn::visit::Visit;
        struct V(Vec<String>);
        impl<'ast> Visit<'ast> for V {
            fn visit_expr_path(&mut self, p: &'ast ExprPath) { if p.path.segments.len() == 1 { self.0.push(p.path.segments[0].ident.to_string()); } }
        }
        let mut v = V(vec![]); v.visit_expr(e); v.0
    }
    let guard_idx = f.block.stmts.iter().position(|s| matches!(s, Stmt::Expr(Expr::If(i), _) if i.then_branch.to_token_stream().to_string().contains("BadParam")));
    if let Some(gi) = guard_idx {
        let cond = match &f.block.stmts[gi] { Stmt::Expr(Expr::If(i), _) => &*i.cond, _ => unreachable!() };
        let mut needed: Vec<String> = idents_of(cond);
        let mut keep = vec![false; gi];
        for k in (0..gi).rev() {
            if let Stmt::Local(l) = &f.block.stmts[k] {
                if let (Pat::Ident(i), Some(init)) = (&l.pat, &l.init) {
                    if needed.contains(&i.ident.to_string()) { keep[k] = true; needed.extend(idents_of(&init.expr)); }
                }
            }
        }
        for k in 0..gi {
            if keep[k] {
                let s = &f.block.stmts[k];
                text.push_str(&s.to_token_stream().to_string());
                if let Err(e) = tr.stmts(std::slice::from_ref(s), &Ty::Bool, 2, &mut body, false) { errors.push(format!("{}: guard fragment: {}", spec.path, e)); return; }
            }
        }
        text.push_str(&cond.to_token_stream().to_string());
        match tr.ex(cond, &Ty::Bool) { Ok((c, _)) => { body.push(format!("  return {}", c)); done = true; } Err(e) => { errors.push(format!("{}: guard fragment: {}", spec.path, e)); return; } }
    }
    if !done { errors.push(format!("{}: guard fragment: the BadParam guard of compress_inner was not found", spec.path)); return; }
    let mut free: Vec<String> = tr.free_used.iter().map(|(n, _)| n.clone()).collect();
    free.sort();
    let mut want = vec!["d_params_prev_return_status".to_string(), "d_params_flush".to_string(), "flush".to_string()];
    want.sort();
    if free != want {
        errors.push(format!("{}: guard fragment: unexpected inputs {:?}", spec.path, free)); return;
    }
    writeln!(out, "-- fragment: usage guard of compress_inner ({}:{}); true = BadParam", spec.path, f.span.start().line).unwrap();
    writeln!(out, "def Gen.DeflCore.guard_rejects (d_params_prev_return_status : Int) (d_params_flush : Int) (flush : Int) : Bool := Id.run do\n{}\n", body.join("\n")).unwrap();
    add(spec.path, "fragment guard_rejects", f.span, &text, manifest);
}

/// Integer literals that shape loops and calls in untranslated functions, extracted so that
/// theorems about buffer capacities quantify over what the source says now:
///  * `LZ_LITERAL_BATCH`: the bound N of the `for _ in 0..N` literal-batching loop in `compress_lz_codes`;
///  * `DYN_CODE_SIZE_LIMITS`: the code-size limits passed to `optimize_table` in `start_dynamic_block`;
///  * `STATIC_CODE_SIZE_LIMITS`: the same for `start_static_block`.
fn structural_consts(fns: &[FnSrc], spec: &ModSpec, defs: &mut Vec<(String, String)>, errors: &mut Vec<String>) {
    use syn::visit::Visit;
    struct V { fors: Vec<i128>, opt_args: Vec<String>, tight: Vec<i128>, write_codes: usize }
    impl<'ast> Visit<'ast> for V {
        fn visit_expr_for_loop(&mut self, f: &'ast ExprForLoop) {
            if let Expr::Range(r) = &*f.expr {
                if let (Some(lo), Some(hi)) = (&r.start, &r.end) {
                    if let (Expr::Lit(ExprLit { lit: Lit::Int(a), .. }), Expr::Lit(ExprLit { lit: Lit::Int(b), .. })) = (&**lo, &**hi) {
                        if a.base10_parse::<i128>().ok() == Some(0) { if let Ok(n) = b.base10_parse::<i128>() { self.fors.push(n); } }
                    }
                }
            }
            syn::visit::visit_expr_for_loop(self, f);
        }
        fn visit_expr_binary(&mut self, b: &'ast ExprBinary) {
            // `<…>.code_position > LZ_CODE_BUF_SIZE - N`
            if let BinOp::Gt(_) = b.op {
                let left_is_pos = match &*b.left { Expr::Field(f) => matches!(&f.member, Member::Named(id) if id == "code_position"), _ => false };
                if left_is_pos {
                    if let Expr::Binary(r) = &*b.right {
                        if let (BinOp::Sub(_), Expr::Path(pth), Expr::Lit(ExprLit { lit: Lit::Int(n), .. })) = (&r.op, &*r.left, &*r.right) {
                            if pth.path.segments.last().map(|x| x.ident == "LZ_CODE_BUF_SIZE").unwrap_or(false) { if let Ok(v) = n.base10_parse::<i128>() { self.tight.push(v); } }
                        }
                    }
                }
            }
            syn::visit::visit_expr_binary(self, b);
        }
        fn visit_expr_method_call(&mut self, m: &'ast ExprMethodCall) {
            if m.method == "write_code" { self.write_codes += 1; }
            if m.method == "optimize_table" {
                // the limit: an integer literal, or the name of a constant of this module (emitted as a reference to
                // the translated constant, so the theorems still quantify over what the source says)
                match m.args.iter().nth(2) {
                    Some(Expr::Lit(ExprLit { lit: Lit::Int(a), .. })) => { if let Ok(n) = a.base10_parse::<i128>() { self.opt_args.push(format!("({}:Int)", n)); } else { self.opt_args.push("?".into()); } }
                    Some(Expr::Path(pth)) if pth.path.segments.len() == 1 && pth.path.segments[0].ident.to_string().chars().all(|c| c.is_ascii_uppercase() || c.is_ascii_digit() || c == '_') =>
                        self.opt_args.push(format!("Gen.DeflCore.{}", pth.path.segments[0].ident)),
                    _ => self.opt_args.push("?".into()),
                }
            }
            syn::visit::visit_expr_method_call(self, m);
        }
    }
    let mut get = |name: &str| -> Option<V> {
        let f = fns.iter().find(|f| f.key.ends_with(name))?;
        let mut v = V { fors: vec![], opt_args: vec![], tight: vec![], write_codes: 0 };
        v.visit_block(f.block);
        Some(v)
    };
    match get("compress_lz_codes") {
        Some(v) if v.fors.len() == 1 => defs.push(("Gen.DeflCore.LZ_LITERAL_BATCH".into(), format!("-- structural constant: bound of the literal batching loop in compress_lz_codes ({})\ndef Gen.DeflCore.LZ_LITERAL_BATCH : Int := ({}:Int)\n", spec.path, v.fors[0]))),
        _ => errors.push(format!("{}: compress_lz_codes: expected exactly one `for _ in 0..N` loop", spec.path)),
    }
    // LZ code buffer: the slack N of every `code_position > LZ_CODE_BUF_SIZE - N` test in the two token
    // engines, and the number of code bytes one recorded literal / match writes
    for (fname, cname) in [("compress_normal", "LZ_TIGHT_SLACK_NORMAL"), ("compress_fast", "LZ_TIGHT_SLACK_FAST")] {
        match get(fname) {
            Some(v) if !v.tight.is_empty() => defs.push((format!("Gen.DeflCore.{}", cname), format!("-- structural constant: slack N of each `code_position > LZ_CODE_BUF_SIZE - N` test in {} ({})\ndef Gen.DeflCore.{} : Array Int := #[{}]\n", fname, spec.path, cname, v.tight.iter().map(|x| format!("({}:Int)", x)).collect::<Vec<_>>().join(", ")))),
            _ => errors.push(format!("{}: {}: no `code_position > LZ_CODE_BUF_SIZE - N` test found", spec.path, fname)),
        }
    }
    for (fname, cname) in [("record_literal", "RECORD_LITERAL_CODES"), ("record_match", "RECORD_MATCH_CODES")] {
        match get(fname) {
            Some(v) if v.write_codes > 0 => defs.push((format!("Gen.DeflCore.{}", cname), format!("-- structural constant: number of write_code calls in {} ({})\ndef Gen.DeflCore.{} : Int := ({}:Int)\n", fname, spec.path, cname, v.write_codes))),
            _ => errors.push(format!("{}: {}: no write_code call found", spec.path, fname)),
        }
    }
    for (fname, cname) in [("HuffmanOxide::start_dynamic_block", "DYN_CODE_SIZE_LIMITS"), ("HuffmanOxide::start_static_block", "STATIC_CODE_SIZE_LIMITS")] {
        match get(fname) {
            Some(v) if !v.opt_args.is_empty() && v.opt_args.iter().all(|x| x != "?") => defs.push((format!("Gen.DeflCore.{}", cname), format!("-- structural constant: code size limits passed to optimize_table in {} ({})\ndef Gen.DeflCore.{} : Array Int := #[{}]\n", fname, spec.path, cname, v.opt_args.join(", ")))),
            _ => errors.push(format!("{}: {}: optimize_table calls with literal limits not found", spec.path, fname)),
        }
    }
}

#[allow(dead_code)]
fn unused(_: BTreeMap<String, String>) {}
