/-
L0 specification: Adler-32 (RFC 1950 §8.2/§9) and CRC-32 (ISO 3309 / ITU-T V.42, as in RFC 1952 §8),
written from the RFC text. Shares nothing with the crate. Core Lean only.
-/
namespace Spec

/-- Largest prime below 2^16 (RFC 1950). -/
def adlerBase : Nat := 65521

/-- One byte of Adler-32: `s1 += b; s2 += s1`, both modulo 65521. State is `(s1, s2)`. -/
def adlerStep (s : Nat × Nat) (b : UInt8) : Nat × Nat :=
  let a := (s.1 + b.toNat) % adlerBase
  (a, (s.2 + a) % adlerBase)

def adlerUnpack (x : Nat) : Nat × Nat := (x % 65536, x / 65536 % 65536)
def adlerPack (s : Nat × Nat) : Nat := s.2 * 65536 + s.1

/-- Adler-32 of `d` continuing from the packed checksum `init` (1 for a fresh checksum). -/
def adler32 (init : Nat) (d : List UInt8) : Nat :=
  adlerPack (d.foldl adlerStep (adlerUnpack init))

/-- One bit of the reflected CRC-32 with polynomial 0xEDB88320. -/
def crcBit (c : Nat) : Nat :=
  if c % 2 = 1 then (c / 2) ^^^ 0xEDB88320 else c / 2

def crcByteRaw (c : Nat) (b : UInt8) : Nat :=
  crcBit (crcBit (crcBit (crcBit (crcBit (crcBit (crcBit (crcBit (c ^^^ b.toNat))))))))

def crcMask : Nat := 0xFFFFFFFF

/-- CRC-32 of `d` continuing from the finalized value `init` (0 for a fresh CRC).
    Pre- and post-conditioning by complement, as zlib's `crc32(crc, buf, len)`. -/
def crc32 (init : Nat) (d : List UInt8) : Nat :=
  (d.foldl crcByteRaw (init ^^^ crcMask)) ^^^ crcMask

end Spec
