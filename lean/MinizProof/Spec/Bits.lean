/-
L0 specification: the DEFLATE bit stream (RFC 1951 §3.1.1): bytes are consumed starting from
the least-significant bit; multi-bit fields other than Huffman codes are stored LSB first.
-/
namespace Spec

/-- A read position in a byte string, counted in bits from the start. -/
structure BitPos where
  data : Array UInt8
  pos  : Nat

/-- Bit `i` of the stream (LSB-first inside each byte), `none` past the end. -/
def bitAt (data : Array UInt8) (i : Nat) : Option Nat :=
  match data[i / 8]? with
  | some b => some ((b.toNat >>> (i % 8)) % 2)
  | none => none

/-- The `n`-bit little-endian field starting at bit `i`; `none` if the stream is too short. -/
def bitsAt (data : Array UInt8) (i : Nat) : Nat → Option Nat
  | 0 => some 0
  | n + 1 =>
    match bitAt data i, bitsAt data (i + 1) n with
    | some b, some r => some (b + 2 * r)
    | _, _ => none

def totalBits (data : Array UInt8) : Nat := 8 * data.size

end Spec
