/-
L0 specification: the DEFLATE compressed data format (RFC 1951) and the zlib wrapper (RFC 1950)
as a reference decoder written from the RFC text: block grammar, code-length alphabet with the
16/17/18 repeat codes, length and distance base/extra values BY FORMULA (not by table), LZ77
resolution byte by byte. The decoder also returns a trace (blocks, tokens) so that properties about
what an encoder emitted can be stated over it.
-/
import MinizProof.Spec.Huffman
import MinizProof.Spec.Checksum
namespace Spec

inductive Reject
  | blockType | storedLen | tableSizes | clenCode | repeatNoPrev | codeRun
  | litlenCode | distCode | badLitlenSym | badDistSym | distTooFar
  | zlibHeader | adlerMismatch
deriving DecidableEq, Repr

inductive Verdict (α : Type)
  | accept (a : α)
  | reject (why : Reject)
  | truncated (sofar : Array UInt8)   -- input ended first; the output decodable before that
  | fuel
deriving Repr

inductive Token
  | lit (b : UInt8)
  | copy (len dist : Nat)
deriving DecidableEq, Repr

/-- Length symbol 257..285 ↦ (base, extra bits) — RFC 1951 §3.2.5, computed. -/
def lengthBaseExtra (sym : Nat) : Nat × Nat :=
  let c := sym - 257
  if c < 8 then (3 + c, 0)
  else if c = 28 then (258, 0)
  else let e := c / 4 - 1; (3 + ((4 + c % 4) <<< e), e)

/-- Distance symbol 0..29 ↦ (base, extra bits) — RFC 1951 §3.2.5, computed. -/
def distBaseExtra (d : Nat) : Nat × Nat :=
  if d < 4 then (d + 1, 0)
  else let e := d / 2 - 1; (1 + ((2 + d % 2) <<< e), e)

/-- Order in which code-length-code lengths are stored (RFC 1951 §3.2.7). -/
def clenOrder : List Nat := [16, 17, 18, 0, 8, 7, 9, 6, 10, 5, 11, 4, 12, 3, 13, 2, 14, 1, 15]

/-- Fixed Huffman code lengths (RFC 1951 §3.2.6). -/
def fixedLitLens : Array Nat :=
  Array.ofFn (n := 288) fun i =>
    if i.val < 144 then 8 else if i.val < 256 then 9 else if i.val < 280 then 7 else 8
def fixedDistLens : Array Nat := Array.replicate 32 5
def fixedLitCode : Code := mkCode fixedLitLens
def fixedDistCode : Code := mkCode fixedDistLens

structure BlockInfo where
  final    : Bool
  btype    : Nat
  bitStart : Nat
  bitEnd   : Nat
  outStart : Nat
  outEnd   : Nat
  litLens  : Array Nat
  distLens : Array Nat
  clenLens : Array Nat
  tokens   : Array Token
deriving Repr

/-- Decoder state: position, produced output. `pre` is the history a match may reach before
    the start of the output (empty for a flat buffer; the ring contents for a ring buffer). -/
structure St where
  pos : Nat
  out : Array UInt8

/-- Byte `k` positions back from the end of `pre ++ out`. -/
def histByte (pre out : Array UInt8) (dist : Nat) : UInt8 :=
  if dist ≤ out.size then out.getD (out.size - dist) 0
  else pre.getD (pre.size + out.size - dist) 0

/-- LZ77 copy, one byte at a time (so overlapping copies replicate). -/
def copyMatch (pre : Array UInt8) (out : Array UInt8) (dist : Nat) : Nat → Array UInt8
  | 0 => out
  | n + 1 => copyMatch pre (out.push (histByte pre out dist)) dist n

/-- One step of reading the code lengths of a dynamic block: the symbols 0..15 are lengths,
    16 repeats the previous length 3..6 times, 17 / 18 write 3..10 / 11..138 zeros. -/
inductive LenStep
  | more (pos : Nat) (acc : Array Nat)
  | reject (w : Reject)
  | truncated

def readLenStep (cl : Code) (data : Array UInt8) (pos : Nat) (acc : Array Nat) : LenStep :=
  match decodeSym cl data pos with
  | .short => .truncated
  | .invalid => .reject .clenCode
  | .sym s pos =>
    if s < 16 then .more pos (acc.push s)
    else if s = 16 then
      if acc.size = 0 then .reject .repeatNoPrev
      else match bitsAt data pos 2 with
        | none => .truncated
        | some r => .more (pos + 2) (acc ++ Array.replicate (3 + r) (acc.getD (acc.size - 1) 0))
    else if s = 17 then
      match bitsAt data pos 3 with
      | none => .truncated
      | some r => .more (pos + 3) (acc ++ Array.replicate (3 + r) 0)
    else
      match bitsAt data pos 7 with
      | none => .truncated
      | some r => .more (pos + 7) (acc ++ Array.replicate (11 + r) 0)

/-- Read the code lengths of a dynamic block with the code-length code `cl`. -/
def readLens (cl : Code) (data : Array UInt8) (total : Nat) :
    Nat → Nat → Array Nat → Verdict (Nat × Array Nat)
  | 0, _, _ => .fuel
  | fuel + 1, pos, acc =>
    if acc.size = total then .accept (pos, acc)
    else if acc.size > total then .reject .codeRun
    else match readLenStep cl data pos acc with
      | .more pos acc => readLens cl data total fuel pos acc
      | .reject w => .reject w
      | .truncated => .truncated #[]

/-- One token of a Huffman block. `avail` = number of bytes a match may reach back over. -/
inductive TokStep
  | lit (b : UInt8) (pos : Nat)
  | eob (pos : Nat)
  | copy (len dist pos : Nat)
  | reject (w : Reject)
  | truncated

def decodeToken (maxDist : Nat) (lit dist : Code) (data : Array UInt8) (pos avail : Nat) : TokStep :=
  match decodeSym lit data pos with
  | .short => .truncated
  | .invalid => .reject .badLitlenSym
  | .sym s pos =>
    if s < 256 then .lit s.toUInt8 pos
    else if s = 256 then .eob pos
    else if s > 285 then .reject .badLitlenSym
    else
      let lbe := lengthBaseExtra s
      match bitsAt data pos lbe.2 with
      | none => .truncated
      | some lx =>
        let len := lbe.1 + lx
        let pos := pos + lbe.2
        match decodeSym dist data pos with
        | .short => .truncated
        | .invalid => .reject .badDistSym
        | .sym d pos =>
          if d > 29 then .reject .badDistSym
          else
            let dbe := distBaseExtra d
            match bitsAt data pos dbe.2 with
            | none => .truncated
            | some dx =>
              let dd := dbe.1 + dx
              let pos := pos + dbe.2
              if dd > avail || dd > maxDist then .reject .distTooFar
              else .copy len dd pos

/-- Decode the tokens of one Huffman block up to and including end-of-block. -/
def decodeTokens (pre : Array UInt8) (maxDist : Nat) (lit dist : Code) (data : Array UInt8) :
    Nat → Nat → Array UInt8 → Array Token → Verdict (Nat × Array UInt8 × Array Token)
  | 0, _, _, _ => .fuel
  | fuel + 1, pos, out, toks =>
    match decodeToken maxDist lit dist data pos (pre.size + out.size) with
    | .lit b pos => decodeTokens pre maxDist lit dist data fuel pos (out.push b) (toks.push (.lit b))
    | .eob pos => .accept (pos, out, toks)
    | .copy len dd pos =>
      decodeTokens pre maxDist lit dist data fuel pos (copyMatch pre out dd len) (toks.push (.copy len dd))
    | .reject w => .reject w
    | .truncated => .truncated out

def readClens (data : Array UInt8) : Nat → Nat → List Nat → Array Nat → Option (Nat × Array Nat)
  | 0, pos, _, acc => some (pos, acc)
  | _, pos, [], acc => some (pos, acc)
  | n + 1, pos, o :: os, acc =>
    match bitsAt data pos 3 with
    | none => none
    | some v => readClens data n (pos + 3) os (acc.setIfInBounds o v)

def copyStored (data : Array UInt8) (bytePos : Nat) (out : Array UInt8) : Nat → Option (Array UInt8)
  | 0 => some out
  | n + 1 => match data[bytePos]? with
    | none => none
    | some b => copyStored data (bytePos + 1) (out.push b) n

/-- As `copyStored`, but keeps what could be copied when the input ends early. -/
def copyStoredPartial (data : Array UInt8) (bytePos : Nat) (out : Array UInt8) : Nat → Array UInt8
  | 0 => out
  | n + 1 => match data[bytePos]? with
    | none => out
    | some b => copyStoredPartial data (bytePos + 1) (out.push b) n

/-- One block starting at bit `pos` (its 3 header bits included): the position after it, the
    output including it, its record. -/
def inflateBlock (pre : Array UInt8) (maxDist : Nat) (data : Array UInt8) (fuel pos : Nat) (out : Array UInt8) :
    Verdict (Nat × Array UInt8 × BlockInfo) :=
  match bitsAt data pos 3 with
  | none => .truncated out
  | some hdr =>
    let final := hdr % 2 = 1
    let btype := hdr / 2
    let start := pos
    let pos := pos + 3
    let outStart := out.size
    -- (no closure over `out` here: a captured reference would force a copy of the whole array on
    --  the next push)
    let blank : BlockInfo := { final := final, btype := btype, bitStart := start, bitEnd := 0,
                               outStart := outStart, outEnd := 0, litLens := #[], distLens := #[],
                               clenLens := #[], tokens := #[] }
    if btype = 0 then
      let bpos := (pos + 7) / 8
      match bitsAt data (8 * bpos) 16, bitsAt data (8 * bpos + 16) 16 with
      | some len, some nlen =>
        if len + nlen ≠ 65535 then .reject .storedLen
        else match copyStored data (bpos + 4) out len with
          | none => .truncated (copyStoredPartial data (bpos + 4) out len)
          | some out' => .accept (8 * (bpos + 4 + len), out', blank)
      | _, _ => .truncated out
    else if btype = 1 then
      match decodeTokens pre maxDist fixedLitCode fixedDistCode data fuel pos out #[] with
      | .accept (pos, out', toks) =>
        .accept (pos, out', { blank with litLens := fixedLitLens, distLens := fixedDistLens, tokens := toks })
      | .reject w => .reject w
      | .truncated p => .truncated p
      | .fuel => .fuel
    else if btype = 2 then
      match bitsAt data pos 5, bitsAt data (pos + 5) 5, bitsAt data (pos + 10) 4 with
      | some hlit, some hdist, some hclen =>
        let nlit := hlit + 257
        let ndist := hdist + 1
        let nclen := hclen + 4
        if nlit > 286 || ndist > 30 then .reject .tableSizes
        else match readClens data nclen (pos + 14) clenOrder (Array.replicate 19 0) with
          | none => .truncated out
          | some (pos, clens) =>
            if !codeValid .clen clens then .reject .clenCode
            else match readLens (mkCode clens) data (nlit + ndist) fuel pos #[] with
              | .accept (pos, lens) =>
                let litLens := lens.extract 0 nlit
                let distLens := lens.extract nlit (nlit + ndist)
                if !codeValid .litlen litLens then .reject .litlenCode
                else if !codeValid .dist distLens then .reject .distCode
                else match decodeTokens pre maxDist (mkCode litLens) (mkCode distLens) data fuel pos out #[] with
                  | .accept (pos, out', toks) =>
                    .accept (pos, out', { blank with litLens := litLens, distLens := distLens, clenLens := clens, tokens := toks })
                  | .reject w => .reject w
                  | .truncated p => .truncated p
                  | .fuel => .fuel
              | .reject w => .reject w
              | .truncated _ => .truncated out
              | .fuel => .fuel
      | _, _, _ => .truncated out
    else .reject .blockType

/-- The blocks of a DEFLATE stream, from bit `pos`. -/
def inflateBlocks (pre : Array UInt8) (maxDist : Nat) (data : Array UInt8) :
    Nat → Nat → Array UInt8 → Array BlockInfo → Verdict (Nat × Array UInt8 × Array BlockInfo)
  | 0, _, _, _ => .fuel
  | fuel + 1, pos, out, blocks =>
    match inflateBlock pre maxDist data fuel pos out with
    | .accept (pos', out', info) =>
      let blocks := blocks.push { info with bitEnd := pos', outEnd := out'.size }
      if info.final then .accept (pos', out', blocks) else inflateBlocks pre maxDist data fuel pos' out' blocks
    | .reject w => .reject w
    | .truncated p => .truncated p
    | .fuel => .fuel

structure Inflated where
  out      : Array UInt8
  bitsUsed : Nat
  blocks   : Array BlockInfo

def fuelFor (data : Array UInt8) : Nat := 8 * data.size + 16

/-- Reference decoder for a raw DEFLATE stream starting at bit `startBit` of `data`.
    `pre`/`maxDist`: history reachable before the output start and the largest usable distance
    (flat buffer: `#[]` and 32768; ring of size `w` preloaded with `pre`: `pre` and `w`). -/
def inflateSpec (pre : Array UInt8) (maxDist : Nat) (data : Array UInt8) (startBit : Nat := 0) :
    Verdict Inflated :=
  match inflateBlocks pre maxDist data (fuelFor data) startBit #[] #[] with
  | .accept (pos, out, blocks) => .accept { out := out, bitsUsed := pos, blocks := blocks }
  | .reject w => .reject w
  | .truncated p => .truncated p
  | .fuel => .fuel

/-- RFC 1950 header rule: CM = 8, CINFO ≤ 7, FDICT clear, (CMF·256 + FLG) divisible by 31. -/
def zlibHeaderValid (cmf flg : Nat) : Bool :=
  cmf % 16 = 8 && cmf / 16 ≤ 7 && (flg / 32) % 2 = 0 && (cmf * 256 + flg) % 31 = 0

structure ZInflated where
  cmf : Nat
  flg : Nat
  inner : Inflated
  bytesUsed : Nat

/-- Reference decoder for a zlib stream: header, DEFLATE body, big-endian Adler-32 trailer. -/
def zlibSpec (pre : Array UInt8) (maxDist : Nat) (data : Array UInt8) (checkAdler : Bool := true) :
    Verdict ZInflated :=
  match data[0]?, data[1]? with
  | some cmf, some flg =>
    if !zlibHeaderValid cmf.toNat flg.toNat then .reject .zlibHeader
    else match inflateSpec pre maxDist data 16 with
      | .accept r =>
        let e := (r.bitsUsed + 7) / 8
        match data[e]?, data[e+1]?, data[e+2]?, data[e+3]? with
        | some a, some b, some c, some d =>
          let stored := ((a.toNat * 256 + b.toNat) * 256 + c.toNat) * 256 + d.toNat
          if checkAdler && stored ≠ adler32 1 r.out.toList then .reject .adlerMismatch
          else .accept { cmf := cmf.toNat, flg := flg.toNat, inner := r, bytesUsed := e + 4 }
        | _, _, _, _ => .truncated r.out
      | .reject w => .reject w
      | .truncated p => .truncated p
      | .fuel => .fuel
  | _, _ => .truncated #[]

end Spec
