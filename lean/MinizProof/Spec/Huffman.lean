/-
L0 specification: canonical Huffman codes (RFC 1951 §3.2.2) and the validity rule for a set of
code lengths. Decoding follows the counting formulation of the RFC's canonical-code construction
(Adler's `puff.c`), which uses only the per-length counts and the symbols ordered by (length, value).
Nothing here is shared with the crate.
-/
import MinizProof.Spec.Bits
namespace Spec

inductive CodeKind | clen | litlen | dist
deriving DecidableEq, Repr

/-- `count[l]` = number of symbols with code length `l`, for `l = 0..15`. Lengths above 15 are
    counted nowhere (callers reject them beforehand). -/
def countLens (lens : Array Nat) : Array Nat :=
  lens.foldl (fun c l => if l < 16 then c.modify l (· + 1) else c) (Array.replicate 16 0)

/-- Kraft bookkeeping as in RFC 1951 / zlib `inftrees.c`: start with one code of length zero
    available, double at each length, subtract the codes used. `none` = over-subscribed;
    `some 0` = complete; `some k` (k > 0) = incomplete. -/
def kraftLeftAux (count : Array Nat) : Nat → Nat → Nat → Option Nat
  | 0, _, left => some left
  | fuel + 1, len, left =>
    let left := 2 * left
    let c := count.getD len 0
    if left < c then none else kraftLeftAux count fuel (len + 1) (left - c)

def kraftLeft (count : Array Nat) : Option Nat := kraftLeftAux count 15 1 1

def maxLen (lens : Array Nat) : Nat := lens.foldl Nat.max 0

/-- The set of code lengths is usable: every length ≤ 15, not over-subscribed, and either
    complete or — for the literal/length and distance alphabets only — degenerate with no code
    longer than one bit (no symbol at all, or a single one-bit code). -/
def codeValid (k : CodeKind) (lens : Array Nat) : Bool :=
  lens.all (· ≤ 15) &&
  match kraftLeft (countLens lens) with
  | none => false
  | some 0 => true
  | some _ => k != CodeKind.clen && maxLen lens ≤ 1

/-- Symbols ordered by (code length, symbol value), zero-length symbols omitted. -/
def sortedSymsAux (lens : Array Nat) : Nat → Nat → Array Nat → Array Nat
  | 0, _, acc => acc
  | fuel + 1, len, acc =>
    let acc := (List.range lens.size).foldl
      (fun a s => if lens.getD s 0 = len then a.push s else a) acc
    sortedSymsAux lens fuel (len + 1) acc

structure Code where
  count : Array Nat
  syms  : Array Nat

def mkCode (lens : Array Nat) : Code :=
  { count := countLens lens, syms := sortedSymsAux lens 15 1 #[] }

inductive SymResult
  | sym (s : Nat) (pos : Nat)   -- decoded symbol, position after its code
  | invalid                      -- the bits match no code of an incomplete code
  | short                        -- ran out of input before a code was completed
deriving Repr

/-- Canonical-code decoding: read one bit at a time, MSB of the code first. At length `len`,
    `first` is the first code of that length, `index` the number of shorter codes. -/
def decodeSymAux (c : Code) (data : Array UInt8) :
    Nat → Nat → Nat → Nat → Nat → Nat → SymResult
  | 0, _, _, _, _, _ => .invalid
  | fuel + 1, len, pos, code, first, index =>
    if index ≥ c.syms.size then .invalid      -- no codes of this or any greater length remain
    else
    match bitAt data pos with
    | none => .short
    | some b =>
      let code := code + b
      let cnt := c.count.getD len 0
      if code < first + cnt then .sym (c.syms.getD (index + (code - first)) 0) (pos + 1)
      else decodeSymAux c data fuel (len + 1) (pos + 1) (2 * code) (2 * (first + cnt)) (index + cnt)

def decodeSym (c : Code) (data : Array UInt8) (pos : Nat) : SymResult :=
  decodeSymAux c data 15 1 pos 0 0 0

end Spec
