/-
Hand-written support for the REGENERATED files in this directory: Rust fixed-width integer
semantics over `Int` (release-profile wrapping semantics; two's complement for signed types).
The translator (`/verif/translator`) emits terms over these operations only.
-/
namespace G

inductive Ty
  | u (bits : Nat)
  | i (bits : Nat)
deriving DecidableEq, Repr

def Ty.bits : Ty → Nat
  | .u b => b
  | .i b => b

def two : Int := 2

/-- Reduce an integer into the value range of a Rust integer type (what `as` / wrapping ops do). -/
def wrap : Ty → Int → Int
  | .u b, x => x % two ^ b
  | .i b, x =>
    let m := x % two ^ b
    if m ≥ two ^ (b - 1) then m - two ^ b else m

/-- The unsigned bit pattern of `x` at width `b`. -/
def pat (b : Nat) (x : Int) : Nat := (x % two ^ b).toNat

def band (t : Ty) (a b : Int) : Int := wrap t (Int.ofNat (pat t.bits a &&& pat t.bits b))
def bor  (t : Ty) (a b : Int) : Int := wrap t (Int.ofNat (pat t.bits a ||| pat t.bits b))
def bxor (t : Ty) (a b : Int) : Int := wrap t (Int.ofNat (pat t.bits a ^^^ pat t.bits b))
def bnot (t : Ty) (a : Int) : Int := wrap t (-a - 1)
def add (t : Ty) (a b : Int) : Int := wrap t (a + b)
def sub (t : Ty) (a b : Int) : Int := wrap t (a - b)
def mul (t : Ty) (a b : Int) : Int := wrap t (a * b)
def neg (t : Ty) (a : Int) : Int := wrap t (-a)
def shl (t : Ty) (a n : Int) : Int := wrap t (a * two ^ n.toNat)
/-- `>>`: logical for unsigned values (non-negative), arithmetic for signed ones. -/
def shr (_t : Ty) (a n : Int) : Int := a >>> n.toNat
/-- Rust `/` truncates toward zero; `%` takes the sign of the dividend. -/
def div (_t : Ty) (a b : Int) : Int := Int.tdiv a b
def rem (_t : Ty) (a b : Int) : Int := Int.tmod a b

def tyMin : Ty → Int
  | .u _ => 0
  | .i b => -(two ^ (b - 1))
def tyMax : Ty → Int
  | .u b => two ^ b - 1
  | .i b => two ^ (b - 1) - 1

def clamp (t : Ty) (x : Int) : Int := if x < tyMin t then tyMin t else if x > tyMax t then tyMax t else x
def satSub (t : Ty) (a b : Int) : Int := clamp t (a - b)
def satAdd (t : Ty) (a b : Int) : Int := clamp t (a + b)

def idx (arr : Array Int) (i : Int) : Int := arr.getD i.toNat 0
def lidx (l : List Int) (i : Int) : Int := l.getD i.toNat 0

/-- `inflate::core::Action` -/
inductive Action
  | none
  | jump (s : Int)
  | fin (status : Int)
deriving DecidableEq, Repr

/-- `Result<T, E>` for C-like `T`, `E`. -/
inductive Res
  | ok (v : Int)
  | err (e : Int)
deriving DecidableEq, Repr

def b2i (b : Bool) : Int := if b then 1 else 0

end G
