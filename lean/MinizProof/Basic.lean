def hello := "world"
