/-
The fixed Huffman code lengths of RFC 1951 §3.2.6 form valid code sets (finite facts, decided in
the kernel; kept in their own module because they take a while to check).
-/
import MinizProof.Spec.Inflate
namespace Spec
set_option maxRecDepth 100000
theorem fixed_dist_valid : codeValid .dist fixedDistLens = true := by decide +kernel
theorem fixed_lit_valid : codeValid .litlen fixedLitLens = true := by decide +kernel
end Spec
