import MinizProof.Model.BitWriter
namespace Model

theorem putBits_inv (w : BW) (bits len : Nat) (hw : w.Inv) (hb : bits < 2 ^ len) :
    (putBits w bits len).Inv := by
  obtain ⟨hn, hbuf⟩ := hw
  unfold putBits BW.Inv
  simp only
  refine ⟨Nat.mod_lt _ (by decide), ?_⟩
  have hacc : w.buf ||| bits <<< w.n < 2 ^ (w.n + len) := by
    apply Nat.or_lt_two_pow
    · exact Nat.lt_of_lt_of_le hbuf (Nat.pow_le_pow_right (by decide) (by omega))
    · rw [Nat.shiftLeft_eq, Nat.add_comm, Nat.pow_add]
      exact Nat.mul_lt_mul_of_pos_right hb (Nat.two_pow_pos _)
  rw [Nat.shiftRight_eq_div_pow]
  apply Nat.div_lt_of_lt_mul
  rw [← Nat.pow_add]
  have : 8 * ((w.n + len) / 8) + (w.n + len) % 8 = w.n + len := Nat.div_add_mod _ _
  rw [this]
  exact hacc

theorem padToBytes_aligned (w : BW) (hw : w.Inv) : (padToBytes w).n = 0 ∧ (padToBytes w).buf = 0 := by
  obtain ⟨hn, hbuf⟩ := hw
  unfold padToBytes
  by_cases h : w.n = 0
  · simp only [h, ne_eq, not_true_eq_false, ↓reduceIte, true_and]
    rw [h] at hbuf; simpa using hbuf
  · simp only [ne_eq, h, not_false_eq_true, ↓reduceIte]
    have hi := putBits_inv w 0 (8 - w.n) ⟨hn, hbuf⟩ (Nat.two_pow_pos _)
    have hn0 : (putBits w 0 (8 - w.n)).n = 0 := by
      unfold putBits; simp only
      have : w.n + (8 - w.n) = 8 := by omega
      rw [this]
    refine ⟨hn0, ?_⟩
    have := hi.2
    rw [hn0] at this
    simpa using this

theorem syncMarker_spec (w : BW) (hw : w.Inv) :
    (syncMarker w).n = 0 ∧ (syncMarker w).buf = 0 ∧
    ∃ pre, (syncMarker w).out = pre ++ [0, 0, 255, 255] := by
  unfold syncMarker
  have h1 := putBits_inv w 0 3 hw (by decide)
  obtain ⟨hn, hb⟩ := padToBytes_aligned _ h1
  generalize padToBytes (putBits w 0 3) = p at hn hb
  obtain ⟨o, b, n⟩ := p
  simp only at hn hb
  subst hn hb
  refine ⟨by simp [putBits], by simp [putBits], o, ?_⟩
  simp [putBits, emitBytes]

end Model
