/-
Helpers for exhaustive facts over finite ranges: the range is traversed by `List.all`, decided in
the kernel (`decide +kernel`), and lifted to a `∀` statement by the lemmas below.
-/
namespace Fin'

def allBelow (n : Nat) (p : Nat → Bool) : Bool := (List.range n).all p

theorem allBelow_spec {n : Nat} {p : Nat → Bool} (h : allBelow n p = true) :
    ∀ i, i < n → p i = true := by
  intro i hi
  exact List.all_eq_true.mp h i (List.mem_range.mpr hi)

def allIn (l : List Int) (p : Int → Bool) : Bool := l.all p

theorem allIn_spec {l : List Int} {p : Int → Bool} (h : allIn l p = true) :
    ∀ i, i ∈ l → p i = true := by
  intro i hi
  exact List.all_eq_true.mp h i hi

/-- Integers `lo, lo+1, …, lo+n-1`. -/
def intRange (lo : Int) (n : Nat) : List Int := (List.range n).map (fun i => lo + Int.ofNat i)

theorem mem_intRange {lo : Int} {n : Nat} {x : Int} (h1 : lo ≤ x) (h2 : x < lo + n) : x ∈ intRange lo n := by
  unfold intRange
  refine List.mem_map.mpr ⟨(x - lo).toNat, List.mem_range.mpr ?_, ?_⟩
  · omega
  · have : Int.ofNat (x - lo).toNat = x - lo := Int.toNat_of_nonneg (by omega)
    omega

end Fin'
