/-
The streaming wrapper `inflate()` with its bytes (`Model/InflBytes`) against the ring driver of
`Lemmas/CoreRingRun`: the inner calls the wrapper makes over any sequence of caller calls are a run of
the ring driver, what it hands to the caller is what the ring driver delivers, and so — with
`Lemmas/CoreRingValid` — a valid stream fed through `inflate()` in any chunks with any output sizes
comes out as exactly its plaintext. Helper lemmas for Props/C13 / C03.
-/
import MinizProof.Model.InflBytes
import MinizProof.Lemmas.CoreRingValid
import MinizProof.Props.C07
import MinizProof.Lemmas.CorePrefix
import MinizProof.Lemmas.CoreRingTheory
import MinizProof.Lemmas.CoreDone
set_option linter.unusedVariables false
set_option maxRecDepth 100000
namespace Model.Core
open Spec

/-- the ring driver's state after a list of chunks: registers, ring, cursor, unconsumed input -/
def ringEnd (flags W : Nat) : Regs → Array UInt8 → Nat → Array UInt8 → List (Array UInt8) →
    Regs × Array UInt8 × Nat × Array UInt8
  | r, oR, p, carry, [] => (r, oR, p, carry)
  | r, oR, p, carry, chunk :: rest =>
    let res := decompress r (carry ++ chunk) oR p (W - p) flags
    ringEnd flags W res.r res.out (ringNext W (p + res.written))
      ((carry ++ chunk).extract res.consumed (carry ++ chunk).size) rest

/-- one more chunk: one more call from the end state -/
theorem runRing_snoc_end (flags W : Nat) : ∀ (init : List (Array UInt8)) (x : Array UInt8) (r : Regs) (oR : Array UInt8)
    (p : Nat) (carry : Array UInt8),
    runRing flags W r oR p carry (init ++ [x]) = runRing flags W r oR p carry init ++
      [(decompress (ringEnd flags W r oR p carry init).1 ((ringEnd flags W r oR p carry init).2.2.2 ++ x)
          (ringEnd flags W r oR p carry init).2.1 (ringEnd flags W r oR p carry init).2.2.1
          (W - (ringEnd flags W r oR p carry init).2.2.1) flags, (ringEnd flags W r oR p carry init).2.2.1)] ∧
    ringEnd flags W r oR p carry (init ++ [x]) =
      ((decompress (ringEnd flags W r oR p carry init).1 ((ringEnd flags W r oR p carry init).2.2.2 ++ x)
          (ringEnd flags W r oR p carry init).2.1 (ringEnd flags W r oR p carry init).2.2.1
          (W - (ringEnd flags W r oR p carry init).2.2.1) flags).r,
       (decompress (ringEnd flags W r oR p carry init).1 ((ringEnd flags W r oR p carry init).2.2.2 ++ x)
          (ringEnd flags W r oR p carry init).2.1 (ringEnd flags W r oR p carry init).2.2.1
          (W - (ringEnd flags W r oR p carry init).2.2.1) flags).out,
       ringNext W ((ringEnd flags W r oR p carry init).2.2.1 +
        (decompress (ringEnd flags W r oR p carry init).1 ((ringEnd flags W r oR p carry init).2.2.2 ++ x)
          (ringEnd flags W r oR p carry init).2.1 (ringEnd flags W r oR p carry init).2.2.1
          (W - (ringEnd flags W r oR p carry init).2.2.1) flags).written),
       ((ringEnd flags W r oR p carry init).2.2.2 ++ x).extract
        (decompress (ringEnd flags W r oR p carry init).1 ((ringEnd flags W r oR p carry init).2.2.2 ++ x)
          (ringEnd flags W r oR p carry init).2.1 (ringEnd flags W r oR p carry init).2.2.1
          (W - (ringEnd flags W r oR p carry init).2.2.1) flags).consumed
        ((ringEnd flags W r oR p carry init).2.2.2 ++ x).size) := by
  intro init
  induction init with
  | nil => intro x r oR p carry; exact ⟨rfl, rfl⟩
  | cons c cs ih =>
    intro x r oR p carry
    have := ih x (decompress r (carry ++ c) oR p (W - p) flags).r (decompress r (carry ++ c) oR p (W - p) flags).out
      (ringNext W (p + (decompress r (carry ++ c) oR p (W - p) flags).written))
      ((carry ++ c).extract (decompress r (carry ++ c) oR p (W - p) flags).consumed (carry ++ c).size)
    constructor
    · show (_ :: runRing flags W _ _ _ _ (cs ++ [x])) = (_ :: runRing flags W _ _ _ _ cs) ++ _
      rw [this.1]; rfl
    · show ringEnd flags W _ _ _ _ (cs ++ [x]) = _
      rw [this.2]; rfl

theorem deliveredRing_append : ∀ (l1 l2 : List (Res × Nat)), deliveredRing (l1 ++ l2) = deliveredRing l1 ++ deliveredRing l2 := by
  intro l1
  induction l1 with
  | nil => intro l2; simp [deliveredRing]
  | cons hd tl ih =>
    intro l2
    obtain ⟨rr, p⟩ := hd
    show rr.out.extract p (p + rr.written) ++ deliveredRing (tl ++ l2) = (rr.out.extract p (p + rr.written) ++ deliveredRing tl) ++ deliveredRing l2
    rw [ih, Array.append_assoc]

theorem deliveredRing_single (rr : Res) (p : Nat) : deliveredRing [(rr, p)] = rr.out.extract p (p + rr.written) := by
  simp [deliveredRing]

/-! ### The wrapper's run as a run of the ring driver -/

open Model.InflB in
/-- The wrapper between two inner calls of a run whose inner calls so far (`K`: the chunks they were
    offered) were all suspended: its registers and window are the ring driver's, its cursor plus what
    is still to be handed over is the ring driver's cursor, the caller's unconsumed input is the ring
    driver's carry followed by what has been supplied since (`fed`), and what has been handed over so
    far (`D`) plus what is pending is what the ring driver delivered. -/
structure Running (flags : Nat) (K : List (Array UInt8)) (w : WB) (inBuf fed D : Array UInt8) (C : Nat) : Prop where
  sus   : ∀ x ∈ runRing flags dictSize {} (Array.replicate dictSize 0) 0 #[] K, suspended x.1
  regs  : w.r = (ringEnd flags dictSize {} (Array.replicate dictSize 0) 0 #[] K).1
  dict  : w.dict = (ringEnd flags dictSize {} (Array.replicate dictSize 0) 0 #[] K).2.1
  pos   : ringNext dictSize (w.ofs + w.avail) = (ringEnd flags dictSize {} (Array.replicate dictSize 0) 0 #[] K).2.2.1
  ofsLt : w.ofs < dictSize
  dsz   : w.dict.size = dictSize
  fits  : w.ofs + w.avail ≤ dictSize
  inb   : inBuf = (ringEnd flags dictSize {} (Array.replicate dictSize 0) 0 #[] K).2.2.2 ++ fed
  deliv : D ++ w.dict.extract w.ofs (w.ofs + w.avail) =
            deliveredRing (runRing flags dictSize {} (Array.replicate dictSize 0) 0 #[] K)
  last  : w.last = stNeedsMoreInput ∨ w.last = stHasMoreOutput
  /-- `C`: input consumed by the wrapper so far = input consumed by the ring driver's calls -/
  cons  : C = ((runRing flags dictSize {} (Array.replicate dictSize 0) 0 #[] K).map (·.1.consumed)).sum

open Model.InflB in
theorem Running.fresh (flags : Nat) (fed : Array UInt8) : Running flags [] WB.fresh (#[] ++ fed) fed #[] 0 :=
  ⟨fun x hx => by simp [runRing] at hx, rfl, rfl, by show ringNext dictSize (0 + 0) = 0; decide, by show 0 < dictSize; decide, by simp [WB.fresh],
    by show 0 + 0 ≤ dictSize; decide, rfl, by simp [runRing, deliveredRing, WB.fresh], .inl rfl, by simp [runRing]⟩

theorem ringNext_lt {W p : Nat} (h : p < W) : ringNext W p = p := by
  unfold ringNext; rw [if_neg (by omega)]

theorem ringNext_self (W : Nat) : ringNext W W = 0 := by
  unfold ringNext; rw [if_pos rfl]

open Model.InflB in
/-- `push_dict_out` keeps the relation: what is handed over moves from "pending" to "delivered". -/
theorem Running.push {flags : Nat} {K : List (Array UInt8)} {w : WB} {inBuf fed D : Array UInt8} {C : Nat}
    (h : Running flags K w inBuf fed D C) (room : Nat) :
    Running flags K (push w room).2 inBuf fed (D ++ (push w room).1) C ∧ (push w room).2.last = w.last ∧
    (push w room).1.size = min w.avail room ∧ (push w room).2.avail = w.avail - min w.avail room := by
  have hW : dictSize = 32768 := rfl
  have hofs := h.ofsLt
  have hfits := h.fits
  have hsize : (w.dict.extract w.ofs (w.ofs + min w.avail room)).size = min w.avail room := by
    rw [Array.size_extract, h.dsz]; omega
  refine ⟨⟨h.sus, h.regs, h.dict, ?_, ?_, h.dsz, ?_, h.inb, ?_, h.last, h.cons⟩, rfl, hsize, rfl⟩
  · show ringNext dictSize ((w.ofs + min w.avail room) % dictSize + (w.avail - min w.avail room)) = _
    rw [← h.pos]
    by_cases hlt : w.ofs + min w.avail room < dictSize
    · rw [Nat.mod_eq_of_lt hlt]; congr 1; omega
    · have he : w.ofs + min w.avail room = dictSize := by omega
      have ha : min w.avail room = w.avail := by omega
      rw [he, Nat.mod_self, ha, Nat.sub_self]
      have : w.ofs + w.avail = dictSize := by omega
      rw [this, ringNext_self]
      unfold ringNext; rw [if_neg (by decide)]
  · show (w.ofs + min w.avail room) % dictSize < dictSize
    exact Nat.mod_lt _ (by decide)
  · show (w.ofs + min w.avail room) % dictSize + (w.avail - min w.avail room) ≤ dictSize
    by_cases hlt : w.ofs + min w.avail room < dictSize
    · rw [Nat.mod_eq_of_lt hlt]; omega
    · have he : w.ofs + min w.avail room = dictSize := by omega
      rw [he, Nat.mod_self]; omega
  · show (D ++ w.dict.extract w.ofs (w.ofs + min w.avail room)) ++
        w.dict.extract ((w.ofs + min w.avail room) % dictSize) ((w.ofs + min w.avail room) % dictSize + (w.avail - min w.avail room)) = _
    rw [← h.deliv, Array.append_assoc]
    congr 1
    by_cases hlt : w.ofs + min w.avail room < dictSize
    · rw [Nat.mod_eq_of_lt hlt]
      have e : w.ofs + min w.avail room + (w.avail - min w.avail room) = w.ofs + w.avail := by omega
      rw [e]
      exact (extract_cat w.dict w.ofs (w.ofs + min w.avail room) (w.ofs + w.avail) (by omega) (by omega)).symm
    · have he : w.ofs + min w.avail room = dictSize := by omega
      have ha : min w.avail room = w.avail := by omega
      rw [he, Nat.mod_self, ha, Nat.sub_self]
      have e2 : w.ofs + w.avail = dictSize := by omega
      rw [e2]
      simp

open Model.InflB in
/-- ONE INNER CALL of the wrapper (window drained) is the ring driver's next call; on a valid stream
    its status is one of four. -/
theorem Running.next {flags : Nat} {V : Array UInt8 → Prop} {P : Array UInt8} {L : Nat} (hf : RingTheory flags V P L) {K : List (Array UInt8)} {w : WB}
    {inBuf fed D : Array UInt8} {C : Nat} (h : Running flags K w inBuf fed D C) (ha : w.avail = 0)
    (b : Array UInt8)
    (hvalid : V (catList (K ++ [fed]) ++ b)) :
    runRing flags dictSize {} (Array.replicate dictSize 0) 0 #[] (K ++ [fed]) =
      runRing flags dictSize {} (Array.replicate dictSize 0) 0 #[] K ++
        [(decompress w.r inBuf w.dict w.ofs (dictSize - w.ofs) flags, w.ofs)] ∧
    ringEnd flags dictSize {} (Array.replicate dictSize 0) 0 #[] (K ++ [fed]) =
      ((decompress w.r inBuf w.dict w.ofs (dictSize - w.ofs) flags).r,
       (decompress w.r inBuf w.dict w.ofs (dictSize - w.ofs) flags).out,
       ringNext dictSize (w.ofs + (decompress w.r inBuf w.dict w.ofs (dictSize - w.ofs) flags).written),
       inBuf.extract (decompress w.r inBuf w.dict w.ofs (dictSize - w.ofs) flags).consumed inBuf.size) ∧
    ((decompress w.r inBuf w.dict w.ofs (dictSize - w.ofs) flags).status = stDone ∨
     (decompress w.r inBuf w.dict w.ofs (dictSize - w.ofs) flags).status = stHasMoreOutput ∨
     (decompress w.r inBuf w.dict w.ofs (dictSize - w.ofs) flags).status = stNeedsMoreInput ∨
     (decompress w.r inBuf w.dict w.ofs (dictSize - w.ofs) flags).status = stFailedCannotMakeProgress) := by
  have hp : (ringEnd flags dictSize {} (Array.replicate dictSize 0) 0 #[] K).2.2.1 = w.ofs := by
    rw [← h.pos, ha, Nat.add_zero, ringNext_lt h.ofsLt]
  obtain ⟨s1, s2⟩ := runRing_snoc_end flags dictSize K fed {} (Array.replicate dictSize 0) 0 #[]
  rw [← h.regs, ← h.dict, hp, ← h.inb] at s1 s2
  refine ⟨s1, s2, ?_⟩
  -- classification from validity
  have hne : K ++ [fed] ≠ [] := by simp
  obtain ⟨c, cs, hcs⟩ : ∃ c cs, K ++ [fed] = c :: cs := by
    cases hk : K ++ [fed] with
    | nil => exact absurd hk hne
    | cons c cs => exact ⟨c, cs, rfl⟩
  have hsus : ∀ x ∈ (runRing flags dictSize {} (Array.replicate dictSize 0) 0 #[] (c :: cs)).dropLast, suspended x.1 := by
    rw [← hcs, s1, List.dropLast_concat]; exact h.sus
  have hlast : (runRing flags dictSize {} (Array.replicate dictSize 0) 0 #[] (c :: cs)).getLast? =
      some (decompress w.r inBuf w.dict w.ofs (dictSize - w.ofs) flags, w.ofs) := by
    rw [← hcs, s1, List.getLast?_concat]
  exact hf.status c cs b (by rw [← hcs]; exact hvalid) hsus _ hlast

open Model.InflB in
/-- After a suspended inner call the relation holds for the longer run: nothing new has been handed
    over yet, everything the call wrote is pending. -/
theorem Running.step {flags : Nat} {V : Array UInt8 → Prop} {P : Array UInt8} {L : Nat} (hf : RingTheory flags V P L) {K : List (Array UInt8)} {w : WB}
    {inBuf fed D : Array UInt8} {C : Nat} (h : Running flags K w inBuf fed D C) (ha : w.avail = 0)
    (b : Array UInt8)
    (hvalid : V (catList (K ++ [fed]) ++ b))
    (hsusp : suspended (decompress w.r inBuf w.dict w.ofs (dictSize - w.ofs) flags)) :
    Running flags (K ++ [fed])
      { w with r := (decompress w.r inBuf w.dict w.ofs (dictSize - w.ofs) flags).r,
               dict := (decompress w.r inBuf w.dict w.ofs (dictSize - w.ofs) flags).out,
               last := (decompress w.r inBuf w.dict w.ofs (dictSize - w.ofs) flags).status,
               avail := (decompress w.r inBuf w.dict w.ofs (dictSize - w.ofs) flags).written }
      (inBuf.extract (decompress w.r inBuf w.dict w.ofs (dictSize - w.ofs) flags).consumed inBuf.size) #[] D
      (C + (decompress w.r inBuf w.dict w.ofs (dictSize - w.ofs) flags).consumed) := by
  obtain ⟨s1, s2, _⟩ := h.next hf ha b hvalid
  have hfacts := decompress_facts w.r inBuf w.dict w.ofs (dictSize - w.ofs) flags
  refine ⟨?_, ?_, ?_, ?_, h.ofsLt, ?_, ?_, ?_, ?_, ?_, ?_⟩
  · intro x hx
    rw [s1] at hx
    rcases List.mem_append.mp hx with hx | hx
    · exact h.sus x hx
    · simp only [List.mem_singleton] at hx; rw [hx]; exact hsusp
  · rw [s2]
  · rw [s2]
  · rw [s2]
  · show (decompress w.r inBuf w.dict w.ofs (dictSize - w.ofs) flags).out.size = dictSize
    rw [hfacts.size]; exact h.dsz
  · show w.ofs + (decompress w.r inBuf w.dict w.ofs (dictSize - w.ofs) flags).written ≤ dictSize
    have := hfacts.wBudget; have := h.ofsLt; omega
  · rw [s2]; simp
  · rw [s1, deliveredRing_append, deliveredRing_single, ← h.deliv, ha]
    have he : w.dict.extract w.ofs (w.ofs + 0) = #[] := by simp [Nat.min_le_left]
    rw [he, Array.append_empty]
  · exact hsusp.symm.elim (fun h => .inr h) (fun h => .inl h)
  · rw [s1, List.map_append, List.sum_append, ← h.cons]; simp

end Model.Core

namespace Model.Core
open Spec Model.InflB

/-- When the inner call finishes the stream, what the ring driver has delivered is the plaintext. -/
theorem Running.done {flags : Nat} {V : Array UInt8 → Prop} {P : Array UInt8} {L : Nat} (hf : RingTheory flags V P L) {K : List (Array UInt8)} {w : WB}
    {inBuf fed D : Array UInt8} {C : Nat} (h : Running flags K w inBuf fed D C) (ha : w.avail = 0)
    (b : Array UInt8)
    (hvalid : V (catList (K ++ [fed]) ++ b))
    (hdone : (decompress w.r inBuf w.dict w.ofs (dictSize - w.ofs) flags).status = stDone) :
    D ++ (decompress w.r inBuf w.dict w.ofs (dictSize - w.ofs) flags).out.extract w.ofs
      (w.ofs + (decompress w.r inBuf w.dict w.ofs (dictSize - w.ofs) flags).written) = P ∧
    C + (decompress w.r inBuf w.dict w.ofs (dictSize - w.ofs) flags).consumed = L := by
  obtain ⟨s1, s2, _⟩ := h.next hf ha b hvalid
  obtain ⟨c, cs, hcs⟩ : ∃ c cs, K ++ [fed] = c :: cs := by
    cases hk : K ++ [fed] with
    | nil => simp at hk
    | cons c cs => exact ⟨c, cs, rfl⟩
  have hsus : ∀ x ∈ (runRing flags dictSize {} (Array.replicate dictSize 0) 0 #[] (c :: cs)).dropLast, suspended x.1 := by
    rw [← hcs, s1, List.dropLast_concat]; exact h.sus
  have hlast : (runRing flags dictSize {} (Array.replicate dictSize 0) 0 #[] (c :: cs)).getLast? =
      some (decompress w.r inBuf w.dict w.ofs (dictSize - w.ofs) flags, w.ofs) := by
    rw [← hcs, s1, List.getLast?_concat]
  obtain ⟨this, hcons⟩ := hf.done c cs b (by rw [← hcs]; exact hvalid) hsus _ hlast hdone
  rw [← hcs, s1, deliveredRing_append, deliveredRing_single, ← h.deliv, ha] at this
  have he : w.dict.extract w.ofs (w.ofs + 0) = #[] := by simp [Nat.min_le_left]
  rw [he, Array.append_empty] at this
  refine ⟨this, ?_⟩
  rw [← hcs, s1, List.map_append, List.sum_append, ← h.cons] at hcons
  simpa using hcons

/-- more input offered between two inner calls -/
theorem Running.feed {flags : Nat} {K : List (Array UInt8)} {w : WB} {inBuf fed D : Array UInt8} {C : Nat}
    (h : Running flags K w inBuf fed D C) (chunk : Array UInt8) :
    Running flags K w (inBuf ++ chunk) (fed ++ chunk) D C :=
  ⟨h.sus, h.regs, h.dict, h.pos, h.ofsLt, h.dsz, h.fits, by rw [h.inb, Array.append_assoc], h.deliv, h.last, h.cons⟩

/-- geometry of the hand-over cursor -/
structure WGeo (w : WB) : Prop where
  ofsLt : w.ofs < dictSize
  dsz   : w.dict.size = dictSize
  fits  : w.ofs + w.avail ≤ dictSize

theorem Running.wgeo {flags : Nat} {K : List (Array UInt8)} {w : WB} {inBuf fed D : Array UInt8} {C : Nat}
    (h : Running flags K w inBuf fed D C) : WGeo w := ⟨h.ofsLt, h.dsz, h.fits⟩

/-- `push_dict_out` on any window: what is handed over followed by what stays pending is what was
    pending. -/
theorem push_r (w : WB) (room : Nat) : (push w room).2.r = w.r := rfl

theorem push_split {w : WB} (g : WGeo w) (room : Nat) :
    WGeo (push w room).2 ∧
    (push w room).1 ++ (push w room).2.dict.extract (push w room).2.ofs ((push w room).2.ofs + (push w room).2.avail) =
      w.dict.extract w.ofs (w.ofs + w.avail) ∧
    ((push w room).2.avail = 0 → (push w room).1 = w.dict.extract w.ofs (w.ofs + w.avail)) ∧
    (push w room).1.size = min w.avail room ∧ (push w room).2.avail = w.avail - min w.avail room ∧
    (push w room).2.last = w.last := by
  have hW : dictSize = 32768 := rfl
  have hofs := g.ofsLt
  have hfits := g.fits
  have hsize : (w.dict.extract w.ofs (w.ofs + min w.avail room)).size = min w.avail room := by
    rw [Array.size_extract, g.dsz]; omega
  refine ⟨⟨?_, g.dsz, ?_⟩, ?_, ?_, hsize, rfl, rfl⟩
  · show (w.ofs + min w.avail room) % dictSize < dictSize
    exact Nat.mod_lt _ (by decide)
  · show (w.ofs + min w.avail room) % dictSize + (w.avail - min w.avail room) ≤ dictSize
    by_cases hlt : w.ofs + min w.avail room < dictSize
    · rw [Nat.mod_eq_of_lt hlt]; omega
    · have he : w.ofs + min w.avail room = dictSize := by omega
      rw [he, Nat.mod_self]; omega
  · show w.dict.extract w.ofs (w.ofs + min w.avail room) ++
        w.dict.extract ((w.ofs + min w.avail room) % dictSize) ((w.ofs + min w.avail room) % dictSize + (w.avail - min w.avail room)) = _
    by_cases hlt : w.ofs + min w.avail room < dictSize
    · rw [Nat.mod_eq_of_lt hlt]
      have e : w.ofs + min w.avail room + (w.avail - min w.avail room) = w.ofs + w.avail := by omega
      rw [e]
      exact (extract_cat w.dict w.ofs (w.ofs + min w.avail room) (w.ofs + w.avail) (by omega) (by omega)).symm
    · have he : w.ofs + min w.avail room = dictSize := by omega
      have ha : min w.avail room = w.avail := by omega
      rw [he, Nat.mod_self, ha, Nat.sub_self]
      have e2 : w.ofs + w.avail = dictSize := by omega
      rw [e2]
      simp
  · intro h0
    have h0' : w.avail - min w.avail room = 0 := h0
    have ha : min w.avail room = w.avail := by omega
    show w.dict.extract w.ofs (w.ofs + min w.avail room) = _
    rw [ha]

/-- `X` is the first `k` bytes of `P` -/
def IsPrefix (X P : Array UInt8) : Prop := ∃ k, k ≤ P.size ∧ X = P.extract 0 k

theorem IsPrefix.refl (P : Array UInt8) : IsPrefix P P := ⟨P.size, Nat.le_refl _, by simp⟩

theorem IsPrefix.of_append {X Y P : Array UInt8} (h : IsPrefix (X ++ Y) P) : IsPrefix X P := by
  obtain ⟨k, hk, he⟩ := h
  have hsz : X.size + Y.size = k := by
    have := congrArg Array.size he
    rw [Array.size_append, Array.size_extract] at this; omega
  refine ⟨X.size, by omega, ?_⟩
  calc X = (X ++ Y).extract 0 X.size := by simp
    _ = (P.extract 0 k).extract 0 X.size := by rw [he]
    _ = P.extract 0 X.size := by
      rw [Array.extract_extract, Nat.zero_add, Nat.zero_add, Nat.min_eq_left (by omega)]

/-- THE STATE OF THE WRAPPER BETWEEN TWO CALLS on a valid stream of which `T` is still to come:
    running (the ring driver's state), or draining the tail of a finished stream. -/
def WInv (flags : Nat) (V : Array UInt8 → Prop) (P : Array UInt8) (L : Nat) (T : Array UInt8) (w : WB) (carry D : Array UInt8) (C : Nat) : Prop :=
  (∃ K fed, Running flags K w carry fed D C ∧ V (catList (K ++ [fed]) ++ T)) ∨
  (w.last = stDone ∧ 0 < w.avail ∧ WGeo w ∧ D ++ w.dict.extract w.ofs (w.ofs + w.avail) = P ∧ C = L ∧ DoneRegs flags w.r)

/-- the wrapper after it has reported stream end: nothing pending, the decoder finished -/
def Ended (flags : Nat) (w : WB) : Prop := w.last = stDone ∧ w.avail = 0 ∧ WGeo w ∧ DoneRegs flags w.r

theorem catList_snoc_empty (K : List (Array UInt8)) (fed : Array UInt8) :
    catList ((K ++ [fed]) ++ [#[]]) = catList (K ++ [fed]) := by
  rw [catList_append]; simp [catList]

/-- Between calls, what has been handed over is a prefix of the plaintext. -/
theorem WInv.isPrefix {flags : Nat} {V : Array UInt8 → Prop} {P : Array UInt8} {L : Nat} (hf : RingTheory flags V P L) {T : Array UInt8} {w : WB}
    {carry D : Array UInt8} {C : Nat} (h : WInv flags V P L T w carry D C) : IsPrefix D P := by
  rcases h with ⟨K, fed, hrun, hv⟩ | ⟨_, _, _, hD, _, _⟩
  · cases K with
    | nil =>
      have hd := hrun.deliv
      have : deliveredRing (runRing flags dictSize {} (Array.replicate dictSize 0) 0 #[] []) = #[] := rfl
      rw [this] at hd
      have hD : D = #[] := (Array.append_eq_empty_iff.mp hd).1
      rw [hD]; exact ⟨0, Nat.zero_le _, by simp⟩
    | cons c cs =>
      have e : catList ((c :: cs) ++ [fed]) ++ T = catList (c :: cs) ++ (fed ++ T) := by
        rw [catList_append]
        have : catList [fed] = fed := by simp [catList]
        rw [this, Array.append_assoc]
      rw [e] at hv
      obtain ⟨n, hn, hd⟩ := hf.pref c cs (fed ++ T) hv hrun.sus
      rw [← hrun.deliv] at hd
      exact IsPrefix.of_append ⟨n, hn, hd⟩
  · exact IsPrefix.of_append (by rw [hD]; exact IsPrefix.refl _)

/-- what one call must deliver: a status of the protocol (a buffer error only when the call was
    offered no input at all), counts within what was offered, progress when there is input and
    room; at the end of the stream the plaintext; otherwise the invariant again with the unconsumed
    input carried over -/
def CallOk (flags : Nat) (V : Array UInt8 → Prop) (P : Array UInt8) (L : Nat) (T : Array UInt8) (D inp : Array UInt8) (C room origIn c : Nat) (acc : Array UInt8)
    (out : WB × CallRes) : Prop :=
  (out.2.status = rOk ∨ out.2.status = rStreamEnd ∨ (out.2.status = rBuf ∧ origIn = 0)) ∧
  ∃ new n, out.2.out = acc ++ new ∧ out.2.consumed = c + n ∧ n ≤ inp.size ∧ new.size ≤ room ∧
    (0 < inp.size → 0 < room → 0 < n ∨ 0 < new.size ∨ out.2.status = rStreamEnd) ∧
    (if out.2.status = rStreamEnd then D ++ new = P ∧ C + n = L ∧ Ended flags out.1
     else WInv flags V P L T out.1 (inp.extract n inp.size) (D ++ new) (C + n))

/-- THE LOOP: from a running state with the window drained. -/
theorem loop_ok {flags : Nat} {V : Array UInt8 → Prop} {P : Array UInt8} {L : Nat} (hf : RingTheory flags V P L) (T : Array UInt8) (origIn : Nat) :
    ∀ (fuel : Nat) (w : WB) (inp : Array UInt8) (room c : Nat) (acc : Array UInt8) (K : List (Array UInt8)) (fed D : Array UInt8) (C : Nat),
    Running flags K w inp fed D C → w.avail = 0 →
    V (catList (K ++ [fed]) ++ T) → room < fuel → inp.size ≤ origIn →
    CallOk flags V P L T D inp C room origIn c acc (loopNone flags origIn fuel w inp room c acc) := by
  intro fuel
  induction fuel with
  | zero =>
    intro w inp room c acc K fed D C h ha hv hfu
    exact absurd hfu (Nat.not_lt_zero _)
  | succ fuel ih =>
    intro w inp room c acc K fed D C h ha hv hfu horig
    obtain ⟨s1, s2, hst⟩ := h.next hf ha T hv
    have hfacts := decompress_facts w.r inp w.dict w.ofs (dictSize - w.ofs) flags
    have hncmp := decompress_more_ne_cmp flags hf.more w.r inp w.dict w.ofs (dictSize - w.ofs)
    generalize hres : decompress w.r inp w.dict w.ofs (dictSize - w.ofs) flags = rs at hst hfacts hncmp
    -- the window after the inner call
    have hgeo1 : WGeo { w with r := rs.r, dict := rs.out, last := rs.status, avail := rs.written } :=
      ⟨h.ofsLt, by show rs.out.size = dictSize; rw [hfacts.size]; exact h.dsz,
       by show w.ofs + rs.written ≤ dictSize; have := hfacts.wBudget; have := h.ofsLt; omega⟩
    obtain ⟨hgeo2, hsplit, hall, hbsz, hav2, hlast2⟩ := push_split hgeo1 room
    have hr2 := push_r { w with r := rs.r, dict := rs.out, last := rs.status, avail := rs.written } room
    unfold loopNone
    simp only [hres]
    generalize hp : push { w with r := rs.r, dict := rs.out, last := rs.status, avail := rs.written } room = pr
      at hgeo2 hsplit hall hbsz hav2 hlast2 hr2
    obtain ⟨bytes, w2⟩ := pr
    dsimp only at hgeo2 hsplit hall hbsz hav2 hlast2 hr2
    have hbr : bytes.size ≤ room := by rw [hbsz]; exact Nat.min_le_right _ _
    have hcons := hfacts.consumed
    simp only
    have hst3 : rs.status = stDone ∨ rs.status = stHasMoreOutput ∨ rs.status = stNeedsMoreInput := by
      rcases hst with h1 | h1 | h1 | h1
      · exact .inl h1
      · exact .inr (.inl h1)
      · exact .inr (.inr h1)
      · exact absurd h1 hncmp
    rw [if_neg hncmp]
    rcases hst3 with hd | hsusp'
    · -- Done
      rw [if_neg (by rw [hd]; decide), if_neg (fun hh => absurd (hd.symm.trans hh.1) (by decide)), if_pos (.inl hd)]
      obtain ⟨hD, hCL⟩ := h.done hf ha T hv (by rw [hres]; exact hd)
      have hdr := done_leaves_doneRegs w.r inp w.dict w.ofs (dictSize - w.ofs) flags (by rw [hres]; exact hd)
      rw [hres] at hD hCL hdr
      by_cases h0 : w2.avail = 0
      · rw [if_pos ⟨hd, h0⟩]
        refine ⟨.inr (.inl rfl), bytes, rs.consumed, rfl, rfl, hcons, hbr, fun _ _ => .inr (.inr rfl), ?_⟩
        show (if rStreamEnd = rStreamEnd then _ else _)
        rw [if_pos rfl, hall h0]; exact ⟨hD, hCL, by rw [hlast2]; exact hd, h0, hgeo2, by rw [hr2]; exact hdr⟩
      · rw [if_neg (fun hh => h0 hh.2)]
        refine ⟨.inl rfl, bytes, rs.consumed, rfl, rfl, hcons, hbr, fun _ hr => .inr (.inl (by rw [hbsz]; omega)), ?_⟩
        show (if rOk = rStreamEnd then _ else _)
        rw [if_neg (by decide)]
        refine .inr ⟨by rw [hlast2]; exact hd, Nat.pos_of_ne_zero h0, hgeo2, ?_, hCL, by rw [hr2]; exact hdr⟩
        rw [Array.append_assoc, hsplit]; exact hD
    · have hsusp : suspended rs := by
        rcases hsusp' with h1 | h1
        · exact .inr h1
        · exact .inl h1
      have hstep := h.step hf ha T hv (by rw [hres]; exact hsusp)
      rw [hres] at hstep
      obtain ⟨hrun2, _, _, _⟩ := hstep.push room
      rw [hp] at hrun2
      have hv2 : V (catList ((K ++ [fed]) ++ [#[]]) ++ T) := by
        rw [catList_snoc_empty]; exact hv
      have hnn : ¬ rs.status < 0 := by
        rcases hsusp with h1 | h1 <;> rw [h1] <;> decide
      have hnd : rs.status ≠ stDone := by
        rcases hsusp with h1 | h1 <;> rw [h1] <;> decide
      rw [if_neg hnn]
      have hInv : WInv flags V P L T w2 (inp.extract rs.consumed inp.size) (D ++ bytes) (C + rs.consumed) :=
        .inl ⟨K ++ [fed], #[], hrun2, hv2⟩
      -- progress of this inner call
      have hprog : 0 < inp.size → 0 < room → 0 < rs.consumed ∨ 0 < bytes.size := by
        intro hi hr
        rcases hsusp with h1 | h1
        · left; rw [hfacts.nmi (.inl h1)]; exact hi
        · right
          have hw := hfacts.hmo h1
          have := h.ofsLt; have := h.dsz
          rw [hbsz]; show 0 < min rs.written room; omega
      by_cases hb : rs.status = stNeedsMoreInput ∧ origIn = 0
      · rw [if_pos hb]
        refine ⟨.inr (.inr ⟨rfl, hb.2⟩), bytes, rs.consumed, rfl, rfl, hcons, hbr, fun hi _ => absurd hi (by omega), ?_⟩
        show (if rBuf = rStreamEnd then _ else _)
        rw [if_neg (by decide)]; exact hInv
      · rw [if_neg hb]
        by_cases hx : rs.status = stDone ∨ (inp.extract rs.consumed inp.size).size = 0 ∨ room - bytes.size = 0 ∨ w2.avail ≠ 0
        · rw [if_pos hx, if_neg (fun hh => hnd hh.1)]
          refine ⟨.inl rfl, bytes, rs.consumed, rfl, rfl, hcons, hbr,
            fun hi hr => (hprog hi hr).elim .inl (fun h => .inr (.inl h)), ?_⟩
          show (if rOk = rStreamEnd then _ else _)
          rw [if_neg (by decide)]; exact hInv
        · rw [if_neg hx]
          have h0 : w2.avail = 0 := by
            by_cases h0 : w2.avail = 0
            · exact h0
            · exact absurd (.inr (.inr (.inr h0))) hx
          have hr0 : room - bytes.size ≠ 0 := fun hh => hx (.inr (.inr (.inl hh)))
          have hhmo : rs.status = stHasMoreOutput := by
            rcases hsusp with h1 | h1
            · exfalso
              apply hx; refine .inr (.inl ?_)
              rw [Array.size_extract, hfacts.nmi (.inl h1)]; omega
            · exact h1
          have hbpos : 0 < bytes.size := by
            have hw := hfacts.hmo hhmo
            have := h.ofsLt; have := h.dsz
            rw [hbsz]; show 0 < min rs.written room; omega
          have hsz' : (inp.extract rs.consumed inp.size).size = inp.size - rs.consumed := by
            rw [Array.size_extract]; omega
          obtain ⟨hstat, new, n, ho, hcn, hnle, hnr, _, hrest⟩ := ih w2 (inp.extract rs.consumed inp.size) (room - bytes.size)
            (c + rs.consumed) (acc ++ bytes) (K ++ [fed]) #[] (D ++ bytes) (C + rs.consumed) hrun2 h0 hv2 (by omega) (by omega)
          refine ⟨hstat, bytes ++ new, rs.consumed + n, by rw [ho, Array.append_assoc], by rw [hcn, Nat.add_assoc],
            by omega, by rw [Array.size_append]; omega, fun _ _ => .inr (.inl (by rw [Array.size_append]; omega)), ?_⟩
          have hext : (inp.extract rs.consumed inp.size).extract n (inp.extract rs.consumed inp.size).size =
              inp.extract (rs.consumed + n) inp.size := by
            rw [Array.extract_extract, Array.size_extract]
            congr 1; omega
          rw [hext, Array.append_assoc, Nat.add_assoc] at hrest
          exact hrest

theorem catList_feed (K : List (Array UInt8)) (fed chunk T : Array UInt8) :
    catList (K ++ [fed ++ chunk]) ++ T = catList (K ++ [fed]) ++ (chunk ++ T) := by
  rw [catList_append, catList_append]
  simp [catList, Array.append_assoc]

/-- ONE CALL of `inflate()` (not asking to finish) from any state of the invariant. -/
theorem call_ok {flags : Nat} {V : Array UInt8 → Prop} {P : Array UInt8} {L : Nat} (hf : RingTheory flags V P L) (chunk T : Array UInt8)
    (w : WB) (carry D : Array UInt8) (C room : Nat)
    (hinv : WInv flags V P L (chunk ++ T) w carry D C) :
    CallOk flags V P L T D (carry ++ chunk) C room (carry ++ chunk).size 0 #[] (inflateNone flags w (carry ++ chunk) room) := by
  have e1 : (carry ++ chunk).extract 0 (carry ++ chunk).size = carry ++ chunk := Array.extract_size
  unfold inflateNone
  rcases hinv with ⟨K, fed, hrun, hv⟩ | ⟨hlast, hav, hgeo, hD, hCL, hdr⟩
  · -- running
    have hl1 : w.last ≠ stFailedCannotMakeProgress := by
      rcases hrun.last with h | h <;> rw [h] <;> decide
    have hl2 : ¬ w.last < 0 := by
      rcases hrun.last with h | h <;> rw [h] <;> decide
    have hl3 : w.last ≠ stDone := by
      rcases hrun.last with h | h <;> rw [h] <;> decide
    rw [if_neg hl1, if_neg hl2]
    have hrun' := hrun.feed chunk
    have hv' : V (catList (K ++ [fed ++ chunk]) ++ T) := by
      rw [catList_feed]; exact hv
    by_cases ha : w.avail = 0
    · rw [if_neg (fun hh => hh ha)]
      exact loop_ok hf T _ _ w (carry ++ chunk) room 0 #[] K (fed ++ chunk) D C hrun' ha hv' (by omega) (Nat.le_refl _)
    · rw [if_pos ha]
      obtain ⟨hrun2, hlast2, hbsz, _⟩ := hrun'.push room
      generalize hp : push w room = pr at hrun2 hlast2 hbsz
      obtain ⟨bytes, w2⟩ := pr
      dsimp only at hrun2 hlast2 hbsz ⊢
      rw [if_neg (fun hh => hl3 (hlast2 ▸ hh.1))]
      refine ⟨.inl rfl, bytes, 0, by simp, rfl, Nat.zero_le _, by rw [hbsz]; exact Nat.min_le_right _ _,
        fun _ hr => .inr (.inl (by rw [hbsz]; omega)), ?_⟩
      show (if rOk = rStreamEnd then _ else _)
      rw [if_neg (by decide), e1]
      exact .inl ⟨K, fed ++ chunk, hrun2, hv'⟩
  · -- draining the tail of a finished stream
    rw [if_neg (by rw [hlast]; decide), if_neg (by rw [hlast]; decide), if_pos (Nat.pos_iff_ne_zero.mp hav)]
    obtain ⟨hgeo2, hsplit, hall, hbsz, hav2, hlast2⟩ := push_split hgeo room
    have hr2 := push_r w room
    generalize hp : push w room = pr at hgeo2 hsplit hall hlast2 hbsz hav2 hr2
    obtain ⟨bytes, w2⟩ := pr
    dsimp only at hgeo2 hsplit hall hlast2 hbsz hav2 hr2 ⊢
    have hbr : bytes.size ≤ room := by rw [hbsz]; exact Nat.min_le_right _ _
    by_cases h0 : w2.avail = 0
    · rw [if_pos ⟨by rw [hlast2]; exact hlast, h0⟩]
      refine ⟨.inr (.inl rfl), bytes, 0, by simp, rfl, Nat.zero_le _, hbr, fun _ _ => .inr (.inr rfl), ?_⟩
      show (if rStreamEnd = rStreamEnd then _ else _)
      rw [if_pos rfl, hall h0]; exact ⟨hD, by omega, by rw [hlast2]; exact hlast, h0, hgeo2, by rw [hr2]; exact hdr⟩
    · rw [if_neg (fun hh => h0 hh.2)]
      refine ⟨.inl rfl, bytes, 0, by simp, rfl, Nat.zero_le _, hbr, fun _ hr => .inr (.inl (by rw [hbsz]; omega)), ?_⟩
      show (if rOk = rStreamEnd then _ else _)
      rw [if_neg (by decide), e1]
      refine .inr ⟨by rw [hlast2]; exact hlast, Nat.pos_of_ne_zero h0, hgeo2, ?_, by omega, by rw [hr2]; exact hdr⟩
      rw [Array.append_assoc, hsplit]; exact hD

/-- AFTER STREAM END: a call on an ended wrapper, whatever it is offered, reports stream end again,
    consumes nothing, hands over nothing, and leaves the wrapper ended. -/
theorem ended_call (flags : Nat) (w : WB) (inp : Array UInt8) (room : Nat) (h : Ended flags w) :
    (inflateNone flags w inp room).2.status = rStreamEnd ∧ (inflateNone flags w inp room).2.consumed = 0 ∧
    (inflateNone flags w inp room).2.out = #[] ∧ Ended flags (inflateNone flags w inp room).1 := by
  obtain ⟨hlast, hav, hgeo, hdr⟩ := h
  have hbg : badGeometry flags w.dict.size w.ofs = false := by
    unfold badGeometry
    rw [hgeo.dsz]
    have h1 : isPow2OrZero dictSize = true := by decide
    have h2 := hgeo.ofsLt
    simp only [h1, Bool.not_true, Bool.and_false, Bool.false_or, decide_eq_false_iff_not, Nat.not_lt]
    omega
  obtain ⟨d1, d2, d3, d4, d5⟩ := doneRegs_call w.r inp w.dict w.ofs (dictSize - w.ofs) flags hbg hdr
  unfold inflateNone
  rw [if_neg (by rw [hlast]; decide), if_neg (by rw [hlast]; decide), if_neg (by rw [hav]; decide)]
  have hfu : inp.size + room + 2 = (inp.size + room + 1) + 1 := rfl
  rw [hfu]
  unfold loopNone
  generalize hres : decompress w.r inp w.dict w.ofs (dictSize - w.ofs) flags = rs at d1 d2 d3 d4 d5
  simp only
  have hpush : push { w with r := rs.r, dict := rs.out, last := rs.status, avail := rs.written } room =
      (#[], { w with r := rs.r, dict := rs.out, last := rs.status, avail := 0 }) := by
    unfold push
    simp only [d3, Nat.zero_min, Nat.add_zero, Nat.sub_zero, Nat.mod_eq_of_lt hgeo.ofsLt]
    congr 1
    simp only [Array.extract_eq_empty_iff]
    exact Nat.min_le_left _ _
  rw [hpush]
  simp only
  rw [if_neg (by rw [d1]; decide), if_neg (by rw [d1]; decide), if_neg (fun hh => absurd (d1.symm.trans hh.1) (by decide)),
    if_pos (.inl d1), if_pos ⟨d1, trivial⟩]
  refine ⟨rfl, by show 0 + rs.consumed = 0; rw [d2], by simp, d1, rfl, ⟨hgeo.ofsLt, by show rs.out.size = dictSize; rw [d4]; exact hgeo.dsz, by show w.ofs + 0 ≤ dictSize; have := hgeo.ofsLt; omega⟩, d5⟩

/-- … and so does every later call of a session. -/
theorem runInfl_ended (flags : Nat) : ∀ (calls : List (Array UInt8 × Nat)) (w : WB) (carry : Array UInt8), Ended flags w →
    ∀ x ∈ runInfl flags w carry calls, x.2.2.status = rStreamEnd ∧ x.2.2.consumed = 0 ∧ x.2.2.out = #[] := by
  intro calls
  induction calls with
  | nil => intro w carry _ x hx; simp [runInfl] at hx
  | cons cr rest ih =>
    intro w carry h x hx
    obtain ⟨chunk, room⟩ := cr
    obtain ⟨e1, e2, e3, e4⟩ := ended_call flags w (carry ++ chunk) room h
    unfold runInfl at hx
    generalize hres : inflateNone flags w (carry ++ chunk) room = res at hx e1 e2 e3 e4
    obtain ⟨w', r⟩ := res
    simp only [List.mem_cons] at hx
    rcases hx with rfl | hx
    · exact ⟨e1, e2, e3⟩
    · exact ih w' _ e4 x hx

/-- WHAT A CALLER OF `inflate()` MAY RELY ON for a stream whose plaintext is `P`: each call (offered
    `n` bytes of input and `room` bytes of output space) returns Ok, StreamEnd or — only when it was
    offered no input — a buffer error; counts stay within what was offered; with input and room
    there is progress (or the end); what has been handed over so far is a prefix of `P`; and when
    stream end is reported it is all of `P`, the input consumed over all calls (`C` before these)
    is exactly `L`, the length of the encoded stream, and every later call reports stream end again,
    consuming and delivering nothing. -/
def Safe (P : Array UInt8) (L : Nat) : Array UInt8 → Nat → List (Nat × Nat × Model.InflB.CallRes) → Prop
  | _, _, [] => True
  | D, C, (n, room, r) :: rs =>
      (r.status = Model.InflB.rOk ∨ r.status = Model.InflB.rStreamEnd ∨ (r.status = Model.InflB.rBuf ∧ n = 0)) ∧
      r.consumed ≤ n ∧ r.out.size ≤ room ∧
      (0 < n → 0 < room → 0 < r.consumed ∨ 0 < r.out.size ∨ r.status = Model.InflB.rStreamEnd) ∧
      IsPrefix (D ++ r.out) P ∧
      (if r.status = Model.InflB.rStreamEnd then D ++ r.out = P ∧ C + r.consumed = L ∧
          (∀ x ∈ rs, x.2.2.status = Model.InflB.rStreamEnd ∧ x.2.2.consumed = 0 ∧ x.2.2.out = #[])
        else Safe P L (D ++ r.out) (C + r.consumed) rs)

/-- ANY SEQUENCE OF CALLS from a state of the invariant is safe. -/
theorem run_safe {flags : Nat} {V : Array UInt8 → Prop} {P : Array UInt8} {L : Nat} (hf : RingTheory flags V P L) (b0 : Array UInt8) :
    ∀ (calls : List (Array UInt8 × Nat)) (w : WB) (carry D : Array UInt8) (C : Nat),
    WInv flags V P L (catList (calls.map Prod.fst) ++ b0) w carry D C →
    Safe P L D C (runInfl flags w carry calls) := by
  intro calls
  induction calls with
  | nil => intro w carry D C _; exact trivial
  | cons cr rest ih =>
    intro w carry D C hinv
    obtain ⟨chunk, room⟩ := cr
    have hT : catList (((chunk, room) :: rest).map Prod.fst) ++ b0 = chunk ++ (catList (rest.map Prod.fst) ++ b0) := by
      show (chunk ++ catList (rest.map Prod.fst)) ++ b0 = _
      rw [Array.append_assoc]
    rw [hT] at hinv
    obtain ⟨hstat, new, n, ho, hc, hnle, hnr, hprog, hrest⟩ := call_ok hf chunk _ w carry D C room hinv
    unfold runInfl
    generalize hcall : inflateNone flags w (carry ++ chunk) room = cr at hstat ho hc hprog hrest
    obtain ⟨w', r⟩ := cr
    dsimp only at hstat ho hc hprog hrest ⊢
    have ho' : r.out = new := by rw [ho]; simp
    have hc' : r.consumed = n := by rw [hc]; simp
    refine ⟨hstat, by rw [hc']; exact hnle, by rw [ho']; exact hnr, by rw [hc', ho']; exact hprog, ?_, ?_⟩
    · by_cases he : r.status = rStreamEnd
      · rw [if_pos he] at hrest
        rw [ho', hrest.1]; exact IsPrefix.refl _
      · rw [if_neg he] at hrest
        rw [ho']; exact hrest.isPrefix hf
    · by_cases he : r.status = rStreamEnd
      · rw [if_pos he] at hrest ⊢
        rw [ho', hc']; exact ⟨hrest.1, hrest.2.1, runInfl_ended flags rest w' _ hrest.2.2⟩
      · rw [if_neg he] at hrest ⊢
        rw [ho', hc']
        exact ih w' _ _ _ hrest

end Model.Core

namespace Model.Core
open Spec Model.InflB

/-- THE FIRST-CALL `Finish` SHORTCUT on a valid stream (any format with a flat theory): with room for
    the plaintext the call reports stream end and has written exactly the plaintext; without, it
    reports a buffer error and the state is dead (`Failed` remembered). -/
theorem finish_first_ok {fmtFlags : Nat} {V : Array UInt8 → Prop} {P : Array UInt8} {L : Nat}
    (T : FlatTheory (fmtFlags + fNonWrapping) V P L) (z out : Array UInt8) (hv : V z) :
    (P.size ≤ out.size → (inflateFinishFirst fmtFlags z out).1.status = rStreamEnd ∧
      (inflateFinishFirst fmtFlags z out).1.out = P ∧ (inflateFinishFirst fmtFlags z out).2 = stDone ∧
      (inflateFinishFirst fmtFlags z out).1.consumed = L) ∧
    (out.size < P.size → (inflateFinishFirst fmtFlags z out).1.status = rBuf ∧
      (inflateFinishFirst fmtFlags z out).2 = stFailed) := by
  constructor
  · intro hfit
    obtain ⟨h1, h2, h3, h4⟩ := T.fits z out out.size hv (by rw [Nat.min_self]; exact hfit)
    unfold inflateFinishFirst
    simp only [h1]
    rw [if_neg (by decide), if_neg (by decide)]
    simp only [if_true]
    refine ⟨trivial, ?_, trivial, h4⟩
    show (decompress {} z out 0 out.size (fmtFlags + fNonWrapping)).out.extract 0
      (decompress {} z out 0 out.size (fmtFlags + fNonWrapping)).written = P
    rw [h2]
    have hf := decompress_facts {} z out 0 out.size (fmtFlags + fNonWrapping)
    have := extract_prefix_eq _ P P.size (by rw [hf.size]; exact hfit) (Nat.le_refl _) h3
    rw [this]; simp
  · intro hbig
    have h1 := T.full z out out.size hv (by rw [Nat.min_self]; exact hbig)
    unfold inflateFinishFirst
    simp only [h1]
    rw [if_neg (by decide), if_neg (by decide), if_neg (by decide)]
    exact ⟨rfl, rfl⟩

end Model.Core

namespace Model.InflB

theorem delivered_fold : ∀ (l : List (Nat × Nat × CallRes)) (a b : Array UInt8),
    l.foldl (fun a r => a ++ r.2.2.out) (a ++ b) = a ++ l.foldl (fun a r => a ++ r.2.2.out) b := by
  intro l
  induction l with
  | nil => intro a b; rfl
  | cons x xs ih => intro a b; simp only [List.foldl_cons]; rw [Array.append_assoc]; exact ih a (b ++ x.2.2.out)

theorem delivered_cons (r : Nat × Nat × CallRes) (l : List (Nat × Nat × CallRes)) : delivered (r :: l) = r.2.2.out ++ delivered l := by
  unfold delivered
  simp only [List.foldl_cons]
  have := delivered_fold l r.2.2.out #[]
  simpa using this

theorem delivered_nil : delivered [] = #[] := rfl

end Model.InflB
