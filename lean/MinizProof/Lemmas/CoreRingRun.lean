/-
A driver decoding through a ring buffer that it hands back to its start whenever it is full
(`runRing`), against the flat driver of `Lemmas/CoreSession` (`runCalls`) with the grants "up to the
end of the current lap": call by call the same results, and the ring keeps holding the last `W`
bytes of the flat buffer. No property statements here (see Props/C07).
-/
import MinizProof.Lemmas.CoreRingCalls
set_option maxRecDepth 100000
namespace Model.Core
open Spec

/-- a full ring is handed back to its start -/
def ringNext (W p : Nat) : Nat := if p = W then 0 else p
/-- the flat position at which the current lap started -/
def baseNext (W base p : Nat) : Nat := if p = W then base + W else base

/-- The ring driver: each call is offered the unconsumed rest plus a new chunk and may fill the ring
    up to its end. Results are paired with the cursor the call started from. -/
def runRing (flags W : Nat) : Regs → Array UInt8 → Nat → Array UInt8 → List (Array UInt8) → List (Res × Nat)
  | _, _, _, _, [] => []
  | r, oR, p, carry, chunk :: rest =>
    let res := decompress r (carry ++ chunk) oR p (W - p) flags
    (res, p) :: runRing flags W res.r res.out (ringNext W (p + res.written))
      ((carry ++ chunk).extract res.consumed (carry ++ chunk).size) rest

/-- the grants of the flat driver that mirrors the ring driver: up to the end of the current lap -/
def ringGrants (flags W : Nat) : Regs → Array UInt8 → Nat → Nat → Array UInt8 → List (Array UInt8) →
    List (Array UInt8 × Nat)
  | _, _, _, _, _, [] => []
  | r, oR, p, base, carry, chunk :: rest =>
    let res := decompress r (carry ++ chunk) oR p (W - p) flags
    (chunk, base + W) :: ringGrants flags W res.r res.out (ringNext W (p + res.written))
      (baseNext W base (p + res.written)) ((carry ++ chunk).extract res.consumed (carry ++ chunk).size) rest

/-- call-by-call agreement of a ring run with a flat run whose first call writes at `pos`: same
    status, counts and registers, and the bytes each ring call delivered are the bytes the flat call wrote -/
def RunsAgree : Nat → List (Res × Nat) → List Res → Prop
  | _, [], [] => True
  | pos, (rr, p) :: rs, rf :: fs =>
      rr.status = rf.status ∧ rr.consumed = rf.consumed ∧ rr.written = rf.written ∧ rr.r = rf.r ∧
      rr.out.extract p (p + rr.written) = rf.out.extract pos (pos + rf.written) ∧
      RunsAgree (pos + rf.written) rs fs
  | _, _, _ => False

theorem isPow2_badGeometry {flags W p : Nat} (h0 : badGeometry flags W 0 = false) (hp : p ≤ W) :
    badGeometry flags W p = false := by
  simp only [badGeometry, Bool.or_eq_false_iff, decide_eq_false_iff_not, Nat.not_lt] at h0 ⊢
  exact ⟨h0.1, hp⟩

/-- THE RING DRIVER AGAINST THE FLAT DRIVER. As long as every ring call but the last is suspended and
    no call of the mirroring flat driver reports `Failed`, the two drivers agree call by call (status,
    counts, registers, delivered bytes). -/
theorem runRing_agrees (flagsR flagsF W : Nat) (hfl : FlagsRF flagsR flagsF) (hbig : 32768 ≤ W) :
    ∀ (chunks : List (Array UInt8)) (r : Regs) (oR oF : Array UInt8) (p base : Nat) (carry : Array UInt8),
    Bnd r → oR.size = W → badGeometry flagsR W 0 = false → p < W ∨ chunks = [] →
    RingRel W base p oR oF → base + W * (chunks.length + 1) ≤ oF.size →
    (∀ x ∈ (runRing flagsR W r oR p carry chunks).dropLast, suspended x.1) →
    (∀ res ∈ runCalls flagsF 0 r oF (base + p) carry (ringGrants flagsR W r oR p base carry chunks), res.status ≠ stFailed) →
    RunsAgree (base + p) (runRing flagsR W r oR p carry chunks)
      (runCalls flagsF 0 r oF (base + p) carry (ringGrants flagsR W r oR p base carry chunks)) := by
  intro chunks
  induction chunks with
  | nil => intro r oR oF p base carry _ _ _ _ _ _ _ _; exact trivial
  | cons chunk rest ih =>
    intro r oR oF p base carry hb hW hg0 hp hrel hsz hsus hnf
    have hpW : p < W := hp.elim id (fun h => absurd h (by simp))
    have hgR : badGeometry flagsR oR.size p = false := by rw [hW]; exact isPow2_badGeometry hg0 (by omega)
    -- unfold one call on both sides
    have hbud : 0 + (base + W) - (base + p) = min (W - p) (W - p) := by omega
    have hcalls0 : runCalls flagsF 0 r oF (base + p) carry (ringGrants flagsR W r oR p base carry (chunk :: rest)) =
        decompress r (carry ++ chunk) oF (base + p) (0 + (base + W) - (base + p)) flagsF ::
          runCalls flagsF 0 (decompress r (carry ++ chunk) oF (base + p) (0 + (base + W) - (base + p)) flagsF).r
            (decompress r (carry ++ chunk) oF (base + p) (0 + (base + W) - (base + p)) flagsF).out
            (base + p + (decompress r (carry ++ chunk) oF (base + p) (0 + (base + W) - (base + p)) flagsF).written)
            ((carry ++ chunk).extract (decompress r (carry ++ chunk) oF (base + p) (0 + (base + W) - (base + p)) flagsF).consumed
              (carry ++ chunk).size)
            (ringGrants flagsR W (decompress r (carry ++ chunk) oR p (W - p) flagsR).r
              (decompress r (carry ++ chunk) oR p (W - p) flagsR).out
              (ringNext W (p + (decompress r (carry ++ chunk) oR p (W - p) flagsR).written))
              (baseNext W base (p + (decompress r (carry ++ chunk) oR p (W - p) flagsR).written))
              ((carry ++ chunk).extract (decompress r (carry ++ chunk) oR p (W - p) flagsR).consumed (carry ++ chunk).size) rest) := rfl
    rw [hbud] at hcalls0
    have hcalls := hcalls0
    have hring : runRing flagsR W r oR p carry (chunk :: rest) =
        (decompress r (carry ++ chunk) oR p (W - p) flagsR, p) ::
          runRing flagsR W (decompress r (carry ++ chunk) oR p (W - p) flagsR).r
            (decompress r (carry ++ chunk) oR p (W - p) flagsR).out
            (ringNext W (p + (decompress r (carry ++ chunk) oR p (W - p) flagsR).written))
            ((carry ++ chunk).extract (decompress r (carry ++ chunk) oR p (W - p) flagsR).consumed (carry ++ chunk).size) rest := rfl
    rw [hcalls] at hnf ⊢
    rw [hring] at hsus ⊢
    have hnf1 := hnf _ List.mem_cons_self
    have hcall := decompress_ring_flat r (carry ++ chunk) oR oF p (W - p) flagsR flagsF W base hb hfl hW hbig hgR
      (by have e := Nat.mul_succ W (rest.length + 1)
          simp only [List.length_cons] at hsz
          rw [e] at hsz; omega) hrel hnf1
    obtain ⟨c1, c2, c3, c4, c5⟩ := hcall
    generalize hresR : decompress r (carry ++ chunk) oR p (W - p) flagsR = resR at *
    generalize hresF : decompress r (carry ++ chunk) oF (base + p) (min (W - p) (W - p)) flagsF = resF at *
    show RunsAgree (base + p) ((resR, p) :: runRing flagsR W resR.r resR.out (ringNext W (p + resR.written))
      ((carry ++ chunk).extract resR.consumed (carry ++ chunk).size) rest) (resF :: _)
    have hfR0 := decompress_facts r (carry ++ chunk) oR p (W - p) flagsR
    rw [hresR] at hfR0
    have hfF0 := decompress_facts r (carry ++ chunk) oF (base + p) (min (W - p) (W - p)) flagsF
    rw [hresF] at hfF0
    have hseg : resR.out.extract p (p + resR.written) = resF.out.extract (base + p) (base + p + resF.written) := by
      have hle : p + resR.written ≤ W := by have := hfR0.room; rw [hW] at this; omega
      have hszF' : base + (p + resR.written) ≤ resF.out.size := by
        rw [hfF0.size]
        have e := Nat.mul_succ W (rest.length + 1)
        simp only [List.length_cons] at hsz
        rw [e] at hsz; omega
      have := extract_ring (p := p) c5 hle hszF'
      rw [this, ← c3]
      congr 1; omega
    refine ⟨c1, c2, c3, c4, hseg, ?_⟩
    cases rest with
    | nil => exact trivial
    | cons chunk2 rest2 =>
      -- the first call is not the last: it is suspended, so its registers keep the discipline
      have hne : runCalls flagsF 0 resF.r resF.out (base + p + resF.written)
          ((carry ++ chunk).extract resF.consumed (carry ++ chunk).size)
          (ringGrants flagsR W resR.r resR.out (ringNext W (p + resR.written)) (baseNext W base (p + resR.written))
            ((carry ++ chunk).extract resR.consumed (carry ++ chunk).size) (chunk2 :: rest2)) ≠ [] := by
        simp [ringGrants, runCalls]
      have hneR : runRing flagsR W resR.r resR.out (ringNext W (p + resR.written))
          ((carry ++ chunk).extract resR.consumed (carry ++ chunk).size) (chunk2 :: rest2) ≠ [] := by
        simp [runRing]
      have hs1R : suspended resR := by
        have := hsus (resR, p) (by rw [List.dropLast_cons_of_ne_nil hneR]; exact List.mem_cons_self)
        exact this
      have hs1 : suspended resF := by
        unfold suspended at hs1R ⊢
        rw [← c1]; exact hs1R
      have hfactsR := decompress_facts r (carry ++ chunk) oR p (W - p) flagsR
      rw [hresR] at hfactsR
      have hfactsF := decompress_facts r (carry ++ chunk) oF (base + p) (min (W - p) (W - p)) flagsF
      rw [hresF] at hfactsF
      have hgF : badGeometry flagsF oF.size (base + p) = false := by
        simp only [badGeometry, Bool.or_eq_false_iff, decide_eq_false_iff_not, Nat.not_lt, hfl.flat, Bool.not_true,
          Bool.false_and, true_and]
        have e := Nat.mul_succ W ((chunk2 :: rest2).length + 1)
        simp only [List.length_cons] at hsz e
        rw [e] at hsz; omega
      have hbnd : Bnd resF.r := by
        rw [← hresF]
        exact decompress_bnd r (carry ++ chunk) oF (base + p) (min (W - p) (W - p)) flagsF hb hgF (by rw [hresF]; exact hs1)
      have hsizeR : resR.out.size = W := by rw [hfactsR.size]; exact hW
      have hwle : p + resR.written ≤ W := by
        have := hfactsR.room
        rw [hW] at this; omega
      -- the next ring cursor and lap base
      have hrel' : RingRel W (baseNext W base (p + resR.written)) (ringNext W (p + resR.written)) resR.out resF.out := by
        unfold baseNext ringNext
        by_cases hfull : p + resR.written = W
        · rw [if_pos hfull, if_pos hfull]
          rw [hfull] at c5
          exact c5.handBack
        · rw [if_neg hfull, if_neg hfull]; exact c5
      have hposF : base + p + resF.written = baseNext W base (p + resR.written) + ringNext W (p + resR.written) := by
        unfold baseNext ringNext
        rw [← c3]
        by_cases hfull : p + resR.written = W
        · rw [if_pos hfull, if_pos hfull]; omega
        · rw [if_neg hfull, if_neg hfull]; omega
      have hnextlt : ringNext W (p + resR.written) < W ∨ (chunk2 :: rest2) = [] := by
        left
        unfold ringNext
        by_cases hfull : p + resR.written = W
        · rw [if_pos hfull]; omega
        · rw [if_neg hfull]; omega
      have hszF : resF.out.size = oF.size := hfactsF.size
      have hsz' : baseNext W base (p + resR.written) + W * ((chunk2 :: rest2).length + 1) ≤ resF.out.size := by
        rw [hszF]
        unfold baseNext
        have e := Nat.mul_succ W ((chunk2 :: rest2).length + 1)
        simp only [List.length_cons] at hsz e ⊢
        rw [e] at hsz
        split <;> omega
      rw [← c4, ← c2, hposF]
      rw [← c4, ← c2, hposF] at hnf
      refine ih resR.r resR.out resF.out (ringNext W (p + resR.written)) (baseNext W base (p + resR.written)) _
        (by rw [c4]; exact hbnd) hsizeR hg0 hnextlt hrel' hsz' ?_ ?_
      · intro x hmem
        apply hsus
        rw [List.dropLast_cons_of_ne_nil hneR]
        exact List.mem_cons_of_mem _ hmem
      · intro res hmem
        exact hnf res (List.mem_cons_of_mem _ hmem)

/-! ### What the drivers deliver -/

/-- concatenation of what each flat call wrote (first call writing at `pos`) -/
def delivered : Nat → List Res → Array UInt8
  | _, [] => #[]
  | pos, rf :: fs => rf.out.extract pos (pos + rf.written) ++ delivered (pos + rf.written) fs

/-- concatenation of what the caller takes out of the ring after each call -/
def deliveredRing : List (Res × Nat) → Array UInt8
  | [] => #[]
  | (rr, p) :: rs => rr.out.extract p (p + rr.written) ++ deliveredRing rs

theorem RunsAgree.deliver : ∀ (rs : List (Res × Nat)) (fs : List Res) (pos : Nat),
    RunsAgree pos rs fs → deliveredRing rs = delivered pos fs := by
  intro rs
  induction rs with
  | nil => intro fs pos h; cases fs with | nil => rfl | cons _ _ => exact absurd h id
  | cons hd tl ih =>
    intro fs pos h
    obtain ⟨rr, p⟩ := hd
    cases fs with
    | nil => exact absurd h id
    | cons rf fs =>
      obtain ⟨_, _, _, _, hseg, hrest⟩ := h
      show rr.out.extract p (p + rr.written) ++ deliveredRing tl = rf.out.extract pos (pos + rf.written) ++ delivered (pos + rf.written) fs
      rw [hseg, ih fs _ hrest]

theorem RunsAgree.last : ∀ (rs : List (Res × Nat)) (fs : List Res) (pos : Nat), RunsAgree pos rs fs →
    ∀ lr lf, rs.getLast? = some lr → fs.getLast? = some lf →
    lr.1.status = lf.status ∧ lr.1.r = lf.r := by
  intro rs
  induction rs with
  | nil => intro fs pos _ lr lf h _; simp at h
  | cons hd tl ih =>
    intro fs pos h lr lf hl hf
    obtain ⟨rr, p⟩ := hd
    cases fs with
    | nil => exact absurd h id
    | cons rf fs =>
      obtain ⟨h1, _, _, h4, _, hrest⟩ := h
      cases tl with
      | nil =>
        cases fs with
        | nil =>
          simp only [List.getLast?_singleton, Option.some.injEq] at hl hf
          subst hl hf; exact ⟨h1, h4⟩
        | cons _ _ => exact absurd hrest id
      | cons hd2 tl2 =>
        cases fs with
        | nil => obtain ⟨_, _⟩ := hd2; exact absurd hrest id
        | cons rf2 fs2 =>
          rw [List.getLast?_cons_cons] at hl hf
          exact ih (rf2 :: fs2) _ hrest lr lf hl hf

theorem RunsAgree.sums : ∀ (rs : List (Res × Nat)) (fs : List Res) (pos : Nat), RunsAgree pos rs fs →
    ((rs.map (·.1.written)).sum = sumWritten fs) ∧ ((rs.map (·.1.consumed)).sum = sumConsumed fs) := by
  intro rs
  induction rs with
  | nil => intro fs pos h; cases fs with | nil => exact ⟨rfl, rfl⟩ | cons _ _ => exact absurd h id
  | cons hd tl ih =>
    intro fs pos h
    obtain ⟨rr, p⟩ := hd
    cases fs with
    | nil => exact absurd h id
    | cons rf fs =>
      obtain ⟨_, h2, h3, _, _, hrest⟩ := h
      obtain ⟨i1, i2⟩ := ih fs _ hrest
      simp only [List.map_cons, List.sum_cons, sumWritten, sumConsumed] at i1 i2 ⊢
      exact ⟨by rw [h3, i1], by rw [h2, i2]⟩

/-- later flat calls leave the bytes below their start untouched, and keep the buffer size -/
theorem runCalls_frame (flags pos0 : Nat) : ∀ (calls : List (Array UInt8 × Nat)) (r : Regs) (out : Array UInt8)
    (pos : Nat) (carry : Array UInt8) (last : Res),
    (runCalls flags pos0 r out pos carry calls).getLast? = some last →
    last.out.size = out.size ∧ ∀ i, i < pos → last.out[i]? = out[i]? := by
  intro calls
  induction calls with
  | nil => intro r out pos carry last h; simp [runCalls] at h
  | cons hd tl ih =>
    intro r out pos carry last h
    obtain ⟨c, g⟩ := hd
    have hf := decompress_facts r (carry ++ c) out pos (pos0 + g - pos) flags
    cases tl with
    | nil =>
      simp only [runCalls, List.getLast?_singleton, Option.some.injEq] at h
      subst h
      exact ⟨hf.size, fun i hi => hf.frame i (Or.inl hi)⟩
    | cons hd2 tl2 =>
      have hrc : runCalls flags pos0 r out pos carry ((c, g) :: hd2 :: tl2) =
          decompress r (carry ++ c) out pos (pos0 + g - pos) flags ::
            runCalls flags pos0 (decompress r (carry ++ c) out pos (pos0 + g - pos) flags).r
              (decompress r (carry ++ c) out pos (pos0 + g - pos) flags).out
              (pos + (decompress r (carry ++ c) out pos (pos0 + g - pos) flags).written)
              ((carry ++ c).extract (decompress r (carry ++ c) out pos (pos0 + g - pos) flags).consumed (carry ++ c).size)
              (hd2 :: tl2) := rfl
      rw [hrc] at h
      have hne : runCalls flags pos0 (decompress r (carry ++ c) out pos (pos0 + g - pos) flags).r
          (decompress r (carry ++ c) out pos (pos0 + g - pos) flags).out
          (pos + (decompress r (carry ++ c) out pos (pos0 + g - pos) flags).written)
          ((carry ++ c).extract (decompress r (carry ++ c) out pos (pos0 + g - pos) flags).consumed (carry ++ c).size)
          (hd2 :: tl2) ≠ [] := by
        obtain ⟨c2, g2⟩ := hd2; simp [runCalls]
      obtain ⟨x, xs, hx⟩ := List.exists_cons_of_ne_nil hne
      rw [hx, List.getLast?_cons_cons, ← hx] at h
      obtain ⟨i1, i2⟩ := ih _ _ _ _ last h
      exact ⟨i1.trans hf.size, fun i hi => (i2 i (by omega)).trans (hf.frame i (Or.inl hi))⟩

/-- what the flat driver delivered is what stands in its final buffer -/
theorem runCalls_delivered (flags pos0 : Nat) : ∀ (calls : List (Array UInt8 × Nat)) (r : Regs) (out : Array UInt8)
    (pos : Nat) (carry : Array UInt8) (last : Res),
    (runCalls flags pos0 r out pos carry calls).getLast? = some last →
    delivered pos (runCalls flags pos0 r out pos carry calls) =
      last.out.extract pos (pos + sumWritten (runCalls flags pos0 r out pos carry calls)) := by
  intro calls
  induction calls with
  | nil => intro r out pos carry last h; simp [runCalls] at h
  | cons hd tl ih =>
    intro r out pos carry last h
    obtain ⟨c, g⟩ := hd
    cases tl with
    | nil =>
      simp only [runCalls, List.getLast?_singleton, Option.some.injEq] at h
      subst h
      simp [runCalls, delivered, sumWritten]
    | cons hd2 tl2 =>
      have hrc : runCalls flags pos0 r out pos carry ((c, g) :: hd2 :: tl2) =
          decompress r (carry ++ c) out pos (pos0 + g - pos) flags ::
            runCalls flags pos0 (decompress r (carry ++ c) out pos (pos0 + g - pos) flags).r
              (decompress r (carry ++ c) out pos (pos0 + g - pos) flags).out
              (pos + (decompress r (carry ++ c) out pos (pos0 + g - pos) flags).written)
              ((carry ++ c).extract (decompress r (carry ++ c) out pos (pos0 + g - pos) flags).consumed (carry ++ c).size)
              (hd2 :: tl2) := rfl
      rw [hrc] at h ⊢
      generalize decompress r (carry ++ c) out pos (pos0 + g - pos) flags = res1 at *
      have hne : runCalls flags pos0 res1.r res1.out (pos + res1.written)
          ((carry ++ c).extract res1.consumed (carry ++ c).size) (hd2 :: tl2) ≠ [] := by
        obtain ⟨c2, g2⟩ := hd2; simp [runCalls]
      obtain ⟨x, xs, hx⟩ := List.exists_cons_of_ne_nil hne
      rw [hx, List.getLast?_cons_cons, ← hx] at h
      have hIH := ih res1.r res1.out (pos + res1.written) _ last h
      obtain ⟨hsz, hfr⟩ := runCalls_frame flags pos0 _ res1.r res1.out (pos + res1.written) _ last h
      show res1.out.extract pos (pos + res1.written) ++ delivered (pos + res1.written) _ = _
      rw [hIH, ← extract_frame res1.out last.out pos (pos + res1.written) hsz hfr]
      have hsum : sumWritten (res1 :: runCalls flags pos0 res1.r res1.out (pos + res1.written)
          ((carry ++ c).extract res1.consumed (carry ++ c).size) (hd2 :: tl2)) =
          res1.written + sumWritten (runCalls flags pos0 res1.r res1.out (pos + res1.written)
            ((carry ++ c).extract res1.consumed (carry ++ c).size) (hd2 :: tl2)) := by
        simp [sumWritten]
      rw [hsum, ← Nat.add_assoc]
      exact (extract_cat last.out pos (pos + res1.written) _ (by omega) (by omega)).symm

def catList : List (Array UInt8) → Array UInt8
  | [] => #[]
  | c :: cs => c ++ catList cs

theorem catChunks_ringGrants (flags W : Nat) : ∀ (chunks : List (Array UInt8)) (r : Regs) (oR : Array UInt8)
    (p base : Nat) (carry : Array UInt8), catChunks (ringGrants flags W r oR p base carry chunks) = catList chunks := by
  intro chunks
  induction chunks with
  | nil => intro r oR p base carry; rfl
  | cons c cs ih =>
    intro r oR p base carry
    show c ++ catChunks (ringGrants flags W _ _ _ _ _ cs) = c ++ catList cs
    rw [ih]

theorem grantsMono_ringGrants (flags W : Nat) : ∀ (chunks : List (Array UInt8)) (r : Regs) (oR : Array UInt8)
    (p base : Nat) (carry : Array UInt8), grantsMono (ringGrants flags W r oR p base carry chunks) := by
  intro chunks
  induction chunks with
  | nil => intro r oR p base carry; exact trivial
  | cons c cs ih =>
    intro r oR p base carry
    cases cs with
    | nil => exact trivial
    | cons c2 cs2 =>
      refine ⟨?_, ih _ _ _ _ _⟩
      unfold baseNext
      split <;> omega

theorem RunsAgree.suspended : ∀ (rs : List (Res × Nat)) (fs : List Res) (pos : Nat), RunsAgree pos rs fs →
    (∀ x ∈ rs.dropLast, Model.Core.suspended x.1) → ∀ f ∈ fs.dropLast, Model.Core.suspended f := by
  intro rs
  induction rs with
  | nil => intro fs pos h _ f hf; cases fs with | nil => simp at hf | cons _ _ => exact absurd h id
  | cons hd tl ih =>
    intro fs pos h hs f hf
    obtain ⟨rr, p⟩ := hd
    cases fs with
    | nil => exact absurd h id
    | cons rf fs =>
      obtain ⟨h1, _, _, _, _, hrest⟩ := h
      cases tl with
      | nil =>
        cases fs with
        | nil => simp at hf
        | cons _ _ => exact absurd hrest id
      | cons hd2 tl2 =>
        cases fs with
        | nil => obtain ⟨_, _⟩ := hd2; exact absurd hrest id
        | cons rf2 fs2 =>
          rw [List.dropLast_cons_of_ne_nil (by simp)] at hf hs
          rcases List.mem_cons.mp hf with hf | hf
          · subst hf
            have := hs (rr, p) List.mem_cons_self
            unfold Model.Core.suspended at this ⊢
            rw [← h1]; exact this
          · exact ih (rf2 :: fs2) _ hrest (fun x hx => hs x (List.mem_cons_of_mem _ hx)) f hf

theorem RunsAgree.nonempty : ∀ (rs : List (Res × Nat)) (fs : List Res) (pos : Nat), RunsAgree pos rs fs →
    rs ≠ [] → fs ≠ [] := by
  intro rs fs pos h hne
  cases rs with
  | nil => exact absurd rfl hne
  | cons hd tl =>
    cases fs with
    | nil => obtain ⟨_, _⟩ := hd; exact absurd h id
    | cons _ _ => simp

theorem lastGrant_ringGrants_le (flags W : Nat) : ∀ (chunks : List (Array UInt8)) (r : Regs) (oR : Array UInt8)
    (p base : Nat) (carry : Array UInt8), chunks ≠ [] →
    lastGrant (ringGrants flags W r oR p base carry chunks) ≤ base + W * chunks.length := by
  intro chunks
  induction chunks with
  | nil => intro r oR p base carry h; exact absurd rfl h
  | cons c cs ih =>
    intro r oR p base carry _
    cases cs with
    | nil =>
      show base + W ≤ base + W * 1
      omega
    | cons c2 cs2 =>
      have := ih (decompress r (carry ++ c) oR p (W - p) flags).r (decompress r (carry ++ c) oR p (W - p) flags).out
        (ringNext W (p + (decompress r (carry ++ c) oR p (W - p) flags).written))
        (baseNext W base (p + (decompress r (carry ++ c) oR p (W - p) flags).written))
        ((carry ++ c).extract (decompress r (carry ++ c) oR p (W - p) flags).consumed (carry ++ c).size) (by simp)
      show lastGrant (ringGrants flags W _ _ _ _ _ (c2 :: cs2)) ≤ _
      have hb : baseNext W base (p + (decompress r (carry ++ c) oR p (W - p) flags).written) ≤ base + W := by
        unfold baseNext; split <;> omega
      have e := Nat.mul_succ W (c2 :: cs2).length
      simp only [List.length_cons] at this e ⊢
      rw [e]
      omega

end Model.Core
