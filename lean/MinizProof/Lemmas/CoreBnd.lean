/-
What a call of the decoder model leaves in the bit buffer. The one-byte-at-a-time model pulls a
byte only when the pending read needs it, so between calls the buffer holds fewer than 8 bits
unless the call stopped starved inside a read that needs more bits than are buffered (`Hungry`), or
the stream is already doomed by an unassigned code (`Doomed`). So the give-back of read-ahead bytes
at the end of the last block and at the exit of a call never has anything to give back, and a call
on a later chunk behaves exactly like the continuation of a call on the whole input
(`Lemmas/CoreCalls`). No property statements here.
-/
import MinizProof.Lemmas.CoreShift
import MinizProof.Lemmas.CoreGrow
import MinizProof.Lemmas.ClenShallow
set_option maxRecDepth 100000
namespace Model.Core
open Spec

/-- the bit buffer holds nothing above its `numBits` bits -/
def B (c : Ctx) : Prop := c.r.bitBuf < 2 ^ c.r.numBits
/-- no whole byte is buffered -/
def Q (c : Ctx) : Prop := c.r.numBits < 8
/-- the code-length code is decided by 7 bits, and its lengths are 3-bit values -/
def CS (r : Regs) : Prop :=
  (∀ buf m, 7 ≤ m → decodeBuf r.clenCode buf m ≠ .short) ∧ (∀ i, r.clenLens.getD i 0 ≤ 7)
def BC (c : Ctx) : Prop := B c ∧ CS c.r

theorem B_pull {c : Ctx} (h : B c) (b : UInt8) : B (pull c b) := by
  have hb8 : b.toNat < 2 ^ 8 := b.toNat_lt
  show c.r.bitBuf ||| b.toNat <<< c.r.numBits < 2 ^ (c.r.numBits + 8)
  apply Nat.or_lt_two_pow
  · exact Nat.lt_of_lt_of_le h (Nat.pow_le_pow_right (by decide) (by omega))
  · rw [Nat.shiftLeft_eq, Nat.pow_add, Nat.mul_comm]
    exact Nat.mul_lt_mul_of_le_of_lt (Nat.le_refl _) hb8 (Nat.two_pow_pos _)

theorem B_shift {buf n k : Nat} (h : buf < 2 ^ n) (hk : k ≤ n) : buf >>> k < 2 ^ (n - k) := by
  rw [Nat.shiftRight_eq_div_pow]
  apply Nat.div_lt_of_lt_mul
  rw [← Nat.pow_add]
  have : k + (n - k) = n := by omega
  rw [this]; exact h

theorem B_consume {c : Ctx} (h : B c) (n : Nat) (hn : n ≤ c.r.numBits) : B (consume c n) :=
  B_shift h hn

/-- the low bits of the buffer are not touched by a pull -/
theorem bit_pull {c : Ctx} (h : B c) (b : UInt8) (i : Nat) (hi : i < c.r.numBits) :
    bit (pull c b).r.bitBuf i = bit c.r.bitBuf i := by
  show bit (c.r.bitBuf ||| b.toNat <<< c.r.numBits) i = bit c.r.bitBuf i
  rw [bit_eq_testBit, bit_eq_testBit, Nat.testBit_or, Nat.testBit_shiftLeft]
  have : ¬ (i ≥ c.r.numBits) := by omega
  simp only [this, decide_false, Bool.false_and, Bool.or_false]

/-- the code walk over `n` buffered bits looks at the lowest `n` bits only -/
theorem decodeBufAux_low (c : Code) (buf buf' n : Nat) (hb : ∀ i, i < n → bit buf' i = bit buf i) :
    ∀ (fuel len used code first index : Nat),
    decodeBufAux c buf' n fuel len used code first index = decodeBufAux c buf n fuel len used code first index := by
  intro fuel
  induction fuel with
  | zero => intro len used code first index; rfl
  | succ fuel ih =>
    intro len used code first index
    unfold decodeBufAux
    by_cases h1 : index ≥ c.syms.size
    · rw [if_pos h1, if_pos h1]
    · rw [if_neg h1, if_neg h1]
      by_cases h2 : used ≥ n
      · rw [if_pos h2, if_pos h2]
      · rw [if_neg h2, if_neg h2]
        have hbit : buf' >>> used % 2 = buf >>> used % 2 := hb used (by omega)
        dsimp only
        rw [hbit]
        split
        · rfl
        · exact ih _ _ _ _ _

/-- a walk that ran out of bits after `m` of them, and a longer walk over the same buffer that found
    a symbol: the symbol's code is longer than `m` -/
theorem decodeBufAux_short_sym (c : Code) (buf m n : Nat) (hmn : m ≤ n) :
    ∀ (fuel len used code first index s l : Nat),
    decodeBufAux c buf m fuel len used code first index = .short →
    decodeBufAux c buf n fuel len used code first index = .sym s l → m < l := by
  intro fuel
  induction fuel with
  | zero => intro len used code first index s l h; simp [decodeBufAux] at h
  | succ fuel ih =>
    intro len used code first index s l h1 h2
    unfold decodeBufAux at h1 h2
    by_cases hi : index ≥ c.syms.size
    · rw [if_pos hi] at h1; simp at h1
    · rw [if_neg hi] at h1 h2
      by_cases hu : used ≥ m
      · -- the short walk stops here; the long one finds its symbol at this level or deeper
        by_cases hu2 : used ≥ n
        · rw [if_pos hu2] at h2; simp at h2
        · rw [if_neg hu2] at h2
          dsimp only at h2
          split at h2
          · simp only [BufSym.sym.injEq] at h2; omega
          · have := decodeBufAux_len c buf n _ _ _ _ _ _ _ _ h2
            omega
      · rw [if_neg hu] at h1
        have hu2 : ¬ used ≥ n := by omega
        rw [if_neg hu2] at h2
        dsimp only at h1 h2
        split at h1
        · simp at h1
        · rename_i hlt
          rw [if_neg hlt] at h2
          exact ih _ _ _ _ _ _ _ h1 h2

/-- a walk can only run out of bits within its first 15 levels -/
theorem decodeBufAux_short_bound (c : Code) (buf n : Nat) :
    ∀ (fuel len used code first index : Nat),
    decodeBufAux c buf n fuel len used code first index = .short → n < used + fuel := by
  intro fuel
  induction fuel with
  | zero => intro len used code first index h; simp [decodeBufAux] at h
  | succ fuel ih =>
    intro len used code first index h
    unfold decodeBufAux at h
    split at h
    · simp at h
    · split at h
      · omega
      · dsimp only at h
        split at h
        · simp at h
        · have := ih _ _ _ _ _ h
          omega

theorem decodeBuf_short_bound {c : Code} {buf n : Nat} (h : decodeBuf c buf n = .short) : n < 15 := by
  have := decodeBufAux_short_bound c buf n _ _ _ _ _ _ h
  omega

theorem decodeBuf_short_sym {c : Code} {buf m n s l : Nat} (hmn : m ≤ n) (h1 : decodeBuf c buf m = .short)
    (h2 : decodeBuf c buf n = .sym s l) : m < l :=
  decodeBufAux_short_sym c buf m n hmn _ _ _ _ _ _ _ _ h1 h2

theorem decodeBuf_pull {code : Code} {c : Ctx} (h : B c) (b : UInt8) (m : Nat) (hm : m ≤ c.r.numBits) :
    decodeBuf code (pull c b).r.bitBuf m = decodeBuf code c.r.bitBuf m :=
  decodeBufAux_low code _ _ m (fun i hi => bit_pull h b i (by omega)) _ _ _ _ _ _

/-- `readBits` under the buffer discipline: the buffer stays clean; a starved read leaves fewer
    bits than it needs; a successful read leaves only bits of bytes pulled by this call, provided
    that held before or the read needed more than was buffered. -/
theorem readBitsAux_B (inp : Array UInt8) (amount : Nat) : ∀ (fuel : Nat) (c : Ctx), B c →
    B (readBitsAux inp amount fuel c).1 := by
  intro fuel
  induction fuel with
  | zero => intro c h; exact h
  | succ fuel ih =>
    intro c h
    unfold readBitsAux
    by_cases hlt : c.r.numBits < amount
    · rw [if_pos hlt]
      cases hb : inp[c.inPos]? with
      | none => exact h
      | some b => exact ih (pull c b) (B_pull h b)
    · rw [if_neg hlt]
      exact B_shift h (by omega)

theorem readBitsAux_N8 (inp : Array UInt8) (amount : Nat) : ∀ (fuel : Nat) (c : Ctx), c.r.numBits < amount + 8 →
    ∀ v, (readBitsAux inp amount fuel c).2 = some v → (readBitsAux inp amount fuel c).1.r.numBits < 8 := by
  intro fuel
  induction fuel with
  | zero => intro c _ v hv; simp [readBitsAux] at hv
  | succ fuel ih =>
    intro c h v hv
    unfold readBitsAux at hv ⊢
    by_cases hlt : c.r.numBits < amount
    · rw [if_pos hlt] at hv ⊢
      cases hb : inp[c.inPos]? with
      | none => rw [hb] at hv; simp at hv
      | some b =>
        rw [hb] at hv
        exact ih (pull c b) (by show c.r.numBits + 8 < amount + 8; omega) v hv
    · rw [if_neg hlt]
      show c.r.numBits - amount < 8
      omega

theorem readBitsAux_val (inp : Array UInt8) (amount : Nat) : ∀ (fuel : Nat) (c : Ctx) (v : Nat),
    (readBitsAux inp amount fuel c).2 = some v → v < 2 ^ amount := by
  intro fuel
  induction fuel with
  | zero => intro c v hv; simp [readBitsAux] at hv
  | succ fuel ih =>
    intro c v hv
    unfold readBitsAux at hv
    by_cases hlt : c.r.numBits < amount
    · rw [if_pos hlt] at hv
      cases hb : inp[c.inPos]? with
      | none => rw [hb] at hv; simp at hv
      | some b => rw [hb] at hv; exact ih _ v hv
    · rw [if_neg hlt] at hv
      simp only [Option.some.injEq] at hv
      rw [← hv]
      exact Nat.mod_lt _ (Nat.two_pow_pos _)

theorem readBits_val (inp : Array UInt8) (amount : Nat) (c : Ctx) (v : Nat)
    (h : (readBits inp amount c).2 = some v) : v < 2 ^ amount := readBitsAux_val inp amount _ c v h

theorem readBits_I {inp : Array UInt8} {c : Ctx} (hle : c.inPos ≤ inp.size) (amount : Nat) (hB : B c)
    (h : c.r.numBits < amount + 8) :
    ReadOK inp c (readBits inp amount c).1 ∧ B (readBits inp amount c).1 ∧
    ((readBits inp amount c).2 = none → (readBits inp amount c).1.r.numBits < amount) ∧
    (∀ v, (readBits inp amount c).2 = some v → Q (readBits inp amount c).1) := by
  obtain ⟨h1, h2, _⟩ := readBits_spec inp amount c hle
  exact ⟨h1, readBitsAux_B inp amount _ c hB, fun hn => (h2 hn).2.1, fun v hv => readBitsAux_N8 inp amount _ c h v hv⟩

/-- `decodeHuff` under the buffer discipline. Entry: fewer than 8 bits are buffered, or the
    buffered bits are known not to hold a complete code. A starved decode leaves such a buffer
    again; a decoded symbol leaves fewer than 8 bits, except after an unassigned pattern (symbol
    286), where fewer than 8 bits beyond an incomplete code (or beyond nothing) may remain. -/
theorem decodeHuffAux_I (inp : Array UInt8) (code : Code) : ∀ (fuel : Nat) (c : Ctx),
    c.inPos ≤ inp.size → inp.size - c.inPos < fuel → B c →
    (Q c ∨ ∃ m, m ≤ c.r.numBits ∧ (m = 0 ∨ decodeBuf code c.r.bitBuf m = .short) ∧ c.r.numBits ≤ m + 8) →
    let p := decodeHuffAux inp code fuel c
    B p.1 ∧
    (p.2 = none → p.1.r.numBits < 8 ∨ decodeBuf code p.1.r.bitBuf p.1.r.numBits = .short) ∧
    (∀ v, p.2 = some v → Q p.1 ∨
      (v = 286 ∧ ∃ m, (m = 0 ∨ ∃ buf, decodeBuf code buf m = .short) ∧ p.1.r.numBits < m + 8)) := by
  intro fuel
  induction fuel with
  | zero => intro c _ hf; omega
  | succ fuel ih =>
    intro c hle hf hB h
    have hpull : ∀ b, inp[c.inPos]? = some b →
        (decodeBuf code c.r.bitBuf c.r.numBits = .short ∨ c.r.numBits = 0) →
        let p := decodeHuffAux inp code fuel (pull c b)
        B p.1 ∧
        (p.2 = none → p.1.r.numBits < 8 ∨ decodeBuf code p.1.r.bitBuf p.1.r.numBits = .short) ∧
        (∀ v, p.2 = some v → Q p.1 ∨
          (v = 286 ∧ ∃ m, (m = 0 ∨ ∃ buf, decodeBuf code buf m = .short) ∧ p.1.r.numBits < m + 8)) := by
      intro b hb hs
      have hok := pull_ok hb
      have hlt' : c.inPos < inp.size := by
        have := hok.inHi; simp [pull] at this; omega
      refine ih (pull c b) hok.inHi (by simp [pull]; omega) (B_pull hB b) ?_
      have hpn : (pull c b).r.numBits = c.r.numBits + 8 := rfl
      right
      rcases hs with hs | hs
      · refine ⟨c.r.numBits, by rw [hpn]; omega, Or.inr ?_, by rw [hpn]; omega⟩
        rw [decodeBuf_pull hB b _ (Nat.le_refl _)]; exact hs
      · exact ⟨0, Nat.zero_le _, Or.inl rfl, by rw [hpn]; omega⟩
    unfold decodeHuffAux
    cases hd : decodeBuf code c.r.bitBuf c.r.numBits with
    | sym s len =>
      have hl := decodeBuf_len hd
      dsimp only
      refine ⟨B_shift hB hl.2, by intro hn; simp at hn, ?_⟩
      intro v _
      left
      show c.r.numBits - len < 8
      rcases h with hq | ⟨m, hm1, hm2, hm3⟩
      · unfold Q at hq; omega
      · rcases hm2 with hm2 | hm2
        · omega
        · have := decodeBuf_short_sym hm1 hm2 hd
          omega
    | invalid =>
      dsimp only
      by_cases h1 : c.r.numBits ≥ 1
      · rw [if_pos h1]
        refine ⟨B_shift hB h1, by intro hn; simp at hn, ?_⟩
        intro v hv
        simp only [Option.some.injEq] at hv
        rcases h with hq | ⟨m, hm1, hm2, hm3⟩
        · left; show c.r.numBits - 1 < 8; unfold Q at hq; omega
        · right
          refine ⟨hv.symm, m, hm2.elim Or.inl (fun h => Or.inr ⟨_, h⟩), ?_⟩
          show c.r.numBits - 1 < m + 8
          omega
      · rw [if_neg h1]
        cases hb : inp[c.inPos]? with
        | none => exact ⟨hB, fun _ => Or.inl (by show c.r.numBits < 8; omega), by intro v hv; simp at hv⟩
        | some b => exact hpull b hb (Or.inr (by omega))
    | short =>
      dsimp only
      cases hb : inp[c.inPos]? with
      | none => exact ⟨hB, fun _ => Or.inr hd, by intro v hv; simp at hv⟩
      | some b => exact hpull b hb (Or.inl hd)

theorem decodeHuff_I {inp : Array UInt8} {code : Code} {c : Ctx} (hle : c.inPos ≤ inp.size) (hB : B c)
    (h : Q c ∨ decodeBuf code c.r.bitBuf c.r.numBits = .short) :
    ReadOK inp c (decodeHuff inp code c).1 ∧ B (decodeHuff inp code c).1 ∧
    ((decodeHuff inp code c).2 = none → (decodeHuff inp code c).1.r.numBits < 8 ∨
        decodeBuf code (decodeHuff inp code c).1.r.bitBuf (decodeHuff inp code c).1.r.numBits = .short) ∧
    (∀ v, (decodeHuff inp code c).2 = some v → Q (decodeHuff inp code c).1 ∨
        (v = 286 ∧ ∃ m, (m = 0 ∨ ∃ buf, decodeBuf code buf m = .short) ∧
          (decodeHuff inp code c).1.r.numBits < m + 8)) := by
  obtain ⟨h1, _, _⟩ := decodeHuff_spec inp code c hle
  have := decodeHuffAux_I inp code (inp.size - c.inPos + 1) c hle (by omega) hB
    (h.elim Or.inl fun hs => Or.inr ⟨c.r.numBits, Nat.le_refl _, Or.inr hs, by omega⟩)
  exact ⟨h1, this.1, this.2.1, this.2.2⟩

/-- every distance symbol: base ≥ 1 and base + 2^extra − 1 ≤ 32768 -/
theorem distBase_range (d : Nat) (h : d ≤ 29) :
    1 ≤ (distBaseExtra d).1 ∧ (distBaseExtra d).1 + 2 ^ (distBaseExtra d).2 ≤ 32769 := by
  have : ∀ d, d < 30 → (decide (1 ≤ (distBaseExtra d).1 ∧ (distBaseExtra d).1 + 2 ^ (distBaseExtra d).2 ≤ 32769)) = true := by
    decide
  have := this d (by omega)
  simpa using this

/-! ### The invariant -/

def HungryBits (c : Ctx) : Prop :=
  (c.r.state = sReadExtraBitsCodeSize ∨ c.r.state = sReadExtraBitsLitlen ∨ c.r.state = sReadExtraBitsDistance) ∧
  c.r.numBits < c.r.numExtra
def HungryLit (c : Ctx) : Prop := c.r.state = sDecodeLitlen ∧ decodeBuf c.r.litCode c.r.bitBuf c.r.numBits = .short
def HungryDist (c : Ctx) : Prop := c.r.state = sDecodeDistance ∧ decodeBuf c.r.distCode c.r.bitBuf c.r.numBits = .short
def HungryClen (c : Ctx) : Prop :=
  c.r.state = sReadLitlenDistTablesCodeSize ∧ c.r.counter < c.r.tableSizes.getD 0 0 + c.r.tableSizes.getD 1 0 ∧
  decodeBuf c.r.clenCode c.r.bitBuf c.r.numBits = .short
/-- stopped starved inside a read that needs more bits than are buffered -/
def Hungry (c : Ctx) : Prop := HungryBits c ∨ HungryLit c ∨ HungryDist c ∨ HungryClen c
/-- on the way to (or in) a failure state after an unassigned literal/length or distance code -/
def Doomed (c : Ctx) : Prop :=
  ((c.r.state = sWriteSymbol ∨ c.r.state = sHuffDecodeOuterLoop1) ∧ c.r.counter = 286) ∨ sDoneForever < c.r.state
/-- after an unassigned code-length code: the pending 7-bit read removes the older bits -/
def Pend7 (c : Ctx) : Prop :=
  c.r.state = sReadExtraBitsCodeSize ∧ c.r.numExtra = 7 ∧ c.r.numBits < 15
/-- between the distance symbol and the end of the match copy, `dist` holds a DEFLATE distance -/
def DI (c : Ctx) : Prop :=
  (c.r.state = sReadExtraBitsDistance → 1 ≤ c.r.dist ∧ c.r.dist + 2 ^ c.r.numExtra ≤ 32769) ∧
  ((c.r.state = sHuffDecodeOuterLoop2 ∨ c.r.state = sWriteLenBytesToEnd) → 1 ≤ c.r.dist ∧ c.r.dist ≤ 32768)
/-- states that read whole bytes straight from the input have an empty bit buffer (and `DI`) -/
def Z (c : Ctx) : Prop :=
  ((c.r.state = sReadZlibCmf ∨ c.r.state = sReadZlibFlg ∨ c.r.state = sRawMemcpy2) → c.r.numBits = 0) ∧
  (c.r.state = sRawMemcpy1 → c.r.counter = 0 ∨ c.r.numBits = 0) ∧ DI c

/-- The buffer discipline (it does not mention the cursors, so it holds across calls as it stands). -/
def I (c : Ctx) : Prop := BC c ∧ Z c ∧ (Q c ∨ Hungry c ∨ Doomed c ∨ Pend7 c)
/-- the discipline as a predicate on the registers a call starts from -/
def Bnd (r : Regs) : Prop := I ⟨r, 0, 0⟩

theorem Bnd.toI {r : Regs} (h : Bnd r) (i p : Nat) : I ⟨r, i, p⟩ := h

theorem Z_of {c : Ctx} {s : Nat} (hs : c.r.state = s)
    (h1 : (s = sReadZlibCmf ∨ s = sReadZlibFlg ∨ s = sRawMemcpy2) → c.r.numBits = 0)
    (h2 : s = sRawMemcpy1 → c.r.counter = 0 ∨ c.r.numBits = 0)
    (hd : s ≠ sReadExtraBitsDistance ∧ s ≠ sHuffDecodeOuterLoop2 ∧ s ≠ sWriteLenBytesToEnd := by decide) : Z c := by
  unfold Z DI; rw [hs]
  exact ⟨h1, h2, fun h => absurd h hd.1, fun h => h.elim (fun h => absurd h hd.2.1) (fun h => absurd h hd.2.2)⟩

/-- the three states in which `dist` is a distance -/
theorem Z_dist {c : Ctx} {s : Nat} (hs : c.r.state = s)
    (h0 : s = sReadExtraBitsDistance ∨ s = sHuffDecodeOuterLoop2 ∨ s = sWriteLenBytesToEnd)
    (h3 : s = sReadExtraBitsDistance → 1 ≤ c.r.dist ∧ c.r.dist + 2 ^ c.r.numExtra ≤ 32769)
    (h4 : (s = sHuffDecodeOuterLoop2 ∨ s = sWriteLenBytesToEnd) → 1 ≤ c.r.dist ∧ c.r.dist ≤ 32768) : Z c := by
  unfold Z DI; rw [hs]
  refine ⟨fun h => ?_, fun h => ?_, h3, h4⟩
  · rcases h0 with h0 | h0 | h0 <;> rcases h with h | h | h <;> (rw [h0] at h; exact absurd h (by decide))
  · rcases h0 with h0 | h0 | h0 <;> (rw [h0] at h; exact absurd h (by decide))

/-- plain states: neither a byte-reading state nor one of the exceptional ones -/
def plain (s : Nat) : Prop := (s ≠ sReadZlibCmf ∧ s ≠ sReadZlibFlg ∧ s ≠ sRawMemcpy2 ∧ s ≠ sRawMemcpy1 ∧ s ≠ sStart) ∧
  s ≠ sReadExtraBitsDistance ∧ s ≠ sHuffDecodeOuterLoop2 ∧ s ≠ sWriteLenBytesToEnd
instance (s : Nat) : Decidable (plain s) := by unfold plain; exact inferInstance

theorem Z_plain {c : Ctx} {s : Nat} (hs : c.r.state = s) (hp : plain s) : Z c := by
  refine Z_of hs (fun h => ?_) (fun h => absurd h hp.1.2.2.2.1) hp.2
  rcases h with h | h | h
  · exact absurd h hp.1.1
  · exact absurd h hp.1.2.1
  · exact absurd h hp.1.2.2.1

/-- the discipline, in a context that has left the `Start` state (no transition leads back to it) -/
def I' (c : Ctx) : Prop := I c ∧ c.r.state ≠ sStart

theorem I_plain {c : Ctx} (s : Nat) (hs : c.r.state = s) (hp : plain s) (hB : BC c) (hQ : Q c) : I' c :=
  ⟨⟨hB, Z_plain hs hp, Or.inl hQ⟩, by rw [hs]; exact hp.1.2.2.2.2⟩

/-- in a state that is not exceptional the invariant is `Q` -/
def ordinary (s : Nat) : Prop :=
  s ≠ sReadExtraBitsCodeSize ∧ s ≠ sReadExtraBitsLitlen ∧ s ≠ sReadExtraBitsDistance ∧ s ≠ sDecodeLitlen ∧
  s ≠ sDecodeDistance ∧ s ≠ sReadLitlenDistTablesCodeSize ∧ s ≠ sWriteSymbol ∧ s ≠ sHuffDecodeOuterLoop1 ∧
  ¬ sDoneForever < s
instance (s : Nat) : Decidable (ordinary s) := by unfold ordinary; exact inferInstance

theorem I.q {c : Ctx} (h : I c) {s : Nat} (hs : c.r.state = s) (ho : ordinary s) : Q c := by
  obtain ⟨_, _, h⟩ := h
  obtain ⟨o1, o2, o3, o4, o5, o6, o7, o8, o9⟩ := ho
  rcases h with h | h | h | h
  · exact h
  · unfold Hungry HungryBits HungryLit HungryDist HungryClen at h
    rw [hs] at h
    rcases h with ⟨h | h | h, _⟩ | ⟨h, _⟩ | ⟨h, _⟩ | ⟨h, _⟩ <;> contradiction
  · unfold Doomed at h
    rw [hs] at h
    rcases h with ⟨h | h, _⟩ | h <;> contradiction
  · unfold Pend7 at h
    rw [hs] at h
    exact absurd h.1 o1

/-- what a transition must leave behind -/
def StepI (e : Env) : Step → Prop
  | .cont c' _ => I' c'
  | .fin st c' _ => (BC c' ∧ Z c' ∧
      ((st = e.eoi ∧ (Q c' ∨ Hungry c')) ∨ (st ≠ e.eoi ∧ (Q c' ∨ st = stFailed)))) ∧ c'.r.state ≠ sStart

theorem Q.read {c : Ctx} (h : Q c) (amount : Nat) : c.r.numBits < amount + 8 := by unfold Q at h; omega

theorem CS.of_read {inp : Array UInt8} {c c1 : Ctx} (h : ReadOK inp c c1) (hc : CS c.r) : CS c1.r := by
  rw [h.regs]; exact hc

theorem BC.of_read {inp : Array UInt8} {c c1 : Ctx} (h : ReadOK inp c c1) (hc : BC c) (hB : B c1) : BC c1 :=
  ⟨hB, CS.of_read h hc.2⟩

variable {e : Env} {c : Ctx} {out : Array UInt8}

/-- shape shared by the states that start with `readBits` -/
theorem readBits_stepI' {s : Nat} (hs : c.r.state = s) (hz : ∀ c1, ReadOK e.inp c c1 → Z c1) (hns : s ≠ sStart)
    (hle : c.inPos ≤ e.inp.size) (hB : BC c)
    (amount : Nat) (hq : c.r.numBits < amount + 8) (k : Ctx → Nat → Step)
    (hnone : ∀ c1, ReadOK e.inp c c1 → c1.r.numBits < amount → (Q c1 ∨ Hungry c1))
    (hk : ∀ c1 v, ReadOK e.inp c c1 → BC c1 → Q c1 → v < 2 ^ amount → StepI e (k c1 v)) :
    StepI e (match readBits e.inp amount c with
      | (c1, none) => .fin e.eoi c1 out
      | (c1, some v) => k c1 v) := by
  obtain ⟨h1, h2, h3, h4⟩ := readBits_I (inp := e.inp) hle amount hB.1 hq
  have hv := readBits_val e.inp amount c
  generalize readBits e.inp amount c = p at *
  obtain ⟨c1, o⟩ := p
  cases o with
  | none => exact ⟨⟨BC.of_read h1 hB h2, hz c1 h1, Or.inl ⟨rfl, hnone c1 h1 (h3 rfl)⟩⟩,
      by rw [h1.state.trans hs]; exact hns⟩
  | some v => exact hk c1 v h1 (BC.of_read h1 hB h2) (h4 v rfl) (hv v rfl)

/-- the same for plain states -/
theorem readBits_stepI {s : Nat} (hs : c.r.state = s) (hp : plain s) (hle : c.inPos ≤ e.inp.size) (hB : BC c)
    (amount : Nat) (hq : c.r.numBits < amount + 8) (k : Ctx → Nat → Step)
    (hnone : ∀ c1, ReadOK e.inp c c1 → c1.r.numBits < amount → (Q c1 ∨ Hungry c1))
    (hk : ∀ c1 v, ReadOK e.inp c c1 → BC c1 → Q c1 → v < 2 ^ amount → StepI e (k c1 v)) :
    StepI e (match readBits e.inp amount c with
      | (c1, none) => .fin e.eoi c1 out
      | (c1, some v) => k c1 v) := by
  obtain ⟨h1, h2, h3, h4⟩ := readBits_I (inp := e.inp) hle amount hB.1 hq
  have hv := readBits_val e.inp amount c
  generalize readBits e.inp amount c = p at *
  obtain ⟨c1, o⟩ := p
  cases o with
  | none => exact ⟨⟨BC.of_read h1 hB h2, Z_plain (h1.state.trans hs) hp, Or.inl ⟨rfl, hnone c1 h1 (h3 rfl)⟩⟩,
      by rw [h1.state.trans hs]; exact hp.1.2.2.2.2⟩
  | some v => exact hk c1 v h1 (BC.of_read h1 hB h2) (h4 v rfl) (hv v rfl)

theorem decodeHuff_stepI {s : Nat} (hs : c.r.state = s) (hp : plain s) (hle : c.inPos ≤ e.inp.size) (hB : BC c)
    (code : Code) (hq : Q c ∨ decodeBuf code c.r.bitBuf c.r.numBits = .short) (k : Ctx → Nat → Step)
    (hnone : ∀ c1, ReadOK e.inp c c1 → decodeBuf code c1.r.bitBuf c1.r.numBits = .short → Hungry c1)
    (hk : ∀ c1 v, ReadOK e.inp c c1 → BC c1 →
      (Q c1 ∨ (v = 286 ∧ ∃ m, (m = 0 ∨ ∃ buf, decodeBuf code buf m = .short) ∧ c1.r.numBits < m + 8)) →
      StepI e (k c1 v)) :
    StepI e (match decodeHuff e.inp code c with
      | (c1, none) => .fin e.eoi c1 out
      | (c1, some v) => k c1 v) := by
  obtain ⟨h1, h2, h3, h4⟩ := decodeHuff_I (inp := e.inp) (code := code) hle hB.1 hq
  generalize decodeHuff e.inp code c = p at *
  obtain ⟨c1, o⟩ := p
  cases o with
  | none =>
    refine ⟨⟨BC.of_read h1 hB h2, Z_plain (h1.state.trans hs) hp, Or.inl ⟨rfl, ?_⟩⟩,
      by rw [h1.state.trans hs]; exact hp.1.2.2.2.2⟩
    rcases h3 rfl with h | h
    · exact Or.inl h
    · exact Or.inr (hnone c1 h1 h)
  | some v => exact hk c1 v h1 (BC.of_read h1 hB h2) (h4 v rfl)


theorem initTree_I {c : Ctx} (hB : BC c) (hQ : Q c) (l d : Array Nat) : I' (initTree c l d) := by
  unfold initTree
  (repeat' split)
  · exact I_plain sReadLitlenDistTablesCodeSize rfl (by decide)
      ⟨hB.1, ⟨fun buf m hm => decodeBuf_shallow _ hB.2.2 buf m hm, hB.2.2⟩⟩ hQ
  · exact I_plain sBadTotalSymbols rfl (by decide) hB hQ
  · exact I_plain sBadTotalSymbols rfl (by decide) hB hQ
  · exact I_plain sBadTotalSymbols rfl (by decide) hB hQ
  · exact I_plain sDecodeLitlen rfl (by decide) hB hQ

theorem stStart_I (hC : CS c.r) : StepI e (stStart e c out) := by
  unfold stStart
  have hB0 : (0 : Nat) < 2 ^ 0 := by decide
  have hQ0 : (0 : Nat) < 8 := by decide
  by_cases hz : hasFlag e.flags fParseZlib = true
  · simp only [hz, ↓reduceIte]
    exact ⟨⟨⟨hB0, hC⟩, Z_of (s := sReadZlibCmf) rfl (fun _ => rfl) (fun h => absurd h (by decide)), Or.inl hQ0⟩,
      by show sReadZlibCmf ≠ sStart; decide⟩
  · simp only [hz, ↓reduceIte]
    exact ⟨⟨⟨hB0, hC⟩, Z_of (s := sReadBlockHeader) rfl (fun _ => rfl) (fun h => absurd h (by decide)), Or.inl hQ0⟩,
      by show sReadBlockHeader ≠ sStart; decide⟩

theorem stReadZlibCmf_I (hs : c.r.state = sReadZlibCmf) (hI : I c) : StepI e (stReadZlibCmf e c out) := by
  have hz : c.r.numBits = 0 := hI.2.1.1 (Or.inl hs)
  have hQ : Q c := by unfold Q; omega
  unfold stReadZlibCmf
  cases e.inp[c.inPos]? with
  | none => exact ⟨⟨hI.1, hI.2.1, Or.inl ⟨rfl, Or.inl hQ⟩⟩, by rw [hs]; decide⟩
  | some b => exact ⟨⟨hI.1, Z_of (s := sReadZlibFlg) rfl (fun _ => hz) (fun h => absurd h (by decide)), Or.inl hQ⟩, by show sReadZlibFlg ≠ sStart; decide⟩

theorem stReadZlibFlg_I (hs : c.r.state = sReadZlibFlg) (hI : I c) : StepI e (stReadZlibFlg e c out) := by
  have hz : c.r.numBits = 0 := hI.2.1.1 (Or.inr (Or.inl hs))
  have hQ : Q c := by unfold Q; omega
  unfold stReadZlibFlg
  cases e.inp[c.inPos]? with
  | none => exact ⟨⟨hI.1, hI.2.1, Or.inl ⟨rfl, Or.inl hQ⟩⟩, by rw [hs]; decide⟩
  | some b =>
    dsimp only
    split
    · exact I_plain sBadZlibHeader rfl (by decide) hI.1 hQ
    · exact I_plain sReadBlockHeader rfl (by decide) hI.1 hQ

theorem stReadBlockHeader_I (hle : c.inPos ≤ e.inp.size) (hs : c.r.state = sReadBlockHeader) (hI : I c) :
    StepI e (stReadBlockHeader e c out) := by
  unfold stReadBlockHeader
  refine readBits_stepI hs (by decide) hle hI.1 3 ((hI.q hs (by decide)).read 3) _
    (fun c1 _ h => Or.inl (by unfold Q; omega)) fun c1 v h1 hB hQ _ => ?_
  dsimp only
  (repeat' split)
  · exact I_plain sBlockTypeNoCompression rfl (by decide) hB hQ
  · exact initTree_I (c := _) (by exact hB) (by exact hQ) _ _
  · exact I_plain sReadTableSizes rfl (by decide) hB hQ
  · exact I_plain sBlockTypeUnexpected rfl (by decide) hB hQ

theorem stBlockTypeNoCompression_I (hle : c.inPos ≤ e.inp.size) (hs : c.r.state = sBlockTypeNoCompression) (hI : I c) :
    StepI e (stBlockTypeNoCompression e c out) := by
  unfold stBlockTypeNoCompression
  have hQ := hI.q hs (by decide)
  refine readBits_stepI hs (by decide) hle hI.1 _ (hQ.read _) _
    (fun c1 _ h => Or.inl (by unfold Q at hQ ⊢; omega)) fun c1 v h1 hB hQ _ => ?_
  exact I_plain sRawHeader rfl (by decide) hB hQ

theorem stRawHeader_I (hle : c.inPos ≤ e.inp.size) (hs : c.r.state = sRawHeader) (hI : I c) :
    StepI e (stRawHeader e c out) := by
  have hQ := hI.q hs (by decide)
  unfold stRawHeader
  dsimp only
  split
  · split
    · refine readBits_stepI hs (by decide) hle hI.1 8 (hQ.read 8) _
        (fun c1 _ h => Or.inl h) fun c1 v h1 hB hQ1 _ => ?_
      exact I_plain sRawHeader (h1.state.trans hs) (by decide) hB hQ1
    · cases e.inp[c.inPos]? with
      | none => exact ⟨⟨hI.1, hI.2.1, Or.inl ⟨rfl, Or.inl hQ⟩⟩, by rw [hs]; decide⟩
      | some b => exact I_plain sRawHeader hs (by decide) hI.1 hQ
  · (repeat' split)
    · exact I_plain sBadRawLength rfl (by decide) hI.1 hQ
    · exact I_plain sBlockDone rfl (by decide) hI.1 hQ
    · exact I_plain sRawReadFirstByte rfl (by decide) hI.1 hQ
    · rename_i h0
      exact ⟨⟨hI.1, Z_of (s := sRawMemcpy1) rfl (fun h => absurd h (by decide))
        (fun _ => Or.inr (by show c.r.numBits = 0; omega)), Or.inl hQ⟩, by show sRawMemcpy1 ≠ sStart; decide⟩

theorem stRawReadFirstByte_I (hle : c.inPos ≤ e.inp.size) (hs : c.r.state = sRawReadFirstByte) (hI : I c) :
    StepI e (stRawReadFirstByte e c out) := by
  unfold stRawReadFirstByte
  refine readBits_stepI hs (by decide) hle hI.1 8 ((hI.q hs (by decide)).read 8) _
    (fun c1 _ h => Or.inl h) fun c1 v h1 hB hQ _ => ?_
  exact I_plain sRawStoreFirstByte rfl (by decide) hB hQ

theorem stRawStoreFirstByte_I (hs : c.r.state = sRawStoreFirstByte) (hI : I c) :
    StepI e (stRawStoreFirstByte e c out) := by
  have hQ := hI.q hs (by decide)
  unfold stRawStoreFirstByte
  split
  · exact ⟨⟨hI.1, hI.2.1, Or.inr ⟨hmo_ne_eoi e, Or.inl hQ⟩⟩, by rw [hs]; decide⟩
  · dsimp only
    split
    · rename_i h0
      exact ⟨⟨hI.1, Z_of (s := sRawMemcpy1) rfl (fun h => absurd h (by decide)) (fun _ => h0), Or.inl hQ⟩, by show sRawMemcpy1 ≠ sStart; decide⟩
    · exact I_plain sRawReadFirstByte rfl (by decide) hI.1 hQ

theorem stRawMemcpy1_I (hs : c.r.state = sRawMemcpy1) (hI : I c) : StepI e (stRawMemcpy1 e c out) := by
  have hQ := hI.q hs (by decide)
  unfold stRawMemcpy1
  split
  · exact I_plain sBlockDone rfl (by decide) hI.1 hQ
  · rename_i hc
    split
    · exact ⟨⟨hI.1, hI.2.1, Or.inr ⟨hmo_ne_eoi e, Or.inl hQ⟩⟩, by rw [hs]; decide⟩
    · have hz : c.r.numBits = 0 := (hI.2.1.2.1 hs).resolve_left hc
      exact ⟨⟨hI.1, Z_of (s := sRawMemcpy2) rfl (fun _ => hz) (fun h => absurd h (by decide)), Or.inl hQ⟩, by show sRawMemcpy2 ≠ sStart; decide⟩

theorem stRawMemcpy2_I (hs : c.r.state = sRawMemcpy2) (hI : I c) : StepI e (stRawMemcpy2 e c out) := by
  have hz : c.r.numBits = 0 := hI.2.1.1 (Or.inr (Or.inr hs))
  have hQ : Q c := by unfold Q; omega
  unfold stRawMemcpy2
  split
  · exact ⟨⟨hI.1, Z_of (s := sRawMemcpy1) rfl (fun h => absurd h (by decide)) (fun _ => Or.inr hz), Or.inl hQ⟩, by show sRawMemcpy1 ≠ sStart; decide⟩
  · exact ⟨⟨hI.1, hI.2.1, Or.inl ⟨rfl, Or.inl hQ⟩⟩, by rw [hs]; decide⟩

theorem getD_setIfInBounds_le {a : Array Nat} {j v b : Nat} (ha : ∀ i, a.getD i 0 ≤ b) (hv : v ≤ b) (i : Nat) :
    (a.setIfInBounds j v).getD i 0 ≤ b := by
  have := ha i
  simp only [Array.getD_eq_getD_getElem?] at this ⊢
  rw [Array.getElem?_setIfInBounds]
  split
  · split <;> simp <;> omega
  · exact this

theorem stReadTableSizes_I (hle : c.inPos ≤ e.inp.size) (hs : c.r.state = sReadTableSizes) (hI : I c) :
    StepI e (stReadTableSizes e c out) := by
  have hQ := hI.q hs (by decide)
  unfold stReadTableSizes
  dsimp only
  split
  · rename_i h3
    have hamt : ([5, 5, 4] : List Nat).getD c.r.counter 0 ≤ 8 := by
      have : c.r.counter = 0 ∨ c.r.counter = 1 ∨ c.r.counter = 2 := by omega
      rcases this with h | h | h <;> rw [h] <;> decide
    refine readBits_stepI hs (by decide) hle hI.1 _ (hQ.read _) _
      (fun c1 _ h => Or.inl (by unfold Q; omega)) fun c1 v h1 hB hQ1 _ => ?_
    exact I_plain sReadTableSizes (h1.state.trans hs) (by decide) hB hQ1
  · have hB' : BC { c with r := { c.r with clenLens := Array.replicate 19 0, counter := 0 } } :=
      ⟨hI.1.1, ⟨hI.1.2.1, fun i => by
        show (Array.replicate 19 0).getD i 0 ≤ 7
        simp only [Array.getD_eq_getD_getElem?, Array.getElem?_replicate]
        split <;> simp⟩⟩
    split
    · exact I_plain sReadHufflenTableCodeSize rfl (by decide) hB' hQ
    · exact I_plain sBadDistOrLiteralTableLength rfl (by decide) hB' hQ

theorem stReadHufflenTableCodeSize_I (hle : c.inPos ≤ e.inp.size) (hs : c.r.state = sReadHufflenTableCodeSize)
    (hI : I c) : StepI e (stReadHufflenTableCodeSize e c out) := by
  have hQ := hI.q hs (by decide)
  unfold stReadHufflenTableCodeSize
  dsimp only
  split
  · refine readBits_stepI hs (by decide) hle hI.1 3 (hQ.read 3) _
      (fun c1 _ h => Or.inl (by unfold Q; omega)) fun c1 v h1 hB hQ1 hv => ?_
    refine I_plain sReadHufflenTableCodeSize (h1.state.trans hs) (by decide) ⟨hB.1, ⟨hB.2.1, ?_⟩⟩ hQ1
    exact getD_setIfInBounds_le hB.2.2 (by have : (2 : Nat) ^ 3 = 8 := rfl; omega)
  · exact initTree_I (c := _) (by exact hI.1) (by exact hQ) _ _

/-- in the code-length reading state the invariant is `Q` or a hungry code-length decode -/
theorem I.clen (h : I c) (hs : c.r.state = sReadLitlenDistTablesCodeSize) :
    Q c ∨ (c.r.counter < c.r.tableSizes.getD 0 0 + c.r.tableSizes.getD 1 0 ∧
      decodeBuf c.r.clenCode c.r.bitBuf c.r.numBits = .short) := by
  obtain ⟨_, _, h⟩ := h
  rcases h with h | h | h | h
  · exact Or.inl h
  · unfold Hungry HungryBits HungryLit HungryDist HungryClen at h
    rw [hs] at h
    rcases h with ⟨h | h | h, _⟩ | ⟨h, _⟩ | ⟨h, _⟩ | ⟨_, h⟩
    · exact absurd h (by decide)
    · exact absurd h (by decide)
    · exact absurd h (by decide)
    · exact absurd h (by decide)
    · exact absurd h (by decide)
    · exact Or.inr h
  · unfold Doomed at h
    rw [hs] at h
    rcases h with ⟨h | h, _⟩ | h
    · exact absurd h (by decide)
    · exact absurd h (by decide)
    · exact absurd h (by decide)
  · unfold Pend7 at h
    rw [hs] at h
    exact absurd h.1 (by decide)

theorem stReadLitlenDistTablesCodeSize_I (hle : c.inPos ≤ e.inp.size)
    (hs : c.r.state = sReadLitlenDistTablesCodeSize) (hI : I c) :
    StepI e (stReadLitlenDistTablesCodeSize e c out) := by
  have hcl := hI.clen hs
  unfold stReadLitlenDistTablesCodeSize
  dsimp only
  split
  · rename_i hlt
    refine decodeHuff_stepI hs (by decide) hle hI.1 _ (hcl.elim Or.inl fun h => Or.inr h.2) _ ?_ ?_
    · intro c1 h1 hsh
      refine Or.inr (Or.inr (Or.inr ⟨h1.state.trans hs, ?_, ?_⟩))
      · rw [h1.regs]; exact hlt
      · rw [h1.regs] at hsh ⊢; exact hsh
    · intro c1 v h1 hB hv
      have hst : c1.r.state = sReadLitlenDistTablesCodeSize := h1.state.trans hs
      split
      · rename_i h16
        have hQ1 : Q c1 := hv.elim id fun h => by omega
        exact I_plain sReadLitlenDistTablesCodeSize hst (by decide) hB hQ1
      · split
        · rename_i h16
          have hQ1 : Q c1 := hv.elim id fun h => by omega
          exact I_plain sBadCodeSizeDistPrevLookup rfl (by decide) hB hQ1
        · rcases hv with hQ1 | ⟨hv, m, hm, hlt15⟩
          · exact I_plain sReadExtraBitsCodeSize rfl (by decide) hB hQ1
          · -- the code-length code is decided by 7 bits: fewer than 7 + 8 bits are left
            have hm6 : m ≤ 6 := by
              rcases hm with hm | ⟨buf, hm⟩
              · omega
              · have := hI.1.2.1 buf m
                by_cases h7 : 7 ≤ m
                · exact absurd hm (this h7)
                · omega
            refine ⟨⟨hB, Z_plain (s := sReadExtraBitsCodeSize) rfl (by decide), Or.inr (Or.inr (Or.inr ⟨rfl, ?_, ?_⟩))⟩,
              by show sReadExtraBitsCodeSize ≠ sStart; decide⟩
            · subst hv; rfl
            · show c1.r.numBits < 15
              omega
  · have hQ : Q c := hcl.elim id fun h => absurd h.1 (by assumption)
    split
    · exact I_plain sBadCodeSizeSum rfl (by decide) hI.1 hQ
    · exact initTree_I (c := _) (by exact hI.1) (by exact hQ) _ _

theorem stReadExtraBitsCodeSize_I (hle : c.inPos ≤ e.inp.size) (hs : c.r.state = sReadExtraBitsCodeSize) (hI : I c) :
    StepI e (stReadExtraBitsCodeSize e c out) := by
  have hq : c.r.numBits < c.r.numExtra + 8 := by
    obtain ⟨_, _, h⟩ := hI
    rcases h with h | h | h | h
    · exact h.read _
    · unfold Hungry HungryBits HungryLit HungryDist HungryClen at h
      rw [hs] at h
      rcases h with ⟨_, h⟩ | ⟨h, _⟩ | ⟨h, _⟩ | ⟨h, _⟩
      · omega
      · exact absurd h (by decide)
      · exact absurd h (by decide)
      · exact absurd h (by decide)
    · unfold Doomed at h
      rw [hs] at h
      rcases h with ⟨h | h, _⟩ | h
      · exact absurd h (by decide)
      · exact absurd h (by decide)
      · exact absurd h (by decide)
    · unfold Pend7 at h
      omega
  unfold stReadExtraBitsCodeSize
  refine readBits_stepI hs (by decide) hle hI.1 _ hq _ ?_ fun c1 v h1 hB hQ1 _ => ?_
  · intro c1 h1 hlt
    refine Or.inr (Or.inl ⟨Or.inl (h1.state.trans hs), ?_⟩)
    rw [h1.regs]; exact hlt
  · exact I_plain sReadLitlenDistTablesCodeSize rfl (by decide) hB hQ1

/-- in a state whose only exception is a hungry `readBits` -/
theorem I.bits (h : I c) {s : Nat} (hs : c.r.state = s)
    (h1 : s = sReadExtraBitsLitlen ∨ s = sReadExtraBitsDistance) : c.r.numBits < c.r.numExtra + 8 := by
  obtain ⟨_, _, h⟩ := h
  rcases h with h | h | h | h
  · exact h.read _
  · unfold Hungry HungryBits HungryLit HungryDist HungryClen at h
    rw [hs] at h
    rcases h with ⟨_, h⟩ | ⟨h, _⟩ | ⟨h, _⟩ | ⟨h, _⟩
    · omega
    all_goals (rcases h1 with h1 | h1 <;> (rw [h1] at h; exact absurd h (by decide)))
  · unfold Doomed at h
    rw [hs] at h
    rcases h with ⟨h | h, _⟩ | h <;> (rcases h1 with h1 | h1 <;> (rw [h1] at h; exact absurd h (by decide)))
  · unfold Pend7 at h
    rw [hs] at h
    rcases h1 with h1 | h1 <;> (rw [h1] at h; exact absurd h.1 (by decide))

theorem stReadExtraBitsLitlen_I (hle : c.inPos ≤ e.inp.size) (hs : c.r.state = sReadExtraBitsLitlen) (hI : I c) :
    StepI e (stReadExtraBitsLitlen e c out) := by
  unfold stReadExtraBitsLitlen
  refine readBits_stepI hs (by decide) hle hI.1 _ (hI.bits hs (Or.inl rfl)) _ ?_ fun c1 v h1 hB hQ1 _ => ?_
  · intro c1 h1 hlt
    refine Or.inr (Or.inl ⟨Or.inr (Or.inl (h1.state.trans hs)), ?_⟩)
    rw [h1.regs]; exact hlt
  · exact I_plain sDecodeDistance rfl (by decide) hB hQ1

theorem stReadExtraBitsDistance_I (hle : c.inPos ≤ e.inp.size) (hs : c.r.state = sReadExtraBitsDistance) (hI : I c) :
    StepI e (stReadExtraBitsDistance e c out) := by
  unfold stReadExtraBitsDistance
  have hdi0 := hI.2.1.2.2.1 hs
  refine readBits_stepI' hs (fun c1 h1 => Z_dist (s := sReadExtraBitsDistance) (h1.state.trans hs) (Or.inl rfl)
      (fun _ => by rw [h1.regs]; exact hdi0) (fun h => h.elim (fun h => absurd h (by decide)) (fun h => absurd h (by decide))))
    (by decide) hle hI.1 _ (hI.bits hs (Or.inr rfl)) _ ?_ fun c1 v h1 hB hQ1 hv => ?_
  · intro c1 h1 hlt
    refine Or.inr (Or.inl ⟨Or.inr (Or.inr (h1.state.trans hs)), ?_⟩)
    rw [h1.regs]; exact hlt
  · have hdi := hI.2.1.2.2.1 hs
    have hreg : c1.r.dist = c.r.dist := by rw [h1.regs]
    refine ⟨⟨hB, Z_dist (s := sHuffDecodeOuterLoop2) rfl (Or.inr (Or.inl rfl)) (fun h => absurd h (by decide)) (fun _ => ?_), Or.inl hQ1⟩,
      by show sHuffDecodeOuterLoop2 ≠ sStart; decide⟩
    show 1 ≤ c1.r.dist + v ∧ c1.r.dist + v ≤ 32768
    rw [hreg]
    omega

/-- in a Huffman-decoding state the invariant is `Q` or a hungry decode of that state's code -/
theorem I.lit (h : I c) (hs : c.r.state = sDecodeLitlen) :
    Q c ∨ decodeBuf c.r.litCode c.r.bitBuf c.r.numBits = .short := by
  obtain ⟨_, _, h⟩ := h
  rcases h with h | h | h | h
  · exact Or.inl h
  · unfold Hungry HungryBits HungryLit HungryDist HungryClen at h
    rw [hs] at h
    rcases h with ⟨h | h | h, _⟩ | ⟨_, h⟩ | ⟨h, _⟩ | ⟨h, _⟩
    · exact absurd h (by decide)
    · exact absurd h (by decide)
    · exact absurd h (by decide)
    · exact Or.inr h
    · exact absurd h (by decide)
    · exact absurd h (by decide)
  · unfold Doomed at h
    rw [hs] at h
    rcases h with ⟨h | h, _⟩ | h
    · exact absurd h (by decide)
    · exact absurd h (by decide)
    · exact absurd h (by decide)
  · unfold Pend7 at h
    rw [hs] at h
    exact absurd h.1 (by decide)

theorem I.dist (h : I c) (hs : c.r.state = sDecodeDistance) :
    Q c ∨ decodeBuf c.r.distCode c.r.bitBuf c.r.numBits = .short := by
  obtain ⟨_, _, h⟩ := h
  rcases h with h | h | h | h
  · exact Or.inl h
  · unfold Hungry HungryBits HungryLit HungryDist HungryClen at h
    rw [hs] at h
    rcases h with ⟨h | h | h, _⟩ | ⟨h, _⟩ | ⟨_, h⟩ | ⟨h, _⟩
    · exact absurd h (by decide)
    · exact absurd h (by decide)
    · exact absurd h (by decide)
    · exact absurd h (by decide)
    · exact Or.inr h
    · exact absurd h (by decide)
  · unfold Doomed at h
    rw [hs] at h
    rcases h with ⟨h | h, _⟩ | h
    · exact absurd h (by decide)
    · exact absurd h (by decide)
    · exact absurd h (by decide)
  · unfold Pend7 at h
    rw [hs] at h
    exact absurd h.1 (by decide)

/-- in `WriteSymbol` / `HuffDecodeOuterLoop1` the invariant is `Q` or the doomed symbol 286 -/
theorem I.sym (h : I c) {s : Nat} (hs : c.r.state = s) (h1 : s = sWriteSymbol ∨ s = sHuffDecodeOuterLoop1) :
    Q c ∨ c.r.counter = 286 := by
  obtain ⟨_, _, h⟩ := h
  rcases h with h | h | h | h
  · exact Or.inl h
  · unfold Hungry HungryBits HungryLit HungryDist HungryClen at h
    rw [hs] at h
    rcases h with ⟨h | h | h, _⟩ | ⟨h, _⟩ | ⟨h, _⟩ | ⟨h, _⟩ <;>
      (rcases h1 with h1 | h1 <;> (rw [h1] at h; exact absurd h (by decide)))
  · unfold Doomed at h
    rw [hs] at h
    rcases h with ⟨_, h⟩ | h
    · exact Or.inr h
    · rcases h1 with h1 | h1 <;> (rw [h1] at h; exact absurd h (by decide))
  · unfold Pend7 at h
    rw [hs] at h
    rcases h1 with h1 | h1 <;> (rw [h1] at h; exact absurd h.1 (by decide))

theorem stDecodeLitlen_I (hle : c.inPos ≤ e.inp.size) (hs : c.r.state = sDecodeLitlen) (hI : I c) :
    StepI e (stDecodeLitlen e c out) := by
  unfold stDecodeLitlen
  refine decodeHuff_stepI hs (by decide) hle hI.1 _ (hI.lit hs) _ ?_ ?_
  · intro c1 h1 hsh
    refine Or.inr (Or.inl ⟨h1.state.trans hs, ?_⟩)
    rw [h1.regs] at hsh ⊢; exact hsh
  · intro c1 v h1 hB hv
    rcases hv with hQ1 | ⟨hv, _⟩
    · exact I_plain sWriteSymbol rfl (by decide) hB hQ1
    · exact ⟨⟨hB, Z_plain (s := sWriteSymbol) rfl (by decide), Or.inr (Or.inr (Or.inl (Or.inl ⟨Or.inl rfl, hv⟩)))⟩, by show sWriteSymbol ≠ sStart; decide⟩

theorem stWriteSymbol_I (hs : c.r.state = sWriteSymbol) (hI : I c) : StepI e (stWriteSymbol e c out) := by
  have h := hI.sym hs (Or.inl rfl)
  unfold stWriteSymbol
  split
  · rcases h with hQ | h286
    · exact I_plain sHuffDecodeOuterLoop1 rfl (by decide) hI.1 hQ
    · exact ⟨⟨hI.1, Z_plain (s := sHuffDecodeOuterLoop1) rfl (by decide), Or.inr (Or.inr (Or.inl (Or.inl ⟨Or.inr rfl, h286⟩)))⟩, by show sHuffDecodeOuterLoop1 ≠ sStart; decide⟩
  · have hQ : Q c := h.elim id fun h => by omega
    split
    · exact I_plain sDecodeLitlen rfl (by decide) hI.1 hQ
    · exact ⟨⟨hI.1, hI.2.1, Or.inr ⟨hmo_ne_eoi e, Or.inl hQ⟩⟩, by rw [hs]; decide⟩

theorem stHuffDecodeOuterLoop1_I (hs : c.r.state = sHuffDecodeOuterLoop1) (hI : I c) :
    StepI e (stHuffDecodeOuterLoop1 e c out) := by
  have h := hI.sym hs (Or.inr rfl)
  unfold stHuffDecodeOuterLoop1
  dsimp only
  split
  · have hQ : Q c := h.elim id fun h => by omega
    exact I_plain sBlockDone rfl (by decide) hI.1 hQ
  · split
    · exact ⟨⟨hI.1, Z_plain (s := sInvalidLitlen) rfl (by decide), Or.inr (Or.inr (Or.inl (Or.inr (by show sDoneForever < sInvalidLitlen; decide))))⟩, by show sInvalidLitlen ≠ sStart; decide⟩
    · have hQ : Q c := h.elim id fun h => by omega
      split
      · exact I_plain sReadExtraBitsLitlen rfl (by decide) hI.1 hQ
      · exact I_plain sDecodeDistance rfl (by decide) hI.1 hQ

theorem stDecodeDistance_I (hle : c.inPos ≤ e.inp.size) (hs : c.r.state = sDecodeDistance) (hI : I c) :
    StepI e (stDecodeDistance e c out) := by
  unfold stDecodeDistance
  refine decodeHuff_stepI hs (by decide) hle hI.1 _ (hI.dist hs) _ ?_ ?_
  · intro c1 h1 hsh
    refine Or.inr (Or.inr (Or.inl ⟨h1.state.trans hs, ?_⟩))
    rw [h1.regs] at hsh ⊢; exact hsh
  · intro c1 v h1 hB hv
    dsimp only
    split
    · exact ⟨⟨hB, Z_plain (s := sInvalidDist) rfl (by decide), Or.inr (Or.inr (Or.inl (Or.inr (by show sDoneForever < sInvalidDist; decide))))⟩, by show sInvalidDist ≠ sStart; decide⟩
    · rename_i hle29
      have hQ1 : Q c1 := hv.elim id fun h => by omega
      have htab := distBase_range v (by omega)
      split
      · exact ⟨⟨hB, Z_dist (s := sReadExtraBitsDistance) rfl (Or.inl rfl) (fun _ => htab) (fun h => h.elim (fun h => absurd h (by decide)) (fun h => absurd h (by decide))), Or.inl hQ1⟩,
          by show sReadExtraBitsDistance ≠ sStart; decide⟩
      · rename_i h0
        have h0' : (distBaseExtra v).2 = 0 := by simpa using h0
        refine ⟨⟨hB, Z_dist (s := sHuffDecodeOuterLoop2) rfl (Or.inr (Or.inl rfl)) (fun h => absurd h (by decide)) (fun _ => ?_), Or.inl hQ1⟩,
          by show sHuffDecodeOuterLoop2 ≠ sStart; decide⟩
        show 1 ≤ (distBaseExtra v).1 ∧ (distBaseExtra v).1 ≤ 32768
        rw [h0'] at htab
        omega

theorem stMatch_I (hs : c.r.state = sHuffDecodeOuterLoop2 ∨ c.r.state = sWriteLenBytesToEnd) (hI : I c) :
    StepI e (stMatch e c out) := by
  have hQ : Q c := by
    rcases hs with hs | hs
    · exact hI.q hs (by decide)
    · exact hI.q hs (by decide)
  have hdi : 1 ≤ c.r.dist ∧ c.r.dist ≤ 32768 := hI.2.1.2.2.2 hs
  unfold stMatch
  dsimp only
  (repeat' split) <;> first
    | exact I_plain sDistanceOutOfBounds rfl (by decide) hI.1 hQ
    | exact I_plain sDecodeLitlen rfl (by decide) hI.1 hQ
    | exact ⟨⟨hI.1, Z_dist (s := sWriteLenBytesToEnd) rfl (Or.inr (Or.inr rfl)) (fun h => absurd h (by decide)) (fun _ => hdi), Or.inl hQ⟩,
        by show sWriteLenBytesToEnd ≠ sStart; decide⟩
    | exact ⟨⟨hI.1, Z_dist (s := sWriteLenBytesToEnd) rfl (Or.inr (Or.inr rfl)) (fun h => absurd h (by decide)) (fun _ => hdi), Or.inr ⟨hmo_ne_eoi e, Or.inl hQ⟩⟩,
        by show sWriteLenBytesToEnd ≠ sStart; decide⟩

theorem stBlockDone_I (hs : c.r.state = sBlockDone) (hI : I c) : StepI e (stBlockDone e c out) := by
  have hQ := hI.q hs (by decide)
  unfold stBlockDone
  dsimp only
  split
  · have hB' : ∀ (x nb' : Nat), x % 2 ^ nb' < 2 ^ nb' := fun x nb' => Nat.mod_lt _ (Nat.two_pow_pos _)
    have hQ' : (c.r.numBits - c.r.numBits % 8) - 8 * min ((c.r.numBits - c.r.numBits % 8) / 8) c.inPos < 8 := by
      unfold Q at hQ; omega
    split
    · exact I_plain sReadAdler32 rfl (by decide) ⟨hB' _ _, hI.1.2⟩ hQ'
    · exact I_plain sDoneForever rfl (by decide) ⟨hB' _ _, hI.1.2⟩ hQ'
  · split
    · exact ⟨⟨hI.1, hI.2.1, Or.inr ⟨bb_ne_eoi e, Or.inl hQ⟩⟩, by rw [hs]; decide⟩
    · exact I_plain sReadBlockHeader rfl (by decide) hI.1 hQ

theorem stReadAdler32_I (hle : c.inPos ≤ e.inp.size) (hs : c.r.state = sReadAdler32) (hI : I c) :
    StepI e (stReadAdler32 e c out) := by
  have hQ := hI.q hs (by decide)
  unfold stReadAdler32
  dsimp only
  split
  · split
    · refine readBits_stepI hs (by decide) hle hI.1 8 (hQ.read 8) _
        (fun c1 _ h => Or.inl h) fun c1 v h1 hB hQ1 _ => ?_
      exact I_plain sReadAdler32 (h1.state.trans hs) (by decide) hB hQ1
    · cases e.inp[c.inPos]? with
      | none => exact ⟨⟨hI.1, hI.2.1, Or.inl ⟨rfl, Or.inl hQ⟩⟩, by rw [hs]; decide⟩
      | some b => exact I_plain sReadAdler32 hs (by decide) hI.1 hQ
  · exact I_plain sDoneForever rfl (by decide) hI.1 hQ

/-- One transition keeps the buffer discipline. -/
theorem step_I (g : Geo e c out) (hI : I c) : StepI e (step e c out) := by
  have hle := g.inLe
  by_cases hStart : c.r.state = sStart
  · rw [step_Start hStart]; exact stStart_I hI.1.2
  by_cases hReadBlockHeader : c.r.state = sReadBlockHeader
  · rw [step_ReadBlockHeader hReadBlockHeader]; exact stReadBlockHeader_I hle hReadBlockHeader hI
  by_cases hBlockTypeNoCompression : c.r.state = sBlockTypeNoCompression
  · rw [step_BlockTypeNoCompression hBlockTypeNoCompression]; exact stBlockTypeNoCompression_I hle hBlockTypeNoCompression hI
  by_cases hRawHeader : c.r.state = sRawHeader
  · rw [step_RawHeader hRawHeader]; exact stRawHeader_I hle hRawHeader hI
  by_cases hRawReadFirstByte : c.r.state = sRawReadFirstByte
  · rw [step_RawReadFirstByte hRawReadFirstByte]; exact stRawReadFirstByte_I hle hRawReadFirstByte hI
  by_cases hReadTableSizes : c.r.state = sReadTableSizes
  · rw [step_ReadTableSizes hReadTableSizes]; exact stReadTableSizes_I hle hReadTableSizes hI
  by_cases hReadHufflenTableCodeSize : c.r.state = sReadHufflenTableCodeSize
  · rw [step_ReadHufflenTableCodeSize hReadHufflenTableCodeSize]; exact stReadHufflenTableCodeSize_I hle hReadHufflenTableCodeSize hI
  by_cases hReadLitlenDistTablesCodeSize : c.r.state = sReadLitlenDistTablesCodeSize
  · rw [step_ReadLitlenDistTablesCodeSize hReadLitlenDistTablesCodeSize]; exact stReadLitlenDistTablesCodeSize_I hle hReadLitlenDistTablesCodeSize hI
  by_cases hReadExtraBitsCodeSize : c.r.state = sReadExtraBitsCodeSize
  · rw [step_ReadExtraBitsCodeSize hReadExtraBitsCodeSize]; exact stReadExtraBitsCodeSize_I hle hReadExtraBitsCodeSize hI
  by_cases hDecodeLitlen : c.r.state = sDecodeLitlen
  · rw [step_DecodeLitlen hDecodeLitlen]; exact stDecodeLitlen_I hle hDecodeLitlen hI
  by_cases hReadExtraBitsLitlen : c.r.state = sReadExtraBitsLitlen
  · rw [step_ReadExtraBitsLitlen hReadExtraBitsLitlen]; exact stReadExtraBitsLitlen_I hle hReadExtraBitsLitlen hI
  by_cases hDecodeDistance : c.r.state = sDecodeDistance
  · rw [step_DecodeDistance hDecodeDistance]; exact stDecodeDistance_I hle hDecodeDistance hI
  by_cases hReadExtraBitsDistance : c.r.state = sReadExtraBitsDistance
  · rw [step_ReadExtraBitsDistance hReadExtraBitsDistance]; exact stReadExtraBitsDistance_I hle hReadExtraBitsDistance hI
  by_cases hReadAdler32 : c.r.state = sReadAdler32
  · rw [step_ReadAdler32 hReadAdler32]; exact stReadAdler32_I hle hReadAdler32 hI
  by_cases hReadZlibCmf : c.r.state = sReadZlibCmf
  · rw [step_ReadZlibCmf hReadZlibCmf]; exact stReadZlibCmf_I hReadZlibCmf hI
  by_cases hReadZlibFlg : c.r.state = sReadZlibFlg
  · rw [step_ReadZlibFlg hReadZlibFlg]; exact stReadZlibFlg_I hReadZlibFlg hI
  by_cases hRawStoreFirstByte : c.r.state = sRawStoreFirstByte
  · rw [step_RawStoreFirstByte hRawStoreFirstByte]; exact stRawStoreFirstByte_I hRawStoreFirstByte hI
  by_cases hRawMemcpy1 : c.r.state = sRawMemcpy1
  · rw [step_RawMemcpy1 hRawMemcpy1]; exact stRawMemcpy1_I hRawMemcpy1 hI
  by_cases hRawMemcpy2 : c.r.state = sRawMemcpy2
  · rw [step_RawMemcpy2 hRawMemcpy2]; exact stRawMemcpy2_I hRawMemcpy2 hI
  by_cases hWriteSymbol : c.r.state = sWriteSymbol
  · rw [step_WriteSymbol hWriteSymbol]; exact stWriteSymbol_I hWriteSymbol hI
  by_cases hHuffDecodeOuterLoop1 : c.r.state = sHuffDecodeOuterLoop1
  · rw [step_HuffDecodeOuterLoop1 hHuffDecodeOuterLoop1]; exact stHuffDecodeOuterLoop1_I hHuffDecodeOuterLoop1 hI
  by_cases hBlockDone : c.r.state = sBlockDone
  · rw [step_BlockDone hBlockDone]; exact stBlockDone_I hBlockDone hI
  by_cases hM1 : c.r.state = sHuffDecodeOuterLoop2
  · rw [step_Match1 hM1]; exact stMatch_I (Or.inl hM1) hI
  by_cases hM2 : c.r.state = sWriteLenBytesToEnd
  · rw [step_Match2 hM2]; exact stMatch_I (Or.inr hM2) hI
  by_cases hD : c.r.state = sDoneForever
  · rw [step_DoneForever hD]
    exact ⟨⟨hI.1, hI.2.1, Or.inr ⟨done_ne_eoi e, Or.inl (hI.q hD (by decide))⟩⟩, by rw [hD]; decide⟩
  · have hF : sDoneForever < c.r.state := by
      simp only [sStart, sReadZlibCmf, sReadZlibFlg, sReadBlockHeader, sBlockTypeNoCompression, sRawHeader,
        sRawMemcpy1, sRawMemcpy2, sReadTableSizes, sReadHufflenTableCodeSize, sReadLitlenDistTablesCodeSize,
        sReadExtraBitsCodeSize, sDecodeLitlen, sWriteSymbol, sReadExtraBitsLitlen, sDecodeDistance,
        sReadExtraBitsDistance, sRawReadFirstByte, sRawStoreFirstByte, sWriteLenBytesToEnd, sBlockDone,
        sHuffDecodeOuterLoop1, sHuffDecodeOuterLoop2, sReadAdler32, sDoneForever] at *
      omega
    have h1 : step e c out = .fin stFailed c out := by unfold step; exact stepAt_failed _ hF e c out
    rw [h1]
    exact ⟨⟨hI.1, hI.2.1, Or.inr ⟨failed_ne_eoi e, Or.inr rfl⟩⟩, by intro h; rw [h] at hF; exact absurd hF (by decide)⟩

/-- What a run leaves behind (`RunI`): the buffer is clean; a starved stop leaves fewer than 8 bits or
    a hungry read; every other stop leaves fewer than 8 bits, or a failure state. -/
def RunI (e : Env) (st : Int) (c' : Ctx) : Prop :=
  (BC c' ∧ Z c' ∧ ((st = e.eoi ∧ (Q c' ∨ Hungry c')) ∨ (st ≠ e.eoi ∧ (Q c' ∨ st = stFailed)))) ∧
  c'.r.state ≠ sStart

theorem run_I (e : Env) : ∀ (f : Nat) (c : Ctx) (out : Array UInt8), Geo e c out → I c →
    ∀ st c' out', run e f c out = (st, c', out') → st ≠ stModelError → RunI e st c' := by
  intro f
  induction f with
  | zero =>
    intro c out _ _ st c' out' h hne
    rw [run] at h
    simp only [Prod.mk.injEq] at h
    exact absurd h.1.symm hne
  | succ f ih =>
    intro c out g hI st c' out' h hne
    have hok := step_ok g
    have hsi := step_I g hI
    rw [run] at h
    cases hst : step e c out with
    | cont c1 o1 =>
      rw [hst] at h hok hsi
      exact ih c1 o1 hok.geo hsi.1 st c' out' h hne
    | fin st1 c1 o1 =>
      rw [hst] at h hsi
      simp only [Prod.mk.injEq] at h
      obtain ⟨h1, h2, _⟩ := h
      rw [← h1, ← h2]
      exact hsi

end Model.Core
