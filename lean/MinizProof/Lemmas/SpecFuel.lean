/-
The reference decoder's fuel is never the reason it stops: every loop iteration of `Spec.inflateSpec`
moves the bit position forward and stays inside the data, and the fuel handed out by `fuelFor` exceeds
the number of bits. So the verdict `.fuel` does not occur, and "not accepted" means rejected or
truncated. Specification-side facts only; used by Props/C04.
-/
import MinizProof.Lemmas.CoreBlocks
set_option linter.unusedVariables false
set_option linter.unusedSimpArgs false
set_option maxRecDepth 100000
namespace Spec
open Model.Core

theorem bitAt_isSome_lt {data : Array UInt8} {q : Nat} (h : (bitAt data q).isSome = true) : q < 8 * data.size := by
  obtain ⟨b, hb⟩ := bitAt_isSome_byte h
  have : q / 8 < data.size := by
    by_cases hlt : q / 8 < data.size
    · exact hlt
    · simp [Array.getElem?_eq_none (Nat.le_of_not_lt hlt)] at hb
  omega

theorem decodeSym_bound {c : Code} {data : Array UInt8} {pos s p : Nat} (h : decodeSym c data pos = .sym s p) :
    pos < p ∧ p ≤ 8 * data.size := by
  have h1 := decodeSymAux_pos c data _ _ _ _ _ _ _ _ h
  have h2 := decodeSymAux_avail c data _ _ _ _ _ _ _ _ h (p - 1) (by omega) (by omega)
  have := bitAt_isSome_lt h2
  omega

theorem bitsAt_bound {data : Array UInt8} {pos n v : Nat} (h : bitsAt data pos n = some v) (hn : 0 < n) :
    pos + n ≤ 8 * data.size := by
  have := bitAt_isSome_lt (bitsAt_some_bitAt data n pos v h (n - 1) (by omega))
  omega

/-- with a position already inside the data, a field read (possibly of no bits) stays inside -/
theorem bitsAt_bound' {data : Array UInt8} {pos n v : Nat} (h : bitsAt data pos n = some v) (hp : pos ≤ 8 * data.size) :
    pos + n ≤ 8 * data.size := by
  by_cases hn : 0 < n
  · exact bitsAt_bound h hn
  · omega

theorem decodeToken_lit_bound {maxDist : Nat} {lit dist : Code} {data : Array UInt8} {pos avail : Nat} {b : UInt8} {p : Nat}
    (h : decodeToken maxDist lit dist data pos avail = .lit b p) : pos < p ∧ p ≤ 8 * data.size := by
  obtain ⟨s, hd, _, _⟩ := decodeToken_lit_inv h
  exact decodeSym_bound hd

theorem decodeToken_eob_bound {maxDist : Nat} {lit dist : Code} {data : Array UInt8} {pos avail : Nat} {p : Nat}
    (h : decodeToken maxDist lit dist data pos avail = .eob p) : pos < p ∧ p ≤ 8 * data.size :=
  decodeSym_bound (decodeToken_eob_inv h)

theorem decodeToken_copy_bound {maxDist : Nat} {lit dist : Code} {data : Array UInt8} {pos avail : Nat} {len dd p : Nat}
    (h : decodeToken maxDist lit dist data pos avail = .copy len dd p) : pos < p ∧ p ≤ 8 * data.size := by
  obtain ⟨s, p1, lx, d, p3, dx, hd, _, _, hlx, hdd, _, hdx, _, _, hp, _⟩ := decodeToken_copy_inv h
  have b1 := decodeSym_bound hd
  have b2 := decodeSym_bound hdd
  have b3 := bitsAt_bound' hdx b2.2
  omega

/-- The token loop never runs out of fuel, and an accepted block body ends inside the data. -/
theorem decodeTokens_fuel (pre : Array UInt8) (maxDist : Nat) (lit dist : Code) (data : Array UInt8) :
    ∀ (fuel pos : Nat) (o : Array UInt8) (toks : Array Token), pos ≤ 8 * data.size → 8 * data.size + 1 ≤ fuel + pos →
    decodeTokens pre maxDist lit dist data fuel pos o toks ≠ .fuel ∧
    ∀ R, decodeTokens pre maxDist lit dist data fuel pos o toks = .accept R → pos < R.1 ∧ R.1 ≤ 8 * data.size := by
  intro fuel
  induction fuel with
  | zero => intro pos o toks h1 h2; omega
  | succ fuel ih =>
    intro pos o toks h1 h2
    rw [decodeTokens]
    cases ht : decodeToken maxDist lit dist data pos (pre.size + o.size) with
    | lit b p =>
      have hb := decodeToken_lit_bound ht
      obtain ⟨a1, a2⟩ := ih p (o.push b) (toks.push (.lit b)) hb.2 (by omega)
      exact ⟨a1, fun R hR => by have := a2 R hR; omega⟩
    | eob p =>
      have hb := decodeToken_eob_bound ht
      refine ⟨by simp, fun R hR => ?_⟩
      simp only [Verdict.accept.injEq] at hR
      rw [← hR]; exact hb
    | copy len dd p =>
      have hb := decodeToken_copy_bound ht
      obtain ⟨a1, a2⟩ := ih p (copyMatch pre o dd len) (toks.push (.copy len dd)) hb.2 (by omega)
      exact ⟨a1, fun R hR => by have := a2 R hR; omega⟩
    | reject w => exact ⟨by simp, fun R hR => by simp at hR⟩
    | truncated => exact ⟨by simp, fun R hR => by simp at hR⟩

theorem readLenStep_bound {cl : Code} {data : Array UInt8} {pos p' : Nat} {acc acc' : Array Nat}
    (h : readLenStep cl data pos acc = .more p' acc') : pos < p' ∧ p' ≤ 8 * data.size := by
  unfold readLenStep at h
  cases hd : decodeSym cl data pos with
  | short => simp [hd] at h
  | invalid => simp [hd] at h
  | sym s p =>
    have hb := decodeSym_bound hd
    simp only [hd] at h
    by_cases h16 : s < 16
    · simp only [h16, ↓reduceIte, LenStep.more.injEq] at h
      rw [← h.1]; exact hb
    · simp only [h16, ↓reduceIte] at h
      by_cases e16 : s = 16
      · simp only [e16, ↓reduceIte] at h
        by_cases hz : acc.size = 0
        · simp [hz] at h
        · simp only [hz, ↓reduceIte] at h
          cases hx : bitsAt data p 2 with
          | none => simp [hx] at h
          | some r =>
            simp only [hx, LenStep.more.injEq] at h
            have := bitsAt_bound hx (by omega)
            rw [← h.1]; omega
      · simp only [e16, ↓reduceIte] at h
        by_cases e17 : s = 17
        · simp only [e17, ↓reduceIte] at h
          cases hx : bitsAt data p 3 with
          | none => simp [hx] at h
          | some r =>
            simp only [hx, LenStep.more.injEq] at h
            have := bitsAt_bound hx (by omega)
            rw [← h.1]; omega
        · simp only [e17, ↓reduceIte] at h
          cases hx : bitsAt data p 7 with
          | none => simp [hx] at h
          | some r =>
            simp only [hx, LenStep.more.injEq] at h
            have := bitsAt_bound hx (by omega)
            rw [← h.1]; omega

theorem readLens_fuel (cl : Code) (data : Array UInt8) (total : Nat) :
    ∀ (fuel pos : Nat) (acc : Array Nat), pos ≤ 8 * data.size → 8 * data.size + 1 ≤ fuel + pos →
    readLens cl data total fuel pos acc ≠ .fuel ∧
    ∀ R, readLens cl data total fuel pos acc = .accept R → pos ≤ R.1 ∧ R.1 ≤ 8 * data.size := by
  intro fuel
  induction fuel with
  | zero => intro pos acc h1 h2; omega
  | succ fuel ih =>
    intro pos acc h1 h2
    rw [readLens]
    by_cases e1 : acc.size = total
    · simp only [e1, ↓reduceIte]
      refine ⟨by simp, fun R hR => ?_⟩
      simp only [Verdict.accept.injEq] at hR
      rw [← hR]; exact ⟨Nat.le_refl _, h1⟩
    · simp only [e1, ↓reduceIte]
      by_cases e2 : acc.size > total
      · simp only [e2, ↓reduceIte]
        exact ⟨by simp, fun R hR => by simp at hR⟩
      · simp only [e2, ↓reduceIte]
        cases hst : readLenStep cl data pos acc with
        | more p' acc' =>
          have hb := readLenStep_bound hst
          obtain ⟨a1, a2⟩ := ih p' acc' hb.2 (by omega)
          exact ⟨a1, fun R hR => by have := a2 R hR; omega⟩
        | reject w => exact ⟨by simp, fun R hR => by simp at hR⟩
        | truncated => exact ⟨by simp, fun R hR => by simp at hR⟩

theorem readClens_bound (data : Array UInt8) : ∀ (n pos : Nat) (order : List Nat) (acc : Array Nat) (p : Nat) (acc' : Array Nat),
    readClens data n pos order acc = some (p, acc') → pos ≤ 8 * data.size → pos ≤ p ∧ p ≤ 8 * data.size := by
  intro n
  induction n with
  | zero => intro pos order acc p acc' h hp; simp [readClens] at h; omega
  | succ n ih =>
    intro pos order acc p acc' h hp
    cases order with
    | nil => simp [readClens] at h; omega
    | cons o os =>
      unfold readClens at h
      cases hv : bitsAt data pos 3 with
      | none => simp [hv] at h
      | some v =>
        simp only [hv] at h
        have hb := bitsAt_bound hv (by omega)
        have := ih _ _ _ _ _ h hb
        omega

/-- One block never runs out of fuel, and an accepted block ends strictly further, inside the data. -/
theorem inflateBlock_fuel (pre : Array UInt8) (maxDist : Nat) (data : Array UInt8) (fuel pos : Nat) (o : Array UInt8)
    (h1 : pos ≤ 8 * data.size) (h2 : 8 * data.size + 1 ≤ fuel + pos) :
    inflateBlock pre maxDist data fuel pos o ≠ .fuel ∧
    ∀ R, inflateBlock pre maxDist data fuel pos o = .accept R → pos < R.1 ∧ R.1 ≤ 8 * data.size := by
  unfold inflateBlock
  cases hv : bitsAt data pos 3 with
  | none => exact ⟨by simp, fun R hR => by simp at hR⟩
  | some hdr =>
    have hb3 := bitsAt_bound hv (by omega)
    simp only
    by_cases hb0 : hdr / 2 = 0
    · simp only [hb0, ↓reduceIte]
      cases hl : bitsAt data (8 * ((pos + 3 + 7) / 8)) 16 with
      | none => exact ⟨by simp, fun R hR => by simp at hR⟩
      | some len =>
        cases hn : bitsAt data (8 * ((pos + 3 + 7) / 8) + 16) 16 with
        | none => exact ⟨by simp, fun R hR => by simp at hR⟩
        | some nlen =>
          have hbn := bitsAt_bound hn (by omega)
          dsimp only
          by_cases hne : len + nlen ≠ 65535
          · rw [if_pos hne]
            exact ⟨by simp, fun R hR => by simp at hR⟩
          · rw [if_neg hne]
            cases hcp : copyStored data ((pos + 3 + 7) / 8 + 4) o len with
            | none => exact ⟨by simp, fun R hR => by simp at hR⟩
            | some o2 =>
              refine ⟨by simp, fun R hR => ?_⟩
              simp only [Verdict.accept.injEq] at hR
              rw [← hR]
              simp only
              have hsp := (copyStored_spec data len _ o o2 hcp).1
              by_cases hz : 0 < len
              · have := hsp hz; omega
              · omega
    · simp only [hb0, ↓reduceIte]
      by_cases hb1 : hdr / 2 = 1
      · simp only [hb1, ↓reduceIte]
        obtain ⟨a1, a2⟩ := decodeTokens_fuel pre maxDist fixedLitCode fixedDistCode data fuel (pos + 3) o #[] hb3 (by omega)
        cases ht : decodeTokens pre maxDist fixedLitCode fixedDistCode data fuel (pos + 3) o #[] with
        | accept R =>
          obtain ⟨p, o2, toks⟩ := R
          have := a2 _ ht
          refine ⟨by simp, fun R hR => ?_⟩
          simp only [Verdict.accept.injEq] at hR
          rw [← hR]; simp only at this ⊢; omega
        | reject w => exact ⟨by simp, fun R hR => by simp at hR⟩
        | truncated p => exact ⟨by simp, fun R hR => by simp at hR⟩
        | fuel => exact absurd ht a1
      · simp only [hb1, ↓reduceIte]
        by_cases hb2 : hdr / 2 = 2
        · simp only [hb2, ↓reduceIte]
          cases e1 : bitsAt data (pos + 3) 5 with
          | none => exact ⟨by simp, fun R hR => by simp at hR⟩
          | some hlit =>
            cases e2 : bitsAt data (pos + 3 + 5) 5 with
            | none => exact ⟨by simp, fun R hR => by simp at hR⟩
            | some hdist =>
              cases e3 : bitsAt data (pos + 3 + 10) 4 with
              | none => exact ⟨by simp, fun R hR => by simp at hR⟩
              | some hclen =>
                have hb14 := bitsAt_bound e3 (by omega)
                simp only
                by_cases hbig : (decide (hlit + 257 > 286) || decide (hdist + 1 > 30)) = true
                · simp only [hbig, ↓reduceIte]
                  exact ⟨by simp, fun R hR => by simp at hR⟩
                · simp only [hbig, Bool.false_eq_true, ↓reduceIte]
                  cases hcl : readClens data (hclen + 4) (pos + 3 + 14) clenOrder (Array.replicate 19 0) with
                  | none => exact ⟨by simp, fun R hR => by simp at hR⟩
                  | some pc =>
                    obtain ⟨pos1, clens⟩ := pc
                    have hbc := readClens_bound data _ _ _ _ _ _ hcl (by omega)
                    simp only
                    by_cases hclv : codeValid .clen clens = true
                    · simp only [hclv, Bool.not_true, Bool.false_eq_true, ↓reduceIte]
                      obtain ⟨l1, l2⟩ := readLens_fuel (mkCode clens) data (hlit + 257 + (hdist + 1)) fuel pos1 #[] hbc.2 (by omega)
                      cases hlens : readLens (mkCode clens) data (hlit + 257 + (hdist + 1)) fuel pos1 #[] with
                      | accept R2 =>
                        obtain ⟨pos2, lens⟩ := R2
                        have hb2' := l2 _ hlens
                        simp only at hb2' ⊢
                        by_cases hvl : codeValid .litlen (lens.extract 0 (hlit + 257)) = true
                        · simp only [hvl, Bool.not_true, Bool.false_eq_true, ↓reduceIte]
                          by_cases hvd : codeValid .dist (lens.extract (hlit + 257) (hlit + 257 + (hdist + 1))) = true
                          · simp only [hvd, Bool.not_true, Bool.false_eq_true, ↓reduceIte]
                            obtain ⟨a1, a2⟩ := decodeTokens_fuel pre maxDist (mkCode (lens.extract 0 (hlit + 257)))
                              (mkCode (lens.extract (hlit + 257) (hlit + 257 + (hdist + 1)))) data fuel pos2 o #[] hb2'.2 (by omega)
                            cases ht : decodeTokens pre maxDist (mkCode (lens.extract 0 (hlit + 257)))
                                (mkCode (lens.extract (hlit + 257) (hlit + 257 + (hdist + 1)))) data fuel pos2 o #[] with
                            | accept R =>
                              obtain ⟨p, o2, toks⟩ := R
                              have := a2 _ ht
                              refine ⟨by simp, fun R hR => ?_⟩
                              simp only [Verdict.accept.injEq] at hR
                              rw [← hR]; simp only at this ⊢; omega
                            | reject w => exact ⟨by simp, fun R hR => by simp at hR⟩
                            | truncated p => exact ⟨by simp, fun R hR => by simp at hR⟩
                            | fuel => exact absurd ht a1
                          · simp only [hvd, Bool.not_false, ↓reduceIte]
                            exact ⟨by simp, fun R hR => by simp at hR⟩
                        · simp only [hvl, Bool.not_false, ↓reduceIte]
                          exact ⟨by simp, fun R hR => by simp at hR⟩
                      | reject w => exact ⟨by simp, fun R hR => by simp at hR⟩
                      | truncated p => exact ⟨by simp, fun R hR => by simp at hR⟩
                      | fuel => exact absurd hlens l1
                    · simp only [hclv, Bool.not_false, ↓reduceIte]
                      exact ⟨by simp, fun R hR => by simp at hR⟩
        · simp only [hb2, ↓reduceIte]
          exact ⟨by simp, fun R hR => by simp at hR⟩

theorem inflateBlocks_fuel (pre : Array UInt8) (maxDist : Nat) (data : Array UInt8) :
    ∀ (fuel pos : Nat) (o : Array UInt8) (bl : Array BlockInfo), pos ≤ 8 * data.size → 8 * data.size + 2 ≤ fuel + pos →
    inflateBlocks pre maxDist data fuel pos o bl ≠ .fuel := by
  intro fuel
  induction fuel with
  | zero => intro pos o bl h1 h2; omega
  | succ fuel ih =>
    intro pos o bl h1 h2
    rw [inflateBlocks]
    obtain ⟨a1, a2⟩ := inflateBlock_fuel pre maxDist data fuel pos o h1 (by omega)
    cases hb : inflateBlock pre maxDist data fuel pos o with
    | accept R1 =>
      obtain ⟨p1, o1, info⟩ := R1
      have hbnd := a2 _ hb
      simp only at hbnd ⊢
      by_cases hf : info.final = true
      · simp only [hf, ↓reduceIte]; simp
      · simp only [hf, Bool.false_eq_true, ↓reduceIte]
        exact ih p1 o1 _ hbnd.2 (by omega)
    | reject w => simp
    | truncated p => simp
    | fuel => exact absurd hb a1

theorem inflateSpec_ne_fuel_inside (pre : Array UInt8) (maxDist : Nat) (data : Array UInt8) (startBit : Nat)
    (h : startBit ≤ 8 * data.size) : inflateSpec pre maxDist data startBit ≠ .fuel := by
  unfold inflateSpec
  have := inflateBlocks_fuel pre maxDist data (fuelFor data) startBit #[] #[] h (by unfold fuelFor; omega)
  cases hb : inflateBlocks pre maxDist data (fuelFor data) startBit #[] #[] with
  | accept R => simp
  | reject w => simp
  | truncated p => simp
  | fuel => exact absurd hb this

/-- THE REFERENCE DECODER NEVER STOPS FOR LACK OF FUEL. -/
theorem inflateSpec_ne_fuel (pre : Array UInt8) (maxDist : Nat) (data : Array UInt8) (startBit : Nat) :
    inflateSpec pre maxDist data startBit ≠ .fuel := by
  by_cases h : startBit ≤ 8 * data.size
  · exact inflateSpec_ne_fuel_inside pre maxDist data startBit h
  · unfold inflateSpec
    have hf : fuelFor data = (8 * data.size + 15) + 1 := rfl
    rw [hf, inflateBlocks]
    unfold inflateBlock
    cases hv : bitsAt data startBit 3 with
    | none => simp
    | some hdr => have := bitsAt_bound hv (by omega); omega

theorem zlibSpec_ne_fuel (pre : Array UInt8) (maxDist : Nat) (data : Array UInt8) (chk : Bool) :
    zlibSpec pre maxDist data chk ≠ .fuel := by
  unfold zlibSpec
  have hne := inflateSpec_ne_fuel pre maxDist data 16
  cases h0 : data[0]? with
  | none => simp
  | some cmf =>
    cases h1 : data[1]? with
    | none => simp
    | some flg =>
      simp only
      by_cases hv : zlibHeaderValid cmf.toNat flg.toNat = true
      · simp only [hv, Bool.not_true, Bool.false_eq_true, ↓reduceIte]
        cases hi : inflateSpec pre maxDist data 16 with
        | accept r =>
          simp only
          cases data[(r.bitsUsed + 7) / 8]? <;> cases data[(r.bitsUsed + 7) / 8 + 1]? <;>
            cases data[(r.bitsUsed + 7) / 8 + 2]? <;> cases data[(r.bitsUsed + 7) / 8 + 3]? <;> simp only <;>
            first | (intro h; cases h) | (split <;> (intro h; cases h))
        | reject w => simp
        | truncated p => simp
        | fuel => exact absurd hi hne
      · simp [hv]

end Spec
