/-
A ring output buffer against a flat one. The run of the automaton with a wrapping buffer of `W`
bytes, in the lap that started at flat position `base`, is the run with a flat buffer whose output
cursor is `base` further — as long as the flat run never finds a distance reaching before the start
of the data (a ring cannot notice that) — and the ring holds the last `W` bytes of the flat buffer.
Part 1: the states that do not write (one equation per state). No property statements here.
-/
import MinizProof.Lemmas.CoreBnd
set_option maxRecDepth 100000
namespace Model.Core
open Spec

/-- flat view of a ring context: output cursor `base` further -/
@[reducible] def U (base : Nat) (c : Ctx) : Ctx := { c with outPos := base + c.outPos }

def Step.mapU (base : Nat) (o : Array UInt8) : Step → Step
  | .cont c _ => .cont (U base c) o
  | .fin st c _ => .fin st (U base c) o

/-- the two environments: same input and flags except the buffer mode -/
structure RingFlat (eR eF : Env) (W base : Nat) : Prop where
  inp   : eF.inp = eR.inp
  zlib  : hasFlag eF.flags fParseZlib = hasFlag eR.flags fParseZlib
  stop  : hasFlag eF.flags fStopOnBlockBoundary = hasFlag eR.flags fStopOnBlockBoundary
  eoi   : eF.eoi = eR.eoi
  ringR : eR.ring = true
  ringF : eF.ring = false
  lenR  : eR.outLen = W
  endF  : eF.outEnd = base + eR.outEnd
  big   : 32768 ≤ W

theorem readBitsAux_U (inp : Array UInt8) (amount base : Nat) : ∀ (f : Nat) (c : Ctx),
    readBitsAux inp amount f (U base c) = (U base (readBitsAux inp amount f c).1, (readBitsAux inp amount f c).2) := by
  intro f
  induction f with
  | zero => intro c; rfl
  | succ f ih =>
    intro c
    unfold readBitsAux
    show (if c.r.numBits < amount then _ else _) = _
    by_cases h : c.r.numBits < amount
    · rw [if_pos h, if_pos h]
      show (match inp[c.inPos]? with | none => _ | some b => _) = _
      cases hb : inp[c.inPos]? with
      | none => rfl
      | some b => exact ih (pull c b)
    · rw [if_neg h, if_neg h]

theorem readBits_U (inp : Array UInt8) (amount base : Nat) (c : Ctx) :
    readBits inp amount (U base c) = (U base (readBits inp amount c).1, (readBits inp amount c).2) :=
  readBitsAux_U inp amount base _ c

theorem decodeHuffAux_U (inp : Array UInt8) (code : Code) (base : Nat) : ∀ (f : Nat) (c : Ctx),
    decodeHuffAux inp code f (U base c) = (U base (decodeHuffAux inp code f c).1, (decodeHuffAux inp code f c).2) := by
  intro f
  induction f with
  | zero => intro c; rfl
  | succ f ih =>
    intro c
    unfold decodeHuffAux
    show (match decodeBuf code c.r.bitBuf c.r.numBits with | .sym s len => _ | .invalid => _ | .short => _) = _
    cases hd : decodeBuf code c.r.bitBuf c.r.numBits with
    | sym s len => rfl
    | invalid =>
      show (if c.r.numBits ≥ 1 then _ else _) = _
      by_cases h : c.r.numBits ≥ 1
      · rw [if_pos h, if_pos h]
      · rw [if_neg h, if_neg h]
        show (match inp[c.inPos]? with | none => _ | some b => _) = _
        cases hb : inp[c.inPos]? with
        | none => rfl
        | some b => exact ih (pull c b)
    | short =>
      show (match inp[c.inPos]? with | none => _ | some b => _) = _
      cases hb : inp[c.inPos]? with
      | none => rfl
      | some b => exact ih (pull c b)

theorem decodeHuff_U (inp : Array UInt8) (code : Code) (base : Nat) (c : Ctx) :
    decodeHuff inp code (U base c) = (U base (decodeHuff inp code c).1, (decodeHuff inp code c).2) :=
  decodeHuffAux_U inp code base _ c

theorem U_initTree (base : Nat) (c : Ctx) (l d : Array Nat) : initTree (U base c) l d = U base (initTree c l d) := by
  unfold initTree
  simp only [apply_ite (U base)]
  rfl

variable {eR eF : Env} {W base : Nat} {c : Ctx} {oR oF : Array UInt8}

theorem u_readBits (amount : Nat) (st : Int) (k k' : Ctx → Nat → Step) (inp : Array UInt8)
    (hk : ∀ c1 v, k' (U base c1) v = (k c1 v).mapU base oF) :
    (match readBits inp amount (U base c) with
      | (c1, none) => Step.fin st c1 oF
      | (c1, some v) => k' c1 v) =
    (match readBits inp amount c with
      | (c1, none) => Step.fin st c1 oR
      | (c1, some v) => k c1 v).mapU base oF := by
  rw [readBits_U]
  generalize readBits inp amount c = p
  obtain ⟨c1, o⟩ := p
  cases o with
  | none => rfl
  | some v => exact hk c1 v

theorem u_decodeHuff (code : Code) (st : Int) (k k' : Ctx → Nat → Step) (inp : Array UInt8)
    (hk : ∀ c1 v, k' (U base c1) v = (k c1 v).mapU base oF) :
    (match decodeHuff inp code (U base c) with
      | (c1, none) => Step.fin st c1 oF
      | (c1, some v) => k' c1 v) =
    (match decodeHuff inp code c with
      | (c1, none) => Step.fin st c1 oR
      | (c1, some v) => k c1 v).mapU base oF := by
  rw [decodeHuff_U]
  generalize decodeHuff inp code c = p
  obtain ⟨c1, o⟩ := p
  cases o with
  | none => rfl
  | some v => exact hk c1 v

theorem u_readByte (st : Int) (k k' : UInt8 → Step) (inp : Array UInt8) (hk : ∀ b, k' b = (k b).mapU base oF) :
    (match inp[c.inPos]? with
      | none => Step.fin st (U base c) oF
      | some b => k' b) =
    (match inp[c.inPos]? with
      | none => Step.fin st c oR
      | some b => k b).mapU base oF := by
  cases inp[c.inPos]? with
  | none => rfl
  | some b => exact hk b

macro "u_ite" : tactic => `(tactic| (simp only [apply_ite (Step.mapU _ _)]; rfl))

theorem u_Start (h : RingFlat eR eF W base) : stStart eF (U base c) oF = (stStart eR c oR).mapU base oF := by
  unfold stStart
  rw [h.zlib]
  rfl

theorem u_ReadZlibCmf (h : RingFlat eR eF W base) :
    stReadZlibCmf eF (U base c) oF = (stReadZlibCmf eR c oR).mapU base oF := by
  unfold stReadZlibCmf
  rw [h.inp, h.eoi]
  show (match eR.inp[c.inPos]? with | none => _ | some b => _) = _
  cases eR.inp[c.inPos]? with
  | none => rfl
  | some b => rfl

theorem u_ReadBlockHeader (h : RingFlat eR eF W base) :
    stReadBlockHeader eF (U base c) oF = (stReadBlockHeader eR c oR).mapU base oF := by
  unfold stReadBlockHeader
  rw [h.inp, h.eoi]
  refine u_readBits 3 _ _ _ _ fun c1 v => ?_
  dsimp only
  (repeat' split) <;> first | rfl | simp only [Step.mapU, ← U_initTree]

theorem u_BlockTypeNoCompression (h : RingFlat eR eF W base) :
    stBlockTypeNoCompression eF (U base c) oF = (stBlockTypeNoCompression eR c oR).mapU base oF := by
  unfold stBlockTypeNoCompression
  rw [h.inp, h.eoi]
  exact u_readBits _ _ _ _ _ fun c1 v => rfl

theorem u_RawHeader (h : RingFlat eR eF W base) :
    stRawHeader eF (U base c) oF = (stRawHeader eR c oR).mapU base oF := by
  unfold stRawHeader
  rw [h.inp, h.eoi]
  dsimp only
  by_cases h1 : c.r.counter < 4
  · rw [if_pos h1, if_pos h1]
    by_cases h2 : c.r.numBits ≠ 0
    · rw [if_pos h2, if_pos h2]
      exact u_readBits 8 _ _ _ _ fun c1 v => rfl
    · rw [if_neg h2, if_neg h2]
      exact u_readByte _ _ _ _ fun b => rfl
  · rw [if_neg h1, if_neg h1]
    u_ite

theorem u_RawReadFirstByte (h : RingFlat eR eF W base) :
    stRawReadFirstByte eF (U base c) oF = (stRawReadFirstByte eR c oR).mapU base oF := by
  unfold stRawReadFirstByte
  rw [h.inp, h.eoi]
  exact u_readBits 8 _ _ _ _ fun c1 v => rfl

theorem u_ReadTableSizes (h : RingFlat eR eF W base) :
    stReadTableSizes eF (U base c) oF = (stReadTableSizes eR c oR).mapU base oF := by
  unfold stReadTableSizes
  rw [h.inp, h.eoi]
  dsimp only
  by_cases h1 : c.r.counter < 3
  · rw [if_pos h1, if_pos h1]
    exact u_readBits _ _ _ _ _ fun c1 v => rfl
  · rw [if_neg h1, if_neg h1]
    u_ite

theorem u_ReadHufflenTableCodeSize (h : RingFlat eR eF W base) :
    stReadHufflenTableCodeSize eF (U base c) oF = (stReadHufflenTableCodeSize eR c oR).mapU base oF := by
  unfold stReadHufflenTableCodeSize
  rw [h.inp, h.eoi]
  dsimp only
  by_cases h1 : c.r.counter < c.r.tableSizes.getD 2 0
  · rw [if_pos h1, if_pos h1]
    exact u_readBits _ _ _ _ _ fun c1 v => rfl
  · rw [if_neg h1, if_neg h1]
    show Step.cont _ _ = Step.cont _ _
    rw [← U_initTree]

theorem u_ReadLitlenDistTablesCodeSize (h : RingFlat eR eF W base) :
    stReadLitlenDistTablesCodeSize eF (U base c) oF = (stReadLitlenDistTablesCodeSize eR c oR).mapU base oF := by
  unfold stReadLitlenDistTablesCodeSize
  rw [h.inp, h.eoi]
  dsimp only
  by_cases h1 : c.r.counter < c.r.tableSizes.getD 0 0 + c.r.tableSizes.getD 1 0
  · rw [if_pos h1, if_pos h1]
    refine u_decodeHuff _ _ _ _ _ fun c1 v => ?_
    dsimp only
    u_ite
  · rw [if_neg h1, if_neg h1]
    by_cases h2 : c.r.counter ≠ c.r.tableSizes.getD 0 0 + c.r.tableSizes.getD 1 0
    · rw [if_pos h2, if_pos h2]; rfl
    · rw [if_neg h2, if_neg h2]
      show Step.cont _ _ = Step.cont _ _
      rw [← U_initTree]

theorem u_ReadExtraBitsCodeSize (h : RingFlat eR eF W base) :
    stReadExtraBitsCodeSize eF (U base c) oF = (stReadExtraBitsCodeSize eR c oR).mapU base oF := by
  unfold stReadExtraBitsCodeSize
  rw [h.inp, h.eoi]
  exact u_readBits _ _ _ _ _ fun c1 v => rfl

theorem u_DecodeLitlen (h : RingFlat eR eF W base) :
    stDecodeLitlen eF (U base c) oF = (stDecodeLitlen eR c oR).mapU base oF := by
  unfold stDecodeLitlen
  rw [h.inp, h.eoi]
  exact u_decodeHuff _ _ _ _ _ fun c1 v => rfl

theorem u_HuffDecodeOuterLoop1 :
    stHuffDecodeOuterLoop1 eF (U base c) oF = (stHuffDecodeOuterLoop1 eR c oR).mapU base oF := by
  unfold stHuffDecodeOuterLoop1
  dsimp only
  u_ite

theorem u_ReadExtraBitsLitlen (h : RingFlat eR eF W base) :
    stReadExtraBitsLitlen eF (U base c) oF = (stReadExtraBitsLitlen eR c oR).mapU base oF := by
  unfold stReadExtraBitsLitlen
  rw [h.inp, h.eoi]
  exact u_readBits _ _ _ _ _ fun c1 v => rfl

theorem u_DecodeDistance (h : RingFlat eR eF W base) :
    stDecodeDistance eF (U base c) oF = (stDecodeDistance eR c oR).mapU base oF := by
  unfold stDecodeDistance
  rw [h.inp, h.eoi]
  refine u_decodeHuff _ _ _ _ _ fun c1 v => ?_
  dsimp only
  u_ite

theorem u_ReadExtraBitsDistance (h : RingFlat eR eF W base) :
    stReadExtraBitsDistance eF (U base c) oF = (stReadExtraBitsDistance eR c oR).mapU base oF := by
  unfold stReadExtraBitsDistance
  rw [h.inp, h.eoi]
  exact u_readBits _ _ _ _ _ fun c1 v => rfl

theorem u_BlockDone (h : RingFlat eR eF W base) :
    stBlockDone eF (U base c) oF = (stBlockDone eR c oR).mapU base oF := by
  unfold stBlockDone
  rw [h.zlib, h.stop]
  dsimp only
  u_ite

theorem u_ReadAdler32 (h : RingFlat eR eF W base) :
    stReadAdler32 eF (U base c) oF = (stReadAdler32 eR c oR).mapU base oF := by
  unfold stReadAdler32
  rw [h.inp, h.eoi]
  dsimp only
  by_cases h1 : c.r.counter < 4
  · rw [if_pos h1, if_pos h1]
    by_cases h2 : c.r.numBits ≠ 0
    · rw [if_pos h2, if_pos h2]
      exact u_readBits 8 _ _ _ _ fun c1 v => rfl
    · rw [if_neg h2, if_neg h2]
      exact u_readByte _ _ _ _ fun b => rfl
  · rw [if_neg h1, if_neg h1]
    rfl

theorem u_RawMemcpy1 (h : RingFlat eR eF W base) :
    stRawMemcpy1 eF (U base c) oF = (stRawMemcpy1 eR c oR).mapU base oF := by
  unfold stRawMemcpy1 wrBytesLeft
  have : eF.outEnd - (U base c).outPos = eR.outEnd - c.outPos := by
    rw [h.endF]; show base + eR.outEnd - (base + c.outPos) = _; omega
  rw [this]
  u_ite

theorem u_ReadZlibFlg (h : RingFlat eR eF W base) :
    stReadZlibFlg eF (U base c) oF = (stReadZlibFlg eR c oR).mapU base oF := by
  unfold stReadZlibFlg
  rw [h.inp, h.eoi, h.ringR, h.ringF, h.lenR]
  show (match eR.inp[c.inPos]? with | none => _ | some b => _) = _
  cases eR.inp[c.inPos]? with
  | none => rfl
  | some b =>
    dsimp only
    have hbad : (!zlibHeaderValid c.r.zHeader0 b.toNat || (false && decide (max eF.outLen 1 < 2 ^ (c.r.zHeader0 / 16 + 8)))) =
        (!zlibHeaderValid c.r.zHeader0 b.toNat || (true && decide (max W 1 < 2 ^ (c.r.zHeader0 / 16 + 8)))) := by
      by_cases hv : zlibHeaderValid c.r.zHeader0 b.toNat = true
      · have h7 : c.r.zHeader0 / 16 ≤ 7 := by
          unfold zlibHeaderValid at hv
          simp only [Bool.and_eq_true, decide_eq_true_eq] at hv
          exact hv.1.1.2
        have hw : ¬ max W 1 < 2 ^ (c.r.zHeader0 / 16 + 8) := by
          have : 2 ^ (c.r.zHeader0 / 16 + 8) ≤ 2 ^ 15 := Nat.pow_le_pow_right (by decide) (by omega)
          have hb := h.big
          have : (2 : Nat) ^ 15 = 32768 := rfl
          omega
        simp [hv, hw]
      · have hv' : zlibHeaderValid c.r.zHeader0 b.toNat = false := by simpa using hv
        simp [hv']
    rw [hbad]
    rfl

/-! ### The states that do not write keep the output cursor -/

def StepKeep (c : Ctx) (o : Array UInt8) : Step → Prop
  | .cont c' o' => c'.outPos = c.outPos ∧ o' = o
  | .fin _ c' o' => c'.outPos = c.outPos ∧ o' = o

theorem readBitsAux_outPos (inp : Array UInt8) (amount : Nat) : ∀ (f : Nat) (c : Ctx),
    (readBitsAux inp amount f c).1.outPos = c.outPos := by
  intro f
  induction f with
  | zero => intro c; rfl
  | succ f ih =>
    intro c
    unfold readBitsAux
    split
    · split
      · rfl
      · rw [ih]
    · rfl

theorem decodeHuffAux_outPos (inp : Array UInt8) (code : Code) : ∀ (f : Nat) (c : Ctx),
    (decodeHuffAux inp code f c).1.outPos = c.outPos := by
  intro f
  induction f with
  | zero => intro c; rfl
  | succ f ih =>
    intro c
    unfold decodeHuffAux
    split
    · rfl
    · split
      · rfl
      · split
        · rfl
        · rw [ih]
    · split
      · rfl
      · rw [ih]

theorem keep_readBits (inp : Array UInt8) (amount : Nat) (st : Int) (o : Array UInt8) (k : Ctx → Nat → Step)
    (hk : ∀ c1 v, c1.outPos = c.outPos → StepKeep c o (k c1 v)) :
    StepKeep c o (match readBits inp amount c with
      | (c1, none) => .fin st c1 o
      | (c1, some v) => k c1 v) := by
  have := readBitsAux_outPos inp amount (inp.size - c.inPos + 1) c
  unfold readBits
  generalize readBitsAux inp amount (inp.size - c.inPos + 1) c = p at *
  obtain ⟨c1, v⟩ := p
  cases v with
  | none => exact ⟨this, rfl⟩
  | some v => exact hk c1 v this

theorem keep_decodeHuff (inp : Array UInt8) (code : Code) (st : Int) (o : Array UInt8) (k : Ctx → Nat → Step)
    (hk : ∀ c1 v, c1.outPos = c.outPos → StepKeep c o (k c1 v)) :
    StepKeep c o (match decodeHuff inp code c with
      | (c1, none) => .fin st c1 o
      | (c1, some v) => k c1 v) := by
  have := decodeHuffAux_outPos inp code (inp.size - c.inPos + 1) c
  unfold decodeHuff
  generalize decodeHuffAux inp code (inp.size - c.inPos + 1) c = p at *
  obtain ⟨c1, v⟩ := p
  cases v with
  | none => exact ⟨this, rfl⟩
  | some v => exact hk c1 v this

theorem initTree_outPos' (c : Ctx) (l d : Array Nat) : (initTree c l d).outPos = c.outPos := initTree_outPos c l d

variable {e : Env} {o : Array UInt8}

macro "k_close" : tactic => `(tactic| ((repeat' split) <;> first | exact ⟨rfl, rfl⟩ | exact ⟨by assumption, rfl⟩ | (refine ⟨?_, rfl⟩; simp only [setState_outPos, initTree_outPos]; done) | (refine ⟨?_, rfl⟩; simp only [setState_outPos, initTree_outPos]; assumption)))

theorem keep_Start : StepKeep c o (stStart e c o) := by unfold stStart; exact ⟨rfl, rfl⟩
theorem keep_ReadZlibCmf : StepKeep c o (stReadZlibCmf e c o) := by unfold stReadZlibCmf; k_close
theorem keep_ReadZlibFlg : StepKeep c o (stReadZlibFlg e c o) := by unfold stReadZlibFlg; k_close
theorem keep_ReadBlockHeader : StepKeep c o (stReadBlockHeader e c o) := by
  unfold stReadBlockHeader
  exact keep_readBits _ _ _ _ _ fun c1 v h => by dsimp only; k_close
theorem keep_BlockTypeNoCompression : StepKeep c o (stBlockTypeNoCompression e c o) := by
  unfold stBlockTypeNoCompression
  exact keep_readBits _ _ _ _ _ fun c1 v h => ⟨h, rfl⟩
theorem keep_RawHeader : StepKeep c o (stRawHeader e c o) := by
  unfold stRawHeader
  dsimp only
  split
  · split
    · exact keep_readBits _ _ _ _ _ fun c1 v h => ⟨h, rfl⟩
    · k_close
  · k_close
theorem keep_RawReadFirstByte : StepKeep c o (stRawReadFirstByte e c o) := by
  unfold stRawReadFirstByte
  exact keep_readBits _ _ _ _ _ fun c1 v h => ⟨h, rfl⟩
theorem keep_RawMemcpy1 : StepKeep c o (stRawMemcpy1 e c o) := by unfold stRawMemcpy1; k_close
theorem keep_ReadTableSizes : StepKeep c o (stReadTableSizes e c o) := by
  unfold stReadTableSizes
  dsimp only
  split
  · exact keep_readBits _ _ _ _ _ fun c1 v h => ⟨h, rfl⟩
  · k_close
theorem keep_ReadHufflenTableCodeSize : StepKeep c o (stReadHufflenTableCodeSize e c o) := by
  unfold stReadHufflenTableCodeSize
  dsimp only
  split
  · exact keep_readBits _ _ _ _ _ fun c1 v h => ⟨h, rfl⟩
  · k_close
theorem keep_ReadLitlenDistTablesCodeSize : StepKeep c o (stReadLitlenDistTablesCodeSize e c o) := by
  unfold stReadLitlenDistTablesCodeSize
  dsimp only
  split
  · exact keep_decodeHuff _ _ _ _ _ fun c1 v h => by k_close
  · k_close
theorem keep_ReadExtraBitsCodeSize : StepKeep c o (stReadExtraBitsCodeSize e c o) := by
  unfold stReadExtraBitsCodeSize
  exact keep_readBits _ _ _ _ _ fun c1 v h => ⟨h, rfl⟩
theorem keep_DecodeLitlen : StepKeep c o (stDecodeLitlen e c o) := by
  unfold stDecodeLitlen
  exact keep_decodeHuff _ _ _ _ _ fun c1 v h => ⟨h, rfl⟩
theorem keep_HuffDecodeOuterLoop1 : StepKeep c o (stHuffDecodeOuterLoop1 e c o) := by
  unfold stHuffDecodeOuterLoop1; dsimp only; k_close
theorem keep_ReadExtraBitsLitlen : StepKeep c o (stReadExtraBitsLitlen e c o) := by
  unfold stReadExtraBitsLitlen
  exact keep_readBits _ _ _ _ _ fun c1 v h => ⟨h, rfl⟩
theorem keep_DecodeDistance : StepKeep c o (stDecodeDistance e c o) := by
  unfold stDecodeDistance
  exact keep_decodeHuff _ _ _ _ _ fun c1 v h => by dsimp only; k_close
theorem keep_ReadExtraBitsDistance : StepKeep c o (stReadExtraBitsDistance e c o) := by
  unfold stReadExtraBitsDistance
  exact keep_readBits _ _ _ _ _ fun c1 v h => ⟨h, rfl⟩
theorem keep_BlockDone : StepKeep c o (stBlockDone e c o) := by unfold stBlockDone; dsimp only; k_close
theorem keep_ReadAdler32 : StepKeep c o (stReadAdler32 e c o) := by
  unfold stReadAdler32
  dsimp only
  split
  · split
    · exact keep_readBits _ _ _ _ _ fun c1 v h => ⟨h, rfl⟩
    · k_close
  · k_close

/-! ### The states that write: the ring holds the last `W` bytes of the flat buffer -/

/-- Ring content against flat content, for the lap that started at flat position `base`, with the
    ring's write cursor at `p`: below `p` the current lap, from `p` on the previous lap. -/
def RingRel (W base p : Nat) (oR oF : Array UInt8) : Prop :=
  oR.size = W ∧ (∀ i, i < p → oR[i]? = oF[base + i]?) ∧
  (∀ i, p ≤ i → i < W → W ≤ base + i → oR[i]? = oF[base + i - W]?)

theorem RingRel.write {W base p : Nat} {oR oF : Array UInt8} (h : RingRel W base p oR oF) (v : UInt8)
    (hp : p < W) (hF : base + p < oF.size) :
    RingRel W base (p + 1) (oR.setIfInBounds p v) (oF.setIfInBounds (base + p) v) := by
  obtain ⟨hs, h1, h2⟩ := h
  refine ⟨by simp [hs], fun i hi => ?_, fun i hi hiW hb => ?_⟩
  · rw [Array.getElem?_setIfInBounds, Array.getElem?_setIfInBounds]
    by_cases he : i = p
    · subst he
      have : i < oR.size := by omega
      simp [this, hF]
    · have hne : p ≠ i := fun h => he h.symm
      have hne2 : base + p ≠ base + i := by omega
      simp only [hne, hne2, ↓reduceIte]
      exact h1 i (by omega)
  · rw [Array.getElem?_setIfInBounds, Array.getElem?_setIfInBounds]
    have hne : p ≠ i := by omega
    have hne2 : base + p ≠ base + i - W := by omega
    simp only [hne, hne2, ↓reduceIte]
    exact h2 i (by omega) hiW hb

theorem RingRel.copyIn {W base : Nat} (inp : Array UInt8) (n : Nat) : ∀ (p q : Nat) (oR oF : Array UInt8),
    RingRel W base p oR oF → p + n ≤ W → base + p + n ≤ oF.size →
    RingRel W base (p + n) (Model.Core.copyIn inp oR p q n) (Model.Core.copyIn inp oF (base + p) q n) := by
  induction n with
  | zero => intro p q oR oF h _ _; exact h
  | succ n ih =>
    intro p q oR oF h hp hF
    unfold Model.Core.copyIn
    have := ih (p + 1) (q + 1) _ _ (h.write (inp.getD q 0) (by omega) (by omega)) (by omega) (by simp; omega)
    have e1 : p + 1 + n = p + (n + 1) := by omega
    have e2 : base + (p + 1) = base + p + 1 := by omega
    rw [e1, e2] at this
    exact this

/-- the match copy: byte by byte the ring reads what the flat buffer reads `dist` bytes back -/
theorem RingRel.copyBytes {W base dist LF : Nat} (hd1 : 1 ≤ dist) (hdW : dist ≤ W) (n : Nat) :
    ∀ (p : Nat) (oR oF : Array UInt8) (srcR : Nat),
    RingRel W base p oR oF → p + n ≤ W → base + p + n ≤ oF.size → dist ≤ base + p →
    srcR % W = (p + W - dist) % W →
    RingRel W base (p + n) (Model.Core.copyBytes oR p srcR W true n)
      (Model.Core.copyBytes oF (base + p) (base + p - dist) LF false n) := by
  induction n with
  | zero => intro p oR oF srcR h _ _ _ _; exact h
  | succ n ih =>
    intro p oR oF srcR h hp hF hdb hsrc
    unfold Model.Core.copyBytes
    simp only [↓reduceIte, Bool.false_eq_true]
    have hW : 0 < W := by omega
    -- the byte read on both sides
    have hbyte : oR.getD (srcR % W) 0 = oF.getD (base + p - dist) 0 := by
      rw [hsrc]
      simp only [Array.getD_eq_getD_getElem?]
      by_cases hc : dist ≤ p
      · have hidx : (p + W - dist) % W = p - dist := by
          have : p + W - dist = (p - dist) + W := by omega
          rw [this, Nat.add_mod_right, Nat.mod_eq_of_lt (by omega)]
        rw [hidx, h.2.1 (p - dist) (by omega)]
        congr 2; omega
      · have hlt : p + W - dist < W := by omega
        rw [Nat.mod_eq_of_lt hlt, h.2.2 (p + W - dist) (by omega) hlt (by omega)]
        congr 2; omega
    rw [hbyte]
    have := ih (p + 1) _ _ (srcR + 1) (h.write (oF.getD (base + p - dist) 0) (by omega) (by omega)) (by omega)
      (by simp; omega) (by omega) (by
        have e : p + 1 + W - dist = (p + W - dist) + 1 := by omega
        rw [e, Nat.add_mod, hsrc, ← Nat.add_mod])
    have e1 : p + 1 + n = p + (n + 1) := by omega
    have e2 : base + (p + 1) = base + p + 1 := by omega
    have e3 : base + p + 1 - dist = base + p - dist + 1 := by omega
    rw [e1, e2, e3] at this
    exact this

/-- both transitions continue (or both stop with the same status) in related contexts -/
def StepRel (W base : Nat) : Step → Step → Prop
  | .cont cR oR, .cont cF oF => cF = U base cR ∧ RingRel W base cR.outPos oR oF
  | .fin s cR oR, .fin s' cF oF => s = s' ∧ cF = U base cR ∧ RingRel W base cR.outPos oR oF
  | _, _ => False

theorem StepRel.of_eq {S SF : Step} (hrel : RingRel W base c.outPos oR oF) (heq : SF = S.mapU base oF)
    (hk : StepKeep c oR S) : StepRel W base S SF := by
  cases S with
  | cont c' o' =>
    rw [heq]
    obtain ⟨hk', ho'⟩ : c'.outPos = c.outPos ∧ o' = oR := hk
    exact ⟨rfl, by rw [hk', ho']; exact hrel⟩
  | fin st c' o' =>
    rw [heq]
    obtain ⟨hk', ho'⟩ : c'.outPos = c.outPos ∧ o' = oR := hk
    exact ⟨rfl, rfl, by rw [hk', ho']; exact hrel⟩

theorem wr_U (h : RingFlat eR eF W base) : wrBytesLeft (U base c) eF.outEnd = wrBytesLeft c eR.outEnd := by
  unfold wrBytesLeft
  rw [h.endF]; show base + eR.outEnd - (base + c.outPos) = _; omega

theorem matchNext_U (n : Nat) : matchNext (U base c) n = U base (matchNext c n) := by
  unfold matchNext setState
  show Ctx.mk _ _ _ = Ctx.mk _ _ _
  congr 1
  show base + c.outPos + n = base + (c.outPos + n)
  omega

theorem memcpyNext_U (n : Nat) : memcpyNext (U base c) n = U base (memcpyNext c n) := by
  unfold memcpyNext setState
  show Ctx.mk _ _ _ = Ctx.mk _ _ _
  congr 1
  show base + c.outPos + n = base + (c.outPos + n)
  omega

theorem r_WriteSymbol (h : RingFlat eR eF W base) (hrel : RingRel W base c.outPos oR oF) (hE : eR.outEnd ≤ W)
    (hF : eF.outEnd ≤ oF.size) :
    StepRel W base (stWriteSymbol eR c oR) (stWriteSymbol eF (U base c) oF) := by
  unfold stWriteSymbol
  rw [wr_U h]
  by_cases h1 : c.r.counter ≥ 256
  · rw [if_pos h1, if_pos h1]; exact ⟨rfl, hrel⟩
  · rw [if_neg h1, if_neg h1]
    by_cases h2 : wrBytesLeft c eR.outEnd > 0
    · rw [if_pos h2, if_pos h2]
      unfold wrBytesLeft at h2
      have hend := h.endF
      exact ⟨rfl, hrel.write _ (by omega) (by omega)⟩
    · rw [if_neg h2, if_neg h2]; exact ⟨rfl, rfl, hrel⟩

theorem r_RawStoreFirstByte (h : RingFlat eR eF W base) (hrel : RingRel W base c.outPos oR oF) (hE : eR.outEnd ≤ W)
    (hF : eF.outEnd ≤ oF.size) :
    StepRel W base (stRawStoreFirstByte eR c oR) (stRawStoreFirstByte eF (U base c) oF) := by
  unfold stRawStoreFirstByte
  rw [wr_U h]
  by_cases h1 : wrBytesLeft c eR.outEnd = 0
  · rw [if_pos h1, if_pos h1]; exact ⟨rfl, rfl, hrel⟩
  · rw [if_neg h1, if_neg h1]
    unfold wrBytesLeft at h1
    have hend := h.endF
    have hw := hrel.write (UInt8.ofNat c.r.dist) (by omega : c.outPos < W) (by omega : base + c.outPos < oF.size)
    dsimp only
    split
    · exact ⟨rfl, hw⟩
    · exact ⟨rfl, hw⟩

theorem r_RawMemcpy2 (h : RingFlat eR eF W base) (hrel : RingRel W base c.outPos oR oF) (hE : eR.outEnd ≤ W)
    (hF : eF.outEnd ≤ oF.size) (hP : c.outPos ≤ eR.outEnd) :
    StepRel W base (stRawMemcpy2 eR c oR) (stRawMemcpy2 eF (U base c) oF) := by
  rw [stRawMemcpy2_eq, stRawMemcpy2_eq, h.inp, h.eoi]
  have hroom : eF.outEnd - (U base c).outPos = eR.outEnd - c.outPos := by
    rw [h.endF]; show base + eR.outEnd - (base + c.outPos) = _; omega
  rw [hroom]
  by_cases h1 : c.inPos < eR.inp.size
  · rw [if_pos h1, if_pos h1]
    have hend := h.endF
    refine ⟨memcpyNext_U _, ?_⟩
    exact RingRel.copyIn eR.inp _ c.outPos c.inPos oR oF hrel (by omega) (by omega)
  · rw [if_neg h1, if_neg h1]; exact ⟨rfl, rfl, hrel⟩

/-- The match copy. The flat transition must not be the "distance reaches before the start of the
    data" one (a ring cannot notice that), and the distance is a DEFLATE distance (1..32768). -/
theorem r_Match (h : RingFlat eR eF W base) (hrel : RingRel W base c.outPos oR oF) (hE : eR.outEnd ≤ W)
    (hF : eF.outEnd ≤ oF.size) (hP : c.outPos ≤ eR.outEnd) (hd : 1 ≤ c.r.dist ∧ c.r.dist ≤ 32768)
    (hok : c.r.dist ≤ base + c.outPos) (hLF : c.r.dist ≤ eF.outLen) :
    StepRel W base (stMatch eR c oR) (stMatch eF (U base c) oF) := by
  rw [stMatch_eq, stMatch_eq]
  have hbig := h.big
  have hoobR : ¬ matchOob eR c := by
    unfold matchOob
    rw [h.ringR, h.lenR]
    simp; omega
  have hoobF : ¬ matchOob eF (U base c) := by
    unfold matchOob
    rw [h.ringF]
    simp
    exact ⟨hok, hLF⟩
  rw [if_neg hoobR, if_neg hoobF]
  by_cases h2 : c.r.counter = 0
  · rw [if_pos h2, if_pos h2]; exact ⟨rfl, hrel⟩
  · rw [if_neg h2, if_neg h2]
    have hroom : eF.outEnd - (U base c).outPos = eR.outEnd - c.outPos := by
      rw [h.endF]; show base + eR.outEnd - (base + c.outPos) = _; omega
    rw [hroom]
    by_cases h3 : eR.outEnd - c.outPos = 0
    · rw [if_pos h3, if_pos h3]; exact ⟨rfl, rfl, hrel⟩
    · rw [if_neg h3, if_neg h3]
      have hend := h.endF
      refine ⟨matchNext_U _, ?_⟩
      have hsrcR : matchSrc eR c = (c.outPos + W - c.r.dist) % max W 1 := by
        unfold matchSrc; rw [h.ringR, h.lenR]; rfl
      have hsrcF : matchSrc eF (U base c) = base + c.outPos - c.r.dist := by
        unfold matchSrc; rw [h.ringF]; rfl
      have hmax : max W 1 = W := by omega
      rw [hsrcR, hsrcF, h.ringR, h.ringF, h.lenR, hmax]
      show RingRel W base (c.outPos + _) _ _
      exact RingRel.copyBytes hd.1 (by omega) _ c.outPos oR oF _ hrel (by omega) (by omega) hok
        (by rw [Nat.mod_mod])

/-- One transition, ring against flat. -/
theorem step_ring (h : RingFlat eR eF W base) (gR : Geo eR c oR) (hI : I c) (hrel : RingRel W base c.outPos oR oF)
    (hE : eR.outEnd ≤ W) (hF : eF.outEnd ≤ oF.size)
    (hok : (c.r.state = sHuffDecodeOuterLoop2 ∨ c.r.state = sWriteLenBytesToEnd) →
      c.r.dist ≤ base + c.outPos ∧ c.r.dist ≤ eF.outLen) :
    StepRel W base (step eR c oR) (step eF (U base c) oF) := by
  by_cases hStart : c.r.state = sStart
  · rw [step_Start hStart, step_Start (c := U base c) hStart]
    exact StepRel.of_eq hrel (u_Start h) keep_Start
  by_cases hReadZlibCmf : c.r.state = sReadZlibCmf
  · rw [step_ReadZlibCmf hReadZlibCmf, step_ReadZlibCmf (c := U base c) hReadZlibCmf]
    exact StepRel.of_eq hrel (u_ReadZlibCmf h) keep_ReadZlibCmf
  by_cases hReadZlibFlg : c.r.state = sReadZlibFlg
  · rw [step_ReadZlibFlg hReadZlibFlg, step_ReadZlibFlg (c := U base c) hReadZlibFlg]
    exact StepRel.of_eq hrel (u_ReadZlibFlg h) keep_ReadZlibFlg
  by_cases hReadBlockHeader : c.r.state = sReadBlockHeader
  · rw [step_ReadBlockHeader hReadBlockHeader, step_ReadBlockHeader (c := U base c) hReadBlockHeader]
    exact StepRel.of_eq hrel (u_ReadBlockHeader h) keep_ReadBlockHeader
  by_cases hBlockTypeNoCompression : c.r.state = sBlockTypeNoCompression
  · rw [step_BlockTypeNoCompression hBlockTypeNoCompression, step_BlockTypeNoCompression (c := U base c) hBlockTypeNoCompression]
    exact StepRel.of_eq hrel (u_BlockTypeNoCompression h) keep_BlockTypeNoCompression
  by_cases hRawHeader : c.r.state = sRawHeader
  · rw [step_RawHeader hRawHeader, step_RawHeader (c := U base c) hRawHeader]
    exact StepRel.of_eq hrel (u_RawHeader h) keep_RawHeader
  by_cases hRawReadFirstByte : c.r.state = sRawReadFirstByte
  · rw [step_RawReadFirstByte hRawReadFirstByte, step_RawReadFirstByte (c := U base c) hRawReadFirstByte]
    exact StepRel.of_eq hrel (u_RawReadFirstByte h) keep_RawReadFirstByte
  by_cases hRawMemcpy1 : c.r.state = sRawMemcpy1
  · rw [step_RawMemcpy1 hRawMemcpy1, step_RawMemcpy1 (c := U base c) hRawMemcpy1]
    exact StepRel.of_eq hrel (u_RawMemcpy1 h) keep_RawMemcpy1
  by_cases hReadTableSizes : c.r.state = sReadTableSizes
  · rw [step_ReadTableSizes hReadTableSizes, step_ReadTableSizes (c := U base c) hReadTableSizes]
    exact StepRel.of_eq hrel (u_ReadTableSizes h) keep_ReadTableSizes
  by_cases hReadHufflenTableCodeSize : c.r.state = sReadHufflenTableCodeSize
  · rw [step_ReadHufflenTableCodeSize hReadHufflenTableCodeSize, step_ReadHufflenTableCodeSize (c := U base c) hReadHufflenTableCodeSize]
    exact StepRel.of_eq hrel (u_ReadHufflenTableCodeSize h) keep_ReadHufflenTableCodeSize
  by_cases hReadLitlenDistTablesCodeSize : c.r.state = sReadLitlenDistTablesCodeSize
  · rw [step_ReadLitlenDistTablesCodeSize hReadLitlenDistTablesCodeSize, step_ReadLitlenDistTablesCodeSize (c := U base c) hReadLitlenDistTablesCodeSize]
    exact StepRel.of_eq hrel (u_ReadLitlenDistTablesCodeSize h) keep_ReadLitlenDistTablesCodeSize
  by_cases hReadExtraBitsCodeSize : c.r.state = sReadExtraBitsCodeSize
  · rw [step_ReadExtraBitsCodeSize hReadExtraBitsCodeSize, step_ReadExtraBitsCodeSize (c := U base c) hReadExtraBitsCodeSize]
    exact StepRel.of_eq hrel (u_ReadExtraBitsCodeSize h) keep_ReadExtraBitsCodeSize
  by_cases hDecodeLitlen : c.r.state = sDecodeLitlen
  · rw [step_DecodeLitlen hDecodeLitlen, step_DecodeLitlen (c := U base c) hDecodeLitlen]
    exact StepRel.of_eq hrel (u_DecodeLitlen h) keep_DecodeLitlen
  by_cases hHuffDecodeOuterLoop1 : c.r.state = sHuffDecodeOuterLoop1
  · rw [step_HuffDecodeOuterLoop1 hHuffDecodeOuterLoop1, step_HuffDecodeOuterLoop1 (c := U base c) hHuffDecodeOuterLoop1]
    exact StepRel.of_eq hrel (u_HuffDecodeOuterLoop1) keep_HuffDecodeOuterLoop1
  by_cases hReadExtraBitsLitlen : c.r.state = sReadExtraBitsLitlen
  · rw [step_ReadExtraBitsLitlen hReadExtraBitsLitlen, step_ReadExtraBitsLitlen (c := U base c) hReadExtraBitsLitlen]
    exact StepRel.of_eq hrel (u_ReadExtraBitsLitlen h) keep_ReadExtraBitsLitlen
  by_cases hDecodeDistance : c.r.state = sDecodeDistance
  · rw [step_DecodeDistance hDecodeDistance, step_DecodeDistance (c := U base c) hDecodeDistance]
    exact StepRel.of_eq hrel (u_DecodeDistance h) keep_DecodeDistance
  by_cases hReadExtraBitsDistance : c.r.state = sReadExtraBitsDistance
  · rw [step_ReadExtraBitsDistance hReadExtraBitsDistance, step_ReadExtraBitsDistance (c := U base c) hReadExtraBitsDistance]
    exact StepRel.of_eq hrel (u_ReadExtraBitsDistance h) keep_ReadExtraBitsDistance
  by_cases hBlockDone : c.r.state = sBlockDone
  · rw [step_BlockDone hBlockDone, step_BlockDone (c := U base c) hBlockDone]
    exact StepRel.of_eq hrel (u_BlockDone h) keep_BlockDone
  by_cases hReadAdler32 : c.r.state = sReadAdler32
  · rw [step_ReadAdler32 hReadAdler32, step_ReadAdler32 (c := U base c) hReadAdler32]
    exact StepRel.of_eq hrel (u_ReadAdler32 h) keep_ReadAdler32
  by_cases hWS : c.r.state = sWriteSymbol
  · rw [step_WriteSymbol hWS, step_WriteSymbol (c := U base c) hWS]
    exact r_WriteSymbol h hrel hE hF
  by_cases hRS : c.r.state = sRawStoreFirstByte
  · rw [step_RawStoreFirstByte hRS, step_RawStoreFirstByte (c := U base c) hRS]
    exact r_RawStoreFirstByte h hrel hE hF
  by_cases hM2c : c.r.state = sRawMemcpy2
  · rw [step_RawMemcpy2 hM2c, step_RawMemcpy2 (c := U base c) hM2c]
    exact r_RawMemcpy2 h hrel hE hF gR.outLe
  by_cases hM1 : c.r.state = sHuffDecodeOuterLoop2
  · rw [step_Match1 hM1, step_Match1 (c := U base c) hM1]
    exact r_Match h hrel hE hF gR.outLe (hI.2.1.2.2.2 (Or.inl hM1)) (hok (Or.inl hM1)).1 (hok (Or.inl hM1)).2
  by_cases hM2 : c.r.state = sWriteLenBytesToEnd
  · rw [step_Match2 hM2, step_Match2 (c := U base c) hM2]
    exact r_Match h hrel hE hF gR.outLe (hI.2.1.2.2.2 (Or.inr hM2)) (hok (Or.inr hM2)).1 (hok (Or.inr hM2)).2
  by_cases hD : c.r.state = sDoneForever
  · rw [step_DoneForever hD, step_DoneForever (c := U base c) hD]
    exact ⟨rfl, rfl, hrel⟩
  · have hFl : sDoneForever < c.r.state := by
      simp only [sStart, sReadZlibCmf, sReadZlibFlg, sReadBlockHeader, sBlockTypeNoCompression, sRawHeader,
        sRawMemcpy1, sRawMemcpy2, sReadTableSizes, sReadHufflenTableCodeSize, sReadLitlenDistTablesCodeSize,
        sReadExtraBitsCodeSize, sDecodeLitlen, sWriteSymbol, sReadExtraBitsLitlen, sDecodeDistance,
        sReadExtraBitsDistance, sRawReadFirstByte, sRawStoreFirstByte, sWriteLenBytesToEnd, sBlockDone,
        sHuffDecodeOuterLoop1, sHuffDecodeOuterLoop2, sReadAdler32, sDoneForever] at *
      omega
    have h1 : step eR c oR = .fin stFailed c oR := by unfold step; exact stepAt_failed _ hFl eR c oR
    have h2 : step eF (U base c) oF = .fin stFailed (U base c) oF := by unfold step; exact stepAt_failed _ hFl _ _ oF
    rw [h1, h2]
    exact ⟨rfl, rfl, hrel⟩

theorem run_failed (e : Env) (f : Nat) (c : Ctx) (o : Array UInt8) (hF : sDoneForever < c.r.state) :
    (run e f c o).1 = stModelError ∨ (run e f c o).1 = stFailed := by
  cases f with
  | zero => exact Or.inl rfl
  | succ f =>
    rw [run]
    have : step e c o = .fin stFailed c o := by unfold step; exact stepAt_failed _ hF e c o
    rw [this]; exact Or.inr rfl

/-- The whole run, ring against flat: unless the flat run fails (in particular on a distance that
    reaches before the start of the data, which a ring cannot notice), both end with the same status,
    in related contexts, and the ring holds the last `W` bytes the flat run produced. -/
theorem run_ring (h : RingFlat eR eF W base) (hE : eR.outEnd ≤ W) : ∀ (f : Nat) (c : Ctx) (oR oF : Array UInt8),
    Geo eR c oR → I c → RingRel W base c.outPos oR oF → eF.outEnd ≤ oF.size →
    (run eF f (U base c) oF).1 ≠ stFailed → (run eF f (U base c) oF).1 ≠ stModelError →
    (run eF f (U base c) oF).1 = (run eR f c oR).1 ∧
    (run eF f (U base c) oF).2.1 = U base (run eR f c oR).2.1 ∧
    RingRel W base (run eR f c oR).2.1.outPos (run eR f c oR).2.2 (run eF f (U base c) oF).2.2 := by
  intro f
  induction f with
  | zero => intro c oR oF _ _ hrel _ _ _; exact ⟨rfl, rfl, hrel⟩
  | succ f ih =>
    intro c oR oF gR hI hrel hF hno hnm
    have gF : Geo eF (U base c) oF :=
      ⟨by rw [h.inp]; exact gR.inLe, by rw [h.endF]; show base + c.outPos ≤ base + eR.outEnd; have := gR.outLe; omega, hF⟩
    have hokR := step_ok gR
    have hokF := step_ok gF
    have hsi := step_I (e := eR) (out := oR) gR hI
    -- the flat transition is not the out-of-bounds one
    have hok : (c.r.state = sHuffDecodeOuterLoop2 ∨ c.r.state = sWriteLenBytesToEnd) →
        c.r.dist ≤ base + c.outPos ∧ c.r.dist ≤ eF.outLen := by
      intro hm
      by_cases hoob : matchOob eF (U base c)
      · exfalso
        have hstep : step eF (U base c) oF = .cont (setState (U base c) sDistanceOutOfBounds) oF := by
          rcases hm with hm | hm
          · rw [step_Match1 (c := U base c) hm, stMatch_eq, if_pos hoob]
          · rw [step_Match2 (c := U base c) hm, stMatch_eq, if_pos hoob]
        rw [run, hstep] at hno hnm
        rcases run_failed eF f (setState (U base c) sDistanceOutOfBounds) oF (by show sDoneForever < sDistanceOutOfBounds; decide) with h' | h'
        · exact hnm h'
        · exact hno h'
      · unfold matchOob at hoob
        rw [h.ringF] at hoob
        simp at hoob
        exact ⟨hoob.1, hoob.2⟩
    have hsr := step_ring h gR hI hrel hE hF hok
    rw [run, run] at *
    cases hR : step eR c oR with
    | cont cR' oR' =>
      cases hFs : step eF (U base c) oF with
      | cont cF' oF' =>
        rw [hR, hFs] at hsr
        rw [hR] at hokR hsi
        rw [hFs] at hokF hno hnm
        obtain ⟨hc, hrel'⟩ := hsr
        subst hc
        have hsz : oF'.size = oF.size := hokF.frame.1
        exact ih cR' oR' oF' hokR.geo hsi.1 hrel' (by rw [hsz]; exact hF) hno hnm
      | fin st cF' oF' => rw [hR, hFs] at hsr; exact absurd hsr id
    | fin st cR' oR' =>
      cases hFs : step eF (U base c) oF with
      | cont cF' oF' => rw [hR, hFs] at hsr; exact absurd hsr id
      | fin st' cF' oF' =>
        rw [hR, hFs] at hsr
        obtain ⟨hs, hc, hrel'⟩ := hsr
        exact ⟨hs.symm, hc, hrel'⟩

end Model.Core
