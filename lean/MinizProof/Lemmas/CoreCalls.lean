/-
Composition of calls of the decoder model at the level of runs: re-basing a whole run, the checksum
register is carried unchanged, a run that does not stop for lack of room is the same under a larger
window, and — the resumption lemma — a run suspended for lack of input or room reaches, when
resumed over more input and a larger window, exactly what the uninterrupted run reaches.
No property statements here (see Props/C07).
-/
import MinizProof.Lemmas.CoreBnd
import MinizProof.Lemmas.CoreSound
set_option maxRecDepth 100000
namespace Model.Core
open Spec

/-- Re-basing a whole run (`Lemmas/CoreShift`, `CoreBnd`): the run over the chunk from cursor `p` and
    the run over `a ++ chunk` from cursor `a.size + p` end alike; the checksum register is carried
    (reset only by the `Start` state). -/
theorem run_shift (e : Env) (a : Array UInt8) : ∀ (f : Nat) (c : Ctx) (out : Array UInt8) (x : Nat),
    Geo e c out → I c →
    ∃ x', (c.r.state ≠ sStart → x' = x) ∧
      run (e.pre a) f (T a.size x c) out =
        ((run e f c out).1, T a.size x' (run e f c out).2.1, (run e f c out).2.2) := by
  intro f
  induction f with
  | zero => intro c out x _ _; exact ⟨x, fun _ => rfl, rfl⟩
  | succ f ih =>
    intro c out x g hI
    have hok := step_ok g
    have hsi := step_I g hI
    obtain ⟨x1, hx1, hs⟩ := step_shift (e := e) (a := a) (c := c) (out := out) (x := x)
      (fun hb => by have := hI.q hb (by decide); unfold Q at this; omega)
    rw [run, run, hs]
    cases hst : step e c out with
    | cont c1 o1 =>
      rw [hst] at hok hsi
      obtain ⟨x2, hx2, h2⟩ := ih c1 o1 x1 hok.geo hsi.1
      refine ⟨x2, fun hns => ?_, h2⟩
      rw [hx2 hsi.2, hx1 hns]
    | fin st c1 o1 => exact ⟨x1, hx1, rfl⟩

theorem Env.pre_empty (e : Env) : e.pre #[] = e := by
  show ({ e with inp := #[] ++ e.inp } : Env) = e
  rw [Array.empty_append]

theorem T_zero (c : Ctx) : T 0 c.r.checkAdler32 c = c := by
  show ({ c with inPos := 0 + c.inPos, r := { c.r with checkAdler32 := c.r.checkAdler32 } } : Ctx) = c
  rw [Nat.zero_add]

/-- A run that does not start in `Start` leaves the checksum register alone. -/
theorem run_check (e : Env) (f : Nat) (c : Ctx) (out : Array UInt8) (g : Geo e c out) (hI : I c)
    (hns : c.r.state ≠ sStart) : (run e f c out).2.1.r.checkAdler32 = c.r.checkAdler32 := by
  obtain ⟨x', hx, h⟩ := run_shift e #[] f c out c.r.checkAdler32 g hI
  rw [Env.pre_empty] at h
  have h0 : (#[] : Array UInt8).size = 0 := rfl
  rw [h0, T_zero, hx hns] at h
  have := congrArg (fun R => R.2.1.r.checkAdler32) h
  exact this

/-- every run from a sound geometry has a final result -/
theorem final_exists {e : Env} {c : Ctx} {out : Array UInt8} (g : Geo e c out) : ∃ R, Final e c out R :=
  ⟨_, mu e c + 1, rfl, finOK_ne_modelError (run_total e (mu e c + 1) c out g (Nat.lt_succ_self _))⟩

theorem Final.geo {e : Env} {c : Ctx} {out : Array UInt8} {R : Int × Ctx × Array UInt8} (g : Geo e c out)
    (h : Final e c out R) : Geo e R.2.1 R.2.2 := by
  obtain ⟨f, hf, _⟩ := h
  rw [← hf]; exact (run_ok e f c out g).1.geo

/-- A run that ends for any reason other than lack of room ends the same way under a larger window. -/
theorem run_grow_same (e : Env) (E2 : Nat) (hE : e.outEnd ≤ E2) (hL : e.outEnd ≤ e.outLen) :
    ∀ (f : Nat) (c : Ctx) (out : Array UInt8) (st : Int) (c1 : Ctx) (out1 : Array UInt8),
    Geo e c out → run e f c out = (st, c1, out1) → st ≠ stHasMoreOutput → st ≠ stModelError →
    Final (e.grow E2) c out (st, c1, out1) := by
  intro f
  induction f with
  | zero =>
    intro c out st c1 out1 _ h _ hne
    rw [run] at h
    simp only [Prod.mk.injEq] at h
    exact absurd h.1.symm hne
  | succ f ih =>
    intro c out st c1 out1 g h hnh hne
    have hok := step_ok g
    have stop1 : ∀ (c' : Ctx) (o' : Array UInt8), step e c' o' = .fin stHasMoreOutput c' o' →
        run e f c' o' = (st, c1, out1) → False := by
      intro c' o' hs hr
      cases f with
      | zero => rw [run] at hr; simp only [Prod.mk.injEq] at hr; exact hne hr.1.symm
      | succ f => rw [run, hs] at hr; simp only [Prod.mk.injEq] at hr; exact hnh hr.1.symm
    by_cases hm : c.r.state = sRawMemcpy2
    · have hsp := grow_RawMemcpy2 (E2 := E2) hE g
      rw [run, step_RawMemcpy2 hm] at h
      rw [step_RawMemcpy2 hm] at hok
      cases hst : stRawMemcpy2 e c out with
      | fin st' c' o' =>
        rw [hst] at h hsp
        refine ⟨1, ?_, hne⟩
        rw [run, step_RawMemcpy2 (e := e.grow E2) hm, hsp.2]
        exact h
      | cont c' o' =>
        rw [hst] at h hsp hok
        simp only at h
        rcases hsp with hsame | ⟨hs', h1, _⟩
        · exact Final.of_cont (by rw [step_RawMemcpy2 hm]; exact hsame) (ih c' o' st c1 out1 hok.geo h hnh hne)
        · exact absurd (stop1 c' o' (by rw [step_RawMemcpy1 hs']; exact h1) h) id
    · by_cases hm1 : c.r.state = sHuffDecodeOuterLoop2 ∨ c.r.state = sWriteLenBytesToEnd
      · have hstep : ∀ (e0 : Env) (c0 : Ctx) (o0 : Array UInt8), c0.r.state = c.r.state → step e0 c0 o0 = stMatch e0 c0 o0 := by
          intro e0 c0 o0 h0
          rcases hm1 with h1 | h1
          · exact step_Match1 (h0.trans h1)
          · exact step_Match2 (h0.trans h1)
        have hsp := grow_Match (E2 := E2) hE g hL
        rw [run, hstep e c out rfl] at h
        rw [hstep e c out rfl] at hok
        cases hst : stMatch e c out with
        | fin st' c' o' =>
          rw [hst] at h hsp
          simp only [Prod.mk.injEq] at h
          exact absurd (h.1 ▸ hsp.1) hnh
        | cont c' o' =>
          rw [hst] at h hsp hok
          simp only at h
          rcases hsp with hsame | ⟨hs', h1, _⟩
          · exact Final.of_cont (by rw [hstep _ c out rfl]; exact hsame) (ih c' o' st c1 out1 hok.geo h hnh hne)
          · have h1' : step e c' o' = .fin stHasMoreOutput (setState c' sWriteLenBytesToEnd) o' := by
              rw [step_Match2 hs']; exact h1
            cases f with
            | zero => rw [run] at h; simp only [Prod.mk.injEq] at h; exact absurd h.1.symm hne
            | succ f => rw [run, h1'] at h; simp only [Prod.mk.injEq] at h; exact absurd h.1.symm hnh
      · have hm1' : c.r.state ≠ sHuffDecodeOuterLoop2 := fun h => hm1 (Or.inl h)
        have hm2' : c.r.state ≠ sWriteLenBytesToEnd := fun h => hm1 (Or.inr h)
        have hsp := step_grow (E2 := E2) hE g hm hm1' hm2'
        rw [run] at h
        cases hst : step e c out with
        | cont c' o' =>
          rw [hst] at h hsp hok
          simp only at h
          exact Final.of_cont hsp (ih c' o' st c1 out1 hok.geo h hnh hne)
        | fin st' c' o' =>
          rw [hst] at h hsp
          simp only [Prod.mk.injEq] at h
          obtain ⟨hs, hc, ho⟩ := h
          rcases hsp with ⟨h1, _⟩ | ⟨_, h2⟩
          · exact absurd (hs ▸ h1) hnh
          · have h2' : step (e.grow E2) c out = .fin st' c' o' := h2
            refine ⟨1, ?_, hne⟩
            rw [run, h2', hs, hc, ho]

/-- RESUMPTION. The run over the chunk `e.inp` with window end `e.outEnd` stops starved or for lack
    of room in `(c1, out1)`. Then the run over `e.inp ++ b` with window end `E2 ≥ e.outEnd` resumed
    from `(c1, out1)` and the same run from the start end with the same result. -/
theorem resume_run (e : Env) (b : Array UInt8) (E2 : Nat) (hE : e.outEnd ≤ E2) (hL : e.outEnd ≤ e.outLen)
    (f : Nat) (c : Ctx) (out : Array UInt8) (st1 : Int) (c1 : Ctx) (out1 : Array UInt8)
    (g : Geo e c out) (hE2 : E2 ≤ out.size) (h : run e f c out = (st1, c1, out1))
    (hst : st1 = e.eoi ∨ st1 = stHasMoreOutput)
    (R : Int × Ctx × Array UInt8) (hR : Final ((e.ext b).grow E2) c1 out1 R) :
    Final ((e.ext b).grow E2) c out R := by
  have hadv := (run_ok e f c out g).1
  rw [h] at hadv
  have g1 : Geo e c1 out1 := hadv.geo
  have hsz : out1.size = out.size := hadv.frame.1
  rcases hst with hst | hst
  · -- starved: continue over the longer input under the old window first
    rw [hst] at h
    have hsplit := run_split e b f c out c1 out1 g h
    obtain ⟨R1, F1⟩ := final_exists (g1.ext (b := b))
    have F0 := hsplit R1 F1
    by_cases hh : R1.1 = stHasMoreOutput
    · obtain ⟨s, c2, o2⟩ := R1
      simp only at hh
      subst hh
      obtain ⟨f1, hf1, _⟩ := F1
      obtain ⟨f0, hf0, _⟩ := F0
      have g2 : Geo (e.ext b) c2 o2 := by
        have := (run_ok (e.ext b) f1 c1 out1 g1.ext).1.geo
        rw [hf1] at this; exact this
      have hsz2 : o2.size = out1.size := by
        have := (run_ok (e.ext b) f1 c1 out1 g1.ext).1.frame.1
        rw [hf1] at this; exact this
      obtain ⟨R2, F2⟩ := final_exists (g2.grow (E2 := E2) hE (by rw [hsz2, hsz]; exact hE2))
      have A := run_grow (e.ext b) E2 hE hL f1 c1 out1 c2 o2 g1.ext hf1 R2 F2
      have Bq := run_grow (e.ext b) E2 hE hL f0 c out c2 o2 g.ext hf0 R2 F2
      rw [Final.unique hR A]; exact Bq
    · obtain ⟨f1, hf1, hne1⟩ := F1
      obtain ⟨f0, hf0, _⟩ := F0
      have A := run_grow_same (e.ext b) E2 hE hL f1 c1 out1 R1.1 R1.2.1 R1.2.2 g1.ext hf1 hh hne1
      have Bq := run_grow_same (e.ext b) E2 hE hL f0 c out R1.1 R1.2.1 R1.2.2 g.ext hf0 hh hne1
      rw [Final.unique hR A]; exact Bq
  · -- out of room: the same stop over the longer input, then the larger window
    rw [hst] at h
    obtain ⟨f', hf', _⟩ := run_ext_same e b f c out stHasMoreOutput c1 out1 g h (hmo_ne_eoi e) hmo_ne_modelError
    exact run_grow (e.ext b) E2 hE hL f' c out c1 out1 g.ext hf' R hR

/-! ### Two consecutive calls against one call -/

/-- environment of one call -/
def callEnv (inp out : Array UInt8) (outPos budget flags : Nat) : Env :=
  { inp := inp, flags := flags, outLen := out.size, outEnd := min (outPos + budget) out.size }

/-- the automaton's run of one call (what `decompress` hands to its epilogue) -/
def callRun (r : Regs) (inp out : Array UInt8) (outPos budget flags : Nat) : Int × Ctx × Array UInt8 :=
  run (callEnv inp out outPos budget flags) (callFuel r inp (min (outPos + budget) out.size - outPos))
    { r := r, inPos := 0, outPos := outPos } out

theorem decompress_eq (r : Regs) (inp out : Array UInt8) (outPos budget flags : Nat)
    (hg : badGeometry flags out.size outPos = false) :
    decompress r inp out outPos budget flags =
      epilogue flags outPos (min (outPos + budget) out.size) (callRun r inp out outPos budget flags).1
        (callRun r inp out outPos budget flags).2.1 (callRun r inp out outPos budget flags).2.2 := by
  unfold decompress
  rw [hg]
  rfl

theorem callGeo {r : Regs} {inp out : Array UInt8} {outPos budget flags : Nat}
    (hg : badGeometry flags out.size outPos = false) :
    Geo (callEnv inp out outPos budget flags) { r := r, inPos := 0, outPos := outPos } out := by
  simp only [badGeometry, Bool.or_eq_false_iff, decide_eq_false_iff_not, Nat.not_lt] at hg
  exact ⟨Nat.zero_le _, by show outPos ≤ min (outPos + budget) out.size; omega,
    by show min (outPos + budget) out.size ≤ out.size; omega⟩

theorem callRun_ne (r : Regs) (inp out : Array UInt8) (outPos budget flags : Nat)
    (hg : badGeometry flags out.size outPos = false) : (callRun r inp out outPos budget flags).1 ≠ stModelError :=
  finOK_ne_modelError (decompress_run_total r inp out outPos budget flags hg)

theorem callFinal (r : Regs) (inp out : Array UInt8) (outPos budget flags : Nat)
    (hg : badGeometry flags out.size outPos = false) :
    Final (callEnv inp out outPos budget flags) { r := r, inPos := 0, outPos := outPos } out
      (callRun r inp out outPos budget flags) :=
  ⟨_, rfl, callRun_ne r inp out outPos budget flags hg⟩

theorem extract_split (a b : Array UInt8) (k : Nat) (hk : k ≤ a.size) :
    a.extract 0 k ++ (a.extract k a.size ++ b) = a ++ b := by
  rw [← Array.append_assoc, Array.extract_append_extract, Nat.zero_min, Nat.max_eq_right hk]
  simp

/-- TWO CALLS, at the level of runs. A call on `a` from registers `r` (sound buffer discipline)
    stops starved or for lack of room in `(c1, out1)`. A second call — on the unconsumed rest of `a`
    followed by `b`, from `c1`'s registers with any checksum register `x1`, writing where the first
    stopped, with a window that ends no earlier — runs to `(st2, c2, out2)`. Then the single call on
    `a ++ b` with that final window runs to the same status and buffer and to `c2` re-based by the
    bytes the first call consumed (with the first call's checksum register). -/
theorem calls_compose (r : Regs) (a b out : Array UInt8) (pos budget1 budget2 flags x1 : Nat)
    (hb : Bnd r) (hg : badGeometry flags out.size pos = false)
    (st1 : Int) (c1 : Ctx) (out1 : Array UInt8)
    (h1 : callRun r a out pos budget1 flags = (st1, c1, out1))
    (hst : st1 = endOfInput flags ∨ st1 = stHasMoreOutput)
    (hE : min (pos + budget1) out.size ≤ min (c1.outPos + budget2) out.size) :
    let r2 : Regs := { c1.r with checkAdler32 := x1 }
    let R2 := callRun r2 (a.extract c1.inPos a.size ++ b) out1 c1.outPos budget2 flags
    out1.size = out.size ∧ pos ≤ c1.outPos ∧ c1.inPos ≤ a.size ∧
    badGeometry flags out1.size c1.outPos = false ∧
    (BC c1 ∧ Q c1 ∨ st1 = endOfInput flags ∧ BC c1) ∧
    callRun r (a ++ b) out pos (c1.outPos - pos + budget2) flags =
      (R2.1, T c1.inPos c1.r.checkAdler32 R2.2.1, R2.2.2) ∧
    R2.2.1.r.checkAdler32 = x1 ∧
    RunI (callEnv (a.extract c1.inPos a.size ++ b) out1 c1.outPos budget2 flags) R2.1 R2.2.1 := by
  intro r2 R2
  have g0 : Geo (callEnv a out pos budget1 flags) { r := r, inPos := 0, outPos := pos } out := callGeo hg
  have hadv := (run_ok (callEnv a out pos budget1 flags) (callFuel r a (min (pos + budget1) out.size - pos)) _ out g0).1
  have h1' : run (callEnv a out pos budget1 flags) (callFuel r a (min (pos + budget1) out.size - pos))
      { r := r, inPos := 0, outPos := pos } out = (st1, c1, out1) := h1
  rw [h1'] at hadv
  have g1 := hadv.geo
  have hsz : out1.size = out.size := hadv.frame.1
  have hmono : pos ≤ c1.outPos := hadv.mono
  have hk : c1.inPos ≤ a.size := g1.inLe
  have hne1 : st1 ≠ stModelError := by
    have := callRun_ne r a out pos budget1 flags hg
    rw [h1] at this; exact this
  have hri := run_I _ _ _ out g0 (hb.toI 0 pos) st1 c1 out1 h1' hne1
  obtain ⟨⟨hBC, hZ, hdisj⟩, hns⟩ := hri
  have hgeo2 : badGeometry flags out1.size c1.outPos = false := by
    have ha : c1.outPos ≤ min (pos + budget1) out.size := g1.outLe
    simp only [badGeometry, Bool.or_eq_false_iff, decide_eq_false_iff_not, Nat.not_lt] at hg ⊢
    rw [hsz]
    exact ⟨hg.1, by omega⟩
  -- the context of the second call keeps the discipline
  have hdisj2 : Q c1 ∨ Hungry c1 := by
    rcases hst with hst | hst
    · rcases hdisj with ⟨_, h⟩ | ⟨hne, _⟩
      · exact h
      · exact absurd hst hne
    · rcases hdisj with ⟨he, _⟩ | ⟨_, h⟩
      · exact absurd (hst ▸ he) (hmo_ne_eoi _)
      · rcases h with h | h
        · exact Or.inl h
        · rw [hst] at h; exact absurd h (by decide)
  have hI2 : I { r := r2, inPos := 0, outPos := c1.outPos } :=
    ⟨hBC, hZ, hdisj2.elim Or.inl fun h => Or.inr (Or.inl h)⟩
  have g2 : Geo (callEnv (a.extract c1.inPos a.size ++ b) out1 c1.outPos budget2 flags)
      { r := r2, inPos := 0, outPos := c1.outPos } out1 := callGeo hgeo2
  have hfin2 := callFinal r2 (a.extract c1.inPos a.size ++ b) out1 c1.outPos budget2 flags hgeo2
  -- re-base the second run onto the whole input
  obtain ⟨x', hx', hsh⟩ := run_shift (callEnv (a.extract c1.inPos a.size ++ b) out1 c1.outPos budget2 flags)
    (a.extract 0 c1.inPos) (callFuel r2 (a.extract c1.inPos a.size ++ b) (min (c1.outPos + budget2) out1.size - c1.outPos))
    { r := r2, inPos := 0, outPos := c1.outPos } out1 c1.r.checkAdler32 g2 hI2
  have hx : x' = c1.r.checkAdler32 := hx' hns
  have hAsz : (a.extract 0 c1.inPos).size = c1.inPos := by simp; omega
  rw [hAsz, hx] at hsh
  have hT : T c1.inPos c1.r.checkAdler32 { r := r2, inPos := 0, outPos := c1.outPos } = c1 := rfl
  rw [hT] at hsh
  have henv : (callEnv (a.extract c1.inPos a.size ++ b) out1 c1.outPos budget2 flags).pre (a.extract 0 c1.inPos) =
      ((callEnv a out pos budget1 flags).ext b).grow (min (c1.outPos + budget2) out.size) := by
    show ({ inp := a.extract 0 c1.inPos ++ (a.extract c1.inPos a.size ++ b), flags := flags, outLen := out1.size,
            outEnd := min (c1.outPos + budget2) out1.size } : Env) =
         { inp := a ++ b, flags := flags, outLen := out.size, outEnd := min (c1.outPos + budget2) out.size }
    rw [extract_split a b _ hk, hsz]
  rw [henv] at hsh
  have hR2ne : R2.1 ≠ stModelError := callRun_ne r2 (a.extract c1.inPos a.size ++ b) out1 c1.outPos budget2 flags hgeo2
  have hFc1 : Final (((callEnv a out pos budget1 flags).ext b).grow (min (c1.outPos + budget2) out.size)) c1 out1
      (R2.1, T c1.inPos c1.r.checkAdler32 R2.2.1, R2.2.2) := ⟨_, hsh, hR2ne⟩
  have hres := resume_run (callEnv a out pos budget1 flags) b (min (c1.outPos + budget2) out.size) hE
    (by show min (pos + budget1) out.size ≤ out.size; omega) _ _ out st1 c1 out1 g0
    (by omega) h1' hst _ hFc1
  -- the single call
  have hgO := callFinal r (a ++ b) out pos (c1.outPos - pos + budget2) flags hg
  have henvO : callEnv (a ++ b) out pos (c1.outPos - pos + budget2) flags =
      ((callEnv a out pos budget1 flags).ext b).grow (min (c1.outPos + budget2) out.size) := by
    show ({ inp := a ++ b, flags := flags, outLen := out.size, outEnd := min (pos + (c1.outPos - pos + budget2)) out.size } : Env) = _
    have : pos + (c1.outPos - pos + budget2) = c1.outPos + budget2 := by omega
    rw [this]; rfl
  rw [henvO] at hgO
  have hchk := run_check _ (callFuel r2 (a.extract c1.inPos a.size ++ b) (min (c1.outPos + budget2) out1.size - c1.outPos))
    { r := r2, inPos := 0, outPos := c1.outPos } out1 g2 hI2 hns
  refine ⟨hsz, hmono, hk, hgeo2, ?_, Final.unique hgO hres, hchk,
    run_I _ _ _ out1 g2 hI2 R2.1 R2.2.1 R2.2.2 rfl hR2ne⟩
  rcases hst with hst | hst
  · exact Or.inr ⟨hst, hBC⟩
  · refine Or.inl ⟨hBC, ?_⟩
    rcases hdisj with ⟨he, _⟩ | ⟨_, h⟩
    · exact absurd (hst ▸ he) (hmo_ne_eoi _)
    · rcases h with h | h
      · exact h
      · rw [hst] at h; exact absurd h (by decide)

end Model.Core
