/-
THE REFERENCE DECODER INVERTS THE RFC's CANONICAL CODE ASSIGNMENT (RFC 1951 §3.2.2): for any set of
code lengths (≤ 15 each), the symbol `s` with length `L > 0` has the code `firstAt L + symRank s`
(first code of its length plus its rank among the symbols of that length), and the counting decoder
`Spec.decodeSym` reading those `L` bits, most significant first, returns `s` and stops after exactly
`L` bits — whatever follows. No completeness assumption: the statement holds for incomplete and even
over-subscribed length sets as long as the symbol's own code is read. Helper lemmas for Props/C10.
-/
import MinizProof.Lemmas.ClenShallow
set_option maxRecDepth 100000
namespace Model.Core
open Spec

/-- the symbols of code length `len`, in increasing order -/
def level (lens : Array Nat) (len : Nat) : List Nat := (List.range lens.size).filter (fun s => lens.getD s 0 = len)

def levels (lens : Array Nat) : Nat → Nat → List Nat
  | _, 0 => []
  | len, f + 1 => level lens len ++ levels lens (len + 1) f

theorem level_length (lens : Array Nat) (len : Nat) : (level lens len).length = cntEq lens len := by
  unfold level cntEq
  rw [List.countP_eq_length_filter]

theorem levels_length (lens : Array Nat) : ∀ (f len : Nat), (levels lens len f).length = sumCnt lens len f := by
  intro f
  induction f with
  | zero => intro len; rfl
  | succ f ih => intro len; show (level lens len ++ levels lens (len + 1) f).length = _; rw [List.length_append, level_length, ih]; rfl

theorem foldl_push_eq (lens : Array Nat) (len : Nat) : ∀ (xs : List Nat) (acc : Array Nat),
    xs.foldl (fun a s => if lens.getD s 0 = len then a.push s else a) acc =
      acc ++ (xs.filter (fun s => lens.getD s 0 = len)).toArray := by
  intro xs
  induction xs with
  | nil => intro acc; simp
  | cons x xs ih =>
    intro acc
    rw [List.foldl_cons, ih, List.filter_cons]
    by_cases h : lens.getD x 0 = len
    · rw [if_pos h]
      have : decide (lens.getD x 0 = len) = true := by simp only [h, decide_true]
      rw [this]; simp
    · rw [if_neg h]
      have : decide (lens.getD x 0 = len) = false := by simp only [h, decide_false]
      rw [this]; simp

theorem sortedSymsAux_eq (lens : Array Nat) : ∀ (fuel len : Nat) (acc : Array Nat),
    sortedSymsAux lens fuel len acc = acc ++ (levels lens len fuel).toArray := by
  intro fuel
  induction fuel with
  | zero => intro len acc; simp [sortedSymsAux, levels]
  | succ fuel ih =>
    intro len acc
    unfold sortedSymsAux
    dsimp only
    rw [ih, foldl_push_eq]
    show _ = acc ++ (level lens len ++ levels lens (len + 1) fuel).toArray
    unfold level
    simp [Array.append_assoc]

/-- rank of `s` among the symbols of its own length -/
def symRank (lens : Array Nat) (s : Nat) : Nat := (List.range s).countP (fun t => lens.getD t 0 = lens.getD s 0)

/-- the `r`-th element of a filtered range -/
theorem filter_range_get (p : Nat → Bool) : ∀ (n s : Nat), s < n → p s = true →
    ((List.range n).filter p)[(List.range s).countP p]? = some s := by
  intro n
  induction n with
  | zero => intro s h; exact absurd h (Nat.not_lt_zero _)
  | succ n ih =>
    intro s hs hp
    rw [List.range_succ, List.filter_append]
    by_cases hlt : s < n
    · have := ih s hlt hp
      rw [List.getElem?_append_left]
      · exact this
      · have := List.getElem?_eq_some_iff.mp this
        exact this.1
    · have he : s = n := by omega
      subst he
      have hlen : ((List.range s).filter p).length = (List.range s).countP p := by rw [List.countP_eq_length_filter]
      rw [List.getElem?_append_right (by omega), hlen, Nat.sub_self]
      simp [hp]

theorem level_get (lens : Array Nat) (s : Nat) (hs : s < lens.size) :
    (level lens (lens.getD s 0))[symRank lens s]? = some s := by
  unfold level symRank
  exact filter_range_get (fun t => decide (lens.getD t 0 = lens.getD s 0)) lens.size s hs (by simp)

theorem symRank_lt (lens : Array Nat) (s : Nat) (hs : s < lens.size) : symRank lens s < cntEq lens (lens.getD s 0) := by
  have h := level_get lens s hs
  have := (List.getElem?_eq_some_iff.mp h).1
  rw [level_length] at this
  exact this

theorem levels_get (lens : Array Nat) : ∀ (f len L r : Nat), len ≤ L → L < len + f → r < cntEq lens L →
    (levels lens len f)[sumCnt lens len (L - len) + r]? = (level lens L)[r]? := by
  intro f
  induction f with
  | zero => intro len L r h1 h2; omega
  | succ f ih =>
    intro len L r h1 h2 hr
    show (level lens len ++ levels lens (len + 1) f)[_]? = _
    by_cases he : L = len
    · subst he
      rw [Nat.sub_self]
      show (level lens L ++ _)[0 + r]? = _
      rw [Nat.zero_add, List.getElem?_append_left (by rw [level_length]; exact hr)]
    · have hL : L - len = (L - (len + 1)) + 1 := by omega
      rw [hL]
      show (level lens len ++ _)[cntEq lens len + sumCnt lens (len + 1) (L - (len + 1)) + r]? = _
      rw [List.getElem?_append_right (by rw [level_length]; omega), level_length]
      have : cntEq lens len + sumCnt lens (len + 1) (L - (len + 1)) + r - cntEq lens len = sumCnt lens (len + 1) (L - (len + 1)) + r := by omega
      rw [this]
      exact ih (len + 1) L r (by omega) (by omega) hr

/-- THE SORTED SYMBOL TABLE: the symbol `s` of length `L` sits at index (number of symbols with a
    shorter non-zero length) + (its rank among the symbols of length `L`). -/
theorem syms_get (lens : Array Nat) (s : Nat) (hs : s < lens.size) (h1 : 1 ≤ lens.getD s 0) (h15 : lens.getD s 0 ≤ 15) :
    (mkCode lens).syms.getD (sumCnt lens 1 (lens.getD s 0 - 1) + symRank lens s) 0 = s := by
  show (sortedSymsAux lens 15 1 #[]).getD _ 0 = s
  rw [sortedSymsAux_eq]
  have := levels_get lens 15 1 (lens.getD s 0) (symRank lens s) h1 (by omega) (symRank_lt lens s hs)
  rw [level_get lens s hs] at this
  generalize sumCnt lens 1 (lens.getD s 0 - 1) + symRank lens s = idx at this ⊢
  simp only [Array.getD_eq_getD_getElem?, Array.empty_append, List.getElem?_toArray]
  rw [this]; rfl

/-- the decoder's `first` (first code of length `len`, RFC 1951 §3.2.2 step 2) -/
def firstAt (lens : Array Nat) : Nat → Nat
  | 0 => 0
  | 1 => 0
  | l + 2 => 2 * (firstAt lens (l + 1) + cntEq lens (l + 1))

/-- THE CANONICAL CODE of symbol `s` (RFC 1951 §3.2.2 step 3): first code of its length + its rank -/
def canonCode (lens : Array Nat) (s : Nat) : Nat := firstAt lens (lens.getD s 0) + symRank lens s

/-- bit `i` of a code `c` of length `L`, in transmission order (most significant first) -/
def codeBit (c L i : Nat) : Nat := (c >>> (L - 1 - i)) % 2

theorem firstAt_succ (lens : Array Nat) (k : Nat) : firstAt lens (k + 2) = 2 * (firstAt lens (k + 1) + cntEq lens (k + 1)) := rfl

/-- codes of later lengths lie above every shorter code extended with zeros -/
theorem firstAt_mono (lens : Array Nat) : ∀ (j a : Nat), firstAt lens (a + 1) * 2 ^ j ≤ firstAt lens (a + 1 + j) := by
  intro j
  induction j with
  | zero => intro a; simp
  | succ j ih =>
    intro a
    have h := ih a
    have e : a + 1 + (j + 1) = (a + j) + 2 := by omega
    rw [e, firstAt_succ]
    have e2 : a + j + 1 = a + 1 + j := by omega
    rw [e2, Nat.pow_succ]
    have : firstAt lens (a + 1) * (2 ^ j * 2) = 2 * (firstAt lens (a + 1) * 2 ^ j) := by
      rw [Nat.mul_comm (2 ^ j) 2, ← Nat.mul_assoc, Nat.mul_comm _ 2, Nat.mul_assoc]
    rw [this]
    omega

theorem sumCnt_succ (lens : Array Nat) (a k : Nat) : sumCnt lens a (k + 1) = sumCnt lens a k + cntEq lens (a + k) := by
  have := sumCnt_split lens k a 1
  rw [this]
  show _ = _ + cntEq lens (a + k)
  simp [sumCnt]

theorem shift_step (c n : Nat) : c >>> n = 2 * (c >>> (n + 1)) + (c >>> n) % 2 := by
  rw [Nat.shiftRight_succ]
  omega

/-- THE COUNTING WALK ON THE BITS OF A CANONICAL CODE: from level `k + 1` with the first `k` bits read. -/
theorem decodeSymAux_canon (lens : Array Nat) (data : Array UInt8) (pos0 s : Nat) (hs : s < lens.size)
    (h1 : 1 ≤ lens.getD s 0) (h15 : lens.getD s 0 ≤ 15) (hfit : canonCode lens s < 2 ^ lens.getD s 0)
    (hbits : ∀ i, i < lens.getD s 0 → bitAt data (pos0 + i) = some (codeBit (canonCode lens s) (lens.getD s 0) i)) :
    ∀ (m k : Nat), k + m + 1 = lens.getD s 0 → ∀ fuel, m + 1 ≤ fuel →
    decodeSymAux (mkCode lens) data fuel (k + 1) (pos0 + k) (2 * (canonCode lens s >>> (lens.getD s 0 - k)))
      (firstAt lens (k + 1)) (sumCnt lens 1 k) = .sym s (pos0 + lens.getD s 0) := by
  generalize hL : lens.getD s 0 = L at h1 h15 hfit hbits
  generalize hc : canonCode lens s = c at hfit hbits
  have hrank := symRank_lt lens s hs
  rw [hL] at hrank
  have hcdef : c = firstAt lens L + symRank lens s := by rw [← hc]; unfold canonCode; rw [hL]
  have hsize : (mkCode lens).syms.size = sumCnt lens 1 15 := by
    show (sortedSymsAux lens 15 1 #[]).size = _
    rw [sortedSymsAux_size]; simp
  -- everything up to level L lies strictly inside the table
  have hinside : ∀ k, k + 1 ≤ L → sumCnt lens 1 k < (mkCode lens).syms.size := by
    intro k hk
    rw [hsize]
    have h2 := sumCnt_split lens (L - 1) 1 (15 - (L - 1))
    have e : L - 1 + (15 - (L - 1)) = 15 := by omega
    rw [e] at h2
    have h3 := sumCnt_split lens k 1 (L - 1 - k)
    have e3 : k + (L - 1 - k) = L - 1 := by omega
    rw [e3] at h3
    have h4 : sumCnt lens (1 + (L - 1)) (15 - (L - 1)) ≥ cntEq lens L := by
      have e4 : 15 - (L - 1) = (15 - L) + 1 := by omega
      rw [e4]
      show cntEq lens (1 + (L - 1)) + _ ≥ _
      have e5 : 1 + (L - 1) = L := by omega
      rw [e5]; omega
    omega
  intro m
  induction m with
  | zero =>
    intro k hk fuel hf
    obtain ⟨f, rfl⟩ : ∃ f, fuel = f + 1 := ⟨fuel - 1, by omega⟩
    have hkL : k + 1 = L := by omega
    unfold decodeSymAux
    rw [if_neg (by have := hinside k (by omega); omega)]
    rw [hbits k (by omega)]
    dsimp only
    have hcnt : (mkCode lens).count.getD (k + 1) 0 = cntEq lens (k + 1) := countLens_getD lens (k + 1) (by omega)
    rw [hcnt]
    have hcode : 2 * (c >>> (L - k)) + codeBit c L k = c := by
      unfold codeBit
      have e1 : L - k = 0 + 1 := by omega
      have e2 : L - 1 - k = 0 := by omega
      rw [e1, e2]
      have := shift_step c 0
      simp only [Nat.shiftRight_zero] at this ⊢
      omega
    rw [hcode, hkL]
    rw [if_pos (by omega)]
    have hidx : sumCnt lens 1 k + (c - firstAt lens L) = sumCnt lens 1 (L - 1) + symRank lens s := by
      have : k = L - 1 := by omega
      rw [this]; omega
    rw [hidx]
    have hg := syms_get lens s hs (by rw [hL]; exact h1) (by rw [hL]; exact h15)
    rw [hL] at hg
    rw [hg]
    have : pos0 + k + 1 = pos0 + L := by omega
    rw [this]
  | succ m ih =>
    intro k hk fuel hf
    obtain ⟨f, rfl⟩ : ∃ f, fuel = f + 1 := ⟨fuel - 1, by omega⟩
    unfold decodeSymAux
    rw [if_neg (by have := hinside k (by omega); omega)]
    rw [hbits k (by omega)]
    dsimp only
    have hcnt : (mkCode lens).count.getD (k + 1) 0 = cntEq lens (k + 1) := countLens_getD lens (k + 1) (by omega)
    rw [hcnt]
    have hcode : 2 * (c >>> (L - k)) + codeBit c L k = c >>> (L - (k + 1)) := by
      unfold codeBit
      have e1 : L - k = (L - (k + 1)) + 1 := by omega
      have e2 : L - 1 - k = L - (k + 1) := by omega
      rw [e1, e2]
      exact (shift_step c (L - (k + 1))).symm
    rw [hcode]
    -- the (k+1)-bit prefix of the code lies above every code of length k+1
    have hge : firstAt lens (k + 1) + cntEq lens (k + 1) ≤ c >>> (L - (k + 1)) := by
      rw [Nat.shiftRight_eq_div_pow, Nat.le_div_iff_mul_le (Nat.pow_pos (by decide))]
      have hm := firstAt_mono lens (L - (k + 2)) (k + 1)
      have e : k + 1 + 1 + (L - (k + 2)) = L := by omega
      rw [e, firstAt_succ] at hm
      have e2 : L - (k + 1) = (L - (k + 2)) + 1 := by omega
      rw [e2, Nat.pow_succ]
      have : (firstAt lens (k + 1) + cntEq lens (k + 1)) * (2 ^ (L - (k + 2)) * 2) =
          2 * (firstAt lens (k + 1) + cntEq lens (k + 1)) * 2 ^ (L - (k + 2)) := by
        rw [Nat.mul_comm (2 ^ (L - (k + 2))) 2, ← Nat.mul_assoc, Nat.mul_comm _ 2]
      rw [this]
      omega
    rw [if_neg (by omega)]
    have := ih (k + 1) (by omega) f (by omega)
    rw [firstAt_succ, sumCnt_succ] at this
    have e : pos0 + k + 1 = pos0 + (k + 1) := by omega
    have e1 : 1 + k = k + 1 := by omega
    rw [e1] at this
    rw [e]
    exact this

/-- `decodeSym` on the bits of the canonical code of `s` returns `s` after exactly its length. -/
theorem decodeSym_canon (lens : Array Nat) (data : Array UInt8) (pos0 s : Nat) (hs : s < lens.size)
    (h1 : 1 ≤ lens.getD s 0) (h15 : lens.getD s 0 ≤ 15) (hfit : canonCode lens s < 2 ^ lens.getD s 0)
    (hbits : ∀ i, i < lens.getD s 0 → bitAt data (pos0 + i) = some (codeBit (canonCode lens s) (lens.getD s 0) i)) :
    decodeSym (mkCode lens) data pos0 = .sym s (pos0 + lens.getD s 0) := by
  have h := decodeSymAux_canon lens data pos0 s hs h1 h15 hfit hbits (lens.getD s 0 - 1) 0 (by omega) 15 (by omega)
  have h0 : canonCode lens s >>> (lens.getD s 0 - 0) = 0 := by
    rw [Nat.sub_zero, Nat.shiftRight_eq_div_pow]
    exact Nat.div_eq_of_lt hfit
  rw [h0] at h
  exact h

/-- Kraft bookkeeping against the canonical construction: as long as the length set is not
    over-subscribed, the codes of every length fit that many bits. -/
theorem kraft_fits (lens : Array Nat) : ∀ (fuel len left : Nat) (r : Nat), 1 ≤ len → len + fuel ≤ 16 →
    2 * left + firstAt lens len = 2 ^ len →
    kraftLeftAux (countLens lens) fuel len left = some r →
    ∀ j, j < fuel → firstAt lens (len + j) + cntEq lens (len + j) ≤ 2 ^ (len + j) := by
  intro fuel
  induction fuel with
  | zero => intro len left r _ _ _ _ j hj; exact absurd hj (Nat.not_lt_zero _)
  | succ fuel ih =>
    intro len left r h1 h16 hinv hk j hj
    unfold kraftLeftAux at hk
    dsimp only at hk
    have hc : (countLens lens).getD len 0 = cntEq lens len := countLens_getD lens len (by omega)
    rw [hc] at hk
    by_cases hov : 2 * left < cntEq lens len
    · rw [if_pos hov] at hk; exact absurd hk (by simp)
    · rw [if_neg hov] at hk
      cases j with
      | zero => rw [Nat.add_zero]; omega
      | succ j =>
        obtain ⟨l, rfl⟩ : ∃ l, len = l + 1 := ⟨len - 1, by omega⟩
        have := ih (l + 1 + 1) (2 * left - cntEq lens (l + 1)) r (by omega) (by omega) (by
          rw [firstAt_succ, Nat.pow_succ]; omega) hk j (by omega)
        have e : l + 1 + 1 + j = l + 1 + (j + 1) := by omega
        rw [e] at this
        exact this

/-- THE REFERENCE DECODER INVERTS THE CANONICAL CODE. For every set of code lengths that is not
    over-subscribed (in particular every set `Spec.codeValid` accepts) and every symbol `s` with a
    non-zero length `L ≤ 15`: if the stream holds, from bit `pos`, the `L` bits of `canonCode lens s`
    most significant first — whatever follows — then `Spec.decodeSym` returns `s` and the position
    right after those `L` bits. -/
theorem canonical_code_is_decoded (lens : Array Nat) (data : Array UInt8) (pos s r : Nat) (hs : s < lens.size)
    (hk : kraftLeft (countLens lens) = some r)
    (h1 : 1 ≤ lens.getD s 0) (h15 : lens.getD s 0 ≤ 15)
    (hbits : ∀ i, i < lens.getD s 0 → bitAt data (pos + i) = some (codeBit (canonCode lens s) (lens.getD s 0) i)) :
    decodeSym (mkCode lens) data pos = .sym s (pos + lens.getD s 0) ∧ canonCode lens s < 2 ^ lens.getD s 0 := by
  have hfit : canonCode lens s < 2 ^ lens.getD s 0 := by
    have := kraft_fits lens 15 1 1 r (Nat.le_refl _) (by omega) (by show 2 * 1 + 0 = 2 ^ 1; decide) hk (lens.getD s 0 - 1) (by omega)
    have e : 1 + (lens.getD s 0 - 1) = lens.getD s 0 := by omega
    rw [e] at this
    have hr := symRank_lt lens s hs
    unfold canonCode
    omega
  exact ⟨decodeSym_canon lens data pos s hs h1 h15 hfit hbits, hfit⟩

/-- distinct symbols of the same length get distinct codes, in symbol order -/
theorem canonCode_lt (lens : Array Nat) (s t : Nat) (hst : s < t) (hl : lens.getD s 0 = lens.getD t 0) :
    canonCode lens s < canonCode lens t := by
  unfold canonCode symRank
  rw [hl]
  have : (List.range t) = List.range s ++ (List.range (t - s)).map (fun x => s + x) := by
    have h := @List.range_add s (t - s)
    rw [show s + (t - s) = t by omega] at h
    exact h
  rw [this, List.countP_append]
  have hpos : 0 < ((List.range (t - s)).map (fun x => s + x)).countP (fun u => lens.getD u 0 = lens.getD t 0) := by
    rw [List.countP_pos_iff]
    exact ⟨s, by simp only [List.mem_map, List.mem_range]; exact ⟨0, by omega, by omega⟩, by simp [hl]⟩
  omega

end Model.Core
