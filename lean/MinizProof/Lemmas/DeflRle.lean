/-
The model of `start_dynamic_block`'s run-length coder (`Model/DeflRle`) is correct for EVERY list of
code sizes: the symbols it emits expand — under the reference decoder's reading of 16 / 17 / 18 — to
exactly the list it was given. Invariant over the loop: expansion of what has been emitted, followed
by the pending zeros and the pending repeats of the previous size, is the list processed so far.
Helper lemmas for Props/C10.
-/
import MinizProof.Model.DeflRle
set_option maxRecDepth 100000
namespace Model.Rle
open Model.Core

theorem applyAll_append : ∀ (a b : List CSym) (acc : Array Nat), applyAll acc (a ++ b) = applyAll (applyAll acc a) b := by
  intro a
  induction a with
  | nil => intro b acc; rfl
  | cons c cs ih => intro b acc; exact ih b (c.apply acc)

theorem applyAll_lens : ∀ (n v : Nat) (acc : Array Nat),
    (applyAll acc (List.replicate n (.len v))).toList = acc.toList ++ List.replicate n v := by
  intro n
  induction n with
  | zero => intro v acc; simp [applyAll]
  | succ n ih =>
    intro v acc
    show (applyAll ((CSym.len v).apply acc) (List.replicate n (.len v))).toList = _
    rw [ih]
    simp [CSym.apply, List.replicate_succ]

/-- the symbol is well-formed where it stands: extra-bit value in range, a repeat only after something -/
def CSymS (acc : Array Nat) : CSym → Prop
  | .len l => l < 16
  | .rep r => r < 4 ∧ acc.size ≠ 0
  | .z3 r => r < 8
  | .z7 r => r < 128

def SOk : Array Nat → List CSym → Prop
  | _, [] => True
  | acc, c :: cs => CSymS acc c ∧ SOk (c.apply acc) cs

theorem SOk_append : ∀ (a b : List CSym) (acc : Array Nat), SOk acc a → SOk (applyAll acc a) b → SOk acc (a ++ b) := by
  intro a
  induction a with
  | nil => intro b acc _ h; exact h
  | cons c cs ih => intro b acc h1 h2; exact ⟨h1.1, ih b _ h1.2 h2⟩

theorem SOk_lens : ∀ (n v : Nat) (acc : Array Nat), v < 16 → SOk acc (List.replicate n (.len v)) := by
  intro n
  induction n with
  | zero => intro v acc _; exact trivial
  | succ n ih => intro v acc hv; exact ⟨hv, ih v _ hv⟩

/-- expansion (as a list) of the symbols emitted so far -/
def applied (s : St) : List Nat := (applyAll #[] s.out).toList

theorem applied_out_append (s : St) (cs : List CSym) (z rep prev : Nat) :
    applied { z := z, rep := rep, prev := prev, out := s.out ++ cs } = (applyAll (applyAll #[] s.out) cs).toList := by
  unfold applied
  rw [applyAll_append]

/-- the loop invariant after the list `done` has been processed -/
structure Inv (s : St) (done : List Nat) : Prop where
  exp   : applied s ++ List.replicate s.z 0 ++ List.replicate s.rep s.prev = done
  excl  : s.z ≠ 0 → s.rep = 0
  last  : s.rep ≠ 0 → s.prev ≠ 0 ∧ (applied s).getLast? = some s.prev
  repLe : s.rep ≤ 5
  zLe   : s.z ≤ 137
  prevZ : s.z ≠ 0 → s.prev = 0
  prevL : (done = [] ∧ s.prev = 0xFF) ∨ done.getLast? = some s.prev
  sok   : SOk #[] s.out
  prevB : s.rep ≠ 0 → s.prev ≤ 15

theorem prevFlush_sok (s : St) (h : s.rep ≠ 0 → (applied s).getLast? = some s.prev) (hs : SOk #[] s.out)
    (hb : s.rep ≠ 0 → s.prev ≤ 15) (hr6 : s.rep ≤ 6) : SOk #[] (prevFlush s).out := by
  unfold prevFlush
  by_cases hr : s.rep ≠ 0
  · rw [if_pos hr]
    by_cases h3 : s.rep < 3
    · rw [if_pos h3]
      exact SOk_append _ _ _ hs (SOk_lens _ _ _ (by have := hb hr; omega))
    · rw [if_neg h3]
      refine SOk_append _ _ _ hs ⟨⟨by omega, ?_⟩, trivial⟩
      intro h0
      have hl := h hr
      unfold applied at hl
      have : applyAll #[] s.out = #[] := Array.eq_empty_of_size_eq_zero h0
      rw [this] at hl; simp at hl
  · rw [if_neg hr]; exact hs

theorem zeroFlush_sok (s : St) (hs : SOk #[] s.out) (hz : s.z ≤ 138) : SOk #[] (zeroFlush s).out := by
  unfold zeroFlush
  by_cases hr : s.z ≠ 0
  · rw [if_pos hr]
    by_cases h3 : s.z < 3
    · rw [if_pos h3]; exact SOk_append _ _ _ hs (SOk_lens _ _ _ (by decide))
    · rw [if_neg h3]
      by_cases h10 : s.z ≤ 10
      · rw [if_pos h10]; exact SOk_append _ _ _ hs ⟨by show s.z - 3 < 8; omega, trivial⟩
      · rw [if_neg h10]; exact SOk_append _ _ _ hs ⟨by show s.z - 11 < 128; omega, trivial⟩
  · rw [if_neg hr]; exact hs

theorem prevFlush_applied (s : St) (h : s.rep ≠ 0 → (applied s).getLast? = some s.prev) :
    applied (prevFlush s) = applied s ++ List.replicate s.rep s.prev ∧ (prevFlush s).rep = 0 ∧
    (prevFlush s).z = s.z ∧ (prevFlush s).prev = s.prev := by
  unfold prevFlush
  by_cases hr : s.rep ≠ 0
  · rw [if_pos hr]
    by_cases h3 : s.rep < 3
    · rw [if_pos h3]
      refine ⟨?_, rfl, rfl, rfl⟩
      rw [applied_out_append, applyAll_lens]; rfl
    · rw [if_neg h3]
      refine ⟨?_, rfl, rfl, rfl⟩
      rw [applied_out_append]
      show ((CSym.rep (s.rep - 3)).apply (applyAll #[] s.out)).toList = _
      have hl := h hr
      unfold applied at hl
      simp only [CSym.apply, Array.toList_append, Array.toList_replicate]
      have e : 3 + (s.rep - 3) = s.rep := by omega
      rw [e]
      congr 2
      generalize applyAll #[] s.out = acc at hl
      have hne : acc.size ≠ 0 := by
        intro h0
        have : acc = #[] := Array.eq_empty_of_size_eq_zero h0
        rw [this] at hl; simp at hl
      rw [List.getLast?_eq_getElem?] at hl
      simp only [Array.length_toList, Array.getElem?_toList] at hl
      simp [Array.getD_eq_getD_getElem?, hl]
  · rw [if_neg hr]
    have : s.rep = 0 := by omega
    rw [this]; simp

theorem zeroFlush_applied (s : St) (hz : s.z ≤ 138) :
    applied (zeroFlush s) = applied s ++ List.replicate s.z 0 ∧ (zeroFlush s).z = 0 ∧
    (zeroFlush s).rep = s.rep ∧ (zeroFlush s).prev = s.prev := by
  unfold zeroFlush
  by_cases hr : s.z ≠ 0
  · rw [if_pos hr]
    by_cases h3 : s.z < 3
    · rw [if_pos h3]
      refine ⟨?_, rfl, rfl, rfl⟩
      rw [applied_out_append, applyAll_lens]; rfl
    · rw [if_neg h3]
      by_cases h10 : s.z ≤ 10
      · rw [if_pos h10]
        refine ⟨?_, rfl, rfl, rfl⟩
        rw [applied_out_append]
        show ((CSym.z3 (s.z - 3)).apply (applyAll #[] s.out)).toList = _
        simp only [CSym.apply, Array.toList_append, Array.toList_replicate]
        rw [show 3 + (s.z - 3) = s.z by omega]; rfl
      · rw [if_neg h10]
        refine ⟨?_, rfl, rfl, rfl⟩
        rw [applied_out_append]
        show ((CSym.z7 (s.z - 11)).apply (applyAll #[] s.out)).toList = _
        simp only [CSym.apply, Array.toList_append, Array.toList_replicate]
        rw [show 11 + (s.z - 11) = s.z by omega]; rfl
  · rw [if_neg hr]
    have : s.z = 0 := by omega
    rw [this]; simp

theorem replicate_snoc (n v : Nat) : List.replicate n v ++ [v] = List.replicate (n + 1) v := by
  rw [List.replicate_succ']

theorem getLast?_append_replicate (l : List Nat) (n v : Nat) (hn : n ≠ 0) : (l ++ List.replicate n v).getLast? = some v := by
  obtain ⟨m, rfl⟩ : ∃ m, n = m + 1 := ⟨n - 1, by omega⟩
  rw [List.replicate_succ', ← List.append_assoc, List.getLast?_append]
  simp

/-- ONE STEP OF THE LOOP keeps the invariant. -/
theorem step_inv (s : St) (done : List Nat) (cs : Nat) (hcs : cs ≤ 15) (h : Inv s done) : Inv (step s cs) (done ++ [cs]) := by
  have hrz : s.rep ≠ 0 → s.z = 0 := fun hr => by
    by_cases hz : s.z = 0
    · exact hz
    · exact absurd (h.excl hz) hr
  have hsokP : SOk #[] (prevFlush s).out :=
    prevFlush_sok s (fun hr => (h.last hr).2) h.sok h.prevB (by have := h.repLe; omega)
  have hsokZ : SOk #[] (zeroFlush s).out := zeroFlush_sok s h.sok (by have := h.zLe; omega)
  unfold step
  by_cases h0 : cs = 0
  · -- a zero
    subst h0
    simp only [↓reduceIte]
    obtain ⟨a1, a2, a3, a4⟩ := prevFlush_applied s (fun hr => (h.last hr).2)
    have hexp1 : applied (prevFlush s) ++ List.replicate s.z 0 = done := by
      rw [a1]
      by_cases hr : s.rep = 0
      · have := h.exp; rw [hr] at this ⊢; simpa using this
      · have hz := hrz hr
        have := h.exp; rw [hz] at this ⊢; simpa using this
    by_cases h138 : (prevFlush s).z + 1 = 138
    · rw [if_pos h138]
      obtain ⟨b1, b2, b3, b4⟩ := zeroFlush_applied { prevFlush s with z := (prevFlush s).z + 1 } (by show (prevFlush s).z + 1 ≤ 138; omega)
      have hap : applied { prevFlush s with z := (prevFlush s).z + 1 } = applied (prevFlush s) := rfl
      refine ⟨?_, fun hz => ?_, fun hr => ?_, ?_, ?_, fun hz => rfl, .inr (by simp),
        zeroFlush_sok { prevFlush s with z := (prevFlush s).z + 1 } hsokP (by show (prevFlush s).z + 1 ≤ 138; omega),
        fun hr => absurd (b3.trans a2) hr⟩
      · show applied (zeroFlush _) ++ List.replicate (zeroFlush _).z 0 ++ List.replicate (zeroFlush _).rep 0 = _
        rw [b1, b2, b3, hap]
        show applied (prevFlush s) ++ List.replicate ((prevFlush s).z + 1) 0 ++ List.replicate 0 0 ++ List.replicate (prevFlush s).rep 0 = _
        rw [a2, a3, ← hexp1, ← replicate_snoc]
        simp
      · exact absurd b2 hz
      · exact absurd (b3.trans a2) hr
      · show (zeroFlush _).rep ≤ 5; rw [b3]; show (prevFlush s).rep ≤ 5; omega
      · show (zeroFlush _).z ≤ 137; rw [b2]; omega
    · rw [if_neg h138]
      refine ⟨?_, fun _ => a2, fun hr => absurd a2 hr, by show (prevFlush s).rep ≤ 5; omega,
        by show (prevFlush s).z + 1 ≤ 137; have := h.zLe; omega, fun _ => rfl, .inr (by simp), hsokP, fun hr => absurd a2 hr⟩
      show applied (prevFlush s) ++ List.replicate ((prevFlush s).z + 1) 0 ++ List.replicate (prevFlush s).rep 0 = _
      rw [a2, a3, ← hexp1, ← replicate_snoc]
      simp
  · -- a non-zero size
    rw [if_neg h0]
    obtain ⟨b1, b2, b3, b4⟩ := zeroFlush_applied s (by have := h.zLe; omega)
    have hlast1 : (zeroFlush s).rep ≠ 0 → (applied (zeroFlush s)).getLast? = some (zeroFlush s).prev := by
      intro hr
      rw [b3] at hr
      rw [b1, b4, hrz hr]
      simpa using (h.last hr).2
    by_cases hne : cs ≠ (zeroFlush s).prev
    · rw [if_pos hne]
      obtain ⟨a1, a2, a3, a4⟩ := prevFlush_applied (zeroFlush s) hlast1
      refine ⟨?_, fun hz => absurd (a3.trans b2) hz, fun hr => absurd a2 hr, by show (prevFlush (zeroFlush s)).rep ≤ 5; omega,
        by show (prevFlush (zeroFlush s)).z ≤ 137; omega, fun hz => absurd (a3.trans b2) hz, .inr (by simp),
        SOk_append _ _ _ (prevFlush_sok (zeroFlush s) hlast1 hsokZ (fun hr => by rw [b4]; exact h.prevB (by rw [b3] at hr; exact hr))
          (by rw [b3]; have := h.repLe; omega)) ⟨by show cs < 16; omega, trivial⟩,
        fun hr => absurd a2 hr⟩
      show (applyAll #[] ((prevFlush (zeroFlush s)).out ++ [CSym.len cs])).toList ++ List.replicate (prevFlush (zeroFlush s)).z 0 ++
        List.replicate (prevFlush (zeroFlush s)).rep cs = _
      rw [applyAll_append, a2, a3, b2]
      show ((applyAll #[] (prevFlush (zeroFlush s)).out).push cs).toList ++ [] ++ [] = _
      have : (applyAll #[] (prevFlush (zeroFlush s)).out).toList = applied (prevFlush (zeroFlush s)) := rfl
      simp only [Array.toList_push, this, a1, b1, b3, b4, List.append_nil]
      rw [h.exp]
    · have heq : cs = s.prev := by
        have : cs = (zeroFlush s).prev := by
          by_cases hh : cs = (zeroFlush s).prev
          · exact hh
          · exact absurd hh hne
        rw [this, b4]
      rw [if_neg hne]
      have hz0 : s.z = 0 := by
        by_cases hz : s.z = 0
        · exact hz
        · have := h.prevZ hz; omega
      have hdone : done ≠ [] := by
        rcases h.prevL with ⟨_, hp⟩ | hp
        · omega
        · intro hd; rw [hd] at hp; simp at hp
      have hap0 : applied (zeroFlush s) = applied s := by rw [b1, hz0]; simp
      have hlastS : (applied s).getLast? = some s.prev := by
        by_cases hr : s.rep = 0
        · have := h.exp
          rw [hr, hz0] at this
          simp only [List.replicate_zero, List.append_nil] at this
          rw [this]
          rcases h.prevL with ⟨hd, _⟩ | hp
          · exact absurd hd hdone
          · exact hp
        · exact (h.last hr).2
      have hexpS : applied s ++ List.replicate (s.rep + 1) s.prev = done ++ [cs] := by
        have := h.exp
        rw [hz0] at this
        simp only [List.replicate_zero, List.append_nil] at this
        rw [← this, heq, ← replicate_snoc, List.append_assoc]
      by_cases h6 : (zeroFlush s).rep + 1 = 6
      · rw [if_pos h6]
        obtain ⟨a1, a2, a3, a4⟩ := prevFlush_applied { zeroFlush s with rep := (zeroFlush s).rep + 1 }
          (fun _ => by show (applied (zeroFlush s)).getLast? = some (zeroFlush s).prev; rw [hap0, b4]; exact hlastS)
        have hapx : applied { zeroFlush s with rep := (zeroFlush s).rep + 1 } = applied (zeroFlush s) := rfl
        refine ⟨?_, fun hz => absurd (a3.trans b2) hz, fun hr => absurd a2 hr, by show (prevFlush _).rep ≤ 5; rw [a2]; omega,
          by show (prevFlush _).z ≤ 137; rw [a3]; show (zeroFlush s).z ≤ 137; omega,
          fun hz => absurd (a3.trans b2) hz, .inr (by simp),
          prevFlush_sok { zeroFlush s with rep := (zeroFlush s).rep + 1 }
            (fun _ => by show (applied (zeroFlush s)).getLast? = some (zeroFlush s).prev; rw [hap0, b4]; exact hlastS)
            hsokZ (fun _ => by show (zeroFlush s).prev ≤ 15; rw [b4, ← heq]; exact hcs) (by show (zeroFlush s).rep + 1 ≤ 6; omega),
          fun hr => absurd a2 hr⟩
        show applied (prevFlush _) ++ List.replicate (prevFlush _).z 0 ++ List.replicate (prevFlush _).rep cs = _
        rw [a1, a2, a3, hapx, hap0]
        show applied s ++ List.replicate ((zeroFlush s).rep + 1) (zeroFlush s).prev ++ List.replicate (zeroFlush s).z 0 ++ [] = _
        rw [b2, b3, b4]
        simp only [List.replicate_zero, List.append_nil]
        exact hexpS
      · rw [if_neg h6]
        refine ⟨?_, fun hz => absurd b2 hz, fun _ => ⟨h0, ?_⟩, by show (zeroFlush s).rep + 1 ≤ 5; have := h.repLe; omega,
          by show (zeroFlush s).z ≤ 137; omega, fun hz => absurd b2 hz, .inr (by simp), hsokZ, fun _ => hcs⟩
        · show applied (zeroFlush s) ++ List.replicate (zeroFlush s).z 0 ++ List.replicate ((zeroFlush s).rep + 1) cs = _
          rw [hap0, b2, b3, heq]
          simp only [List.replicate_zero, List.append_nil]
          rw [← heq]; rw [heq]; exact (heq ▸ hexpS)
        · show (applied (zeroFlush s)).getLast? = some cs
          rw [hap0, heq]; exact hlastS

/-- THE RUN-LENGTH CODER OF `start_dynamic_block` IS CORRECT: for every list of code sizes (each at most
    15) the symbols the model emits expand to exactly that list. -/
theorem rlePack_spec (lens : List Nat) (h15 : ∀ l ∈ lens, l ≤ 15) :
    (applyAll #[] (rlePack lens)).toList = lens ∧ SOk #[] (rlePack lens) := by
  have hinv : ∀ (ls : List Nat) (s : St) (done : List Nat), (∀ l ∈ ls, l ≤ 15) → Inv s done →
      Inv (ls.foldl step s) (done ++ ls) := by
    intro ls
    induction ls with
    | nil => intro s done _ h; simpa using h
    | cons l ls ih =>
      intro s done hl h
      have := ih (step s l) (done ++ [l]) (fun x hx => hl x (by simp [hx])) (step_inv s done l (hl l (by simp)) h)
      simpa using this
  have h0 : Inv {} [] := ⟨rfl, fun h => absurd rfl h, fun h => absurd rfl h, by decide, by decide, fun h => absurd rfl h, .inl ⟨rfl, rfl⟩, trivial, fun h => absurd rfl h⟩
  have hI := hinv lens {} [] h15 h0
  simp only [List.nil_append] at hI
  unfold rlePack finish
  generalize lens.foldl step {} = s at hI
  by_cases hr : s.rep ≠ 0
  · rw [if_pos hr]
    obtain ⟨a1, _⟩ := prevFlush_applied s (fun hr => (hI.last hr).2)
    have hz : s.z = 0 := by
      by_cases hz : s.z = 0
      · exact hz
      · exact absurd (hI.excl hz) hr
    refine ⟨?_, prevFlush_sok s (fun hr => (hI.last hr).2) hI.sok hI.prevB (by have := hI.repLe; omega)⟩
    show applied (prevFlush s) = lens
    rw [a1]
    have := hI.exp
    rw [hz] at this
    simpa using this
  · rw [if_neg hr]
    obtain ⟨b1, _⟩ := zeroFlush_applied s (by have := hI.zLe; omega)
    refine ⟨?_, zeroFlush_sok s hI.sok (by have := hI.zLe; omega)⟩
    show applied (zeroFlush s) = lens
    rw [b1]
    have := hI.exp
    have hr0 : s.rep = 0 := by omega
    rw [hr0] at this
    simpa using this

theorem rlePack_expands (lens : List Nat) (h15 : ∀ l ∈ lens, l ≤ 15) :
    (applyAll #[] (rlePack lens)).toList = lens := (rlePack_spec lens h15).1

/-- every symbol appends at least one code size -/
theorem apply_size_lt (acc : Array Nat) (c : CSym) : acc.size < (c.apply acc).size := by
  cases c <;> simp [CSym.apply] <;> omega

theorem applyAll_size_le : ∀ (cs : List CSym) (acc : Array Nat), acc.size ≤ (applyAll acc cs).size := by
  intro cs
  induction cs with
  | nil => intro acc; exact Nat.le_refl _
  | cons c cs ih => intro acc; exact Nat.le_trans (Nat.le_of_lt (apply_size_lt acc c)) (ih _)

/-- structural well-formedness + a code for every symbol used + the right total = what the reference
    decoder's `readLens` needs -/
theorem csymsOk_of (clens : Array Nat) (total : Nat) : ∀ (cs : List CSym) (acc : Array Nat), SOk acc cs →
    (∀ c ∈ cs, c.sym < clens.size ∧ 1 ≤ clens.getD c.sym 0) → (applyAll acc cs).size = total →
    CSymsOk clens total acc cs := by
  intro cs
  induction cs with
  | nil => intro acc _ _ h; exact h
  | cons c cs ih =>
    intro acc hs hc ht
    have hlt : acc.size < total := by
      have h1 := apply_size_lt acc c
      have h2 := applyAll_size_le cs (c.apply acc)
      have : applyAll acc (c :: cs) = applyAll (c.apply acc) cs := rfl
      rw [this] at ht
      omega
    refine ⟨hlt, ?_, ih _ hs.2 (fun x hx => hc x (by simp [hx])) ht⟩
    have hcc := hc c (by simp)
    cases c with
    | len l => exact ⟨hs.1, hcc.1, hcc.2⟩
    | rep r => exact ⟨hs.1.1, hs.1.2, hcc.1, hcc.2⟩
    | z3 r => exact ⟨hs.1, hcc.1, hcc.2⟩
    | z7 r => exact ⟨hs.1, hcc.1, hcc.2⟩

/-- THE PACKED CODE SIZES ARE READ BACK: for every list of code sizes (each ≤ 15) and every usable
    code-length code that has a code for each symbol the packer used, the reference decoder's
    `readLens` on the bits of the packed symbols returns exactly the list, at exactly the end of
    those bits. -/
theorem packed_lens_round_trip (lens : List Nat) (h15 : ∀ l ∈ lens, l ≤ 15) (clens : Array Nat) (hc : CodeOk clens)
    (hcodes : ∀ c ∈ rlePack lens, c.sym < clens.size ∧ 1 ≤ clens.getD c.sym 0)
    (data : Array UInt8) (fuel pos : Nat) (hf : (rlePack lens).length < fuel)
    (h : HasBits data pos (encCSyms clens (rlePack lens))) :
    Spec.readLens (Spec.mkCode clens) data lens.length fuel pos #[] =
      .accept (pos + (encCSyms clens (rlePack lens)).length, lens.toArray) := by
  obtain ⟨hexp, hsok⟩ := rlePack_spec lens h15
  have hsz : (applyAll #[] (rlePack lens)).size = lens.length := by
    have := congrArg List.length hexp
    simpa using this
  have hok := csymsOk_of clens lens.length (rlePack lens) #[] hsok hcodes hsz
  rw [readLens_enc clens hc data lens.length (rlePack lens) fuel pos #[] hf hok h]
  congr 2
  apply Array.ext'
  rw [hexp]

end Model.Rle

namespace Model.Rle
open Model.Core

/-- what the decoder assembles from the 3-bit fields, entry by entry -/
theorem clensFold_getD (f : Nat → Nat) : ∀ (os : List Nat) (acc : Array Nat) (i : Nat), i < acc.size →
    (clensFold os (os.map f) acc).getD i 0 = if i ∈ os then f i else acc.getD i 0 := by
  intro os
  induction os with
  | nil => intro acc i _; simp [clensFold]
  | cons o os ih =>
    intro acc i hi
    show (clensFold os (os.map f) (acc.setIfInBounds o (f o))).getD i 0 = _
    rw [ih _ i (by simpa using hi)]
    by_cases hio : i ∈ os
    · simp [hio]
    · rw [if_neg hio]
      by_cases he : i = o
      · subst he
        simp [Array.getD_eq_getD_getElem?, Array.getElem?_setIfInBounds, hi]
      · have : i ∉ o :: os := by simp [he, hio]
        rw [if_neg this]
        simp [Array.getD_eq_getD_getElem?, Array.getElem?_setIfInBounds, Ne.symm he]

theorem clensFold_size : ∀ (os vs : List Nat) (acc : Array Nat), (clensFold os vs acc).size = acc.size := by
  intro os
  induction os with
  | nil => intro vs acc; cases vs <;> rfl
  | cons o os ih =>
    intro vs acc
    cases vs with
    | nil => rfl
    | cons v vs => show (clensFold os vs (acc.setIfInBounds o v)).size = _; rw [ih]; simp

theorem numBitLengths_bounds (clens : Array Nat) : 4 ≤ numBitLengths clens ∧ numBitLengths clens ≤ 19 := by
  unfold numBitLengths
  constructor
  · exact Nat.le_max_left _ _
  · apply Nat.max_le.mpr
    constructor
    · decide
    · omega

theorem mem_takeWhile_sat (p : Nat → Bool) : ∀ (l : List Nat) (x : Nat), x ∈ l.takeWhile p → p x = true := by
  intro l
  induction l with
  | nil => intro x h; simp at h
  | cons a l ih =>
    intro x h
    rw [List.takeWhile_cons] at h
    by_cases ha : p a = true
    · rw [if_pos ha] at h
      rcases List.mem_cons.mp h with h | h
      · rw [h]; exact ha
      · exact ih x h
    · rw [if_neg ha] at h; simp at h

/-- the entries not sent are zero -/
theorem dropped_are_zero (clens : Array Nat) : ∀ o ∈ Spec.clenOrder.drop (numBitLengths clens), clens.getD o 0 = 0 := by
  intro o ho
  -- the trailing zeros, as a suffix of the order
  have hpre := List.takeWhile_prefix (fun o => clens.getD o 0 == 0) (l := Spec.clenOrder.reverse)
  obtain ⟨t, ht⟩ := hpre
  generalize htw : (Spec.clenOrder.reverse).takeWhile (fun o => clens.getD o 0 == 0) = tw at ht
  have hall : ∀ x ∈ tw, clens.getD x 0 = 0 := by
    intro x hx
    rw [← htw] at hx
    have := mem_takeWhile_sat _ _ _ hx
    simpa using this
  have hord : Spec.clenOrder = t.reverse ++ tw.reverse := by
    have := congrArg List.reverse ht
    rw [List.reverse_reverse, List.reverse_append] at this
    exact this.symm
  have hlen : t.length + tw.length = 19 := by
    have := congrArg List.length hord
    simp only [List.length_append, List.length_reverse] at this
    have h19 : Spec.clenOrder.length = 19 := by decide
    omega
  have hn : t.length ≤ numBitLengths clens := by
    unfold numBitLengths
    rw [htw]
    have : 18 - tw.length + 1 ≥ t.length ∨ tw.length = 19 := by omega
    rcases this with h | h
    · exact Nat.le_trans h (Nat.le_max_right _ _)
    · have : t.length = 0 := by omega
      omega
  -- o lies in the zero suffix
  rw [hord] at ho
  have : o ∈ tw.reverse := by
    have hsub : (t.reverse ++ tw.reverse).drop (numBitLengths clens) = tw.reverse.drop (numBitLengths clens - t.length) := by
      rw [List.drop_append, List.drop_eq_nil_of_le (by simp; exact hn)]
      simp
    rw [hsub] at ho
    exact List.mem_of_mem_drop ho
  exact hall o (by simpa using this)

/-- THE CODE-LENGTH CODE IS SENT COMPLETELY: the decoder reassembles exactly `clens` from the fields the
    model sends (trailing zero entries in the RFC's order are implied). -/
theorem header_clens (litLens distLens clens : Array Nat) (hcs : clens.size = 19) :
    (header litLens distLens clens).clens = clens := by
  apply Array.ext
  · show (clensFold Spec.clenOrder ((Spec.clenOrder.take (numBitLengths clens)).map (fun o => clens.getD o 0)) (Array.replicate 19 0)).size = _
    rw [clensFold_size]; simp [hcs]
  · intro i h1 h2
    have hi : i < 19 := by rw [hcs] at h2; exact h2
    have hfold : (header litLens distLens clens).clens =
        clensFold (Spec.clenOrder.take (numBitLengths clens) ++ Spec.clenOrder.drop (numBitLengths clens))
          ((Spec.clenOrder.take (numBitLengths clens)).map (fun o => clens.getD o 0)) (Array.replicate 19 0) := by
      rw [List.take_append_drop]; rfl
    -- folding over the longer order list with the shorter value list stops with the values
    have hstop : ∀ (os1 os2 : List Nat) (acc : Array Nat), clensFold (os1 ++ os2) (os1.map (fun o => clens.getD o 0)) acc =
        clensFold os1 (os1.map (fun o => clens.getD o 0)) acc := by
      intro os1
      induction os1 with
      | nil => intro os2 acc; cases os2 <;> rfl
      | cons o os ih => intro os2 acc; exact ih os2 _
    have hg := clensFold_getD (fun o => clens.getD o 0) (Spec.clenOrder.take (numBitLengths clens)) (Array.replicate 19 0) i (by simpa using hi)
    have hval : (header litLens distLens clens).clens.getD i 0 = clens.getD i 0 := by
      rw [hfold, hstop, hg]
      by_cases hm : i ∈ Spec.clenOrder.take (numBitLengths clens)
      · rw [if_pos hm]
      · rw [if_neg hm]
        have hin : i ∈ Spec.clenOrder := by
          have : ∀ j, j < 19 → j ∈ Spec.clenOrder := by decide
          exact this i hi
        rw [← List.take_append_drop (numBitLengths clens) Spec.clenOrder] at hin
        rcases List.mem_append.mp hin with h | h
        · exact absurd h hm
        · rw [dropped_are_zero clens i h]; simp [Array.getD_eq_getD_getElem?, hi]
    simp only [Array.getD_eq_getD_getElem?, Array.getElem?_eq_getElem h1, Array.getElem?_eq_getElem h2, Option.getD_some] at hval
    exact hval

end Model.Rle

namespace Model.Rle
open Model.Core

theorem SOk_sym_lt : ∀ (cs : List CSym) (acc : Array Nat), SOk acc cs → ∀ c ∈ cs, c.sym < 19 := by
  intro cs
  induction cs with
  | nil => intro acc _ c hc; simp at hc
  | cons x xs ih =>
    intro acc h c hc
    rcases List.mem_cons.mp hc with he | he
    · subst he
      cases c with
      | len l => have : l < 16 := h.1; show l < 19; omega
      | rep r => show 16 < 19; decide
      | z3 r => show 17 < 19; decide
      | z7 r => show 18 < 19; decide
    · exact ih _ h.2 c he

theorem header_lens (litLens distLens clens : Array Nat) (h15 : ∀ l ∈ litLens.toList ++ distLens.toList, l ≤ 15) :
    (header litLens distLens clens).lens = litLens ++ distLens := by
  apply Array.ext'
  show (applyAll #[] (rlePack (litLens.toList ++ distLens.toList))).toList = _
  rw [rlePack_expands _ h15]
  simp

/-- THE HEADER THE MODEL OF `start_dynamic_block` WRITES IS A WELL-FORMED HEADER OF THE ENCODER
    SPECIFICATION, whenever the Huffman builder delivered usable codes: 257..286 literal/length and
    1..30 distance code sizes, each at most 15 and valid as a code, with a code for end-of-block; a
    code-length code of 19 sizes below 8, valid, with a code for every symbol the packer used. So the
    block `encDynamic final (header …) toks` is decoded back by the reference decoder
    (`encDynamic_decodes`) — for every such input of the packer. -/
theorem model_header_ok (litLens distLens clens : Array Nat)
    (hl : 257 ≤ litLens.size ∧ litLens.size ≤ 286) (hd : 1 ≤ distLens.size ∧ distLens.size ≤ 30)
    (h15 : ∀ l ∈ litLens.toList ++ distLens.toList, l ≤ 15)
    (hcs : clens.size = 19) (hc8 : ∀ i, clens.getD i 0 < 8)
    (hcv : Spec.codeValid .clen clens = true)
    (hcodes : ∀ c ∈ rlePack (litLens.toList ++ distLens.toList), 1 ≤ clens.getD c.sym 0)
    (hlv : Spec.codeValid .litlen litLens = true) (hdv : Spec.codeValid .dist distLens = true)
    (heob : 1 ≤ litLens.getD 256 0) :
    (header litLens distLens clens).Ok := by
  have hcl := header_clens litLens distLens clens hcs
  have hle := header_lens litLens distLens clens h15
  obtain ⟨hexp, hsok⟩ := rlePack_spec (litLens.toList ++ distLens.toList) h15
  have hnb := numBitLengths_bounds clens
  have hlitL : (header litLens distLens clens).litLens = litLens := by
    show (header litLens distLens clens).lens.extract 0 (litLens.size - 257 + 257) = _
    rw [hle, show litLens.size - 257 + 257 = litLens.size by omega]
    simp
  have hdistL : (header litLens distLens clens).distLens = distLens := by
    show (header litLens distLens clens).lens.extract (litLens.size - 257 + 257) (litLens.size - 257 + 257 + (distLens.size - 1 + 1)) = _
    rw [hle, show litLens.size - 257 + 257 = litLens.size by omega, show distLens.size - 1 + 1 = distLens.size by omega]
    simp
  refine ⟨by show litLens.size - 257 ≤ 29; omega, by show distLens.size - 1 ≤ 29; omega, ?_, ?_, by rw [hcl]; exact hcv, ?_,
    by rw [hlitL]; exact hlv, by rw [hdistL]; exact hdv, by rw [hlitL]; exact ⟨by omega, heob⟩⟩
  · show 4 ≤ ((Spec.clenOrder.take (numBitLengths clens)).map _).length ∧ ((Spec.clenOrder.take (numBitLengths clens)).map _).length ≤ 19
    rw [List.length_map, List.length_take]
    have h19 : Spec.clenOrder.length = 19 := by decide
    rw [h19]; omega
  · intro v hv
    have : v ∈ (Spec.clenOrder.take (numBitLengths clens)).map (fun o => clens.getD o 0) := hv
    obtain ⟨o, _, rfl⟩ := List.mem_map.mp this
    exact hc8 o
  · rw [hcl]
    show CSymsOk clens (litLens.size - 257 + 257 + (distLens.size - 1 + 1)) #[] (rlePack (litLens.toList ++ distLens.toList))
    refine csymsOk_of clens _ _ #[] hsok (fun c hc => ⟨by rw [hcs]; exact SOk_sym_lt _ _ hsok c hc, hcodes c hc⟩) ?_
    have := congrArg List.length hexp
    simp only [Array.length_toList, List.length_append] at this
    omega

end Model.Rle
