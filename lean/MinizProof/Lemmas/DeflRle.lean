/-
The model of `start_dynamic_block`'s run-length coder (`Model/DeflRle`) is correct for EVERY list of
code sizes: the symbols it emits expand — under the reference decoder's reading of 16 / 17 / 18 — to
exactly the list it was given. Invariant over the loop: expansion of what has been emitted, followed
by the pending zeros and the pending repeats of the previous size, is the list processed so far.
Helper lemmas for Props/C10.
-/
import MinizProof.Model.DeflRle
set_option maxRecDepth 100000
namespace Model.Rle
open Model.Core

theorem applyAll_append : ∀ (a b : List CSym) (acc : Array Nat), applyAll acc (a ++ b) = applyAll (applyAll acc a) b := by
  intro a
  induction a with
  | nil => intro b acc; rfl
  | cons c cs ih => intro b acc; exact ih b (c.apply acc)

theorem applyAll_lens : ∀ (n v : Nat) (acc : Array Nat),
    (applyAll acc (List.replicate n (.len v))).toList = acc.toList ++ List.replicate n v := by
  intro n
  induction n with
  | zero => intro v acc; simp [applyAll]
  | succ n ih =>
    intro v acc
    show (applyAll ((CSym.len v).apply acc) (List.replicate n (.len v))).toList = _
    rw [ih]
    simp [CSym.apply, List.replicate_succ]

/-- the symbol is well-formed where it stands: extra-bit value in range, a repeat only after something -/
def CSymS (acc : Array Nat) : CSym → Prop
  | .len l => l < 16
  | .rep r => r < 4 ∧ acc.size ≠ 0
  | .z3 r => r < 8
  | .z7 r => r < 128

def SOk : Array Nat → List CSym → Prop
  | _, [] => True
  | acc, c :: cs => CSymS acc c ∧ SOk (c.apply acc) cs

theorem SOk_append : ∀ (a b : List CSym) (acc : Array Nat), SOk acc a → SOk (applyAll acc a) b → SOk acc (a ++ b) := by
  intro a
  induction a with
  | nil => intro b acc _ h; exact h
  | cons c cs ih => intro b acc h1 h2; exact ⟨h1.1, ih b _ h1.2 h2⟩

theorem SOk_lens : ∀ (n v : Nat) (acc : Array Nat), v < 16 → SOk acc (List.replicate n (.len v)) := by
  intro n
  induction n with
  | zero => intro v acc _; exact trivial
  | succ n ih => intro v acc hv; exact ⟨hv, ih v _ hv⟩

/-- expansion (as a list) of the symbols emitted so far -/
def applied (s : St) : List Nat := (applyAll #[] s.out).toList

theorem applied_out_append (s : St) (cs : List CSym) (z rep prev : Nat) :
    applied { z := z, rep := rep, prev := prev, out := s.out ++ cs } = (applyAll (applyAll #[] s.out) cs).toList := by
  unfold applied
  rw [applyAll_append]

/-- the loop invariant after the list `done` has been processed -/
structure Inv (s : St) (done : List Nat) : Prop where
  exp   : applied s ++ List.replicate s.z 0 ++ List.replicate s.rep s.prev = done
  excl  : s.z ≠ 0 → s.rep = 0
  last  : s.rep ≠ 0 → s.prev ≠ 0 ∧ (applied s).getLast? = some s.prev
  repLe : s.rep ≤ 5
  zLe   : s.z ≤ 137
  prevZ : s.z ≠ 0 → s.prev = 0
  prevL : (done = [] ∧ s.prev = 0xFF) ∨ done.getLast? = some s.prev
  sok   : SOk #[] s.out
  prevB : s.rep ≠ 0 → s.prev ≤ 15

theorem prevFlush_sok (s : St) (h : s.rep ≠ 0 → (applied s).getLast? = some s.prev) (hs : SOk #[] s.out)
    (hb : s.rep ≠ 0 → s.prev ≤ 15) (hr6 : s.rep ≤ 6) : SOk #[] (prevFlush s).out := by
  unfold prevFlush
  by_cases hr : s.rep ≠ 0
  · rw [if_pos hr]
    by_cases h3 : s.rep < 3
    · rw [if_pos h3]
      exact SOk_append _ _ _ hs (SOk_lens _ _ _ (by have := hb hr; omega))
    · rw [if_neg h3]
      refine SOk_append _ _ _ hs ⟨⟨by omega, ?_⟩, trivial⟩
      intro h0
      have hl := h hr
      unfold applied at hl
      have : applyAll #[] s.out = #[] := Array.eq_empty_of_size_eq_zero h0
      rw [this] at hl; simp at hl
  · rw [if_neg hr]; exact hs

theorem zeroFlush_sok (s : St) (hs : SOk #[] s.out) (hz : s.z ≤ 138) : SOk #[] (zeroFlush s).out := by
  unfold zeroFlush
  by_cases hr : s.z ≠ 0
  · rw [if_pos hr]
    by_cases h3 : s.z < 3
    · rw [if_pos h3]; exact SOk_append _ _ _ hs (SOk_lens _ _ _ (by decide))
    · rw [if_neg h3]
      by_cases h10 : s.z ≤ 10
      · rw [if_pos h10]; exact SOk_append _ _ _ hs ⟨by show s.z - 3 < 8; omega, trivial⟩
      · rw [if_neg h10]; exact SOk_append _ _ _ hs ⟨by show s.z - 11 < 128; omega, trivial⟩
  · rw [if_neg hr]; exact hs

theorem prevFlush_applied (s : St) (h : s.rep ≠ 0 → (applied s).getLast? = some s.prev) :
    applied (prevFlush s) = applied s ++ List.replicate s.rep s.prev ∧ (prevFlush s).rep = 0 ∧
    (prevFlush s).z = s.z ∧ (prevFlush s).prev = s.prev := by
  unfold prevFlush
  by_cases hr : s.rep ≠ 0
  · rw [if_pos hr]
    by_cases h3 : s.rep < 3
    · rw [if_pos h3]
      refine ⟨?_, rfl, rfl, rfl⟩
      rw [applied_out_append, applyAll_lens]; rfl
    · rw [if_neg h3]
      refine ⟨?_, rfl, rfl, rfl⟩
      rw [applied_out_append]
      show ((CSym.rep (s.rep - 3)).apply (applyAll #[] s.out)).toList = _
      have hl := h hr
      unfold applied at hl
      simp only [CSym.apply, Array.toList_append, Array.toList_replicate]
      have e : 3 + (s.rep - 3) = s.rep := by omega
      rw [e]
      congr 2
      generalize applyAll #[] s.out = acc at hl
      have hne : acc.size ≠ 0 := by
        intro h0
        have : acc = #[] := Array.eq_empty_of_size_eq_zero h0
        rw [this] at hl; simp at hl
      rw [List.getLast?_eq_getElem?] at hl
      simp only [Array.length_toList, Array.getElem?_toList] at hl
      simp [Array.getD_eq_getD_getElem?, hl]
  · rw [if_neg hr]
    have : s.rep = 0 := by omega
    rw [this]; simp

theorem zeroFlush_applied (s : St) (hz : s.z ≤ 138) :
    applied (zeroFlush s) = applied s ++ List.replicate s.z 0 ∧ (zeroFlush s).z = 0 ∧
    (zeroFlush s).rep = s.rep ∧ (zeroFlush s).prev = s.prev := by
  unfold zeroFlush
  by_cases hr : s.z ≠ 0
  · rw [if_pos hr]
    by_cases h3 : s.z < 3
    · rw [if_pos h3]
      refine ⟨?_, rfl, rfl, rfl⟩
      rw [applied_out_append, applyAll_lens]; rfl
    · rw [if_neg h3]
      by_cases h10 : s.z ≤ 10
      · rw [if_pos h10]
        refine ⟨?_, rfl, rfl, rfl⟩
        rw [applied_out_append]
        show ((CSym.z3 (s.z - 3)).apply (applyAll #[] s.out)).toList = _
        simp only [CSym.apply, Array.toList_append, Array.toList_replicate]
        rw [show 3 + (s.z - 3) = s.z by omega]; rfl
      · rw [if_neg h10]
        refine ⟨?_, rfl, rfl, rfl⟩
        rw [applied_out_append]
        show ((CSym.z7 (s.z - 11)).apply (applyAll #[] s.out)).toList = _
        simp only [CSym.apply, Array.toList_append, Array.toList_replicate]
        rw [show 11 + (s.z - 11) = s.z by omega]; rfl
  · rw [if_neg hr]
    have : s.z = 0 := by omega
    rw [this]; simp

theorem replicate_snoc (n v : Nat) : List.replicate n v ++ [v] = List.replicate (n + 1) v := by
  rw [List.replicate_succ']

theorem getLast?_append_replicate (l : List Nat) (n v : Nat) (hn : n ≠ 0) : (l ++ List.replicate n v).getLast? = some v := by
  obtain ⟨m, rfl⟩ : ∃ m, n = m + 1 := ⟨n - 1, by omega⟩
  rw [List.replicate_succ', ← List.append_assoc, List.getLast?_append]
  simp

/-- ONE STEP OF THE LOOP keeps the invariant. -/
theorem step_inv (s : St) (done : List Nat) (cs : Nat) (hcs : cs ≤ 15) (h : Inv s done) : Inv (step s cs) (done ++ [cs]) := by
  have hrz : s.rep ≠ 0 → s.z = 0 := fun hr => by
    by_cases hz : s.z = 0
    · exact hz
    · exact absurd (h.excl hz) hr
  have hsokP : SOk #[] (prevFlush s).out :=
    prevFlush_sok s (fun hr => (h.last hr).2) h.sok h.prevB (by have := h.repLe; omega)
  have hsokZ : SOk #[] (zeroFlush s).out := zeroFlush_sok s h.sok (by have := h.zLe; omega)
  unfold step
  by_cases h0 : cs = 0
  · -- a zero
    subst h0
    simp only [↓reduceIte]
    obtain ⟨a1, a2, a3, a4⟩ := prevFlush_applied s (fun hr => (h.last hr).2)
    have hexp1 : applied (prevFlush s) ++ List.replicate s.z 0 = done := by
      rw [a1]
      by_cases hr : s.rep = 0
      · have := h.exp; rw [hr] at this ⊢; simpa using this
      · have hz := hrz hr
        have := h.exp; rw [hz] at this ⊢; simpa using this
    by_cases h138 : (prevFlush s).z + 1 = 138
    · rw [if_pos h138]
      obtain ⟨b1, b2, b3, b4⟩ := zeroFlush_applied { prevFlush s with z := (prevFlush s).z + 1 } (by show (prevFlush s).z + 1 ≤ 138; omega)
      have hap : applied { prevFlush s with z := (prevFlush s).z + 1 } = applied (prevFlush s) := rfl
      refine ⟨?_, fun hz => ?_, fun hr => ?_, ?_, ?_, fun hz => rfl, .inr (by simp),
        zeroFlush_sok { prevFlush s with z := (prevFlush s).z + 1 } hsokP (by show (prevFlush s).z + 1 ≤ 138; omega),
        fun hr => absurd (b3.trans a2) hr⟩
      · show applied (zeroFlush _) ++ List.replicate (zeroFlush _).z 0 ++ List.replicate (zeroFlush _).rep 0 = _
        rw [b1, b2, b3, hap]
        show applied (prevFlush s) ++ List.replicate ((prevFlush s).z + 1) 0 ++ List.replicate 0 0 ++ List.replicate (prevFlush s).rep 0 = _
        rw [a2, a3, ← hexp1, ← replicate_snoc]
        simp
      · exact absurd b2 hz
      · exact absurd (b3.trans a2) hr
      · show (zeroFlush _).rep ≤ 5; rw [b3]; show (prevFlush s).rep ≤ 5; omega
      · show (zeroFlush _).z ≤ 137; rw [b2]; omega
    · rw [if_neg h138]
      refine ⟨?_, fun _ => a2, fun hr => absurd a2 hr, by show (prevFlush s).rep ≤ 5; omega,
        by show (prevFlush s).z + 1 ≤ 137; have := h.zLe; omega, fun _ => rfl, .inr (by simp), hsokP, fun hr => absurd a2 hr⟩
      show applied (prevFlush s) ++ List.replicate ((prevFlush s).z + 1) 0 ++ List.replicate (prevFlush s).rep 0 = _
      rw [a2, a3, ← hexp1, ← replicate_snoc]
      simp
  · -- a non-zero size
    rw [if_neg h0]
    obtain ⟨b1, b2, b3, b4⟩ := zeroFlush_applied s (by have := h.zLe; omega)
    have hlast1 : (zeroFlush s).rep ≠ 0 → (applied (zeroFlush s)).getLast? = some (zeroFlush s).prev := by
      intro hr
      rw [b3] at hr
      rw [b1, b4, hrz hr]
      simpa using (h.last hr).2
    by_cases hne : cs ≠ (zeroFlush s).prev
    · rw [if_pos hne]
      obtain ⟨a1, a2, a3, a4⟩ := prevFlush_applied (zeroFlush s) hlast1
      refine ⟨?_, fun hz => absurd (a3.trans b2) hz, fun hr => absurd a2 hr, by show (prevFlush (zeroFlush s)).rep ≤ 5; omega,
        by show (prevFlush (zeroFlush s)).z ≤ 137; omega, fun hz => absurd (a3.trans b2) hz, .inr (by simp),
        SOk_append _ _ _ (prevFlush_sok (zeroFlush s) hlast1 hsokZ (fun hr => by rw [b4]; exact h.prevB (by rw [b3] at hr; exact hr))
          (by rw [b3]; have := h.repLe; omega)) ⟨by show cs < 16; omega, trivial⟩,
        fun hr => absurd a2 hr⟩
      show (applyAll #[] ((prevFlush (zeroFlush s)).out ++ [CSym.len cs])).toList ++ List.replicate (prevFlush (zeroFlush s)).z 0 ++
        List.replicate (prevFlush (zeroFlush s)).rep cs = _
      rw [applyAll_append, a2, a3, b2]
      show ((applyAll #[] (prevFlush (zeroFlush s)).out).push cs).toList ++ [] ++ [] = _
      have : (applyAll #[] (prevFlush (zeroFlush s)).out).toList = applied (prevFlush (zeroFlush s)) := rfl
      simp only [Array.toList_push, this, a1, b1, b3, b4, List.append_nil]
      rw [h.exp]
    · have heq : cs = s.prev := by
        have : cs = (zeroFlush s).prev := by
          by_cases hh : cs = (zeroFlush s).prev
          · exact hh
          · exact absurd hh hne
        rw [this, b4]
      rw [if_neg hne]
      have hz0 : s.z = 0 := by
        by_cases hz : s.z = 0
        · exact hz
        · have := h.prevZ hz; omega
      have hdone : done ≠ [] := by
        rcases h.prevL with ⟨_, hp⟩ | hp
        · omega
        · intro hd; rw [hd] at hp; simp at hp
      have hap0 : applied (zeroFlush s) = applied s := by rw [b1, hz0]; simp
      have hlastS : (applied s).getLast? = some s.prev := by
        by_cases hr : s.rep = 0
        · have := h.exp
          rw [hr, hz0] at this
          simp only [List.replicate_zero, List.append_nil] at this
          rw [this]
          rcases h.prevL with ⟨hd, _⟩ | hp
          · exact absurd hd hdone
          · exact hp
        · exact (h.last hr).2
      have hexpS : applied s ++ List.replicate (s.rep + 1) s.prev = done ++ [cs] := by
        have := h.exp
        rw [hz0] at this
        simp only [List.replicate_zero, List.append_nil] at this
        rw [← this, heq, ← replicate_snoc, List.append_assoc]
      by_cases h6 : (zeroFlush s).rep + 1 = 6
      · rw [if_pos h6]
        obtain ⟨a1, a2, a3, a4⟩ := prevFlush_applied { zeroFlush s with rep := (zeroFlush s).rep + 1 }
          (fun _ => by show (applied (zeroFlush s)).getLast? = some (zeroFlush s).prev; rw [hap0, b4]; exact hlastS)
        have hapx : applied { zeroFlush s with rep := (zeroFlush s).rep + 1 } = applied (zeroFlush s) := rfl
        refine ⟨?_, fun hz => absurd (a3.trans b2) hz, fun hr => absurd a2 hr, by show (prevFlush _).rep ≤ 5; rw [a2]; omega,
          by show (prevFlush _).z ≤ 137; rw [a3]; show (zeroFlush s).z ≤ 137; omega,
          fun hz => absurd (a3.trans b2) hz, .inr (by simp),
          prevFlush_sok { zeroFlush s with rep := (zeroFlush s).rep + 1 }
            (fun _ => by show (applied (zeroFlush s)).getLast? = some (zeroFlush s).prev; rw [hap0, b4]; exact hlastS)
            hsokZ (fun _ => by show (zeroFlush s).prev ≤ 15; rw [b4, ← heq]; exact hcs) (by show (zeroFlush s).rep + 1 ≤ 6; omega),
          fun hr => absurd a2 hr⟩
        show applied (prevFlush _) ++ List.replicate (prevFlush _).z 0 ++ List.replicate (prevFlush _).rep cs = _
        rw [a1, a2, a3, hapx, hap0]
        show applied s ++ List.replicate ((zeroFlush s).rep + 1) (zeroFlush s).prev ++ List.replicate (zeroFlush s).z 0 ++ [] = _
        rw [b2, b3, b4]
        simp only [List.replicate_zero, List.append_nil]
        exact hexpS
      · rw [if_neg h6]
        refine ⟨?_, fun hz => absurd b2 hz, fun _ => ⟨h0, ?_⟩, by show (zeroFlush s).rep + 1 ≤ 5; have := h.repLe; omega,
          by show (zeroFlush s).z ≤ 137; omega, fun hz => absurd b2 hz, .inr (by simp), hsokZ, fun _ => hcs⟩
        · show applied (zeroFlush s) ++ List.replicate (zeroFlush s).z 0 ++ List.replicate ((zeroFlush s).rep + 1) cs = _
          rw [hap0, b2, b3, heq]
          simp only [List.replicate_zero, List.append_nil]
          rw [← heq]; rw [heq]; exact (heq ▸ hexpS)
        · show (applied (zeroFlush s)).getLast? = some cs
          rw [hap0, heq]; exact hlastS

/-- THE RUN-LENGTH CODER OF `start_dynamic_block` IS CORRECT: for every list of code sizes (each at most
    15) the symbols the model emits expand to exactly that list. -/
theorem rlePack_spec (lens : List Nat) (h15 : ∀ l ∈ lens, l ≤ 15) :
    (applyAll #[] (rlePack lens)).toList = lens ∧ SOk #[] (rlePack lens) := by
  have hinv : ∀ (ls : List Nat) (s : St) (done : List Nat), (∀ l ∈ ls, l ≤ 15) → Inv s done →
      Inv (ls.foldl step s) (done ++ ls) := by
    intro ls
    induction ls with
    | nil => intro s done _ h; simpa using h
    | cons l ls ih =>
      intro s done hl h
      have := ih (step s l) (done ++ [l]) (fun x hx => hl x (by simp [hx])) (step_inv s done l (hl l (by simp)) h)
      simpa using this
  have h0 : Inv {} [] := ⟨rfl, fun h => absurd rfl h, fun h => absurd rfl h, by decide, by decide, fun h => absurd rfl h, .inl ⟨rfl, rfl⟩, trivial, fun h => absurd rfl h⟩
  have hI := hinv lens {} [] h15 h0
  simp only [List.nil_append] at hI
  unfold rlePack finish
  generalize lens.foldl step {} = s at hI
  by_cases hr : s.rep ≠ 0
  · rw [if_pos hr]
    obtain ⟨a1, _⟩ := prevFlush_applied s (fun hr => (hI.last hr).2)
    have hz : s.z = 0 := by
      by_cases hz : s.z = 0
      · exact hz
      · exact absurd (hI.excl hz) hr
    refine ⟨?_, prevFlush_sok s (fun hr => (hI.last hr).2) hI.sok hI.prevB (by have := hI.repLe; omega)⟩
    show applied (prevFlush s) = lens
    rw [a1]
    have := hI.exp
    rw [hz] at this
    simpa using this
  · rw [if_neg hr]
    obtain ⟨b1, _⟩ := zeroFlush_applied s (by have := hI.zLe; omega)
    refine ⟨?_, zeroFlush_sok s hI.sok (by have := hI.zLe; omega)⟩
    show applied (zeroFlush s) = lens
    rw [b1]
    have := hI.exp
    have hr0 : s.rep = 0 := by omega
    rw [hr0] at this
    simpa using this

theorem rlePack_expands (lens : List Nat) (h15 : ∀ l ∈ lens, l ≤ 15) :
    (applyAll #[] (rlePack lens)).toList = lens := (rlePack_spec lens h15).1

/-- every symbol appends at least one code size -/
theorem apply_size_lt (acc : Array Nat) (c : CSym) : acc.size < (c.apply acc).size := by
  cases c <;> simp [CSym.apply] <;> omega

theorem applyAll_size_le : ∀ (cs : List CSym) (acc : Array Nat), acc.size ≤ (applyAll acc cs).size := by
  intro cs
  induction cs with
  | nil => intro acc; exact Nat.le_refl _
  | cons c cs ih => intro acc; exact Nat.le_trans (Nat.le_of_lt (apply_size_lt acc c)) (ih _)

/-- structural well-formedness + a code for every symbol used + the right total = what the reference
    decoder's `readLens` needs -/
theorem csymsOk_of (clens : Array Nat) (total : Nat) : ∀ (cs : List CSym) (acc : Array Nat), SOk acc cs →
    (∀ c ∈ cs, c.sym < clens.size ∧ 1 ≤ clens.getD c.sym 0) → (applyAll acc cs).size = total →
    CSymsOk clens total acc cs := by
  intro cs
  induction cs with
  | nil => intro acc _ _ h; exact h
  | cons c cs ih =>
    intro acc hs hc ht
    have hlt : acc.size < total := by
      have h1 := apply_size_lt acc c
      have h2 := applyAll_size_le cs (c.apply acc)
      have : applyAll acc (c :: cs) = applyAll (c.apply acc) cs := rfl
      rw [this] at ht
      omega
    refine ⟨hlt, ?_, ih _ hs.2 (fun x hx => hc x (by simp [hx])) ht⟩
    have hcc := hc c (by simp)
    cases c with
    | len l => exact ⟨hs.1, hcc.1, hcc.2⟩
    | rep r => exact ⟨hs.1.1, hs.1.2, hcc.1, hcc.2⟩
    | z3 r => exact ⟨hs.1, hcc.1, hcc.2⟩
    | z7 r => exact ⟨hs.1, hcc.1, hcc.2⟩

/-- THE PACKED CODE SIZES ARE READ BACK: for every list of code sizes (each ≤ 15) and every usable
    code-length code that has a code for each symbol the packer used, the reference decoder's
    `readLens` on the bits of the packed symbols returns exactly the list, at exactly the end of
    those bits. -/
theorem packed_lens_round_trip (lens : List Nat) (h15 : ∀ l ∈ lens, l ≤ 15) (clens : Array Nat) (hc : CodeOk clens)
    (hcodes : ∀ c ∈ rlePack lens, c.sym < clens.size ∧ 1 ≤ clens.getD c.sym 0)
    (data : Array UInt8) (fuel pos : Nat) (hf : (rlePack lens).length < fuel)
    (h : HasBits data pos (encCSyms clens (rlePack lens))) :
    Spec.readLens (Spec.mkCode clens) data lens.length fuel pos #[] =
      .accept (pos + (encCSyms clens (rlePack lens)).length, lens.toArray) := by
  obtain ⟨hexp, hsok⟩ := rlePack_spec lens h15
  have hsz : (applyAll #[] (rlePack lens)).size = lens.length := by
    have := congrArg List.length hexp
    simpa using this
  have hok := csymsOk_of clens lens.length (rlePack lens) #[] hsok hcodes hsz
  rw [readLens_enc clens hc data lens.length (rlePack lens) fuel pos #[] hf hok h]
  congr 2
  apply Array.ext'
  rw [hexp]

end Model.Rle
