/-
Frame and status invariants of the decoder model, state by state (helper lemmas for Props/C08, C05):
every transition keeps the cursors inside the offered input and the granted output window, writes
only between the old and the new output position, and a final status is truthful about why the
automaton stopped.
-/
import MinizProof.Lemmas.CoreBasic
set_option linter.unusedVariables false
namespace Model.Core
open Spec

/-- Cursor geometry of a call: input cursor inside the input, output cursor inside the granted
    window, window inside the buffer. -/
structure Geo (e : Env) (c : Ctx) (out : Array UInt8) : Prop where
  inLe  : c.inPos ≤ e.inp.size
  outLe : c.outPos ≤ e.outEnd
  endLe : e.outEnd ≤ out.size

/-- One transition from `(c, out)` to `(c', out')`: geometry kept, output cursor monotone, bytes
    outside `[c.outPos, c'.outPos)` untouched. -/
structure Adv (e : Env) (c : Ctx) (out : Array UInt8) (c' : Ctx) (out' : Array UInt8) : Prop where
  geo   : Geo e c' out'
  mono  : c.outPos ≤ c'.outPos
  frame : SameOutside out' out c.outPos c'.outPos

/-- Why the automaton may stop. -/
def FinOK (e : Env) (st : Int) (c' : Ctx) : Prop :=
  (st = stHasMoreOutput ∧ c'.outPos = e.outEnd) ∨
  (st = e.eoi ∧ c'.inPos = e.inp.size) ∨
  (st = stDone ∧ c'.r.state = sDoneForever) ∨
  (st = stFailed ∧ sDoneForever < c'.r.state) ∨
  (st = stBlockBoundary ∧ hasFlag e.flags fStopOnBlockBoundary = true)

def StepOK (e : Env) (c : Ctx) (out : Array UInt8) : Step → Prop
  | .cont c' out' => Adv e c out c' out'
  | .fin st c' out' => Adv e c out c' out' ∧ FinOK e st c'

theorem Adv.of_pos {e : Env} {c c' : Ctx} {out : Array UInt8} (g : Geo e c out)
    (hi : c'.inPos ≤ e.inp.size) (ho : c'.outPos = c.outPos) : Adv e c out c' out :=
  ⟨⟨hi, by rw [ho]; exact g.outLe, g.endLe⟩, by rw [ho]; exact Nat.le_refl _, SameOutside.refl _ _ _⟩

theorem Adv.of_read {e : Env} {c c1 c' : Ctx} {out : Array UInt8} (g : Geo e c out)
    (h : ReadOK e.inp c c1) (hi : c'.inPos = c1.inPos) (ho : c'.outPos = c1.outPos) : Adv e c out c' out :=
  Adv.of_pos g (by rw [hi]; exact h.inHi) (by rw [ho]; exact h.outPos)

theorem Adv.of_write {e : Env} {c c' : Ctx} {out out' : Array UInt8} (n : Nat) (g : Geo e c out)
    (hi : c'.inPos ≤ e.inp.size) (ho : c'.outPos = c.outPos + n) (hn : c.outPos + n ≤ e.outEnd)
    (hf : SameOutside out' out c.outPos (c.outPos + n)) : Adv e c out c' out' :=
  ⟨⟨hi, by rw [ho]; exact hn, by rw [hf.1]; exact g.endLe⟩, by rw [ho]; omega, by rw [ho]; exact hf⟩

@[simp] theorem setState_inPos (c : Ctx) (s : Nat) : (setState c s).inPos = c.inPos := rfl
@[simp] theorem setState_outPos (c : Ctx) (s : Nat) : (setState c s).outPos = c.outPos := rfl
@[simp] theorem setState_state (c : Ctx) (s : Nat) : (setState c s).r.state = s := rfl

@[simp] theorem initTree_inPos (c : Ctx) (a b : Array Nat) : (initTree c a b).inPos = c.inPos := by
  unfold initTree; (repeat' split) <;> rfl
@[simp] theorem initTree_outPos (c : Ctx) (a b : Array Nat) : (initTree c a b).outPos = c.outPos := by
  unfold initTree; (repeat' split) <;> rfl

theorem eoi_ok {e : Env} {c' : Ctx} (h : c'.inPos = e.inp.size) : FinOK e e.eoi c' := Or.inr (Or.inl ⟨rfl, h⟩)

/-- Shape shared by every state that starts with `readBits`: the starved exit is truthful, the
    continuation keeps the geometry. -/
theorem readBits_step {e : Env} {c : Ctx} {out : Array UInt8} (g : Geo e c out) (amount : Nat)
    (k : Ctx → Nat → Step)
    (hk : ∀ c1 v, ReadOK e.inp c c1 → StepOK e c out (k c1 v)) :
    StepOK e c out (match readBits e.inp amount c with
      | (c1, none) => .fin e.eoi c1 out
      | (c1, some v) => k c1 v) := by
  have := readBits_spec e.inp amount c g.inLe
  obtain ⟨h1, h2, _⟩ := this
  generalize readBits e.inp amount c = p at *
  obtain ⟨c1, o⟩ := p
  cases o with
  | none => exact ⟨Adv.of_read g h1 rfl rfl, eoi_ok (h2 rfl).1⟩
  | some v => exact hk c1 v h1

theorem decodeHuff_step {e : Env} {c : Ctx} {out : Array UInt8} (g : Geo e c out) (code : Code)
    (k : Ctx → Nat → Step)
    (hk : ∀ c1 v, ReadOK e.inp c c1 → StepOK e c out (k c1 v)) :
    StepOK e c out (match decodeHuff e.inp code c with
      | (c1, none) => .fin e.eoi c1 out
      | (c1, some v) => k c1 v) := by
  have := decodeHuff_spec e.inp code c g.inLe
  obtain ⟨h1, h2, _⟩ := this
  generalize decodeHuff e.inp code c = p at *
  obtain ⟨c1, o⟩ := p
  cases o with
  | none => exact ⟨Adv.of_read g h1 rfl rfl, eoi_ok (h2 rfl).1⟩
  | some v => exact hk c1 v h1

theorem readByte_step {e : Env} {c : Ctx} {out : Array UInt8} (g : Geo e c out)
    (k : UInt8 → Step)
    (hk : ∀ b, c.inPos < e.inp.size → StepOK e c out (k b)) :
    StepOK e c out (match e.inp[c.inPos]? with
      | none => .fin e.eoi c out
      | some b => k b) := by
  cases hb : e.inp[c.inPos]? with
  | none => exact ⟨Adv.of_pos g g.inLe rfl, eoi_ok (getElem?_none_size hb g.inLe)⟩
  | some b =>
    have : c.inPos < e.inp.size := by
      by_cases hlt : c.inPos < e.inp.size
      · exact hlt
      · simp [Array.getElem?_eq_none (Nat.le_of_not_lt hlt)] at hb
    exact hk b this

variable {e : Env} {c : Ctx} {out : Array UInt8}

theorem stStart_ok (g : Geo e c out) : StepOK e c out (stStart e c out) :=
  Adv.of_pos g g.inLe rfl

theorem stReadZlibCmf_ok (g : Geo e c out) : StepOK e c out (stReadZlibCmf e c out) :=
  readByte_step g _ fun _ h => Adv.of_pos g (by simp; omega) rfl

theorem stReadZlibFlg_ok (g : Geo e c out) : StepOK e c out (stReadZlibFlg e c out) :=
  readByte_step g _ fun _ h => Adv.of_pos g (by simp; omega) rfl

theorem stReadBlockHeader_ok (g : Geo e c out) : StepOK e c out (stReadBlockHeader e c out) :=
  readBits_step g 3 _ fun c1 v h => by
    dsimp only
    split
    · exact Adv.of_read g h rfl rfl
    · split
      · exact Adv.of_read g h (by simp) (by simp)
      · split
        · exact Adv.of_read g h rfl rfl
        · exact Adv.of_read g h rfl rfl

theorem stBlockTypeNoCompression_ok (g : Geo e c out) : StepOK e c out (stBlockTypeNoCompression e c out) :=
  readBits_step g _ _ fun c1 v h => Adv.of_read g h rfl rfl

theorem stRawHeader_ok (g : Geo e c out) : StepOK e c out (stRawHeader e c out) := by
  unfold stRawHeader
  dsimp only
  split
  · split
    · exact readBits_step g 8 _ fun c1 v h => Adv.of_read g h rfl rfl
    · exact readByte_step g _ fun _ h => Adv.of_pos g (by simp; omega) rfl
  · repeat' split
    all_goals exact Adv.of_pos g g.inLe rfl

theorem stRawReadFirstByte_ok (g : Geo e c out) : StepOK e c out (stRawReadFirstByte e c out) :=
  readBits_step g 8 _ fun c1 v h => Adv.of_read g h rfl rfl

theorem hmo_ok {c' : Ctx} (h : c'.outPos = e.outEnd) : FinOK e stHasMoreOutput c' := Or.inl ⟨rfl, h⟩

theorem stRawStoreFirstByte_ok (g : Geo e c out) : StepOK e c out (stRawStoreFirstByte e c out) := by
  unfold stRawStoreFirstByte wrBytesLeft
  split
  · exact ⟨Adv.of_pos g g.inLe rfl, hmo_ok (by have := g.outLe; omega)⟩
  · dsimp only
    have hw : c.outPos + 1 ≤ e.outEnd := by have := g.outLe; omega
    split
    · exact Adv.of_write 1 g g.inLe rfl hw (sameOutside_set _ _ _)
    · exact Adv.of_write 1 g g.inLe rfl hw (sameOutside_set _ _ _)

theorem stRawMemcpy1_ok (g : Geo e c out) : StepOK e c out (stRawMemcpy1 e c out) := by
  unfold stRawMemcpy1 wrBytesLeft
  split
  · exact Adv.of_pos g g.inLe rfl
  · split
    · exact ⟨Adv.of_pos g g.inLe rfl, hmo_ok (by have := g.outLe; omega)⟩
    · exact Adv.of_pos g g.inLe rfl

theorem stRawMemcpy2_ok (g : Geo e c out) : StepOK e c out (stRawMemcpy2 e c out) := by
  unfold stRawMemcpy2 wrBytesLeft
  split
  · have := g.outLe
    exact Adv.of_write _ g (by simp; omega) rfl (by omega) (copyIn_sameOutside _ _ _ _ _)
  · exact ⟨Adv.of_pos g g.inLe rfl, eoi_ok (by have := g.inLe; omega)⟩

theorem stReadTableSizes_ok (g : Geo e c out) : StepOK e c out (stReadTableSizes e c out) := by
  unfold stReadTableSizes
  dsimp only
  split
  · exact readBits_step g _ _ fun c1 v h => Adv.of_read g h rfl rfl
  · split <;> exact Adv.of_pos g g.inLe rfl

theorem stReadHufflenTableCodeSize_ok (g : Geo e c out) : StepOK e c out (stReadHufflenTableCodeSize e c out) := by
  unfold stReadHufflenTableCodeSize
  dsimp only
  split
  · exact readBits_step g _ _ fun c1 v h => Adv.of_read g h rfl rfl
  · exact Adv.of_pos g (by simp; exact g.inLe) (by simp)

theorem stReadLitlenDistTablesCodeSize_ok (g : Geo e c out) :
    StepOK e c out (stReadLitlenDistTablesCodeSize e c out) := by
  unfold stReadLitlenDistTablesCodeSize
  dsimp only
  split
  · exact decodeHuff_step g _ _ fun c1 v h => by
      repeat' split
      all_goals exact Adv.of_read g h rfl rfl
  · split
    · exact Adv.of_pos g g.inLe rfl
    · exact Adv.of_pos g (by simp; exact g.inLe) (by simp)

theorem stReadExtraBitsCodeSize_ok (g : Geo e c out) : StepOK e c out (stReadExtraBitsCodeSize e c out) :=
  readBits_step g _ _ fun c1 v h => Adv.of_read g h rfl rfl

theorem stDecodeLitlen_ok (g : Geo e c out) : StepOK e c out (stDecodeLitlen e c out) :=
  decodeHuff_step g _ _ fun c1 v h => Adv.of_read g h rfl rfl

theorem stWriteSymbol_ok (g : Geo e c out) : StepOK e c out (stWriteSymbol e c out) := by
  unfold stWriteSymbol wrBytesLeft
  split
  · exact Adv.of_pos g g.inLe rfl
  · split
    · exact Adv.of_write 1 g g.inLe rfl (by omega) (sameOutside_set _ _ _)
    · exact ⟨Adv.of_pos g g.inLe rfl, hmo_ok (by have := g.outLe; omega)⟩

theorem stHuffDecodeOuterLoop1_ok (g : Geo e c out) : StepOK e c out (stHuffDecodeOuterLoop1 e c out) := by
  unfold stHuffDecodeOuterLoop1
  dsimp only
  repeat' split
  all_goals exact Adv.of_pos g g.inLe rfl

theorem stReadExtraBitsLitlen_ok (g : Geo e c out) : StepOK e c out (stReadExtraBitsLitlen e c out) :=
  readBits_step g _ _ fun c1 v h => Adv.of_read g h rfl rfl

theorem stDecodeDistance_ok (g : Geo e c out) : StepOK e c out (stDecodeDistance e c out) :=
  decodeHuff_step g _ _ fun c1 v h => by
    dsimp only
    split
    · exact Adv.of_read g h rfl rfl
    · exact Adv.of_read g h rfl rfl

theorem stReadExtraBitsDistance_ok (g : Geo e c out) : StepOK e c out (stReadExtraBitsDistance e c out) :=
  readBits_step g _ _ fun c1 v h => Adv.of_read g h rfl rfl

theorem stMatch_ok (g : Geo e c out) : StepOK e c out (stMatch e c out) := by
  unfold stMatch wrBytesLeft
  dsimp only
  split
  · exact Adv.of_pos g g.inLe rfl
  · split
    · exact Adv.of_pos g g.inLe rfl
    · split
      · exact ⟨Adv.of_pos g g.inLe rfl, hmo_ok (by have := g.outLe; simp; omega)⟩
      · have := g.outLe
        split
        · exact Adv.of_write _ g g.inLe rfl (by omega) (copyBytes_sameOutside _ _ _ _ _ _)
        · exact Adv.of_write _ g g.inLe rfl (by omega) (copyBytes_sameOutside _ _ _ _ _ _)

theorem stBlockDone_ok (g : Geo e c out) : StepOK e c out (stBlockDone e c out) := by
  unfold stBlockDone
  dsimp only
  have := g.inLe
  split
  · split
    · exact Adv.of_pos g (by simp; omega) rfl
    · exact Adv.of_pos g (by simp; omega) rfl
  · split
    · rename_i hstop
      exact ⟨Adv.of_pos g g.inLe rfl, Or.inr (Or.inr (Or.inr (Or.inr ⟨rfl, hstop⟩)))⟩
    · exact Adv.of_pos g g.inLe rfl

theorem stReadAdler32_ok (g : Geo e c out) : StepOK e c out (stReadAdler32 e c out) := by
  unfold stReadAdler32
  dsimp only
  split
  · split
    · exact readBits_step g 8 _ fun c1 v h => Adv.of_read g h rfl rfl
    · exact readByte_step g _ fun _ h => Adv.of_pos g (by simp; omega) rfl
  · exact Adv.of_pos g g.inLe rfl

theorem step_ok (g : Geo e c out) : StepOK e c out (step e c out) := by
  unfold step stepAt
  by_cases h0 : c.r.state = sStart
  · rw [if_pos h0]; exact stStart_ok g
  rw [if_neg h0]
  by_cases h1 : c.r.state = sReadZlibCmf
  · rw [if_pos h1]; exact stReadZlibCmf_ok g
  rw [if_neg h1]
  by_cases h2 : c.r.state = sReadZlibFlg
  · rw [if_pos h2]; exact stReadZlibFlg_ok g
  rw [if_neg h2]
  by_cases h3 : c.r.state = sReadBlockHeader
  · rw [if_pos h3]; exact stReadBlockHeader_ok g
  rw [if_neg h3]
  by_cases h4 : c.r.state = sBlockTypeNoCompression
  · rw [if_pos h4]; exact stBlockTypeNoCompression_ok g
  rw [if_neg h4]
  by_cases h5 : c.r.state = sRawHeader
  · rw [if_pos h5]; exact stRawHeader_ok g
  rw [if_neg h5]
  by_cases h6 : c.r.state = sRawReadFirstByte
  · rw [if_pos h6]; exact stRawReadFirstByte_ok g
  rw [if_neg h6]
  by_cases h7 : c.r.state = sRawStoreFirstByte
  · rw [if_pos h7]; exact stRawStoreFirstByte_ok g
  rw [if_neg h7]
  by_cases h8 : c.r.state = sRawMemcpy1
  · rw [if_pos h8]; exact stRawMemcpy1_ok g
  rw [if_neg h8]
  by_cases h9 : c.r.state = sRawMemcpy2
  · rw [if_pos h9]; exact stRawMemcpy2_ok g
  rw [if_neg h9]
  by_cases h10 : c.r.state = sReadTableSizes
  · rw [if_pos h10]; exact stReadTableSizes_ok g
  rw [if_neg h10]
  by_cases h11 : c.r.state = sReadHufflenTableCodeSize
  · rw [if_pos h11]; exact stReadHufflenTableCodeSize_ok g
  rw [if_neg h11]
  by_cases h12 : c.r.state = sReadLitlenDistTablesCodeSize
  · rw [if_pos h12]; exact stReadLitlenDistTablesCodeSize_ok g
  rw [if_neg h12]
  by_cases h13 : c.r.state = sReadExtraBitsCodeSize
  · rw [if_pos h13]; exact stReadExtraBitsCodeSize_ok g
  rw [if_neg h13]
  by_cases h14 : c.r.state = sDecodeLitlen
  · rw [if_pos h14]; exact stDecodeLitlen_ok g
  rw [if_neg h14]
  by_cases h15 : c.r.state = sWriteSymbol
  · rw [if_pos h15]; exact stWriteSymbol_ok g
  rw [if_neg h15]
  by_cases h16 : c.r.state = sHuffDecodeOuterLoop1
  · rw [if_pos h16]; exact stHuffDecodeOuterLoop1_ok g
  rw [if_neg h16]
  by_cases h17 : c.r.state = sReadExtraBitsLitlen
  · rw [if_pos h17]; exact stReadExtraBitsLitlen_ok g
  rw [if_neg h17]
  by_cases h18 : c.r.state = sDecodeDistance
  · rw [if_pos h18]; exact stDecodeDistance_ok g
  rw [if_neg h18]
  by_cases h19 : c.r.state = sReadExtraBitsDistance
  · rw [if_pos h19]; exact stReadExtraBitsDistance_ok g
  rw [if_neg h19]
  by_cases h20 : c.r.state = sHuffDecodeOuterLoop2 ∨ c.r.state = sWriteLenBytesToEnd
  · rw [if_pos h20]; exact stMatch_ok g
  rw [if_neg h20]
  by_cases h21 : c.r.state = sBlockDone
  · rw [if_pos h21]; exact stBlockDone_ok g
  rw [if_neg h21]
  by_cases h22 : c.r.state = sReadAdler32
  · rw [if_pos h22]; exact stReadAdler32_ok g
  rw [if_neg h22]
  by_cases h23 : c.r.state = sDoneForever
  · rw [if_pos h23]; exact ⟨Adv.of_pos g g.inLe rfl, Or.inr (Or.inr (Or.inl ⟨rfl, h23⟩))⟩
  rw [if_neg h23]
  refine ⟨Adv.of_pos g g.inLe rfl, Or.inr (Or.inr (Or.inr (Or.inl ⟨rfl, ?_⟩)))⟩
  simp only [sStart, sReadZlibCmf, sReadZlibFlg, sReadBlockHeader, sBlockTypeNoCompression, sRawHeader,
    sRawMemcpy1, sRawMemcpy2, sReadTableSizes, sReadHufflenTableCodeSize, sReadLitlenDistTablesCodeSize,
    sReadExtraBitsCodeSize, sDecodeLitlen, sWriteSymbol, sReadExtraBitsLitlen, sDecodeDistance,
    sReadExtraBitsDistance, sRawReadFirstByte, sRawStoreFirstByte, sWriteLenBytesToEnd, sBlockDone,
    sHuffDecodeOuterLoop1, sHuffDecodeOuterLoop2, sReadAdler32, sDoneForever] at *
  omega

set_option linter.unusedSimpArgs false in
/-- Every state after `DoneForever` is a failure state: the automaton stops at once with `Failed`. -/
theorem stepAt_failed (s : Nat) (hs : sDoneForever < s) (e : Env) (c : Ctx) (o : Array UInt8) :
    stepAt s e c o = .fin stFailed c o := by
  unfold stepAt
  rw [if_neg (show ¬ (s = sStart) by intro h; simp only [sStart, sReadZlibCmf, sReadZlibFlg, sReadBlockHeader, sBlockTypeNoCompression, sRawHeader, sRawMemcpy1, sRawMemcpy2, sReadTableSizes, sReadHufflenTableCodeSize, sReadLitlenDistTablesCodeSize, sReadExtraBitsCodeSize, sDecodeLitlen, sWriteSymbol, sReadExtraBitsLitlen, sDecodeDistance, sReadExtraBitsDistance, sRawReadFirstByte, sRawStoreFirstByte, sWriteLenBytesToEnd, sBlockDone, sHuffDecodeOuterLoop1, sHuffDecodeOuterLoop2, sReadAdler32, sDoneForever] at *; omega)]
  rw [if_neg (show ¬ (s = sReadZlibCmf) by intro h; simp only [sStart, sReadZlibCmf, sReadZlibFlg, sReadBlockHeader, sBlockTypeNoCompression, sRawHeader, sRawMemcpy1, sRawMemcpy2, sReadTableSizes, sReadHufflenTableCodeSize, sReadLitlenDistTablesCodeSize, sReadExtraBitsCodeSize, sDecodeLitlen, sWriteSymbol, sReadExtraBitsLitlen, sDecodeDistance, sReadExtraBitsDistance, sRawReadFirstByte, sRawStoreFirstByte, sWriteLenBytesToEnd, sBlockDone, sHuffDecodeOuterLoop1, sHuffDecodeOuterLoop2, sReadAdler32, sDoneForever] at *; omega)]
  rw [if_neg (show ¬ (s = sReadZlibFlg) by intro h; simp only [sStart, sReadZlibCmf, sReadZlibFlg, sReadBlockHeader, sBlockTypeNoCompression, sRawHeader, sRawMemcpy1, sRawMemcpy2, sReadTableSizes, sReadHufflenTableCodeSize, sReadLitlenDistTablesCodeSize, sReadExtraBitsCodeSize, sDecodeLitlen, sWriteSymbol, sReadExtraBitsLitlen, sDecodeDistance, sReadExtraBitsDistance, sRawReadFirstByte, sRawStoreFirstByte, sWriteLenBytesToEnd, sBlockDone, sHuffDecodeOuterLoop1, sHuffDecodeOuterLoop2, sReadAdler32, sDoneForever] at *; omega)]
  rw [if_neg (show ¬ (s = sReadBlockHeader) by intro h; simp only [sStart, sReadZlibCmf, sReadZlibFlg, sReadBlockHeader, sBlockTypeNoCompression, sRawHeader, sRawMemcpy1, sRawMemcpy2, sReadTableSizes, sReadHufflenTableCodeSize, sReadLitlenDistTablesCodeSize, sReadExtraBitsCodeSize, sDecodeLitlen, sWriteSymbol, sReadExtraBitsLitlen, sDecodeDistance, sReadExtraBitsDistance, sRawReadFirstByte, sRawStoreFirstByte, sWriteLenBytesToEnd, sBlockDone, sHuffDecodeOuterLoop1, sHuffDecodeOuterLoop2, sReadAdler32, sDoneForever] at *; omega)]
  rw [if_neg (show ¬ (s = sBlockTypeNoCompression) by intro h; simp only [sStart, sReadZlibCmf, sReadZlibFlg, sReadBlockHeader, sBlockTypeNoCompression, sRawHeader, sRawMemcpy1, sRawMemcpy2, sReadTableSizes, sReadHufflenTableCodeSize, sReadLitlenDistTablesCodeSize, sReadExtraBitsCodeSize, sDecodeLitlen, sWriteSymbol, sReadExtraBitsLitlen, sDecodeDistance, sReadExtraBitsDistance, sRawReadFirstByte, sRawStoreFirstByte, sWriteLenBytesToEnd, sBlockDone, sHuffDecodeOuterLoop1, sHuffDecodeOuterLoop2, sReadAdler32, sDoneForever] at *; omega)]
  rw [if_neg (show ¬ (s = sRawHeader) by intro h; simp only [sStart, sReadZlibCmf, sReadZlibFlg, sReadBlockHeader, sBlockTypeNoCompression, sRawHeader, sRawMemcpy1, sRawMemcpy2, sReadTableSizes, sReadHufflenTableCodeSize, sReadLitlenDistTablesCodeSize, sReadExtraBitsCodeSize, sDecodeLitlen, sWriteSymbol, sReadExtraBitsLitlen, sDecodeDistance, sReadExtraBitsDistance, sRawReadFirstByte, sRawStoreFirstByte, sWriteLenBytesToEnd, sBlockDone, sHuffDecodeOuterLoop1, sHuffDecodeOuterLoop2, sReadAdler32, sDoneForever] at *; omega)]
  rw [if_neg (show ¬ (s = sRawReadFirstByte) by intro h; simp only [sStart, sReadZlibCmf, sReadZlibFlg, sReadBlockHeader, sBlockTypeNoCompression, sRawHeader, sRawMemcpy1, sRawMemcpy2, sReadTableSizes, sReadHufflenTableCodeSize, sReadLitlenDistTablesCodeSize, sReadExtraBitsCodeSize, sDecodeLitlen, sWriteSymbol, sReadExtraBitsLitlen, sDecodeDistance, sReadExtraBitsDistance, sRawReadFirstByte, sRawStoreFirstByte, sWriteLenBytesToEnd, sBlockDone, sHuffDecodeOuterLoop1, sHuffDecodeOuterLoop2, sReadAdler32, sDoneForever] at *; omega)]
  rw [if_neg (show ¬ (s = sRawStoreFirstByte) by intro h; simp only [sStart, sReadZlibCmf, sReadZlibFlg, sReadBlockHeader, sBlockTypeNoCompression, sRawHeader, sRawMemcpy1, sRawMemcpy2, sReadTableSizes, sReadHufflenTableCodeSize, sReadLitlenDistTablesCodeSize, sReadExtraBitsCodeSize, sDecodeLitlen, sWriteSymbol, sReadExtraBitsLitlen, sDecodeDistance, sReadExtraBitsDistance, sRawReadFirstByte, sRawStoreFirstByte, sWriteLenBytesToEnd, sBlockDone, sHuffDecodeOuterLoop1, sHuffDecodeOuterLoop2, sReadAdler32, sDoneForever] at *; omega)]
  rw [if_neg (show ¬ (s = sRawMemcpy1) by intro h; simp only [sStart, sReadZlibCmf, sReadZlibFlg, sReadBlockHeader, sBlockTypeNoCompression, sRawHeader, sRawMemcpy1, sRawMemcpy2, sReadTableSizes, sReadHufflenTableCodeSize, sReadLitlenDistTablesCodeSize, sReadExtraBitsCodeSize, sDecodeLitlen, sWriteSymbol, sReadExtraBitsLitlen, sDecodeDistance, sReadExtraBitsDistance, sRawReadFirstByte, sRawStoreFirstByte, sWriteLenBytesToEnd, sBlockDone, sHuffDecodeOuterLoop1, sHuffDecodeOuterLoop2, sReadAdler32, sDoneForever] at *; omega)]
  rw [if_neg (show ¬ (s = sRawMemcpy2) by intro h; simp only [sStart, sReadZlibCmf, sReadZlibFlg, sReadBlockHeader, sBlockTypeNoCompression, sRawHeader, sRawMemcpy1, sRawMemcpy2, sReadTableSizes, sReadHufflenTableCodeSize, sReadLitlenDistTablesCodeSize, sReadExtraBitsCodeSize, sDecodeLitlen, sWriteSymbol, sReadExtraBitsLitlen, sDecodeDistance, sReadExtraBitsDistance, sRawReadFirstByte, sRawStoreFirstByte, sWriteLenBytesToEnd, sBlockDone, sHuffDecodeOuterLoop1, sHuffDecodeOuterLoop2, sReadAdler32, sDoneForever] at *; omega)]
  rw [if_neg (show ¬ (s = sReadTableSizes) by intro h; simp only [sStart, sReadZlibCmf, sReadZlibFlg, sReadBlockHeader, sBlockTypeNoCompression, sRawHeader, sRawMemcpy1, sRawMemcpy2, sReadTableSizes, sReadHufflenTableCodeSize, sReadLitlenDistTablesCodeSize, sReadExtraBitsCodeSize, sDecodeLitlen, sWriteSymbol, sReadExtraBitsLitlen, sDecodeDistance, sReadExtraBitsDistance, sRawReadFirstByte, sRawStoreFirstByte, sWriteLenBytesToEnd, sBlockDone, sHuffDecodeOuterLoop1, sHuffDecodeOuterLoop2, sReadAdler32, sDoneForever] at *; omega)]
  rw [if_neg (show ¬ (s = sReadHufflenTableCodeSize) by intro h; simp only [sStart, sReadZlibCmf, sReadZlibFlg, sReadBlockHeader, sBlockTypeNoCompression, sRawHeader, sRawMemcpy1, sRawMemcpy2, sReadTableSizes, sReadHufflenTableCodeSize, sReadLitlenDistTablesCodeSize, sReadExtraBitsCodeSize, sDecodeLitlen, sWriteSymbol, sReadExtraBitsLitlen, sDecodeDistance, sReadExtraBitsDistance, sRawReadFirstByte, sRawStoreFirstByte, sWriteLenBytesToEnd, sBlockDone, sHuffDecodeOuterLoop1, sHuffDecodeOuterLoop2, sReadAdler32, sDoneForever] at *; omega)]
  rw [if_neg (show ¬ (s = sReadLitlenDistTablesCodeSize) by intro h; simp only [sStart, sReadZlibCmf, sReadZlibFlg, sReadBlockHeader, sBlockTypeNoCompression, sRawHeader, sRawMemcpy1, sRawMemcpy2, sReadTableSizes, sReadHufflenTableCodeSize, sReadLitlenDistTablesCodeSize, sReadExtraBitsCodeSize, sDecodeLitlen, sWriteSymbol, sReadExtraBitsLitlen, sDecodeDistance, sReadExtraBitsDistance, sRawReadFirstByte, sRawStoreFirstByte, sWriteLenBytesToEnd, sBlockDone, sHuffDecodeOuterLoop1, sHuffDecodeOuterLoop2, sReadAdler32, sDoneForever] at *; omega)]
  rw [if_neg (show ¬ (s = sReadExtraBitsCodeSize) by intro h; simp only [sStart, sReadZlibCmf, sReadZlibFlg, sReadBlockHeader, sBlockTypeNoCompression, sRawHeader, sRawMemcpy1, sRawMemcpy2, sReadTableSizes, sReadHufflenTableCodeSize, sReadLitlenDistTablesCodeSize, sReadExtraBitsCodeSize, sDecodeLitlen, sWriteSymbol, sReadExtraBitsLitlen, sDecodeDistance, sReadExtraBitsDistance, sRawReadFirstByte, sRawStoreFirstByte, sWriteLenBytesToEnd, sBlockDone, sHuffDecodeOuterLoop1, sHuffDecodeOuterLoop2, sReadAdler32, sDoneForever] at *; omega)]
  rw [if_neg (show ¬ (s = sDecodeLitlen) by intro h; simp only [sStart, sReadZlibCmf, sReadZlibFlg, sReadBlockHeader, sBlockTypeNoCompression, sRawHeader, sRawMemcpy1, sRawMemcpy2, sReadTableSizes, sReadHufflenTableCodeSize, sReadLitlenDistTablesCodeSize, sReadExtraBitsCodeSize, sDecodeLitlen, sWriteSymbol, sReadExtraBitsLitlen, sDecodeDistance, sReadExtraBitsDistance, sRawReadFirstByte, sRawStoreFirstByte, sWriteLenBytesToEnd, sBlockDone, sHuffDecodeOuterLoop1, sHuffDecodeOuterLoop2, sReadAdler32, sDoneForever] at *; omega)]
  rw [if_neg (show ¬ (s = sWriteSymbol) by intro h; simp only [sStart, sReadZlibCmf, sReadZlibFlg, sReadBlockHeader, sBlockTypeNoCompression, sRawHeader, sRawMemcpy1, sRawMemcpy2, sReadTableSizes, sReadHufflenTableCodeSize, sReadLitlenDistTablesCodeSize, sReadExtraBitsCodeSize, sDecodeLitlen, sWriteSymbol, sReadExtraBitsLitlen, sDecodeDistance, sReadExtraBitsDistance, sRawReadFirstByte, sRawStoreFirstByte, sWriteLenBytesToEnd, sBlockDone, sHuffDecodeOuterLoop1, sHuffDecodeOuterLoop2, sReadAdler32, sDoneForever] at *; omega)]
  rw [if_neg (show ¬ (s = sHuffDecodeOuterLoop1) by intro h; simp only [sStart, sReadZlibCmf, sReadZlibFlg, sReadBlockHeader, sBlockTypeNoCompression, sRawHeader, sRawMemcpy1, sRawMemcpy2, sReadTableSizes, sReadHufflenTableCodeSize, sReadLitlenDistTablesCodeSize, sReadExtraBitsCodeSize, sDecodeLitlen, sWriteSymbol, sReadExtraBitsLitlen, sDecodeDistance, sReadExtraBitsDistance, sRawReadFirstByte, sRawStoreFirstByte, sWriteLenBytesToEnd, sBlockDone, sHuffDecodeOuterLoop1, sHuffDecodeOuterLoop2, sReadAdler32, sDoneForever] at *; omega)]
  rw [if_neg (show ¬ (s = sReadExtraBitsLitlen) by intro h; simp only [sStart, sReadZlibCmf, sReadZlibFlg, sReadBlockHeader, sBlockTypeNoCompression, sRawHeader, sRawMemcpy1, sRawMemcpy2, sReadTableSizes, sReadHufflenTableCodeSize, sReadLitlenDistTablesCodeSize, sReadExtraBitsCodeSize, sDecodeLitlen, sWriteSymbol, sReadExtraBitsLitlen, sDecodeDistance, sReadExtraBitsDistance, sRawReadFirstByte, sRawStoreFirstByte, sWriteLenBytesToEnd, sBlockDone, sHuffDecodeOuterLoop1, sHuffDecodeOuterLoop2, sReadAdler32, sDoneForever] at *; omega)]
  rw [if_neg (show ¬ (s = sDecodeDistance) by intro h; simp only [sStart, sReadZlibCmf, sReadZlibFlg, sReadBlockHeader, sBlockTypeNoCompression, sRawHeader, sRawMemcpy1, sRawMemcpy2, sReadTableSizes, sReadHufflenTableCodeSize, sReadLitlenDistTablesCodeSize, sReadExtraBitsCodeSize, sDecodeLitlen, sWriteSymbol, sReadExtraBitsLitlen, sDecodeDistance, sReadExtraBitsDistance, sRawReadFirstByte, sRawStoreFirstByte, sWriteLenBytesToEnd, sBlockDone, sHuffDecodeOuterLoop1, sHuffDecodeOuterLoop2, sReadAdler32, sDoneForever] at *; omega)]
  rw [if_neg (show ¬ (s = sReadExtraBitsDistance) by intro h; simp only [sStart, sReadZlibCmf, sReadZlibFlg, sReadBlockHeader, sBlockTypeNoCompression, sRawHeader, sRawMemcpy1, sRawMemcpy2, sReadTableSizes, sReadHufflenTableCodeSize, sReadLitlenDistTablesCodeSize, sReadExtraBitsCodeSize, sDecodeLitlen, sWriteSymbol, sReadExtraBitsLitlen, sDecodeDistance, sReadExtraBitsDistance, sRawReadFirstByte, sRawStoreFirstByte, sWriteLenBytesToEnd, sBlockDone, sHuffDecodeOuterLoop1, sHuffDecodeOuterLoop2, sReadAdler32, sDoneForever] at *; omega)]
  rw [if_neg (show ¬ (s = sHuffDecodeOuterLoop2 ∨ s = sWriteLenBytesToEnd) by intro h; simp only [sStart, sReadZlibCmf, sReadZlibFlg, sReadBlockHeader, sBlockTypeNoCompression, sRawHeader, sRawMemcpy1, sRawMemcpy2, sReadTableSizes, sReadHufflenTableCodeSize, sReadLitlenDistTablesCodeSize, sReadExtraBitsCodeSize, sDecodeLitlen, sWriteSymbol, sReadExtraBitsLitlen, sDecodeDistance, sReadExtraBitsDistance, sRawReadFirstByte, sRawStoreFirstByte, sWriteLenBytesToEnd, sBlockDone, sHuffDecodeOuterLoop1, sHuffDecodeOuterLoop2, sReadAdler32, sDoneForever] at *; omega)]
  rw [if_neg (show ¬ (s = sBlockDone) by intro h; simp only [sStart, sReadZlibCmf, sReadZlibFlg, sReadBlockHeader, sBlockTypeNoCompression, sRawHeader, sRawMemcpy1, sRawMemcpy2, sReadTableSizes, sReadHufflenTableCodeSize, sReadLitlenDistTablesCodeSize, sReadExtraBitsCodeSize, sDecodeLitlen, sWriteSymbol, sReadExtraBitsLitlen, sDecodeDistance, sReadExtraBitsDistance, sRawReadFirstByte, sRawStoreFirstByte, sWriteLenBytesToEnd, sBlockDone, sHuffDecodeOuterLoop1, sHuffDecodeOuterLoop2, sReadAdler32, sDoneForever] at *; omega)]
  rw [if_neg (show ¬ (s = sReadAdler32) by intro h; simp only [sStart, sReadZlibCmf, sReadZlibFlg, sReadBlockHeader, sBlockTypeNoCompression, sRawHeader, sRawMemcpy1, sRawMemcpy2, sReadTableSizes, sReadHufflenTableCodeSize, sReadLitlenDistTablesCodeSize, sReadExtraBitsCodeSize, sDecodeLitlen, sWriteSymbol, sReadExtraBitsLitlen, sDecodeDistance, sReadExtraBitsDistance, sRawReadFirstByte, sRawStoreFirstByte, sWriteLenBytesToEnd, sBlockDone, sHuffDecodeOuterLoop1, sHuffDecodeOuterLoop2, sReadAdler32, sDoneForever] at *; omega)]
  rw [if_neg (show ¬ (s = sDoneForever) by intro h; simp only [sStart, sReadZlibCmf, sReadZlibFlg, sReadBlockHeader, sBlockTypeNoCompression, sRawHeader, sRawMemcpy1, sRawMemcpy2, sReadTableSizes, sReadHufflenTableCodeSize, sReadLitlenDistTablesCodeSize, sReadExtraBitsCodeSize, sDecodeLitlen, sWriteSymbol, sReadExtraBitsLitlen, sDecodeDistance, sReadExtraBitsDistance, sRawReadFirstByte, sRawStoreFirstByte, sWriteLenBytesToEnd, sBlockDone, sHuffDecodeOuterLoop1, sHuffDecodeOuterLoop2, sReadAdler32, sDoneForever] at *; omega)]

theorem stepAt_done (e : Env) (c : Ctx) (o : Array UInt8) : stepAt sDoneForever e c o = .fin stDone c o := by
  unfold stepAt
  rw [if_neg (show ¬ (sDoneForever = sStart) by decide)]
  rw [if_neg (show ¬ (sDoneForever = sReadZlibCmf) by decide)]
  rw [if_neg (show ¬ (sDoneForever = sReadZlibFlg) by decide)]
  rw [if_neg (show ¬ (sDoneForever = sReadBlockHeader) by decide)]
  rw [if_neg (show ¬ (sDoneForever = sBlockTypeNoCompression) by decide)]
  rw [if_neg (show ¬ (sDoneForever = sRawHeader) by decide)]
  rw [if_neg (show ¬ (sDoneForever = sRawReadFirstByte) by decide)]
  rw [if_neg (show ¬ (sDoneForever = sRawStoreFirstByte) by decide)]
  rw [if_neg (show ¬ (sDoneForever = sRawMemcpy1) by decide)]
  rw [if_neg (show ¬ (sDoneForever = sRawMemcpy2) by decide)]
  rw [if_neg (show ¬ (sDoneForever = sReadTableSizes) by decide)]
  rw [if_neg (show ¬ (sDoneForever = sReadHufflenTableCodeSize) by decide)]
  rw [if_neg (show ¬ (sDoneForever = sReadLitlenDistTablesCodeSize) by decide)]
  rw [if_neg (show ¬ (sDoneForever = sReadExtraBitsCodeSize) by decide)]
  rw [if_neg (show ¬ (sDoneForever = sDecodeLitlen) by decide)]
  rw [if_neg (show ¬ (sDoneForever = sWriteSymbol) by decide)]
  rw [if_neg (show ¬ (sDoneForever = sHuffDecodeOuterLoop1) by decide)]
  rw [if_neg (show ¬ (sDoneForever = sReadExtraBitsLitlen) by decide)]
  rw [if_neg (show ¬ (sDoneForever = sDecodeDistance) by decide)]
  rw [if_neg (show ¬ (sDoneForever = sReadExtraBitsDistance) by decide)]
  rw [if_neg (show ¬ (sDoneForever = sHuffDecodeOuterLoop2 ∨ sDoneForever = sWriteLenBytesToEnd) by decide)]
  rw [if_neg (show ¬ (sDoneForever = sBlockDone) by decide)]
  rw [if_neg (show ¬ (sDoneForever = sReadAdler32) by decide)]
  rw [if_pos rfl]

theorem Adv.refl (g : Geo e c out) : Adv e c out c out := Adv.of_pos g g.inLe rfl

theorem Adv.trans {c1 c2 : Ctx} {out1 out2 : Array UInt8} (h1 : Adv e c out c1 out1)
    (h2 : Adv e c1 out1 c2 out2) : Adv e c out c2 out2 :=
  ⟨h2.geo, Nat.le_trans h1.mono h2.mono,
    (h2.frame.mono h1.mono (Nat.le_refl _)).trans (h1.frame.mono (Nat.le_refl _) h2.mono)⟩

/-- The whole run: geometry, frame, and a truthful final status (or fuel exhaustion). -/
theorem run_ok (e : Env) : ∀ (fuel : Nat) (c : Ctx) (out : Array UInt8), Geo e c out →
    Adv e c out (run e fuel c out).2.1 (run e fuel c out).2.2 ∧
    ((run e fuel c out).1 = stModelError ∨ FinOK e (run e fuel c out).1 (run e fuel c out).2.1) := by
  intro fuel
  induction fuel with
  | zero => intro c out g; exact ⟨Adv.refl g, Or.inl rfl⟩
  | succ fuel ih =>
    intro c out g
    have hs := step_ok g
    unfold run
    cases hstep : step e c out with
    | cont c1 out1 =>
      rw [hstep] at hs
      have := ih c1 out1 hs.geo
      exact ⟨hs.trans this.1, this.2⟩
    | fin st c1 out1 =>
      rw [hstep] at hs
      exact ⟨hs.1, Or.inr hs.2⟩

end Model.Core
