/-
What a run has produced so far is a PREFIX of the plaintext — for a valid stream, at every suspended
exit: the flat call on any part of the input with any budget (`suspended_call_output_is_prefix`),
and the ring driver after any number of suspended calls (`ring_delivered_is_prefix`). Also: with the
more-input flag set a call never reports "cannot make progress" (`decompress_more_ne_cmp`).
Helper lemmas for Props/C13 (the wrapper hands out a prefix of the plaintext after every call).
-/
import MinizProof.Props.C08
import MinizProof.Lemmas.CoreRingValid
set_option linter.unusedVariables false
set_option maxRecDepth 100000
namespace Model.Core
open Spec

/-- With the more-input flag set, no call reports "cannot make progress". -/
theorem decompress_more_ne_cmp (fl : Nat) (hmore : hasFlag fl fHasMoreInput = true) (r : Regs) (inp out : Array UInt8)
    (outPos budget : Nat) : (decompress r inp out outPos budget fl).status ≠ stFailedCannotMakeProgress := by
  cases hg : badGeometry fl out.size outPos with
  | true =>
    unfold decompress; rw [hg]
    show stBadParam ≠ stFailedCannotMakeProgress
    decide
  | false =>
    rw [decompress_eq _ _ _ _ _ _ hg]
    have hX := congrArg Prod.fst (callRun_flag (fl := fl) (fl' := fl) ⟨rfl, rfl, rfl, rfl, rfl⟩ r inp out outPos budget)
    dsimp only at hX
    generalize (callRun r inp out outPos budget fl).1 = X at hX ⊢
    have hXne : X ≠ stFailedCannotMakeProgress := by
      intro h
      rw [h] at hX
      have h1 : isEoi stFailedCannotMakeProgress = true := rfl
      rw [if_pos h1] at hX
      unfold endOfInput at hX
      rw [if_pos hmore] at hX
      exact absurd hX (by decide)
    intro hs
    have hes : exitStatus X (callRun r inp out outPos budget fl).2.1 (min (outPos + budget) out.size) ≠ stFailedCannotMakeProgress := by
      unfold exitStatus
      split
      · decide
      · exact hXne
    unfold epilogue at hs
    dsimp only at hs
    split at hs
    · dsimp only at hs
      split at hs
      · exact absurd hs (by decide)
      · exact hes hs
    · exact hes hs

/-- A SUSPENDED FLAT CALL ON PART OF A VALID STREAM HAS WRITTEN A PREFIX OF THE PLAINTEXT: the call
    followed by a second call on the rest with room for everything is the single call on the whole
    stream (C07), which writes the plaintext (C03), and the second call does not touch what the
    first wrote. -/
theorem suspended_call_output_is_prefix (a b out : Array UInt8) (budget flags : Nat) (res : Inflated)
    (hflat : hasFlag flags fNonWrapping = true) (hz : hasFlag flags fParseZlib = false)
    (hstop : hasFlag flags fStopOnBlockBoundary = false)
    (hspec : inflateSpec #[] 32768 (a ++ b) 0 = .accept res)
    (hsize : budget + res.out.size ≤ out.size)
    (hs : suspended (decompress {} a out 0 budget flags)) :
    (decompress {} a out 0 budget flags).written ≤ res.out.size ∧
    ∀ i, i < (decompress {} a out 0 budget flags).written →
      (decompress {} a out 0 budget flags).out[i]? = res.out[i]? := by
  have hg : badGeometry flags out.size 0 = false := by
    unfold badGeometry; simp [hflat]
  have hcomp := C07.two_calls_equal_one_call {} a b out 0 budget (budget + res.out.size) flags Bnd_fresh hg hs (by omega)
  dsimp only at hcomp
  obtain ⟨_, hout, hw, _⟩ := hcomp
  have hfacts1 := decompress_facts {} a out 0 budget flags
  generalize hr1 : decompress {} a out 0 budget flags = r1 at hout hw hfacts1 ⊢
  have hone := refine_raw_flat {} (a ++ b) out 0 (r1.written + (budget + res.out.size)) flags 32768 res rfl ⟨rfl, rfl, rfl⟩
    hflat hz hstop (Nat.zero_le _) (by simpa using hspec) (by
      have := hfacts1.wBudget
      simp only [Nat.zero_add]
      exact Nat.le_min.mpr ⟨by omega, by omega⟩)
  obtain ⟨_, o2, _, o4⟩ := hone
  have hfacts2 := decompress_facts r1.r (a.extract r1.consumed a.size ++ b) r1.out (0 + r1.written) (budget + res.out.size) flags
  have hwle : r1.written ≤ res.out.size := by rw [← o2, hw]; omega
  refine ⟨hwle, fun i hi => ?_⟩
  have h1 := hfacts2.frame i (.inl (by omega))
  have h2 := o4 i (by omega)
  rw [Nat.zero_add, hout] at h2
  rw [← h1, h2]

end Model.Core

namespace Model.Core
open Spec

theorem extract_prefix_eq (x y : Array UInt8) (n : Nat) (hx : n ≤ x.size) (hy : n ≤ y.size)
    (h : ∀ i, i < n → x[i]? = y[i]?) : x.extract 0 n = y.extract 0 n := by
  apply Array.ext_getElem?
  intro i
  simp only [Array.getElem?_extract, Nat.sub_zero, Nat.zero_add]
  have e1 : min n x.size = n := Nat.min_eq_left hx
  have e2 : min n y.size = n := Nat.min_eq_left hy
  rw [e1, e2]
  by_cases hi : i < n
  · rw [if_pos hi, if_pos hi]; exact h i hi
  · rw [if_neg hi, if_neg hi]

/-- THE RING DRIVER, WHILE ITS CALLS ARE SUSPENDED, HAS DELIVERED A PREFIX OF THE PLAINTEXT — any
    chunking, any number of laps of the window. -/
theorem ring_delivered_is_prefix (flagsR flagsF W : Nat) (hfl : FlagsRF flagsR flagsF) (hbig : 32768 ≤ W)
    (oR : Array UInt8) (hW : oR.size = W) (hg : badGeometry flagsR W 0 = false)
    (hz : hasFlag flagsR fParseZlib = false) (hstop : hasFlag flagsR fStopOnBlockBoundary = false)
    (c : Array UInt8) (cs : List (Array UInt8)) (b : Array UInt8) (res : Inflated)
    (hspec : inflateSpec #[] 32768 (catList (c :: cs) ++ b) 0 = .accept res)
    (hsus : ∀ x ∈ runRing flagsR W {} oR 0 #[] (c :: cs), suspended x.1) :
    ∃ n, n ≤ res.out.size ∧ deliveredRing (runRing flagsR W {} oR 0 #[] (c :: cs)) = res.out.extract 0 n := by
  -- a flat mirror with room for every grant and for the whole plaintext
  generalize hoF : Array.replicate (W * ((c :: cs).length + 1) + res.out.size) (0 : UInt8) = oF
  have hoFsz : oF.size = W * ((c :: cs).length + 1) + res.out.size := by rw [← hoF]; simp
  have hA := ring_agrees_valid flagsR flagsF W 32768 hfl hbig oR oF hW hg hz hstop
    _ res hspec (c :: cs).length (c :: cs) b rfl rfl (by rw [hoFsz]; omega)
    (fun x hx => hsus x (List.dropLast_subset _ hx))
  generalize hfs : runCalls flagsF 0 {} oF 0 #[] (ringGrants flagsR W {} oR 0 0 #[] (c :: cs)) = fs at hA
  have hfne : fs ≠ [] := RunsAgree.nonempty _ _ _ hA (by simp [runRing])
  obtain ⟨lastF, hlastF⟩ : ∃ lf, fs.getLast? = some lf := by
    cases h : fs.getLast? with
    | none => exact absurd (List.getLast?_eq_none_iff.mp h) hfne
    | some lf => exact ⟨lf, rfl⟩
  have hallF := RunsAgree.all_suspended _ _ _ hA hsus
  have hlastSus : suspended lastF := hallF lastF (List.mem_of_getLast? hlastF)
  have hdel := RunsAgree.deliver _ _ _ hA
  have hgeoF : badGeometry flagsF oF.size 0 = false := by
    simp [badGeometry, hfl.flat]
  have hgr : ringGrants flagsR W {} oR 0 0 #[] (c :: cs) =
      (c, 0 + W) :: ringGrants flagsR W (decompress {} (#[] ++ c) oR 0 (W - 0) flagsR).r
        (decompress {} (#[] ++ c) oR 0 (W - 0) flagsR).out (ringNext W (0 + (decompress {} (#[] ++ c) oR 0 (W - 0) flagsR).written))
        (baseNext W 0 (0 + (decompress {} (#[] ++ c) oR 0 (W - 0) flagsR).written))
        ((#[] ++ c).extract (decompress {} (#[] ++ c) oR 0 (W - 0) flagsR).consumed (#[] ++ c).size) cs := rfl
  have hmono := grantsMono_ringGrants flagsR W (c :: cs) {} oR 0 0 #[]
  have hcat := catChunks_ringGrants flagsR W (c :: cs) {} oR 0 0 #[]
  have hroomG := lastGrant_ringGrants_le flagsR W (c :: cs) {} oR 0 0 #[] (by simp)
  have hdelF := runCalls_delivered flagsF 0 (ringGrants flagsR W {} oR 0 0 #[] (c :: cs)) {} oF 0 #[] lastF (by rw [hfs]; exact hlastF)
  rw [hfs] at hdelF
  rw [hgr] at hfs hmono hcat hroomG
  have hone := runCalls_last flagsF 0 _ {} oF 0 #[] c (0 + W)
    Bnd_fresh hgeoF hmono (by rw [hfs]; exact fun x hx => hallF x (List.dropLast_subset _ hx)) lastF (by rw [hfs]; exact hlastF)
  dsimp only at hone
  rw [hcat] at hone
  obtain ⟨o1, o2, o3, _⟩ := hone
  rw [hfs] at o3
  generalize hG : lastGrant ((c, 0 + W) :: ringGrants flagsR W (decompress {} (#[] ++ c) oR 0 (W - 0) flagsR).r
        (decompress {} (#[] ++ c) oR 0 (W - 0) flagsR).out (ringNext W (0 + (decompress {} (#[] ++ c) oR 0 (W - 0) flagsR).written))
        (baseNext W 0 (0 + (decompress {} (#[] ++ c) oR 0 (W - 0) flagsR).written))
        ((#[] ++ c).extract (decompress {} (#[] ++ c) oR 0 (W - 0) flagsR).consumed (#[] ++ c).size) cs) = G at o1 o2 o3 hroomG
  have he : (#[] : Array UInt8) ++ catList (c :: cs) = catList (c :: cs) := Array.empty_append
  rw [he] at o1 o2 o3
  have hpre := suspended_call_output_is_prefix (catList (c :: cs)) b oF (0 + G - 0) flagsF res hfl.flat
    (by rw [hfl.zlib]; exact hz) (by rw [hfl.stop]; exact hstop) hspec
    (by rw [hoFsz]; simp only [List.length_cons] at hroomG ⊢; have : W * (cs.length + 1 + 1) = W * (cs.length + 1) + W := by rw [Nat.mul_succ]
        omega)
    (by unfold suspended; rw [o1]; exact hlastSus)
  obtain ⟨p1, p2⟩ := hpre
  refine ⟨(decompress {} (catList (c :: cs)) oF 0 (0 + G - 0) flagsF).written, p1, ?_⟩
  rw [hdel, hdelF, Nat.zero_add, ← o3, ← o2]
  have hf1 := decompress_facts {} (catList (c :: cs)) oF 0 (0 + G - 0) flagsF
  exact extract_prefix_eq _ _ _ (by rw [hf1.size]; have := hf1.room; omega) p1 p2

end Model.Core
