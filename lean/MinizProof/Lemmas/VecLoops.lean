/-
Theorems about the vector-helper loops (`Model.Vec`): the size limit is respected, the buffer never
exceeds the limit, the doubling loop cannot go on for ever, the compress loop never reaches its
panic arm for an inner function that keeps its contract.
-/
import MinizProof.Model.VecLoops
set_option linter.unusedVariables false
namespace Model.Vec

/-- length of the vector a result carries (successful output, or the partial output of an error) -/
def InflOut.len : InflOut → Nat
  | .ok len _ => len
  | .err _ len _ => len
  | .stuck _ => 0

/-- SIZE LIMIT of `decompress_to_vec*_with_limit`, for every behaviour of the inner decoder: the
    buffer never grows beyond the limit, so neither a successful result nor the partial output
    carried by an error is longer than the limit. -/
theorem inflLoop_len_le (maxOut : Nat) : ∀ (rs : List Resp) (inLeft bufLen outPos : Nat) (calls : List Call),
    bufLen ≤ maxOut → (inflLoop maxOut inLeft bufLen outPos calls rs).len ≤ maxOut := by
  intro rs
  induction rs with
  | nil => intro inLeft bufLen outPos calls h; simp [inflLoop, InflOut.len]
  | cons r rs ih =>
    intro inLeft bufLen outPos calls h
    unfold inflLoop
    simp only
    by_cases h1 : r.st = tDone
    · simp only [h1, ↓reduceIte, InflOut.len]
      exact Nat.le_trans (Nat.min_le_right _ _) h
    · simp only [h1, ↓reduceIte]
      by_cases h2 : r.st = tHasMoreOutput
      · simp only [h2, ↓reduceIte]
        by_cases h3 : r.cin > inLeft
        · simp only [h3, ↓reduceIte, InflOut.len]; exact h
        · simp only [h3, ↓reduceIte]
          by_cases h4 : bufLen ≥ maxOut
          · simp only [h4, ↓reduceIte, InflOut.len]; exact h
          · simp only [h4, ↓reduceIte]
            exact ih _ _ _ _ (Nat.min_le_right _ _)
      · simp only [h2, ↓reduceIte, InflOut.len]; exact h

theorem decompressToVec_len_le (inLen maxOut : Nat) (script : List Resp) :
    (decompressToVec inLen maxOut script).len ≤ maxOut :=
  inflLoop_len_le maxOut script inLen _ 0 [] (Nat.min_le_right _ _)

/-- The doubling loop terminates on its own: with a non-empty buffer, after at most `maxOut - bufLen + 1`
    `HasMoreOutput` answers it has returned (the script is never exhausted before that). -/
theorem inflLoop_terminates (maxOut : Nat) : ∀ (n : Nat) (rs : List Resp) (inLeft bufLen outPos : Nat) (calls : List Call),
    0 < bufLen → maxOut - bufLen < n → n ≤ rs.length →
    ∀ cs, inflLoop maxOut inLeft bufLen outPos calls rs ≠ .stuck cs := by
  intro n
  induction n with
  | zero => intro rs inLeft bufLen outPos calls _ h; omega
  | succ n ih =>
    intro rs inLeft bufLen outPos calls hpos hlt hlen cs
    cases rs with
    | nil => simp at hlen
    | cons r rs =>
      unfold inflLoop
      simp only
      by_cases h1 : r.st = tDone
      · simp [h1]
      · simp only [h1, ↓reduceIte]
        by_cases h2 : r.st = tHasMoreOutput
        · simp only [h2, ↓reduceIte]
          by_cases h3 : r.cin > inLeft
          · simp [h3]
          · simp only [h3, ↓reduceIte]
            by_cases h4 : bufLen ≥ maxOut
            · simp [h4]
            · simp only [h4, ↓reduceIte]
              exact ih rs _ _ _ _ (by omega) (by
                have : bufLen < maxOut := by omega
                have : bufLen < min (bufLen * 2) maxOut := by omega
                omega) (by simp at hlen; omega) cs
        · simp [h2]

/-- The contract of the inner `compress` along one run of the loop: status `Okay` or `Done`, and
    never more input reported consumed than is left. -/
def Respects : Nat → List Resp → Prop
  | _, [] => True
  | inLeft, r :: rs => (r.st = dOkay ∨ r.st = dDone) ∧ r.cin ≤ inLeft ∧ Respects (inLeft - r.cin) rs

/-- An inner `compress` that keeps its contract never drives `compress_to_vec` into its
    `panic!("Bug! …")` arm, whatever the sizes and however often the buffer has to grow. -/
theorem deflLoop_never_panics : ∀ (rs : List Resp) (inLeft bufLen outPos : Nat) (calls : List Call),
    Respects inLeft rs → ∀ cs, deflLoop inLeft bufLen outPos calls rs ≠ .panic cs := by
  intro rs
  induction rs with
  | nil => intro inLeft bufLen outPos calls _ cs; simp [deflLoop]
  | cons r rs ih =>
    intro inLeft bufLen outPos calls hst cs
    obtain ⟨h1, h2, h3⟩ := hst
    unfold deflLoop
    simp only
    by_cases hd : r.st = dDone
    · simp [hd]
    · have ho : r.st = dOkay := by rcases h1 with h | h; exact h; exact absurd h hd
      simp only [hd, ↓reduceIte, ho, h2, and_self]
      exact ih _ _ _ _ h3 cs

theorem compressToVec_never_panics (inLen : Nat) (script : List Resp) (h : Respects inLen script) :
    ∀ cs, compressToVec inLen script ≠ .panic cs :=
  deflLoop_never_panics script inLen _ 0 [] h

end Model.Vec
