/-
One call of `Model.Core.decompress` into a ring buffer against the same call into a flat buffer
(`Lemmas/CoreRing` lifted through the epilogue), and the hand-back of a full ring to its start.
No property statements here (see Props/C07, C03).
-/
import MinizProof.Lemmas.CoreRing
import MinizProof.Lemmas.CoreSession
set_option maxRecDepth 100000
namespace Model.Core
open Spec

/-- the two flags words: equal except for the buffer mode -/
structure FlagsRF (flagsR flagsF : Nat) : Prop where
  ring  : hasFlag flagsR fNonWrapping = false
  flat  : hasFlag flagsF fNonWrapping = true
  zlib  : hasFlag flagsF fParseZlib = hasFlag flagsR fParseZlib
  more  : hasFlag flagsF fHasMoreInput = hasFlag flagsR fHasMoreInput
  comp  : hasFlag flagsF fComputeAdler = hasFlag flagsR fComputeAdler
  ign   : hasFlag flagsF fIgnoreAdler = hasFlag flagsR fIgnoreAdler
  stop  : hasFlag flagsF fStopOnBlockBoundary = hasFlag flagsR fStopOnBlockBoundary

theorem FlagsRF.needAdler {fr ff : Nat} (h : FlagsRF fr ff) : needAdler ff = needAdler fr := by
  unfold Model.Core.needAdler; rw [h.ign, h.zlib, h.comp]

theorem FlagsRF.eoi {fr ff : Nat} (h : FlagsRF fr ff) : endOfInput ff = endOfInput fr := by
  unfold endOfInput; rw [h.more]

/-- a full ring handed back to its start: what was the current lap is now the previous one -/
theorem RingRel.handBack {W base : Nat} {oR oF : Array UInt8} (h : RingRel W base W oR oF) :
    RingRel W (base + W) 0 oR oF := by
  obtain ⟨hs, h1, _⟩ := h
  refine ⟨hs, fun i hi => absurd hi (Nat.not_lt_zero _), fun i _ hiW _ => ?_⟩
  have : base + W + i - W = base + i := by omega
  rw [this]
  exact h1 i hiW

theorem extract_ring {W base p p' : Nat} {oR oF : Array UInt8} (h : RingRel W base p' oR oF) (hp : p' ≤ W)
    (hF : base + p' ≤ oF.size) : oR.extract p p' = oF.extract (base + p) (base + p') := by
  apply Array.ext_getElem?
  intro i
  rw [Array.getElem?_extract, Array.getElem?_extract]
  have h1 : min p' oR.size - p = p' - p := by rw [h.1]; omega
  have h2 : min (base + p') oF.size - (base + p) = p' - p := by omega
  rw [h1, h2]
  split
  · have := h.2.1 (p + i) (by omega)
    rw [this]; congr 1; omega
  · rfl

theorem beq_add_left (a b c : Nat) : (a + b == a + c) = (b == c) := by
  by_cases h : b = c
  · subst h; simp
  · have : a + b ≠ a + c := by omega
    rw [beq_false_of_ne h, beq_false_of_ne this]

theorem epilogue_failed_status (flags pos E : Nat) (c : Ctx) (o : Array UInt8) :
    (epilogue flags pos E stFailed c o).status = stFailed := by
  rw [epilogue_status_neg _ _ _ _ _ _ (exitStatus_failed _ _)]
  unfold exitStatus
  have : (stFailed == stNeedsMoreInput) = false := by decide
  rw [this]; rfl

/-- ONE CALL, RING AGAINST FLAT. The ring (size `W ≥ 32768`, write cursor `p`) holds the last `W`
    bytes of the flat buffer up to `base + p`. Unless the flat call reports `Failed` (a distance that
    reaches before the start of the data is something a ring cannot notice), both calls report the same
    status and counts, save the same registers, and the ring again holds the last `W` bytes of the
    flat buffer. -/
theorem decompress_ring_flat (r : Regs) (inp oR oF : Array UInt8) (p budget flagsR flagsF W base : Nat)
    (hb : Bnd r) (hfl : FlagsRF flagsR flagsF) (hW : oR.size = W) (hbig : 32768 ≤ W)
    (hgR : badGeometry flagsR oR.size p = false) (hbase : base + W ≤ oF.size)
    (hrel : RingRel W base p oR oF)
    (hno : (decompress r inp oF (base + p) (min budget (W - p)) flagsF).status ≠ stFailed) :
    (decompress r inp oR p budget flagsR).status = (decompress r inp oF (base + p) (min budget (W - p)) flagsF).status ∧
    (decompress r inp oR p budget flagsR).consumed = (decompress r inp oF (base + p) (min budget (W - p)) flagsF).consumed ∧
    (decompress r inp oR p budget flagsR).written = (decompress r inp oF (base + p) (min budget (W - p)) flagsF).written ∧
    (decompress r inp oR p budget flagsR).r = (decompress r inp oF (base + p) (min budget (W - p)) flagsF).r ∧
    RingRel W base (p + (decompress r inp oR p budget flagsR).written) (decompress r inp oR p budget flagsR).out
      (decompress r inp oF (base + p) (min budget (W - p)) flagsF).out := by
  have hpW : p ≤ W := by
    simp only [badGeometry, Bool.or_eq_false_iff, decide_eq_false_iff_not, Nat.not_lt] at hgR
    rw [← hW]; exact hgR.2
  have hgF : badGeometry flagsF oF.size (base + p) = false := by
    simp only [badGeometry, Bool.or_eq_false_iff, decide_eq_false_iff_not, Nat.not_lt, hfl.flat, Bool.not_true,
      Bool.false_and, true_and]
    omega
  have hER : min (p + budget) oR.size = p + min budget (W - p) := by rw [hW]; omega
  have hEF : min (base + p + min budget (W - p)) oF.size = base + (p + min budget (W - p)) := by omega
  have hrf : RingFlat (callEnv inp oR p budget flagsR) (callEnv inp oF (base + p) (min budget (W - p)) flagsF) W base :=
    { inp := rfl, zlib := hfl.zlib, stop := hfl.stop, eoi := hfl.eoi,
      ringR := by show (!hasFlag flagsR fNonWrapping) = true; rw [hfl.ring]; rfl,
      ringF := by show (!hasFlag flagsF fNonWrapping) = false; rw [hfl.flat]; rfl,
      lenR := hW,
      endF := by show min (base + p + min budget (W - p)) oF.size = base + min (p + budget) oR.size; rw [hEF, hER],
      big := hbig }
  have hfuel : callFuel r inp (min (base + p + min budget (W - p)) oF.size - (base + p)) =
      callFuel r inp (min (p + budget) oR.size - p) := by
    rw [hEF, hER]; congr 1; omega
  rw [decompress_eq r inp oR p budget flagsR hgR, decompress_eq r inp oF (base + p) (min budget (W - p)) flagsF hgF] at *
  have hrunF : callRun r inp oF (base + p) (min budget (W - p)) flagsF =
      run (callEnv inp oF (base + p) (min budget (W - p)) flagsF) (callFuel r inp (min (p + budget) oR.size - p))
        (U base { r := r, inPos := 0, outPos := p }) oF := by
    unfold callRun; rw [hfuel]
  have hrunR : callRun r inp oR p budget flagsR =
      run (callEnv inp oR p budget flagsR) (callFuel r inp (min (p + budget) oR.size - p))
        { r := r, inPos := 0, outPos := p } oR := rfl
  have hneF := callRun_ne r inp oF (base + p) (min budget (W - p)) flagsF hgF
  have hnfF : (callRun r inp oF (base + p) (min budget (W - p)) flagsF).1 ≠ stFailed := by
    intro hh
    apply hno
    rw [hh]
    exact epilogue_failed_status _ _ _ _ _
  rw [hrunF] at hneF hnfF
  have hmain := run_ring hrf (by show min (p + budget) oR.size ≤ W; rw [hW]; omega)
    (callFuel r inp (min (p + budget) oR.size - p)) { r := r, inPos := 0, outPos := p } oR oF
    (callGeo hgR) (hb.toI 0 p) hrel (by show min (base + p + min budget (W - p)) oF.size ≤ oF.size; omega) hnfF hneF
  rw [← hrunF, ← hrunR] at hmain
  have hadvF := callRun_adv r inp oF (base + p) (min budget (W - p)) flagsF hgF
  have hszF0 : (callRun r inp oF (base + p) (min budget (W - p)) flagsF).2.2.size = oF.size := hadvF.frame.1
  generalize callRun r inp oF (base + p) (min budget (W - p)) flagsF = RF at *
  generalize hRR : callRun r inp oR p budget flagsR = RR at *
  obtain ⟨stF, cF, oF'⟩ := RF
  obtain ⟨stR, cR, oR'⟩ := RR
  dsimp only at hmain ⊢
  obtain ⟨hst, hc, hrel'⟩ := hmain
  subst hst hc
  -- geometry of the final contexts
  have hadvR := callRun_adv r inp oR p budget flagsR hgR
  rw [hRR] at hadvR
  have hpe : cR.outPos ≤ W := by
    have h1 : cR.outPos ≤ min (p + budget) oR.size := hadvR.geo.outLe
    rw [hW] at h1; omega
  have hpp : p ≤ cR.outPos := hadvR.mono
  have hszF : base + cR.outPos ≤ oF'.size := by
    have : oF'.size = oF.size := hszF0
    omega
  have hext : oR'.extract p cR.outPos = oF'.extract (base + p) (base + cR.outPos) := extract_ring hrel' hpe hszF
  have hexitS : exitStatus stF (U base cR) (min (base + p + min budget (W - p)) oF.size) =
      exitStatus stF cR (min (p + budget) oR.size) := by
    unfold exitStatus
    rw [hEF, hER]
    show (if (stF == stNeedsMoreInput && (base + cR.outPos == base + (p + min budget (W - p))) && _) = true then _ else _) = _
    rw [beq_add_left]
    rfl
  have hundo : exitUndo stF (U base cR) = exitUndo stF cR := rfl
  have hregs : exitRegs stF (U base cR) = exitRegs stF cR := rfl
  unfold epilogue
  dsimp only
  rw [hexitS, hregs, hundo, hfl.needAdler, hfl.zlib]
  have hwr : base + cR.outPos - (base + p) = cR.outPos - p := by omega
  show _ ∧ _ ∧ _ ∧ _ ∧ _
  rw [← hext]
  by_cases hn : (needAdler flagsR && decide (exitStatus stF cR (min (p + budget) oR.size) ≥ 0)) = true
  · simp only [hn, ↓reduceIte]
    have hp' : p + (cR.outPos - p) = cR.outPos := by omega
    refine ⟨?_, ?_, ?_, ?_, ?_⟩
    · first | trivial | rfl
    · first | trivial | rfl
    · first | trivial | rfl | omega
    · first | trivial | rfl
    · rw [hp']; exact hrel'
  · have hn' : (needAdler flagsR && decide (exitStatus stF cR (min (p + budget) oR.size) ≥ 0)) = false := by simpa using hn
    simp only [hn', Bool.false_eq_true, ↓reduceIte]
    have hp' : p + (cR.outPos - p) = cR.outPos := by omega
    refine ⟨?_, ?_, ?_, ?_, ?_⟩
    · first | trivial | rfl
    · first | trivial | rfl
    · first | trivial | rfl | omega
    · first | trivial | rfl
    · rw [hp']; exact hrel'

end Model.Core
