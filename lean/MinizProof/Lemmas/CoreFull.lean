/-
The other half of "room": a stream the specification accepts whose plaintext does NOT fit the granted
window is reported as "has more output" — never as a failure. Together with the refinement (fits ⇒
Done) and the converse (Done ⇒ accepted and fits) this characterises one call on a valid stream for
every window. Helper lemmas for Props/C03 / C07 / C08.
-/
import MinizProof.Lemmas.CoreConverse
set_option linter.unusedVariables false
set_option linter.unusedSimpArgs false
set_option maxRecDepth 100000
namespace Model.Core
open Spec

/-- From here the run, whenever it ends, ends with "has more output". -/
def Full (e : Env) (c : Ctx) (o : Array UInt8) : Prop :=
  ∀ f, (run e f c o).1 = stModelError ∨ (run e f c o).1 = stHasMoreOutput

theorem Full.of_fin {e : Env} {c c' : Ctx} {o o' : Array UInt8}
    (h : step e c o = .fin stHasMoreOutput c' o') : Full e c o := by
  intro f
  cases f with
  | zero => exact .inl rfl
  | succ f => rw [run, h]; exact .inr rfl

theorem Full.of_reaches {e : Env} {c c' : Ctx} {o o' : Array UInt8}
    (h : Reaches e c o c' o') (hs : Full e c' o') : Full e c o := by
  intro f
  by_cases hm : (run e f c o).1 = stModelError
  · exact .inl hm
  · obtain ⟨k, hk⟩ := h
    have := run_fuel_mono e f c o hm (f + k) (by omega)
    rw [hk] at this
    rcases hs f with h1 | h1
    · rw [this] at h1; exact absurd h1 hm
    · rw [this] at h1; exact .inr h1

theorem Full.of_step {e : Env} {c c' : Ctx} {o o' : Array UInt8}
    (h : step e c o = .cont c' o') (hs : Full e c' o') : Full e c o :=
  Full.of_reaches (Reaches.of_step h) hs

variable {e : Env} {c : Ctx} {outA : Array UInt8}

theorem match_noroom_full (hflat : e.ring = false) (hs : c.r.state = sHuffDecodeOuterLoop2 ∨ c.r.state = sWriteLenBytesToEnd)
    (hd2 : c.r.dist ≤ c.outPos) (hpos : c.outPos ≤ e.outEnd) (hend : e.outEnd ≤ e.outLen)
    (hroom : e.outEnd - c.outPos < c.r.counter) : Full e c outA := by
  have hstep : step e c outA = stMatch e c outA := by
    rcases hs with hs | hs
    · exact step_Match1 hs
    · exact step_Match2 hs
  have hoob : ¬ ((c.r.dist > c.outPos ∧ (!e.ring) = true) ∨ c.r.dist > e.outLen) := by
    intro h; rcases h with h | h <;> omega
  have hc0 : ¬ c.r.counter = 0 := by omega
  by_cases hw : e.outEnd - c.outPos = 0
  · have : step e c outA = .fin stHasMoreOutput (setState c sWriteLenBytesToEnd) outA := by
      rw [hstep]; unfold stMatch wrBytesLeft
      simp only [hoob, hc0, hw, ↓reduceIte]
    exact Full.of_fin this
  · have hmin : min (e.outEnd - c.outPos) c.r.counter = e.outEnd - c.outPos := by omega
    have hrem : ¬ c.r.counter - (e.outEnd - c.outPos) = 0 := by omega
    have h1 : ∃ c2 o2, step e c outA = .cont c2 o2 ∧ c2.r.state = sWriteLenBytesToEnd ∧ c2.r.dist = c.r.dist ∧
        c2.r.counter ≠ 0 ∧ c2.outPos = e.outEnd := by
      rw [hstep]; unfold stMatch wrBytesLeft
      simp only [hoob, hc0, hw, hmin, hrem, ↓reduceIte]
      exact ⟨_, _, rfl, rfl, rfl, hrem, by show c.outPos + (e.outEnd - c.outPos) = e.outEnd; omega⟩
    obtain ⟨c2, o2, hst, hs2, hd, hc2, ho2⟩ := h1
    refine Full.of_step hst ?_
    have hoob2 : ¬ ((c2.r.dist > c2.outPos ∧ (!e.ring) = true) ∨ c2.r.dist > e.outLen) := by
      rw [hd, ho2]; intro h; rcases h with h | h <;> omega
    have : step e c2 o2 = .fin stHasMoreOutput (setState c2 sWriteLenBytesToEnd) o2 := by
      rw [step_Match2 hs2]; unfold stMatch wrBytesLeft
      have hw2 : e.outEnd - c2.outPos = 0 := by rw [ho2]; omega
      simp only [hoob2, hc2, hw2, ↓reduceIte]
    exact Full.of_fin this

theorem lit_noroom_full {pos s p : Nat} {full : Array UInt8}
    (hsim : Sim e c outA pos full) (hs : c.r.state = sDecodeLitlen)
    (hd : decodeSym c.r.litCode e.inp pos = .sym s p) (hlt : s < 256) (hroom : e.outEnd ≤ full.size) :
    Full e c outA := by
  obtain ⟨c1, hst1, hs1, hc1, hr1, ho1, i1, h81⟩ := micro_decodeLitlen (outA := outA) hs hsim.rep hd
  refine Full.of_step hst1 ?_
  have : step e c1 outA = .fin stHasMoreOutput c1 outA := by
    rw [step_WriteSymbol hs1]; unfold stWriteSymbol wrBytesLeft
    have h1 : ¬ c1.r.counter ≥ 256 := by omega
    have h2 : ¬ e.outEnd - c1.outPos > 0 := by rw [ho1, hsim.outPos]; omega
    simp only [h1, h2, ↓reduceIte]
  exact Full.of_fin this

/-- THE TOKEN LOOP with too little room. -/
theorem tokens_full (hflat : e.ring = false) (hend : e.outEnd ≤ e.outLen) (pre : Array UInt8) (maxDist : Nat)
    (lit dist : Code) :
    ∀ (fuel pos : Nat) (o : Array UInt8) (toks : Array Token) (R : Nat × Array UInt8 × Array Token)
      (c : Ctx) (outA : Array UInt8),
    decodeTokens pre maxDist lit dist e.inp fuel pos o toks = .accept R →
    Sim e c outA pos (pre ++ o) → c.r.state = sDecodeLitlen → c.r.litCode = lit → c.r.distCode = dist →
    pre.size + o.size ≤ e.outEnd → e.outEnd < pre.size + R.2.1.size →
    Full e c outA := by
  intro fuel
  induction fuel with
  | zero => intro pos o toks R c outA h; simp [decodeTokens] at h
  | succ fuel ih =>
    intro pos o toks R c outA h hsim hs hlit hdist hfit hbig
    rw [decodeTokens] at h
    have hsz : (pre ++ o).size = pre.size + o.size := Array.size_append
    cases ht : decodeToken maxDist lit dist e.inp pos (pre.size + o.size) with
    | lit b p =>
      rw [ht] at h
      obtain ⟨s, hd, hlt, hbs⟩ := decodeToken_lit_inv ht
      by_cases hroom : pre.size + o.size < e.outEnd
      · obtain ⟨c2, outA2, r2, hs2, hsim2, i2⟩ :=
          sim_lit hend hsim hs (by rw [hlit]; exact hd) hlt (by rw [hsz]; exact hroom)
        rw [← hbs, ← Array.append_push] at hsim2
        exact Full.of_reaches r2 (ih _ _ _ _ c2 outA2 h hsim2 hs2 (by rw [i2.lit, hlit]) (by rw [i2.dist, hdist])
          (by simp only [Array.size_push]; omega) hbig)
      · exact lit_noroom_full hsim hs (by rw [hlit]; exact hd) hlt (by rw [hsz]; omega)
    | eob p =>
      rw [ht] at h
      simp only [Verdict.accept.injEq] at h
      rw [← h] at hbig
      simp only at hbig
      omega
    | copy len dd p =>
      rw [ht] at h
      obtain ⟨s, p1, lx, d, p3, dx, hd, h1, h2, hlx, hdd, hd29, hdx, hlen, hddeq, hp, havail⟩ := decodeToken_copy_inv ht
      have hpos := distBase_pos d
      by_cases hroom : pre.size + o.size + len ≤ e.outEnd
      · obtain ⟨c9, outA9, r9, hs9, hsim9, i9⟩ :=
          sim_copy hflat hend hsim hs (by rw [hlit]; exact hd) h1 h2 hlx (by rw [hdist]; exact hdd) hd29 hdx
            (by rw [hsz]; omega) (by rw [hsz]; omega)
        rw [← hlen, ← hddeq, ← hp, ← copyMatch_eq pre dd (by omega) len o (by omega)] at hsim9
        exact Full.of_reaches r9 (ih _ _ _ _ c9 outA9 h hsim9 hs9 (by rw [i9.lit, hlit]) (by rw [i9.dist, hdist])
          (by rw [copyMatch_size]; omega) hbig)
      · obtain ⟨c6, r06, hs6, hd6, hc6, hr6, ho6, i6, h86⟩ :=
          reach_match hsim hs (by rw [hlit]; exact hd) h1 h2 hlx (by rw [hdist]; exact hdd) hd29 hdx
        have ho : c6.outPos = pre.size + o.size := by rw [ho6, hsim.outPos, hsz]
        exact Full.of_reaches r06 (match_noroom_full hflat (.inl hs6) (by rw [hd6, ho]; omega) (by rw [ho]; exact hfit)
          hend (by rw [hc6, ho]; omega))
    | reject w => rw [ht] at h; simp at h
    | truncated => rw [ht] at h; simp at h

/-- The body of a stored block whose bytes are all there but do not fit the window. -/
theorem memcpy_full (hs : c.r.state = sRawMemcpy1) (hle : c.inPos ≤ e.inp.size)
    (havail : c.r.counter ≤ e.inp.size - c.inPos) (hbig : e.outEnd - c.outPos < c.r.counter) : Full e c outA := by
  have hc0 : c.r.counter ≠ 0 := by omega
  by_cases hw : e.outEnd - c.outPos = 0
  · have : step e c outA = .fin stHasMoreOutput c outA := by
      rw [step_RawMemcpy1 hs]; unfold stRawMemcpy1 wrBytesLeft
      simp only [hc0, hw, ↓reduceIte]
    exact Full.of_fin this
  · have hst1 := micro_memcpy1_go (e := e) (outA := outA) hs hc0 (by omega)
    refine Full.of_step hst1 ?_
    have hin : c.inPos < e.inp.size := by omega
    obtain ⟨c2, hst2, hs2, hc2, hi2, ho2, hn2, hb2, i2⟩ :=
      micro_memcpy2 (e := e) (c := setState c sRawMemcpy2) (outA := outA)
        (len := e.outEnd - c.outPos) rfl hin
        (by show min (min (e.outEnd - c.outPos) (e.inp.size - c.inPos)) c.r.counter = _; omega)
    generalize copyIn e.inp outA (setState c sRawMemcpy2).outPos (setState c sRawMemcpy2).inPos
      (e.outEnd - c.outPos) = o2 at hst2
    refine Full.of_step hst2 ?_
    have hc2' : c2.r.counter ≠ 0 := by rw [hc2]; show c.r.counter - _ ≠ 0; omega
    have ho2' : c2.outPos = c.outPos + (e.outEnd - c.outPos) := ho2
    have hw2 : e.outEnd - c2.outPos = 0 := by omega
    have : step e c2 o2 = .fin stHasMoreOutput c2 o2 := by
      rw [step_RawMemcpy1 hs2]; unfold stRawMemcpy1 wrBytesLeft
      simp only [hc2', hw2, ↓reduceIte]
    exact Full.of_fin this

/-- THE STORED BLOCK whose bytes are all there but do not fit the window. -/
theorem stored_full {P len nlen : Nat} {full full' : Array UInt8} (hend : e.outEnd ≤ e.outLen)
    (hs : c.r.state = sBlockTypeNoCompression) (hsim : Sim e c outA P full) (hrh : c.r.rawHeader.size = 4)
    (hfit : full.size ≤ e.outEnd)
    (hlen : bitsAt e.inp (8 * ((P + 7) / 8)) 16 = some len)
    (hnlen : bitsAt e.inp (8 * ((P + 7) / 8) + 16) 16 = some nlen) (hchk : len + nlen = 65535)
    (hcopy : copyStored e.inp ((P + 7) / 8 + 4) full len = some full') (hbig : e.outEnd < full'.size) :
    Full e c outA := by
  have hr := hsim.rep
  have h8 := hsim.nb8
  have hpe := hr.posEq
  have hmod : c.r.numBits % 8 = c.r.numBits := Nat.mod_eq_of_lt h8
  obtain ⟨c1, hrb, hr1, h81, hok1, hacc1⟩ := readBits_full hr (bitsAt_of_rep hr (c.r.numBits % 8) (by omega))
  have hst1 : step e c outA = .cont (setState { c1 with r := { c1.r with counter := 0 } } sRawHeader) outA := by
    rw [step_BlockTypeNoCompression hs]; unfold stBlockTypeNoCompression; rw [hrb]
  refine Full.of_step hst1 ?_
  have h81' := h81 h8
  have hin1 : c1.inPos = c.inPos := by
    have := hok1.inLo; omega
  have hnb1 : c1.r.numBits = 0 := by omega
  have hQ : P + c.r.numBits % 8 = 8 * ((P + 7) / 8) := by omega
  rw [hQ] at hr1
  have hbpos : c1.inPos = (P + 7) / 8 := by have := hr1.posEq; omega
  obtain ⟨b0, b1, hb0, hb1, hlenv⟩ := bitsAt16_bytes hlen
  have e16 : 8 * ((P + 7) / 8) + 16 = 8 * ((P + 7) / 8 + 2) := by omega
  rw [e16] at hnlen
  obtain ⟨b2, b3, hb2, hb3, hnlenv⟩ := bitsAt16_bytes hnlen
  have i01 : InvS c (setState { c1 with r := { c1.r with counter := 0 } } sRawHeader) := by
    have i := InvS.of_read hok1
    exact ⟨i.finish, ⟨i.z.z0, i.z.z1, i.z.zA, i.z.chk⟩, i.ts, i.lc, i.rhsz⟩
  obtain ⟨d1, hd1, hs1, hc1, hn1, hbb1, hi1, ho1, hrh1, i1⟩ :=
    rawHeader_step (e := e) (c := setState { c1 with r := { c1.r with counter := 0 } } sRawHeader) (outA := outA)
      (k := 0) (b := b0) rfl rfl (by omega) hnb1 (by show e.inp[c1.inPos]? = _; rw [hbpos]; exact hb0)
  obtain ⟨d2, hd2, hs2, hc2, hn2, hbb2, hi2, ho2, hrh2, i2⟩ :=
    rawHeader_step (e := e) (c := d1) (outA := outA) (k := 1) (b := b1) hs1 hc1 (by omega) hn1
      (by rw [hi1]; show e.inp[c1.inPos + 1]? = _; rw [hbpos]; exact hb1)
  obtain ⟨d3, hd3, hs3, hc3, hn3, hbb3, hi3, ho3, hrh3, i3⟩ :=
    rawHeader_step (e := e) (c := d2) (outA := outA) (k := 2) (b := b2) hs2 hc2 (by omega) hn2
      (by rw [hi2, hi1]; show e.inp[c1.inPos + 1 + 1]? = _; rw [hbpos]; exact hb2)
  obtain ⟨d4, hd4, hs4, hc4, hn4, hbb4, hi4, ho4, hrh4, i4⟩ :=
    rawHeader_step (e := e) (c := d3) (outA := outA) (k := 3) (b := b3) hs3 hc3 (by omega) hn3
      (by rw [hi3, hi2, hi1]; show e.inp[c1.inPos + 1 + 1 + 1]? = _; rw [hbpos]; exact hb3)
  have hsz0 : (setState { c1 with r := { c1.r with counter := 0 } } sRawHeader).r.rawHeader.size = 4 := by
    rw [i01.rhsz]; exact hrh
  have hrhv : d4.r.rawHeader = (((c1.r.rawHeader.setIfInBounds 0 b0.toNat).setIfInBounds 1 b1.toNat).setIfInBounds 2 b2.toNat).setIfInBounds 3 b3.toNat := by
    rw [hrh4, hrh3, hrh2, hrh1]; rfl
  have hsz1 : c1.r.rawHeader.size = 4 := hsz0
  have g0 : d4.r.rawHeader.getD 0 0 = b0.toNat := by
    rw [hrhv]; simp [Array.getD_eq_getD_getElem?, Array.getElem?_setIfInBounds, hsz1]
  have g1 : d4.r.rawHeader.getD 1 0 = b1.toNat := by
    rw [hrhv]; simp [Array.getD_eq_getD_getElem?, Array.getElem?_setIfInBounds, hsz1]
  have g2 : d4.r.rawHeader.getD 2 0 = b2.toNat := by
    rw [hrhv]; simp [Array.getD_eq_getD_getElem?, Array.getElem?_setIfInBounds, hsz1]
  have g3 : d4.r.rawHeader.getD 3 0 = b3.toNat := by
    rw [hrhv]; simp [Array.getD_eq_getD_getElem?, Array.getElem?_setIfInBounds, hsz1]
  obtain ⟨d5, hd5, hs5, hc5, hn5, hbb5, hi5, ho5, i5⟩ :=
    rawHeader_done (e := e) (c := d4) (outA := outA) hs4 hc4 hn4 g0 g1 g2 g3 (by rw [← hlenv, ← hnlenv]; exact hchk)
  refine Full.of_step hd1 (Full.of_step hd2 (Full.of_step hd3 (Full.of_step hd4 (Full.of_step hd5 ?_))))
  have hin5 : d5.inPos = (P + 7) / 8 + 4 := by
    rw [hi5, hi4, hi3, hi2, hi1]; show c1.inPos + 1 + 1 + 1 + 1 = _; omega
  have hout5 : d5.outPos = full.size := by
    rw [ho5, ho4, ho3, ho2, ho1]; show c1.outPos = _; rw [hok1.outPos, hsim.outPos]
  rw [← hlenv] at hs5 hc5
  have hspec := copyStored_spec e.inp len _ full full' hcopy
  have hz : ¬ len = 0 := by
    intro hz; subst hz
    simp only [copyStored, Option.some.injEq] at hcopy
    subst hcopy; omega
  rw [if_neg hz] at hs5
  have hav := hspec.1 (by omega)
  exact memcpy_full hs5 (by rw [hin5]; omega) (by rw [hc5, hin5]; omega) (by rw [hc5, hout5]; omega)

/-- ONE BLOCK the specification accepts, whose output does not fit the window. -/
theorem block_full (hflat : e.ring = false) (hend : e.outEnd ≤ e.outLen) {pre : Array UInt8} {maxDist fuel pos : Nat}
    {o : Array UInt8} {pos' : Nat} {o' : Array UInt8} {info : BlockInfo}
    (h : inflateBlock pre maxDist e.inp fuel pos o = .accept (pos', o', info))
    (hs : c.r.state = sReadBlockHeader) (hsim : Sim e c outA pos (pre ++ o)) (hsh : Shape c)
    (hfit : pre.size + o.size ≤ e.outEnd) (hbig : e.outEnd < pre.size + o'.size) :
    Full e c outA := by
  unfold inflateBlock at h
  have hszf : (pre ++ o).size = pre.size + o.size := Array.size_append
  cases hv : bitsAt e.inp pos 3 with
  | none => simp [hv] at h
  | some hdr =>
    simp only [hv] at h
    by_cases hb0 : hdr / 2 = 0
    · simp only [hb0, ↓reduceIte] at h
      obtain ⟨c1, st1, hs1, hf1, hr1, h81, ho1, z1, sh1⟩ := micro_header_stored (outA := outA) hs hsim.rep hv hb0
      refine Full.of_step st1 ?_
      cases hl : bitsAt e.inp (8 * ((pos + 3 + 7) / 8)) 16 with
      | none => simp [hl] at h
      | some len =>
        cases hn : bitsAt e.inp (8 * ((pos + 3 + 7) / 8) + 16) 16 with
        | none => simp [hl, hn] at h
        | some nlen =>
          simp only [hl, hn] at h
          by_cases hne : len + nlen ≠ 65535
          · simp [hne] at h
          · simp only [hne, ↓reduceIte] at h
            cases hcp : copyStored e.inp ((pos + 3 + 7) / 8 + 4) o len with
            | none => simp [hcp] at h
            | some o2 =>
              simp only [hcp, Verdict.accept.injEq, Prod.mk.injEq] at h
              obtain ⟨hp', ho', hinfo⟩ := h
              subst ho'
              have hsim1 : Sim e c1 outA (pos + 3) (pre ++ o) :=
                ⟨hr1, h81 hsim.nb8, by rw [ho1]; exact hsim.outPos, hsim.outEq, hsim.size⟩
              exact stored_full (e := e) (c := c1) (outA := outA) hend hs1 hsim1 (sh1 hsh).1 (by rw [hszf]; exact hfit)
                hl hn (by omega) (copyStored_append e.inp pre len _ o o2 hcp) (by simp only [Array.size_append]; omega)
    · simp only [hb0, ↓reduceIte] at h
      by_cases hb1 : hdr / 2 = 1
      · simp only [hb1, ↓reduceIte] at h
        obtain ⟨c1, st1, hs1, hf1, hl1, hd1, hr1, h81, ho1, z1, sh1⟩ := micro_header_fixed (outA := outA) hs hsim.rep hv hb1
        refine Full.of_step st1 ?_
        cases ht : decodeTokens pre maxDist fixedLitCode fixedDistCode e.inp fuel (pos + 3) o #[] with
        | accept R =>
          obtain ⟨p, o2, toks⟩ := R
          simp only [ht, Verdict.accept.injEq, Prod.mk.injEq] at h
          obtain ⟨hp', ho', hinfo⟩ := h
          subst ho'; subst hp'
          have hsim1 : Sim e c1 outA (pos + 3) (pre ++ o) :=
            ⟨hr1, h81 hsim.nb8, by rw [ho1]; exact hsim.outPos, hsim.outEq, hsim.size⟩
          exact tokens_full hflat hend pre maxDist fixedLitCode fixedDistCode fuel (pos + 3) o #[] (p, o2, toks) c1 outA
            ht hsim1 hs1 hl1 hd1 hfit hbig
        | reject w => simp [ht] at h
        | truncated p => simp [ht] at h
        | fuel => simp [ht] at h
      · simp only [hb1, ↓reduceIte] at h
        by_cases hb2 : hdr / 2 = 2
        · simp only [hb2, ↓reduceIte] at h
          obtain ⟨c1, st1, hs1, hf1, hc1, hbt1, hr1, h81, ho1, z1, sh1⟩ := micro_header_dynamic (outA := outA) hs hsim.rep hv hb2
          refine Full.of_step st1 ?_
          cases h1 : bitsAt e.inp (pos + 3) 5 with
          | none => simp [h1] at h
          | some hlit =>
            cases h2 : bitsAt e.inp (pos + 3 + 5) 5 with
            | none => simp [h1, h2] at h
            | some hdist =>
              cases h3 : bitsAt e.inp (pos + 3 + 10) 4 with
              | none => simp [h1, h2, h3] at h
              | some hclen =>
                simp only [h1, h2, h3] at h
                by_cases hbigs : (decide (hlit + 257 > 286) || decide (hdist + 1 > 30)) = true
                · simp [hbigs] at h
                · simp only [hbigs, Bool.false_eq_true, ↓reduceIte] at h
                  simp only [Bool.or_eq_true, decide_eq_true_eq] at hbigs
                  cases hcl : readClens e.inp (hclen + 4) (pos + 3 + 14) clenOrder (Array.replicate 19 0) with
                  | none => simp [hcl] at h
                  | some pc =>
                    obtain ⟨pos1, clens⟩ := pc
                    simp only [hcl] at h
                    by_cases hclv : codeValid .clen clens = true
                    · simp only [hclv, Bool.not_true, Bool.false_eq_true, ↓reduceIte] at h
                      cases hlens : readLens (mkCode clens) e.inp (hlit + 257 + (hdist + 1)) fuel pos1 #[] with
                      | accept R2 =>
                        obtain ⟨pos2, lens⟩ := R2
                        simp only [hlens] at h
                        by_cases hvl : codeValid .litlen (lens.extract 0 (hlit + 257)) = true
                        · simp only [hvl, Bool.not_true, Bool.false_eq_true, ↓reduceIte] at h
                          by_cases hvd : codeValid .dist (lens.extract (hlit + 257) (hlit + 257 + (hdist + 1))) = true
                          · simp only [hvd, Bool.not_true, Bool.false_eq_true, ↓reduceIte] at h
                            cases ht : decodeTokens pre maxDist (mkCode (lens.extract 0 (hlit + 257)))
                                (mkCode (lens.extract (hlit + 257) (hlit + 257 + (hdist + 1)))) e.inp fuel pos2 o #[] with
                            | accept R =>
                              obtain ⟨p, o2, toks⟩ := R
                              simp only [ht, Verdict.accept.injEq, Prod.mk.injEq] at h
                              obtain ⟨hp', ho', hinfo⟩ := h
                              subst ho'; subst hp'
                              obtain ⟨c2, r2, hs2, hl2, hd2, hr2, h82, ho2, hf2, z2, rh2, ts2, lc2⟩ :=
                                sim_dynamic_header (e := e) (c := c1) (outA := outA) hs1 hc1 hbt1 (sh1 hsh).2.1 (sh1 hsh).2.2
                                  hr1 (h81 hsim.nb8) h1 h2 h3 hbigs hcl hclv hlens hvl hvd
                              have hsim2 : Sim e c2 outA pos2 (pre ++ o) :=
                                ⟨hr2, h82, by rw [ho2, ho1]; exact hsim.outPos, hsim.outEq, hsim.size⟩
                              exact Full.of_reaches r2 (tokens_full hflat hend pre maxDist _ _ fuel pos2 o #[] (p, o2, toks) c2 outA
                                ht hsim2 hs2 hl2 hd2 hfit hbig)
                            | reject w => simp [ht] at h
                            | truncated p => simp [ht] at h
                            | fuel => simp [ht] at h
                          · simp [hvd] at h
                        · simp [hvl] at h
                      | reject w => simp [hlens] at h
                      | truncated p => simp [hlens] at h
                      | fuel => simp [hlens] at h
                    · simp [hclv] at h
        · simp [hb2] at h

/-- THE BLOCK LOOP on a stream the specification accepts whose plaintext does not fit the window. -/
theorem blocks_full (hflat : e.ring = false) (hend : e.outEnd ≤ e.outLen)
    (hstop : hasFlag e.flags fStopOnBlockBoundary = false) (pre : Array UInt8) (maxDist : Nat) :
    ∀ (fuel pos : Nat) (o : Array UInt8) (bl : Array BlockInfo) (R : Nat × Array UInt8 × Array BlockInfo)
      (c : Ctx) (outA : Array UInt8),
    inflateBlocks pre maxDist e.inp fuel pos o bl = .accept R →
    c.r.state = sReadBlockHeader → Sim e c outA pos (pre ++ o) → Shape c → pre.size + o.size ≤ e.outEnd →
    e.outEnd < pre.size + R.2.1.size → Full e c outA := by
  intro fuel
  induction fuel with
  | zero => intro pos o bl R c outA h; simp [inflateBlocks] at h
  | succ fuel ih =>
    intro pos o bl R c outA h hs hsim hsh hfit hbig
    rw [inflateBlocks] at h
    cases hb : inflateBlock pre maxDist e.inp fuel pos o with
    | accept R1 =>
      obtain ⟨p1, o1, info⟩ := R1
      simp only [hb] at h
      by_cases hroom1 : pre.size + o1.size ≤ e.outEnd
      · obtain ⟨c1, outA1, r1, hs1, hsim1, hfin1, z1, sh1⟩ :=
          sim_block (c := c) (outA := outA) hflat hend hb hs hsim hsh hroom1
        refine Full.of_reaches r1 ?_
        by_cases hf : info.final = true
        · exfalso
          simp only [hf, ↓reduceIte, Verdict.accept.injEq] at h
          rw [← h] at hbig
          simp only at hbig
          omega
        · simp only [hf, Bool.false_eq_true, ↓reduceIte] at h
          have hf0 : c1.r.finish = 0 := by
            by_cases hz : c1.r.finish = 0
            · exact hz
            · exact absurd (hfin1.mp hz) hf
          have st2 := micro_blockDone_next (e := e) (c := c1) (outA := outA1) hs1 hf0 hstop
          have hsim2 : Sim e (setState c1 sReadBlockHeader) outA1 p1 (pre ++ o1) :=
            ⟨hsim1.rep.of_eq rfl rfl rfl, hsim1.nb8, hsim1.outPos, hsim1.outEq, hsim1.size⟩
          exact Full.of_step st2 (ih p1 o1 _ R (setState c1 sReadBlockHeader) outA1 h rfl hsim2 sh1 hroom1 hbig)
      · exact block_full hflat hend hb hs hsim hsh hfit (by omega)
    | reject w => simp [hb] at h
    | truncated p => simp [hb] at h
    | fuel => simp [hb] at h

/-- VALID BUT TOO BIG, raw DEFLATE into a flat buffer: the call reports "has more output". -/
theorem full_raw_flat (r : Regs) (inp out : Array UInt8) (outPos budget flags maxDist : Nat) (res : Inflated)
    (hstart : r.state = sStart) (hshape : r.rawHeader.size = 4 ∧ r.tableSizes.size = 3 ∧ r.lenCodes.size = 512)
    (hflat : hasFlag flags fNonWrapping = true) (hz : hasFlag flags fParseZlib = false)
    (hstop : hasFlag flags fStopOnBlockBoundary = false) (hpos : outPos ≤ out.size)
    (hspec : inflateSpec (out.extract 0 outPos) maxDist inp 0 = .accept res)
    (hbig : min (outPos + budget) out.size < outPos + res.out.size) :
    (decompress r inp out outPos budget flags).status = stHasMoreOutput := by
  have hg : badGeometry flags out.size outPos = false := by
    unfold badGeometry; simp [hflat]; omega
  unfold inflateSpec at hspec
  cases hb : inflateBlocks (out.extract 0 outPos) maxDist inp (fuelFor inp) 0 #[] #[] with
  | accept R =>
    obtain ⟨pos', o', blocks⟩ := R
    simp only [hb, Verdict.accept.injEq] at hspec
    subst hspec
    simp only at hbig
    obtain ⟨e, he⟩ : ∃ e : Env, e = { inp := inp, flags := flags, outLen := out.size, outEnd := min (outPos + budget) out.size } := ⟨_, rfl⟩
    have hflat' : e.ring = false := by rw [he]; simp [Env.ring, hflat]
    have hend : e.outEnd ≤ e.outLen := by rw [he]; show min _ _ ≤ out.size; omega
    have hstop' : hasFlag e.flags fStopOnBlockBoundary = false := by rw [he]; exact hstop
    have hz' : hasFlag e.flags fParseZlib = false := by rw [he]; exact hz
    have hinp : e.inp = inp := by rw [he]
    have hpre : (out.extract 0 outPos).size = outPos := by simp; omega
    obtain ⟨c1, st1, hs1, hn1, hb1, hi1, ho1, rh1, ts1, lc1⟩ :=
      micro_start_raw (e := e) (c := { r := r, inPos := 0, outPos := outPos }) (outA := out) hstart hz'
    have hsim1 : Sim e c1 out 0 (out.extract 0 outPos ++ #[]) := by
      have hi1' : c1.inPos = 0 := hi1
      have ho1' : c1.outPos = outPos := ho1
      refine ⟨⟨by rw [hi1']; exact Nat.zero_le _, by rw [hi1', hn1], by rw [hn1, hb1]; decide,
        by rw [hn1]; intro i hi; omega⟩, by rw [hn1]; decide, by rw [ho1']; simp; omega, ?_, by rw [he]⟩
      intro i hi
      simp only [Array.append_empty] at hi ⊢
      rw [Array.getElem?_extract]
      have : i < min outPos out.size - 0 := by simpa using hi
      simp only [this, ↓reduceIte, Nat.zero_add]
    have hsh1 : Shape c1 := ⟨by rw [rh1]; exact hshape.1, by rw [ts1]; exact hshape.2.1, by rw [lc1]; exact hshape.2.2⟩
    have hfull : Full e { r := r, inPos := 0, outPos := outPos } out :=
      Full.of_step st1 (blocks_full hflat' hend hstop' (out.extract 0 outPos) maxDist (fuelFor inp) 0 #[] #[] (pos', o', blocks) c1 out
        (by rw [hinp]; exact hb) hs1 hsim1 hsh1 (by rw [hpre, he]; simp; omega) (by rw [hpre, he]; exact hbig))
    have hrun := hfull (callFuel r inp (min (outPos + budget) out.size - outPos))
    rw [he] at hrun
    have hne := callRun_ne r inp out outPos budget flags hg
    have hraw : (callRun r inp out outPos budget flags).1 = stHasMoreOutput := by
      rcases hrun with h | h
      · exact absurd h hne
      · exact h
    rw [decompress_eq _ _ _ _ _ _ hg]
    unfold epilogue
    have hx : exitStatus (callRun r inp out outPos budget flags).1 (callRun r inp out outPos budget flags).2.1
        (min (outPos + budget) out.size) = stHasMoreOutput := by
      rw [hraw]; exact exitStatus_of_ne _ _ _ (by decide)
    dsimp only
    split
    · dsimp only
      rw [hx]
      rfl
    · exact hx
  | reject w => simp [hb] at hspec
  | truncated p => simp [hb] at hspec
  | fuel => simp [hb] at hspec

/-- VALID BUT TOO BIG, zlib format. -/
theorem full_zlib_flat (r : Regs) (inp out : Array UInt8) (outPos budget flags maxDist : Nat) (res : Inflated)
    (cmf flg : UInt8)
    (hstart : r.state = sStart) (hshape : r.rawHeader.size = 4 ∧ r.tableSizes.size = 3 ∧ r.lenCodes.size = 512)
    (hflat : hasFlag flags fNonWrapping = true) (hz : hasFlag flags fParseZlib = true)
    (hstop : hasFlag flags fStopOnBlockBoundary = false) (hpos : outPos ≤ out.size)
    (h0 : inp[0]? = some cmf) (h1 : inp[1]? = some flg) (hv : zlibHeaderValid cmf.toNat flg.toNat = true)
    (hspec : inflateSpec (out.extract 0 outPos) maxDist inp 16 = .accept res)
    (hbig : min (outPos + budget) out.size < outPos + res.out.size) :
    (decompress r inp out outPos budget flags).status = stHasMoreOutput := by
  have hg : badGeometry flags out.size outPos = false := by
    unfold badGeometry; simp [hflat]; omega
  unfold inflateSpec at hspec
  cases hbl : inflateBlocks (out.extract 0 outPos) maxDist inp (fuelFor inp) 16 #[] #[] with
  | accept R =>
    obtain ⟨pos', o', blocks⟩ := R
    simp only [hbl, Verdict.accept.injEq] at hspec
    subst hspec
    simp only at hbig
    obtain ⟨e, he⟩ : ∃ e : Env, e = { inp := inp, flags := flags, outLen := out.size, outEnd := min (outPos + budget) out.size } := ⟨_, rfl⟩
    have hflat' : e.ring = false := by rw [he]; simp [Env.ring, hflat]
    have hend : e.outEnd ≤ e.outLen := by rw [he]; show min _ _ ≤ out.size; omega
    have hstop' : hasFlag e.flags fStopOnBlockBoundary = false := by rw [he]; exact hstop
    have hz' : hasFlag e.flags fParseZlib = true := by rw [he]; exact hz
    have hinp : e.inp = inp := by rw [he]
    have hpre : (out.extract 0 outPos).size = outPos := by simp; omega
    obtain ⟨c1, st1, hs1, hn1, hb1, hchk1, hza1, hi1, ho1, rh1, ts1, lc1⟩ :=
      micro_start_zlib (e := e) (c := { r := r, inPos := 0, outPos := outPos }) (outA := out) hstart hz'
    have hi1' : c1.inPos = 0 := hi1
    have st2 := micro_cmf (e := e) (c := c1) (outA := out) (b := cmf) hs1 (by rw [hi1', hinp]; exact h0)
    have st3 := micro_flg (e := e) (outA := out) (b := flg)
      (c := setState { c1 with r := { c1.r with zHeader0 := cmf.toNat }, inPos := c1.inPos + 1 } sReadZlibFlg) rfl
      (by show e.inp[c1.inPos + 1]? = _; rw [hi1', hinp]; exact h1) hflat' hv
    obtain ⟨c3, hc3⟩ : ∃ x, x = setState { (setState { c1 with r := { c1.r with zHeader0 := cmf.toNat }, inPos := c1.inPos + 1 } sReadZlibFlg) with
        r := { (setState { c1 with r := { c1.r with zHeader0 := cmf.toNat }, inPos := c1.inPos + 1 } sReadZlibFlg).r with zHeader1 := flg.toNat },
        inPos := (setState { c1 with r := { c1.r with zHeader0 := cmf.toNat }, inPos := c1.inPos + 1 } sReadZlibFlg).inPos + 1 } sReadBlockHeader := ⟨_, rfl⟩
    rw [← hc3] at st3
    have k1 : c3.r.state = sReadBlockHeader := by rw [hc3]; rfl
    have k2 : c3.inPos = 2 := by rw [hc3]; show c1.inPos + 1 + 1 = 2; omega
    have k3 : c3.r.numBits = 0 := by rw [hc3]; exact hn1
    have k4 : c3.r.bitBuf = 0 := by rw [hc3]; exact hb1
    have k5 : c3.outPos = outPos := by rw [hc3]; exact ho1
    have hsz2 : 2 ≤ inp.size := by
      by_cases hlt : 1 < inp.size
      · omega
      · simp [Array.getElem?_eq_none (Nat.le_of_not_lt hlt)] at h1
    have hsim3 : Sim e c3 out 16 (out.extract 0 outPos ++ #[]) := by
      refine ⟨⟨by rw [k2, hinp]; exact hsz2, by rw [k2, k3], by rw [k3, k4]; decide, by rw [k3]; intro i hi; omega⟩,
        by rw [k3]; decide, by rw [k5]; simp; omega, ?_, by rw [he]⟩
      intro i hi
      simp only [Array.append_empty] at hi ⊢
      rw [Array.getElem?_extract]
      have : i < min outPos out.size - 0 := by simpa using hi
      simp only [this, ↓reduceIte, Nat.zero_add]
    have hsh3 : Shape c3 := by
      rw [hc3]; exact ⟨by show c1.r.rawHeader.size = 4; rw [rh1]; exact hshape.1,
        by show c1.r.tableSizes.size = 3; rw [ts1]; exact hshape.2.1, by show c1.r.lenCodes.size = 512; rw [lc1]; exact hshape.2.2⟩
    have hfull : Full e { r := r, inPos := 0, outPos := outPos } out :=
      Full.of_step st1 (Full.of_step st2 (Full.of_step st3
        (blocks_full hflat' hend hstop' (out.extract 0 outPos) maxDist (fuelFor inp) 16 #[] #[] (pos', o', blocks) c3 out
          (by rw [hinp]; exact hbl) k1 hsim3 hsh3 (by rw [hpre, he]; simp; omega) (by rw [hpre, he]; exact hbig))))
    have hrun := hfull (callFuel r inp (min (outPos + budget) out.size - outPos))
    rw [he] at hrun
    have hne := callRun_ne r inp out outPos budget flags hg
    have hraw : (callRun r inp out outPos budget flags).1 = stHasMoreOutput := by
      rcases hrun with h | h
      · exact absurd h hne
      · exact h
    rw [decompress_eq _ _ _ _ _ _ hg]
    unfold epilogue
    have hx : exitStatus (callRun r inp out outPos budget flags).1 (callRun r inp out outPos budget flags).2.1
        (min (outPos + budget) out.size) = stHasMoreOutput := by
      rw [hraw]; exact exitStatus_of_ne _ _ _ (by decide)
    dsimp only
    split
    · dsimp only
      rw [hx]
      rfl
    · exact hx
  | reject w => simp [hbl] at hspec
  | truncated p => simp [hbl] at hspec
  | fuel => simp [hbl] at hspec

end Model.Core
