/-
Suspending and resuming the decoder model when the granted output window is full: transitions under
a smaller window versus a larger one, state by state, and the run-level theorem.
Helper lemmas for Props/C07.
-/
import MinizProof.Lemmas.CoreSplit
set_option linter.unusedVariables false
set_option linter.unusedSimpArgs false
namespace Model.Core
open Spec

/-- The same call environment with a larger output window. -/
def Env.grow (e : Env) (E2 : Nat) : Env := { e with outEnd := E2 }

@[simp] theorem Env.grow_ring (e : Env) (E2 : Nat) : (e.grow E2).ring = e.ring := rfl
@[simp] theorem Env.grow_outLen (e : Env) (E2 : Nat) : (e.grow E2).outLen = e.outLen := rfl
@[simp] theorem Env.grow_outEnd (e : Env) (E2 : Nat) : (e.grow E2).outEnd = E2 := rfl
@[simp] theorem Env.grow_inp (e : Env) (E2 : Nat) : (e.grow E2).inp = e.inp := rfl
@[simp] theorem Env.grow_eoi (e : Env) (E2 : Nat) : (e.grow E2).eoi = e.eoi := rfl

theorem Final.step_inv {e : Env} {c c' : Ctx} {o o' : Array UInt8} {R : Int × Ctx × Array UInt8}
    (h : step e c o = .cont c' o') (hf : Final e c o R) : Final e c' o' R := by
  obtain ⟨f, hf, hne⟩ := hf
  cases f with
  | zero => rw [run] at hf; rw [← hf] at hne; exact absurd rfl hne
  | succ f => rw [run, h] at hf; exact ⟨f, hf, hne⟩

theorem hmo_ne_done : stHasMoreOutput ≠ stDone := by decide
theorem eoi_ne_hmo (e : Env) : e.eoi ≠ stHasMoreOutput := fun h => hmo_ne_eoi e h.symm

/-- How a transition `S` taken with output window end `e.outEnd` relates to the transition function
    `F` of the same state with a larger window: a continuing transition is the same transition, a
    stop for lack of room leaves a context from which the larger-window transition is the one it
    would have been from the start, any other stop is the same stop. -/
def GrowRel (c : Ctx) (out : Array UInt8) (F : Ctx → Step) : Step → Prop
  | .cont c' o' => F c = .cont c' o'
  | .fin st c1 o1 => (st = stHasMoreOutput ∧ o1 = out ∧ c1.r.state = c.r.state ∧ F c1 = F c) ∨
      (st ≠ stHasMoreOutput ∧ F c = .fin st c1 o1)

variable {e : Env} {E2 : Nat} {c : Ctx} {out : Array UInt8}

theorem grow_same (F : Ctx → Step) (S : Step) (hF : F c = S)
    (hS : ∀ st c' o', S = .fin st c' o' → st ≠ stHasMoreOutput) : GrowRel c out F S := by
  cases S with
  | cont c' o' => exact hF
  | fin st c' o' => exact Or.inr ⟨hS st c' o' rfl, hF⟩

theorem bb_ne_hmo : stBlockBoundary ≠ stHasMoreOutput := by decide

/-- closes `∀ st c' o', S = .fin st c' o' → st ≠ HasMoreOutput` for transitions that stop only starved
    or at a block boundary -/
macro "no_hmo" : tactic => `(tactic|
  (intro st c' o' h; revert h; (try dsimp only); (repeat' split) <;> intro h <;>
   first
   | (simp at h; done)
   | (simp only [Step.fin.injEq] at h; rw [← h.1]; first | exact eoi_ne_hmo _ | exact bb_ne_hmo)))

theorem grow_Start : GrowRel c out (fun c0 => stStart (e.grow E2) c0 out) (stStart e c out) :=
  grow_same _ _ rfl (by unfold stStart; no_hmo)
theorem grow_ReadZlibCmf : GrowRel c out (fun c0 => stReadZlibCmf (e.grow E2) c0 out) (stReadZlibCmf e c out) :=
  grow_same _ _ rfl (by unfold stReadZlibCmf; no_hmo)
theorem grow_ReadZlibFlg : GrowRel c out (fun c0 => stReadZlibFlg (e.grow E2) c0 out) (stReadZlibFlg e c out) :=
  grow_same _ _ rfl (by unfold stReadZlibFlg; no_hmo)
theorem grow_ReadBlockHeader : GrowRel c out (fun c0 => stReadBlockHeader (e.grow E2) c0 out) (stReadBlockHeader e c out) :=
  grow_same _ _ rfl (by unfold stReadBlockHeader; no_hmo)
theorem grow_BlockTypeNoCompression : GrowRel c out (fun c0 => stBlockTypeNoCompression (e.grow E2) c0 out) (stBlockTypeNoCompression e c out) :=
  grow_same _ _ rfl (by unfold stBlockTypeNoCompression; no_hmo)
theorem grow_RawHeader : GrowRel c out (fun c0 => stRawHeader (e.grow E2) c0 out) (stRawHeader e c out) :=
  grow_same _ _ rfl (by unfold stRawHeader; no_hmo)
theorem grow_RawReadFirstByte : GrowRel c out (fun c0 => stRawReadFirstByte (e.grow E2) c0 out) (stRawReadFirstByte e c out) :=
  grow_same _ _ rfl (by unfold stRawReadFirstByte; no_hmo)
theorem grow_ReadTableSizes : GrowRel c out (fun c0 => stReadTableSizes (e.grow E2) c0 out) (stReadTableSizes e c out) :=
  grow_same _ _ rfl (by unfold stReadTableSizes; no_hmo)
theorem grow_ReadHufflenTableCodeSize : GrowRel c out (fun c0 => stReadHufflenTableCodeSize (e.grow E2) c0 out) (stReadHufflenTableCodeSize e c out) :=
  grow_same _ _ rfl (by unfold stReadHufflenTableCodeSize; no_hmo)
theorem grow_ReadLitlenDistTablesCodeSize : GrowRel c out (fun c0 => stReadLitlenDistTablesCodeSize (e.grow E2) c0 out) (stReadLitlenDistTablesCodeSize e c out) :=
  grow_same _ _ rfl (by unfold stReadLitlenDistTablesCodeSize; no_hmo)
theorem grow_ReadExtraBitsCodeSize : GrowRel c out (fun c0 => stReadExtraBitsCodeSize (e.grow E2) c0 out) (stReadExtraBitsCodeSize e c out) :=
  grow_same _ _ rfl (by unfold stReadExtraBitsCodeSize; no_hmo)
theorem grow_DecodeLitlen : GrowRel c out (fun c0 => stDecodeLitlen (e.grow E2) c0 out) (stDecodeLitlen e c out) :=
  grow_same _ _ rfl (by unfold stDecodeLitlen; no_hmo)
theorem grow_HuffDecodeOuterLoop1 : GrowRel c out (fun c0 => stHuffDecodeOuterLoop1 (e.grow E2) c0 out) (stHuffDecodeOuterLoop1 e c out) :=
  grow_same _ _ rfl (by unfold stHuffDecodeOuterLoop1; no_hmo)
theorem grow_ReadExtraBitsLitlen : GrowRel c out (fun c0 => stReadExtraBitsLitlen (e.grow E2) c0 out) (stReadExtraBitsLitlen e c out) :=
  grow_same _ _ rfl (by unfold stReadExtraBitsLitlen; no_hmo)
theorem grow_DecodeDistance : GrowRel c out (fun c0 => stDecodeDistance (e.grow E2) c0 out) (stDecodeDistance e c out) :=
  grow_same _ _ rfl (by unfold stDecodeDistance; no_hmo)
theorem grow_ReadExtraBitsDistance : GrowRel c out (fun c0 => stReadExtraBitsDistance (e.grow E2) c0 out) (stReadExtraBitsDistance e c out) :=
  grow_same _ _ rfl (by unfold stReadExtraBitsDistance; no_hmo)
theorem grow_BlockDone : GrowRel c out (fun c0 => stBlockDone (e.grow E2) c0 out) (stBlockDone e c out) :=
  grow_same _ _ rfl (by unfold stBlockDone; no_hmo)
theorem grow_ReadAdler32 : GrowRel c out (fun c0 => stReadAdler32 (e.grow E2) c0 out) (stReadAdler32 e c out) :=
  grow_same _ _ rfl (by unfold stReadAdler32; no_hmo)

theorem grow_RawStoreFirstByte' (hE : e.outEnd ≤ E2) (F : Ctx → Step)
    (hF : ∀ c0, F c0 = stRawStoreFirstByte (e.grow E2) c0 out) :
    GrowRel c out F (stRawStoreFirstByte e c out) := by
  unfold stRawStoreFirstByte wrBytesLeft
  by_cases h0 : e.outEnd - c.outPos = 0
  · simp only [h0, ↓reduceIte]
    exact Or.inl ⟨rfl, rfl, rfl, rfl⟩
  · have h2 : ¬ ((e.grow E2).outEnd - c.outPos = 0) := by show ¬ (E2 - c.outPos = 0); omega
    simp only [h0, ↓reduceIte]
    split <;> (show F c = _; rw [hF c]; unfold stRawStoreFirstByte wrBytesLeft; simp only [h2, ↓reduceIte, *])

theorem grow_RawMemcpy1' (hE : e.outEnd ≤ E2) (F : Ctx → Step)
    (hF : ∀ c0, F c0 = stRawMemcpy1 (e.grow E2) c0 out) :
    GrowRel c out F (stRawMemcpy1 e c out) := by
  unfold stRawMemcpy1 wrBytesLeft
  by_cases hc : c.r.counter = 0
  · simp only [hc, ↓reduceIte]
    show F c = _; rw [hF c]; unfold stRawMemcpy1; simp only [hc, ↓reduceIte]
  · by_cases h0 : e.outEnd - c.outPos = 0
    · simp only [hc, h0, ↓reduceIte]
      exact Or.inl ⟨rfl, rfl, rfl, rfl⟩
    · have h2 : ¬ ((e.grow E2).outEnd - c.outPos = 0) := by show ¬ (E2 - c.outPos = 0); omega
      simp only [hc, h0, ↓reduceIte]
      show F c = _; rw [hF c]; unfold stRawMemcpy1 wrBytesLeft; simp only [hc, h2, ↓reduceIte]

theorem grow_WriteSymbol' (hE : e.outEnd ≤ E2) (F : Ctx → Step)
    (hF : ∀ c0, F c0 = stWriteSymbol (e.grow E2) c0 out) :
    GrowRel c out F (stWriteSymbol e c out) := by
  unfold stWriteSymbol wrBytesLeft
  by_cases hc : c.r.counter ≥ 256
  · simp only [hc, ↓reduceIte]
    show F c = _; rw [hF c]; unfold stWriteSymbol; simp only [hc, ↓reduceIte]
  · by_cases h0 : e.outEnd - c.outPos > 0
    · have h2 : (e.grow E2).outEnd - c.outPos > 0 := by show E2 - c.outPos > 0; omega
      simp only [hc, h0, ↓reduceIte]
      show F c = _; rw [hF c]; unfold stWriteSymbol wrBytesLeft; simp only [hc, h2, ↓reduceIte]
    · simp only [hc, h0, ↓reduceIte]
      exact Or.inl ⟨rfl, rfl, rfl, rfl⟩

theorem grow_RawStoreFirstByte (hE : e.outEnd ≤ E2) :
    GrowRel c out (fun c0 => stRawStoreFirstByte (e.grow E2) c0 out) (stRawStoreFirstByte e c out) :=
  grow_RawStoreFirstByte' hE _ (fun _ => rfl)
theorem grow_RawMemcpy1 (hE : e.outEnd ≤ E2) :
    GrowRel c out (fun c0 => stRawMemcpy1 (e.grow E2) c0 out) (stRawMemcpy1 e c out) :=
  grow_RawMemcpy1' hE _ (fun _ => rfl)
theorem grow_WriteSymbol (hE : e.outEnd ≤ E2) :
    GrowRel c out (fun c0 => stWriteSymbol (e.grow E2) c0 out) (stWriteSymbol e c out) :=
  grow_WriteSymbol' hE _ (fun _ => rfl)

theorem copyBytes_add (rs : Nat) (ring : Bool) (n m : Nat) : ∀ (out : Array UInt8) (p src : Nat),
    copyBytes out p src rs ring (n + m) = copyBytes (copyBytes out p src rs ring n) (p + n) (src + n) rs ring m := by
  induction n with
  | zero => intro out p src; simp [copyBytes]
  | succ n ih =>
    intro out p src
    have e1 : n + 1 + m = (n + m) + 1 := by omega
    rw [e1]
    conv => lhs; unfold copyBytes
    rw [ih]
    have e2 : p + 1 + n = p + (n + 1) := by omega
    have e3 : src + 1 + n = src + (n + 1) := by omega
    rw [e2, e3]
    rfl

/-- in ring mode only the source position modulo the ring size matters -/
theorem copyBytes_mod (rs : Nat) (n : Nat) : ∀ (out : Array UInt8) (p src src' : Nat), src % rs = src' % rs →
    copyBytes out p src rs true n = copyBytes out p src' rs true n := by
  induction n with
  | zero => intro out p src src' _; rfl
  | succ n ih =>
    intro out p src src' h
    unfold copyBytes
    simp only [↓reduceIte, h]
    exact ih _ _ _ _ (by rw [Nat.add_mod, h, ← Nat.add_mod])

theorem stMatch_setState (e : Env) (c : Ctx) (s : Nat) (out : Array UInt8) :
    stMatch e (setState c s) out = stMatch e c out := by
  unfold stMatch; rfl

/-- source position of a match copy -/
def matchSrc (e : Env) (c : Ctx) : Nat :=
  if e.ring then (c.outPos + e.outLen - c.r.dist) % max e.outLen 1 else c.outPos - c.r.dist

/-- context after copying `n` bytes of a match -/
def matchNext (c : Ctx) (n : Nat) : Ctx :=
  setState { c with r := { c.r with counter := c.r.counter - n }, outPos := c.outPos + n }
    (if c.r.counter - n = 0 then sDecodeLitlen else sWriteLenBytesToEnd)

def matchOob (e : Env) (c : Ctx) : Prop := (c.r.dist > c.outPos ∧ (!e.ring) = true) ∨ c.r.dist > e.outLen

instance (e : Env) (c : Ctx) : Decidable (matchOob e c) := by unfold matchOob; infer_instance

/-- closed form of the match transition -/
theorem stMatch_eq (e : Env) (c : Ctx) (out : Array UInt8) :
    stMatch e c out =
      if matchOob e c then .cont (setState c sDistanceOutOfBounds) out
      else if c.r.counter = 0 then .cont (setState c sDecodeLitlen) out
      else if e.outEnd - c.outPos = 0 then .fin stHasMoreOutput (setState c sWriteLenBytesToEnd) out
      else .cont (matchNext c (min (e.outEnd - c.outPos) c.r.counter))
        (copyBytes out c.outPos (matchSrc e c) (max e.outLen 1) e.ring (min (e.outEnd - c.outPos) c.r.counter)) := by
  unfold stMatch wrBytesLeft matchOob matchSrc matchNext
  dsimp only
  by_cases h1 : (c.r.dist > c.outPos ∧ (!e.ring) = true) ∨ c.r.dist > e.outLen
  · simp only [h1, ↓reduceIte]
  · simp only [h1, ↓reduceIte]
    by_cases h2 : c.r.counter = 0
    · simp only [h2, ↓reduceIte]
    · simp only [h2, ↓reduceIte]
      by_cases h3 : e.outEnd - c.outPos = 0
      · simp only [h3, ↓reduceIte]
      · simp only [h3, ↓reduceIte]
        by_cases h4 : c.r.counter - min (e.outEnd - c.outPos) c.r.counter = 0
        · simp only [h4, ↓reduceIte]
        · simp only [h4, ↓reduceIte]

/-- `HuffDecodeOuterLoop2` / `WriteLenBytesToEnd` under a smaller window: the same transition as
    with the larger window, a stop for lack of room from which the larger-window transition is
    unchanged, or a partial copy that the larger window completes in the same place. -/
theorem grow_Match (hE : e.outEnd ≤ E2) (g : Geo e c out) (hL : e.outEnd ≤ e.outLen) :
    match stMatch e c out with
    | .fin st c1 o1 => st = stHasMoreOutput ∧ o1 = out ∧ stMatch (e.grow E2) c1 out = stMatch (e.grow E2) c out
    | .cont c' o' =>
        stMatch (e.grow E2) c out = .cont c' o' ∨
        (c'.r.state = sWriteLenBytesToEnd ∧
         stMatch e c' o' = .fin stHasMoreOutput (setState c' sWriteLenBytesToEnd) o' ∧
         stMatch (e.grow E2) c' o' = stMatch (e.grow E2) c out) := by
  have ho := g.outLe
  have hoobE : matchOob (e.grow E2) c ↔ matchOob e c := Iff.rfl
  have hsrcE : matchSrc (e.grow E2) c = matchSrc e c := rfl
  rw [stMatch_eq e c out]
  by_cases hoob : matchOob e c
  · rw [if_pos hoob]; left; rw [stMatch_eq, if_pos (hoobE.mpr hoob)]
  · rw [if_neg hoob]
    by_cases hc0 : c.r.counter = 0
    · rw [if_pos hc0]; left; rw [stMatch_eq, if_neg (fun h => hoob (hoobE.mp h)), if_pos hc0]
    · rw [if_neg hc0]
      by_cases h0 : e.outEnd - c.outPos = 0
      · rw [if_pos h0]
        exact ⟨rfl, rfl, stMatch_setState _ _ _ _⟩
      · rw [if_neg h0]
        have h2 : ¬ ((e.grow E2).outEnd - c.outPos = 0) := by show ¬ (E2 - c.outPos = 0); omega
        have hbig : stMatch (e.grow E2) c out = .cont (matchNext c (min (E2 - c.outPos) c.r.counter))
            (copyBytes out c.outPos (matchSrc e c) (max e.outLen 1) e.ring (min (E2 - c.outPos) c.r.counter)) := by
          rw [stMatch_eq, if_neg (fun h => hoob (hoobE.mp h)), if_neg hc0, if_neg h2]; rfl
        by_cases hsame : min (E2 - c.outPos) c.r.counter = min (e.outEnd - c.outPos) c.r.counter
        · left; rw [hbig, hsame]
        · right
          have hn : min (e.outEnd - c.outPos) c.r.counter = e.outEnd - c.outPos := by omega
          have hlt : e.outEnd - c.outPos < c.r.counter := by omega
          rw [hn]
          -- the context after the partial copy
          have hst : (matchNext c (e.outEnd - c.outPos)).r.state = sWriteLenBytesToEnd := by
            unfold matchNext; simp only [setState]; rw [if_neg (by omega)]
          have hcnt' : (matchNext c (e.outEnd - c.outPos)).r.counter = c.r.counter - (e.outEnd - c.outPos) := rfl
          have hop' : (matchNext c (e.outEnd - c.outPos)).outPos = c.outPos + (e.outEnd - c.outPos) := rfl
          have hdist' : (matchNext c (e.outEnd - c.outPos)).r.dist = c.r.dist := rfl
          have hoob' : ¬ matchOob e (matchNext c (e.outEnd - c.outPos)) := by
            unfold matchOob at hoob ⊢
            rw [hop', hdist']
            intro h; apply hoob
            rcases h with ⟨h1, h2⟩ | h
            · exact Or.inl ⟨by omega, h2⟩
            · exact Or.inr h
          have hcnt0 : ¬ ((matchNext c (e.outEnd - c.outPos)).r.counter = 0) := by rw [hcnt']; omega
          refine ⟨hst, ?_, ?_⟩
          · rw [stMatch_eq, if_neg hoob', if_neg hcnt0, if_pos (by rw [hop']; omega)]
          · have hoob2 : ¬ matchOob (e.grow E2) (matchNext c (e.outEnd - c.outPos)) := hoob'
            rw [hbig, stMatch_eq, if_neg hoob2, if_neg hcnt0,
              if_neg (by rw [hop']; show ¬ (E2 - (c.outPos + (e.outEnd - c.outPos)) = 0); omega)]
            have hN : min (E2 - c.outPos) c.r.counter = (e.outEnd - c.outPos) +
                min ((e.grow E2).outEnd - (matchNext c (e.outEnd - c.outPos)).outPos) (matchNext c (e.outEnd - c.outPos)).r.counter := by
              rw [hop', hcnt']; show _ = _ + min (E2 - _) _; omega
            rw [hN, copyBytes_add]
            congr 1
            · -- the contexts
              unfold matchNext
              simp only [setState, Nat.sub_sub, Nat.add_assoc, Env.grow_outEnd]
              rfl
            · -- the source positions
              rw [hop']
              have hsrc : ∀ o : Array UInt8, ∀ n : Nat,
                  copyBytes o (c.outPos + (e.outEnd - c.outPos)) (matchSrc (e.grow E2) (matchNext c (e.outEnd - c.outPos)))
                    (max (e.grow E2).outLen 1) (e.grow E2).ring n =
                  copyBytes o (c.outPos + (e.outEnd - c.outPos)) (matchSrc e c + (e.outEnd - c.outPos)) (max e.outLen 1) e.ring n := by
                intro o n
                unfold matchSrc matchOob at *
                simp only [Env.grow_ring, Env.grow_outLen, hop', hdist']
                by_cases hr : e.ring = true
                · simp only [hr, ↓reduceIte]
                  apply copyBytes_mod
                  rw [Nat.mod_mod, Nat.add_mod, Nat.mod_mod, ← Nat.add_mod]
                  congr 1
                  have : ¬ c.r.dist > e.outLen := fun h => hoob (Or.inr h)
                  omega
                · simp only [hr, Bool.false_eq_true, ↓reduceIte]
                  simp only [Bool.not_eq_true] at hr
                  have : ¬ c.r.dist > c.outPos := fun h => hoob (Or.inl ⟨h, by simp [hr]⟩)
                  congr 1; omega
              exact hsrc _ _

/-- context after copying `n` bytes of a stored block -/
def memcpyNext (c : Ctx) (n : Nat) : Ctx :=
  setState { c with r := { c.r with counter := c.r.counter - n }, inPos := c.inPos + n, outPos := c.outPos + n } sRawMemcpy1

theorem stRawMemcpy2_eq (e : Env) (c : Ctx) (out : Array UInt8) :
    stRawMemcpy2 e c out =
      if c.inPos < e.inp.size then
        .cont (memcpyNext c (min (min (e.outEnd - c.outPos) (e.inp.size - c.inPos)) c.r.counter))
          (copyIn e.inp out c.outPos c.inPos (min (min (e.outEnd - c.outPos) (e.inp.size - c.inPos)) c.r.counter))
      else .fin e.eoi c out := rfl

/-- `RawMemcpy2` under a smaller window. -/
theorem grow_RawMemcpy2 (hE : e.outEnd ≤ E2) (g : Geo e c out) :
    match stRawMemcpy2 e c out with
    | .fin st c1 o1 => st ≠ stHasMoreOutput ∧ stRawMemcpy2 (e.grow E2) c out = .fin st c1 o1
    | .cont c' o' =>
        stRawMemcpy2 (e.grow E2) c out = .cont c' o' ∨
        (c'.r.state = sRawMemcpy1 ∧ stRawMemcpy1 e c' o' = .fin stHasMoreOutput c' o' ∧
         ∃ c2 o2, stRawMemcpy1 (e.grow E2) c' o' = .cont (setState c' sRawMemcpy2) o' ∧
           stRawMemcpy2 (e.grow E2) (setState c' sRawMemcpy2) o' = .cont c2 o2 ∧
           stRawMemcpy2 (e.grow E2) c out = .cont c2 o2) := by
  have ho := g.outLe
  have hi := g.inLe
  rw [stRawMemcpy2_eq e c out]
  by_cases hin : c.inPos < e.inp.size
  · rw [if_pos hin]
    have hbig : stRawMemcpy2 (e.grow E2) c out =
        .cont (memcpyNext c (min (min (E2 - c.outPos) (e.inp.size - c.inPos)) c.r.counter))
          (copyIn e.inp out c.outPos c.inPos (min (min (E2 - c.outPos) (e.inp.size - c.inPos)) c.r.counter)) := by
      rw [stRawMemcpy2_eq]; show (if c.inPos < e.inp.size then _ else _) = _; rw [if_pos hin]; rfl
    by_cases hsame : min (min (E2 - c.outPos) (e.inp.size - c.inPos)) c.r.counter
        = min (min (e.outEnd - c.outPos) (e.inp.size - c.inPos)) c.r.counter
    · left; rw [hbig, hsame]
    · right
      have hn : min (min (e.outEnd - c.outPos) (e.inp.size - c.inPos)) c.r.counter = e.outEnd - c.outPos := by omega
      have hlt : e.outEnd - c.outPos < c.r.counter ∧ e.outEnd - c.outPos < e.inp.size - c.inPos := by omega
      rw [hn]
      have hcnt' : (memcpyNext c (e.outEnd - c.outPos)).r.counter = c.r.counter - (e.outEnd - c.outPos) := rfl
      have hop' : (memcpyNext c (e.outEnd - c.outPos)).outPos = c.outPos + (e.outEnd - c.outPos) := rfl
      have hip' : (memcpyNext c (e.outEnd - c.outPos)).inPos = c.inPos + (e.outEnd - c.outPos) := rfl
      refine ⟨rfl, ?_, ?_⟩
      · unfold stRawMemcpy1 wrBytesLeft
        rw [if_neg (by rw [hcnt']; omega), if_pos (by rw [hop']; omega)]
      · refine ⟨memcpyNext (setState (memcpyNext c (e.outEnd - c.outPos)) sRawMemcpy2)
              (min (min (E2 - (c.outPos + (e.outEnd - c.outPos))) (e.inp.size - (c.inPos + (e.outEnd - c.outPos))))
                (c.r.counter - (e.outEnd - c.outPos))),
            copyIn e.inp (copyIn e.inp out c.outPos c.inPos (e.outEnd - c.outPos)) (c.outPos + (e.outEnd - c.outPos))
              (c.inPos + (e.outEnd - c.outPos))
              (min (min (E2 - (c.outPos + (e.outEnd - c.outPos))) (e.inp.size - (c.inPos + (e.outEnd - c.outPos))))
                (c.r.counter - (e.outEnd - c.outPos))), ?_, ?_, ?_⟩
        · unfold stRawMemcpy1 wrBytesLeft
          rw [if_neg (by rw [hcnt']; omega), if_neg (by rw [hop']; show ¬ (E2 - _ = 0); omega)]
        · rw [stRawMemcpy2_eq]
          show (if (memcpyNext c (e.outEnd - c.outPos)).inPos < e.inp.size then _ else _) = _
          rw [if_pos (by rw [hip']; omega)]
          rfl
        · rw [hbig]
          have hN : min (min (E2 - c.outPos) (e.inp.size - c.inPos)) c.r.counter = (e.outEnd - c.outPos) +
              min (min (E2 - (c.outPos + (e.outEnd - c.outPos))) (e.inp.size - (c.inPos + (e.outEnd - c.outPos))))
                (c.r.counter - (e.outEnd - c.outPos)) := by omega
          rw [hN, copyIn_add]
          congr 1
          unfold memcpyNext
          simp only [setState, Nat.sub_sub, Nat.add_assoc]
  · rw [if_neg hin]
    refine ⟨eoi_ne_hmo e, ?_⟩
    rw [stRawMemcpy2_eq]; show (if c.inPos < e.inp.size then _ else _) = _; rw [if_neg hin]; rfl

theorem GrowRel.lift {F F' : Ctx → Step} {S : Step} (hX : ∀ c0, c0.r.state = c.r.state → F c0 = F' c0)
    (h : GrowRel c out F' S) : GrowRel c out F S := by
  cases S with
  | cont c' o' => show F c = _; rw [hX c rfl]; exact h
  | fin st c1 o1 =>
    rcases h with ⟨h1, h2, h3, h4⟩ | ⟨h1, h2⟩
    · exact Or.inl ⟨h1, h2, h3, by rw [hX c1 h3, hX c rfl]; exact h4⟩
    · exact Or.inr ⟨h1, by rw [hX c rfl]; exact h2⟩

theorem done_ne_hmo : stDone ≠ stHasMoreOutput := by decide
theorem failed_ne_hmo : stFailed ≠ stHasMoreOutput := by decide

/-- Every state except the two copy states: the transition under the smaller window relates to the
    transition under the larger window as `GrowRel` says. -/
theorem step_grow (hE : e.outEnd ≤ E2) (g : Geo e c out) (hne : c.r.state ≠ sRawMemcpy2)
    (hm1 : c.r.state ≠ sHuffDecodeOuterLoop2) (hm2 : c.r.state ≠ sWriteLenBytesToEnd) :
    GrowRel c out (fun c0 => step (e.grow E2) c0 out) (step e c out) := by
  by_cases hStart : c.r.state = sStart
  · rw [step_Start hStart]
    exact GrowRel.lift (fun c0 h0 => step_Start (h0.trans hStart)) (grow_Start)
  by_cases hReadZlibCmf : c.r.state = sReadZlibCmf
  · rw [step_ReadZlibCmf hReadZlibCmf]
    exact GrowRel.lift (fun c0 h0 => step_ReadZlibCmf (h0.trans hReadZlibCmf)) (grow_ReadZlibCmf)
  by_cases hReadZlibFlg : c.r.state = sReadZlibFlg
  · rw [step_ReadZlibFlg hReadZlibFlg]
    exact GrowRel.lift (fun c0 h0 => step_ReadZlibFlg (h0.trans hReadZlibFlg)) (grow_ReadZlibFlg)
  by_cases hReadBlockHeader : c.r.state = sReadBlockHeader
  · rw [step_ReadBlockHeader hReadBlockHeader]
    exact GrowRel.lift (fun c0 h0 => step_ReadBlockHeader (h0.trans hReadBlockHeader)) (grow_ReadBlockHeader)
  by_cases hBlockTypeNoCompression : c.r.state = sBlockTypeNoCompression
  · rw [step_BlockTypeNoCompression hBlockTypeNoCompression]
    exact GrowRel.lift (fun c0 h0 => step_BlockTypeNoCompression (h0.trans hBlockTypeNoCompression)) (grow_BlockTypeNoCompression)
  by_cases hRawHeader : c.r.state = sRawHeader
  · rw [step_RawHeader hRawHeader]
    exact GrowRel.lift (fun c0 h0 => step_RawHeader (h0.trans hRawHeader)) (grow_RawHeader)
  by_cases hRawReadFirstByte : c.r.state = sRawReadFirstByte
  · rw [step_RawReadFirstByte hRawReadFirstByte]
    exact GrowRel.lift (fun c0 h0 => step_RawReadFirstByte (h0.trans hRawReadFirstByte)) (grow_RawReadFirstByte)
  by_cases hRawStoreFirstByte : c.r.state = sRawStoreFirstByte
  · rw [step_RawStoreFirstByte hRawStoreFirstByte]
    exact GrowRel.lift (fun c0 h0 => step_RawStoreFirstByte (h0.trans hRawStoreFirstByte)) (grow_RawStoreFirstByte hE)
  by_cases hRawMemcpy1 : c.r.state = sRawMemcpy1
  · rw [step_RawMemcpy1 hRawMemcpy1]
    exact GrowRel.lift (fun c0 h0 => step_RawMemcpy1 (h0.trans hRawMemcpy1)) (grow_RawMemcpy1 hE)
  by_cases hReadTableSizes : c.r.state = sReadTableSizes
  · rw [step_ReadTableSizes hReadTableSizes]
    exact GrowRel.lift (fun c0 h0 => step_ReadTableSizes (h0.trans hReadTableSizes)) (grow_ReadTableSizes)
  by_cases hReadHufflenTableCodeSize : c.r.state = sReadHufflenTableCodeSize
  · rw [step_ReadHufflenTableCodeSize hReadHufflenTableCodeSize]
    exact GrowRel.lift (fun c0 h0 => step_ReadHufflenTableCodeSize (h0.trans hReadHufflenTableCodeSize)) (grow_ReadHufflenTableCodeSize)
  by_cases hReadLitlenDistTablesCodeSize : c.r.state = sReadLitlenDistTablesCodeSize
  · rw [step_ReadLitlenDistTablesCodeSize hReadLitlenDistTablesCodeSize]
    exact GrowRel.lift (fun c0 h0 => step_ReadLitlenDistTablesCodeSize (h0.trans hReadLitlenDistTablesCodeSize)) (grow_ReadLitlenDistTablesCodeSize)
  by_cases hReadExtraBitsCodeSize : c.r.state = sReadExtraBitsCodeSize
  · rw [step_ReadExtraBitsCodeSize hReadExtraBitsCodeSize]
    exact GrowRel.lift (fun c0 h0 => step_ReadExtraBitsCodeSize (h0.trans hReadExtraBitsCodeSize)) (grow_ReadExtraBitsCodeSize)
  by_cases hDecodeLitlen : c.r.state = sDecodeLitlen
  · rw [step_DecodeLitlen hDecodeLitlen]
    exact GrowRel.lift (fun c0 h0 => step_DecodeLitlen (h0.trans hDecodeLitlen)) (grow_DecodeLitlen)
  by_cases hWriteSymbol : c.r.state = sWriteSymbol
  · rw [step_WriteSymbol hWriteSymbol]
    exact GrowRel.lift (fun c0 h0 => step_WriteSymbol (h0.trans hWriteSymbol)) (grow_WriteSymbol hE)
  by_cases hHuffDecodeOuterLoop1 : c.r.state = sHuffDecodeOuterLoop1
  · rw [step_HuffDecodeOuterLoop1 hHuffDecodeOuterLoop1]
    exact GrowRel.lift (fun c0 h0 => step_HuffDecodeOuterLoop1 (h0.trans hHuffDecodeOuterLoop1)) (grow_HuffDecodeOuterLoop1)
  by_cases hReadExtraBitsLitlen : c.r.state = sReadExtraBitsLitlen
  · rw [step_ReadExtraBitsLitlen hReadExtraBitsLitlen]
    exact GrowRel.lift (fun c0 h0 => step_ReadExtraBitsLitlen (h0.trans hReadExtraBitsLitlen)) (grow_ReadExtraBitsLitlen)
  by_cases hDecodeDistance : c.r.state = sDecodeDistance
  · rw [step_DecodeDistance hDecodeDistance]
    exact GrowRel.lift (fun c0 h0 => step_DecodeDistance (h0.trans hDecodeDistance)) (grow_DecodeDistance)
  by_cases hReadExtraBitsDistance : c.r.state = sReadExtraBitsDistance
  · rw [step_ReadExtraBitsDistance hReadExtraBitsDistance]
    exact GrowRel.lift (fun c0 h0 => step_ReadExtraBitsDistance (h0.trans hReadExtraBitsDistance)) (grow_ReadExtraBitsDistance)
  by_cases hBlockDone : c.r.state = sBlockDone
  · rw [step_BlockDone hBlockDone]
    exact GrowRel.lift (fun c0 h0 => step_BlockDone (h0.trans hBlockDone)) (grow_BlockDone)
  by_cases hReadAdler32 : c.r.state = sReadAdler32
  · rw [step_ReadAdler32 hReadAdler32]
    exact GrowRel.lift (fun c0 h0 => step_ReadAdler32 (h0.trans hReadAdler32)) (grow_ReadAdler32)
  by_cases hD : c.r.state = sDoneForever
  · rw [step_DoneForever hD]
    exact Or.inr ⟨done_ne_hmo, step_DoneForever hD⟩
  · have hF : sDoneForever < c.r.state := by
      simp only [sStart, sReadZlibCmf, sReadZlibFlg, sReadBlockHeader, sBlockTypeNoCompression, sRawHeader,
        sRawMemcpy1, sRawMemcpy2, sReadTableSizes, sReadHufflenTableCodeSize, sReadLitlenDistTablesCodeSize,
        sReadExtraBitsCodeSize, sDecodeLitlen, sWriteSymbol, sReadExtraBitsLitlen, sDecodeDistance,
        sReadExtraBitsDistance, sRawReadFirstByte, sRawStoreFirstByte, sWriteLenBytesToEnd, sBlockDone,
        sHuffDecodeOuterLoop1, sHuffDecodeOuterLoop2, sReadAdler32, sDoneForever] at *
      omega
    have h1 : step e c out = .fin stFailed c out := by unfold step; exact stepAt_failed _ hF e c out
    have h2 : step (e.grow E2) c out = .fin stFailed c out := by unfold step; exact stepAt_failed _ hF _ c out
    rw [h1]
    exact Or.inr ⟨failed_ne_hmo, h2⟩

theorem Geo.grow {e : Env} {E2 : Nat} {c : Ctx} {out : Array UInt8} (g : Geo e c out) (hE : e.outEnd ≤ E2)
    (h2 : E2 ≤ out.size) : Geo (e.grow E2) c out :=
  ⟨g.inLe, Nat.le_trans g.outLe hE, h2⟩

theorem hmo_ne_modelError : stHasMoreOutput ≠ stModelError := by decide

/-- OUTPUT SPLIT at the level of runs: if the run with the smaller output window stops for lack of
    room in `(c1, out1)`, then whatever the run with the larger window resumed from `(c1, out1)` ends
    with, the run with the larger window from the start ends with the same. -/
theorem run_grow (e : Env) (E2 : Nat) (hE : e.outEnd ≤ E2) (hL : e.outEnd ≤ e.outLen) :
    ∀ (f : Nat) (c : Ctx) (out : Array UInt8) (c1 : Ctx) (out1 : Array UInt8),
    Geo e c out → run e f c out = (stHasMoreOutput, c1, out1) →
    ∀ R, Final (e.grow E2) c1 out1 R → Final (e.grow E2) c out R := by
  intro f
  induction f with
  | zero =>
    intro c out c1 out1 g h
    rw [run] at h
    simp only [Prod.mk.injEq] at h
    exact absurd h.1.symm hmo_ne_modelError
  | succ f ih =>
    intro c out c1 out1 g h R hR
    have hok := step_ok g
    by_cases hm : c.r.state = sRawMemcpy2
    · have hsp := grow_RawMemcpy2 (E2 := E2) hE g
      rw [run, step_RawMemcpy2 hm] at h
      rw [step_RawMemcpy2 hm] at hok
      cases hst : stRawMemcpy2 e c out with
      | fin st c' o' =>
        rw [hst] at h hsp
        simp only [Prod.mk.injEq] at h
        exact absurd h.1 hsp.1
      | cont c' o' =>
        rw [hst] at h hsp hok
        simp only at h
        rcases hsp with hsame | ⟨hs', h1, c2, o2, h2, h3, h4⟩
        · exact Final.of_cont (by rw [step_RawMemcpy2 hm]; exact hsame) (ih c' o' c1 out1 hok.geo h R hR)
        · -- the window ended inside the stored data
          cases f with
          | zero => rw [run] at h; simp only [Prod.mk.injEq] at h; exact absurd h.1.symm hmo_ne_modelError
          | succ f =>
            rw [run, step_RawMemcpy1 hs', h1] at h
            simp only [Prod.mk.injEq, true_and] at h
            rw [← h.1, ← h.2] at hR
            have hR2 := Final.step_inv (by rw [step_RawMemcpy1 hs']; exact h2) hR
            have hR3 := Final.step_inv (by rw [step_RawMemcpy2 (c := setState c' sRawMemcpy2) rfl]; exact h3) hR2
            exact Final.of_cont (by rw [step_RawMemcpy2 hm]; exact h4) hR3
    · by_cases hm1 : c.r.state = sHuffDecodeOuterLoop2 ∨ c.r.state = sWriteLenBytesToEnd
      · have hstep : ∀ (e0 : Env) (c0 : Ctx) (o0 : Array UInt8), c0.r.state = c.r.state → step e0 c0 o0 = stMatch e0 c0 o0 := by
          intro e0 c0 o0 h0
          rcases hm1 with h1 | h1
          · exact step_Match1 (h0.trans h1)
          · exact step_Match2 (h0.trans h1)
        have hsp := grow_Match (E2 := E2) hE g hL
        rw [run, hstep e c out rfl] at h
        rw [hstep e c out rfl] at hok
        cases hst : stMatch e c out with
        | fin st c' o' =>
          rw [hst] at h hsp
          simp only [Prod.mk.injEq] at h
          obtain ⟨_, ho', heq⟩ := hsp
          rw [← h.2.1, ← h.2.2, ho'] at hR
          have hc' : step (e.grow E2) c' out = stMatch (e.grow E2) c' out := by
            -- the stop leaves the context in `WriteLenBytesToEnd`
            have : c' = setState c sWriteLenBytesToEnd := by
              rw [stMatch_eq] at hst
              revert hst
              (repeat' split) <;> intro hst <;> first | (simp at hst; done) | (simp only [Step.fin.injEq] at hst; exact hst.2.1.symm)
            rw [this]; exact step_Match2 rfl
          exact Final.of_step_eq (by rw [hstep _ c out rfl, ← heq, hc']) hR
        | cont c' o' =>
          rw [hst] at h hsp hok
          simp only at h
          rcases hsp with hsame | ⟨hs', h1, h2⟩
          · exact Final.of_cont (by rw [hstep _ c out rfl]; exact hsame) (ih c' o' c1 out1 hok.geo h R hR)
          · cases f with
            | zero => rw [run] at h; simp only [Prod.mk.injEq] at h; exact absurd h.1.symm hmo_ne_modelError
            | succ f =>
              rw [run, step_Match2 hs', h1] at h
              simp only [Prod.mk.injEq, true_and] at h
              rw [← h.1, ← h.2] at hR
              refine Final.of_step_eq ?_ hR
              rw [hstep _ c out rfl, step_Match2 (c := setState c' sWriteLenBytesToEnd) rfl, stMatch_setState, h2]
      · have hm1' : c.r.state ≠ sHuffDecodeOuterLoop2 := fun h => hm1 (Or.inl h)
        have hm2' : c.r.state ≠ sWriteLenBytesToEnd := fun h => hm1 (Or.inr h)
        have hsp := step_grow (E2 := E2) hE g hm hm1' hm2'
        rw [run] at h
        cases hst : step e c out with
        | cont c' o' =>
          rw [hst] at h hsp hok
          simp only at h
          exact Final.of_cont hsp (ih c' o' c1 out1 hok.geo h R hR)
        | fin st c' o' =>
          rw [hst] at h hsp
          simp only [Prod.mk.injEq] at h
          obtain ⟨hs, hc, ho⟩ := h
          rcases hsp with ⟨_, h2, _, h4⟩ | ⟨h1, _⟩
          · rw [← hc, ← ho, h2] at hR
            exact Final.of_step_eq h4.symm hR
          · exact absurd hs h1

end Model.Core
