/-
A valid stream through a ring, without side conditions about the flat mirror: the mirror never
fails (whatever part of a valid stream has been supplied and whatever the window, a call is not a
failure), so the ring driver agrees with it call by call for every chunking; and a driver that stops
(its last call is not suspended) has stopped with `Done`.
Helper lemmas for Props/C07.
-/
import MinizProof.Lemmas.CoreRingRun
import MinizProof.Lemmas.CoreFull
import MinizProof.Lemmas.CoreExt
import MinizProof.Lemmas.CoreFlags
set_option linter.unusedVariables false
set_option maxRecDepth 100000
namespace Model.Core
open Spec

/-- Whatever part of an accepted raw stream has been supplied, and whatever the window, one call from
    Start is `Done`, asks for more room, or is starved — never a failure. -/
theorem prefix_never_fails (r : Regs) (a b out : Array UInt8) (outPos budget flags maxDist : Nat)
    (res : Inflated)
    (hstart : r.state = sStart) (hshape : r.rawHeader.size = 4 ∧ r.tableSizes.size = 3 ∧ r.lenCodes.size = 512)
    (hflat : hasFlag flags fNonWrapping = true) (hz : hasFlag flags fParseZlib = false)
    (hstop : hasFlag flags fStopOnBlockBoundary = false) (hpos : outPos ≤ out.size)
    (hspec : inflateSpec (out.extract 0 outPos) maxDist (a ++ b) 0 = .accept res) :
    (decompress r a out outPos budget flags).status = stDone ∨
    (decompress r a out outPos budget flags).status = stHasMoreOutput ∨
    (decompress r a out outPos budget flags).status = stNeedsMoreInput ∨
    (decompress r a out outPos budget flags).status = stFailedCannotMakeProgress := by
  have hg : badGeometry flags out.size outPos = false := by
    unfold badGeometry; simp [hflat]; omega
  by_cases he : isEoi (callRun r a out outPos budget flags).1 = true
  · rw [decompress_eq _ _ _ _ _ _ hg]
    rcases (epilogue_eoi flags outPos (min (outPos + budget) out.size) _ (callRun r a out outPos budget flags).2.1
      (callRun r a out outPos budget flags).2.2 he).1 with h | h | h
    · exact .inr (.inr (.inl h))
    · exact .inr (.inl h)
    · exact .inr (.inr (.inr h))
  · have hne : (callRun r a out outPos budget flags).1 ≠ endOfInput flags := by
      intro h; rw [h, eoi_isEoi] at he; exact he rfl
    rw [← decompress_ext_same r a b out outPos budget flags hne]
    by_cases hfit : outPos + res.out.size ≤ min (outPos + budget) out.size
    · exact .inl (refine_raw_flat r (a ++ b) out outPos budget flags maxDist res hstart hshape hflat hz hstop hpos hspec hfit).1
    · exact .inr (.inl (full_raw_flat r (a ++ b) out outPos budget flags maxDist res hstart hshape hflat hz hstop hpos hspec (by omega)))

/-! ### One more chunk at the end of a driver's list -/

theorem runRing_snoc (flags W : Nat) : ∀ (init : List (Array UInt8)) (x : Array UInt8) (r : Regs) (oR : Array UInt8)
    (p : Nat) (carry : Array UInt8),
    ∃ y, runRing flags W r oR p carry (init ++ [x]) = runRing flags W r oR p carry init ++ [y] := by
  intro init
  induction init with
  | nil => intro x r oR p carry; exact ⟨_, rfl⟩
  | cons c cs ih =>
    intro x r oR p carry
    obtain ⟨y, hy⟩ := ih x (decompress r (carry ++ c) oR p (W - p) flags).r (decompress r (carry ++ c) oR p (W - p) flags).out
      (ringNext W (p + (decompress r (carry ++ c) oR p (W - p) flags).written))
      ((carry ++ c).extract (decompress r (carry ++ c) oR p (W - p) flags).consumed (carry ++ c).size)
    refine ⟨y, ?_⟩
    show (_ :: runRing flags W _ _ _ _ (cs ++ [x])) = (_ :: runRing flags W _ _ _ _ cs) ++ [y]
    rw [hy]; rfl

theorem ringGrants_snoc (flags W : Nat) : ∀ (init : List (Array UInt8)) (x : Array UInt8) (r : Regs) (oR : Array UInt8)
    (p base : Nat) (carry : Array UInt8),
    ∃ g, ringGrants flags W r oR p base carry (init ++ [x]) = ringGrants flags W r oR p base carry init ++ [(x, g)] := by
  intro init
  induction init with
  | nil => intro x r oR p base carry; exact ⟨_, rfl⟩
  | cons c cs ih =>
    intro x r oR p base carry
    obtain ⟨g, hg⟩ := ih x (decompress r (carry ++ c) oR p (W - p) flags).r (decompress r (carry ++ c) oR p (W - p) flags).out
      (ringNext W (p + (decompress r (carry ++ c) oR p (W - p) flags).written))
      (baseNext W base (p + (decompress r (carry ++ c) oR p (W - p) flags).written))
      ((carry ++ c).extract (decompress r (carry ++ c) oR p (W - p) flags).consumed (carry ++ c).size)
    refine ⟨g, ?_⟩
    show (_ :: ringGrants flags W _ _ _ _ _ (cs ++ [x])) = (_ :: ringGrants flags W _ _ _ _ _ cs) ++ [(x, g)]
    rw [hg]; rfl

theorem runCalls_snoc (flags pos0 : Nat) : ∀ (init : List (Array UInt8 × Nat)) (x : Array UInt8 × Nat) (r : Regs)
    (out : Array UInt8) (pos : Nat) (carry : Array UInt8),
    ∃ f, runCalls flags pos0 r out pos carry (init ++ [x]) = runCalls flags pos0 r out pos carry init ++ [f] := by
  intro init
  induction init with
  | nil => intro x r out pos carry; obtain ⟨c, g⟩ := x; exact ⟨_, rfl⟩
  | cons c cs ih =>
    intro x r out pos carry
    obtain ⟨chunk, g⟩ := c
    obtain ⟨f, hf⟩ := ih x (decompress r (carry ++ chunk) out pos (pos0 + g - pos) flags).r
      (decompress r (carry ++ chunk) out pos (pos0 + g - pos) flags).out
      (pos + (decompress r (carry ++ chunk) out pos (pos0 + g - pos) flags).written)
      ((carry ++ chunk).extract (decompress r (carry ++ chunk) out pos (pos0 + g - pos) flags).consumed (carry ++ chunk).size)
    refine ⟨f, ?_⟩
    show (_ :: runCalls flags pos0 _ _ _ _ (cs ++ [x])) = (_ :: runCalls flags pos0 _ _ _ _ cs) ++ [f]
    rw [hf]; rfl

theorem catList_append : ∀ (l1 l2 : List (Array UInt8)), catList (l1 ++ l2) = catList l1 ++ catList l2 := by
  intro l1
  induction l1 with
  | nil => intro l2; simp [catList]
  | cons c cs ih => intro l2; show c ++ catList (cs ++ l2) = (c ++ catList cs) ++ catList l2; rw [ih, Array.append_assoc]

/-- elementwise: suspended ring calls have suspended flat partners -/
theorem RunsAgree.all_suspended : ∀ (rs : List (Res × Nat)) (fs : List Res) (pos : Nat), RunsAgree pos rs fs →
    (∀ x ∈ rs, Model.Core.suspended x.1) → ∀ f ∈ fs, Model.Core.suspended f := by
  intro rs
  induction rs with
  | nil => intro fs pos h _ f hf; cases fs with | nil => simp at hf | cons _ _ => exact absurd h id
  | cons hd tl ih =>
    intro fs pos h hs f hf
    obtain ⟨rr, p⟩ := hd
    cases fs with
    | nil => exact absurd h id
    | cons rf fs =>
      obtain ⟨h1, _, _, _, _, hrest⟩ := h
      rcases List.mem_cons.mp hf with hf | hf
      · subst hf
        have := hs (rr, p) List.mem_cons_self
        unfold Model.Core.suspended at this ⊢
        rw [← h1]; exact this
      · exact ih fs _ hrest (fun x hx => hs x (List.mem_cons_of_mem _ hx)) f hf

theorem suspended_ne_failed {f : Res} (h : suspended f) : f.status ≠ stFailed := by
  rcases h with h | h <;> rw [h] <;> decide

/-- THE RING DRIVER AGREES WITH ITS FLAT MIRROR ON EVERY PART OF A VALID STREAM, for every chunking:
    no hypothesis about the mirror is needed — it never fails (`prefix_never_fails` through the
    call-composition theorem). -/
theorem ring_agrees_valid (flagsR flagsF W maxDist : Nat) (hfl : FlagsRF flagsR flagsF) (hbig : 32768 ≤ W)
    (oR oF : Array UInt8) (hW : oR.size = W) (hg : badGeometry flagsR W 0 = false)
    (hz : hasFlag flagsR fParseZlib = false) (hstop : hasFlag flagsR fStopOnBlockBoundary = false)
    (z : Array UInt8) (res : Inflated) (hspec : inflateSpec #[] maxDist z 0 = .accept res) :
    ∀ (n : Nat) (chunks : List (Array UInt8)) (b : Array UInt8), chunks.length = n → catList chunks ++ b = z →
    W * (chunks.length + 1) ≤ oF.size →
    (∀ x ∈ (runRing flagsR W {} oR 0 #[] chunks).dropLast, suspended x.1) →
    RunsAgree 0 (runRing flagsR W {} oR 0 #[] chunks)
      (runCalls flagsF 0 {} oF 0 #[] (ringGrants flagsR W {} oR 0 0 #[] chunks)) := by
  have hWpos : 0 < W := by omega
  have hrel0 : RingRel W 0 0 oR oF := ⟨hW, fun i hi => absurd hi (Nat.not_lt_zero _), fun i _ hiW hb => by omega⟩
  intro n
  induction n with
  | zero =>
    intro chunks b hlen _ _ _
    have : chunks = [] := List.eq_nil_of_length_eq_zero hlen
    subst this; exact trivial
  | succ n ih =>
    intro chunks b hlen hcat hsz hsus
    rcases List.eq_nil_or_concat chunks with hnil | ⟨init, x, hcx⟩
    · subst hnil; simp at hlen
    rw [List.concat_eq_append] at hcx
    subst hcx
    have hlen' : init.length = n := by simp at hlen; omega
    obtain ⟨y, hy⟩ := runRing_snoc flagsR W init x {} oR 0 #[]
    obtain ⟨g, hgr⟩ := ringGrants_snoc flagsR W init x {} oR 0 0 #[]
    obtain ⟨f, hf⟩ := runCalls_snoc flagsF 0 (ringGrants flagsR W {} oR 0 0 #[] init) (x, g) {} oF 0 #[]
    -- every ring call over `init` is suspended
    have hsusInit : ∀ v ∈ runRing flagsR W {} oR 0 #[] init, suspended v.1 := by
      intro v hv
      apply hsus v
      rw [hy, List.dropLast_concat]; exact hv
    have hszInit : W * (init.length + 1) ≤ oF.size := by
      have e1 := Nat.mul_succ W (init.length + 1)
      simp only [List.length_append, List.length_singleton] at hsz
      have : W * (init.length + 1) ≤ W * (init.length + 1 + 1) := Nat.mul_le_mul_left W (by omega)
      omega
    have hcatInit : catList init ++ (x ++ b) = z := by
      rw [← hcat, catList_append]
      show catList init ++ (x ++ b) = catList init ++ (x ++ #[]) ++ b
      rw [Array.append_empty, Array.append_assoc]
    have hagI := ih init (x ++ b) hlen' hcatInit hszInit (fun v hv => hsusInit v (List.dropLast_subset _ hv))
    have hsusF := RunsAgree.all_suspended _ _ _ hagI hsusInit
    -- the last flat call does not fail
    have hfne : f.status ≠ stFailed := by
      have hG : ringGrants flagsR W {} oR 0 0 #[] (init ++ [x]) ≠ [] := by rw [hgr]; simp
      obtain ⟨c0, g0, calls, hGe⟩ : ∃ c0 g0 calls, ringGrants flagsR W {} oR 0 0 #[] (init ++ [x]) = (c0, g0) :: calls := by
        cases hGd : ringGrants flagsR W {} oR 0 0 #[] (init ++ [x]) with
        | nil => exact absurd hGd hG
        | cons hd tl => exact ⟨hd.1, hd.2, tl, rfl⟩
      have hmono := grantsMono_ringGrants flagsR W (init ++ [x]) {} oR 0 0 #[]
      have hcatG := catChunks_ringGrants flagsR W (init ++ [x]) {} oR 0 0 #[]
      have hFall : runCalls flagsF 0 {} oF 0 #[] ((c0, g0) :: calls) =
          runCalls flagsF 0 {} oF 0 #[] (ringGrants flagsR W {} oR 0 0 #[] init) ++ [f] := by
        rw [← hGe, hgr]; exact hf
      have hgeoF : badGeometry flagsF oF.size 0 = false := by simp [badGeometry, hfl.flat]
      rw [hGe] at hmono hcatG
      have hone := runCalls_last flagsF 0 calls {} oF 0 #[] c0 g0 Bnd_fresh hgeoF hmono
        (by rw [hFall, List.dropLast_concat]; exact hsusF) f (by rw [hFall, List.getLast?_concat])
      dsimp only at hone
      rw [hcatG] at hone
      have hpre : oF.extract 0 0 = #[] := by simp
      have hnever := prefix_never_fails {} (#[] ++ catList (init ++ [x])) b oF 0 (0 + lastGrant ((c0, g0) :: calls) - 0) flagsF maxDist res
        rfl ⟨rfl, rfl, rfl⟩ hfl.flat (by rw [hfl.zlib]; exact hz) (by rw [hfl.stop]; exact hstop) (Nat.zero_le _)
        (by rw [hpre, Array.empty_append]; rw [hcat]; exact hspec)
      rw [hone.1] at hnever
      rcases hnever with h | h | h | h <;> rw [h] <;> decide
    have hnf : ∀ r' ∈ runCalls flagsF 0 {} oF (0 + 0) #[] (ringGrants flagsR W {} oR 0 0 #[] (init ++ [x])), r'.status ≠ stFailed := by
      intro r' hr'
      rw [hgr] at hr'
      have : r' ∈ runCalls flagsF 0 {} oF 0 #[] (ringGrants flagsR W {} oR 0 0 #[] init) ++ [f] := by rw [← hf]; exact hr'
      rcases List.mem_append.mp this with h | h
      · exact suspended_ne_failed (hsusF r' h)
      · simp only [List.mem_singleton] at h; rw [h]; exact hfne
    exact runRing_agrees flagsR flagsF W hfl hbig (init ++ [x]) {} oR oF 0 0 #[] Bnd_fresh hW hg (Or.inl hWpos) hrel0
      (by simpa using hsz) hsus hnf

/-- On any part of a valid stream, the status of the ring driver's last call (the earlier ones being
    suspended) is one of four: `Done`, more room, more input, cannot make progress. -/
theorem ring_last_status_valid (flagsR flagsF W maxDist : Nat) (hfl : FlagsRF flagsR flagsF) (hbig : 32768 ≤ W)
    (oR : Array UInt8) (hW : oR.size = W) (hg : badGeometry flagsR W 0 = false)
    (hz : hasFlag flagsR fParseZlib = false) (hstop : hasFlag flagsR fStopOnBlockBoundary = false)
    (c : Array UInt8) (cs : List (Array UInt8)) (b : Array UInt8) (res : Inflated)
    (hspec : inflateSpec #[] maxDist (catList (c :: cs) ++ b) 0 = .accept res)
    (hsus : ∀ x ∈ (runRing flagsR W {} oR 0 #[] (c :: cs)).dropLast, suspended x.1)
    (lastR : Res × Nat) (hlast : (runRing flagsR W {} oR 0 #[] (c :: cs)).getLast? = some lastR) :
    lastR.1.status = stDone ∨ lastR.1.status = stHasMoreOutput ∨ lastR.1.status = stNeedsMoreInput ∨
    lastR.1.status = stFailedCannotMakeProgress := by
  have hA := ring_agrees_valid flagsR flagsF W maxDist hfl hbig oR (Array.replicate (W * ((c :: cs).length + 1)) 0) hW hg hz hstop
    _ res hspec (c :: cs).length (c :: cs) b rfl rfl (by simp) hsus
  generalize hfs : runCalls flagsF 0 {} (Array.replicate (W * ((c :: cs).length + 1)) 0) 0 #[]
    (ringGrants flagsR W {} oR 0 0 #[] (c :: cs)) = fs at hA
  have hfne : fs ≠ [] := RunsAgree.nonempty _ _ _ hA (by simp [runRing])
  obtain ⟨lastF, hlastF⟩ : ∃ lf, fs.getLast? = some lf := by
    cases h : fs.getLast? with
    | none => exact absurd (List.getLast?_eq_none_iff.mp h) hfne
    | some lf => exact ⟨lf, rfl⟩
  have hsusF := RunsAgree.suspended _ _ _ hA hsus
  obtain ⟨hl1, _⟩ := RunsAgree.last _ _ _ hA lastR lastF hlast hlastF
  have hgeoF : badGeometry flagsF (Array.replicate (W * ((c :: cs).length + 1)) (0 : UInt8)).size 0 = false := by
    simp [badGeometry, hfl.flat]
  have hgr : ringGrants flagsR W {} oR 0 0 #[] (c :: cs) =
      (c, 0 + W) :: ringGrants flagsR W (decompress {} (#[] ++ c) oR 0 (W - 0) flagsR).r
        (decompress {} (#[] ++ c) oR 0 (W - 0) flagsR).out (ringNext W (0 + (decompress {} (#[] ++ c) oR 0 (W - 0) flagsR).written))
        (baseNext W 0 (0 + (decompress {} (#[] ++ c) oR 0 (W - 0) flagsR).written))
        ((#[] ++ c).extract (decompress {} (#[] ++ c) oR 0 (W - 0) flagsR).consumed (#[] ++ c).size) cs := rfl
  have hmono := grantsMono_ringGrants flagsR W (c :: cs) {} oR 0 0 #[]
  have hcat := catChunks_ringGrants flagsR W (c :: cs) {} oR 0 0 #[]
  rw [hgr] at hfs hmono hcat
  have hone := runCalls_last flagsF 0 _ {} (Array.replicate (W * ((c :: cs).length + 1)) 0) 0 #[] c (0 + W)
    Bnd_fresh hgeoF hmono (by rw [hfs]; exact hsusF) lastF (by rw [hfs]; exact hlastF)
  dsimp only at hone
  rw [hcat] at hone
  have hpre : (Array.replicate (W * ((c :: cs).length + 1)) (0 : UInt8)).extract 0 0 = #[] := by simp
  have hnever := prefix_never_fails {} (#[] ++ catList (c :: cs)) b (Array.replicate (W * ((c :: cs).length + 1)) 0) 0
    (0 + lastGrant ((c, 0 + W) :: ringGrants flagsR W (decompress {} (#[] ++ c) oR 0 (W - 0) flagsR).r
        (decompress {} (#[] ++ c) oR 0 (W - 0) flagsR).out (ringNext W (0 + (decompress {} (#[] ++ c) oR 0 (W - 0) flagsR).written))
        (baseNext W 0 (0 + (decompress {} (#[] ++ c) oR 0 (W - 0) flagsR).written))
        ((#[] ++ c).extract (decompress {} (#[] ++ c) oR 0 (W - 0) flagsR).consumed (#[] ++ c).size) cs) - 0)
    flagsF maxDist res rfl ⟨rfl, rfl, rfl⟩ hfl.flat (by rw [hfl.zlib]; exact hz) (by rw [hfl.stop]; exact hstop) (Nat.zero_le _)
    (by rw [hpre, Array.empty_append]; exact hspec)
  rw [hone.1, ← hl1] at hnever
  exact hnever

end Model.Core
