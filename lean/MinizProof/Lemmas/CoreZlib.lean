/-
The zlib wrapper in the refinement: header bytes, trailer bytes, checksum comparison.
Helper lemmas for Props/C03, C09.
-/
import MinizProof.Lemmas.CoreRefine
set_option linter.unusedVariables false
set_option linter.unusedSimpArgs false
namespace Model.Core
open Spec
variable {e : Env} {c : Ctx} {outA : Array UInt8}

/-- `Start` of a zlib stream. -/
theorem micro_start_zlib (hs : c.r.state = sStart) (hz : hasFlag e.flags fParseZlib = true) :
    ∃ c1, step e c outA = .cont c1 outA ∧ c1.r.state = sReadZlibCmf ∧ c1.r.numBits = 0 ∧ c1.r.bitBuf = 0 ∧
      c1.r.checkAdler32 = 1 ∧ c1.r.zAdler32 = 1 ∧
      c1.inPos = c.inPos ∧ c1.outPos = c.outPos ∧ c1.r.rawHeader = c.r.rawHeader ∧
      c1.r.tableSizes = c.r.tableSizes ∧ c1.r.lenCodes = c.r.lenCodes := by
  rw [step_Start hs]
  unfold stStart
  simp only [hz, ↓reduceIte]
  exact ⟨_, rfl, rfl, rfl, rfl, rfl, rfl, rfl, rfl, rfl, rfl, rfl⟩

theorem micro_cmf {b : UInt8} (hs : c.r.state = sReadZlibCmf) (hb : e.inp[c.inPos]? = some b) :
    step e c outA = .cont (setState { c with r := { c.r with zHeader0 := b.toNat }, inPos := c.inPos + 1 } sReadZlibFlg) outA := by
  rw [step_ReadZlibCmf hs]; unfold stReadZlibCmf; rw [hb]

theorem micro_flg {b : UInt8} (hs : c.r.state = sReadZlibFlg) (hb : e.inp[c.inPos]? = some b)
    (hflat : e.ring = false) (hv : zlibHeaderValid c.r.zHeader0 b.toNat = true) :
    step e c outA = .cont (setState { c with r := { c.r with zHeader1 := b.toNat }, inPos := c.inPos + 1 } sReadBlockHeader) outA := by
  rw [step_ReadZlibFlg hs]; unfold stReadZlibFlg; rw [hb]
  simp only [hv, hflat, Bool.not_true, Bool.false_and, Bool.or_self, Bool.false_eq_true, ↓reduceIte]

/-- `BlockDone` after the final block of a zlib stream (fewer than 8 bits buffered). -/
theorem micro_blockDone_final_zlib (hs : c.r.state = sBlockDone) (hf : c.r.finish ≠ 0) (h8 : c.r.numBits < 8)
    (hz : hasFlag e.flags fParseZlib = true) :
    ∃ c1, step e c outA = .cont c1 outA ∧ c1.r.state = sReadAdler32 ∧ c1.r.counter = 0 ∧ c1.r.numBits = 0 ∧
      c1.inPos = c.inPos ∧ c1.outPos = c.outPos ∧ c1.r.zAdler32 = c.r.zAdler32 ∧ c1.r.checkAdler32 = c.r.checkAdler32 := by
  rw [step_BlockDone hs]
  unfold stBlockDone
  have hm : c.r.numBits % 8 = c.r.numBits := Nat.mod_eq_of_lt h8
  simp only [hf, ne_eq, not_false_eq_true, ↓reduceIte, hz, hm, Nat.sub_self, Nat.zero_div,
    Nat.zero_min, Nat.mul_zero, Nat.sub_zero]
  exact ⟨_, rfl, rfl, rfl, rfl, rfl, rfl, rfl, rfl⟩

/-- One trailer byte (`ReadAdler32`, counter < 4, empty bit buffer). -/
theorem micro_adler_byte {b : UInt8} {k : Nat} (hs : c.r.state = sReadAdler32) (hc : c.r.counter = k) (hk : k < 4)
    (hnb : c.r.numBits = 0) (hb : e.inp[c.inPos]? = some b) :
    ∃ c1, step e c outA = .cont c1 outA ∧ c1.r.state = sReadAdler32 ∧ c1.r.counter = k + 1 ∧ c1.r.numBits = 0 ∧
      c1.inPos = c.inPos + 1 ∧ c1.outPos = c.outPos ∧
      c1.r.zAdler32 = (c.r.zAdler32 * 256 + b.toNat) % 2 ^ 32 ∧ c1.r.checkAdler32 = c.r.checkAdler32 := by
  rw [step_ReadAdler32 hs]
  unfold stReadAdler32
  have h4 : c.r.counter < 4 := by omega
  simp only [h4, ↓reduceIte, hnb, ne_eq, not_true_eq_false, hb]
  exact ⟨_, rfl, hs, by simp [hc], (by first | rfl | exact hnb), rfl, rfl, rfl, rfl⟩

theorem micro_adler_done (hs : c.r.state = sReadAdler32) (hc : c.r.counter = 4) :
    step e c outA = .cont (setState c sDoneForever) outA := by
  rw [step_ReadAdler32 hs]
  unfold stReadAdler32
  have h4 : ¬ c.r.counter < 4 := by omega
  simp only [h4, ↓reduceIte]

theorem trailer_value (a b c d : Nat) (ha : a < 256) (hb : b < 256) (hc : c < 256) (hd : d < 256) :
    ((((1 * 256 + a) % 2 ^ 32 * 256 + b) % 2 ^ 32 * 256 + c) % 2 ^ 32 * 256 + d) % 2 ^ 32 =
      ((a * 256 + b) * 256 + c) * 256 + d := by
  omega

/-- The automaton's path through a whole zlib stream (flat buffer, room for the plaintext): it ends
    in `DoneForever` with the plaintext written, the trailer in `zAdler32`, `checkAdler32` still 1
    (the per-call checksum is added by the epilogue) and the cursor just behind the trailer. -/
theorem zlib_run (r : Regs) (inp out : Array UInt8) (outPos budget flags maxDist : Nat) (res : Inflated)
    (cmf flg a b c d : UInt8)
    (hstart : r.state = sStart) (hshape : r.rawHeader.size = 4 ∧ r.tableSizes.size = 3 ∧ r.lenCodes.size = 512)
    (hflat : hasFlag flags fNonWrapping = true) (hz : hasFlag flags fParseZlib = true)
    (hstop : hasFlag flags fStopOnBlockBoundary = false) (hpos : outPos ≤ out.size)
    (h0 : inp[0]? = some cmf) (h1 : inp[1]? = some flg) (hv : zlibHeaderValid cmf.toNat flg.toNat = true)
    (hspec : inflateSpec (out.extract 0 outPos) maxDist inp 16 = .accept res)
    (ha : inp[(res.bitsUsed + 7) / 8]? = some a) (hb : inp[(res.bitsUsed + 7) / 8 + 1]? = some b)
    (hc : inp[(res.bitsUsed + 7) / 8 + 2]? = some c) (hd : inp[(res.bitsUsed + 7) / 8 + 3]? = some d)
    (hroom : outPos + res.out.size ≤ min (outPos + budget) out.size) :
    ∃ cD oD, run { inp := inp, flags := flags, outLen := out.size, outEnd := min (outPos + budget) out.size }
        (callFuel r inp (min (outPos + budget) out.size - outPos)) { r := r, inPos := 0, outPos := outPos } out =
        (stDone, cD, oD) ∧
      cD.r.numBits = 0 ∧ cD.inPos = (res.bitsUsed + 7) / 8 + 4 ∧ cD.outPos = outPos + res.out.size ∧
      cD.r.checkAdler32 = 1 ∧
      cD.r.zAdler32 = ((a.toNat * 256 + b.toNat) * 256 + c.toNat) * 256 + d.toNat ∧
      oD.size = out.size ∧ (∀ i, i < outPos + res.out.size → oD[i]? = (out.extract 0 outPos ++ res.out)[i]?) := by
  have hg : badGeometry flags out.size outPos = false := by
    unfold badGeometry; simp [hflat]; omega
  unfold inflateSpec at hspec
  cases hbl : inflateBlocks (out.extract 0 outPos) maxDist inp (fuelFor inp) 16 #[] #[] with
  | accept R =>
    obtain ⟨pos', o', blocks⟩ := R
    simp only [hbl, Verdict.accept.injEq] at hspec
    subst hspec
    simp only at hroom ha hb hc hd ⊢
    obtain ⟨e, he⟩ : ∃ e : Env, e = { inp := inp, flags := flags, outLen := out.size, outEnd := min (outPos + budget) out.size } := ⟨_, rfl⟩
    have hflat' : e.ring = false := by rw [he]; simp [Env.ring, hflat]
    have hend : e.outEnd ≤ e.outLen := by rw [he]; show min _ _ ≤ out.size; omega
    have hstop' : hasFlag e.flags fStopOnBlockBoundary = false := by rw [he]; exact hstop
    have hz' : hasFlag e.flags fParseZlib = true := by rw [he]; exact hz
    have hinp : e.inp = inp := by rw [he]
    have hpre : (out.extract 0 outPos).size = outPos := by simp; omega
    -- Start, CMF, FLG
    obtain ⟨c1, st1, hs1, hn1, hb1, hchk1, hza1, hi1, ho1, rh1, ts1, lc1⟩ :=
      micro_start_zlib (e := e) (c := { r := r, inPos := 0, outPos := outPos }) (outA := out) hstart hz'
    have hi1' : c1.inPos = 0 := hi1
    have st2 := micro_cmf (e := e) (c := c1) (outA := out) (b := cmf) hs1 (by rw [hi1', hinp]; exact h0)
    have st3 := micro_flg (e := e) (outA := out) (b := flg)
      (c := setState { c1 with r := { c1.r with zHeader0 := cmf.toNat }, inPos := c1.inPos + 1 } sReadZlibFlg) rfl
      (by show e.inp[c1.inPos + 1]? = _; rw [hi1', hinp]; exact h1) hflat' hv
    obtain ⟨c3, hc3⟩ : ∃ x, x = setState { (setState { c1 with r := { c1.r with zHeader0 := cmf.toNat }, inPos := c1.inPos + 1 } sReadZlibFlg) with
        r := { (setState { c1 with r := { c1.r with zHeader0 := cmf.toNat }, inPos := c1.inPos + 1 } sReadZlibFlg).r with zHeader1 := flg.toNat },
        inPos := (setState { c1 with r := { c1.r with zHeader0 := cmf.toNat }, inPos := c1.inPos + 1 } sReadZlibFlg).inPos + 1 } sReadBlockHeader := ⟨_, rfl⟩
    rw [← hc3] at st3
    have k1 : c3.r.state = sReadBlockHeader := by rw [hc3]; rfl
    have k2 : c3.inPos = 2 := by rw [hc3]; show c1.inPos + 1 + 1 = 2; omega
    have k3 : c3.r.numBits = 0 := by rw [hc3]; exact hn1
    have k4 : c3.r.bitBuf = 0 := by rw [hc3]; exact hb1
    have k5 : c3.outPos = outPos := by rw [hc3]; exact ho1
    have k6 : c3.r.checkAdler32 = 1 := by rw [hc3]; exact hchk1
    have k7 : c3.r.zAdler32 = 1 := by rw [hc3]; exact hza1
    have hsz2 : 2 ≤ inp.size := by
      by_cases hlt : 1 < inp.size
      · omega
      · simp [Array.getElem?_eq_none (Nat.le_of_not_lt hlt)] at h1
    have hsim3 : Sim e c3 out 16 (out.extract 0 outPos ++ #[]) := by
      refine ⟨⟨by rw [k2, hinp]; exact hsz2, by rw [k2, k3], by rw [k3, k4]; decide, by rw [k3]; intro i hi; omega⟩,
        by rw [k3]; decide, by rw [k5]; simp; omega, ?_, by rw [he]⟩
      intro i hi
      simp only [Array.append_empty] at hi ⊢
      rw [Array.getElem?_extract]
      have : i < min outPos out.size - 0 := by simpa using hi
      simp only [this, ↓reduceIte, Nat.zero_add]
    have hsh3 : Shape c3 := by
      rw [hc3]; exact ⟨by show c1.r.rawHeader.size = 4; rw [rh1]; exact hshape.1,
        by show c1.r.tableSizes.size = 3; rw [ts1]; exact hshape.2.1, by show c1.r.lenCodes.size = 512; rw [lc1]; exact hshape.2.2⟩
    obtain ⟨cB, outB, rB, hsB, hsimB, hfB, zB⟩ :=
      sim_blocks hflat' hend hstop' (out.extract 0 outPos) maxDist (fuelFor inp) 16 #[] #[] (pos', o', blocks) c3 out
        (by rw [hinp]; exact hbl) k1 hsim3 hsh3 (by rw [hpre]; rw [he]; exact hroom)
    simp only at hsimB
    have hrepB := hsimB.rep
    have hpeB := hrepB.posEq
    have h8B := hsimB.nb8
    have hinB : cB.inPos = (pos' + 7) / 8 := by omega
    -- trailer
    obtain ⟨cA, stA, hsA, hcA, hnA, hiA, hoA, hzA, hkA⟩ :=
      micro_blockDone_final_zlib (e := e) (c := cB) (outA := outB) hsB hfB h8B hz'
    obtain ⟨d1, sd1, hs_1, hc_1, hn_1, hi_1, ho_1, hz_1, hk_1⟩ :=
      micro_adler_byte (e := e) (c := cA) (outA := outB) (b := a) (k := 0) hsA hcA (by omega) hnA (by rw [hiA, hinB, hinp]; exact ha)
    obtain ⟨d2, sd2, hs_2, hc_2, hn_2, hi_2, ho_2, hz_2, hk_2⟩ :=
      micro_adler_byte (e := e) (c := d1) (outA := outB) (b := b) (k := 1) hs_1 hc_1 (by omega) hn_1 (by rw [hi_1, hiA, hinB, hinp]; exact hb)
    obtain ⟨d3, sd3, hs_3, hc_3, hn_3, hi_3, ho_3, hz_3, hk_3⟩ :=
      micro_adler_byte (e := e) (c := d2) (outA := outB) (b := c) (k := 2) hs_2 hc_2 (by omega) hn_2 (by rw [hi_2, hi_1, hiA, hinB, hinp]; exact hc)
    obtain ⟨d4, sd4, hs_4, hc_4, hn_4, hi_4, ho_4, hz_4, hk_4⟩ :=
      micro_adler_byte (e := e) (c := d3) (outA := outB) (b := d) (k := 3) hs_3 hc_3 (by omega) hn_3 (by rw [hi_3, hi_2, hi_1, hiA, hinB, hinp]; exact hd)
    have sd5 := micro_adler_done (e := e) (c := d4) (outA := outB) hs_4 hc_4
    have hreach : Reaches e { r := r, inPos := 0, outPos := outPos } out (setState d4 sDoneForever) outB :=
      (Reaches.of_step st1).trans ((Reaches.of_step st2).trans ((Reaches.of_step st3).trans (rB.trans
        ((Reaches.of_step stA).trans ((Reaches.of_step sd1).trans ((Reaches.of_step sd2).trans
          ((Reaches.of_step sd3).trans ((Reaches.of_step sd4).trans (Reaches.of_step sd5)))))))))
    rw [he] at hreach
    have hrun := run_of_reaches_done hg hreach rfl
    refine ⟨setState d4 sDoneForever, outB, hrun, hn_4, ?_, ?_, ?_, ?_, ?_, ?_⟩
    · show d4.inPos = _; rw [hi_4, hi_3, hi_2, hi_1, hiA, hinB]
    · show d4.outPos = _; rw [ho_4, ho_3, ho_2, ho_1, hoA, hsimB.outPos]; simp; omega
    · show d4.r.checkAdler32 = 1; rw [hk_4, hk_3, hk_2, hk_1, hkA, zB.chk, k6]
    · show d4.r.zAdler32 = _
      rw [hz_4, hz_3, hz_2, hz_1, hzA, zB.zA, k7]
      exact trailer_value _ _ _ _ a.toNat_lt b.toNat_lt c.toNat_lt d.toNat_lt
    · rw [hsimB.size, he]
    · intro i hi
      exact hsimB.outEq i (by simp; omega)
  | reject w => simp [hbl] at hspec
  | truncated p => simp [hbl] at hspec
  | fuel => simp [hbl] at hspec

/-- ONE-SHOT REFINEMENT, zlib format, flat output buffer: status, counts and bytes of one call on a
    stream whose header is valid and whose DEFLATE body the reference decoder accepts. The trailer is
    compared with the Adler-32 of the produced bytes unless the caller asked to ignore it. -/
theorem refine_zlib_flat (r : Regs) (inp out : Array UInt8) (outPos budget flags maxDist : Nat) (res : Inflated)
    (cmf flg a b c d : UInt8)
    (hstart : r.state = sStart) (hshape : r.rawHeader.size = 4 ∧ r.tableSizes.size = 3 ∧ r.lenCodes.size = 512)
    (hflat : hasFlag flags fNonWrapping = true) (hz : hasFlag flags fParseZlib = true)
    (hstop : hasFlag flags fStopOnBlockBoundary = false) (hpos : outPos ≤ out.size)
    (h0 : inp[0]? = some cmf) (h1 : inp[1]? = some flg) (hv : zlibHeaderValid cmf.toNat flg.toNat = true)
    (hspec : inflateSpec (out.extract 0 outPos) maxDist inp 16 = .accept res)
    (ha : inp[(res.bitsUsed + 7) / 8]? = some a) (hb : inp[(res.bitsUsed + 7) / 8 + 1]? = some b)
    (hc : inp[(res.bitsUsed + 7) / 8 + 2]? = some c) (hd : inp[(res.bitsUsed + 7) / 8 + 3]? = some d)
    (hroom : outPos + res.out.size ≤ min (outPos + budget) out.size) :
    (decompress r inp out outPos budget flags).status =
      (if hasFlag flags fIgnoreAdler = false ∧
          adler32 1 res.out.toList ≠ ((a.toNat * 256 + b.toNat) * 256 + c.toNat) * 256 + d.toNat
       then stAdler32Mismatch else stDone) ∧
    (decompress r inp out outPos budget flags).written = res.out.size ∧
    (decompress r inp out outPos budget flags).consumed = (res.bitsUsed + 7) / 8 + 4 ∧
    (∀ i, i < res.out.size → (decompress r inp out outPos budget flags).out[outPos + i]? = res.out[i]?) := by
  obtain ⟨cD, oD, hrun, hnD, hiD, hoD, hchk, hzA, hszD, hbytes⟩ :=
    zlib_run r inp out outPos budget flags maxDist res cmf flg a b c d hstart hshape hflat hz hstop hpos h0 h1 hv
      hspec ha hb hc hd hroom
  have hg : badGeometry flags out.size outPos = false := by
    unfold badGeometry; simp [hflat]; omega
  have hdec : decompress r inp out outPos budget flags =
      epilogue flags outPos (min (outPos + budget) out.size) stDone cD oD := by
    unfold decompress
    rw [hg]
    simp only [Bool.false_eq_true, ↓reduceIte]
    rw [hrun]
  rw [hdec]
  have hundo : exitUndo stDone cD = 0 := by
    unfold exitUndo; simp [stDone, stNeedsMoreInput, stFailedCannotMakeProgress, hnD]
  have hx : exitStatus stDone cD (min (outPos + budget) out.size) = stDone := exitStatus_of_ne _ _ _ (by decide)
  have hpre : (out.extract 0 outPos).size = outPos := by simp; omega
  -- the bytes this call wrote are the plaintext
  have hseg : (oD.extract outPos cD.outPos).toList = res.out.toList := by
    congr 1
    apply Array.ext_getElem?
    intro i
    rw [Array.getElem?_extract, hoD]
    have e1 : min (outPos + res.out.size) oD.size = outPos + res.out.size := by rw [hszD]; omega
    rw [e1]
    by_cases hi : i < outPos + res.out.size - outPos
    · simp only [hi, ↓reduceIte]
      rw [hbytes (outPos + i) (by omega), Array.getElem?_append_right (by omega)]
      congr 1; omega
    · simp only [hi, ↓reduceIte]
      rw [Array.getElem?_eq_none (by omega)]
  refine ⟨?_, ?_, ?_, ?_⟩
  · unfold epilogue needAdler
    simp only [hx, hz, Bool.true_or, Bool.and_true]
    by_cases hig : hasFlag flags fIgnoreAdler = true
    · simp only [hig, Bool.not_true, Bool.false_and, Bool.false_eq_true, ↓reduceIte, false_and]
      simp
    · simp only [Bool.not_eq_true] at hig
      simp only [hig, Bool.not_false, Bool.true_and, true_and]
      have hge : decide (stDone ≥ 0) = true := by decide
      simp only [hge, ↓reduceIte, beq_self_eq_true, Bool.true_and]
      have hreg : (exitRegs stDone cD).checkAdler32 = 1 := by unfold exitRegs; exact hchk
      have hreg2 : (exitRegs stDone cD).zAdler32 = ((a.toNat * 256 + b.toNat) * 256 + c.toNat) * 256 + d.toNat := by
        unfold exitRegs; exact hzA
      rw [hreg, hreg2, hseg]
      by_cases heq : adler32 1 res.out.toList = ((a.toNat * 256 + b.toNat) * 256 + c.toNat) * 256 + d.toNat
      · simp [heq]
      · simp [heq]
  · rw [epilogue_written, hoD]; omega
  · rw [epilogue_consumed, hundo, hiD]; omega
  · intro i hi
    rw [epilogue_out, hbytes (outPos + i) (by omega), Array.getElem?_append_right (by omega)]
    congr 1; omega

/-- What an accepted zlib stream consists of, according to the reference decoder. -/
theorem zlibSpec_inv {pre : Array UInt8} {maxDist : Nat} {data : Array UInt8} {chk : Bool} {zr : ZInflated}
    (h : zlibSpec pre maxDist data chk = .accept zr) :
    ∃ cmf flg a b c d : UInt8, data[0]? = some cmf ∧ data[1]? = some flg ∧
      zlibHeaderValid cmf.toNat flg.toNat = true ∧ inflateSpec pre maxDist data 16 = .accept zr.inner ∧
      data[(zr.inner.bitsUsed + 7) / 8]? = some a ∧ data[(zr.inner.bitsUsed + 7) / 8 + 1]? = some b ∧
      data[(zr.inner.bitsUsed + 7) / 8 + 2]? = some c ∧ data[(zr.inner.bitsUsed + 7) / 8 + 3]? = some d ∧
      (chk = true → adler32 1 zr.inner.out.toList = ((a.toNat * 256 + b.toNat) * 256 + c.toNat) * 256 + d.toNat) ∧
      zr.bytesUsed = (zr.inner.bitsUsed + 7) / 8 + 4 := by
  unfold zlibSpec at h
  cases h0 : data[0]? with
  | none => simp [h0] at h
  | some cmf =>
    cases h1 : data[1]? with
    | none => simp [h0, h1] at h
    | some flg =>
      simp only [h0, h1] at h
      by_cases hv : zlibHeaderValid cmf.toNat flg.toNat = true
      · simp only [hv, Bool.not_true, Bool.false_eq_true, ↓reduceIte] at h
        cases hi : inflateSpec pre maxDist data 16 with
        | accept r =>
          simp only [hi] at h
          cases ha : data[(r.bitsUsed + 7) / 8]? with
          | none => simp [ha] at h
          | some a =>
            cases hb : data[(r.bitsUsed + 7) / 8 + 1]? with
            | none => simp [ha, hb] at h
            | some b =>
              cases hc : data[(r.bitsUsed + 7) / 8 + 2]? with
              | none => simp [ha, hb, hc] at h
              | some c =>
                cases hd : data[(r.bitsUsed + 7) / 8 + 3]? with
                | none => simp [ha, hb, hc, hd] at h
                | some d =>
                  simp only [ha, hb, hc, hd] at h
                  split at h
                  · simp at h
                  · rename_i hne
                    simp only [Verdict.accept.injEq] at h
                    subst h
                    refine ⟨cmf, flg, a, b, c, d, rfl, rfl, hv, rfl, ha, hb, hc, hd, ?_, rfl⟩
                    intro hchk
                    simp only [hchk, Bool.true_and, ne_eq, decide_not, Bool.not_eq_eq_eq_not, Bool.not_true,
                      decide_eq_false_iff_not, Decidable.not_not] at hne
                    exact hne.symm
        | reject w => simp [hi] at h
        | truncated p => simp [hi] at h
        | fuel => simp [hi] at h
      · simp [hv] at h

end Model.Core
