/-
Encoder specification, stored blocks: 3 header bits, zero padding to the next byte boundary (so the
block's bits depend on where it starts), LEN, its complement, the bytes. The reference decoder reads
the block back to exactly those bytes. Helper lemmas for Props/C10.
-/
import MinizProof.Lemmas.EncBlocks
import MinizProof.Lemmas.CoreBlocks
set_option maxRecDepth 100000
namespace Model.Core
open Spec

def byteBits : List Nat → List Nat
  | [] => []
  | b :: bs => bitsLE b 8 ++ byteBits bs

theorem byteBits_length : ∀ bs : List Nat, (byteBits bs).length = 8 * bs.length := by
  intro bs
  induction bs with
  | nil => rfl
  | cons b bs ih => simp [byteBits, bitsLE_length, ih]; omega

/-- eight bits at a byte boundary determine the byte -/
theorem byte_of_hasBits (data : Array UInt8) (k v : Nat) (hv : v < 256) (h : HasBits data (8 * k) (bitsLE v 8)) :
    data[k]? = some (UInt8.ofNat v) := by
  have hb := bitsAt_of_hasBits data 8 (8 * k) v (by omega) h
  have h0 := h 0 (by simp [bitsLE])
  unfold bitAt at h0
  have e : (8 * k + 0) / 8 = k := by omega
  rw [e] at h0
  cases hd : data[k]? with
  | none => rw [hd] at h0; exact absurd h0 (by simp)
  | some b =>
    have := bitsAt_byte8 hd
    rw [hb] at this
    have hvb : v = b.toNat := Option.some.inj this
    rw [hvb]
    simp

theorem copyStored_enc (data : Array UInt8) : ∀ (bytes : List Nat) (k : Nat) (out : Array UInt8),
    (∀ b ∈ bytes, b < 256) → HasBits data (8 * k) (byteBits bytes) →
    copyStored data k out bytes.length = some (out ++ (bytes.map Nat.toUInt8).toArray) := by
  intro bytes
  induction bytes with
  | nil => intro k out _ _; simp [copyStored]
  | cons b bs ih =>
    intro k out hb h
    obtain ⟨h1, h2⟩ := HasBits.append (a := bitsLE b 8) (b := byteBits bs) h
    rw [bitsLE_length] at h2
    show copyStored data k out (bs.length + 1) = _
    unfold copyStored
    rw [byte_of_hasBits data k b (hb b (by simp)) h1]
    dsimp only
    rw [show 8 * k + 8 = 8 * (k + 1) by omega] at h2
    rw [ih (k + 1) _ (fun x hx => hb x (by simp [hx])) h2]
    simp [Nat.toUInt8]

theorem expandToks_lits (pre : Array UInt8) : ∀ (bytes : List Nat) (out : Array UInt8),
    expandToks pre out (bytes.map SymTok.lit) = out ++ (bytes.map Nat.toUInt8).toArray := by
  intro bytes
  induction bytes with
  | nil => intro out; simp [expandToks]
  | cons b bs ih =>
    intro out
    show expandToks pre (out.push b.toUInt8) (bs.map SymTok.lit) = _
    rw [ih]
    simp

def padLen (pos : Nat) : Nat := (8 - (pos + 3) % 8) % 8

/-- a stored block holding `bytes` -/
def encStored (final : Bool) (bytes : List Nat) : EncBlock :=
  { bits := fun pos => bitsLE (if final then 1 else 0) 3 ++ (List.replicate (padLen pos) 0 ++
      (bitsLE bytes.length 16 ++ (bitsLE (65535 - bytes.length) 16 ++ byteBits bytes))),
    final := final, toks := bytes.map SymTok.lit, litLens := Array.replicate 256 1, distLens := #[] }

theorem encStored_decodes (pre : Array UInt8) (maxDist : Nat) (final : Bool) (bytes : List Nat)
    (hlen : bytes.length ≤ 65535) (hb : ∀ b ∈ bytes, b < 256) :
    (encStored final bytes).Decodes pre maxDist := by
  intro data fuel pos out _ _ h
  obtain ⟨b0, h⟩ := HasBits.append (a := bitsLE (if final then 1 else 0) 3) h
  obtain ⟨_, h⟩ := h.append
  obtain ⟨b2, h⟩ := h.append
  obtain ⟨b3, b4⟩ := h.append
  simp only [bitsLE_length, List.length_replicate] at b2 b3 b4
  have hhdr := bitsAt_of_hasBits data 3 pos (if final then 1 else 0) (by cases final <;> decide) b0
  have hbp : pos + 3 + padLen pos = 8 * ((pos + 3 + 7) / 8) := by unfold padLen; omega
  rw [hbp] at b2 b3 b4
  have hl := bitsAt_of_hasBits data 16 _ bytes.length (by omega) b2
  have hn := bitsAt_of_hasBits data 16 _ (65535 - bytes.length) (by omega) b3
  have e4 : 8 * ((pos + 3 + 7) / 8) + 16 + 16 = 8 * ((pos + 3 + 7) / 8 + 4) := by omega
  rw [e4] at b4
  have hcp := copyStored_enc data bytes ((pos + 3 + 7) / 8 + 4) out hb b4
  unfold inflateBlock
  rw [hhdr]
  have hbt : (if final then 1 else 0) / 2 = 0 := by cases final <;> rfl
  simp only [hbt, ↓reduceIte]
  rw [hl, hn]
  dsimp only
  rw [if_neg (by omega), hcp]
  dsimp only
  have e : 8 * ((pos + 3 + 7) / 8 + 4 + bytes.length) = pos + ((encStored final bytes).bits pos).length := by
    simp only [encStored, List.length_append, bitsLE_length, List.length_replicate, byteBits_length]; omega
  rw [e, ← expandToks_lits pre bytes out]
  refine ⟨_, rfl, ?_⟩
  cases final <;> rfl

end Model.Core
