/-
Termination of the decoder model: every transition that does not stop the automaton strictly
lowers a measure made of the bits still available (unread input + bit buffer), the room left in
the granted window, and a bounded per-state rank. Hence a call never exhausts its fuel: the model
(`Model.Core.decompress`) never answers `stModelError`, for any register state whatsoever.
Helper lemmas for Props/C05.
-/
import MinizProof.Lemmas.CoreCall
set_option linter.unusedVariables false
namespace Model.Core
open Spec

/-- Bits the automaton can still consume in this call: unread input bytes plus the bit buffer. -/
def bitsLeft (e : Env) (c : Ctx) : Nat := 8 * (e.inp.size - c.inPos) + c.r.numBits

/-- Rank of a state: an upper bound on the number of further transitions that neither consume a
    bit nor produce a byte. `bt3`: `block_type = 3`; `idle`: no room or nothing left to copy. -/
def rankOf (s : Nat) (bt3 idle : Bool) : Nat :=
  match s with
  | 0 => 1      -- Start
  | 4 => 7      -- BlockTypeNoCompression
  | 5 => 6      -- RawHeader
  | 6 => 4      -- RawMemcpy1
  | 7 => if idle then 5 else 3   -- RawMemcpy2
  | 8 => 5      -- ReadTableSizes
  | 9 => 4      -- ReadHufflenTableCodeSize
  | 10 => if bt3 then 2 else 1   -- ReadLitlenDistTablesCodeSize
  | 11 => 3     -- ReadExtraBitsCodeSize
  | 13 => 4     -- WriteSymbol
  | 14 => 1     -- ReadExtraBitsLitlen
  | 16 => 2     -- ReadExtraBitsDistance
  | 19 => 1     -- WriteLenBytesToEnd
  | 20 => 2     -- BlockDone
  | 21 => 3     -- HuffDecodeOuterLoop1
  | 22 => 1     -- HuffDecodeOuterLoop2
  | 23 => 1     -- ReadAdler32
  | _ => 0

def rank (e : Env) (c : Ctx) : Nat :=
  rankOf c.r.state (c.r.blockType == 3) (e.outEnd - c.outPos == 0 || c.r.counter == 0)

theorem rankOf_le (s : Nat) (a b : Bool) : rankOf s a b ≤ 7 := by
  unfold rankOf; split <;> (try split) <;> omega

def mu (e : Env) (c : Ctx) : Nat := 64 * bitsLeft e c + 64 * (e.outEnd - c.outPos) + rank e c

/-- A continuing transition strictly lowers the measure. -/
def StepDec (e : Env) (c : Ctx) : Step → Prop
  | .cont c' _ => mu e c' < mu e c
  | .fin _ _ _ => True

theorem readBits_dec {e : Env} {c : Ctx} {out : Array UInt8} (g : Geo e c out) (amount : Nat)
    (k : Ctx → Nat → Step)
    (hk : ∀ c1 v, ReadOK e.inp c c1 → bitsLeft e c1 + amount = bitsLeft e c → StepDec e c (k c1 v)) :
    StepDec e c (match readBits e.inp amount c with
      | (c1, none) => .fin e.eoi c1 out
      | (c1, some v) => k c1 v) := by
  have := readBits_spec e.inp amount c g.inLe
  obtain ⟨h1, _, h3⟩ := this
  generalize readBits e.inp amount c = p at *
  obtain ⟨c1, o⟩ := p
  cases o with
  | none => trivial
  | some v =>
    refine hk c1 v h1 ?_
    have := h3 v rfl
    have a := h1.inLo; have b := h1.inHi
    dsimp only at this a b
    unfold bitsLeft
    omega

theorem decodeHuff_dec {e : Env} {c : Ctx} {out : Array UInt8} (g : Geo e c out) (code : Code)
    (k : Ctx → Nat → Step)
    (hk : ∀ c1 v, ReadOK e.inp c c1 → bitsLeft e c1 < bitsLeft e c → StepDec e c (k c1 v)) :
    StepDec e c (match decodeHuff e.inp code c with
      | (c1, none) => .fin e.eoi c1 out
      | (c1, some v) => k c1 v) := by
  have := decodeHuff_spec e.inp code c g.inLe
  obtain ⟨h1, _, h3⟩ := this
  generalize decodeHuff e.inp code c = p at *
  obtain ⟨c1, o⟩ := p
  cases o with
  | none => trivial
  | some v =>
    refine hk c1 v h1 ?_
    obtain ⟨l, hl, this⟩ := h3 v rfl
    have a := h1.inLo; have b := h1.inHi
    dsimp only at this a b
    unfold bitsLeft
    omega

theorem readByte_dec {e : Env} {c : Ctx} {out : Array UInt8} (g : Geo e c out)
    (k : UInt8 → Step)
    (hk : ∀ b, c.inPos < e.inp.size → StepDec e c (k b)) :
    StepDec e c (match e.inp[c.inPos]? with
      | none => .fin e.eoi c out
      | some b => k b) := by
  cases hb : e.inp[c.inPos]? with
  | none => trivial
  | some b =>
    have : c.inPos < e.inp.size := by
      by_cases hlt : c.inPos < e.inp.size
      · exact hlt
      · simp [Array.getElem?_eq_none (Nat.le_of_not_lt hlt)] at hb
    exact hk b this

variable {e : Env} {c : Ctx} {out : Array UInt8}

theorem stStart_dec (g : Geo e c out) (hs : c.r.state = sStart) : StepDec e c (stStart e c out) := by
  unfold stStart StepDec
  simp only [mu, bitsLeft, rank, setState, hs, sStart]
  split <;> simp [rankOf, sReadZlibCmf, sReadBlockHeader] <;> omega

/-- closes `mu e c' < mu e c` goals once the facts about `bitsLeft` are in context -/
macro "mu_dec" "[" hs:Lean.Parser.Tactic.simpLemma,* "]" : tactic => `(tactic|
  (simp only [$hs,*, beq_iff_eq, ↓reduceIte, StepDec, mu, bitsLeft, rank, rankOf, setState, sStart, sReadZlibCmf, sReadZlibFlg, sReadBlockHeader,
      sBlockTypeNoCompression, sRawHeader, sRawMemcpy1, sRawMemcpy2, sReadTableSizes, sReadHufflenTableCodeSize,
      sReadLitlenDistTablesCodeSize, sReadExtraBitsCodeSize, sDecodeLitlen, sWriteSymbol, sReadExtraBitsLitlen,
      sDecodeDistance, sReadExtraBitsDistance, sRawReadFirstByte, sRawStoreFirstByte, sWriteLenBytesToEnd, sBlockDone,
      sHuffDecodeOuterLoop1, sHuffDecodeOuterLoop2, sReadAdler32, sDoneForever, sBlockTypeUnexpected, sBadCodeSizeSum,
      sBadDistOrLiteralTableLength, sBadTotalSymbols, sBadZlibHeader, sDistanceOutOfBounds, sBadRawLength,
      sBadCodeSizeDistPrevLookup, sInvalidLitlen, sInvalidDist] at *;
   omega))

theorem stReadZlibCmf_dec (g : Geo e c out) (hs : c.r.state = sReadZlibCmf) : StepDec e c (stReadZlibCmf e c out) :=
  readByte_dec g _ fun _ h => by mu_dec [hs]

theorem stReadZlibFlg_dec (g : Geo e c out) (hs : c.r.state = sReadZlibFlg) : StepDec e c (stReadZlibFlg e c out) :=
  readByte_dec g _ fun _ h => by
    dsimp only
    split <;> mu_dec [hs]

theorem initTree_mu (c : Ctx) (a b : Array Nat) :
    bitsLeft e (initTree c a b) = bitsLeft e c ∧ (initTree c a b).outPos = c.outPos ∧
    rank e (initTree c a b) ≤ 1 := by
  unfold initTree
  split
  · rename_i h2
    split
    · refine ⟨rfl, rfl, ?_⟩
      simp [rank, rankOf, setState, sReadLitlenDistTablesCodeSize, h2]
    · exact ⟨rfl, rfl, by simp [rank, rankOf, setState, sBadTotalSymbols]⟩
  · split
    · exact ⟨rfl, rfl, by simp [rank, rankOf, setState, sBadTotalSymbols]⟩
    · split
      · exact ⟨rfl, rfl, by simp [rank, rankOf, setState, sBadTotalSymbols]⟩
      · exact ⟨rfl, rfl, by simp [rank, rankOf, setState, sDecodeLitlen]⟩

theorem rank_le (e : Env) (c : Ctx) : rank e c ≤ 7 := rankOf_le _ _ _

theorem stReadBlockHeader_dec (g : Geo e c out) (hs : c.r.state = sReadBlockHeader) :
    StepDec e c (stReadBlockHeader e c out) :=
  readBits_dec g 3 _ fun c1 v h hb => by
    have ho := h.outPos
    dsimp only
    split
    · mu_dec [hs, ho]
    · split
      · have := initTree_mu (e := e) { c1 with r := { c1.r with finish := v % 2, blockType := v / 2 % 4, tableSizes := #[288, 32, c1.r.tableSizes.getD 2 0] } } fixedLitLens fixedDistLens
        have hr := rank_le e c
        simp only [StepDec, mu]
        simp only [bitsLeft] at this hb ⊢
        omega
      · split <;> mu_dec [hs, ho]

theorem stBlockTypeNoCompression_dec (g : Geo e c out) (hs : c.r.state = sBlockTypeNoCompression) :
    StepDec e c (stBlockTypeNoCompression e c out) :=
  readBits_dec g _ _ fun c1 v h hb => by have ho := h.outPos; mu_dec [hs, ho]

theorem stRawHeader_dec (g : Geo e c out) (hs : c.r.state = sRawHeader) : StepDec e c (stRawHeader e c out) := by
  unfold stRawHeader
  dsimp only
  split
  · split
    · exact readBits_dec g 8 _ fun c1 v h hb => by
        have ho := h.outPos; have hst := h.state; mu_dec [hs, hst, ho]
    · exact readByte_dec g _ fun _ h => by mu_dec [hs]
  · (repeat' split) <;> mu_dec [hs]

theorem stRawReadFirstByte_dec (g : Geo e c out) (hs : c.r.state = sRawReadFirstByte) :
    StepDec e c (stRawReadFirstByte e c out) :=
  readBits_dec g 8 _ fun c1 v h hb => by have ho := h.outPos; mu_dec [hs, ho]

theorem stRawStoreFirstByte_dec (g : Geo e c out) (hs : c.r.state = sRawStoreFirstByte) :
    StepDec e c (stRawStoreFirstByte e c out) := by
  unfold stRawStoreFirstByte wrBytesLeft
  split
  · trivial
  · dsimp only
    split <;> mu_dec [hs]

theorem stRawMemcpy1_dec (g : Geo e c out) (hs : c.r.state = sRawMemcpy1) :
    StepDec e c (stRawMemcpy1 e c out) := by
  unfold stRawMemcpy1 wrBytesLeft
  split
  · mu_dec [hs]
  · split
    · trivial
    · rename_i h1 h2
      simp only [StepDec, mu, bitsLeft, rank, rankOf, setState, sRawMemcpy1, sRawMemcpy2, hs]
      simp [h1, h2]

theorem stRawMemcpy2_dec (g : Geo e c out) (hs : c.r.state = sRawMemcpy2) :
    StepDec e c (stRawMemcpy2 e c out) := by
  unfold stRawMemcpy2 wrBytesLeft
  split
  · rename_i hin
    have hi := g.inLe; have ho := g.outLe
    simp only [StepDec, mu, bitsLeft, rank, rankOf, setState, sRawMemcpy1, sRawMemcpy2, hs]
    by_cases hidle : (e.outEnd - c.outPos == 0 || c.r.counter == 0) = true
    · rw [hidle]
      simp only [Bool.or_eq_true, beq_iff_eq] at hidle
      have : min (min (e.outEnd - c.outPos) (e.inp.size - c.inPos)) c.r.counter = 0 := by omega
      rw [this]; simp
    · simp only [Bool.not_eq_true] at hidle
      rw [hidle]
      simp only [Bool.or_eq_false_iff, beq_eq_false_iff_ne, ne_eq] at hidle
      simp only [Bool.false_eq_true, ↓reduceIte]
      omega
  · trivial

theorem stReadTableSizes_dec (g : Geo e c out) (hs : c.r.state = sReadTableSizes) :
    StepDec e c (stReadTableSizes e c out) := by
  unfold stReadTableSizes
  dsimp only
  split
  · rename_i hc
    exact readBits_dec g _ _ fun c1 v h hb => by
      have ho := h.outPos; have hst := h.state
      have : 4 ≤ [5, 5, 4].getD c.r.counter 0 := by
        have : c.r.counter = 0 ∨ c.r.counter = 1 ∨ c.r.counter = 2 := by omega
        rcases this with h | h | h <;> simp [h]
      mu_dec [hs, hst, ho]
  · split <;> mu_dec [hs]

theorem stReadHufflenTableCodeSize_dec (g : Geo e c out) (hs : c.r.state = sReadHufflenTableCodeSize) :
    StepDec e c (stReadHufflenTableCodeSize e c out) := by
  unfold stReadHufflenTableCodeSize
  dsimp only
  split
  · exact readBits_dec g _ _ fun c1 v h hb => by
      have ho := h.outPos; have hst := h.state; mu_dec [hs, hst, ho]
  · have := initTree_mu (e := e) { c with r := { c.r with tableSizes := c.r.tableSizes.setIfInBounds 2 19 } } #[] #[]
    simp only [StepDec, mu]
    simp only [bitsLeft, rank, rankOf, hs, sReadHufflenTableCodeSize] at this ⊢
    omega

theorem stReadLitlenDistTablesCodeSize_dec (g : Geo e c out) (hs : c.r.state = sReadLitlenDistTablesCodeSize) :
    StepDec e c (stReadLitlenDistTablesCodeSize e c out) := by
  unfold stReadLitlenDistTablesCodeSize
  dsimp only
  split
  · exact decodeHuff_dec g _ _ fun c1 v h hb => by
      have ho := h.outPos
      (repeat' split) <;>
      · have := rank_le e c
        have := rankOf_le
        simp only [StepDec, mu, setState]
        simp only [bitsLeft] at hb ⊢
        first
        | (have := rank_le e { c1 with r := { c1.r with dist := v, lenCodes := c1.r.lenCodes.setIfInBounds (c1.r.counter % 512) v, counter := c1.r.counter + 1 } }
           simp only [rank] at this ⊢; omega)
        | (simp only [rank, rankOf, sBadCodeSizeDistPrevLookup, sReadExtraBitsCodeSize]; omega)
  · by_cases h3 : c.r.blockType = 3
    · split
      · mu_dec [hs, h3]
      · have := initTree_mu (e := e) { c with r := { c.r with blockType := c.r.blockType - 1 } }
            (c.r.lenCodes.extract 0 (c.r.tableSizes.getD 0 0))
            (c.r.lenCodes.extract (c.r.tableSizes.getD 0 0) (c.r.tableSizes.getD 0 0 + c.r.tableSizes.getD 1 0))
        simp only [StepDec, mu]
        simp only [bitsLeft, rank, rankOf, hs, sReadLitlenDistTablesCodeSize, h3, beq_self_eq_true, ↓reduceIte] at this ⊢
        omega
    · split
      · mu_dec [hs, h3]
      · -- block_type ≠ 3: `init_tree` cannot come back to this state
        unfold initTree
        have hne : ¬ (c.r.blockType - 1 = 2) := by omega
        simp only [hne, ↓reduceIte]
        (repeat' split) <;> mu_dec [hs, h3]

theorem stReadExtraBitsCodeSize_dec (g : Geo e c out) (hs : c.r.state = sReadExtraBitsCodeSize) :
    StepDec e c (stReadExtraBitsCodeSize e c out) :=
  readBits_dec g _ _ fun c1 v h hb => by
    have ho := h.outPos
    dsimp only
    have := rankOf_le sReadLitlenDistTablesCodeSize (c1.r.blockType == 3)
    simp only [StepDec, mu, rank, setState]
    simp only [rankOf, sReadLitlenDistTablesCodeSize, sReadExtraBitsCodeSize, hs, bitsLeft, ho] at hb ⊢
    split <;> omega

theorem stDecodeLitlen_dec (g : Geo e c out) (hs : c.r.state = sDecodeLitlen) :
    StepDec e c (stDecodeLitlen e c out) :=
  decodeHuff_dec g _ _ fun c1 v h hb => by have ho := h.outPos; mu_dec [hs, ho]

theorem stWriteSymbol_dec (g : Geo e c out) (hs : c.r.state = sWriteSymbol) :
    StepDec e c (stWriteSymbol e c out) := by
  unfold stWriteSymbol wrBytesLeft
  split
  · mu_dec [hs]
  · split
    · mu_dec [hs]
    · trivial

theorem stHuffDecodeOuterLoop1_dec (g : Geo e c out) (hs : c.r.state = sHuffDecodeOuterLoop1) :
    StepDec e c (stHuffDecodeOuterLoop1 e c out) := by
  unfold stHuffDecodeOuterLoop1
  dsimp only
  (repeat' split) <;> mu_dec [hs]

theorem stReadExtraBitsLitlen_dec (g : Geo e c out) (hs : c.r.state = sReadExtraBitsLitlen) :
    StepDec e c (stReadExtraBitsLitlen e c out) :=
  readBits_dec g _ _ fun c1 v h hb => by have ho := h.outPos; mu_dec [hs, ho]

theorem stDecodeDistance_dec (g : Geo e c out) (hs : c.r.state = sDecodeDistance) :
    StepDec e c (stDecodeDistance e c out) :=
  decodeHuff_dec g _ _ fun c1 v h hb => by
    have ho := h.outPos
    dsimp only
    (repeat' split) <;> mu_dec [hs, ho]

theorem stReadExtraBitsDistance_dec (g : Geo e c out) (hs : c.r.state = sReadExtraBitsDistance) :
    StepDec e c (stReadExtraBitsDistance e c out) :=
  readBits_dec g _ _ fun c1 v h hb => by have ho := h.outPos; mu_dec [hs, ho]

theorem stMatch_dec (g : Geo e c out) (hs : c.r.state = sHuffDecodeOuterLoop2 ∨ c.r.state = sWriteLenBytesToEnd) :
    StepDec e c (stMatch e c out) := by
  have hr : rank e c = 1 := by
    rcases hs with hs | hs <;> simp [rank, rankOf, hs, sHuffDecodeOuterLoop2, sWriteLenBytesToEnd]
  have ho := g.outLe
  unfold stMatch wrBytesLeft
  dsimp only
  split
  · simp only [StepDec, mu, hr]; simp [bitsLeft, rank, rankOf, setState, sDistanceOutOfBounds]
  · split
    · simp only [StepDec, mu, hr]; simp [bitsLeft, rank, rankOf, setState, sDecodeLitlen]
    · split
      · trivial
      · split
        · simp only [StepDec, mu, hr]; simp only [bitsLeft, rank, rankOf, setState, sDecodeLitlen]; omega
        · simp only [StepDec, mu, hr]; simp only [bitsLeft, rank, rankOf, setState, sWriteLenBytesToEnd]; omega

theorem stBlockDone_dec (g : Geo e c out) (hs : c.r.state = sBlockDone) :
    StepDec e c (stBlockDone e c out) := by
  have hi := g.inLe
  unfold stBlockDone
  dsimp only
  split
  · split <;> mu_dec [hs]
  · split
    · trivial
    · mu_dec [hs]

theorem stReadAdler32_dec (g : Geo e c out) (hs : c.r.state = sReadAdler32) :
    StepDec e c (stReadAdler32 e c out) := by
  unfold stReadAdler32
  dsimp only
  split
  · split
    · exact readBits_dec g 8 _ fun c1 v h hb => by
        have ho := h.outPos; have hst := h.state; mu_dec [hs, hst, ho]
    · exact readByte_dec g _ fun _ h => by mu_dec [hs]
  · mu_dec [hs]

theorem step_dec (g : Geo e c out) : StepDec e c (step e c out) := by
  unfold step stepAt
  by_cases h0 : c.r.state = sStart
  · rw [if_pos h0]; exact stStart_dec g h0
  rw [if_neg h0]
  by_cases h1 : c.r.state = sReadZlibCmf
  · rw [if_pos h1]; exact stReadZlibCmf_dec g h1
  rw [if_neg h1]
  by_cases h2 : c.r.state = sReadZlibFlg
  · rw [if_pos h2]; exact stReadZlibFlg_dec g h2
  rw [if_neg h2]
  by_cases h3 : c.r.state = sReadBlockHeader
  · rw [if_pos h3]; exact stReadBlockHeader_dec g h3
  rw [if_neg h3]
  by_cases h4 : c.r.state = sBlockTypeNoCompression
  · rw [if_pos h4]; exact stBlockTypeNoCompression_dec g h4
  rw [if_neg h4]
  by_cases h5 : c.r.state = sRawHeader
  · rw [if_pos h5]; exact stRawHeader_dec g h5
  rw [if_neg h5]
  by_cases h6 : c.r.state = sRawReadFirstByte
  · rw [if_pos h6]; exact stRawReadFirstByte_dec g h6
  rw [if_neg h6]
  by_cases h7 : c.r.state = sRawStoreFirstByte
  · rw [if_pos h7]; exact stRawStoreFirstByte_dec g h7
  rw [if_neg h7]
  by_cases h8 : c.r.state = sRawMemcpy1
  · rw [if_pos h8]; exact stRawMemcpy1_dec g h8
  rw [if_neg h8]
  by_cases h9 : c.r.state = sRawMemcpy2
  · rw [if_pos h9]; exact stRawMemcpy2_dec g h9
  rw [if_neg h9]
  by_cases h10 : c.r.state = sReadTableSizes
  · rw [if_pos h10]; exact stReadTableSizes_dec g h10
  rw [if_neg h10]
  by_cases h11 : c.r.state = sReadHufflenTableCodeSize
  · rw [if_pos h11]; exact stReadHufflenTableCodeSize_dec g h11
  rw [if_neg h11]
  by_cases h12 : c.r.state = sReadLitlenDistTablesCodeSize
  · rw [if_pos h12]; exact stReadLitlenDistTablesCodeSize_dec g h12
  rw [if_neg h12]
  by_cases h13 : c.r.state = sReadExtraBitsCodeSize
  · rw [if_pos h13]; exact stReadExtraBitsCodeSize_dec g h13
  rw [if_neg h13]
  by_cases h14 : c.r.state = sDecodeLitlen
  · rw [if_pos h14]; exact stDecodeLitlen_dec g h14
  rw [if_neg h14]
  by_cases h15 : c.r.state = sWriteSymbol
  · rw [if_pos h15]; exact stWriteSymbol_dec g h15
  rw [if_neg h15]
  by_cases h16 : c.r.state = sHuffDecodeOuterLoop1
  · rw [if_pos h16]; exact stHuffDecodeOuterLoop1_dec g h16
  rw [if_neg h16]
  by_cases h17 : c.r.state = sReadExtraBitsLitlen
  · rw [if_pos h17]; exact stReadExtraBitsLitlen_dec g h17
  rw [if_neg h17]
  by_cases h18 : c.r.state = sDecodeDistance
  · rw [if_pos h18]; exact stDecodeDistance_dec g h18
  rw [if_neg h18]
  by_cases h19 : c.r.state = sReadExtraBitsDistance
  · rw [if_pos h19]; exact stReadExtraBitsDistance_dec g h19
  rw [if_neg h19]
  by_cases h20 : c.r.state = sHuffDecodeOuterLoop2 ∨ c.r.state = sWriteLenBytesToEnd
  · rw [if_pos h20]; exact stMatch_dec g h20
  rw [if_neg h20]
  by_cases h21 : c.r.state = sBlockDone
  · rw [if_pos h21]; exact stBlockDone_dec g h21
  rw [if_neg h21]
  by_cases h22 : c.r.state = sReadAdler32
  · rw [if_pos h22]; exact stReadAdler32_dec g h22
  rw [if_neg h22]
  split <;> trivial

/-- With fuel above the measure the run ends with a real status, never by exhausting the fuel. -/
theorem run_total (e : Env) : ∀ (fuel : Nat) (c : Ctx) (out : Array UInt8), Geo e c out → mu e c < fuel →
    FinOK e (run e fuel c out).1 (run e fuel c out).2.1 := by
  intro fuel
  induction fuel with
  | zero => intro c out g h; omega
  | succ fuel ih =>
    intro c out g hlt
    have hs := step_ok g
    have hd := step_dec (out := out) g
    unfold run
    cases hstep : step e c out with
    | cont c1 out1 =>
      rw [hstep] at hs hd
      exact ih c1 out1 hs.geo (by simp only [StepDec] at hd; omega)
    | fin st c1 out1 =>
      rw [hstep] at hs
      exact hs.2

theorem finOK_ne_modelError {e : Env} {st : Int} {c : Ctx} (h : FinOK e st c) : st ≠ stModelError := by
  intro hm
  rcases h with h | h | h | h | h
  · rw [hm] at h; simp [stModelError, stHasMoreOutput] at h
  · have := eoi_cases e
    rw [← h.1, hm] at this
    simp [stModelError, stNeedsMoreInput, stFailedCannotMakeProgress] at this
  · rw [hm] at h; simp [stModelError, stDone] at h
  · rw [hm] at h; simp [stModelError, stFailed] at h
  · rw [hm] at h; simp [stModelError, stBlockBoundary] at h

/-- The automaton's final status in a call (before the epilogue) is a real one. -/
theorem decompress_run_total (r : Regs) (inp out : Array UInt8) (outPos budget flags : Nat)
    (hg : badGeometry flags out.size outPos = false) :
    let outEnd := min (outPos + budget) out.size
    let e : Env := { inp := inp, flags := flags, outLen := out.size, outEnd := outEnd }
    let res := run e (callFuel r inp (outEnd - outPos)) { r := r, inPos := 0, outPos := outPos } out
    FinOK e res.1 res.2.1 := by
  intro outEnd e res
  simp only [badGeometry, Bool.or_eq_false_iff, decide_eq_false_iff_not, Nat.not_lt] at hg
  have g0 : Geo e { r := r, inPos := 0, outPos := outPos } out :=
    ⟨Nat.zero_le _, by show outPos ≤ min (outPos + budget) out.size; omega, by show min (outPos + budget) out.size ≤ out.size; omega⟩
  refine run_total e _ _ _ g0 ?_
  have := rank_le e { r := r, inPos := 0, outPos := outPos }
  simp only [mu, bitsLeft, callFuel]
  show 64 * (8 * (inp.size - 0) + r.numBits) + 64 * (outEnd - outPos) + _ < _
  omega

end Model.Core
