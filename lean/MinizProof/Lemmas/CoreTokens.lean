/-
The token loop of a Huffman block: whenever the specification's `decodeTokens` accepts, the model
started in `DecodeLitlen` with the same codes reaches `BlockDone` having produced the same bytes
and standing at the same bit position. Helper lemma for Props/C03.
-/
import MinizProof.Lemmas.CoreSim
set_option linter.unusedVariables false
namespace Model.Core
open Spec

/-- The accepting outcomes of one specification token, by cases on the decoded symbol. -/
theorem decodeToken_lit_inv {maxDist : Nat} {lit dist : Code} {data : Array UInt8} {pos avail : Nat}
    {b : UInt8} {p : Nat} (h : decodeToken maxDist lit dist data pos avail = .lit b p) :
    ∃ s, decodeSym lit data pos = .sym s p ∧ s < 256 ∧ b = s.toUInt8 := by
  unfold decodeToken at h
  cases h1 : decodeSym lit data pos with
  | short => simp [h1] at h
  | invalid => simp [h1] at h
  | sym s p1 =>
    simp only [h1] at h
    by_cases hs : s < 256
    · simp only [hs, ↓reduceIte, TokStep.lit.injEq] at h
      exact ⟨s, by rw [h.2], hs, h.1.symm⟩
    · simp only [hs, ↓reduceIte] at h
      exfalso
      revert h
      (repeat' split) <;> simp

theorem decodeToken_eob_inv {maxDist : Nat} {lit dist : Code} {data : Array UInt8} {pos avail : Nat}
    {p : Nat} (h : decodeToken maxDist lit dist data pos avail = .eob p) :
    decodeSym lit data pos = .sym 256 p := by
  unfold decodeToken at h
  cases h1 : decodeSym lit data pos with
  | short => simp [h1] at h
  | invalid => simp [h1] at h
  | sym s p1 =>
    simp only [h1] at h
    by_cases hs : s < 256
    · simp [hs] at h
    · simp only [hs, ↓reduceIte] at h
      by_cases he : s = 256
      · simp only [he, ↓reduceIte, TokStep.eob.injEq] at h
        rw [he, h]
      · simp only [he, ↓reduceIte] at h
        exfalso
        revert h
        (repeat' split) <;> simp

set_option maxRecDepth 20000 in
theorem decodeToken_copy_inv {maxDist : Nat} {lit dist : Code} {data : Array UInt8} {pos avail : Nat}
    {len dd p : Nat} (h : decodeToken maxDist lit dist data pos avail = .copy len dd p) :
    ∃ s p1 lx d p3 dx, decodeSym lit data pos = .sym s p1 ∧ 256 < s ∧ s ≤ 285 ∧
      bitsAt data p1 (lengthBaseExtra s).2 = some lx ∧
      decodeSym dist data (p1 + (lengthBaseExtra s).2) = .sym d p3 ∧ d ≤ 29 ∧
      bitsAt data p3 (distBaseExtra d).2 = some dx ∧
      len = (lengthBaseExtra s).1 + lx ∧ dd = (distBaseExtra d).1 + dx ∧ p = p3 + (distBaseExtra d).2 ∧
      dd ≤ avail := by
  unfold decodeToken at h
  cases h1 : decodeSym lit data pos with
  | short => simp [h1] at h
  | invalid => simp [h1] at h
  | sym s p1 =>
    simp only [h1] at h
    by_cases hs : s < 256
    · simp [hs] at h
    · simp only [hs, ↓reduceIte] at h
      by_cases he : s = 256
      · simp [he] at h
      · simp only [he, ↓reduceIte] at h
        by_cases hg : s > 285
        · simp [hg] at h
        · simp only [hg, ↓reduceIte] at h
          cases h2 : bitsAt data p1 (lengthBaseExtra s).2 with
          | none => simp [h2] at h
          | some lx =>
            simp only [h2] at h
            cases h3 : decodeSym dist data (p1 + (lengthBaseExtra s).2) with
            | short => simp [h3] at h
            | invalid => simp [h3] at h
            | sym d p3 =>
              simp only [h3] at h
              by_cases hd : d > 29
              · simp [hd] at h
              · simp only [hd, ↓reduceIte] at h
                cases h4 : bitsAt data p3 (distBaseExtra d).2 with
                | none => simp [h4] at h
                | some dx =>
                  simp only [h4] at h
                  split at h
                  · simp at h
                  · rename_i hfar
                    simp only [Bool.or_eq_true, decide_eq_true_eq, not_or, Nat.not_lt] at hfar
                    simp only [TokStep.copy.injEq] at h
                    exact ⟨s, p1, lx, d, p3, dx, rfl, by omega, by omega, h2, h3, by omega, h4,
                      h.1.symm, h.2.1.symm, h.2.2.symm, by rw [← h.2.1]; exact hfar.1⟩

theorem distBase_pos (d : Nat) : 1 ≤ (distBaseExtra d).1 := by
  unfold distBaseExtra
  split
  · simp
  · simp

variable {e : Env} {c : Ctx} {outA : Array UInt8}

theorem bitsAt_zero (data : Array UInt8) (pos : Nat) : bitsAt data pos 0 = some 0 := rfl

/-- A literal token. -/
theorem sim_lit {pos s p : Nat} {full : Array UInt8} (hend : e.outEnd ≤ e.outLen)
    (hsim : Sim e c outA pos full) (hs : c.r.state = sDecodeLitlen)
    (hd : decodeSym c.r.litCode e.inp pos = .sym s p) (hlt : s < 256) (hroom : full.size < e.outEnd) :
    ∃ c2 outA2, Reaches e c outA c2 outA2 ∧ c2.r.state = sDecodeLitlen ∧
      Sim e c2 outA2 p (full.push s.toUInt8) ∧ Inv c c2 := by
  obtain ⟨c1, hst1, hs1, hc1, hr1, ho1, i1, h81⟩ := micro_decodeLitlen (outA := outA) hs hsim.rep hd
  have hroom1 : c1.outPos < e.outEnd := by rw [ho1, hsim.outPos]; exact hroom
  obtain ⟨c2, hst2, hs2, ho2, hi2, hn2, hb2, i2⟩ := micro_writeLiteral (outA := outA) hs1 (by rw [hc1]; exact hlt) hroom1
  refine ⟨c2, _, (Reaches.of_step hst1).trans (Reaches.of_step hst2), hs2,
    ⟨hr1.of_eq hi2 hn2 hb2, by rw [hn2]; exact h81 hsim.nb8, ?_, ?_, ?_⟩, i1.trans i2⟩
  · rw [ho2, ho1, hsim.outPos]; simp
  · rw [ho1, hsim.outPos, hc1]
    exact hsim.outEq.push _ (by have := hsim.size; omega)
  · simp [hsim.size]

/-- The end-of-block token. -/
theorem sim_eob {pos p : Nat} {full : Array UInt8}
    (hsim : Sim e c outA pos full) (hs : c.r.state = sDecodeLitlen)
    (hd : decodeSym c.r.litCode e.inp pos = .sym 256 p) :
    ∃ c3, Reaches e c outA c3 outA ∧ c3.r.state = sBlockDone ∧ Sim e c3 outA p full ∧ Inv c c3 := by
  obtain ⟨c1, hst1, hs1, hc1, hr1, ho1, i1, h81⟩ := micro_decodeLitlen (outA := outA) hs hsim.rep hd
  have hst2 := micro_writeSymbol_hi (e := e) (outA := outA) hs1 (by rw [hc1]; decide)
  obtain ⟨c3, hst3, hs3, ho3, hi3, hn3, hb3, i3⟩ :=
    micro_hol1_eob (e := e) (c := setState c1 sHuffDecodeOuterLoop1) (outA := outA) rfl hc1
  refine ⟨c3, (Reaches.of_step hst1).trans ((Reaches.of_step hst2).trans (Reaches.of_step hst3)), hs3,
    ⟨hr1.of_eq hi3 hn3 hb3, by rw [hn3]; exact h81 hsim.nb8, ?_, hsim.outEq, hsim.size⟩, ?_⟩
  · rw [ho3]; show c1.outPos = _; rw [ho1, hsim.outPos]
  · exact i1.trans ⟨i3.finish, i3.z0, i3.z1, i3.zA, i3.chk, i3.lit, i3.dist, i3.rh, i3.ts, i3.lc⟩

/-- A length/distance token with room for the whole match. -/
theorem sim_copy {pos s p1 lx d p3 dx : Nat} {full : Array UInt8} (hflat : e.ring = false) (hend : e.outEnd ≤ e.outLen)
    (hsim : Sim e c outA pos full) (hs : c.r.state = sDecodeLitlen)
    (hd : decodeSym c.r.litCode e.inp pos = .sym s p1) (h1 : 256 < s) (h2 : s ≤ 285)
    (hlx : bitsAt e.inp p1 (lengthBaseExtra s).2 = some lx)
    (hdd : decodeSym c.r.distCode e.inp (p1 + (lengthBaseExtra s).2) = .sym d p3) (hd29 : d ≤ 29)
    (hdx : bitsAt e.inp p3 (distBaseExtra d).2 = some dx)
    (hback : (distBaseExtra d).1 + dx ≤ full.size)
    (hroom : full.size + ((lengthBaseExtra s).1 + lx) ≤ e.outEnd) :
    ∃ c9 outA9, Reaches e c outA c9 outA9 ∧ c9.r.state = sDecodeLitlen ∧
      Sim e c9 outA9 (p3 + (distBaseExtra d).2)
        (copyFull full ((distBaseExtra d).1 + dx) ((lengthBaseExtra s).1 + lx)) ∧ Inv c c9 := by
  obtain ⟨c1, hst1, hs1, hc1, hr1, ho1, i1, h81⟩ := micro_decodeLitlen (outA := outA) hs hsim.rep hd
  have hst2 := micro_writeSymbol_hi (e := e) (outA := outA) hs1 (by rw [hc1]; omega)
  obtain ⟨c3, hst3, hs3, hc3, hn3, ho3, hi3, hnb3, hb3, i3⟩ :=
    micro_hol1_len (e := e) (c := setState c1 sHuffDecodeOuterLoop1) (outA := outA) rfl hc1 h1 h2
  have hr3 : Rep e.inp c3 p1 := hr1.of_eq hi3 hnb3 hb3
  have h83 : c3.r.numBits < 8 := by rw [hnb3]; exact h81 hsim.nb8
  have i13 : Inv c c3 := i1.trans ⟨i3.finish, i3.z0, i3.z1, i3.zA, i3.chk, i3.lit, i3.dist, i3.rh, i3.ts, i3.lc⟩
  have ho3' : c3.outPos = c.outPos := by rw [ho3]; exact ho1
  have r03 : Reaches e c outA c3 outA :=
    (Reaches.of_step hst1).trans ((Reaches.of_step hst2).trans (Reaches.of_step hst3))
  -- after the length's extra bits
  have hphase1 : ∃ c4, Reaches e c outA c4 outA ∧ c4.r.state = sDecodeDistance ∧
      c4.r.counter = (lengthBaseExtra s).1 + lx ∧ Rep e.inp c4 (p1 + (lengthBaseExtra s).2) ∧
      c4.outPos = c.outPos ∧ Inv c c4 ∧ c4.r.numBits < 8 := by
    by_cases hle : (lengthBaseExtra s).2 ≠ 0
    · rw [if_pos hle] at hs3
      obtain ⟨c4, hst4, hs4, hc4, hr4, ho4, i4, h84⟩ := micro_rebl (outA := outA) hs3 hr3 (by rw [hn3]; exact hlx)
      exact ⟨c4, r03.trans (Reaches.of_step hst4), hs4, by rw [hc4, hc3], by rw [hn3] at hr4; exact hr4,
        by rw [ho4, ho3'], i13.trans i4, h84 h83⟩
    · rw [if_neg hle] at hs3
      have hz : (lengthBaseExtra s).2 = 0 := by omega
      rw [hz, bitsAt_zero] at hlx
      simp only [Option.some.injEq] at hlx
      exact ⟨c3, r03, hs3, by rw [hc3, ← hlx]; simp, by rw [hz]; exact hr3, ho3', i13, h83⟩
  obtain ⟨c4, r04, hs4, hc4, hr4, ho4, i4, h84⟩ := hphase1
  obtain ⟨c5, hst5, hs5, hdist5, hn5, hc5, hr5, ho5, i5, h85⟩ :=
    micro_decodeDistance (outA := outA) hs4 hr4 (by rw [i4.dist]; exact hdd) hd29
  have r05 := r04.trans (Reaches.of_step hst5)
  have hphase2 : ∃ c6, Reaches e c outA c6 outA ∧ c6.r.state = sHuffDecodeOuterLoop2 ∧
      c6.r.dist = (distBaseExtra d).1 + dx ∧ c6.r.counter = (lengthBaseExtra s).1 + lx ∧
      Rep e.inp c6 (p3 + (distBaseExtra d).2) ∧ c6.outPos = c.outPos ∧ Inv c c6 ∧ c6.r.numBits < 8 := by
    by_cases hde : (distBaseExtra d).2 ≠ 0
    · rw [if_pos hde] at hs5
      obtain ⟨c6, hst6, hs6, hd6, hc6, hr6, ho6, i6, h86⟩ := micro_rebd (outA := outA) hs5 hr5 (by rw [hn5]; exact hdx)
      exact ⟨c6, r05.trans (Reaches.of_step hst6), hs6, by rw [hd6, hdist5], by rw [hc6, hc5, hc4],
        by rw [hn5] at hr6; exact hr6, by rw [ho6, ho5, ho4], (i4.trans i5).trans i6, h86 (h85 h84)⟩
    · rw [if_neg hde] at hs5
      have hz : (distBaseExtra d).2 = 0 := by omega
      rw [hz, bitsAt_zero] at hdx
      simp only [Option.some.injEq] at hdx
      exact ⟨c5, r05, hs5, by rw [hdist5, ← hdx]; simp, by rw [hc5, hc4], by rw [hz]; exact hr5,
        by rw [ho5, ho4], i4.trans i5, h85 h84⟩
  obtain ⟨c6, r06, hs6, hd6, hc6, hr6, ho6, i6, h86⟩ := hphase2
  have hpos := distBase_pos d
  obtain ⟨c9, outA9, hst9, hs9, ho9, heq9, hsz9, hi9, hn9, hb9, i9⟩ :=
    micro_match (e := e) (c := c6) (outA := outA) (full := full) hflat hs6 (by rw [ho6, hsim.outPos]) hsim.outEq hsim.size
      (by rw [hd6]; omega) (by rw [hd6]; exact hback) (by rw [hc6]; exact hroom) hend
  refine ⟨c9, outA9, r06.trans (Reaches.of_step hst9), hs9, ⟨hr6.of_eq hi9 hn9 hb9, by rw [hn9]; exact h86, ?_, ?_, hsz9⟩, i6.trans i9⟩
  · rw [ho9, hc6, copyFull_size]
  · rw [hd6, hc6] at heq9; exact heq9

theorem decodeTokens_size_le (pre : Array UInt8) (maxDist : Nat) (lit dist : Code) (data : Array UInt8) :
    ∀ (fuel pos : Nat) (o : Array UInt8) (toks : Array Token) (R : Nat × Array UInt8 × Array Token),
    decodeTokens pre maxDist lit dist data fuel pos o toks = .accept R → o.size ≤ R.2.1.size := by
  intro fuel
  induction fuel with
  | zero => intro pos o toks R h; simp [decodeTokens] at h
  | succ fuel ih =>
    intro pos o toks R h
    rw [decodeTokens] at h
    cases ht : decodeToken maxDist lit dist data pos (pre.size + o.size) with
    | lit b p => rw [ht] at h; have := ih _ _ _ _ h; simp at this; omega
    | eob p => rw [ht] at h; simp only [Verdict.accept.injEq] at h; rw [← h]; exact Nat.le_refl _
    | copy len dd p => rw [ht] at h; have := ih _ _ _ _ h; rw [copyMatch_size] at this; omega
    | reject w => rw [ht] at h; simp at h
    | truncated => rw [ht] at h; simp at h

/-- THE TOKEN LOOP: an accepted Huffman block body drives the model from `DecodeLitlen` to
    `BlockDone` with the specification's output and bit position. -/
theorem sim_tokens (hflat : e.ring = false) (hend : e.outEnd ≤ e.outLen) (pre : Array UInt8) (maxDist : Nat)
    (lit dist : Code) :
    ∀ (fuel pos : Nat) (o : Array UInt8) (toks : Array Token) (R : Nat × Array UInt8 × Array Token)
      (c : Ctx) (outA : Array UInt8),
    decodeTokens pre maxDist lit dist e.inp fuel pos o toks = .accept R →
    Sim e c outA pos (pre ++ o) → c.r.state = sDecodeLitlen → c.r.litCode = lit → c.r.distCode = dist →
    pre.size + R.2.1.size ≤ e.outEnd →
    ∃ c' outA', Reaches e c outA c' outA' ∧ c'.r.state = sBlockDone ∧ Sim e c' outA' R.1 (pre ++ R.2.1) ∧
      Inv c c' := by
  intro fuel
  induction fuel with
  | zero => intro pos o toks R c outA h; simp [decodeTokens] at h
  | succ fuel ih =>
    intro pos o toks R c outA h hsim hs hlit hdist hroom
    have hmono := decodeTokens_size_le pre maxDist lit dist e.inp _ _ _ _ _ h
    rw [decodeTokens] at h
    cases ht : decodeToken maxDist lit dist e.inp pos (pre.size + o.size) with
    | lit b p =>
      rw [ht] at h
      obtain ⟨s, hd, hlt, hb⟩ := decodeToken_lit_inv ht
      have hmono2 := decodeTokens_size_le pre maxDist lit dist e.inp _ _ _ _ _ h
      simp only [Array.size_push] at hmono2
      obtain ⟨c2, outA2, r2, hs2, hsim2, i2⟩ :=
        sim_lit hend hsim hs (by rw [hlit]; exact hd) hlt (by simp only [Array.size_append]; omega)
      rw [← hb, ← Array.append_push] at hsim2
      obtain ⟨c', outA', r', hs', hsim', i'⟩ :=
        ih _ _ _ _ c2 outA2 h hsim2 hs2 (by rw [i2.lit, hlit]) (by rw [i2.dist, hdist]) hroom
      exact ⟨c', outA', r2.trans r', hs', hsim', i2.trans i'⟩
    | eob p =>
      rw [ht] at h
      simp only [Verdict.accept.injEq] at h
      have hd := decodeToken_eob_inv ht
      obtain ⟨c3, r3, hs3, hsim3, i3⟩ := sim_eob hsim hs (by rw [hlit]; exact hd)
      rw [← h]
      exact ⟨c3, outA, r3, hs3, hsim3, i3⟩
    | copy len dd p =>
      rw [ht] at h
      obtain ⟨s, p1, lx, d, p3, dx, hd, h1, h2, hlx, hdd, hd29, hdx, hlen, hddeq, hp, havail⟩ := decodeToken_copy_inv ht
      have hmono2 := decodeTokens_size_le pre maxDist lit dist e.inp _ _ _ _ _ h
      rw [copyMatch_size] at hmono2
      have hpos := distBase_pos d
      obtain ⟨c9, outA9, r9, hs9, hsim9, i9⟩ :=
        sim_copy hflat hend hsim hs (by rw [hlit]; exact hd) h1 h2 hlx (by rw [hdist]; exact hdd) hd29 hdx
          (by simp only [Array.size_append]; omega) (by simp only [Array.size_append]; omega)
      rw [← hlen, ← hddeq, ← hp, ← copyMatch_eq pre dd (by omega) len o (by omega)] at hsim9
      obtain ⟨c', outA', r', hs', hsim', i'⟩ :=
        ih _ _ _ _ c9 outA9 h hsim9 hs9 (by rw [i9.lit, hlit]) (by rw [i9.dist, hdist]) hroom
      exact ⟨c', outA', r9.trans r', hs', hsim', i9.trans i'⟩
    | reject w => rw [ht] at h; simp at h
    | truncated => rw [ht] at h; simp at h

end Model.Core
