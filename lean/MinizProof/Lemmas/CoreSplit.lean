/-
Suspending and resuming the decoder model at the end of an input chunk: reading primitives under
a prefix of the input versus the whole input, final results of runs, and the per-state relation
between a transition under the prefix and the same transition under the whole input.
Helper lemmas for Props/C07.
-/
import MinizProof.Lemmas.CoreRefine
set_option linter.unusedVariables false
set_option linter.unusedSimpArgs false
namespace Model.Core
open Spec

theorem getElem?_append_of_some {a b : Array UInt8} {i : Nat} {x : UInt8} (h : a[i]? = some x) :
    (a ++ b)[i]? = some x := by
  have hi : i < a.size := by
    by_cases hlt : i < a.size
    · exact hlt
    · simp [Array.getElem?_eq_none (Nat.le_of_not_lt hlt)] at h
  rw [Array.getElem?_append_left hi]; exact h

/-- `readBitsAux` does not depend on the fuel once there is enough of it. -/
theorem readBitsAux_fuel (inp : Array UInt8) (amount : Nat) : ∀ (f1 f2 : Nat) (c : Ctx),
    c.inPos ≤ inp.size → inp.size - c.inPos < f1 → inp.size - c.inPos < f2 →
    readBitsAux inp amount f1 c = readBitsAux inp amount f2 c := by
  intro f1
  induction f1 with
  | zero => intro f2 c _ h; omega
  | succ f1 ih =>
    intro f2 c hle h1 h2
    obtain ⟨f2', rfl⟩ : ∃ k, f2 = k + 1 := ⟨f2 - 1, by omega⟩
    unfold readBitsAux
    by_cases hlt : c.r.numBits < amount
    · simp only [hlt, ↓reduceIte]
      cases hb : inp[c.inPos]? with
      | none => rfl
      | some x =>
        have hin : c.inPos < inp.size := by
          by_cases hlt : c.inPos < inp.size
          · exact hlt
          · simp [Array.getElem?_eq_none (Nat.le_of_not_lt hlt)] at hb
        exact ih f2' _ (by show c.inPos + 1 ≤ _; omega) (by show inp.size - (c.inPos + 1) < f1; omega)
          (by show inp.size - (c.inPos + 1) < f2'; omega)
    · simp only [hlt, ↓reduceIte]

/-- A successful read from a prefix of the input is the same read from the whole input. -/
theorem readBitsAux_mono (a b : Array UInt8) (amount : Nat) : ∀ (f : Nat) (c c' : Ctx) (v : Nat),
    readBitsAux a amount f c = (c', some v) → readBitsAux (a ++ b) amount f c = (c', some v) := by
  intro f
  induction f with
  | zero => intro c c' v h; simp [readBitsAux] at h
  | succ f ih =>
    intro c c' v h
    unfold readBitsAux at h ⊢
    by_cases hlt : c.r.numBits < amount
    · simp only [hlt, ↓reduceIte] at h ⊢
      cases hb : a[c.inPos]? with
      | none => simp [hb] at h
      | some x =>
        simp only [hb] at h
        rw [getElem?_append_of_some hb]
        exact ih _ _ _ h
    · simp only [hlt, ↓reduceIte] at h ⊢
      exact h

/-- A read starved at the end of a prefix continues from the starved state exactly as the read
    from the whole input would have gone. -/
theorem readBitsAux_starve (a b : Array UInt8) (amount : Nat) : ∀ (f : Nat) (c c1 : Ctx),
    c.inPos ≤ a.size → a.size - c.inPos < f → readBitsAux a amount f c = (c1, none) →
    ∀ F F', (a ++ b).size - c.inPos < F → (a ++ b).size - c1.inPos < F' →
    readBitsAux (a ++ b) amount F c = readBitsAux (a ++ b) amount F' c1 := by
  intro f
  induction f with
  | zero => intro c c1 _ h; omega
  | succ f ih =>
    intro c c1 hle hf h F F' hF hF'
    have hsz : (a ++ b).size = a.size + b.size := Array.size_append
    unfold readBitsAux at h
    by_cases hlt : c.r.numBits < amount
    · simp only [hlt, ↓reduceIte] at h
      cases hb : a[c.inPos]? with
      | none =>
        simp only [hb, Prod.mk.injEq, and_true] at h
        subst h
        exact readBitsAux_fuel _ _ _ _ _ (by omega) hF hF'
      | some x =>
        simp only [hb] at h
        have hin : c.inPos < a.size := by
          by_cases hlt : c.inPos < a.size
          · exact hlt
          · simp [Array.getElem?_eq_none (Nat.le_of_not_lt hlt)] at hb
        obtain ⟨F0, rfl⟩ : ∃ k, F = k + 1 := ⟨F - 1, by omega⟩
        conv => lhs; unfold readBitsAux
        simp only [hlt, ↓reduceIte, getElem?_append_of_some hb]
        exact ih _ _ (by show c.inPos + 1 ≤ _; omega) (by show a.size - (c.inPos + 1) < f; omega) h F0 F'
          (by show (a ++ b).size - (c.inPos + 1) < F0; omega) hF'
    · simp only [hlt, ↓reduceIte] at h
      simp at h

theorem readBitsAux_fuel_some (inp : Array UInt8) (amount : Nat) : ∀ (f : Nat) (c c' : Ctx) (v : Nat),
    readBitsAux inp amount f c = (c', some v) → ∀ f', f ≤ f' → readBitsAux inp amount f' c = (c', some v) := by
  intro f
  induction f with
  | zero => intro c c' v h; simp [readBitsAux] at h
  | succ f ih =>
    intro c c' v h f' hle
    obtain ⟨f0, rfl⟩ : ∃ k, f' = k + 1 := ⟨f' - 1, by omega⟩
    unfold readBitsAux at h ⊢
    by_cases hlt : c.r.numBits < amount
    · simp only [hlt, ↓reduceIte] at h ⊢
      cases hb : inp[c.inPos]? with
      | none => simp [hb] at h
      | some x =>
        simp only [hb] at h ⊢
        exact ih _ _ _ h f0 (by omega)
    · simp only [hlt, ↓reduceIte] at h ⊢
      exact h

theorem readBits_mono {a b : Array UInt8} {amount : Nat} {c c' : Ctx} {v : Nat} (hle : c.inPos ≤ a.size)
    (h : readBits a amount c = (c', some v)) : readBits (a ++ b) amount c = (c', some v) := by
  have hsz : (a ++ b).size = a.size + b.size := Array.size_append
  unfold readBits at h ⊢
  have := readBitsAux_mono a b amount _ _ _ _ h
  exact readBitsAux_fuel_some _ _ _ _ _ _ this _ (by omega)

theorem readBits_starve {a b : Array UInt8} {amount : Nat} {c c1 : Ctx} (hle : c.inPos ≤ a.size)
    (h : readBits a amount c = (c1, none)) : readBits (a ++ b) amount c = readBits (a ++ b) amount c1 := by
  have hsz : (a ++ b).size = a.size + b.size := Array.size_append
  unfold readBits at h ⊢
  exact readBitsAux_starve a b amount _ _ _ hle (by omega) h _ _ (by omega) (by omega)

theorem decodeHuffAux_fuel (inp : Array UInt8) (code : Code) : ∀ (f1 f2 : Nat) (c : Ctx),
    c.inPos ≤ inp.size → inp.size - c.inPos < f1 → inp.size - c.inPos < f2 →
    decodeHuffAux inp code f1 c = decodeHuffAux inp code f2 c := by
  intro f1
  induction f1 with
  | zero => intro f2 c _ h; omega
  | succ f1 ih =>
    intro f2 c hle h1 h2
    obtain ⟨f2', rfl⟩ : ∃ k, f2 = k + 1 := ⟨f2 - 1, by omega⟩
    have hrec : ∀ x, inp[c.inPos]? = some x →
        decodeHuffAux inp code f1 (pull c x) = decodeHuffAux inp code f2' (pull c x) := by
      intro x hb
      have hin : c.inPos < inp.size := by
        by_cases hlt : c.inPos < inp.size
        · exact hlt
        · simp [Array.getElem?_eq_none (Nat.le_of_not_lt hlt)] at hb
      exact ih f2' _ (by show c.inPos + 1 ≤ _; omega) (by show inp.size - (c.inPos + 1) < f1; omega)
        (by show inp.size - (c.inPos + 1) < f2'; omega)
    unfold decodeHuffAux
    cases hd : decodeBuf code c.r.bitBuf c.r.numBits with
    | sym s len => rfl
    | invalid =>
      simp only
      split
      · rfl
      · cases hb : inp[c.inPos]? with
        | none => rfl
        | some x => exact hrec x hb
    | short =>
      simp only
      cases hb : inp[c.inPos]? with
      | none => rfl
      | some x => exact hrec x hb

theorem decodeHuffAux_fuel_some (inp : Array UInt8) (code : Code) : ∀ (f : Nat) (c c' : Ctx) (v : Nat),
    decodeHuffAux inp code f c = (c', some v) → ∀ f', f ≤ f' → decodeHuffAux inp code f' c = (c', some v) := by
  intro f
  induction f with
  | zero => intro c c' v h; simp [decodeHuffAux] at h
  | succ f ih =>
    intro c c' v h f' hle
    obtain ⟨f0, rfl⟩ : ∃ k, f' = k + 1 := ⟨f' - 1, by omega⟩
    unfold decodeHuffAux at h ⊢
    cases hd : decodeBuf code c.r.bitBuf c.r.numBits with
    | sym s len => simp only [hd] at h ⊢; exact h
    | invalid =>
      simp only [hd] at h ⊢
      split at h
      · rename_i h1; simp only [h1, ↓reduceIte]; exact h
      · rename_i h1; simp only [h1, ↓reduceIte]
        cases hb : inp[c.inPos]? with
        | none => simp [hb] at h
        | some x => simp only [hb] at h ⊢; exact ih _ _ _ h f0 (by omega)
    | short =>
      simp only [hd] at h ⊢
      cases hb : inp[c.inPos]? with
      | none => simp [hb] at h
      | some x => simp only [hb] at h ⊢; exact ih _ _ _ h f0 (by omega)

theorem decodeHuffAux_mono (a b : Array UInt8) (code : Code) : ∀ (f : Nat) (c c' : Ctx) (v : Nat),
    decodeHuffAux a code f c = (c', some v) → decodeHuffAux (a ++ b) code f c = (c', some v) := by
  intro f
  induction f with
  | zero => intro c c' v h; simp [decodeHuffAux] at h
  | succ f ih =>
    intro c c' v h
    unfold decodeHuffAux at h ⊢
    cases hd : decodeBuf code c.r.bitBuf c.r.numBits with
    | sym s len => simp only [hd] at h ⊢; exact h
    | invalid =>
      simp only [hd] at h ⊢
      split at h
      · rename_i h1; simp only [h1, ↓reduceIte]; exact h
      · rename_i h1; simp only [h1, ↓reduceIte]
        cases hb : a[c.inPos]? with
        | none => simp [hb] at h
        | some x => simp only [hb] at h; rw [getElem?_append_of_some hb]; exact ih _ _ _ h
    | short =>
      simp only [hd] at h ⊢
      cases hb : a[c.inPos]? with
      | none => simp [hb] at h
      | some x => simp only [hb] at h; rw [getElem?_append_of_some hb]; exact ih _ _ _ h

theorem decodeHuffAux_starve (a b : Array UInt8) (code : Code) : ∀ (f : Nat) (c c1 : Ctx),
    c.inPos ≤ a.size → a.size - c.inPos < f → decodeHuffAux a code f c = (c1, none) →
    ∀ F F', (a ++ b).size - c.inPos < F → (a ++ b).size - c1.inPos < F' →
    decodeHuffAux (a ++ b) code F c = decodeHuffAux (a ++ b) code F' c1 := by
  intro f
  induction f with
  | zero => intro c c1 _ h; omega
  | succ f ih =>
    intro c c1 hle hf h F F' hF hF'
    have hsz : (a ++ b).size = a.size + b.size := Array.size_append
    have hpull : ∀ x, a[c.inPos]? = some x → decodeHuffAux a code f (pull c x) = (c1, none) →
        ∀ F0, F = F0 + 1 → decodeHuffAux (a ++ b) code F0 (pull c x) = decodeHuffAux (a ++ b) code F' c1 := by
      intro x hb h F0 hF0
      have hin : c.inPos < a.size := by
        by_cases hlt : c.inPos < a.size
        · exact hlt
        · simp [Array.getElem?_eq_none (Nat.le_of_not_lt hlt)] at hb
      exact ih _ _ (by show c.inPos + 1 ≤ _; omega) (by show a.size - (c.inPos + 1) < f; omega) h F0 F'
        (by show (a ++ b).size - (c.inPos + 1) < F0; omega) hF'
    obtain ⟨F0, hF0⟩ : ∃ k, F = k + 1 := ⟨F - 1, by omega⟩
    unfold decodeHuffAux at h
    cases hd : decodeBuf code c.r.bitBuf c.r.numBits with
    | sym s len => simp [hd] at h
    | invalid =>
      simp only [hd] at h
      split at h
      · simp at h
      · rename_i h1
        cases hb : a[c.inPos]? with
        | none =>
          simp only [hb, Prod.mk.injEq, and_true] at h
          subst h
          exact decodeHuffAux_fuel _ _ _ _ _ (by omega) hF hF'
        | some x =>
          simp only [hb] at h
          subst hF0
          conv => lhs; unfold decodeHuffAux
          simp only [hd, h1, ↓reduceIte, getElem?_append_of_some hb]
          exact hpull x hb h F0 rfl
    | short =>
      simp only [hd] at h
      cases hb : a[c.inPos]? with
      | none =>
        simp only [hb, Prod.mk.injEq, and_true] at h
        subst h
        exact decodeHuffAux_fuel _ _ _ _ _ (by omega) hF hF'
      | some x =>
        simp only [hb] at h
        subst hF0
        conv => lhs; unfold decodeHuffAux
        simp only [hd, getElem?_append_of_some hb]
        exact hpull x hb h F0 rfl

theorem decodeHuff_mono {a b : Array UInt8} {code : Code} {c c' : Ctx} {v : Nat}
    (h : decodeHuff a code c = (c', some v)) : decodeHuff (a ++ b) code c = (c', some v) := by
  have hsz : (a ++ b).size = a.size + b.size := Array.size_append
  unfold decodeHuff at h ⊢
  have := decodeHuffAux_mono a b code _ _ _ _ h
  exact decodeHuffAux_fuel_some _ _ _ _ _ _ this _ (by omega)

theorem decodeHuff_starve {a b : Array UInt8} {code : Code} {c c1 : Ctx} (hle : c.inPos ≤ a.size)
    (h : decodeHuff a code c = (c1, none)) : decodeHuff (a ++ b) code c = decodeHuff (a ++ b) code c1 := by
  have hsz : (a ++ b).size = a.size + b.size := Array.size_append
  unfold decodeHuff at h ⊢
  exact decodeHuffAux_starve a b code _ _ _ hle (by omega) h _ _ (by omega) (by omega)

/-- The same call environment with more input behind the current chunk. -/
def Env.ext (e : Env) (b : Array UInt8) : Env := { e with inp := e.inp ++ b }

@[simp] theorem Env.ext_eoi (e : Env) (b : Array UInt8) : (e.ext b).eoi = e.eoi := rfl
@[simp] theorem Env.ext_ring (e : Env) (b : Array UInt8) : (e.ext b).ring = e.ring := rfl
@[simp] theorem Env.ext_outEnd (e : Env) (b : Array UInt8) : (e.ext b).outEnd = e.outEnd := rfl
@[simp] theorem Env.ext_outLen (e : Env) (b : Array UInt8) : (e.ext b).outLen = e.outLen := rfl
@[simp] theorem Env.ext_flags (e : Env) (b : Array UInt8) : (e.ext b).flags = e.flags := rfl
@[simp] theorem Env.ext_inp (e : Env) (b : Array UInt8) : (e.ext b).inp = e.inp ++ b := rfl

/-- How a transition `S` taken with the input chunk `e.inp` relates to the transition function `F`
    of the same state taken with the whole input `e.inp ++ b`:
    a continuing transition is the same transition; a starved stop leaves a context from which the
    whole-input transition is the one it would have been from the start; any other stop is the same stop. -/
def SplitRel (e : Env) (c : Ctx) (out : Array UInt8) (F : Ctx → Step) : Step → Prop
  | .cont c' o' => F c = .cont c' o'
  | .fin st c1 o1 => (st = e.eoi ∧ o1 = out ∧ ReadOK e.inp c c1 ∧ F c1 = F c) ∨ (st ≠ e.eoi ∧ F c = .fin st c1 o1)

variable {e : Env} {b : Array UInt8} {c : Ctx} {out : Array UInt8}

/-- states built on `readBits amount` whose continuation does not look at the input -/
theorem split_readBits (hle : c.inPos ≤ e.inp.size) (amount : Nat) (k : Ctx → Nat → Step) (F : Ctx → Step)
    (hk : ∀ c1 v, ∃ c' o', k c1 v = .cont c' o')
    (hF : ∀ c0, ReadOK e.inp c c0 → c.r.numBits ≤ c0.r.numBits → F c0 = (match readBits (e.inp ++ b) amount c0 with
      | (c1, none) => .fin e.eoi c1 out
      | (c1, some v) => k c1 v)) :
    SplitRel e c out F (match readBits e.inp amount c with
      | (c1, none) => .fin e.eoi c1 out
      | (c1, some v) => k c1 v) := by
  have hok := (readBits_spec e.inp amount c hle).1
  have hnone := (readBits_spec e.inp amount c hle).2.1
  cases h : readBits e.inp amount c with
  | mk c1 o =>
    rw [h] at hok hnone
    cases o with
    | none =>
      simp only
      have hnb : c.r.numBits ≤ c1.r.numBits := by have := (hnone rfl).2.2; simp only at this; omega
      refine Or.inl ⟨rfl, rfl, hok, ?_⟩
      rw [hF c1 hok hnb, hF c (ReadOK.refl hle) (Nat.le_refl _), readBits_starve hle h]
    | some v =>
      simp only
      have := readBits_mono (b := b) hle h
      obtain ⟨c', o', hk'⟩ := hk c1 v
      rw [hk']
      show F c = _; rw [hF c (ReadOK.refl hle) (Nat.le_refl _), this]; exact hk'

theorem split_decodeHuff (hle : c.inPos ≤ e.inp.size) (code : Code) (k : Ctx → Nat → Step) (F : Ctx → Step)
    (hk : ∀ c1 v, ∃ c' o', k c1 v = .cont c' o')
    (hF : ∀ c0, ReadOK e.inp c c0 → F c0 = (match decodeHuff (e.inp ++ b) code c0 with
      | (c1, none) => .fin e.eoi c1 out
      | (c1, some v) => k c1 v)) :
    SplitRel e c out F (match decodeHuff e.inp code c with
      | (c1, none) => .fin e.eoi c1 out
      | (c1, some v) => k c1 v) := by
  have hok := (decodeHuff_spec e.inp code c hle).1
  cases h : decodeHuff e.inp code c with
  | mk c1 o =>
    rw [h] at hok
    cases o with
    | none =>
      simp only
      refine Or.inl ⟨rfl, rfl, hok, ?_⟩
      rw [hF c1 hok, hF c (ReadOK.refl hle), decodeHuff_starve hle h]
    | some v =>
      simp only
      have := decodeHuff_mono (b := b) h
      obtain ⟨c', o', hk'⟩ := hk c1 v
      rw [hk']
      show F c = _; rw [hF c (ReadOK.refl hle), this]; exact hk'

/-- states that read one whole byte directly -/
theorem split_readByte (hle : c.inPos ≤ e.inp.size) (k : UInt8 → Step) (F : Ctx → Step)
    (hk : ∀ x, ∃ c' o', k x = .cont c' o')
    (hF : F c = (match (e.inp ++ b)[c.inPos]? with
      | none => .fin e.eoi c out
      | some x => k x)) :
    SplitRel e c out F (match e.inp[c.inPos]? with
      | none => .fin e.eoi c out
      | some x => k x) := by
  cases h : e.inp[c.inPos]? with
  | none => exact Or.inl ⟨rfl, rfl, ReadOK.refl hle, rfl⟩
  | some x =>
    simp only
    have := getElem?_append_of_some (b := b) h
    obtain ⟨c', o', hk'⟩ := hk x
    rw [hk']
    show F c = _; rw [hF, this]; exact hk'

/-- states that do not look at the input at all -/
theorem split_same (F : Ctx → Step) (S : Step) (hF : F c = S)
    (hS : ∀ st c' o', S = .fin st c' o' → st ≠ e.eoi) : SplitRel e c out F S := by
  cases S with
  | cont c' o' => exact hF
  | fin st c' o' => exact Or.inr ⟨hS st c' o' rfl, hF⟩

theorem hmo_ne_eoi (e : Env) : stHasMoreOutput ≠ e.eoi := by
  rcases eoi_cases e with h | h <;> rw [h] <;> decide
theorem bb_ne_eoi (e : Env) : stBlockBoundary ≠ e.eoi := by
  rcases eoi_cases e with h | h <;> rw [h] <;> decide

/-- closes `∀ st c' o', S = .fin st c' o' → st ≠ e.eoi` for transitions that never stop starved -/
macro "no_eoi" : tactic => `(tactic|
  (intro st c' o' h; revert h; (try dsimp only); (repeat' split) <;> intro h <;>
   first
   | (simp at h; done)
   | (simp only [Step.fin.injEq] at h; rw [← h.1]; first | exact hmo_ne_eoi _ | exact bb_ne_eoi _)))

/-- registers of a context reached by bit-level reads, field by field -/
theorem ReadOK.fields {inp : Array UInt8} {c c0 : Ctx} (h : ReadOK inp c c0) :
    c0.r.state = c.r.state ∧ c0.r.counter = c.r.counter ∧ c0.r.dist = c.r.dist ∧ c0.r.numExtra = c.r.numExtra ∧
    c0.r.tableSizes = c.r.tableSizes ∧ c0.r.clenCode = c.r.clenCode ∧ c0.r.litCode = c.r.litCode ∧
    c0.r.distCode = c.r.distCode ∧ c0.outPos = c.outPos := by
  have := h.regs
  exact ⟨by rw [this], by rw [this], by rw [this], by rw [this], by rw [this], by rw [this], by rw [this],
    by rw [this], h.outPos⟩

theorem split_ReadBlockHeader (hle : c.inPos ≤ e.inp.size) :
    SplitRel e c out (fun c0 => stReadBlockHeader (e.ext b) c0 out) (stReadBlockHeader e c out) :=
  split_readBits hle 3 _ _ (fun _ _ => by (try dsimp only); (repeat' split) <;> exact ⟨_, _, rfl⟩) (fun c0 h0 _ => rfl)

theorem split_RawReadFirstByte (hle : c.inPos ≤ e.inp.size) :
    SplitRel e c out (fun c0 => stRawReadFirstByte (e.ext b) c0 out) (stRawReadFirstByte e c out) :=
  split_readBits hle 8 _ _ (fun _ _ => by (try dsimp only); (repeat' split) <;> exact ⟨_, _, rfl⟩) (fun c0 h0 _ => rfl)

theorem split_ReadExtraBitsCodeSize (hle : c.inPos ≤ e.inp.size) :
    SplitRel e c out (fun c0 => stReadExtraBitsCodeSize (e.ext b) c0 out) (stReadExtraBitsCodeSize e c out) :=
  split_readBits hle c.r.numExtra _ _ (fun _ _ => by (try dsimp only); (repeat' split) <;> exact ⟨_, _, rfl⟩) (fun c0 h0 _ => by
    show stReadExtraBitsCodeSize (e.ext b) c0 out = _
    unfold stReadExtraBitsCodeSize; rw [h0.fields.2.2.2.1]; rfl)

theorem split_ReadExtraBitsLitlen (hle : c.inPos ≤ e.inp.size) :
    SplitRel e c out (fun c0 => stReadExtraBitsLitlen (e.ext b) c0 out) (stReadExtraBitsLitlen e c out) :=
  split_readBits hle c.r.numExtra _ _ (fun _ _ => by (try dsimp only); (repeat' split) <;> exact ⟨_, _, rfl⟩) (fun c0 h0 _ => by
    show stReadExtraBitsLitlen (e.ext b) c0 out = _
    unfold stReadExtraBitsLitlen; rw [h0.fields.2.2.2.1]; rfl)

theorem split_ReadExtraBitsDistance (hle : c.inPos ≤ e.inp.size) :
    SplitRel e c out (fun c0 => stReadExtraBitsDistance (e.ext b) c0 out) (stReadExtraBitsDistance e c out) :=
  split_readBits hle c.r.numExtra _ _ (fun _ _ => by (try dsimp only); (repeat' split) <;> exact ⟨_, _, rfl⟩) (fun c0 h0 _ => by
    show stReadExtraBitsDistance (e.ext b) c0 out = _
    unfold stReadExtraBitsDistance; rw [h0.fields.2.2.2.1]; rfl)

theorem split_DecodeLitlen (hle : c.inPos ≤ e.inp.size) :
    SplitRel e c out (fun c0 => stDecodeLitlen (e.ext b) c0 out) (stDecodeLitlen e c out) :=
  split_decodeHuff hle c.r.litCode _ _ (fun _ _ => by (try dsimp only); (repeat' split) <;> exact ⟨_, _, rfl⟩) (fun c0 h0 => by
    show stDecodeLitlen (e.ext b) c0 out = _
    unfold stDecodeLitlen; rw [h0.fields.2.2.2.2.2.2.1]; rfl)

theorem split_DecodeDistance (hle : c.inPos ≤ e.inp.size) :
    SplitRel e c out (fun c0 => stDecodeDistance (e.ext b) c0 out) (stDecodeDistance e c out) :=
  split_decodeHuff hle c.r.distCode _ _ (fun _ _ => by (try dsimp only); (repeat' split) <;> exact ⟨_, _, rfl⟩) (fun c0 h0 => by
    show stDecodeDistance (e.ext b) c0 out = _
    unfold stDecodeDistance; rw [h0.fields.2.2.2.2.2.2.2.1]; rfl)

theorem split_ReadZlibCmf (hle : c.inPos ≤ e.inp.size) :
    SplitRel e c out (fun c0 => stReadZlibCmf (e.ext b) c0 out) (stReadZlibCmf e c out) :=
  split_readByte hle _ _ (fun _ => by (try dsimp only); (repeat' split) <;> exact ⟨_, _, rfl⟩) rfl

theorem split_ReadZlibFlg (hle : c.inPos ≤ e.inp.size) :
    SplitRel e c out (fun c0 => stReadZlibFlg (e.ext b) c0 out) (stReadZlibFlg e c out) :=
  split_readByte hle _ _ (fun _ => by (try dsimp only); (repeat' split) <;> exact ⟨_, _, rfl⟩) rfl

/-- with enough bits buffered `readBits` does not look at the input -/
theorem readBits_enough (inp inp' : Array UInt8) (amount : Nat) (c : Ctx) (h : amount ≤ c.r.numBits) :
    readBits inp amount c = readBits inp' amount c := by
  unfold readBits readBitsAux
  have : ¬ c.r.numBits < amount := by omega
  simp only [this, ↓reduceIte]

theorem split_BlockTypeNoCompression (hle : c.inPos ≤ e.inp.size) :
    SplitRel e c out (fun c0 => stBlockTypeNoCompression (e.ext b) c0 out) (stBlockTypeNoCompression e c out) :=
  split_same _ _ (by
    show stBlockTypeNoCompression (e.ext b) c out = _
    unfold stBlockTypeNoCompression
    rw [readBits_enough (e.ext b).inp e.inp _ c (Nat.mod_le _ _)]; rfl) (by
    unfold stBlockTypeNoCompression
    have hsp := (readBits_spec e.inp (c.r.numBits % 8) c hle).2.1
    cases h : readBits e.inp (c.r.numBits % 8) c with
    | mk c1 o =>
      cases o with
      | none => rw [h] at hsp; have := (hsp rfl).2.1; have := (hsp rfl).2.2; have := Nat.mod_le c.r.numBits 8; simp only at *; omega
      | some v => intro st c' o' h'; simp at h')

theorem split_RawHeader' (hle : c.inPos ≤ e.inp.size) (F : Ctx → Step)
    (hF : ∀ c0, F c0 = stRawHeader (e.ext b) c0 out) : SplitRel e c out F (stRawHeader e c out) := by
  unfold stRawHeader
  dsimp only
  by_cases h4 : c.r.counter < 4
  · by_cases hnb : c.r.numBits ≠ 0
    · rw [if_pos h4, if_pos hnb]
      exact split_readBits hle 8 _ _ (fun _ _ => by (try dsimp only); (repeat' split) <;> exact ⟨_, _, rfl⟩) (fun c0 h0 hn => by
        rw [hF c0]
        unfold stRawHeader
        dsimp only
        have : c0.r.numBits ≠ 0 := by omega
        rw [h0.fields.2.1, if_pos h4, if_pos this]; rfl)
    · rw [if_pos h4, if_neg hnb]
      exact split_readByte hle _ _ (fun _ => by (try dsimp only); (repeat' split) <;> exact ⟨_, _, rfl⟩) (by
        rw [hF c]
        unfold stRawHeader
        dsimp only
        rw [if_pos h4, if_neg hnb]; rfl)
  · simp only [h4, ↓reduceIte]
    exact split_same _ _ (by
      rw [hF c]
      unfold stRawHeader
      dsimp only
      simp only [h4, ↓reduceIte]) (by no_eoi)

theorem split_ReadAdler32' (hle : c.inPos ≤ e.inp.size) (F : Ctx → Step)
    (hF : ∀ c0, F c0 = stReadAdler32 (e.ext b) c0 out) : SplitRel e c out F (stReadAdler32 e c out) := by
  unfold stReadAdler32
  dsimp only
  by_cases h4 : c.r.counter < 4
  · by_cases hnb : c.r.numBits ≠ 0
    · rw [if_pos h4, if_pos hnb]
      exact split_readBits hle 8 _ _ (fun _ _ => by (try dsimp only); (repeat' split) <;> exact ⟨_, _, rfl⟩) (fun c0 h0 hn => by
        rw [hF c0]
        unfold stReadAdler32
        dsimp only
        have : c0.r.numBits ≠ 0 := by omega
        rw [h0.fields.2.1, if_pos h4, if_pos this]; rfl)
    · rw [if_pos h4, if_neg hnb]
      exact split_readByte hle _ _ (fun _ => by (try dsimp only); (repeat' split) <;> exact ⟨_, _, rfl⟩) (by
        rw [hF c]
        unfold stReadAdler32
        dsimp only
        rw [if_pos h4, if_neg hnb]; rfl)
  · simp only [h4, ↓reduceIte]
    exact split_same _ _ (by
      rw [hF c]
      unfold stReadAdler32
      dsimp only
      simp only [h4, ↓reduceIte]) (by no_eoi)

theorem split_ReadTableSizes' (hle : c.inPos ≤ e.inp.size) (F : Ctx → Step)
    (hF : ∀ c0, F c0 = stReadTableSizes (e.ext b) c0 out) : SplitRel e c out F (stReadTableSizes e c out) := by
  unfold stReadTableSizes
  dsimp only
  by_cases h3 : c.r.counter < 3
  · simp only [h3, ↓reduceIte]
    exact split_readBits hle _ _ _ (fun _ _ => by (try dsimp only); (repeat' split) <;> exact ⟨_, _, rfl⟩) (fun c0 h0 hn => by
      rw [hF c0]
      unfold stReadTableSizes
      dsimp only
      simp only [h0.fields.2.1, h3, ↓reduceIte]; rfl)
  · simp only [h3, ↓reduceIte]
    exact split_same _ _ (by
      rw [hF c]
      unfold stReadTableSizes
      dsimp only
      simp only [h3, ↓reduceIte]) (by no_eoi)

theorem split_ReadHufflenTableCodeSize' (hle : c.inPos ≤ e.inp.size) (F : Ctx → Step)
    (hF : ∀ c0, F c0 = stReadHufflenTableCodeSize (e.ext b) c0 out) : SplitRel e c out F (stReadHufflenTableCodeSize e c out) := by
  unfold stReadHufflenTableCodeSize
  dsimp only
  by_cases h3 : c.r.counter < c.r.tableSizes.getD 2 0
  · simp only [h3, ↓reduceIte]
    exact split_readBits hle _ _ _ (fun _ _ => by (try dsimp only); (repeat' split) <;> exact ⟨_, _, rfl⟩) (fun c0 h0 hn => by
      rw [hF c0]
      unfold stReadHufflenTableCodeSize
      dsimp only
      simp only [h0.fields.2.1, h0.fields.2.2.2.2.1, h3, ↓reduceIte]; rfl)
  · simp only [h3, ↓reduceIte]
    exact split_same _ _ (by
      rw [hF c]
      unfold stReadHufflenTableCodeSize
      dsimp only
      simp only [h3, ↓reduceIte]) (by no_eoi)

theorem split_ReadLitlenDistTablesCodeSize' (hle : c.inPos ≤ e.inp.size) (F : Ctx → Step)
    (hF : ∀ c0, F c0 = stReadLitlenDistTablesCodeSize (e.ext b) c0 out) : SplitRel e c out F (stReadLitlenDistTablesCodeSize e c out) := by
  unfold stReadLitlenDistTablesCodeSize
  dsimp only
  by_cases h3 : c.r.counter < c.r.tableSizes.getD 0 0 + c.r.tableSizes.getD 1 0
  · simp only [h3, ↓reduceIte]
    exact split_decodeHuff hle _ _ _ (fun _ _ => by (try dsimp only); (repeat' split) <;> exact ⟨_, _, rfl⟩) (fun c0 h0 => by
      rw [hF c0]
      unfold stReadLitlenDistTablesCodeSize
      dsimp only
      simp only [h0.fields.2.1, h0.fields.2.2.2.2.1, h0.fields.2.2.2.2.2.1, h3, ↓reduceIte]; rfl)
  · simp only [h3, ↓reduceIte]
    exact split_same _ _ (by
      rw [hF c]
      unfold stReadLitlenDistTablesCodeSize
      dsimp only
      simp only [h3, ↓reduceIte]) (by no_eoi)

theorem split_RawHeader (hle : c.inPos ≤ e.inp.size) :
    SplitRel e c out (fun c0 => stRawHeader (e.ext b) c0 out) (stRawHeader e c out) :=
  split_RawHeader' hle _ (fun _ => rfl)
theorem split_ReadAdler32 (hle : c.inPos ≤ e.inp.size) :
    SplitRel e c out (fun c0 => stReadAdler32 (e.ext b) c0 out) (stReadAdler32 e c out) :=
  split_ReadAdler32' hle _ (fun _ => rfl)
theorem split_ReadTableSizes (hle : c.inPos ≤ e.inp.size) :
    SplitRel e c out (fun c0 => stReadTableSizes (e.ext b) c0 out) (stReadTableSizes e c out) :=
  split_ReadTableSizes' hle _ (fun _ => rfl)
theorem split_ReadHufflenTableCodeSize (hle : c.inPos ≤ e.inp.size) :
    SplitRel e c out (fun c0 => stReadHufflenTableCodeSize (e.ext b) c0 out) (stReadHufflenTableCodeSize e c out) :=
  split_ReadHufflenTableCodeSize' hle _ (fun _ => rfl)
theorem split_ReadLitlenDistTablesCodeSize (hle : c.inPos ≤ e.inp.size) :
    SplitRel e c out (fun c0 => stReadLitlenDistTablesCodeSize (e.ext b) c0 out) (stReadLitlenDistTablesCodeSize e c out) :=
  split_ReadLitlenDistTablesCodeSize' hle _ (fun _ => rfl)

theorem split_Start : SplitRel e c out (fun c0 => stStart (e.ext b) c0 out) (stStart e c out) :=
  split_same _ _ rfl (by unfold stStart; no_eoi)
theorem split_RawStoreFirstByte :
    SplitRel e c out (fun c0 => stRawStoreFirstByte (e.ext b) c0 out) (stRawStoreFirstByte e c out) :=
  split_same _ _ rfl (by unfold stRawStoreFirstByte; no_eoi)
theorem split_RawMemcpy1 : SplitRel e c out (fun c0 => stRawMemcpy1 (e.ext b) c0 out) (stRawMemcpy1 e c out) :=
  split_same _ _ rfl (by unfold stRawMemcpy1; no_eoi)
theorem split_WriteSymbol : SplitRel e c out (fun c0 => stWriteSymbol (e.ext b) c0 out) (stWriteSymbol e c out) :=
  split_same _ _ rfl (by unfold stWriteSymbol; no_eoi)
theorem split_HuffDecodeOuterLoop1 :
    SplitRel e c out (fun c0 => stHuffDecodeOuterLoop1 (e.ext b) c0 out) (stHuffDecodeOuterLoop1 e c out) :=
  split_same _ _ rfl (by unfold stHuffDecodeOuterLoop1; no_eoi)
theorem split_Match : SplitRel e c out (fun c0 => stMatch (e.ext b) c0 out) (stMatch e c out) :=
  split_same _ _ rfl (by unfold stMatch; no_eoi)
theorem split_BlockDone : SplitRel e c out (fun c0 => stBlockDone (e.ext b) c0 out) (stBlockDone e c out) :=
  split_same _ _ rfl (by unfold stBlockDone; no_eoi)

theorem copyIn_prefix (a b : Array UInt8) (n : Nat) : ∀ (out : Array UInt8) (p q : Nat), q + n ≤ a.size →
    copyIn (a ++ b) out p q n = copyIn a out p q n := by
  induction n with
  | zero => intro out p q _; rfl
  | succ n ih =>
    intro out p q h
    unfold copyIn
    have : (a ++ b).getD q 0 = a.getD q 0 := by
      simp only [Array.getD_eq_getD_getElem?]
      rw [Array.getElem?_append_left (by omega)]
    rw [this]
    exact ih _ _ _ (by omega)

theorem copyIn_add (inp : Array UInt8) (n m : Nat) : ∀ (out : Array UInt8) (p q : Nat),
    copyIn inp out p q (n + m) = copyIn inp (copyIn inp out p q n) (p + n) (q + n) m := by
  induction n with
  | zero => intro out p q; simp [copyIn]
  | succ n ih =>
    intro out p q
    have e1 : n + 1 + m = (n + m) + 1 := by omega
    rw [e1]
    conv => lhs; unfold copyIn
    rw [ih]
    have e2 : p + 1 + n = p + (n + 1) := by omega
    have e3 : q + 1 + n = q + (n + 1) := by omega
    rw [e2, e3]
    rfl

/-- `RawMemcpy2` under a prefix of the input: either the same transition as with the whole input,
    or the chunk ran out in the middle of the stored data — then the prefix run starves two
    transitions later in a context from which the whole-input transition lands where the
    whole-input transition from the start lands. -/
theorem split_RawMemcpy2 (hs : c.r.state = sRawMemcpy2) (g : Geo e c out) :
    match stRawMemcpy2 e c out with
    | .fin st c1 o1 => st = e.eoi ∧ c1 = c ∧ o1 = out
    | .cont c' o' =>
        stRawMemcpy2 (e.ext b) c out = .cont c' o' ∨
        (step e c' o' = .cont (setState c' sRawMemcpy2) o' ∧
         step e (setState c' sRawMemcpy2) o' = .fin e.eoi (setState c' sRawMemcpy2) o' ∧
         stRawMemcpy2 (e.ext b) (setState c' sRawMemcpy2) o' = stRawMemcpy2 (e.ext b) c out) := by
  have hsz : (e.inp ++ b).size = e.inp.size + b.size := Array.size_append
  have hi := g.inLe
  have ho := g.outLe
  unfold stRawMemcpy2 wrBytesLeft
  by_cases hin : c.inPos < e.inp.size
  · simp only [hin, ↓reduceIte, Env.ext_inp, Env.ext_outEnd, hsz]
    have hin2 : c.inPos < e.inp.size + b.size := by omega
    simp only [hin2, ↓reduceIte]
    by_cases hsame : min (min (e.outEnd - c.outPos) (e.inp.size + b.size - c.inPos)) c.r.counter
        = min (min (e.outEnd - c.outPos) (e.inp.size - c.inPos)) c.r.counter
    · left
      rw [hsame, copyIn_prefix _ _ _ _ _ _ (by omega)]
    · right
      -- the chunk is the limiting factor
      have hn : min (min (e.outEnd - c.outPos) (e.inp.size - c.inPos)) c.r.counter = e.inp.size - c.inPos := by omega
      rw [hn]
      have hn' : e.inp.size - c.inPos < c.r.counter ∧ e.inp.size - c.inPos < e.outEnd - c.outPos := by omega
      refine ⟨?_, ?_, ?_⟩
      · rw [step_RawMemcpy1 rfl]
        unfold stRawMemcpy1 wrBytesLeft
        have h1 : ¬ (c.r.counter - (e.inp.size - c.inPos) = 0) := by omega
        have h2 : ¬ (e.outEnd - (c.outPos + (e.inp.size - c.inPos)) = 0) := by omega
        simp only [setState, h1, h2, ↓reduceIte]
      · rw [step_RawMemcpy2 rfl]
        unfold stRawMemcpy2
        have h1 : ¬ (c.inPos + (e.inp.size - c.inPos) < e.inp.size) := by omega
        simp only [setState, h1, ↓reduceIte]
      · simp only [setState]
        have h1 : c.inPos + (e.inp.size - c.inPos) < e.inp.size + b.size := by omega
        simp only [h1, ↓reduceIte]
        have hN : min (min (e.outEnd - c.outPos) (e.inp.size + b.size - c.inPos)) c.r.counter =
            (e.inp.size - c.inPos) +
            min (min (e.outEnd - (c.outPos + (e.inp.size - c.inPos))) (e.inp.size + b.size - (c.inPos + (e.inp.size - c.inPos))))
              (c.r.counter - (e.inp.size - c.inPos)) := by omega
        rw [hN, copyIn_add, copyIn_prefix e.inp b (e.inp.size - c.inPos) out c.outPos c.inPos (by omega)]
        have k1 : c.r.counter - (e.inp.size - c.inPos) -
            min (min (e.outEnd - (c.outPos + (e.inp.size - c.inPos))) (e.inp.size + b.size - (c.inPos + (e.inp.size - c.inPos))))
              (c.r.counter - (e.inp.size - c.inPos)) =
            c.r.counter - (e.inp.size - c.inPos +
            min (min (e.outEnd - (c.outPos + (e.inp.size - c.inPos))) (e.inp.size + b.size - (c.inPos + (e.inp.size - c.inPos))))
              (c.r.counter - (e.inp.size - c.inPos))) := by omega
        rw [k1, Nat.add_assoc, Nat.add_assoc]
  · simp only [hin, ↓reduceIte]
    exact ⟨trivial, trivial, trivial⟩

theorem SplitRel.lift {F F' : Ctx → Step} {S : Step} (hX : ∀ c0, c0.r.state = c.r.state → F c0 = F' c0)
    (h : SplitRel e c out F' S) : SplitRel e c out F S := by
  cases S with
  | cont c' o' => show F c = _; rw [hX c rfl]; exact h
  | fin st c1 o1 =>
    rcases h with ⟨h1, h2, h3, h4⟩ | ⟨h1, h2⟩
    · exact Or.inl ⟨h1, h2, h3, by rw [hX c1 h3.state, hX c rfl]; exact h4⟩
    · exact Or.inr ⟨h1, by rw [hX c rfl]; exact h2⟩

theorem done_ne_eoi (e : Env) : stDone ≠ e.eoi := by
  rcases eoi_cases e with h | h <;> rw [h] <;> decide
theorem failed_ne_eoi (e : Env) : stFailed ≠ e.eoi := by
  rcases eoi_cases e with h | h <;> rw [h] <;> decide

/-- Every state except `RawMemcpy2`: the transition under the chunk relates to the transition
    under the whole input as `SplitRel` says. -/
theorem step_split (g : Geo e c out) (hne : c.r.state ≠ sRawMemcpy2) :
    SplitRel e c out (fun c0 => step (e.ext b) c0 out) (step e c out) := by
  have hle := g.inLe
  by_cases hStart : c.r.state = sStart
  · rw [step_Start hStart]
    exact SplitRel.lift (fun c0 h0 => step_Start (h0.trans hStart)) (split_Start )
  by_cases hReadZlibCmf : c.r.state = sReadZlibCmf
  · rw [step_ReadZlibCmf hReadZlibCmf]
    exact SplitRel.lift (fun c0 h0 => step_ReadZlibCmf (h0.trans hReadZlibCmf)) (split_ReadZlibCmf hle)
  by_cases hReadZlibFlg : c.r.state = sReadZlibFlg
  · rw [step_ReadZlibFlg hReadZlibFlg]
    exact SplitRel.lift (fun c0 h0 => step_ReadZlibFlg (h0.trans hReadZlibFlg)) (split_ReadZlibFlg hle)
  by_cases hReadBlockHeader : c.r.state = sReadBlockHeader
  · rw [step_ReadBlockHeader hReadBlockHeader]
    exact SplitRel.lift (fun c0 h0 => step_ReadBlockHeader (h0.trans hReadBlockHeader)) (split_ReadBlockHeader hle)
  by_cases hBlockTypeNoCompression : c.r.state = sBlockTypeNoCompression
  · rw [step_BlockTypeNoCompression hBlockTypeNoCompression]
    exact SplitRel.lift (fun c0 h0 => step_BlockTypeNoCompression (h0.trans hBlockTypeNoCompression)) (split_BlockTypeNoCompression hle)
  by_cases hRawHeader : c.r.state = sRawHeader
  · rw [step_RawHeader hRawHeader]
    exact SplitRel.lift (fun c0 h0 => step_RawHeader (h0.trans hRawHeader)) (split_RawHeader hle)
  by_cases hRawReadFirstByte : c.r.state = sRawReadFirstByte
  · rw [step_RawReadFirstByte hRawReadFirstByte]
    exact SplitRel.lift (fun c0 h0 => step_RawReadFirstByte (h0.trans hRawReadFirstByte)) (split_RawReadFirstByte hle)
  by_cases hRawStoreFirstByte : c.r.state = sRawStoreFirstByte
  · rw [step_RawStoreFirstByte hRawStoreFirstByte]
    exact SplitRel.lift (fun c0 h0 => step_RawStoreFirstByte (h0.trans hRawStoreFirstByte)) (split_RawStoreFirstByte )
  by_cases hRawMemcpy1 : c.r.state = sRawMemcpy1
  · rw [step_RawMemcpy1 hRawMemcpy1]
    exact SplitRel.lift (fun c0 h0 => step_RawMemcpy1 (h0.trans hRawMemcpy1)) (split_RawMemcpy1 )
  by_cases hReadTableSizes : c.r.state = sReadTableSizes
  · rw [step_ReadTableSizes hReadTableSizes]
    exact SplitRel.lift (fun c0 h0 => step_ReadTableSizes (h0.trans hReadTableSizes)) (split_ReadTableSizes hle)
  by_cases hReadHufflenTableCodeSize : c.r.state = sReadHufflenTableCodeSize
  · rw [step_ReadHufflenTableCodeSize hReadHufflenTableCodeSize]
    exact SplitRel.lift (fun c0 h0 => step_ReadHufflenTableCodeSize (h0.trans hReadHufflenTableCodeSize)) (split_ReadHufflenTableCodeSize hle)
  by_cases hReadLitlenDistTablesCodeSize : c.r.state = sReadLitlenDistTablesCodeSize
  · rw [step_ReadLitlenDistTablesCodeSize hReadLitlenDistTablesCodeSize]
    exact SplitRel.lift (fun c0 h0 => step_ReadLitlenDistTablesCodeSize (h0.trans hReadLitlenDistTablesCodeSize)) (split_ReadLitlenDistTablesCodeSize hle)
  by_cases hReadExtraBitsCodeSize : c.r.state = sReadExtraBitsCodeSize
  · rw [step_ReadExtraBitsCodeSize hReadExtraBitsCodeSize]
    exact SplitRel.lift (fun c0 h0 => step_ReadExtraBitsCodeSize (h0.trans hReadExtraBitsCodeSize)) (split_ReadExtraBitsCodeSize hle)
  by_cases hDecodeLitlen : c.r.state = sDecodeLitlen
  · rw [step_DecodeLitlen hDecodeLitlen]
    exact SplitRel.lift (fun c0 h0 => step_DecodeLitlen (h0.trans hDecodeLitlen)) (split_DecodeLitlen hle)
  by_cases hWriteSymbol : c.r.state = sWriteSymbol
  · rw [step_WriteSymbol hWriteSymbol]
    exact SplitRel.lift (fun c0 h0 => step_WriteSymbol (h0.trans hWriteSymbol)) (split_WriteSymbol )
  by_cases hHuffDecodeOuterLoop1 : c.r.state = sHuffDecodeOuterLoop1
  · rw [step_HuffDecodeOuterLoop1 hHuffDecodeOuterLoop1]
    exact SplitRel.lift (fun c0 h0 => step_HuffDecodeOuterLoop1 (h0.trans hHuffDecodeOuterLoop1)) (split_HuffDecodeOuterLoop1 )
  by_cases hReadExtraBitsLitlen : c.r.state = sReadExtraBitsLitlen
  · rw [step_ReadExtraBitsLitlen hReadExtraBitsLitlen]
    exact SplitRel.lift (fun c0 h0 => step_ReadExtraBitsLitlen (h0.trans hReadExtraBitsLitlen)) (split_ReadExtraBitsLitlen hle)
  by_cases hDecodeDistance : c.r.state = sDecodeDistance
  · rw [step_DecodeDistance hDecodeDistance]
    exact SplitRel.lift (fun c0 h0 => step_DecodeDistance (h0.trans hDecodeDistance)) (split_DecodeDistance hle)
  by_cases hReadExtraBitsDistance : c.r.state = sReadExtraBitsDistance
  · rw [step_ReadExtraBitsDistance hReadExtraBitsDistance]
    exact SplitRel.lift (fun c0 h0 => step_ReadExtraBitsDistance (h0.trans hReadExtraBitsDistance)) (split_ReadExtraBitsDistance hle)
  by_cases hBlockDone : c.r.state = sBlockDone
  · rw [step_BlockDone hBlockDone]
    exact SplitRel.lift (fun c0 h0 => step_BlockDone (h0.trans hBlockDone)) (split_BlockDone )
  by_cases hReadAdler32 : c.r.state = sReadAdler32
  · rw [step_ReadAdler32 hReadAdler32]
    exact SplitRel.lift (fun c0 h0 => step_ReadAdler32 (h0.trans hReadAdler32)) (split_ReadAdler32 hle)
  by_cases hM1 : c.r.state = sHuffDecodeOuterLoop2
  · rw [step_Match1 hM1]
    exact SplitRel.lift (fun c0 h0 => step_Match1 (h0.trans hM1)) split_Match
  by_cases hM2 : c.r.state = sWriteLenBytesToEnd
  · rw [step_Match2 hM2]
    exact SplitRel.lift (fun c0 h0 => step_Match2 (h0.trans hM2)) split_Match
  by_cases hD : c.r.state = sDoneForever
  · rw [step_DoneForever hD]
    exact Or.inr ⟨done_ne_eoi e, step_DoneForever hD⟩
  · have hF : sDoneForever < c.r.state := by
      simp only [sStart, sReadZlibCmf, sReadZlibFlg, sReadBlockHeader, sBlockTypeNoCompression, sRawHeader,
        sRawMemcpy1, sRawMemcpy2, sReadTableSizes, sReadHufflenTableCodeSize, sReadLitlenDistTablesCodeSize,
        sReadExtraBitsCodeSize, sDecodeLitlen, sWriteSymbol, sReadExtraBitsLitlen, sDecodeDistance,
        sReadExtraBitsDistance, sRawReadFirstByte, sRawStoreFirstByte, sWriteLenBytesToEnd, sBlockDone,
        sHuffDecodeOuterLoop1, sHuffDecodeOuterLoop2, sReadAdler32, sDoneForever] at *
      omega
    have h1 : step e c out = .fin stFailed c out := by unfold step; exact stepAt_failed _ hF e c out
    have h2 : step (e.ext b) c out = .fin stFailed c out := by unfold step; exact stepAt_failed _ hF _ c out
    rw [h1]
    exact Or.inr ⟨failed_ne_eoi e, h2⟩

/-- The run from `(c, out)` ends with result `R` (a real status, not fuel exhaustion). -/
def Final (e : Env) (c : Ctx) (out : Array UInt8) (R : Int × Ctx × Array UInt8) : Prop :=
  ∃ f, run e f c out = R ∧ R.1 ≠ stModelError

theorem Final.of_cont {e : Env} {c c' : Ctx} {o o' : Array UInt8} {R : Int × Ctx × Array UInt8}
    (h : step e c o = .cont c' o') (hf : Final e c' o' R) : Final e c o R := by
  obtain ⟨f, hf, hne⟩ := hf
  refine ⟨f + 1, ?_, hne⟩
  rw [run, h]; exact hf

theorem Final.of_step_eq {e : Env} {c c1 : Ctx} {o o1 : Array UInt8} {R : Int × Ctx × Array UInt8}
    (h : step e c o = step e c1 o1) (hf : Final e c1 o1 R) : Final e c o R := by
  obtain ⟨f, hf, hne⟩ := hf
  cases f with
  | zero => rw [run] at hf; rw [← hf] at hne; exact absurd rfl hne
  | succ f =>
    refine ⟨f + 1, ?_, hne⟩
    rw [run] at hf ⊢
    rw [h]; exact hf

theorem Final.unique {e : Env} {c : Ctx} {o : Array UInt8} {R R' : Int × Ctx × Array UInt8}
    (h : Final e c o R) (h' : Final e c o R') : R = R' := by
  obtain ⟨f, hf, hne⟩ := h
  obtain ⟨f', hf', hne'⟩ := h'
  have a := run_fuel_mono e f c o (by rw [hf]; exact hne) (max f f') (Nat.le_max_left _ _)
  have b := run_fuel_mono e f' c o (by rw [hf']; exact hne') (max f f') (Nat.le_max_right _ _)
  rw [← hf, ← hf', ← a, ← b]

/-- Geometry does not depend on what follows the chunk, only gets easier. -/
theorem Geo.ext {e : Env} {b : Array UInt8} {c : Ctx} {out : Array UInt8} (g : Geo e c out) : Geo (e.ext b) c out :=
  ⟨by have := g.inLe; show c.inPos ≤ (e.inp ++ b).size; simp; omega, g.outLe, g.endLe⟩

/-- INPUT SPLIT at the level of runs: if the run over the chunk `e.inp` stops starved in
    `(c1, out1)`, then whatever the run over the whole input `e.inp ++ b` resumed from `(c1, out1)`
    ends with, the run over the whole input from the start ends with the same. -/
theorem run_split (e : Env) (b : Array UInt8) : ∀ (f : Nat) (c : Ctx) (out : Array UInt8) (c1 : Ctx) (out1 : Array UInt8),
    Geo e c out → run e f c out = (e.eoi, c1, out1) →
    ∀ R, Final (e.ext b) c1 out1 R → Final (e.ext b) c out R := by
  intro f
  induction f with
  | zero =>
    intro c out c1 out1 g h
    rw [run] at h
    have := eoi_cases e
    simp only [Prod.mk.injEq] at h
    rcases this with h1 | h1 <;> rw [h1] at h <;> simp [stModelError, stNeedsMoreInput, stFailedCannotMakeProgress] at h
  | succ f ih =>
    intro c out c1 out1 g h R hR
    have hok := step_ok g
    by_cases hm : c.r.state = sRawMemcpy2
    · -- stored-block copy
      have hsp := split_RawMemcpy2 (b := b) hm g
      rw [run, step_RawMemcpy2 hm] at h
      rw [step_RawMemcpy2 hm] at hok
      cases hst : stRawMemcpy2 e c out with
      | fin st c' o' =>
        rw [hst] at h hsp
        simp only [Prod.mk.injEq] at h
        obtain ⟨_, hc, ho⟩ := hsp
        rw [← h.2.1, ← h.2.2, hc, ho] at hR
        exact hR
      | cont c' o' =>
        rw [hst] at h hsp hok
        simp only at h
        rcases hsp with hsame | ⟨h1, h2, h3⟩
        · exact Final.of_cont (by rw [step_RawMemcpy2 hm]; exact hsame) (ih c' o' c1 out1 hok.geo h R hR)
        · -- the chunk ended inside the stored data
          cases f with
          | zero => rw [run] at h; have := eoi_cases e; simp only [Prod.mk.injEq] at h
                    rcases this with h1 | h1 <;> rw [h1] at h <;> simp [stModelError, stNeedsMoreInput, stFailedCannotMakeProgress] at h
          | succ f =>
            rw [run, h1] at h
            simp only at h
            cases f with
            | zero => rw [run] at h; have := eoi_cases e; simp only [Prod.mk.injEq] at h
                      rcases this with h1 | h1 <;> rw [h1] at h <;> simp [stModelError, stNeedsMoreInput, stFailedCannotMakeProgress] at h
            | succ f =>
              rw [run, h2] at h
              simp only [Prod.mk.injEq, true_and] at h
              rw [← h.1, ← h.2] at hR
              refine Final.of_step_eq ?_ hR
              rw [step_RawMemcpy2 hm, step_RawMemcpy2 (c := setState c' sRawMemcpy2) rfl]
              exact h3.symm
    · have hsp := step_split (b := b) g hm
      rw [run] at h
      cases hst : step e c out with
      | cont c' o' =>
        rw [hst] at h hsp hok
        simp only at h
        exact Final.of_cont hsp (ih c' o' c1 out1 hok.geo h R hR)
      | fin st c' o' =>
        rw [hst] at h hsp
        simp only [Prod.mk.injEq] at h
        obtain ⟨hs, hc, ho⟩ := h
        rcases hsp with ⟨_, h2, _, h4⟩ | ⟨h1, _⟩
        · rw [← hc, ← ho, h2] at hR
          exact Final.of_step_eq h4.symm hR
        · exact absurd hs h1

end Model.Core
