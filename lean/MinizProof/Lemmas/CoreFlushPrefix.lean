/-
A PREFIX THAT ENDS AT A BLOCK BOUNDARY ON A BYTE BOUNDARY (what a sync / full flush leaves behind):
when the reference decoder reads `k` complete non-final blocks from the start of the input and the
last of them ends exactly at the end of the input, one call of the decoder model (flat buffer, room
to spare, more input announced) writes exactly what those blocks expand to, consumes all the input
and reports "needs more input" — everything supplied so far is decodable without anything further.
-/
import MinizProof.Lemmas.CoreRefine
import MinizProof.Lemmas.CoreZlib

set_option maxRecDepth 100000
namespace Model.Core
open Spec

/-- the reference decoder reads a run of complete non-final blocks from bit `pos` (output so far `o`)
    to bit `p2` (output `o2`) -/
inductive DecodesBlocks (pre : Array UInt8) (maxDist : Nat) (data : Array UInt8) : Nat → Array UInt8 → Nat → Array UInt8 → Prop
  | nil (pos : Nat) (o : Array UInt8) : DecodesBlocks pre maxDist data pos o pos o
  | cons {fuel pos p1 p2 : Nat} {o o1 o2 : Array UInt8} {info : BlockInfo} :
      inflateBlock pre maxDist data fuel pos o = .accept (p1, o1, info) → info.final = false →
      DecodesBlocks pre maxDist data p1 o1 p2 o2 → DecodesBlocks pre maxDist data pos o p2 o2

theorem DecodesBlocks.size_le {pre : Array UInt8} {maxDist : Nat} {data : Array UInt8} {pos p2 : Nat} {o o2 : Array UInt8}
    (h : DecodesBlocks pre maxDist data pos o p2 o2) : o.size ≤ o2.size := by
  induction h with
  | nil => exact Nat.le_refl _
  | cons hb _ _ ih => have := inflateBlock_size_le hb; simp only at this; omega

variable {e : Env}

/-- the model follows the reference decoder over a run of complete non-final blocks -/
theorem sim_prefix (hflat : e.ring = false) (hend : e.outEnd ≤ e.outLen)
    (hstop : hasFlag e.flags fStopOnBlockBoundary = false) {pre : Array UInt8} {maxDist : Nat}
    {pos p2 : Nat} {o o2 : Array UInt8} (h : DecodesBlocks pre maxDist e.inp pos o p2 o2) :
    ∀ (c : Ctx) (outA : Array UInt8), c.r.state = sReadBlockHeader → Sim e c outA pos (pre ++ o) → Shape c →
    pre.size + o2.size ≤ e.outEnd →
    ∃ c' outA', Reaches e c outA c' outA' ∧ c'.r.state = sReadBlockHeader ∧ Sim e c' outA' p2 (pre ++ o2) ∧ Shape c' := by
  induction h with
  | nil pos o => intro c outA hs hsim hsh _; exact ⟨c, outA, Reaches.refl _ _ _, hs, hsim, hsh⟩
  | cons hb hf hrest ih =>
    intro c outA hs hsim hsh hroom
    have hmono := hrest.size_le
    obtain ⟨c1, outA1, r1, hs1, hsim1, hfin1, _, sh1⟩ :=
      sim_block (c := c) (outA := outA) hflat hend hb hs hsim hsh (by omega)
    have hf0 : c1.r.finish = 0 := by
      by_cases hz : c1.r.finish = 0
      · exact hz
      · have := hfin1.mp hz; rw [hf] at this; exact absurd this (by decide)
    have st2 := micro_blockDone_next (e := e) (c := c1) (outA := outA1) hs1 hf0 hstop
    have hsim2 : Sim e (setState c1 sReadBlockHeader) outA1 _ (pre ++ _) :=
      ⟨hsim1.rep.of_eq rfl rfl rfl, hsim1.nb8, hsim1.outPos, hsim1.outEq, hsim1.size⟩
    obtain ⟨c', outA', r', hs', hsim', sh'⟩ := ih (setState c1 sReadBlockHeader) outA1 rfl hsim2 sh1 hroom
    exact ⟨c', outA', r1.trans ((Reaches.of_step st2).trans r'), hs', hsim', sh'⟩

/-- at a block header with the input used up to its last bit, the model stops for lack of input -/
theorem eoi_at_block_header {c : Ctx} {outA : Array UInt8} (hs : c.r.state = sReadBlockHeader)
    (hrep : Rep e.inp c (8 * e.inp.size)) (h8 : c.r.numBits < 8) :
    step e c outA = .fin e.eoi c outA ∧ c.inPos = e.inp.size := by
  have hle := hrep.inLe
  have hpe := hrep.posEq
  have hin : c.inPos = e.inp.size := by omega
  have hnb : c.r.numBits = 0 := by omega
  refine ⟨?_, hin⟩
  rw [step_ReadBlockHeader hs]
  unfold stReadBlockHeader readBits
  have hf : e.inp.size - c.inPos + 1 = 0 + 1 := by omega
  rw [hf]
  unfold readBitsAux
  rw [if_pos (by omega)]
  have : e.inp[c.inPos]? = none := by rw [hin]; simp
  rw [this]

/-- a run that reaches a configuration whose next step stops, stops there -/
theorem run_of_reaches_fin {r : Regs} {inp out : Array UInt8} {outPos budget flags : Nat} {c1 c2 : Ctx} {o1 o2 : Array UInt8} {st : Int}
    (hg : badGeometry flags out.size outPos = false)
    (hreach : Reaches { inp := inp, flags := flags, outLen := out.size, outEnd := min (outPos + budget) out.size }
      { r := r, inPos := 0, outPos := outPos } out c1 o1)
    (hstep : step { inp := inp, flags := flags, outLen := out.size, outEnd := min (outPos + budget) out.size } c1 o1 = .fin st c2 o2) :
    run { inp := inp, flags := flags, outLen := out.size, outEnd := min (outPos + budget) out.size }
      (callFuel r inp (min (outPos + budget) out.size - outPos)) { r := r, inPos := 0, outPos := outPos } out =
      (st, c2, o2) := by
  obtain ⟨k, hk⟩ := hreach
  have htot := decompress_run_total r inp out outPos budget flags hg
  simp only at htot
  have hne := finOK_ne_modelError htot
  have hbig := run_fuel_mono _ _ _ _ hne (callFuel r inp (min (outPos + budget) out.size - outPos) + 1 + k) (by omega)
  rw [← hbig, hk]
  rw [run, hstep]

/-- THE FLUSH-POINT THEOREM for the decoder model (raw stream, flat buffer, fresh decoder, more input
    announced, at least one byte of room to spare). -/
theorem flush_prefix_flat (r : Regs) (inp out : Array UInt8) (outPos budget flags maxDist : Nat) (p2 : Nat) (o2 : Array UInt8)
    (hstart : r.state = sStart) (hshape : r.rawHeader.size = 4 ∧ r.tableSizes.size = 3 ∧ r.lenCodes.size = 512)
    (hflat : hasFlag flags fNonWrapping = true) (hz : hasFlag flags fParseZlib = false)
    (hstop : hasFlag flags fStopOnBlockBoundary = false) (hmore : hasFlag flags fHasMoreInput = true)
    (hpos : outPos ≤ out.size)
    (hdec : DecodesBlocks (out.extract 0 outPos) maxDist inp 0 #[] p2 o2) (hp2 : p2 = 8 * inp.size)
    (hroom : outPos + o2.size < min (outPos + budget) out.size) :
    (decompress r inp out outPos budget flags).status = stNeedsMoreInput ∧
    (decompress r inp out outPos budget flags).written = o2.size ∧
    (decompress r inp out outPos budget flags).consumed = inp.size ∧
    (∀ i, i < o2.size → (decompress r inp out outPos budget flags).out[outPos + i]? = o2[i]?) := by
  have hg : badGeometry flags out.size outPos = false := by
    unfold badGeometry; simp [hflat]; omega
  obtain ⟨e, he⟩ : ∃ e : Env, e = { inp := inp, flags := flags, outLen := out.size, outEnd := min (outPos + budget) out.size } := ⟨_, rfl⟩
  have hflat' : e.ring = false := by rw [he]; simp [Env.ring, hflat]
  have hend : e.outEnd ≤ e.outLen := by rw [he]; show min _ _ ≤ out.size; omega
  have hstop' : hasFlag e.flags fStopOnBlockBoundary = false := by rw [he]; exact hstop
  have hz' : hasFlag e.flags fParseZlib = false := by rw [he]; exact hz
  have hinp : e.inp = inp := by rw [he]
  have hpre : (out.extract 0 outPos).size = outPos := by simp; omega
  obtain ⟨c1, st1, hs1, hn1, hb1, hi1, ho1, rh1, ts1, lc1⟩ :=
    micro_start_raw (e := e) (c := { r := r, inPos := 0, outPos := outPos }) (outA := out) hstart hz'
  have hsim1 : Sim e c1 out 0 (out.extract 0 outPos ++ #[]) := by
    have hi1' : c1.inPos = 0 := hi1
    have ho1' : c1.outPos = outPos := ho1
    refine ⟨⟨by rw [hi1']; exact Nat.zero_le _, by rw [hi1', hn1], by rw [hn1, hb1]; decide,
      by rw [hn1]; intro i hi; omega⟩, by rw [hn1]; decide, by rw [ho1']; simp; omega, ?_, by rw [he]⟩
    intro i hi
    simp only [Array.append_empty] at hi ⊢
    rw [Array.getElem?_extract]
    have : i < min outPos out.size - 0 := by simpa using hi
    simp only [this, ↓reduceIte, Nat.zero_add]
  have hsh1 : Shape c1 := ⟨by rw [rh1]; exact hshape.1, by rw [ts1]; exact hshape.2.1, by rw [lc1]; exact hshape.2.2⟩
  obtain ⟨cB, outB, rB, hsB, hsimB, _⟩ :=
    sim_prefix hflat' hend hstop' (by rw [hinp]; exact hdec) c1 out hs1 hsim1 hsh1 (by rw [hpre, he]; show outPos + o2.size ≤ min _ _; omega)
  obtain ⟨hstepB, hinB⟩ := eoi_at_block_header (e := e) (c := cB) (outA := outB) hsB (by have h := hsimB.rep; rw [hinp, hp2] at h; rw [hinp]; exact h) hsimB.nb8
  have hreach : Reaches e { r := r, inPos := 0, outPos := outPos } out cB outB := (Reaches.of_step st1).trans rB
  have heoi : e.eoi = stNeedsMoreInput := by
    show endOfInput e.flags = stNeedsMoreInput
    unfold endOfInput; rw [he]; simp only; rw [if_pos hmore]
  rw [heoi] at hstepB
  rw [he] at hreach hstepB
  have hrun := run_of_reaches_fin hg hreach hstepB
  have hdecomp : decompress r inp out outPos budget flags =
      epilogue flags outPos (min (outPos + budget) out.size) stNeedsMoreInput cB outB := by
    unfold decompress
    rw [hg]
    simp only [Bool.false_eq_true, ↓reduceIte]
    rw [hrun]
  rw [hdecomp]
  have hoB : cB.outPos = outPos + o2.size := by rw [hsimB.outPos]; simp; omega
  have hes : exitStatus stNeedsMoreInput cB (min (outPos + budget) out.size) = stNeedsMoreInput := by
    unfold exitStatus
    rw [if_neg]
    simp only [Bool.and_eq_true, beq_iff_eq, not_and]
    intro _ hc; omega
  have hundo : exitUndo stNeedsMoreInput cB = 0 := by unfold exitUndo; simp
  refine ⟨?_, ?_, ?_, ?_⟩
  · rcases epilogue_status flags outPos (min (outPos + budget) out.size) stNeedsMoreInput cB outB with h | h
    · rw [h]; exact hes
    · rw [hes] at h; exact absurd h.2 (by decide)
  · rw [epilogue_written, hoB]; omega
  · rw [epilogue_consumed, hundo, hinB, hinp]; omega
  · intro i hi
    rw [epilogue_out]
    have := hsimB.outEq (outPos + i) (by simp; omega)
    rw [this, Array.getElem?_append_right (by omega)]
    congr 1
    omega

/-- THE SAME FOR A ZLIB STREAM: a valid two-byte header, then a run of complete non-final blocks from
    bit 16 that ends exactly at the end of the input (flat buffer, fresh decoder, more input announced,
    a byte of room to spare). The status is "needs more input" whatever the checksum flags are: the
    trailer has not been reached. -/
theorem flush_prefix_flat_zlib (r : Regs) (inp out : Array UInt8) (outPos budget flags maxDist : Nat) (p2 : Nat) (o2 : Array UInt8)
    (cmf flg : UInt8)
    (hstart : r.state = sStart) (hshape : r.rawHeader.size = 4 ∧ r.tableSizes.size = 3 ∧ r.lenCodes.size = 512)
    (hflat : hasFlag flags fNonWrapping = true) (hz : hasFlag flags fParseZlib = true)
    (hstop : hasFlag flags fStopOnBlockBoundary = false) (hmore : hasFlag flags fHasMoreInput = true)
    (hpos : outPos ≤ out.size)
    (h0 : inp[0]? = some cmf) (h1 : inp[1]? = some flg) (hv : zlibHeaderValid cmf.toNat flg.toNat = true)
    (hdec : DecodesBlocks (out.extract 0 outPos) maxDist inp 16 #[] p2 o2) (hp2 : p2 = 8 * inp.size)
    (hroom : outPos + o2.size < min (outPos + budget) out.size) :
    (decompress r inp out outPos budget flags).status = stNeedsMoreInput ∧
    (decompress r inp out outPos budget flags).written = o2.size ∧
    (decompress r inp out outPos budget flags).consumed = inp.size ∧
    (∀ i, i < o2.size → (decompress r inp out outPos budget flags).out[outPos + i]? = o2[i]?) := by
  have hg : badGeometry flags out.size outPos = false := by
    unfold badGeometry; simp [hflat]; omega
  obtain ⟨e, he⟩ : ∃ e : Env, e = { inp := inp, flags := flags, outLen := out.size, outEnd := min (outPos + budget) out.size } := ⟨_, rfl⟩
  have hflat' : e.ring = false := by rw [he]; simp [Env.ring, hflat]
  have hend : e.outEnd ≤ e.outLen := by rw [he]; show min _ _ ≤ out.size; omega
  have hstop' : hasFlag e.flags fStopOnBlockBoundary = false := by rw [he]; exact hstop
  have hz' : hasFlag e.flags fParseZlib = true := by rw [he]; exact hz
  have hinp : e.inp = inp := by rw [he]
  have hpre : (out.extract 0 outPos).size = outPos := by simp; omega
  -- Start, CMF, FLG
  obtain ⟨c1, st1, hs1, hn1, hb1, hchk1, hza1, hi1, ho1, rh1, ts1, lc1⟩ :=
    micro_start_zlib (e := e) (c := { r := r, inPos := 0, outPos := outPos }) (outA := out) hstart hz'
  have hi1' : c1.inPos = 0 := hi1
  have st2 := micro_cmf (e := e) (c := c1) (outA := out) (b := cmf) hs1 (by rw [hi1', hinp]; exact h0)
  have st3 := micro_flg (e := e) (outA := out) (b := flg)
    (c := setState { c1 with r := { c1.r with zHeader0 := cmf.toNat }, inPos := c1.inPos + 1 } sReadZlibFlg) rfl
    (by show e.inp[c1.inPos + 1]? = _; rw [hi1', hinp]; exact h1) hflat' hv
  obtain ⟨c3, hc3⟩ : ∃ x, x = setState { (setState { c1 with r := { c1.r with zHeader0 := cmf.toNat }, inPos := c1.inPos + 1 } sReadZlibFlg) with
      r := { (setState { c1 with r := { c1.r with zHeader0 := cmf.toNat }, inPos := c1.inPos + 1 } sReadZlibFlg).r with zHeader1 := flg.toNat },
      inPos := (setState { c1 with r := { c1.r with zHeader0 := cmf.toNat }, inPos := c1.inPos + 1 } sReadZlibFlg).inPos + 1 } sReadBlockHeader := ⟨_, rfl⟩
  rw [← hc3] at st3
  have k1 : c3.r.state = sReadBlockHeader := by rw [hc3]; rfl
  have k2 : c3.inPos = 2 := by rw [hc3]; show c1.inPos + 1 + 1 = 2; omega
  have k3 : c3.r.numBits = 0 := by rw [hc3]; exact hn1
  have k4 : c3.r.bitBuf = 0 := by rw [hc3]; exact hb1
  have k5 : c3.outPos = outPos := by rw [hc3]; exact ho1
  have hsz2 : 2 ≤ inp.size := by
    by_cases hlt : 1 < inp.size
    · omega
    · simp [Array.getElem?_eq_none (Nat.le_of_not_lt hlt)] at h1
  have hsim3 : Sim e c3 out 16 (out.extract 0 outPos ++ #[]) := by
    refine ⟨⟨by rw [k2, hinp]; exact hsz2, by rw [k2, k3], by rw [k3, k4]; decide, by rw [k3]; intro i hi; omega⟩,
      by rw [k3]; decide, by rw [k5]; simp; omega, ?_, by rw [he]⟩
    intro i hi
    simp only [Array.append_empty] at hi ⊢
    rw [Array.getElem?_extract]
    have : i < min outPos out.size - 0 := by simpa using hi
    simp only [this, ↓reduceIte, Nat.zero_add]
  have hsh3 : Shape c3 := by
    rw [hc3]; exact ⟨by show c1.r.rawHeader.size = 4; rw [rh1]; exact hshape.1,
      by show c1.r.tableSizes.size = 3; rw [ts1]; exact hshape.2.1, by show c1.r.lenCodes.size = 512; rw [lc1]; exact hshape.2.2⟩
  obtain ⟨cB, outB, rB, hsB, hsimB, _⟩ :=
    sim_prefix hflat' hend hstop' (by rw [hinp]; exact hdec) c3 out k1 hsim3 hsh3 (by rw [hpre, he]; show outPos + o2.size ≤ min _ _; omega)
  obtain ⟨hstepB, hinB⟩ := eoi_at_block_header (e := e) (c := cB) (outA := outB) hsB (by have h := hsimB.rep; rw [hinp, hp2] at h; rw [hinp]; exact h) hsimB.nb8
  have hreach : Reaches e { r := r, inPos := 0, outPos := outPos } out cB outB :=
    (Reaches.of_step st1).trans ((Reaches.of_step st2).trans ((Reaches.of_step st3).trans rB))
  have heoi : e.eoi = stNeedsMoreInput := by
    show endOfInput e.flags = stNeedsMoreInput
    unfold endOfInput; rw [he]; simp only; rw [if_pos hmore]
  rw [heoi] at hstepB
  rw [he] at hreach hstepB
  have hrun := run_of_reaches_fin hg hreach hstepB
  have hdecomp : decompress r inp out outPos budget flags =
      epilogue flags outPos (min (outPos + budget) out.size) stNeedsMoreInput cB outB := by
    unfold decompress
    rw [hg]
    simp only [Bool.false_eq_true, ↓reduceIte]
    rw [hrun]
  rw [hdecomp]
  have hoB : cB.outPos = outPos + o2.size := by rw [hsimB.outPos]; simp; omega
  have hes : exitStatus stNeedsMoreInput cB (min (outPos + budget) out.size) = stNeedsMoreInput := by
    unfold exitStatus
    rw [if_neg]
    simp only [Bool.and_eq_true, beq_iff_eq, not_and]
    intro _ hc; omega
  have hundo : exitUndo stNeedsMoreInput cB = 0 := by unfold exitUndo; simp
  refine ⟨?_, ?_, ?_, ?_⟩
  · rcases epilogue_status flags outPos (min (outPos + budget) out.size) stNeedsMoreInput cB outB with h | h
    · rw [h]; exact hes
    · rw [hes] at h; exact absurd h.2 (by decide)
  · rw [epilogue_written, hoB]; omega
  · rw [epilogue_consumed, hundo, hinB, hinp]; omega
  · intro i hi
    rw [epilogue_out]
    have := hsimB.outEq (outPos + i) (by simp; omega)
    rw [this, Array.getElem?_append_right (by omega)]
    congr 1
    omega

end Model.Core
