/-
The representation invariant between the decoder model's bit buffer and the specification's bit
positions, and the two reading primitives under it:
  * `readBits n` returns exactly `Spec.bitsAt data pos n` and advances the logical position by `n`;
  * `decodeHuff code` returns exactly the symbol `Spec.decodeSym code data pos` decodes and
    advances the logical position to the end of its code.
Helper lemmas for the refinement theorems (Props/C03, C06).
-/
import MinizProof.Lemmas.CoreBasic
set_option linter.unusedVariables false
namespace Model.Core
open Spec

/-- bit `i` of `x`, as 0/1 -/
def bit (x i : Nat) : Nat := (x >>> i) % 2

theorem bit_eq_testBit (x i : Nat) : bit x i = (x.testBit i).toNat := by
  unfold bit
  rw [Nat.shiftRight_eq_div_pow, Nat.testBit_eq_decide_div_mod_eq]
  have : x / 2 ^ i % 2 < 2 := Nat.mod_lt _ (by decide)
  by_cases h : x / 2 ^ i % 2 = 1
  · simp [h]
  · have : x / 2 ^ i % 2 = 0 := by omega
    simp [this]

theorem bit_shiftRight (x n i : Nat) : bit (x >>> n) i = bit x (n + i) := by
  unfold bit; rw [Nat.shiftRight_add]

/-- The bit buffer holds the `numBits` stream bits that follow logical position `pos`, and the
    input cursor is just behind them. -/
structure Rep (data : Array UInt8) (c : Ctx) (pos : Nat) : Prop where
  inLe  : c.inPos ≤ data.size
  posEq : 8 * c.inPos = pos + c.r.numBits
  lt    : c.r.bitBuf < 2 ^ c.r.numBits
  bits  : ∀ i, i < c.r.numBits → bitAt data (pos + i) = some (bit c.r.bitBuf i)

theorem bitAt_byte {data : Array UInt8} {k : Nat} {b : UInt8} (h : data[k]? = some b) (j : Nat) (hj : j < 8) :
    bitAt data (8 * k + j) = some (bit b.toNat j) := by
  unfold bitAt bit
  have h1 : (8 * k + j) / 8 = k := by omega
  have h2 : (8 * k + j) % 8 = j := by omega
  rw [h1, h2, h]

theorem Rep.pull {data : Array UInt8} {c : Ctx} {pos : Nat} {b : UInt8} (h : Rep data c pos)
    (hb : data[c.inPos]? = some b) : Rep data (pull c b) pos := by
  have hlt : c.inPos < data.size := by
    by_cases hlt : c.inPos < data.size
    · exact hlt
    · simp [Array.getElem?_eq_none (Nat.le_of_not_lt hlt)] at hb
  have hb8 : b.toNat < 2 ^ 8 := b.toNat_lt
  refine ⟨by simp [Model.Core.pull]; omega, by simp [Model.Core.pull]; have := h.posEq; omega, ?_, ?_⟩
  · show c.r.bitBuf ||| b.toNat <<< c.r.numBits < 2 ^ (c.r.numBits + 8)
    apply Nat.or_lt_two_pow
    · exact Nat.lt_of_lt_of_le h.lt (Nat.pow_le_pow_right (by decide) (by omega))
    · rw [Nat.shiftLeft_eq, Nat.pow_add, Nat.mul_comm]
      exact Nat.mul_lt_mul_of_le_of_lt (Nat.le_refl _) hb8 (Nat.two_pow_pos _)
  · intro i hi
    show bitAt data (pos + i) = some (bit (c.r.bitBuf ||| b.toNat <<< c.r.numBits) i)
    have hi' : i < c.r.numBits + 8 := hi
    rw [bit_eq_testBit, Nat.testBit_or, Nat.testBit_shiftLeft]
    by_cases hlo : i < c.r.numBits
    · have : ¬ (i ≥ c.r.numBits) := by omega
      simp only [this, decide_false, Bool.false_and, Bool.or_false]
      rw [← bit_eq_testBit]
      exact h.bits i hlo
    · have hge : i ≥ c.r.numBits := by omega
      have hz : c.r.bitBuf.testBit i = false :=
        Nat.testBit_lt_two_pow (Nat.lt_of_lt_of_le h.lt (Nat.pow_le_pow_right (by decide) hge))
      simp only [hz, hge, decide_true, Bool.true_and, Bool.false_or]
      rw [← bit_eq_testBit]
      have hp := h.posEq
      have : pos + i = 8 * c.inPos + (i - c.r.numBits) := by omega
      rw [this]
      exact bitAt_byte hb _ (by omega)

/-- dropping the `n` lowest buffered bits -/
def consume (c : Ctx) (n : Nat) : Ctx :=
  { c with r := { c.r with bitBuf := c.r.bitBuf >>> n, numBits := c.r.numBits - n } }

theorem Rep.consume {data : Array UInt8} {c : Ctx} {pos : Nat} (h : Rep data c pos) (n : Nat)
    (hn : n ≤ c.r.numBits) : Rep data (consume c n) (pos + n) := by
  refine ⟨h.inLe, by simp [Model.Core.consume]; have := h.posEq; omega, ?_, ?_⟩
  · show c.r.bitBuf >>> n < 2 ^ (c.r.numBits - n)
    rw [Nat.shiftRight_eq_div_pow]
    apply Nat.div_lt_of_lt_mul
    rw [← Nat.pow_add]
    have : n + (c.r.numBits - n) = c.r.numBits := by omega
    rw [this]; exact h.lt
  · intro i hi
    show bitAt data (pos + n + i) = some (bit (c.r.bitBuf >>> n) i)
    have hi' : i < c.r.numBits - n := hi
    rw [bit_shiftRight, Nat.add_assoc]
    exact h.bits (n + i) (by omega)

/-- A field whose bits are all known is the corresponding low part of the number holding them. -/
theorem bitsAt_of_bits (data : Array UInt8) (n : Nat) : ∀ (pos x : Nat),
    (∀ i, i < n → bitAt data (pos + i) = some (bit x i)) → bitsAt data pos n = some (x % 2 ^ n) := by
  induction n with
  | zero => intro pos x _; simp [bitsAt, Nat.mod_one]
  | succ n ih =>
    intro pos x h
    unfold bitsAt
    have h0 := h 0 (by omega)
    rw [Nat.add_zero] at h0
    have hr := ih (pos + 1) (x / 2) (by
      intro i hi
      have := h (i + 1) (by omega)
      have e : pos + 1 + i = pos + (i + 1) := by omega
      rw [e, this]
      unfold bit
      rw [Nat.shiftRight_eq_div_pow, Nat.shiftRight_eq_div_pow, Nat.pow_succ, Nat.mul_comm, ← Nat.div_div_eq_div_mul])
    rw [h0, hr]
    simp only [Option.some.injEq]
    have e : 2 ^ (n + 1) = 2 * 2 ^ n := by rw [Nat.pow_succ, Nat.mul_comm]
    rw [e, Nat.mod_mul]
    unfold bit
    rw [Nat.shiftRight_zero]

theorem bitsAt_of_rep {data : Array UInt8} {c : Ctx} {pos : Nat} (h : Rep data c pos) (n : Nat)
    (hn : n ≤ c.r.numBits) : bitsAt data pos n = some (c.r.bitBuf % 2 ^ n) :=
  bitsAt_of_bits data n pos _ fun i hi => h.bits i (by omega)

/-- A readable field has all its bits available. -/
theorem bitsAt_some_bitAt (data : Array UInt8) (n : Nat) : ∀ (pos v : Nat), bitsAt data pos n = some v →
    ∀ i, i < n → (bitAt data (pos + i)).isSome = true := by
  induction n with
  | zero => intro pos v _ i hi; omega
  | succ n ih =>
    intro pos v h i hi
    unfold bitsAt at h
    cases hb : bitAt data pos with
    | none => simp [hb] at h
    | some b =>
      cases hr : bitsAt data (pos + 1) n with
      | none => simp [hb, hr] at h
      | some r =>
        cases i with
        | zero => simp [hb]
        | succ i =>
          have := ih (pos + 1) r hr i (by omega)
          have e : pos + 1 + i = pos + (i + 1) := by omega
          rw [e] at this; exact this

theorem bitAt_isSome_byte {data : Array UInt8} {p : Nat} (h : (bitAt data p).isSome = true) :
    ∃ b, data[p / 8]? = some b := by
  unfold bitAt at h
  cases hb : data[p / 8]? with
  | none => simp [hb] at h
  | some b => exact ⟨b, rfl⟩

/-- `readBits` under the representation invariant: it returns the specification's field and
    re-establishes the invariant `n` bits further. -/
theorem readBitsAux_rep (data : Array UInt8) (n v : Nat) : ∀ (fuel : Nat) (c : Ctx) (pos : Nat),
    Rep data c pos → data.size - c.inPos < fuel → bitsAt data pos n = some v →
    (readBitsAux data n fuel c).2 = some v ∧ Rep data (readBitsAux data n fuel c).1 (pos + n) := by
  intro fuel
  induction fuel with
  | zero => intro c pos _ h; omega
  | succ fuel ih =>
    intro c pos hr hf hv
    unfold readBitsAux
    by_cases hlt : c.r.numBits < n
    · simp only [hlt, ↓reduceIte]
      have hsome := bitsAt_some_bitAt data n pos v hv c.r.numBits hlt
      obtain ⟨b, hb⟩ := bitAt_isSome_byte hsome
      have hp := hr.posEq
      have e : (pos + c.r.numBits) / 8 = c.inPos := by omega
      rw [e] at hb
      rw [hb]
      have hlt' : c.inPos < data.size := by
        by_cases hlt : c.inPos < data.size
        · exact hlt
        · simp [Array.getElem?_eq_none (Nat.le_of_not_lt hlt)] at hb
      exact ih (pull c b) pos (hr.pull hb) (by simp [pull]; omega) hv
    · simp only [hlt, ↓reduceIte]
      have hn : n ≤ c.r.numBits := by omega
      have := bitsAt_of_rep hr n hn
      rw [this] at hv
      simp only [Option.some.injEq] at hv
      exact ⟨by rw [hv], hr.consume n hn⟩

theorem readBits_rep {data : Array UInt8} {c : Ctx} {pos n v : Nat} (hr : Rep data c pos)
    (hv : bitsAt data pos n = some v) :
    (readBits data n c).2 = some v ∧ Rep data (readBits data n c).1 (pos + n) :=
  readBitsAux_rep data n v _ c pos hr (by omega) hv

/-- A decoded symbol ends strictly after the position its code starts at. -/
theorem decodeSymAux_pos (code : Code) (data : Array UInt8) : ∀ (fuel len pos cd first index s p : Nat),
    decodeSymAux code data fuel len pos cd first index = .sym s p → pos < p := by
  intro fuel
  induction fuel with
  | zero => intro len pos cd first index s p h; simp [decodeSymAux] at h
  | succ fuel ih =>
    intro len pos cd first index s p h
    unfold decodeSymAux at h
    split at h
    · simp at h
    · cases hb : bitAt data pos with
      | none => simp [hb] at h
      | some b =>
        simp only [hb] at h
        split at h
        · simp only [SymResult.sym.injEq] at h; omega
        · have := ih _ _ _ _ _ _ _ h; omega

/-- Every bit of a decoded code is available. -/
theorem decodeSymAux_avail (code : Code) (data : Array UInt8) : ∀ (fuel len pos cd first index s p : Nat),
    decodeSymAux code data fuel len pos cd first index = .sym s p →
    ∀ q, pos ≤ q → q < p → (bitAt data q).isSome = true := by
  intro fuel
  induction fuel with
  | zero => intro len pos cd first index s p h; simp [decodeSymAux] at h
  | succ fuel ih =>
    intro len pos cd first index s p h q hq1 hq2
    unfold decodeSymAux at h
    split at h
    · simp at h
    · cases hb : bitAt data pos with
      | none => simp [hb] at h
      | some b =>
        simp only [hb] at h
        by_cases hqe : q = pos
        · rw [hqe, hb]; rfl
        · split at h
          · simp only [SymResult.sym.injEq] at h; omega
          · exact ih _ _ _ _ _ _ _ h q (by omega) hq2

/-- Lock-step comparison of the specification's code walk over the stream with the model's walk
    over its bit buffer holding the `n` bits that follow `p0`. -/
theorem decodeBufAux_of_sym (code : Code) (data : Array UInt8) (buf n p0 : Nat)
    (hbits : ∀ i, i < n → bitAt data (p0 + i) = some (bit buf i)) :
    ∀ (fuel len used cd first index s p : Nat),
    decodeSymAux code data fuel len (p0 + used) cd first index = .sym s p →
    (p ≤ p0 + n → decodeBufAux code buf n fuel len used cd first index = .sym s (p - p0)) ∧
    (p0 + n < p → decodeBufAux code buf n fuel len used cd first index = .short) := by
  intro fuel
  induction fuel with
  | zero => intro len used cd first index s p h; simp [decodeSymAux] at h
  | succ fuel ih =>
    intro len used cd first index s p h
    have hpos := decodeSymAux_pos code data _ _ _ _ _ _ _ _ h
    unfold decodeSymAux at h
    unfold decodeBufAux
    split at h
    · simp at h
    · rename_i hidx
      simp only [hidx, ↓reduceIte]
      by_cases hu : used ≥ n
      · simp only [hu, ↓reduceIte]
        exact ⟨fun hle => by omega, fun _ => trivial⟩
      · simp only [hu, ↓reduceIte]
        have hb := hbits used (by omega)
        rw [hb] at h
        simp only at h
        have hbit : buf >>> used % 2 = bit buf used := rfl
        rw [hbit]
        split at h
        · rename_i hlt
          simp only [hlt, ↓reduceIte]
          simp only [SymResult.sym.injEq] at h
          obtain ⟨h1, h2⟩ := h
          refine ⟨fun _ => ?_, fun hgt => by omega⟩
          rw [h1]
          have : used + 1 = p - p0 := by omega
          rw [this]
        · rename_i hlt
          simp only [hlt, ↓reduceIte]
          have e : p0 + used + 1 = p0 + (used + 1) := by omega
          rw [e] at h
          exact ih _ _ _ _ _ _ _ h

/-- `decodeHuff` under the representation invariant: it returns the symbol the specification
    decodes at `pos` and re-establishes the invariant at the end of the code. -/
theorem decodeHuffAux_rep (data : Array UInt8) (code : Code) (s p : Nat) : ∀ (fuel : Nat) (c : Ctx) (pos : Nat),
    Rep data c pos → data.size - c.inPos < fuel → decodeSym code data pos = .sym s p →
    (decodeHuffAux data code fuel c).2 = some s ∧ Rep data (decodeHuffAux data code fuel c).1 p ∧
    (pos + c.r.numBits < p + 8 → (decodeHuffAux data code fuel c).1.r.numBits < 8) := by
  intro fuel
  induction fuel with
  | zero => intro c pos _ h; omega
  | succ fuel ih =>
    intro c pos hr hf hs
    have hcmp := decodeBufAux_of_sym code data c.r.bitBuf c.r.numBits pos hr.bits 15 1 0 0 0 0 s p
      (by rw [Nat.add_zero]; exact hs)
    have hpos : pos < p := decodeSymAux_pos code data _ _ _ _ _ _ _ _ hs
    unfold decodeHuffAux
    by_cases hle : p ≤ pos + c.r.numBits
    · have hd : decodeBuf code c.r.bitBuf c.r.numBits = .sym s (p - pos) := hcmp.1 hle
      rw [hd]
      refine ⟨rfl, ?_, ?_⟩
      · have := hr.consume (p - pos) (by omega)
        have e : pos + (p - pos) = p := by omega
        rw [e] at this
        exact this
      · intro h8
        show c.r.numBits - (p - pos) < 8
        omega
    · have hd : decodeBuf code c.r.bitBuf c.r.numBits = .short := hcmp.2 (by omega)
      rw [hd]
      -- the next stream bit is part of the code, so its byte exists
      have hsome : (bitAt data (pos + c.r.numBits)).isSome = true :=
        decodeSymAux_avail code data _ _ _ _ _ _ _ _ hs _ (by omega) (by omega)
      obtain ⟨b, hb⟩ := bitAt_isSome_byte hsome
      have hp := hr.posEq
      have e : (pos + c.r.numBits) / 8 = c.inPos := by omega
      rw [e] at hb
      simp only [hb]
      have hlt' : c.inPos < data.size := by
        by_cases hlt : c.inPos < data.size
        · exact hlt
        · simp [Array.getElem?_eq_none (Nat.le_of_not_lt hlt)] at hb
      have := ih (pull c b) pos (hr.pull hb) (by simp [pull]; omega) hs
      refine ⟨this.1, this.2.1, fun _ => this.2.2 ?_⟩
      show pos + (c.r.numBits + 8) < p + 8
      omega

theorem decodeHuff_rep {data : Array UInt8} {code : Code} {c : Ctx} {pos s p : Nat} (hr : Rep data c pos)
    (hs : decodeSym code data pos = .sym s p) :
    (decodeHuff data code c).2 = some s ∧ Rep data (decodeHuff data code c).1 p ∧
    (c.r.numBits < 8 → (decodeHuff data code c).1.r.numBits < 8) := by
  have := decodeHuffAux_rep data code s p _ c pos hr (Nat.lt_succ_self _) hs
  have hpos : pos < p := decodeSymAux_pos code data _ _ _ _ _ _ _ _ hs
  exact ⟨this.1, this.2.1, fun h8 => this.2.2 (by omega)⟩

/-- After a successful `readBits` fewer than 8 bits stay buffered (if fewer than 8 were before). -/
theorem readBitsAux_nb8 (inp : Array UInt8) (amount : Nat) : ∀ (fuel : Nat) (c : Ctx) (v : Nat),
    c.r.numBits < amount + 8 → (readBitsAux inp amount fuel c).2 = some v →
    (readBitsAux inp amount fuel c).1.r.numBits < 8 := by
  intro fuel
  induction fuel with
  | zero => intro c v _ h; simp [readBitsAux] at h
  | succ fuel ih =>
    intro c v hlt h
    unfold readBitsAux at h ⊢
    by_cases hn : c.r.numBits < amount
    · simp only [hn, ↓reduceIte] at h ⊢
      cases hb : inp[c.inPos]? with
      | none => simp [hb] at h
      | some b =>
        simp only [hb] at h ⊢
        exact ih _ v (by show c.r.numBits + 8 < amount + 8; omega) h
    · simp only [hn, ↓reduceIte]
      show c.r.numBits - amount < 8
      omega

theorem readBits_nb8 {inp : Array UInt8} {amount : Nat} {c : Ctx} {v : Nat} (h8 : c.r.numBits < 8)
    (h : (readBits inp amount c).2 = some v) : (readBits inp amount c).1.r.numBits < 8 :=
  readBitsAux_nb8 inp amount _ c v (by omega) h

end Model.Core
