import MinizProof.Model.InflStream
namespace Model.Infl

theorem pushDictOut_spec (s : St) (outLeft : Nat) (h : s.dictOfs + s.dictAvail ≤ dictSize) :
    let p := pushDictOut s outLeft
    p.1 ≤ outLeft ∧ p.1 ≤ s.dictAvail ∧ p.2.dictAvail = s.dictAvail - p.1 ∧
    p.2.dictOfs < dictSize ∧ p.2.dictOfs + p.2.dictAvail ≤ dictSize ∧
    p.2.lastStatus = s.lastStatus ∧ p.2.fmt = s.fmt ∧ p.2.hasFlushed = s.hasFlushed ∧ p.2.firstCall = s.firstCall ∧
    (p.2.dictAvail ≠ 0 → p.1 = outLeft) := by
  unfold pushDictOut dictSize at *
  simp only
  have hmod : (s.dictOfs + min s.dictAvail outLeft) % 32768 < 32768 := Nat.mod_lt _ (by decide)
  refine ⟨Nat.min_le_right _ _, Nat.min_le_left _ _, ?_, hmod, ?_, ?_, ?_, ?_, ?_, ?_⟩
  · trivial
  · by_cases hlt : s.dictOfs + min s.dictAvail outLeft < 32768
    · rw [Nat.mod_eq_of_lt hlt]; omega
    · have : s.dictOfs + min s.dictAvail outLeft = 32768 := by omega
      rw [this]; simp; omega
  · trivial
  · trivial
  · trivial
  · trivial
  · intro hne; omega

/-- What every answer of `inflate_loop` satisfies, for every script of core responses. -/
structure LoopPost (s : St) (inLeft outLeft c w : Nat) (s' : St) (r : Result) : Prop where
  inv      : s'.dictOfs < dictSize ∧ s'.dictOfs + s'.dictAvail ≤ dictSize
  cLo      : c ≤ r.consumed
  cHi      : r.consumed ≤ c + inLeft
  wLo      : w ≤ r.written
  wHi      : r.written ≤ w + outLeft
  endDone  : r.status = rStreamEnd → s'.lastStatus = tDone ∧ s'.dictAvail = 0
  dataNeg  : r.status = rData → s'.lastStatus < 0 ∧ s'.lastStatus ≠ tFailedCannotMakeProgress
  okProg   : r.status = rOk → r.consumed = c + inLeft ∨ r.written = w + outLeft
  same     : s'.fmt = s.fmt ∧ s'.hasFlushed = s.hasFlushed ∧ s'.firstCall = s.firstCall
  codes    : r.status = rOk ∨ r.status = rStreamEnd ∨ r.status = rBuf ∨ r.status = rData

theorem LoopPost.lift {s s2 s' : St} {inLeft outLeft c w ib n : Nat} {r : Result}
    (hib : ib ≤ inLeft) (hn : n ≤ outLeft)
    (hsame : s2.fmt = s.fmt ∧ s2.hasFlushed = s.hasFlushed ∧ s2.firstCall = s.firstCall)
    (p : LoopPost s2 (inLeft - ib) (outLeft - n) (c + ib) (w + n) s' r) : LoopPost s inLeft outLeft c w s' r :=
  { inv := p.inv
    cLo := by have := p.cLo; omega
    cHi := by have := p.cHi; omega
    wLo := by have := p.wLo; omega
    wHi := by have := p.wHi; omega
    endDone := p.endDone
    dataNeg := p.dataNeg
    okProg := fun hk => by
      rcases p.okProg hk with h1 | h1
      · left; omega
      · right; omega
    same := ⟨p.same.1.trans hsame.1, p.same.2.1.trans hsame.2.1, p.same.2.2.trans hsame.2.2⟩
    codes := p.codes }

theorem loop_post (flush flags origIn : Nat) : ∀ (script : List Resp) (s : St) (inLeft outLeft c w : Nat)
    (calls : List Call) (s' : St) (r : Result) (cs : List Call),
    s.dictOfs < dictSize →
    loop flush flags origIn s inLeft outLeft c w calls script = .ok s' r cs →
    LoopPost s inLeft outLeft c w s' r := by
  intro script
  induction script with
  | nil => intro s inLeft outLeft c w calls s' r cs _ h; simp [loop] at h
  | cons x xs ih =>
    intro s inLeft outLeft c w calls s' r cs hofs h
    unfold loop at h
    simp only at h
    split at h
    · simp at h
    · rename_i hb
      have hb1 : x.ib ≤ inLeft := by omega
      have hb2 : x.ob ≤ dictSize - s.dictOfs := by omega
      have hpd := pushDictOut_spec { s with lastStatus := x.st, dictAvail := x.ob } outLeft (by simp only; omega)
      generalize hp : pushDictOut { s with lastStatus := x.st, dictAvail := x.ob } outLeft = p at h hpd
      obtain ⟨n, s2⟩ := p
      simp only at h hpd
      obtain ⟨hn1, hn2, hav, ho, hinv, hls, hfmt, hfl, hfc, hfull⟩ := hpd
      have term : ∀ (st : Int), (Outcome.ok s2 ⟨c + x.ib, w + n, st⟩ (calls ++ [(inLeft, s.dictOfs, dictSize, flags)]) = Outcome.ok s' r cs) →
          s' = s2 ∧ r = ⟨c + x.ib, w + n, st⟩ := by
        intro st he; simp only [Outcome.ok.injEq] at he; exact ⟨he.1.symm, he.2.1.symm⟩
      split at h
      · -- FailedCannotMakeProgress
        obtain ⟨hs, hr⟩ := term _ h; subst hs hr
        exact ⟨⟨ho, hinv⟩, by simp, by simp only; omega, by simp, by simp only; omega,
          by simp [rBuf, rStreamEnd], by simp [rBuf, rData], by simp [rBuf, rOk], ⟨hfmt, hfl, hfc⟩, by simp⟩
      · rename_i hne
        split at h
        · rename_i hneg
          obtain ⟨hs, hr⟩ := term _ h; subst hs hr
          refine ⟨⟨ho, hinv⟩, by simp, by simp only; omega, by simp, by simp only; omega,
            by simp [rData, rStreamEnd], ?_, by simp [rData, rOk], ⟨hfmt, hfl, hfc⟩, by simp⟩
          intro _; rw [hls]; exact ⟨hneg, hne⟩
        · rename_i hnn
          split at h
          · obtain ⟨hs, hr⟩ := term _ h; subst hs hr
            exact ⟨⟨ho, hinv⟩, by simp, by simp only; omega, by simp, by simp only; omega,
              by simp [rBuf, rStreamEnd], by simp [rBuf, rData], by simp [rBuf, rOk], ⟨hfmt, hfl, hfc⟩, by simp⟩
          · split at h
            · -- Finish
              split at h
              · rename_i hdone
                split at h
                · obtain ⟨hs, hr⟩ := term _ h; subst hs hr
                  exact ⟨⟨ho, hinv⟩, by simp, by simp only; omega, by simp, by simp only; omega,
                    by simp [rBuf, rStreamEnd], by simp [rBuf, rData], by simp [rBuf, rOk], ⟨hfmt, hfl, hfc⟩, by simp⟩
                · rename_i hz
                  obtain ⟨hs, hr⟩ := term _ h; subst hs hr
                  refine ⟨⟨ho, hinv⟩, by simp, by simp only; omega, by simp, by simp only; omega,
                    ?_, by simp [rStreamEnd, rData], by simp [rStreamEnd, rOk], ⟨hfmt, hfl, hfc⟩, by simp⟩
                  intro _; rw [hls]; exact ⟨hdone, by omega⟩
              · split at h
                · obtain ⟨hs, hr⟩ := term _ h; subst hs hr
                  exact ⟨⟨ho, hinv⟩, by simp, by simp only; omega, by simp, by simp only; omega,
                    by simp [rBuf, rStreamEnd], by simp [rBuf, rData], by simp [rBuf, rOk], ⟨hfmt, hfl, hfc⟩, by simp⟩
                · exact LoopPost.lift hb1 hn1 ⟨hfmt, hfl, hfc⟩ (ih s2 _ _ _ _ _ _ _ _ ho h)
            · -- not Finish
              split at h
              · rename_i hcond
                split at h
                · rename_i hde
                  obtain ⟨hs, hr⟩ := term _ h; subst hs hr
                  refine ⟨⟨ho, hinv⟩, by simp, by simp only; omega, by simp, by simp only; omega,
                    ?_, by simp [rStreamEnd, rData], by simp [rStreamEnd, rOk], ⟨hfmt, hfl, hfc⟩, by simp⟩
                  intro _; rw [hls]; exact hde
                · rename_i hnde
                  obtain ⟨hs, hr⟩ := term _ h; subst hs hr
                  refine ⟨⟨ho, hinv⟩, by simp, by simp only; omega, by simp, by simp only; omega,
                    by simp [rOk, rStreamEnd], by simp [rOk, rData], ?_, ⟨hfmt, hfl, hfc⟩, by simp⟩
                  intro _
                  simp only
                  -- Ok: input exhausted, or output exhausted, or bytes left pending (output full), or Done with bytes pending
                  rcases hcond with hd | hi | ho' | ha
                  · -- Done but not (Done ∧ avail = 0): avail ≠ 0, so the output is full
                    have : s'.dictAvail ≠ 0 := fun hz => hnde ⟨hd, hz⟩
                    right; have := hfull this; omega
                  · left; omega
                  · right; omega
                  · right; have := hfull ha; omega
              · exact LoopPost.lift hb1 hn1 ⟨hfmt, hfl, hfc⟩ (ih s2 _ _ _ _ _ _ _ _ ho h)

end Model.Infl
