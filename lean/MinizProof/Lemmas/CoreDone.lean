/-
`Done` IS ABSORBING for the decoder model: once a call has reported `Done`, every later call with
the same flag word — whatever input and output it is offered — reports `Done` again, consumes
nothing, writes nothing and leaves the output buffer as it is (`DoneForever` in core.rs; with the
zlib checksum the comparison made at the first `Done` is made again and succeeds again).
-/
import MinizProof.Lemmas.CoreTotal
import MinizProof.Lemmas.CoreReach
import MinizProof.Lemmas.CoreCall
import MinizProof.Props.C16

set_option maxRecDepth 100000
namespace Model.Core
open Spec

/-- the registers a finished decoder is left with: state `DoneForever`, and — when the call computes a
    checksum of a zlib stream — a running checksum that equals the trailer -/
def DoneRegs (flags : Nat) (r : Regs) : Prop :=
  r.state = sDoneForever ∧
  (needAdler flags = true → hasFlag flags fParseZlib = true → adler32 r.checkAdler32 [] = r.zAdler32)

theorem adler32_idem (x : Nat) (l : List UInt8) : adler32 (adler32 x l) [] = adler32 x l := by
  rw [C16.adler32_append, List.append_nil]

/-- a call that reports `Done` leaves `DoneRegs` -/
theorem done_leaves_doneRegs (r : Regs) (inp out : Array UInt8) (outPos budget flags : Nat)
    (hd : (decompress r inp out outPos budget flags).status = stDone) :
    DoneRegs flags (decompress r inp out outPos budget flags).r := by
  unfold decompress at hd ⊢
  split at hd
  · exact absurd hd (by show ¬ (stBadParam = stDone); decide)
  · rename_i hgeo
    have hgeo' : badGeometry flags out.size outPos = false := by simpa using hgeo
    rw [if_neg hgeo]
    have htot := decompress_run_total r inp out outPos budget flags hgeo'
    simp only at htot hd ⊢
    generalize run { inp := inp, flags := flags, outLen := out.size, outEnd := min (outPos + budget) out.size }
      (callFuel r inp (min (outPos + budget) out.size - outPos)) { r := r, inPos := 0, outPos := outPos } out = rr at htot hd ⊢
    obtain ⟨st, c, o⟩ := rr
    simp only at htot hd ⊢
    -- the status before the epilogue is `Done`
    have hst' : exitStatus st c (min (outPos + budget) out.size) = stDone := by
      unfold epilogue at hd
      simp only at hd
      split at hd
      · simp only at hd
        split at hd
        · exact absurd hd (by decide)
        · exact hd
      · exact hd
    have hst : st = stDone := by
      unfold exitStatus at hst'
      split at hst'
      · exact absurd hst' (by decide)
      · exact hst'
    subst hst
    have hstate : c.r.state = sDoneForever := by
      rcases htot with h | h | h | h | h
      · exact absurd h.1 (by decide)
      · exact absurd h.1 (by
          show stDone ≠ endOfInput flags
          unfold endOfInput; split <;> decide)
      · exact h.2
      · exact absurd h.1 (by decide)
      · exact absurd h.1 (by decide)
    have hes : exitState stDone c = c.r.state := by unfold exitState; simp [stDone, stBlockBoundary]
    unfold epilogue at hd ⊢
    simp only at hd ⊢
    split
    · rename_i hna
      rw [if_pos hna] at hd
      simp only at hd ⊢
      refine ⟨by show (exitRegs stDone c).state = sDoneForever; unfold exitRegs; simp only; rw [hes]; exact hstate, fun _ hz => ?_⟩
      show adler32 (adler32 _ _) [] = (exitRegs stDone c).zAdler32
      rw [adler32_idem]
      by_cases hne : adler32 (exitRegs stDone c).checkAdler32 (o.extract outPos c.outPos).toList = (exitRegs stDone c).zAdler32
      · exact hne
      · exfalso
        rw [if_pos (by
          simp only [Bool.and_eq_true, bne_iff_ne, ne_eq, beq_iff_eq]
          exact ⟨⟨hst', hz⟩, hne⟩)] at hd
        exact absurd hd (by decide)
    · rename_i hna
      refine ⟨by show (exitRegs stDone c).state = sDoneForever; unfold exitRegs; simp only; rw [hes]; exact hstate, fun hn _ => ?_⟩
      exfalso
      apply hna
      rw [hn, hst']; decide

/-- … and a call on `DoneRegs` reports `Done` again and does nothing -/
theorem doneRegs_call (r : Regs) (inp out : Array UInt8) (outPos budget flags : Nat)
    (hg : badGeometry flags out.size outPos = false) (h : DoneRegs flags r) :
    (decompress r inp out outPos budget flags).status = stDone ∧
    (decompress r inp out outPos budget flags).consumed = 0 ∧
    (decompress r inp out outPos budget flags).written = 0 ∧
    (decompress r inp out outPos budget flags).out = out ∧
    DoneRegs flags (decompress r inp out outPos budget flags).r := by
  have hrun : run { inp := inp, flags := flags, outLen := out.size, outEnd := min (outPos + budget) out.size }
      (callFuel r inp (min (outPos + budget) out.size - outPos)) { r := r, inPos := 0, outPos := outPos } out =
      (stDone, { r := r, inPos := 0, outPos := outPos }, out) := by
    have : callFuel r inp (min (outPos + budget) out.size - outPos) =
        (64 * (8 * inp.size + r.numBits) + 64 * (min (outPos + budget) out.size - outPos) + 63) + 1 := by
      unfold callFuel; omega
    rw [this, run, step_DoneForever (by exact h.1)]
  have hst := done_leaves_doneRegs r inp out outPos budget flags
  unfold decompress at hst ⊢
  rw [if_neg (by rw [hg]; decide)] at hst ⊢
  simp only [hrun] at hst ⊢
  have hes : exitStatus stDone { r := r, inPos := 0, outPos := outPos } (min (outPos + budget) out.size) = stDone := by
    unfold exitStatus; simp [stDone, stNeedsMoreInput]
  have hundo : exitUndo stDone { r := r, inPos := 0, outPos := outPos } = 0 := by
    unfold exitUndo; simp [stDone, stNeedsMoreInput, stFailedCannotMakeProgress]
  have hstatus : (epilogue flags outPos (min (outPos + budget) out.size) stDone { r := r, inPos := 0, outPos := outPos } out).status = stDone := by
    unfold epilogue
    simp only
    split
    · simp only
      rw [if_neg]
      · exact hes
      · rename_i hna
        intro hc
        simp only [Bool.and_eq_true, bne_iff_ne, ne_eq, beq_iff_eq] at hc hna
        have hx : (exitRegs stDone { r := r, inPos := 0, outPos := outPos }).checkAdler32 = r.checkAdler32 := by unfold exitRegs; rfl
        have hy : (exitRegs stDone { r := r, inPos := 0, outPos := outPos }).zAdler32 = r.zAdler32 := by unfold exitRegs; rfl
        have hl : (out.extract outPos outPos).toList = [] := by simp
        apply hc.2
        rw [hx, hy, hl]
        exact h.2 hna.1 hc.1.2
    · exact hes
  refine ⟨hstatus, ?_, ?_, ?_, hst hstatus⟩
  · unfold epilogue; simp only; split <;> simp
  · unfold epilogue; simp only; split <;> simp
  · unfold epilogue; simp only; split <;> rfl

end Model.Core
