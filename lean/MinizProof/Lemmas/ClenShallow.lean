/-
A canonical code built from code lengths that are all at most 7 (the code-length alphabet: its
lengths are 3-bit fields) is decided by 7 bits: the counting walk of the decoder model never asks
for an eighth bit. Used by the bit-buffer discipline (`Lemmas/CoreBnd`): a starved code-length
decode leaves at most 6 bits behind. No property statements here.
-/
import MinizProof.Model.Core
set_option maxRecDepth 100000
namespace Model.Core
open Spec

/-- number of symbols with code length `l` -/
def cntEq (lens : Array Nat) (l : Nat) : Nat := (List.range lens.size).countP (fun s => lens.getD s 0 = l)

def sumCnt (lens : Array Nat) : Nat → Nat → Nat
  | _, 0 => 0
  | len, f + 1 => cntEq lens len + sumCnt lens (len + 1) f

theorem foldl_push_size (lens : Array Nat) (len : Nat) : ∀ (xs : List Nat) (acc : Array Nat),
    (xs.foldl (fun a s => if lens.getD s 0 = len then a.push s else a) acc).size =
      acc.size + xs.countP (fun s => lens.getD s 0 = len) := by
  intro xs
  induction xs with
  | nil => intro acc; simp
  | cons x xs ih =>
    intro acc
    rw [List.foldl_cons, ih, List.countP_cons]
    by_cases h : lens.getD x 0 = len
    · rw [if_pos h, Array.size_push]
      have : decide (lens.getD x 0 = len) = true := by simp only [h, decide_true]
      rw [this]; simp only [↓reduceIte]; omega
    · rw [if_neg h]
      have : decide (lens.getD x 0 = len) = false := by simp only [h, decide_false]
      rw [this]; simp

theorem sortedSymsAux_size (lens : Array Nat) : ∀ (fuel len : Nat) (acc : Array Nat),
    (sortedSymsAux lens fuel len acc).size = acc.size + sumCnt lens len fuel := by
  intro fuel
  induction fuel with
  | zero => intro len acc; rfl
  | succ fuel ih =>
    intro len acc
    unfold sortedSymsAux sumCnt
    dsimp only
    rw [ih, foldl_push_size]
    unfold cntEq
    omega

theorem sumCnt_split (lens : Array Nat) : ∀ (n a k : Nat), sumCnt lens a (n + k) = sumCnt lens a n + sumCnt lens (a + n) k := by
  intro n
  induction n with
  | zero => intro a k; simp [sumCnt]
  | succ n ih =>
    intro a k
    have : n + 1 + k = (n + k) + 1 := by omega
    rw [this]
    show cntEq lens a + sumCnt lens (a + 1) (n + k) = (cntEq lens a + sumCnt lens (a + 1) n) + _
    rw [ih]
    have : a + 1 + n = a + (n + 1) := by omega
    rw [this]; omega

theorem sumCnt_zero (lens : Array Nat) : ∀ (k a : Nat), (∀ j, j < k → cntEq lens (a + j) = 0) → sumCnt lens a k = 0 := by
  intro k
  induction k with
  | zero => intro a _; rfl
  | succ k ih =>
    intro a h
    show cntEq lens a + sumCnt lens (a + 1) k = 0
    have h0 := h 0 (by omega)
    rw [Nat.add_zero] at h0
    rw [h0, ih (a + 1) (fun j hj => by have := h (j + 1) (by omega); rwa [show a + (j + 1) = a + 1 + j by omega] at this)]

theorem cntEq_zero_of_le {lens : Array Nat} {b l : Nat} (h : ∀ i, lens.getD i 0 ≤ b) (hl : b < l) : cntEq lens l = 0 := by
  unfold cntEq
  rw [List.countP_eq_zero]
  intro s _
  have := h s
  simp only [decide_eq_true_eq]
  omega

/-- the length histogram, entry by entry -/
theorem countStep_getD : ∀ (xs : List Nat) (acc : Array Nat) (l0 : Nat), acc.size = 16 → l0 < 16 →
    ((xs.foldl (fun c l => if l < 16 then c.modify l (· + 1) else c) acc).getD l0 0 =
      acc.getD l0 0 + xs.countP (fun x => x = l0)) := by
  intro xs
  induction xs with
  | nil => intro acc l0 _ _; simp
  | cons x xs ih =>
    intro acc l0 hs hl
    rw [List.foldl_cons, List.countP_cons]
    by_cases hx : x < 16
    · rw [if_pos hx, ih _ l0 (by simp [hs]) hl]
      by_cases he : x = l0
      · subst he
        simp only [decide_true, ↓reduceIte]
        have : (acc.modify x (· + 1)).getD x 0 = acc.getD x 0 + 1 := by
          simp only [Array.getD_eq_getD_getElem?]
          rw [Array.getElem?_modify]
          have hlt : x < acc.size := by omega
          simp [hlt]
        rw [this]; omega
      · have : (acc.modify x (· + 1)).getD l0 0 = acc.getD l0 0 := by
          simp only [Array.getD_eq_getD_getElem?]
          rw [Array.getElem?_modify]
          simp [he]
        rw [this]
        simp [he]
    · rw [if_neg hx, ih _ l0 hs hl]
      have : x ≠ l0 := by omega
      simp [this]

theorem countP_range_getD (lens : Array Nat) (l0 : Nat) :
    (List.range lens.size).countP (fun s => lens.getD s 0 = l0) = lens.toList.countP (fun x => x = l0) := by
  have hmap : (List.range lens.size).map (fun s => lens.getD s 0) = lens.toList := by
    apply List.ext_getElem
    · simp
    · intro i h1 h2
      simp only [List.length_map, List.length_range] at h1
      simp [Array.getD_eq_getD_getElem?, h1]
  rw [← hmap, List.countP_map]
  rfl

theorem countLens_getD (lens : Array Nat) (l0 : Nat) (hl : l0 < 16) : (countLens lens).getD l0 0 = cntEq lens l0 := by
  unfold countLens cntEq
  rw [← Array.foldl_toList, countStep_getD _ _ l0 (by simp) hl, countP_range_getD]
  simp [Array.getD_eq_getD_getElem?, hl]

/-- the walk over a code whose lengths are at most 7 stops (symbol or unassigned pattern) by level 8 -/
theorem decodeBufAux_shallow (lens : Array Nat) (buf m : Nat) (hm : 7 ≤ m) :
    ∀ (fuel len used code first index : Nat), used + 1 = len → len ≤ 8 →
    (mkCode lens).syms.size ≤ index + sumCnt lens len (8 - len) →
    decodeBufAux (mkCode lens) buf m fuel len used code first index ≠ .short := by
  intro fuel
  induction fuel with
  | zero => intro len used code first index _ _ _; simp [decodeBufAux]
  | succ fuel ih =>
    intro len used code first index hu hl hs
    unfold decodeBufAux
    by_cases h1 : index ≥ (mkCode lens).syms.size
    · rw [if_pos h1]; simp
    · rw [if_neg h1]
      have hlen : len ≤ 7 := by
        by_cases h8 : len = 8
        · subst h8
          have : sumCnt lens 8 (8 - 8) = 0 := rfl
          omega
        · omega
      have hum : ¬ used ≥ m := by omega
      rw [if_neg hum]
      dsimp only
      split
      · simp
      · refine ih _ _ _ _ _ (by omega) (by omega) ?_
        have hc : (mkCode lens).count.getD len 0 = cntEq lens len := countLens_getD lens len (by omega)
        rw [hc]
        have : 8 - len = (8 - (len + 1)) + 1 := by omega
        rw [this] at hs
        have hsum : sumCnt lens len ((8 - (len + 1)) + 1) = cntEq lens len + sumCnt lens (len + 1) (8 - (len + 1)) := rfl
        rw [hsum] at hs
        omega

theorem decodeBuf_shallow (lens : Array Nat) (h7 : ∀ i, lens.getD i 0 ≤ 7) (buf m : Nat) (hm : 7 ≤ m) :
    decodeBuf (mkCode lens) buf m ≠ .short := by
  unfold decodeBuf
  refine decodeBufAux_shallow lens buf m hm 15 1 0 0 0 0 rfl (by omega) ?_
  have hsz : (mkCode lens).syms.size = sumCnt lens 1 15 := by
    show (sortedSymsAux lens 15 1 #[]).size = _
    rw [sortedSymsAux_size]; simp
  rw [hsz]
  have hsp := sumCnt_split lens 7 1 8
  have hz : sumCnt lens (1 + 7) 8 = 0 := sumCnt_zero lens 8 (1 + 7) (fun j _ => cntEq_zero_of_le h7 (by omega))
  have e : (7 : Nat) + 8 = 15 := rfl
  rw [e] at hsp
  have e2 : 8 - 1 = 7 := rfl
  rw [e2]
  omega

end Model.Core
