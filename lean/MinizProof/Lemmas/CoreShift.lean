/-
Re-basing the decoder model's automaton: the run of one call over the chunk `inp` from input
cursor `p` is the run over `a ++ inp` from cursor `a.size + p`, and neither depends on the running
checksum register (which only the epilogue of a call and the `Start` state write). This is the
glue between two calls of `decompress`: the second call restarts its cursor at 0 on the next chunk
and carries a checksum register the first call's epilogue has updated.
No property statements here (see Props/C07).
-/
import MinizProof.Lemmas.CoreReach
set_option maxRecDepth 100000
namespace Model.Core
open Spec

/-- Re-base a context: input cursor moved by `k`, checksum register replaced by `x`. -/
@[reducible] def T (k x : Nat) (c : Ctx) : Ctx := { c with inPos := k + c.inPos, r := { c.r with checkAdler32 := x } }

def Step.mapT (k x : Nat) : Step → Step
  | .cont c o => .cont (T k x c) o
  | .fin st c o => .fin st (T k x c) o

/-- The same call parameters with `a` in front of the input. -/
@[reducible] def Env.pre (e : Env) (a : Array UInt8) : Env := { e with inp := a ++ e.inp }

@[simp] theorem Env.pre_flags (e : Env) (a : Array UInt8) : (e.pre a).flags = e.flags := rfl
@[simp] theorem Env.pre_outLen (e : Env) (a : Array UInt8) : (e.pre a).outLen = e.outLen := rfl
@[simp] theorem Env.pre_outEnd (e : Env) (a : Array UInt8) : (e.pre a).outEnd = e.outEnd := rfl
@[simp] theorem Env.pre_inp (e : Env) (a : Array UInt8) : (e.pre a).inp = a ++ e.inp := rfl
@[simp] theorem Env.pre_ring (e : Env) (a : Array UInt8) : (e.pre a).ring = e.ring := rfl
@[simp] theorem Env.pre_eoi (e : Env) (a : Array UInt8) : (e.pre a).eoi = e.eoi := rfl

theorem pre_get (a inp : Array UInt8) (p : Nat) : (a ++ inp)[a.size + p]? = inp[p]? := by
  rw [Array.getElem?_append_right (by omega)]
  congr 1; omega

theorem pre_getD (a inp : Array UInt8) (p : Nat) (d : UInt8) : (a ++ inp).getD (a.size + p) d = inp.getD p d := by
  simp only [Array.getD_eq_getD_getElem?, pre_get]

theorem readBitsAux_T (a inp : Array UInt8) (amount x : Nat) : ∀ (f : Nat) (c : Ctx),
    readBitsAux (a ++ inp) amount f (T a.size x c) =
      (T a.size x (readBitsAux inp amount f c).1, (readBitsAux inp amount f c).2) := by
  intro f
  induction f with
  | zero => intro c; rfl
  | succ f ih =>
    intro c
    unfold readBitsAux
    show (if c.r.numBits < amount then _ else _) = _
    by_cases h : c.r.numBits < amount
    · rw [if_pos h, if_pos h]
      show (match (a ++ inp)[a.size + c.inPos]? with | none => _ | some b => _) = _
      rw [pre_get]
      cases hb : inp[c.inPos]? with
      | none => rfl
      | some b => exact ih (pull c b)
    · rw [if_neg h, if_neg h]

theorem readBits_T (a inp : Array UInt8) (amount x : Nat) (c : Ctx) :
    readBits (a ++ inp) amount (T a.size x c) = (T a.size x (readBits inp amount c).1, (readBits inp amount c).2) := by
  unfold readBits
  have : (a ++ inp).size - (T a.size x c).inPos + 1 = inp.size - c.inPos + 1 := by
    show (a ++ inp).size - (a.size + c.inPos) + 1 = _
    rw [Array.size_append]; omega
  rw [this]
  exact readBitsAux_T a inp amount x _ c

theorem decodeHuffAux_T (a inp : Array UInt8) (code : Code) (x : Nat) : ∀ (f : Nat) (c : Ctx),
    decodeHuffAux (a ++ inp) code f (T a.size x c) =
      (T a.size x (decodeHuffAux inp code f c).1, (decodeHuffAux inp code f c).2) := by
  intro f
  induction f with
  | zero => intro c; rfl
  | succ f ih =>
    intro c
    unfold decodeHuffAux
    show (match decodeBuf code c.r.bitBuf c.r.numBits with | .sym s len => _ | .invalid => _ | .short => _) = _
    cases hd : decodeBuf code c.r.bitBuf c.r.numBits with
    | sym s len => rfl
    | invalid =>
      show (if c.r.numBits ≥ 1 then _ else _) = _
      by_cases h : c.r.numBits ≥ 1
      · rw [if_pos h, if_pos h]
      · rw [if_neg h, if_neg h]
        show (match (a ++ inp)[a.size + c.inPos]? with | none => _ | some b => _) = _
        rw [pre_get]
        cases hb : inp[c.inPos]? with
        | none => rfl
        | some b => exact ih (pull c b)
    | short =>
      show (match (a ++ inp)[a.size + c.inPos]? with | none => _ | some b => _) = _
      rw [pre_get]
      cases hb : inp[c.inPos]? with
      | none => rfl
      | some b => exact ih (pull c b)

theorem decodeHuff_T (a inp : Array UInt8) (code : Code) (x : Nat) (c : Ctx) :
    decodeHuff (a ++ inp) code (T a.size x c) = (T a.size x (decodeHuff inp code c).1, (decodeHuff inp code c).2) := by
  unfold decodeHuff
  have : (a ++ inp).size - (T a.size x c).inPos + 1 = inp.size - c.inPos + 1 := by
    show (a ++ inp).size - (a.size + c.inPos) + 1 = _
    rw [Array.size_append]; omega
  rw [this]
  exact decodeHuffAux_T a inp code x _ c

theorem copyIn_T (a inp : Array UInt8) (n : Nat) : ∀ (out : Array UInt8) (p q : Nat),
    copyIn (a ++ inp) out p (a.size + q) n = copyIn inp out p q n := by
  induction n with
  | zero => intro out p q; rfl
  | succ n ih =>
    intro out p q
    unfold copyIn
    rw [pre_getD]
    exact ih _ (p + 1) (q + 1)

@[simp] theorem T_inPos (k x : Nat) (c : Ctx) : (T k x c).inPos = k + c.inPos := rfl
@[simp] theorem T_outPos (k x : Nat) (c : Ctx) : (T k x c).outPos = c.outPos := rfl
@[simp] theorem T_state (k x : Nat) (c : Ctx) : (T k x c).r.state = c.r.state := rfl
@[simp] theorem T_numBits (k x : Nat) (c : Ctx) : (T k x c).r.numBits = c.r.numBits := rfl
@[simp] theorem T_bitBuf (k x : Nat) (c : Ctx) : (T k x c).r.bitBuf = c.r.bitBuf := rfl
@[simp] theorem T_counter (k x : Nat) (c : Ctx) : (T k x c).r.counter = c.r.counter := rfl
@[simp] theorem T_dist (k x : Nat) (c : Ctx) : (T k x c).r.dist = c.r.dist := rfl
@[simp] theorem T_numExtra (k x : Nat) (c : Ctx) : (T k x c).r.numExtra = c.r.numExtra := rfl
@[simp] theorem T_finish (k x : Nat) (c : Ctx) : (T k x c).r.finish = c.r.finish := rfl
@[simp] theorem T_blockType (k x : Nat) (c : Ctx) : (T k x c).r.blockType = c.r.blockType := rfl
@[simp] theorem T_zHeader0 (k x : Nat) (c : Ctx) : (T k x c).r.zHeader0 = c.r.zHeader0 := rfl
@[simp] theorem T_zHeader1 (k x : Nat) (c : Ctx) : (T k x c).r.zHeader1 = c.r.zHeader1 := rfl
@[simp] theorem T_zAdler32 (k x : Nat) (c : Ctx) : (T k x c).r.zAdler32 = c.r.zAdler32 := rfl
@[simp] theorem T_tableSizes (k x : Nat) (c : Ctx) : (T k x c).r.tableSizes = c.r.tableSizes := rfl
@[simp] theorem T_clenLens (k x : Nat) (c : Ctx) : (T k x c).r.clenLens = c.r.clenLens := rfl
@[simp] theorem T_rawHeader (k x : Nat) (c : Ctx) : (T k x c).r.rawHeader = c.r.rawHeader := rfl
@[simp] theorem T_lenCodes (k x : Nat) (c : Ctx) : (T k x c).r.lenCodes = c.r.lenCodes := rfl
@[simp] theorem T_litCode (k x : Nat) (c : Ctx) : (T k x c).r.litCode = c.r.litCode := rfl
@[simp] theorem T_distCode (k x : Nat) (c : Ctx) : (T k x c).r.distCode = c.r.distCode := rfl
@[simp] theorem T_clenCode (k x : Nat) (c : Ctx) : (T k x c).r.clenCode = c.r.clenCode := rfl
theorem T_setState (k x : Nat) (c : Ctx) (s : Nat) : setState (T k x c) s = T k x (setState c s) := rfl

theorem T_initTree (k x : Nat) (c : Ctx) (l d : Array Nat) : initTree (T k x c) l d = T k x (initTree c l d) := by
  unfold initTree
  simp only [apply_ite (T k x)]
  rfl

variable {e : Env} {a : Array UInt8} {c : Ctx} {out : Array UInt8} {x : Nat}

/-- Shape shared by the states that start with `readBits`. -/
theorem shift_readBits (amount : Nat) (k k' : Ctx → Nat → Step)
    (hk : ∀ c1 v, k' (T a.size x c1) v = (k c1 v).mapT a.size x) :
    (match readBits (a ++ e.inp) amount (T a.size x c) with
      | (c1, none) => Step.fin e.eoi c1 out
      | (c1, some v) => k' c1 v) =
    (match readBits e.inp amount c with
      | (c1, none) => Step.fin e.eoi c1 out
      | (c1, some v) => k c1 v).mapT a.size x := by
  rw [readBits_T]
  generalize readBits e.inp amount c = p
  obtain ⟨c1, o⟩ := p
  cases o with
  | none => rfl
  | some v => exact hk c1 v

theorem shift_decodeHuff (code : Code) (k k' : Ctx → Nat → Step)
    (hk : ∀ c1 v, k' (T a.size x c1) v = (k c1 v).mapT a.size x) :
    (match decodeHuff (a ++ e.inp) code (T a.size x c) with
      | (c1, none) => Step.fin e.eoi c1 out
      | (c1, some v) => k' c1 v) =
    (match decodeHuff e.inp code c with
      | (c1, none) => Step.fin e.eoi c1 out
      | (c1, some v) => k c1 v).mapT a.size x := by
  rw [decodeHuff_T]
  generalize decodeHuff e.inp code c = p
  obtain ⟨c1, o⟩ := p
  cases o with
  | none => rfl
  | some v => exact hk c1 v

theorem shift_readByte (k k' : UInt8 → Step) (hk : ∀ b, k' b = (k b).mapT a.size x) :
    (match (a ++ e.inp)[a.size + c.inPos]? with
      | none => Step.fin e.eoi (T a.size x c) out
      | some b => k' b) =
    (match e.inp[c.inPos]? with
      | none => Step.fin e.eoi c out
      | some b => k b).mapT a.size x := by
  rw [pre_get]
  cases e.inp[c.inPos]? with
  | none => rfl
  | some b => exact hk b

theorem wrBytesLeft_T (k x : Nat) (c : Ctx) (E : Nat) : wrBytesLeft (T k x c) E = wrBytesLeft c E := rfl

macro "t_norm" : tactic => `(tactic| dsimp only [T_state, T_numBits, T_bitBuf, T_counter, T_dist, T_numExtra, T_finish,
  T_blockType, T_zHeader0, T_zHeader1, T_zAdler32, T_tableSizes, T_clenLens, T_rawHeader, T_lenCodes, T_litCode,
  T_distCode, T_clenCode, T_outPos, wrBytesLeft_T, Env.pre_flags, Env.pre_outLen, Env.pre_outEnd, Env.pre_ring,
  Env.pre_eoi, Env.pre_inp])

theorem shift_ReadBlockHeader :
    stReadBlockHeader (e.pre a) (T a.size x c) out = (stReadBlockHeader e c out).mapT a.size x := by
  unfold stReadBlockHeader
  refine shift_readBits 3 _ _ fun c1 v => ?_
  dsimp only
  (repeat' split) <;> first | rfl | simp only [Step.mapT, ← T_initTree]

theorem shift_ReadZlibCmf :
    stReadZlibCmf (e.pre a) (T a.size x c) out = (stReadZlibCmf e c out).mapT a.size x := by
  unfold stReadZlibCmf
  refine shift_readByte _ _ fun b => ?_
  rfl

theorem shift_ReadZlibFlg :
    stReadZlibFlg (e.pre a) (T a.size x c) out = (stReadZlibFlg e c out).mapT a.size x := by
  unfold stReadZlibFlg
  refine shift_readByte _ _ fun b => ?_
  rfl

theorem shift_BlockTypeNoCompression :
    stBlockTypeNoCompression (e.pre a) (T a.size x c) out = (stBlockTypeNoCompression e c out).mapT a.size x := by
  unfold stBlockTypeNoCompression
  exact shift_readBits _ _ _ fun c1 v => rfl

theorem shift_RawHeader :
    stRawHeader (e.pre a) (T a.size x c) out = (stRawHeader e c out).mapT a.size x := by
  unfold stRawHeader
  dsimp only
  by_cases h1 : c.r.counter < 4
  · rw [if_pos h1, if_pos h1]
    by_cases h2 : c.r.numBits ≠ 0
    · rw [if_pos h2, if_pos h2]
      exact shift_readBits 8 _ _ fun c1 v => rfl
    · rw [if_neg h2, if_neg h2]
      exact shift_readByte _ _ fun b => rfl
  · rw [if_neg h1, if_neg h1]
    simp only [apply_ite (Step.mapT a.size x)]
    rfl

macro "t_ite" : tactic => `(tactic| (simp only [apply_ite (Step.mapT _ _)]; rfl))

theorem shift_RawReadFirstByte :
    stRawReadFirstByte (e.pre a) (T a.size x c) out = (stRawReadFirstByte e c out).mapT a.size x := by
  unfold stRawReadFirstByte
  exact shift_readBits 8 _ _ fun c1 v => rfl

theorem shift_RawStoreFirstByte :
    stRawStoreFirstByte (e.pre a) (T a.size x c) out = (stRawStoreFirstByte e c out).mapT a.size x := by
  unfold stRawStoreFirstByte
  dsimp only
  t_ite

theorem shift_RawMemcpy1 :
    stRawMemcpy1 (e.pre a) (T a.size x c) out = (stRawMemcpy1 e c out).mapT a.size x := by
  unfold stRawMemcpy1
  t_ite

theorem shift_RawMemcpy2 :
    stRawMemcpy2 (e.pre a) (T a.size x c) out = (stRawMemcpy2 e c out).mapT a.size x := by
  unfold stRawMemcpy2
  dsimp only
  t_norm
  have hsz : (a ++ e.inp).size - (a.size + c.inPos) = e.inp.size - c.inPos := by
    rw [Array.size_append]; omega
  by_cases h : c.inPos < e.inp.size
  · have h' : a.size + c.inPos < (a ++ e.inp).size := by rw [Array.size_append]; omega
    rw [if_pos h, if_pos h']
    show Step.cont _ _ = Step.cont _ _
    rw [hsz, copyIn_T]
    congr 1
    show Ctx.mk _ _ _ = Ctx.mk _ _ _
    congr 1
    show a.size + c.inPos + _ = a.size + (c.inPos + _)
    omega
  · have h' : ¬ a.size + c.inPos < (a ++ e.inp).size := by rw [Array.size_append]; omega
    rw [if_neg h, if_neg h']
    rfl

theorem shift_ReadTableSizes :
    stReadTableSizes (e.pre a) (T a.size x c) out = (stReadTableSizes e c out).mapT a.size x := by
  unfold stReadTableSizes
  dsimp only
  by_cases h1 : c.r.counter < 3
  · rw [if_pos h1, if_pos h1]
    exact shift_readBits _ _ _ fun c1 v => rfl
  · rw [if_neg h1, if_neg h1]
    t_ite

theorem shift_ReadHufflenTableCodeSize :
    stReadHufflenTableCodeSize (e.pre a) (T a.size x c) out = (stReadHufflenTableCodeSize e c out).mapT a.size x := by
  unfold stReadHufflenTableCodeSize
  dsimp only
  by_cases h1 : c.r.counter < c.r.tableSizes.getD 2 0
  · rw [if_pos h1, if_pos h1]
    exact shift_readBits _ _ _ fun c1 v => rfl
  · rw [if_neg h1, if_neg h1]
    show Step.cont _ _ = Step.cont _ _
    rw [← T_initTree]

theorem shift_ReadLitlenDistTablesCodeSize :
    stReadLitlenDistTablesCodeSize (e.pre a) (T a.size x c) out = (stReadLitlenDistTablesCodeSize e c out).mapT a.size x := by
  unfold stReadLitlenDistTablesCodeSize
  dsimp only
  by_cases h1 : c.r.counter < c.r.tableSizes.getD 0 0 + c.r.tableSizes.getD 1 0
  · rw [if_pos h1, if_pos h1]
    refine shift_decodeHuff _ _ _ fun c1 v => ?_
    dsimp only
    t_ite
  · rw [if_neg h1, if_neg h1]
    by_cases h2 : c.r.counter ≠ c.r.tableSizes.getD 0 0 + c.r.tableSizes.getD 1 0
    · rw [if_pos h2, if_pos h2]; rfl
    · rw [if_neg h2, if_neg h2]
      show Step.cont _ _ = Step.cont _ _
      rw [← T_initTree]

theorem shift_ReadExtraBitsCodeSize :
    stReadExtraBitsCodeSize (e.pre a) (T a.size x c) out = (stReadExtraBitsCodeSize e c out).mapT a.size x := by
  unfold stReadExtraBitsCodeSize
  exact shift_readBits _ _ _ fun c1 v => rfl

theorem shift_DecodeLitlen :
    stDecodeLitlen (e.pre a) (T a.size x c) out = (stDecodeLitlen e c out).mapT a.size x := by
  unfold stDecodeLitlen
  exact shift_decodeHuff _ _ _ fun c1 v => rfl

theorem shift_WriteSymbol :
    stWriteSymbol (e.pre a) (T a.size x c) out = (stWriteSymbol e c out).mapT a.size x := by
  unfold stWriteSymbol
  t_ite

theorem shift_HuffDecodeOuterLoop1 :
    stHuffDecodeOuterLoop1 (e.pre a) (T a.size x c) out = (stHuffDecodeOuterLoop1 e c out).mapT a.size x := by
  unfold stHuffDecodeOuterLoop1
  dsimp only
  t_ite

theorem shift_ReadExtraBitsLitlen :
    stReadExtraBitsLitlen (e.pre a) (T a.size x c) out = (stReadExtraBitsLitlen e c out).mapT a.size x := by
  unfold stReadExtraBitsLitlen
  exact shift_readBits _ _ _ fun c1 v => rfl

theorem shift_DecodeDistance :
    stDecodeDistance (e.pre a) (T a.size x c) out = (stDecodeDistance e c out).mapT a.size x := by
  unfold stDecodeDistance
  refine shift_decodeHuff _ _ _ fun c1 v => ?_
  dsimp only
  t_ite

theorem shift_ReadExtraBitsDistance :
    stReadExtraBitsDistance (e.pre a) (T a.size x c) out = (stReadExtraBitsDistance e c out).mapT a.size x := by
  unfold stReadExtraBitsDistance
  exact shift_readBits _ _ _ fun c1 v => rfl

theorem shift_Match :
    stMatch (e.pre a) (T a.size x c) out = (stMatch e c out).mapT a.size x := by
  unfold stMatch
  dsimp only
  t_ite

theorem shift_Start :
    stStart (e.pre a) (T a.size x c) out = (stStart e c out).mapT a.size 1 := by
  unfold stStart
  rfl

theorem shift_ReadAdler32 :
    stReadAdler32 (e.pre a) (T a.size x c) out = (stReadAdler32 e c out).mapT a.size x := by
  unfold stReadAdler32
  dsimp only
  by_cases h1 : c.r.counter < 4
  · rw [if_pos h1, if_pos h1]
    by_cases h2 : c.r.numBits ≠ 0
    · rw [if_pos h2, if_pos h2]
      exact shift_readBits 8 _ _ fun c1 v => rfl
    · rw [if_neg h2, if_neg h2]
      exact shift_readByte _ _ fun b => rfl
  · rw [if_neg h1, if_neg h1]
    rfl

/-- Only place where the position of the cursor inside the chunk matters: the give-back of whole
    bytes at the end of the last block is capped by the cursor. When every whole byte in the bit
    buffer was pulled by this call (`Q`, `Lemmas/CoreBnd`) the cap is not reached in either view. -/
theorem shift_BlockDone (hq : c.r.numBits < 8 * c.inPos + 8) :
    stBlockDone (e.pre a) (T a.size x c) out = (stBlockDone e c out).mapT a.size x := by
  have h1 : min ((c.r.numBits - c.r.numBits % 8) / 8) (a.size + c.inPos) =
      min ((c.r.numBits - c.r.numBits % 8) / 8) c.inPos := by omega
  have h2 : a.size + c.inPos - min ((c.r.numBits - c.r.numBits % 8) / 8) c.inPos =
      a.size + (c.inPos - min ((c.r.numBits - c.r.numBits % 8) / 8) c.inPos) := by omega
  unfold stBlockDone
  dsimp only
  rw [h1, h2]
  simp only [apply_ite (Step.mapT a.size x)]
  rfl

/-- One transition, re-based. -/
theorem step_shift (hnb : c.r.state = sBlockDone → c.r.numBits < 8 * c.inPos + 8) :
    ∃ x', (c.r.state ≠ sStart → x' = x) ∧ step (e.pre a) (T a.size x c) out = (step e c out).mapT a.size x' := by
  by_cases hStart : c.r.state = sStart
  · exact ⟨1, fun h => absurd hStart h, by rw [step_Start hStart, step_Start (c := T a.size x c) hStart]; exact shift_Start⟩
  refine ⟨x, fun _ => rfl, ?_⟩
  by_cases hReadZlibCmf : c.r.state = sReadZlibCmf
  · rw [step_ReadZlibCmf hReadZlibCmf, step_ReadZlibCmf (c := T a.size x c) hReadZlibCmf]; exact shift_ReadZlibCmf
  by_cases hReadZlibFlg : c.r.state = sReadZlibFlg
  · rw [step_ReadZlibFlg hReadZlibFlg, step_ReadZlibFlg (c := T a.size x c) hReadZlibFlg]; exact shift_ReadZlibFlg
  by_cases hReadBlockHeader : c.r.state = sReadBlockHeader
  · rw [step_ReadBlockHeader hReadBlockHeader, step_ReadBlockHeader (c := T a.size x c) hReadBlockHeader]; exact shift_ReadBlockHeader
  by_cases hBlockTypeNoCompression : c.r.state = sBlockTypeNoCompression
  · rw [step_BlockTypeNoCompression hBlockTypeNoCompression, step_BlockTypeNoCompression (c := T a.size x c) hBlockTypeNoCompression]; exact shift_BlockTypeNoCompression
  by_cases hRawHeader : c.r.state = sRawHeader
  · rw [step_RawHeader hRawHeader, step_RawHeader (c := T a.size x c) hRawHeader]; exact shift_RawHeader
  by_cases hRawReadFirstByte : c.r.state = sRawReadFirstByte
  · rw [step_RawReadFirstByte hRawReadFirstByte, step_RawReadFirstByte (c := T a.size x c) hRawReadFirstByte]; exact shift_RawReadFirstByte
  by_cases hRawStoreFirstByte : c.r.state = sRawStoreFirstByte
  · rw [step_RawStoreFirstByte hRawStoreFirstByte, step_RawStoreFirstByte (c := T a.size x c) hRawStoreFirstByte]; exact shift_RawStoreFirstByte
  by_cases hRawMemcpy1 : c.r.state = sRawMemcpy1
  · rw [step_RawMemcpy1 hRawMemcpy1, step_RawMemcpy1 (c := T a.size x c) hRawMemcpy1]; exact shift_RawMemcpy1
  by_cases hRawMemcpy2 : c.r.state = sRawMemcpy2
  · rw [step_RawMemcpy2 hRawMemcpy2, step_RawMemcpy2 (c := T a.size x c) hRawMemcpy2]; exact shift_RawMemcpy2
  by_cases hReadTableSizes : c.r.state = sReadTableSizes
  · rw [step_ReadTableSizes hReadTableSizes, step_ReadTableSizes (c := T a.size x c) hReadTableSizes]; exact shift_ReadTableSizes
  by_cases hReadHufflenTableCodeSize : c.r.state = sReadHufflenTableCodeSize
  · rw [step_ReadHufflenTableCodeSize hReadHufflenTableCodeSize, step_ReadHufflenTableCodeSize (c := T a.size x c) hReadHufflenTableCodeSize]; exact shift_ReadHufflenTableCodeSize
  by_cases hReadLitlenDistTablesCodeSize : c.r.state = sReadLitlenDistTablesCodeSize
  · rw [step_ReadLitlenDistTablesCodeSize hReadLitlenDistTablesCodeSize, step_ReadLitlenDistTablesCodeSize (c := T a.size x c) hReadLitlenDistTablesCodeSize]; exact shift_ReadLitlenDistTablesCodeSize
  by_cases hReadExtraBitsCodeSize : c.r.state = sReadExtraBitsCodeSize
  · rw [step_ReadExtraBitsCodeSize hReadExtraBitsCodeSize, step_ReadExtraBitsCodeSize (c := T a.size x c) hReadExtraBitsCodeSize]; exact shift_ReadExtraBitsCodeSize
  by_cases hDecodeLitlen : c.r.state = sDecodeLitlen
  · rw [step_DecodeLitlen hDecodeLitlen, step_DecodeLitlen (c := T a.size x c) hDecodeLitlen]; exact shift_DecodeLitlen
  by_cases hWriteSymbol : c.r.state = sWriteSymbol
  · rw [step_WriteSymbol hWriteSymbol, step_WriteSymbol (c := T a.size x c) hWriteSymbol]; exact shift_WriteSymbol
  by_cases hHuffDecodeOuterLoop1 : c.r.state = sHuffDecodeOuterLoop1
  · rw [step_HuffDecodeOuterLoop1 hHuffDecodeOuterLoop1, step_HuffDecodeOuterLoop1 (c := T a.size x c) hHuffDecodeOuterLoop1]; exact shift_HuffDecodeOuterLoop1
  by_cases hReadExtraBitsLitlen : c.r.state = sReadExtraBitsLitlen
  · rw [step_ReadExtraBitsLitlen hReadExtraBitsLitlen, step_ReadExtraBitsLitlen (c := T a.size x c) hReadExtraBitsLitlen]; exact shift_ReadExtraBitsLitlen
  by_cases hDecodeDistance : c.r.state = sDecodeDistance
  · rw [step_DecodeDistance hDecodeDistance, step_DecodeDistance (c := T a.size x c) hDecodeDistance]; exact shift_DecodeDistance
  by_cases hReadExtraBitsDistance : c.r.state = sReadExtraBitsDistance
  · rw [step_ReadExtraBitsDistance hReadExtraBitsDistance, step_ReadExtraBitsDistance (c := T a.size x c) hReadExtraBitsDistance]; exact shift_ReadExtraBitsDistance
  by_cases hReadAdler32 : c.r.state = sReadAdler32
  · rw [step_ReadAdler32 hReadAdler32, step_ReadAdler32 (c := T a.size x c) hReadAdler32]; exact shift_ReadAdler32
  by_cases hBlockDone : c.r.state = sBlockDone
  · rw [step_BlockDone hBlockDone, step_BlockDone (c := T a.size x c) hBlockDone]; exact shift_BlockDone (hnb hBlockDone)
  by_cases hM1 : c.r.state = sHuffDecodeOuterLoop2
  · rw [step_Match1 hM1, step_Match1 (c := T a.size x c) hM1]; exact shift_Match
  by_cases hM2 : c.r.state = sWriteLenBytesToEnd
  · rw [step_Match2 hM2, step_Match2 (c := T a.size x c) hM2]; exact shift_Match
  by_cases hD : c.r.state = sDoneForever
  · rw [step_DoneForever hD, step_DoneForever (c := T a.size x c) hD]; rfl
  · have hF : sDoneForever < c.r.state := by
      simp only [sStart, sReadZlibCmf, sReadZlibFlg, sReadBlockHeader, sBlockTypeNoCompression, sRawHeader,
        sRawMemcpy1, sRawMemcpy2, sReadTableSizes, sReadHufflenTableCodeSize, sReadLitlenDistTablesCodeSize,
        sReadExtraBitsCodeSize, sDecodeLitlen, sWriteSymbol, sReadExtraBitsLitlen, sDecodeDistance,
        sReadExtraBitsDistance, sRawReadFirstByte, sRawStoreFirstByte, sWriteLenBytesToEnd, sBlockDone,
        sHuffDecodeOuterLoop1, sHuffDecodeOuterLoop2, sReadAdler32, sDoneForever] at *
      omega
    have h1 : step e c out = .fin stFailed c out := by unfold step; exact stepAt_failed _ hF e c out
    have h2 : step (e.pre a) (T a.size x c) out = .fin stFailed (T a.size x c) out := by
      unfold step; exact stepAt_failed _ hF _ _ out
    rw [h1, h2]; rfl

end Model.Core
