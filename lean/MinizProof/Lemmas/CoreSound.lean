/-
Towards the converse of the refinement: a run that stops for a reason other than starvation stops
the same way over any extension of the input; a proper prefix of a valid stream is never rejected.
Helper lemmas for Props/C04.
-/
import MinizProof.Lemmas.CoreGrow
set_option linter.unusedVariables false
set_option linter.unusedSimpArgs false
namespace Model.Core
open Spec

/-- The automaton's run over a valid raw stream (flat buffer, room): `Done`, cursor at ⌈bits/8⌉. -/
theorem raw_run (r : Regs) (inp out : Array UInt8) (outPos budget flags maxDist : Nat) (res : Inflated)
    (hstart : r.state = sStart) (hshape : r.rawHeader.size = 4 ∧ r.tableSizes.size = 3 ∧ r.lenCodes.size = 512)
    (hflat : hasFlag flags fNonWrapping = true) (hz : hasFlag flags fParseZlib = false)
    (hstop : hasFlag flags fStopOnBlockBoundary = false) (hpos : outPos ≤ out.size)
    (hspec : inflateSpec (out.extract 0 outPos) maxDist inp 0 = .accept res)
    (hroom : outPos + res.out.size ≤ min (outPos + budget) out.size) :
    ∃ cD oD, run { inp := inp, flags := flags, outLen := out.size, outEnd := min (outPos + budget) out.size }
        (callFuel r inp (min (outPos + budget) out.size - outPos)) { r := r, inPos := 0, outPos := outPos } out =
        (stDone, cD, oD) ∧ cD.inPos = (res.bitsUsed + 7) / 8 := by
  have hg : badGeometry flags out.size outPos = false := by
    unfold badGeometry; simp [hflat]; omega
  unfold inflateSpec at hspec
  cases hb : inflateBlocks (out.extract 0 outPos) maxDist inp (fuelFor inp) 0 #[] #[] with
  | accept R =>
    obtain ⟨pos', o', blocks⟩ := R
    simp only [hb, Verdict.accept.injEq] at hspec
    subst hspec
    simp only at hroom ⊢
    obtain ⟨e, he⟩ : ∃ e : Env, e = { inp := inp, flags := flags, outLen := out.size, outEnd := min (outPos + budget) out.size } := ⟨_, rfl⟩
    have hflat' : e.ring = false := by rw [he]; simp [Env.ring, hflat]
    have hend : e.outEnd ≤ e.outLen := by rw [he]; show min _ _ ≤ out.size; omega
    have hstop' : hasFlag e.flags fStopOnBlockBoundary = false := by rw [he]; exact hstop
    have hz' : hasFlag e.flags fParseZlib = false := by rw [he]; exact hz
    have hinp : e.inp = inp := by rw [he]
    have hpre : (out.extract 0 outPos).size = outPos := by simp; omega
    obtain ⟨c1, st1, hs1, hn1, hb1, hi1, ho1, rh1, ts1, lc1⟩ :=
      micro_start_raw (e := e) (c := { r := r, inPos := 0, outPos := outPos }) (outA := out) hstart hz'
    have hsim1 : Sim e c1 out 0 (out.extract 0 outPos ++ #[]) := by
      have hi1' : c1.inPos = 0 := hi1
      have ho1' : c1.outPos = outPos := ho1
      refine ⟨⟨by rw [hi1']; exact Nat.zero_le _, by rw [hi1', hn1], by rw [hn1, hb1]; decide,
        by rw [hn1]; intro i hi; omega⟩, by rw [hn1]; decide, by rw [ho1']; simp; omega, ?_, by rw [he]⟩
      intro i hi
      simp only [Array.append_empty] at hi ⊢
      rw [Array.getElem?_extract]
      have : i < min outPos out.size - 0 := by simpa using hi
      simp only [this, ↓reduceIte, Nat.zero_add]
    have hsh1 : Shape c1 := ⟨by rw [rh1]; exact hshape.1, by rw [ts1]; exact hshape.2.1, by rw [lc1]; exact hshape.2.2⟩
    obtain ⟨cB, outB, rB, hsB, hsimB, hfB, zB⟩ :=
      sim_blocks hflat' hend hstop' (out.extract 0 outPos) maxDist (fuelFor inp) 0 #[] #[] (pos', o', blocks) c1 out
        (by rw [hinp]; exact hb) hs1 hsim1 hsh1 (by rw [hpre]; rw [he]; exact hroom)
    simp only at hsimB
    obtain ⟨cD, stD, hsD, hnD, hiD, hoD⟩ := micro_blockDone_final (e := e) (c := cB) (outA := outB) hsB hfB hsimB.nb8 hz'
    have hreach : Reaches e { r := r, inPos := 0, outPos := outPos } out cD outB :=
      (Reaches.of_step st1).trans (rB.trans (Reaches.of_step stD))
    rw [he] at hreach
    have hrun := run_of_reaches_done hg hreach hsD
    have hpe := hsimB.rep.posEq
    have h8 := hsimB.nb8
    exact ⟨cD, outB, hrun, by rw [hiD]; omega⟩
  | reject w => simp [hb] at hspec
  | truncated p => simp [hb] at hspec
  | fuel => simp [hb] at hspec

/-- A run over a chunk that stops for any reason other than starvation stops in the same way over
    any extension of the input. -/
theorem run_ext_same (e : Env) (b : Array UInt8) : ∀ (f : Nat) (c : Ctx) (out : Array UInt8) (st : Int) (c1 : Ctx)
    (out1 : Array UInt8), Geo e c out → run e f c out = (st, c1, out1) → st ≠ e.eoi → st ≠ stModelError →
    Final (e.ext b) c out (st, c1, out1) := by
  intro f
  induction f with
  | zero =>
    intro c out st c1 out1 g h hne hnm
    rw [run] at h
    simp only [Prod.mk.injEq] at h
    exact absurd h.1.symm hnm
  | succ f ih =>
    intro c out st c1 out1 g h hne hnm
    have hok := step_ok g
    by_cases hm : c.r.state = sRawMemcpy2
    · have hsp := split_RawMemcpy2 (b := b) hm g
      rw [run, step_RawMemcpy2 hm] at h
      rw [step_RawMemcpy2 hm] at hok
      cases hst : stRawMemcpy2 e c out with
      | fin st' c' o' =>
        rw [hst] at h hsp
        simp only [Prod.mk.injEq] at h
        exact absurd (h.1 ▸ hsp.1) hne
      | cont c' o' =>
        rw [hst] at h hsp hok
        simp only at h
        rcases hsp with hsame | ⟨h1, h2, h3⟩
        · exact Final.of_cont (by rw [step_RawMemcpy2 hm]; exact hsame) (ih c' o' st c1 out1 hok.geo h hne hnm)
        · -- the chunk run starves two transitions later: excluded by `st ≠ eoi`
          exfalso
          cases f with
          | zero => rw [run] at h; simp only [Prod.mk.injEq] at h; exact hnm h.1.symm
          | succ f =>
            rw [run, h1] at h
            simp only at h
            cases f with
            | zero => rw [run] at h; simp only [Prod.mk.injEq] at h; exact hnm h.1.symm
            | succ f =>
              rw [run, h2] at h
              simp only [Prod.mk.injEq] at h
              exact hne h.1.symm
    · have hsp := step_split (b := b) g hm
      rw [run] at h
      cases hst : step e c out with
      | cont c' o' =>
        rw [hst] at h hsp hok
        simp only at h
        exact Final.of_cont hsp (ih c' o' st c1 out1 hok.geo h hne hnm)
      | fin st' c' o' =>
        rw [hst] at h hsp
        simp only [Prod.mk.injEq] at h
        obtain ⟨hs, hc, ho⟩ := h
        rcases hsp with ⟨h1, _, _, _⟩ | ⟨_, h2⟩
        · exact absurd (hs ▸ h1) hne
        · refine ⟨1, ?_, hnm⟩
          rw [run]
          show (match step (e.ext b) c out with | .cont c out => run (e.ext b) 0 c out | .fin st c out => (st, c, out)) = _
          have h2' : step (e.ext b) c out = .fin st' c' o' := h2
          rw [h2', hs, hc, ho]

/-- A PROPER PREFIX OF A VALID STREAM IS NEVER REJECTED. If the reference decoder accepts the raw
    stream `a ++ b` and `a` ends before the stream does, one call of the model on `a` alone (flat
    buffer with room for the whole plaintext, decoder at Start) consumes all of `a` and answers
    needs-more-input (has-more-output if the window happens to be exactly full) when more input was
    announced, cannot-make-progress when it was not — never `Failed`, never `Done`. -/
theorem proper_prefix_not_rejected (r : Regs) (a b out : Array UInt8) (outPos budget flags maxDist : Nat)
    (res : Inflated)
    (hstart : r.state = sStart) (hshape : r.rawHeader.size = 4 ∧ r.tableSizes.size = 3 ∧ r.lenCodes.size = 512)
    (hflat : hasFlag flags fNonWrapping = true) (hz : hasFlag flags fParseZlib = false)
    (hstop : hasFlag flags fStopOnBlockBoundary = false) (hpos : outPos ≤ out.size)
    (hspec : inflateSpec (out.extract 0 outPos) maxDist (a ++ b) 0 = .accept res)
    (hroom : outPos + res.out.size ≤ min (outPos + budget) out.size)
    (hproper : a.size < (res.bitsUsed + 7) / 8) :
    (decompress r a out outPos budget flags).consumed = a.size ∧
    (if hasFlag flags fHasMoreInput then
        (decompress r a out outPos budget flags).status = stNeedsMoreInput ∨
        (decompress r a out outPos budget flags).status = stHasMoreOutput
     else (decompress r a out outPos budget flags).status = stFailedCannotMakeProgress) := by
  have hg : badGeometry flags out.size outPos = false := by
    unfold badGeometry; simp [hflat]; omega
  obtain ⟨cD, oD, hrunD, hiD⟩ := raw_run r (a ++ b) out outPos budget flags maxDist res hstart hshape hflat hz hstop hpos hspec hroom
  obtain ⟨ea, hea⟩ : ∃ e : Env, e = { inp := a, flags := flags, outLen := out.size, outEnd := min (outPos + budget) out.size } := ⟨_, rfl⟩
  have g0 : Geo ea { r := r, inPos := 0, outPos := outPos } out := by
    rw [hea]; exact ⟨Nat.zero_le _, by show outPos ≤ min _ _; omega, by show min _ _ ≤ out.size; omega⟩
  have htot := decompress_run_total r a out outPos budget flags hg
  have hok := run_ok ea (callFuel r a (min (outPos + budget) out.size - outPos)) _ _ g0
  simp only at htot
  rw [← hea] at htot
  -- the run over the prefix
  have hdec : decompress r a out outPos budget flags =
      (match run ea (callFuel r a (min (outPos + budget) out.size - outPos)) { r := r, inPos := 0, outPos := outPos } out with
       | (st, c, o) => epilogue flags outPos (min (outPos + budget) out.size) st c o) := by
    unfold decompress; rw [hg, hea]; simp only [Bool.false_eq_true, ↓reduceIte]
  generalize hR : run ea (callFuel r a (min (outPos + budget) out.size - outPos)) { r := r, inPos := 0, outPos := outPos } out = R at htot hok hdec
  obtain ⟨st0, c1, o1⟩ := R
  simp only at htot hok hdec
  have hne := finOK_ne_modelError htot
  have hst0 : st0 = ea.eoi := by
    by_cases h : st0 = ea.eoi
    · exact h
    · exfalso
      have hF := run_ext_same ea b _ _ _ _ _ _ g0 hR h hne
      have hFD : Final (ea.ext b) { r := r, inPos := 0, outPos := outPos } out (stDone, cD, oD) := by
        refine ⟨callFuel r (a ++ b) (min (outPos + budget) out.size - outPos), ?_, (by show stDone ≠ stModelError; decide)⟩
        rw [hea]; exact hrunD
      have := Final.unique hF hFD
      simp only [Prod.mk.injEq] at this
      have hle := hok.1.geo.inLe
      rw [this.2.1, hiD, hea] at hle
      show False
      have : (res.bitsUsed + 7) / 8 ≤ a.size := hle
      omega
  -- starved: everything consumed, status by the flag
  have hin : c1.inPos = a.size := by
    rcases htot with h | h | h | h | h
    · exfalso; rw [hst0] at h; exact eoi_ne_hmo ea h.1
    · rw [h.2, hea]
    · exfalso; rw [hst0] at h; exact done_ne_eoi ea h.1.symm
    · exfalso; rw [hst0] at h; exact failed_ne_eoi ea h.1.symm
    · exfalso; rw [hst0] at h; exact bb_ne_eoi ea h.1.symm
  rw [hdec]
  have hundo : exitUndo st0 c1 = 0 := by
    unfold exitUndo
    rcases eoi_cases ea with h | h <;> rw [hst0, h] <;> simp
  refine ⟨by rw [epilogue_consumed, hundo, hin]; omega, ?_⟩
  have heoi : ea.eoi = (if hasFlag flags fHasMoreInput then stNeedsMoreInput else stFailedCannotMakeProgress) := by
    rw [hea]; rfl
  rcases epilogue_status flags outPos (min (outPos + budget) out.size) st0 c1 o1 with h | h
  · rw [h]
    by_cases hmi : hasFlag flags fHasMoreInput = true
    · simp only [hmi, ↓reduceIte] at heoi ⊢
      unfold exitStatus
      split
      · right; rfl
      · left; rw [hst0, heoi]
    · simp only [hmi, Bool.false_eq_true, ↓reduceIte] at heoi ⊢
      rw [exitStatus_of_ne _ _ _ (by rw [hst0, heoi]; decide), hst0, heoi]
  · exfalso
    have := h.2
    unfold exitStatus at this
    split at this
    · simp [stHasMoreOutput, stDone] at this
    · rw [hst0] at this; exact done_ne_eoi ea this.symm

end Model.Core
