/-
The byte-level wrapper model for EVERY input (valid or not) and every reachable window state: counts
never exceed what was offered, the window geometry is kept, a recorded failure makes every later call
fail the same way without touching anything. Helper lemmas for Props/C13.
-/
import MinizProof.Lemmas.InflBytes
import MinizProof.Props.C05
set_option maxRecDepth 100000
namespace Model.Core
open Spec Model.InflB

/-- the loop: for every decoder behaviour on every input -/
theorem loopNone_counts (flags origIn : Nat) : ∀ (fuel : Nat) (w : WB) (inp : Array UInt8) (room c : Nat) (acc : Array UInt8),
    WGeo w → w.avail = 0 →
    WGeo (loopNone flags origIn fuel w inp room c acc).1 ∧
    (∃ n, (loopNone flags origIn fuel w inp room c acc).2.consumed = c + n ∧ n ≤ inp.size) ∧
    (∃ new, (loopNone flags origIn fuel w inp room c acc).2.out = acc ++ new ∧ new.size ≤ room) := by
  intro fuel
  induction fuel with
  | zero => intro w inp room c acc hg _; exact ⟨hg, ⟨0, rfl, Nat.zero_le _⟩, ⟨#[], by simp [loopNone], Nat.zero_le _⟩⟩
  | succ fuel ih =>
    intro w inp room c acc hg ha
    have hfacts := decompress_facts w.r inp w.dict w.ofs (dictSize - w.ofs) flags
    generalize hres : decompress w.r inp w.dict w.ofs (dictSize - w.ofs) flags = rs at hfacts
    have hgeo1 : WGeo { w with r := rs.r, dict := rs.out, last := rs.status, avail := rs.written } :=
      ⟨hg.ofsLt, by show rs.out.size = dictSize; rw [hfacts.size]; exact hg.dsz,
       by show w.ofs + rs.written ≤ dictSize; have := hfacts.wBudget; have := hg.ofsLt; omega⟩
    obtain ⟨hgeo2, _, _, hbsz, hav2, _⟩ := push_split hgeo1 room
    unfold loopNone
    simp only [hres]
    generalize hp : push { w with r := rs.r, dict := rs.out, last := rs.status, avail := rs.written } room = pr at hgeo2 hbsz hav2
    obtain ⟨bytes, w2⟩ := pr
    dsimp only at hgeo2 hbsz hav2
    have hbr : bytes.size ≤ room := by rw [hbsz]; exact Nat.min_le_right _ _
    have hcons := hfacts.consumed
    simp only
    have ret : ∀ st : Int, WGeo w2 ∧ (∃ n, (⟨c + rs.consumed, acc ++ bytes, st⟩ : CallRes).consumed = c + n ∧ n ≤ inp.size) ∧
        (∃ new, (⟨c + rs.consumed, acc ++ bytes, st⟩ : CallRes).out = acc ++ new ∧ new.size ≤ room) :=
      fun st => ⟨hgeo2, ⟨rs.consumed, rfl, hcons⟩, ⟨bytes, rfl, hbr⟩⟩
    split
    · exact ret _
    · split
      · exact ret _
      · split
        · exact ret _
        · split
          · split
            · exact ret _
            · exact ret _
          · rename_i hx
            have h0 : w2.avail = 0 := by
              by_cases h0 : w2.avail = 0
              · exact h0
              · exact absurd (.inr (.inr (.inr h0))) hx
            obtain ⟨g', ⟨n, hn, hnl⟩, ⟨new, ho, hnr⟩⟩ := ih w2 (inp.extract rs.consumed inp.size) (room - bytes.size) (c + rs.consumed)
              (acc ++ bytes) hgeo2 h0
            refine ⟨g', ⟨rs.consumed + n, by rw [hn, Nat.add_assoc], ?_⟩, ⟨bytes ++ new, by rw [ho, Array.append_assoc], ?_⟩⟩
            · rw [Array.size_extract] at hnl; omega
            · rw [Array.size_append]; omega

/-- ONE CALL, EVERY INPUT: counts within what was offered, geometry kept. -/
theorem inflateNone_counts (flags : Nat) (w : WB) (inp : Array UInt8) (room : Nat) (hg : WGeo w) :
    WGeo (inflateNone flags w inp room).1 ∧ (inflateNone flags w inp room).2.consumed ≤ inp.size ∧
    (inflateNone flags w inp room).2.out.size ≤ room := by
  unfold inflateNone
  split
  · exact ⟨hg, Nat.zero_le _, Nat.zero_le _⟩
  · split
    · exact ⟨hg, Nat.zero_le _, Nat.zero_le _⟩
    · split
      · obtain ⟨hgeo2, _, _, hbsz, _, _⟩ := push_split hg room
        generalize hp : push w room = pr at hgeo2 hbsz
        obtain ⟨bytes, w2⟩ := pr
        dsimp only at hgeo2 hbsz ⊢
        exact ⟨hgeo2, Nat.zero_le _, by rw [hbsz]; exact Nat.min_le_right _ _⟩
      · rename_i ha
        have ha0 : w.avail = 0 := by
          by_cases h : w.avail = 0
          · exact h
          · exact absurd h ha
        obtain ⟨g', ⟨n, hn, hnl⟩, ⟨new, ho, hnr⟩⟩ := loopNone_counts flags inp.size (inp.size + room + 2) w inp room 0 #[] hg ha0
        refine ⟨g', by rw [hn]; omega, by rw [ho]; simpa using hnr⟩

/-- A RECORDED FAILURE IS STICKY: whatever is offered, nothing is consumed, nothing handed over, the
    state is unchanged, and the same error comes back. -/
theorem inflateNone_failed_sticky (flags : Nat) (w : WB) (inp : Array UInt8) (room : Nat) (hf : w.last < 0) :
    (inflateNone flags w inp room).1 = w ∧ (inflateNone flags w inp room).2.consumed = 0 ∧
    (inflateNone flags w inp room).2.out = #[] ∧
    (inflateNone flags w inp room).2.status = (if w.last = stFailedCannotMakeProgress then rBuf else rData) := by
  unfold inflateNone
  by_cases hc : w.last = stFailedCannotMakeProgress
  · rw [if_pos hc, if_pos hc]; exact ⟨rfl, rfl, rfl, rfl⟩
  · rw [if_neg hc, if_pos hf, if_neg hc]; exact ⟨rfl, rfl, rfl, rfl⟩

/-- … over any sequence of calls from a fresh state: every call's counts are within what it was offered. -/
theorem runInfl_counts (flags : Nat) : ∀ (calls : List (Array UInt8 × Nat)) (w : WB) (carry : Array UInt8), WGeo w →
    ∀ x ∈ runInfl flags w carry calls, x.2.2.consumed ≤ x.1 ∧ x.2.2.out.size ≤ x.2.1 := by
  intro calls
  induction calls with
  | nil => intro w carry _ x hx; simp [runInfl] at hx
  | cons cr rest ih =>
    intro w carry hg x hx
    obtain ⟨chunk, room⟩ := cr
    obtain ⟨g', hc, ho⟩ := inflateNone_counts flags w (carry ++ chunk) room hg
    unfold runInfl at hx
    generalize hcall : inflateNone flags w (carry ++ chunk) room = cr at hx g' hc ho
    obtain ⟨w', r⟩ := cr
    dsimp only at hx g' hc ho
    rcases List.mem_cons.mp hx with h | h
    · rw [h]; exact ⟨hc, ho⟩
    · exact ih w' _ g' x h

/-- PROGRESS FOR EVERY INPUT: a call that is offered input and room, on a state that has not failed,
    either consumes something, hands something over, or returns a terminal result (stream end, data
    error, buffer error) — whatever the bytes are. With the classification of C05 (a call ends in one of
    eight statuses; "block boundary" only under its flag) and the decoder's own progress facts (C08:
    "needs more input" means all input was consumed, "has more output" means the window is full). -/
theorem inflateNone_progress (flags : Nat) (hstop : hasFlag flags fStopOnBlockBoundary = false) (w : WB)
    (inp : Array UInt8) (room : Nat) (hg : WGeo w) (hi : 0 < inp.size) (hr : 0 < room) :
    0 < (inflateNone flags w inp room).2.consumed ∨ 0 < (inflateNone flags w inp room).2.out.size ∨
    (inflateNone flags w inp room).2.status = rStreamEnd ∨ (inflateNone flags w inp room).2.status = rData ∨
    (inflateNone flags w inp room).2.status = rBuf := by
  unfold inflateNone
  split
  · exact .inr (.inr (.inr (.inr rfl)))
  · split
    · exact .inr (.inr (.inr (.inl rfl)))
    · split
      · rename_i ha
        obtain ⟨_, _, _, hbsz, _, _⟩ := push_split hg room
        generalize hp : push w room = pr at hbsz
        obtain ⟨bytes, w2⟩ := pr
        dsimp only at hbsz ⊢
        exact .inr (.inl (by rw [hbsz]; omega))
      · rename_i ha
        have ha0 : w.avail = 0 := by
          by_cases h : w.avail = 0
          · exact h
          · exact absurd h ha
        -- the first iteration of the loop
        have hf : inp.size + room + 2 = (inp.size + room + 1) + 1 := by omega
        rw [hf]
        have hcl := C05.call_always_terminates w.r inp w.dict w.ofs (dictSize - w.ofs) flags
        have hfacts := decompress_facts w.r inp w.dict w.ofs (dictSize - w.ofs) flags
        dsimp only at hcl
        generalize hres : decompress w.r inp w.dict w.ofs (dictSize - w.ofs) flags = rs at hcl hfacts
        have hgeo1 : WGeo { w with r := rs.r, dict := rs.out, last := rs.status, avail := rs.written } :=
          ⟨hg.ofsLt, by show rs.out.size = dictSize; rw [hfacts.size]; exact hg.dsz,
           by show w.ofs + rs.written ≤ dictSize; have := hfacts.wBudget; have := hg.ofsLt; omega⟩
        obtain ⟨hgeo2, _, _, hbsz, hav2, _⟩ := push_split hgeo1 room
        unfold loopNone
        simp only [hres]
        generalize hp : push { w with r := rs.r, dict := rs.out, last := rs.status, avail := rs.written } room = pr at hgeo2 hbsz hav2
        obtain ⟨bytes, w2⟩ := pr
        dsimp only at hgeo2 hbsz hav2
        simp only
        split
        · exact .inr (.inr (.inr (.inr rfl)))
        · rename_i hncmp
          split
          · exact .inr (.inr (.inr (.inl rfl)))
          · rename_i hnn
            split
            · exact .inr (.inr (.inr (.inr rfl)))
            · rename_i hnb
              -- the status is Done, NeedsMoreInput or HasMoreOutput
              have h3 : rs.status = stDone ∨ rs.status = stNeedsMoreInput ∨ rs.status = stHasMoreOutput := by
                rcases hcl with h | h | h | h | h | h | h | h
                · rw [h] at hnn; exact absurd (by decide) hnn
                · rw [h] at hnn; exact absurd (by decide) hnn
                · rw [h] at hnn; exact absurd (by decide) hnn
                · exact .inl h
                · exact .inr (.inl h)
                · exact .inr (.inr h)
                · exact absurd h hncmp
                · rw [hstop] at h; exact absurd h.2 (by decide)
              -- what this first inner call achieved
              have hprog : 0 < rs.consumed ∨ 0 < bytes.size ∨ (rs.status = stDone ∧ w2.avail = 0) := by
                rcases h3 with h | h | h
                · by_cases hw : rs.written = 0
                  · right; right; exact ⟨h, by rw [hav2]; show rs.written - min rs.written room = 0; omega⟩
                  · right; left; rw [hbsz]; show 0 < min rs.written room; omega
                · left; rw [hfacts.nmi (.inl h)]; exact hi
                · right; left
                  have hw := hfacts.hmo h
                  have := hg.ofsLt; have := hg.dsz
                  rw [hbsz]; show 0 < min rs.written room; omega
              split
              · split
                · exact .inr (.inr (.inl rfl))
                · rename_i hx hne
                  rcases hprog with h | h | h
                  · exact .inl (by show 0 < 0 + rs.consumed; omega)
                  · exact .inr (.inl (by show 0 < (#[] ++ bytes).size; simpa using h))
                  · exact absurd h hne
              · rename_i hx
                have h0 : w2.avail = 0 := by
                  by_cases h0 : w2.avail = 0
                  · exact h0
                  · exact absurd (.inr (.inr (.inr h0))) hx
                obtain ⟨_, ⟨n, hn, _⟩, ⟨new, ho, _⟩⟩ := loopNone_counts flags inp.size (inp.size + room + 1) w2
                  (inp.extract rs.consumed inp.size) (room - bytes.size) (0 + rs.consumed) (#[] ++ bytes) hgeo2 h0
                rcases hprog with h | h | h
                · exact .inl (by rw [hn]; omega)
                · exact .inr (.inl (by rw [ho]; simp; omega))
                · exact absurd (.inl h.1) hx

theorem fresh_geo : WGeo WB.fresh := ⟨by decide, by simp [WB.fresh], by decide⟩

end Model.Core
