/-
Theorems about the staging model `Model.DeflOut` (helper lemmas and the statements used by
Props/C02, C14): bounds, conservation of bytes, exclusivity of staging, status.
-/
import MinizProof.Model.DeflOut
set_option linter.unusedVariables false
namespace Model.DeflOut

theorem flushOne_concat (outLen ofs : Nat) (b : List UInt8) :
    (flushOne outLen ofs b).1 ++ (flushOne outLen ofs b).2 = b := by
  unfold flushOne; split
  · simp
  · simp

theorem flushOne_len (outLen ofs : Nat) (b : List UInt8) (hb : b.length ≤ OUT_BUF_SIZE) (ho : ofs ≤ outLen) :
    ofs + (flushOne outLen ofs b).1.length ≤ outLen := by
  unfold flushOne; split
  · simp only; omega
  · simp only [List.length_take]; omega

/-- bytes delivered by the engine body fit behind `ofs`; together with what stays pending they are
    exactly the blocks that were flushed, in order -/
theorem stageBlocks_spec (outLen : Nat) : ∀ (bs : List (List UInt8)) (ofs : Nat),
    (∀ b ∈ bs, b.length ≤ OUT_BUF_SIZE) → ofs ≤ outLen →
    ofs + (stageBlocks outLen ofs bs).1.length ≤ outLen ∧
    (stageBlocks outLen ofs bs).1 ++ (stageBlocks outLen ofs bs).2.1 = (bs.take (stageBlocks outLen ofs bs).2.2).flatten ∧
    (stageBlocks outLen ofs bs).2.2 ≤ bs.length := by
  intro bs
  induction bs with
  | nil => intro ofs _ ho; simp [stageBlocks]; exact ho
  | cons b bs ih =>
    intro ofs hb ho
    have h1 := flushOne_len outLen ofs b (hb b (List.mem_cons_self ..)) ho
    have h2 := flushOne_concat outLen ofs b
    unfold stageBlocks
    generalize flushOne outLen ofs b = q at h1 h2
    obtain ⟨d, p⟩ := q
    simp only at h1 h2 ⊢
    by_cases hp : p ≠ []
    · simp only [hp, ne_eq, not_false_eq_true, ↓reduceIte]
      refine ⟨h1, by simp [h2], by simp⟩
    · simp only [hp, ↓reduceIte]
      have hp' : p = [] := by simpa using hp
      have := ih (ofs + d.length) (fun x hx => hb x (List.mem_cons_of_mem _ hx)) h1
      generalize stageBlocks outLen (ofs + d.length) bs = q2 at this
      obtain ⟨d', p', k⟩ := q2
      simp only at this ⊢
      refine ⟨by simp; omega, ?_, by simp; omega⟩
      rw [List.take_succ_cons, List.flatten_cons, ← this.2.1, ← h2, hp']
      simp

theorem flushOut_spec (s : Stage) (outLen ofs : Nat) (ho : ofs ≤ outLen) :
    let r := flushOut s outLen ofs
    ofs + r.2.2.length ≤ outLen ∧ r.2.2 ++ r.1.pending = s.pending ∧ r.1.finished = s.finished ∧
    r.1.lastFlush = s.lastFlush ∧ r.1.prev = r.2.1 ∧
    (r.2.1 = stDone ↔ (r.1.finished = true ∧ r.1.pending = [])) ∧ (r.2.1 = stDone ∨ r.2.1 = stOkay) := by
  unfold flushOut
  dsimp only
  refine ⟨?_, ?_, rfl, rfl, rfl, ?_, ?_⟩
  · rw [List.length_take]; omega
  · exact List.take_append_drop _ _
  · by_cases h : (s.finished && (List.drop (min (outLen - ofs) s.pending.length) s.pending).isEmpty) = true
    · rw [if_pos h]
      simp only [true_iff]
      simpa using h
    · rw [if_neg h]
      constructor
      · intro hh; simp [stOkay, stDone] at hh
      · intro hh; exfalso; apply h; simpa using hh
  · split
    · left; rfl
    · right; rfl

/-- Well-formed engine script: no block is larger than the staging buffer. -/
def EngineCall.WF (eng : EngineCall) : Prop :=
  (∀ b ∈ eng.blocks, b.length ≤ OUT_BUF_SIZE) ∧ eng.finalBlk.length ≤ OUT_BUF_SIZE

/-- bytes that went through `flush_block` in a call -/
def CallOut.produced (eng : EngineCall) (r : CallOut) : List UInt8 :=
  (eng.blocks.take r.flushed).flatten ++ (if r.epilogue then eng.finalBlk else [])

/-- ONE CALL: counts within the offered space; no byte lost, duplicated or reordered; blocks are
    flushed only when nothing is pending and the stream is not finished; truthful status. -/
theorem compressInner_spec (s : Stage) (outLen flush : Nat) (eng : EngineCall) (hwf : eng.WF) :
    let r := compressInner s outLen flush eng
    r.delivered.length ≤ outLen ∧
    (r.status ≠ stBadParam → r.delivered ++ r.stage.pending = s.pending ++ r.produced eng) ∧
    (r.status = stBadParam → r.delivered = [] ∧ r.stage.pending = s.pending ∧ r.flushed = 0 ∧ r.epilogue = false) ∧
    ((r.flushed ≠ 0 ∨ r.epilogue = true) → s.pending = [] ∧ s.finished = false) ∧
    (r.status = stDone ↔ (r.stage.finished = true ∧ r.stage.pending = [] ∧ r.status ≠ stBadParam)) ∧
    r.stage.prev = r.status ∧ r.stage.lastFlush = flush ∧
    (r.stage.finished = true → s.finished = true ∨ flush = flFinish) := by
  unfold compressInner
  simp only
  by_cases hg : (!(s.prev == stOkay) || !(s.lastFlush != flFinish || flush == flFinish)) = true
  · simp only [hg, ↓reduceIte, CallOut.produced]
    refine ⟨by simp, by intro h; exact absurd rfl h, by intro _; simp, by simp, ?_, trivial, trivial, ?_⟩
    · simp [stDone, stBadParam]
    · intro h; left; exact h
  · simp only [hg, Bool.false_eq_true, ↓reduceIte]
    by_cases hp : (!s.pending.isEmpty || s.finished) = true
    · simp only [hp, ↓reduceIte]
      have := flushOut_spec { s with lastFlush := flush } outLen 0 (Nat.zero_le _)
      generalize flushOut { s with lastFlush := flush } outLen 0 = q at this
      obtain ⟨s', st, d⟩ := q
      simp only at this ⊢
      obtain ⟨h1, h2, h3, h4, h5, h6, h7⟩ := this
      have hnb : st ≠ stBadParam := by rcases h7 with h | h <;> rw [h] <;> decide
      refine ⟨by omega, by intro _; simp [CallOut.produced, h2], by intro h; exact absurd h hnb, by simp, ?_, h5, h4, ?_⟩
      · rw [h6]; simp [hnb]
      · intro h; left; rw [← h3]; exact h
    · simp only [hp, Bool.false_eq_true, ↓reduceIte]
      have hp0 : s.pending = [] ∧ s.finished = false := by
        simp only [Bool.or_eq_true, Bool.not_eq_true', List.isEmpty_eq_false_iff, ne_eq, not_or, Decidable.not_not,
          Bool.not_eq_true] at hp
        exact hp
      have hsb := stageBlocks_spec outLen eng.blocks 0 hwf.1 (Nat.zero_le _)
      generalize stageBlocks outLen 0 eng.blocks = q at hsb
      obtain ⟨d1, p1, k⟩ := q
      simp only [Nat.zero_add] at hsb ⊢
      obtain ⟨b1, b2, b3⟩ := hsb
      by_cases hp1 : (!p1.isEmpty) = true
      · simp only [hp1, ↓reduceIte]
        have := flushOut_spec { s with lastFlush := flush, pending := p1 } outLen d1.length b1
        generalize flushOut { s with lastFlush := flush, pending := p1 } outLen d1.length = q at this
        obtain ⟨s', st, d⟩ := q
        simp only at this ⊢
        obtain ⟨h1, h2, h3, h4, h5, h6, h7⟩ := this
        have hnb : st ≠ stBadParam := by rcases h7 with h | h <;> rw [h] <;> decide
        refine ⟨by simp; omega, ?_, by intro h; exact absurd h hnb, by intro _; exact hp0, ?_, h5, h4, ?_⟩
        · intro _; simp only [CallOut.produced, Bool.false_eq_true, ↓reduceIte, List.append_nil, List.append_assoc]
          rw [h2, hp0.1, b2]; simp
        · rw [h6]; simp [hnb]
        · intro h; left; rw [← h3]; exact h
      · simp only [hp1, Bool.false_eq_true, ↓reduceIte]
        have hp1' : p1 = [] := by simpa using hp1
        by_cases hep : (flush != flNone && eng.drained) = true
        · simp only [hep, ↓reduceIte]
          have f1 := flushOne_len outLen d1.length eng.finalBlk hwf.2 b1
          have f2 := flushOne_concat outLen d1.length eng.finalBlk
          generalize flushOne outLen d1.length eng.finalBlk = q at f1 f2
          obtain ⟨d2, p2⟩ := q
          simp only at f1 f2 ⊢
          have := flushOut_spec { s with lastFlush := flush, pending := p2, finished := flush == flFinish } outLen
            (d1.length + d2.length) f1
          generalize flushOut { s with lastFlush := flush, pending := p2, finished := flush == flFinish } outLen
            (d1.length + d2.length) = q at this
          obtain ⟨s', st, d⟩ := q
          simp only at this ⊢
          obtain ⟨h1, h2, h3, h4, h5, h6, h7⟩ := this
          have hnb : st ≠ stBadParam := by rcases h7 with h | h <;> rw [h] <;> decide
          refine ⟨by simp; omega, ?_, by intro h; exact absurd h hnb, by intro _; exact hp0, ?_, h5, h4, ?_⟩
          · intro _; simp only [CallOut.produced, ↓reduceIte, List.append_assoc]
            rw [h2, hp0.1, ← f2, ← b2, hp1']; simp
          · rw [h6]; simp [hnb]
          · intro h; right; rw [h3] at h; simpa using h
        · simp only [hep, Bool.false_eq_true, ↓reduceIte]
          have := flushOut_spec { s with lastFlush := flush } outLen d1.length b1
          generalize flushOut { s with lastFlush := flush } outLen d1.length = q at this
          obtain ⟨s', st, d⟩ := q
          simp only at this ⊢
          obtain ⟨h1, h2, h3, h4, h5, h6, h7⟩ := this
          have hnb : st ≠ stBadParam := by rcases h7 with h | h <;> rw [h] <;> decide
          refine ⟨by simp; omega, ?_, by intro h; exact absurd h hnb, by intro _; exact hp0, ?_, h5, h4, ?_⟩
          · intro _; simp only [CallOut.produced, Bool.false_eq_true, ↓reduceIte, List.append_nil, List.append_assoc]
            rw [h2, hp0.1, ← b2, hp1']; simp
          · rw [h6]; simp [hnb]
          · intro h; left; rw [← h3]; exact h

/-- One `compress` call of a history. -/
structure Call where
  outLen : Nat
  flush  : Nat
  eng    : EngineCall

/-- A history of calls on one compressor: final stage, all bytes delivered, all bytes that went
    through `flush_block`, the statuses returned. -/
def runCalls : Stage → List Call → Stage × List UInt8 × List UInt8 × List Int
  | s, [] => (s, [], [], [])
  | s, c :: cs =>
    let r := compressInner s c.outLen c.flush c.eng
    let (s', d, p, sts) := runCalls r.stage cs
    (s', r.delivered ++ d, (if r.status = stBadParam then [] else r.produced c.eng) ++ p, r.status :: sts)

/-- EVERY HISTORY: what the caller received so far, followed by what is still pending in
    `local_buf`, is exactly the concatenation of all blocks that went through `flush_block`, in order:
    no byte lost, duplicated or reordered, whatever the output buffer sizes (down to zero) and
    whatever the engines produced. -/
theorem history_conservation : ∀ (cs : List Call) (s : Stage), (∀ c ∈ cs, c.eng.WF) →
    (runCalls s cs).2.1 ++ (runCalls s cs).1.pending = s.pending ++ (runCalls s cs).2.2.1 := by
  intro cs
  induction cs with
  | nil => intro s _; simp [runCalls]
  | cons c cs ih =>
    intro s hwf
    have h1 := compressInner_spec s c.outLen c.flush c.eng (hwf c (List.mem_cons_self ..))
    have h2 := ih (compressInner s c.outLen c.flush c.eng).stage (fun x hx => hwf x (List.mem_cons_of_mem _ hx))
    unfold runCalls
    simp only at h1 ⊢
    generalize compressInner s c.outLen c.flush c.eng = r at h1 h2
    generalize runCalls r.stage cs = q at h2
    obtain ⟨s', d, p, sts⟩ := q
    simp only at h2 ⊢
    by_cases hb : r.status = stBadParam
    · obtain ⟨e1, e2, _, _⟩ := h1.2.2.1 hb
      simp only [hb, ↓reduceIte, List.nil_append, e1]
      rw [h2, e2]
    · have e := h1.2.1 hb
      simp only [hb, ↓reduceIte, List.append_assoc]
      rw [h2, ← List.append_assoc, e, List.append_assoc]

/-- Per call: never more bytes than the offered space. -/
theorem call_within_space (s : Stage) (c : Call) (h : c.eng.WF) :
    (compressInner s c.outLen c.flush c.eng).delivered.length ≤ c.outLen :=
  (compressInner_spec s c.outLen c.flush c.eng h).1

/-- A block is handed to `flush_block` only when nothing is pending and the stream has not
    finished (the `debug_assert!` at the top of `flush_block` as a theorem of the model). -/
theorem flush_only_when_drained (s : Stage) (c : Call) (h : c.eng.WF) :
    let r := compressInner s c.outLen c.flush c.eng
    (r.flushed ≠ 0 ∨ r.epilogue = true) → s.pending = [] ∧ s.finished = false :=
  (compressInner_spec s c.outLen c.flush c.eng h).2.2.2.1

/-- After `Done` (and after `BadParam`) every further call answers `BadParam` and delivers nothing. -/
theorem after_done_or_badparam (s : Stage) (c : Call) (h : s.prev = stDone ∨ s.prev = stBadParam) :
    let r := compressInner s c.outLen c.flush c.eng
    r.status = stBadParam ∧ r.delivered = [] ∧ r.stage.prev = stBadParam ∧ r.stage.pending = s.pending := by
  unfold compressInner
  have hp : (s.prev == stOkay) = false := by rcases h with h | h <;> rw [h] <;> decide
  simp only [hp, Bool.not_false, Bool.true_or, ↓reduceIte, and_self]

/-- Finish is sticky: once a call asked for `Finish`, a call asking for anything else answers
    `BadParam` (and by the previous theorem so does every later call). -/
theorem nonfinish_after_finish (s : Stage) (c : Call) (h : s.lastFlush = flFinish) (hf : c.flush ≠ flFinish) :
    (compressInner s c.outLen c.flush c.eng).status = stBadParam := by
  unfold compressInner
  have h1 : (s.lastFlush != flFinish) = false := by rw [h]; decide
  have h2 : (c.flush == flFinish) = false := by simpa using hf
  simp only [h1, h2, Bool.or_self, Bool.not_false, Bool.or_true, ↓reduceIte]

/-- `Done` is reported exactly when the stream is finished and nothing is pending; the stream is
    finished only by a call that asked for `Finish`. -/
theorem done_iff_finished_and_drained (s : Stage) (c : Call) (h : c.eng.WF) :
    let r := compressInner s c.outLen c.flush c.eng
    (r.status = stDone ↔ (r.stage.finished = true ∧ r.stage.pending = [] ∧ r.status ≠ stBadParam)) ∧
    (r.stage.finished = true → s.finished = true ∨ c.flush = flFinish) := by
  have := compressInner_spec s c.outLen c.flush c.eng h
  exact ⟨this.2.2.2.2.1, this.2.2.2.2.2.2.2⟩

end Model.DeflOut
