/-
Multi-step execution of the decoder model (`Reaches`) and the dispatch of `step` on a known state.
Helper lemmas for the refinement theorems (Props/C03, C06).
-/
import MinizProof.Lemmas.CoreTotal
import MinizProof.Lemmas.CoreBits
set_option linter.unusedVariables false
namespace Model.Core
open Spec

/-- `(c, out)` evolves to `(c', out')` in finitely many continuing transitions. -/
def Reaches (e : Env) (c : Ctx) (out : Array UInt8) (c' : Ctx) (out' : Array UInt8) : Prop :=
  ∃ k, ∀ fuel, run e (fuel + k) c out = run e fuel c' out'

theorem Reaches.refl (e : Env) (c : Ctx) (out : Array UInt8) : Reaches e c out c out := ⟨0, fun _ => rfl⟩

theorem Reaches.trans {e : Env} {c1 c2 c3 : Ctx} {o1 o2 o3 : Array UInt8}
    (h1 : Reaches e c1 o1 c2 o2) (h2 : Reaches e c2 o2 c3 o3) : Reaches e c1 o1 c3 o3 := by
  obtain ⟨k1, h1⟩ := h1
  obtain ⟨k2, h2⟩ := h2
  refine ⟨k2 + k1, fun fuel => ?_⟩
  rw [← Nat.add_assoc, h1, h2]

theorem Reaches.of_step {e : Env} {c c' : Ctx} {o o' : Array UInt8} (h : step e c o = .cont c' o') :
    Reaches e c o c' o' := by
  refine ⟨1, fun fuel => ?_⟩
  show run e (fuel + 1) c o = _
  conv => lhs; unfold run
  rw [h]

theorem Reaches.step_then {e : Env} {c c1 c' : Ctx} {o o1 o' : Array UInt8} (h : step e c o = .cont c1 o1)
    (h2 : Reaches e c1 o1 c' o') : Reaches e c o c' o' := (Reaches.of_step h).trans h2

theorem step_Start {e : Env} {c : Ctx} {o : Array UInt8} (h : c.r.state = sStart) : step e c o = stStart e c o := by
  unfold step stepAt; rw [h]; rfl
theorem step_ReadZlibCmf {e : Env} {c : Ctx} {o : Array UInt8} (h : c.r.state = sReadZlibCmf) : step e c o = stReadZlibCmf e c o := by
  unfold step stepAt; rw [h]; rfl
theorem step_ReadZlibFlg {e : Env} {c : Ctx} {o : Array UInt8} (h : c.r.state = sReadZlibFlg) : step e c o = stReadZlibFlg e c o := by
  unfold step stepAt; rw [h]; rfl
theorem step_ReadBlockHeader {e : Env} {c : Ctx} {o : Array UInt8} (h : c.r.state = sReadBlockHeader) : step e c o = stReadBlockHeader e c o := by
  unfold step stepAt; rw [h]; rfl
theorem step_BlockTypeNoCompression {e : Env} {c : Ctx} {o : Array UInt8} (h : c.r.state = sBlockTypeNoCompression) : step e c o = stBlockTypeNoCompression e c o := by
  unfold step stepAt; rw [h]; rfl
theorem step_RawHeader {e : Env} {c : Ctx} {o : Array UInt8} (h : c.r.state = sRawHeader) : step e c o = stRawHeader e c o := by
  unfold step stepAt; rw [h]; rfl
theorem step_RawReadFirstByte {e : Env} {c : Ctx} {o : Array UInt8} (h : c.r.state = sRawReadFirstByte) : step e c o = stRawReadFirstByte e c o := by
  unfold step stepAt; rw [h]; rfl
theorem step_RawStoreFirstByte {e : Env} {c : Ctx} {o : Array UInt8} (h : c.r.state = sRawStoreFirstByte) : step e c o = stRawStoreFirstByte e c o := by
  unfold step stepAt; rw [h]; rfl
theorem step_RawMemcpy1 {e : Env} {c : Ctx} {o : Array UInt8} (h : c.r.state = sRawMemcpy1) : step e c o = stRawMemcpy1 e c o := by
  unfold step stepAt; rw [h]; rfl
theorem step_RawMemcpy2 {e : Env} {c : Ctx} {o : Array UInt8} (h : c.r.state = sRawMemcpy2) : step e c o = stRawMemcpy2 e c o := by
  unfold step stepAt; rw [h]; rfl
theorem step_ReadTableSizes {e : Env} {c : Ctx} {o : Array UInt8} (h : c.r.state = sReadTableSizes) : step e c o = stReadTableSizes e c o := by
  unfold step stepAt; rw [h]; rfl
theorem step_ReadHufflenTableCodeSize {e : Env} {c : Ctx} {o : Array UInt8} (h : c.r.state = sReadHufflenTableCodeSize) : step e c o = stReadHufflenTableCodeSize e c o := by
  unfold step stepAt; rw [h]; rfl
theorem step_ReadLitlenDistTablesCodeSize {e : Env} {c : Ctx} {o : Array UInt8} (h : c.r.state = sReadLitlenDistTablesCodeSize) : step e c o = stReadLitlenDistTablesCodeSize e c o := by
  unfold step stepAt; rw [h]; rfl
theorem step_ReadExtraBitsCodeSize {e : Env} {c : Ctx} {o : Array UInt8} (h : c.r.state = sReadExtraBitsCodeSize) : step e c o = stReadExtraBitsCodeSize e c o := by
  unfold step stepAt; rw [h]; rfl
theorem step_DecodeLitlen {e : Env} {c : Ctx} {o : Array UInt8} (h : c.r.state = sDecodeLitlen) : step e c o = stDecodeLitlen e c o := by
  unfold step stepAt; rw [h]; rfl
theorem step_WriteSymbol {e : Env} {c : Ctx} {o : Array UInt8} (h : c.r.state = sWriteSymbol) : step e c o = stWriteSymbol e c o := by
  unfold step stepAt; rw [h]; rfl
theorem step_HuffDecodeOuterLoop1 {e : Env} {c : Ctx} {o : Array UInt8} (h : c.r.state = sHuffDecodeOuterLoop1) : step e c o = stHuffDecodeOuterLoop1 e c o := by
  unfold step stepAt; rw [h]; rfl
theorem step_ReadExtraBitsLitlen {e : Env} {c : Ctx} {o : Array UInt8} (h : c.r.state = sReadExtraBitsLitlen) : step e c o = stReadExtraBitsLitlen e c o := by
  unfold step stepAt; rw [h]; rfl
theorem step_DecodeDistance {e : Env} {c : Ctx} {o : Array UInt8} (h : c.r.state = sDecodeDistance) : step e c o = stDecodeDistance e c o := by
  unfold step stepAt; rw [h]; rfl
theorem step_ReadExtraBitsDistance {e : Env} {c : Ctx} {o : Array UInt8} (h : c.r.state = sReadExtraBitsDistance) : step e c o = stReadExtraBitsDistance e c o := by
  unfold step stepAt; rw [h]; rfl
theorem step_BlockDone {e : Env} {c : Ctx} {o : Array UInt8} (h : c.r.state = sBlockDone) : step e c o = stBlockDone e c o := by
  unfold step stepAt; rw [h]; rfl
theorem step_ReadAdler32 {e : Env} {c : Ctx} {o : Array UInt8} (h : c.r.state = sReadAdler32) : step e c o = stReadAdler32 e c o := by
  unfold step stepAt; rw [h]; rfl
theorem step_Match1 {e : Env} {c : Ctx} {o : Array UInt8} (h : c.r.state = sHuffDecodeOuterLoop2) : step e c o = stMatch e c o := by
  unfold step stepAt; rw [h]; rfl
theorem step_Match2 {e : Env} {c : Ctx} {o : Array UInt8} (h : c.r.state = sWriteLenBytesToEnd) : step e c o = stMatch e c o := by
  unfold step stepAt; rw [h]; rfl
theorem step_DoneForever {e : Env} {c : Ctx} {o : Array UInt8} (h : c.r.state = sDoneForever) : step e c o = .fin stDone c o := by
  unfold step; rw [h]; exact stepAt_done e c o

end Model.Core
