/-
Encoder specification, dynamic-Huffman blocks: HLIT / HDIST / HCLEN, the code-length code's lengths
in the RFC's order, the literal/length and distance code lengths written with the code-length
alphabet (lengths 0..15, repeat-previous 16, zero runs 17 / 18 — ANY such sequence whose expansion is
the wanted list of lengths), then the tokens. The reference decoder reads the header back to exactly
those code lengths and the block to the expansion of its tokens. Helper lemmas for Props/C10.
-/
import MinizProof.Lemmas.EncBlocks
set_option maxRecDepth 100000
namespace Model.Core
open Spec

/-- a symbol of the code-length alphabet as written, with the value of its extra bits -/
inductive CSym
  | len (l : Nat)
  | rep (r : Nat)
  | z3 (r : Nat)
  | z7 (r : Nat)

def CSym.sym : CSym → Nat
  | .len l => l | .rep _ => 16 | .z3 _ => 17 | .z7 _ => 18

def CSym.extra : CSym → List Nat
  | .len _ => [] | .rep r => bitsLE r 2 | .z3 r => bitsLE r 3 | .z7 r => bitsLE r 7

/-- what the symbol appends to the list of code lengths read so far -/
def CSym.apply (acc : Array Nat) : CSym → Array Nat
  | .len l => acc.push l
  | .rep r => acc ++ Array.replicate (3 + r) (acc.getD (acc.size - 1) 0)
  | .z3 r => acc ++ Array.replicate (3 + r) 0
  | .z7 r => acc ++ Array.replicate (11 + r) 0

def CSym.Ok (clens : Array Nat) (acc : Array Nat) : CSym → Prop
  | .len l => l < 16 ∧ l < clens.size ∧ 1 ≤ clens.getD l 0
  | .rep r => r < 4 ∧ acc.size ≠ 0 ∧ 16 < clens.size ∧ 1 ≤ clens.getD 16 0
  | .z3 r => r < 8 ∧ 17 < clens.size ∧ 1 ≤ clens.getD 17 0
  | .z7 r => r < 128 ∧ 18 < clens.size ∧ 1 ≤ clens.getD 18 0

def encCSym (clens : Array Nat) (c : CSym) : List Nat := codeBits clens c.sym ++ c.extra

theorem readLenStep_enc (clens : Array Nat) (hc : CodeOk clens) (data : Array UInt8) (pos : Nat) (acc : Array Nat)
    (c : CSym) (hok : c.Ok clens acc) (h : HasBits data pos (encCSym clens c)) :
    readLenStep (mkCode clens) data pos acc = .more (pos + (encCSym clens c).length) (c.apply acc) := by
  obtain ⟨ha, hb⟩ := HasBits.append (a := codeBits clens c.sym) (b := c.extra) h
  rw [codeBits_length] at hb
  unfold readLenStep
  cases c with
  | len l =>
    obtain ⟨h16, hsz, h1⟩ := hok
    rw [decodeSym_of_hasBits clens hc data pos l hsz h1 ha]
    dsimp only
    rw [if_pos h16]
    simp [encCSym, CSym.sym, CSym.extra, CSym.apply, codeBits_length]
  | rep r =>
    simp only [CSym.sym, CSym.extra] at ha hb
    obtain ⟨hr, hne, hsz, h1⟩ := hok
    rw [decodeSym_of_hasBits clens hc data pos 16 hsz h1 ha]
    dsimp only
    rw [if_neg (by decide), if_pos rfl, if_neg hne]
    rw [bitsAt_of_hasBits data 2 _ r (by omega) hb]
    simp [encCSym, CSym.sym, CSym.extra, CSym.apply, codeBits_length, bitsLE_length, Nat.add_assoc]
  | z3 r =>
    simp only [CSym.sym, CSym.extra] at ha hb
    obtain ⟨hr, hsz, h1⟩ := hok
    rw [decodeSym_of_hasBits clens hc data pos 17 hsz h1 ha]
    dsimp only
    rw [if_neg (by decide), if_neg (by decide), if_pos rfl]
    rw [bitsAt_of_hasBits data 3 _ r (by omega) hb]
    simp [encCSym, CSym.sym, CSym.extra, CSym.apply, codeBits_length, bitsLE_length, Nat.add_assoc]
  | z7 r =>
    simp only [CSym.sym, CSym.extra] at ha hb
    obtain ⟨hr, hsz, h1⟩ := hok
    rw [decodeSym_of_hasBits clens hc data pos 18 hsz h1 ha]
    dsimp only
    rw [if_neg (by decide), if_neg (by decide), if_neg (by decide)]
    rw [bitsAt_of_hasBits data 7 _ r (by omega) hb]
    simp [encCSym, CSym.sym, CSym.extra, CSym.apply, codeBits_length, bitsLE_length, Nat.add_assoc]

def applyAll : Array Nat → List CSym → Array Nat
  | acc, [] => acc
  | acc, c :: cs => applyAll (c.apply acc) cs

/-- the sequence fills the table exactly: never past `total`, done exactly at `total` -/
def CSymsOk (clens : Array Nat) (total : Nat) : Array Nat → List CSym → Prop
  | acc, [] => acc.size = total
  | acc, c :: cs => acc.size < total ∧ c.Ok clens acc ∧ CSymsOk clens total (c.apply acc) cs

def encCSyms (clens : Array Nat) : List CSym → List Nat
  | [] => []
  | c :: cs => encCSym clens c ++ encCSyms clens cs

theorem readLens_enc (clens : Array Nat) (hc : CodeOk clens) (data : Array UInt8) (total : Nat) :
    ∀ (cs : List CSym) (fuel pos : Nat) (acc : Array Nat), cs.length < fuel → CSymsOk clens total acc cs →
    HasBits data pos (encCSyms clens cs) →
    readLens (mkCode clens) data total fuel pos acc = .accept (pos + (encCSyms clens cs).length, applyAll acc cs) := by
  intro cs
  induction cs with
  | nil =>
    intro fuel pos acc hf hok _
    obtain ⟨f, rfl⟩ : ∃ f, fuel = f + 1 := ⟨fuel - 1, by simp at hf; omega⟩
    have hok' : acc.size = total := hok
    unfold readLens
    rw [if_pos hok']
    simp [encCSyms, applyAll]
  | cons c cs ih =>
    intro fuel pos acc hf hok h
    obtain ⟨hlt, hcok, hrest⟩ := hok
    obtain ⟨f, rfl⟩ : ∃ f, fuel = f + 1 := ⟨fuel - 1, by simp at hf; omega⟩
    obtain ⟨ha, hb⟩ := HasBits.append (a := encCSym clens c) (b := encCSyms clens cs) h
    unfold readLens
    rw [if_neg (by omega), if_neg (by omega), readLenStep_enc clens hc data pos acc c hcok ha]
    dsimp only
    rw [ih f _ _ (by simp at hf; omega) hrest hb]
    simp [encCSyms, applyAll, Nat.add_assoc]

/-- the code-length code's lengths as the decoder assembles them from the 3-bit fields -/
def clensFold : List Nat → List Nat → Array Nat → Array Nat
  | o :: os, v :: vs, acc => clensFold os vs (acc.setIfInBounds o v)
  | _, _, acc => acc

def clenFieldBits : List Nat → List Nat
  | [] => []
  | v :: vs => bitsLE v 3 ++ clenFieldBits vs

theorem clenFieldBits_length : ∀ vs : List Nat, (clenFieldBits vs).length = 3 * vs.length := by
  intro vs
  induction vs with
  | nil => rfl
  | cons v vs ih => simp [clenFieldBits, bitsLE_length, ih]; omega

theorem readClens_enc (data : Array UInt8) : ∀ (vs os : List Nat) (pos : Nat) (acc : Array Nat),
    (∀ v ∈ vs, v < 8) → vs.length ≤ os.length → HasBits data pos (clenFieldBits vs) →
    readClens data vs.length pos os acc = some (pos + 3 * vs.length, clensFold os vs acc) := by
  intro vs
  induction vs with
  | nil =>
    intro os pos acc _ _ _
    cases os <;> simp [readClens, clensFold]
  | cons v vs ih =>
    intro os pos acc hv hl h
    cases os with
    | nil => simp at hl
    | cons o os =>
      obtain ⟨ha, hb⟩ := HasBits.append (a := bitsLE v 3) (b := clenFieldBits vs) h
      rw [bitsLE_length] at hb
      show readClens data (vs.length + 1) pos (o :: os) acc = _
      unfold readClens
      rw [bitsAt_of_hasBits data 3 pos v (by have := hv v (by simp); omega) ha]
      dsimp only
      rw [ih os (pos + 3) _ (fun u hu => hv u (by simp [hu])) (by simp at hl; omega) hb]
      simp only [clensFold, List.length_cons]
      congr 2
      omega

theorem csyms_length_le (clens : Array Nat) (total : Nat) : ∀ (cs : List CSym) (acc : Array Nat), CSymsOk clens total acc cs →
    cs.length ≤ (encCSyms clens cs).length := by
  intro cs
  induction cs with
  | nil => intro acc _; simp
  | cons c cs ih =>
    intro acc hok
    obtain ⟨_, hcok, hrest⟩ := hok
    have h1 : 1 ≤ (encCSym clens c).length := by
      unfold encCSym
      rw [List.length_append, codeBits_length]
      cases c with
      | len l => have := hcok.2.2; simp only [CSym.sym]; omega
      | rep r => have := hcok.2.2.2; simp only [CSym.sym]; omega
      | z3 r => have := hcok.2.2; simp only [CSym.sym]; omega
      | z7 r => have := hcok.2.2; simp only [CSym.sym]; omega
    have := ih _ hrest
    show (c :: cs).length ≤ (encCSym clens c ++ encCSyms clens cs).length
    rw [List.length_append, List.length_cons]
    omega

/-- header of a dynamic block: HLIT, HDIST, the 3-bit fields of the code-length code (HCLEN + 4 of
    them), the code-length symbols -/
structure DynHdr where
  hlit  : Nat
  hdist : Nat
  cvals : List Nat
  csyms : List CSym

def DynHdr.clens (h : DynHdr) : Array Nat := clensFold clenOrder h.cvals (Array.replicate 19 0)
def DynHdr.lens (h : DynHdr) : Array Nat := applyAll #[] h.csyms
def DynHdr.litLens (h : DynHdr) : Array Nat := h.lens.extract 0 (h.hlit + 257)
def DynHdr.distLens (h : DynHdr) : Array Nat := h.lens.extract (h.hlit + 257) (h.hlit + 257 + (h.hdist + 1))

structure DynHdr.Ok (h : DynHdr) : Prop where
  hlit    : h.hlit ≤ 29
  hdist   : h.hdist ≤ 29
  ncl     : 4 ≤ h.cvals.length ∧ h.cvals.length ≤ 19
  cv      : ∀ v ∈ h.cvals, v < 8
  clenOk  : codeValid .clen h.clens = true
  csOk    : CSymsOk h.clens (h.hlit + 257 + (h.hdist + 1)) #[] h.csyms
  litOk   : codeValid .litlen h.litLens = true
  distOk  : codeValid .dist h.distLens = true
  eob     : 256 < h.litLens.size ∧ 1 ≤ h.litLens.getD 256 0

def encDynamic (final : Bool) (h : DynHdr) (toks : List SymTok) : EncBlock :=
  { bits := fun _ => bitsLE ((if final then 1 else 0) + 4) 3 ++ (bitsLE h.hlit 5 ++ (bitsLE h.hdist 5 ++ (bitsLE (h.cvals.length - 4) 4 ++
      (clenFieldBits h.cvals ++ (encCSyms h.clens h.csyms ++ encToks h.litLens h.distLens toks))))),
    final := final, toks := toks, litLens := h.litLens, distLens := h.distLens }

theorem encDynamic_decodes (pre : Array UInt8) (maxDist : Nat) (final : Bool) (h : DynHdr) (hok : h.Ok) (toks : List SymTok) :
    (encDynamic final h toks).Decodes pre maxDist := by
  intro data fuel pos out hfuel htok hb
  obtain ⟨b0, hb⟩ := HasBits.append (a := bitsLE ((if final then 1 else 0) + 4) 3) hb
  obtain ⟨b1, hb⟩ := hb.append
  obtain ⟨b2, hb⟩ := hb.append
  obtain ⟨b3, hb⟩ := hb.append
  obtain ⟨b4, hb⟩ := hb.append
  obtain ⟨b5, b6⟩ := hb.append
  simp only [bitsLE_length, clenFieldBits_length] at b1 b2 b3 b4 b5 b6
  have hhdr := bitsAt_of_hasBits data 3 pos ((if final then 1 else 0) + 4) (by cases final <;> decide) b0
  have h1 := bitsAt_of_hasBits data 5 _ h.hlit (by have := hok.hlit; omega) b1
  have h2 := bitsAt_of_hasBits data 5 _ h.hdist (by have := hok.hdist; omega) b2
  have h3 := bitsAt_of_hasBits data 4 _ (h.cvals.length - 4) (by have := hok.ncl; omega) b3
  have h4 := readClens_enc data h.cvals clenOrder (pos + 3 + 5 + 5 + 4) (Array.replicate 19 0) hok.cv
    hok.ncl.2 b4
  have hcl : CodeOk h.clens := codeValid_ok hok.clenOk
  have hne := encToks_ne_nil h.litLens h.distLens hok.eob.2 toks
  have hsz := b6.le_size hne
  have hclen := csyms_length_le h.clens _ h.csyms #[] hok.csOk
  have htl := toks_length_le h.litLens h.distLens toks (toksOk_len _ _ pre maxDist toks out htok)
  have h5 := readLens_enc h.clens hcl data (h.hlit + 257 + (h.hdist + 1)) h.csyms fuel _ #[] (by omega) hok.csOk b5
  have h6 := decodeTokens_enc h.litLens h.distLens (codeValid_ok hok.litOk) (codeValid_ok hok.distOk) hok.eob pre maxDist data
    toks fuel _ out #[] (by omega) htok b6
  unfold inflateBlock
  rw [hhdr]
  have hbt : ((if final then 1 else 0) + 4) / 2 = 2 := by cases final <;> rfl
  simp only [hbt, ↓reduceIte, Nat.succ_ne_self]
  have e5 : pos + 3 + 5 = pos + 3 + 5 := rfl
  rw [show pos + 3 + 10 = pos + 3 + 5 + 5 by omega, h1, h2, h3]
  dsimp only
  have hts : ¬ ((decide (h.hlit + 257 > 286) || decide (h.hdist + 1 > 30)) = true) := by
    simp only [Bool.or_eq_true, decide_eq_true_eq]
    have := hok.hlit; have := hok.hdist; omega
  rw [if_neg hts]
  have encl : h.cvals.length - 4 + 4 = h.cvals.length := by have := hok.ncl; omega
  rw [show pos + 3 + 14 = pos + 3 + 5 + 5 + 4 by omega, encl, h4]
  dsimp only
  have hcv : codeValid CodeKind.clen (clensFold clenOrder h.cvals (Array.replicate 19 0)) = true := hok.clenOk
  rw [hcv]
  simp only [Bool.not_true, Bool.false_eq_true, ↓reduceIte]
  have h5' : readLens (mkCode (clensFold clenOrder h.cvals (Array.replicate 19 0))) data (h.hlit + 257 + (h.hdist + 1)) fuel
      (pos + 3 + 5 + 5 + 4 + 3 * h.cvals.length) #[] = _ := h5
  rw [h5']
  dsimp only
  have hlo : codeValid CodeKind.litlen ((applyAll #[] h.csyms).extract 0 (h.hlit + 257)) = true := hok.litOk
  have hdo : codeValid CodeKind.dist ((applyAll #[] h.csyms).extract (h.hlit + 257) (h.hlit + 257 + (h.hdist + 1))) = true := hok.distOk
  rw [hlo, hdo]
  simp only [Bool.not_true, Bool.false_eq_true, ↓reduceIte]
  have h6' : decodeTokens pre maxDist (mkCode ((applyAll #[] h.csyms).extract 0 (h.hlit + 257)))
      (mkCode ((applyAll #[] h.csyms).extract (h.hlit + 257) (h.hlit + 257 + (h.hdist + 1)))) data fuel
      (pos + 3 + 5 + 5 + 4 + 3 * h.cvals.length + (encCSyms h.clens h.csyms).length) out #[] = _ := h6
  rw [h6']
  dsimp only
  have e : pos + 3 + 5 + 5 + 4 + 3 * h.cvals.length + (encCSyms h.clens h.csyms).length + (encToks h.litLens h.distLens toks).length =
      pos + ((encDynamic final h toks).bits pos).length := by
    simp only [encDynamic, List.length_append, bitsLE_length, clenFieldBits_length]; omega
  rw [e]
  refine ⟨_, rfl, ?_⟩
  cases final <;> rfl

end Model.Core
