/-
An ENCODER SPECIFICATION for the Huffman-coded part of a DEFLATE block, at the level of bits, and
the proof that the reference decoder inverts it: fields (LSB first), canonical codes (MSB first),
tokens given as symbols + extra-bit values, token sequences with end-of-block. "The stream holds
these bits from position `pos`" is the predicate `HasBits`; no byte packing is involved. Helper lemmas for Props/C10.
-/
import MinizProof.Lemmas.HuffCanon
set_option maxRecDepth 100000
namespace Model.Core
open Spec

/-- the stream holds the bits `bs` (each 0 or 1) from bit position `pos` -/
def HasBits (data : Array UInt8) (pos : Nat) (bs : List Nat) : Prop :=
  ∀ i, i < bs.length → bitAt data (pos + i) = some (bs.getD i 0)

theorem HasBits.append {data : Array UInt8} {pos : Nat} {a b : List Nat} (h : HasBits data pos (a ++ b)) :
    HasBits data pos a ∧ HasBits data (pos + a.length) b := by
  constructor
  · intro i hi
    have := h i (by rw [List.length_append]; omega)
    rw [this]
    simp [List.getD_eq_getElem?_getD, List.getElem?_append_left hi]
  · intro i hi
    have := h (a.length + i) (by rw [List.length_append]; omega)
    rw [Nat.add_assoc, this]
    simp only [List.getD_eq_getElem?_getD]
    rw [List.getElem?_append_right (by omega)]
    simp

/-- `n`-bit field, least significant bit first -/
def bitsLE (v : Nat) : Nat → List Nat
  | 0 => []
  | n + 1 => (v % 2) :: bitsLE (v / 2) n

theorem bitsLE_length (v n : Nat) : (bitsLE v n).length = n := by
  induction n generalizing v with
  | zero => rfl
  | succ n ih => simp [bitsLE, ih]

theorem bitsAt_of_hasBits (data : Array UInt8) : ∀ (n pos v : Nat), v < 2 ^ n → HasBits data pos (bitsLE v n) →
    bitsAt data pos n = some v := by
  intro n
  induction n with
  | zero => intro pos v hv _; simp at hv; subst hv; rfl
  | succ n ih =>
    intro pos v hv h
    unfold bitsAt
    have h0 := h 0 (by simp [bitsLE])
    simp only [Nat.add_zero, bitsLE, List.getD_cons_zero] at h0
    have hrest : HasBits data (pos + 1) (bitsLE (v / 2) n) := by
      intro i hi
      have := h (i + 1) (by simp [bitsLE]; rw [bitsLE_length] at hi; rw [bitsLE_length]; omega)
      rw [show pos + (i + 1) = pos + 1 + i by omega] at this
      rw [this]
      simp [bitsLE]
    rw [h0, ih (pos + 1) (v / 2) (by rw [Nat.pow_succ] at hv; omega) hrest]
    simp only [Option.some.injEq]
    omega

/-- the bits of the canonical code of `s`, in transmission order -/
def codeBits (lens : Array Nat) (s : Nat) : List Nat :=
  (List.range (lens.getD s 0)).map (codeBit (canonCode lens s) (lens.getD s 0))

theorem codeBits_length (lens : Array Nat) (s : Nat) : (codeBits lens s).length = lens.getD s 0 := by
  simp [codeBits]

/-- a usable code: every length at most 15 and the set not over-subscribed (as `Spec.codeValid` demands) -/
structure CodeOk (lens : Array Nat) : Prop where
  le15  : ∀ s, lens.getD s 0 ≤ 15
  kraft : ∃ r, kraftLeft (countLens lens) = some r

theorem decodeSym_of_hasBits (lens : Array Nat) (hok : CodeOk lens) (data : Array UInt8) (pos s : Nat) (hs : s < lens.size)
    (h1 : 1 ≤ lens.getD s 0) (h : HasBits data pos (codeBits lens s)) :
    decodeSym (mkCode lens) data pos = .sym s (pos + lens.getD s 0) := by
  obtain ⟨r, hr⟩ := hok.kraft
  refine (canonical_code_is_decoded lens data pos s r hs hr h1 (hok.le15 s) ?_).1
  intro i hi
  have := h i (by rw [codeBits_length]; exact hi)
  rw [this]
  have hi' : i < (List.range (lens.getD s 0)).length := by rw [List.length_range]; exact hi
  simp only [codeBits, List.getD_eq_getElem?_getD, List.getElem?_map]
  rw [List.getElem?_eq_getElem hi']
  simp

/-- A token as the encoder writes it: a literal byte, or a match given by its length symbol with
    the value of its extra bits and its distance symbol with the value of its extra bits. -/
inductive SymTok
  | lit (b : Nat)
  | copy (ls lx ds dx : Nat)

def SymTok.len : SymTok → Nat
  | .lit _ => 1
  | .copy ls lx _ _ => (lengthBaseExtra ls).1 + lx

def SymTok.dist : SymTok → Nat
  | .lit _ => 0
  | .copy _ _ ds dx => (distBaseExtra ds).1 + dx

def SymTok.token : SymTok → Token
  | .lit b => .lit b.toUInt8
  | t@(.copy _ _ _ _) => .copy t.len t.dist

/-- the token is expressible with the two codes -/
def SymTok.Ok (litLens distLens : Array Nat) : SymTok → Prop
  | .lit b => b < 256 ∧ b < litLens.size ∧ 1 ≤ litLens.getD b 0
  | .copy ls lx ds dx => 257 ≤ ls ∧ ls ≤ 285 ∧ ls < litLens.size ∧ 1 ≤ litLens.getD ls 0 ∧ lx < 2 ^ (lengthBaseExtra ls).2 ∧
      ds ≤ 29 ∧ ds < distLens.size ∧ 1 ≤ distLens.getD ds 0 ∧ dx < 2 ^ (distBaseExtra ds).2

def encTok (litLens distLens : Array Nat) : SymTok → List Nat
  | .lit b => codeBits litLens b
  | .copy ls lx ds dx => codeBits litLens ls ++ (bitsLE lx (lengthBaseExtra ls).2 ++
      (codeBits distLens ds ++ bitsLE dx (distBaseExtra ds).2))

/-- ONE TOKEN: the reference decoder reads back what `encTok` wrote. -/
theorem decodeToken_enc (litLens distLens : Array Nat) (hl : CodeOk litLens) (hd : CodeOk distLens)
    (maxDist : Nat) (data : Array UInt8) (pos avail : Nat) (t : SymTok) (ht : t.Ok litLens distLens)
    (h : HasBits data pos (encTok litLens distLens t)) :
    decodeToken maxDist (mkCode litLens) (mkCode distLens) data pos avail =
      match t with
      | .lit b => .lit b.toUInt8 (pos + (encTok litLens distLens t).length)
      | .copy _ _ _ _ =>
        if t.dist > avail || t.dist > maxDist then .reject .distTooFar
        else .copy t.len t.dist (pos + (encTok litLens distLens t).length) := by
  cases t with
  | lit b =>
    obtain ⟨hb, hsz, h1⟩ := ht
    unfold decodeToken
    rw [decodeSym_of_hasBits litLens hl data pos b hsz h1 h]
    simp only [encTok, codeBits_length]
    rw [if_pos hb]
  | copy ls lx ds dx =>
    obtain ⟨h257, h285, hsz, h1, hlx, h29, hdsz, hd1, hdx⟩ := ht
    unfold encTok at h
    obtain ⟨ha, h2⟩ := h.append
    obtain ⟨hb, h3⟩ := h2.append
    obtain ⟨hc, hdd⟩ := h3.append
    simp only [codeBits_length, bitsLE_length] at hb hc hdd
    unfold decodeToken
    rw [decodeSym_of_hasBits litLens hl data pos ls hsz h1 ha]
    dsimp only
    rw [if_neg (by omega), if_neg (by omega), if_neg (by omega)]
    rw [bitsAt_of_hasBits data _ _ lx hlx hb]
    dsimp only
    rw [decodeSym_of_hasBits distLens hd data _ ds hdsz hd1 hc]
    dsimp only
    rw [if_neg (by omega)]
    rw [bitsAt_of_hasBits data _ _ dx hdx hdd]
    dsimp only
    simp only [SymTok.dist, SymTok.len, encTok, List.length_append, codeBits_length, bitsLE_length]
    have e : pos + litLens.getD ls 0 + (lengthBaseExtra ls).2 + distLens.getD ds 0 + (distBaseExtra ds).2 =
        pos + (litLens.getD ls 0 + ((lengthBaseExtra ls).2 + (distLens.getD ds 0 + (distBaseExtra ds).2))) := by omega
    rw [e]
    rfl

/-- LZ77 expansion of a token sequence appended to `out` -/
def expandToks (pre : Array UInt8) : Array UInt8 → List SymTok → Array UInt8
  | out, [] => out
  | out, .lit b :: ts => expandToks pre (out.push b.toUInt8) ts
  | out, (t@(.copy _ _ _ _)) :: ts => expandToks pre (copyMatch pre out t.dist t.len) ts

/-- every token is expressible and every match reaches back over bytes that exist -/
def ToksOk (litLens distLens : Array Nat) (pre : Array UInt8) (maxDist : Nat) : Array UInt8 → List SymTok → Prop
  | _, [] => True
  | out, .lit b :: ts => (SymTok.lit b).Ok litLens distLens ∧ ToksOk litLens distLens pre maxDist (out.push b.toUInt8) ts
  | out, (t@(.copy _ _ _ _)) :: ts => t.Ok litLens distLens ∧ t.dist ≤ pre.size + out.size ∧ t.dist ≤ maxDist ∧
      ToksOk litLens distLens pre maxDist (copyMatch pre out t.dist t.len) ts

def encToks (litLens distLens : Array Nat) : List SymTok → List Nat
  | [] => codeBits litLens 256
  | t :: ts => encTok litLens distLens t ++ encToks litLens distLens ts

/-- A TOKEN SEQUENCE WITH ITS END-OF-BLOCK CODE: the reference decoder produces the expansion, the
    same tokens, and stops right after the end-of-block code. -/
theorem decodeTokens_enc (litLens distLens : Array Nat) (hl : CodeOk litLens) (hd : CodeOk distLens)
    (h256 : 256 < litLens.size ∧ 1 ≤ litLens.getD 256 0)
    (pre : Array UInt8) (maxDist : Nat) (data : Array UInt8) :
    ∀ (ts : List SymTok) (fuel pos : Nat) (out : Array UInt8) (acc : Array Token), ts.length < fuel →
    ToksOk litLens distLens pre maxDist out ts → HasBits data pos (encToks litLens distLens ts) →
    decodeTokens pre maxDist (mkCode litLens) (mkCode distLens) data fuel pos out acc =
      .accept (pos + (encToks litLens distLens ts).length, expandToks pre out ts, acc ++ (ts.map SymTok.token).toArray) := by
  intro ts
  induction ts with
  | nil =>
    intro fuel pos out acc hf _ h
    obtain ⟨f, rfl⟩ : ∃ f, fuel = f + 1 := ⟨fuel - 1, by simp at hf; omega⟩
    unfold decodeTokens decodeToken
    rw [decodeSym_of_hasBits litLens hl data pos 256 h256.1 h256.2 h]
    simp [encToks, codeBits_length, expandToks]
  | cons t ts ih =>
    intro fuel pos out acc hf hok h
    obtain ⟨f, rfl⟩ : ∃ f, fuel = f + 1 := ⟨fuel - 1, by simp at hf; omega⟩
    obtain ⟨ht, hrest⟩ := HasBits.append (a := encTok litLens distLens t) (b := encToks litLens distLens ts) h
    unfold decodeTokens
    cases t with
    | lit b =>
      obtain ⟨hto, hok'⟩ := hok
      rw [decodeToken_enc litLens distLens hl hd maxDist data pos _ (.lit b) hto ht]
      dsimp only
      rw [ih f _ _ _ (by simp at hf; omega) hok' hrest]
      simp [encToks, expandToks, SymTok.token, Nat.add_assoc]
    | copy ls lx ds dx =>
      obtain ⟨hto, hav, hmd, hok'⟩ := hok
      rw [decodeToken_enc litLens distLens hl hd maxDist data pos _ (.copy ls lx ds dx) hto ht]
      dsimp only
      rw [if_neg (by simp; omega)]
      dsimp only
      rw [ih f _ _ _ (by simp at hf; omega) hok' hrest]
      simp [encToks, expandToks, SymTok.token, Nat.add_assoc]

end Model.Core
