/-
Encoder specification, blocks: static-Huffman blocks, dynamic-Huffman blocks (header with the
code-length code, run-length coded code lengths), sequences of blocks ending in a final one — and the
proof that `Spec.inflateSpec` decodes what they write to exactly the LZ77 expansion of their tokens.
Helper lemmas for Props/C10.
-/
import MinizProof.Lemmas.EncTokens
set_option maxRecDepth 100000
namespace Model.Core
open Spec

theorem HasBits.le_size {data : Array UInt8} {pos : Nat} {bs : List Nat} (h : HasBits data pos bs) (hne : bs ≠ []) :
    pos + bs.length ≤ 8 * data.size := by
  have hl : 0 < bs.length := List.length_pos_iff.mpr hne
  have := h (bs.length - 1) (by omega)
  unfold bitAt at this
  cases hd : data[(pos + (bs.length - 1)) / 8]? with
  | none => rw [hd] at this; exact absurd this (by simp)
  | some b =>
    have hlt : (pos + (bs.length - 1)) / 8 < data.size := by
      have := Array.getElem?_eq_some_iff.mp hd
      exact this.1
    omega

theorem codeValid_ok {k : CodeKind} {lens : Array Nat} (h : codeValid k lens = true) : CodeOk lens := by
  unfold codeValid at h
  simp only [Bool.and_eq_true] at h
  obtain ⟨h15, hk⟩ := h
  refine ⟨fun s => ?_, ?_⟩
  · by_cases hs : s < lens.size
    · have := Array.all_eq_true.mp h15 s hs
      simp only [decide_eq_true_eq] at this
      simp [Array.getD_eq_getD_getElem?, hs, this]
    · simp [Array.getD_eq_getD_getElem?, Nat.not_lt.mp hs]
  · cases hkl : kraftLeft (countLens lens) with
    | none => rw [hkl] at hk; exact absurd hk (by simp)
    | some r => exact ⟨r, rfl⟩

theorem fixedLit_ok : CodeOk fixedLitLens := codeValid_ok (k := .litlen) (by decide +kernel)
theorem fixedDist_ok : CodeOk fixedDistLens := by
  refine ⟨fun s => ?_, ⟨_, (by decide +kernel : kraftLeft (countLens fixedDistLens) = some 0)⟩⟩
  unfold fixedDistLens
  by_cases hs : s < 32
  · simp [Array.getD_eq_getD_getElem?, hs]
  · simp [Array.getD_eq_getD_getElem?, Nat.not_lt.mp hs]

/-- what a block encoder must achieve: from any position and any output so far at which its tokens
    are well-formed, the reference decoder reads the block's bits back as the expansion of its tokens -/
structure EncBlock where
  /-- the block's bits when it starts at bit position `pos` (only stored blocks depend on it: padding) -/
  bits  : Nat → List Nat
  final : Bool
  toks  : List SymTok
  litLens : Array Nat
  distLens : Array Nat

def EncBlock.Decodes (pre : Array UInt8) (maxDist : Nat) (b : EncBlock) : Prop :=
  ∀ (data : Array UInt8) (fuel pos : Nat) (out : Array UInt8), 8 * data.size < fuel + pos →
    ToksOk b.litLens b.distLens pre maxDist out b.toks → HasBits data pos (b.bits pos) →
    ∃ info, inflateBlock pre maxDist data fuel pos out = .accept (pos + (b.bits pos).length, expandToks pre out b.toks, info) ∧
      info.final = b.final

/-- a static-Huffman block -/
def encStatic (final : Bool) (toks : List SymTok) : EncBlock :=
  { bits := fun _ => bitsLE ((if final then 1 else 0) + 2) 3 ++ encToks fixedLitLens fixedDistLens toks,
    final := final, toks := toks, litLens := fixedLitLens, distLens := fixedDistLens }

theorem encToks_ne_nil (litLens distLens : Array Nat) (h : 1 ≤ litLens.getD 256 0) : ∀ ts, encToks litLens distLens ts ≠ [] := by
  intro ts
  induction ts with
  | nil =>
    intro hh
    have := congrArg List.length hh
    rw [show encToks litLens distLens [] = codeBits litLens 256 from rfl, codeBits_length, List.length_nil] at this
    omega
  | cons t ts ih =>
    intro hh
    have : encToks litLens distLens (t :: ts) = encTok litLens distLens t ++ encToks litLens distLens ts := rfl
    rw [this] at hh
    exact ih (List.append_eq_nil_iff.mp hh).2

theorem toks_length_le (litLens distLens : Array Nat) : ∀ ts : List SymTok,
    (∀ t ∈ ts, 1 ≤ (encTok litLens distLens t).length) → ts.length ≤ (encToks litLens distLens ts).length := by
  intro ts
  induction ts with
  | nil => intro _; simp
  | cons t ts ih =>
    intro h
    have : encToks litLens distLens (t :: ts) = encTok litLens distLens t ++ encToks litLens distLens ts := rfl
    rw [this, List.length_append, List.length_cons]
    have h1 := h t (by simp)
    have h2 := ih (fun u hu => h u (by simp [hu]))
    omega

theorem toksOk_len (litLens distLens : Array Nat) (pre : Array UInt8) (maxDist : Nat) : ∀ (ts : List SymTok) (out : Array UInt8),
    ToksOk litLens distLens pre maxDist out ts → ∀ t ∈ ts, 1 ≤ (encTok litLens distLens t).length := by
  intro ts
  induction ts with
  | nil => intro out _ t ht; simp at ht
  | cons u us ih =>
    intro out hok t ht
    cases u with
    | lit b =>
      obtain ⟨ho, hrest⟩ := hok
      rcases List.mem_cons.mp ht with h | h
      · subst h; simp only [encTok, codeBits_length]; exact ho.2.2
      · exact ih _ hrest t h
    | copy ls lx ds dx =>
      obtain ⟨ho, _, _, hrest⟩ := hok
      rcases List.mem_cons.mp ht with h | h
      · subst h; simp only [encTok, List.length_append, codeBits_length]; have := ho.2.2.2.1; omega
      · exact ih _ hrest t h

theorem encStatic_decodes (pre : Array UInt8) (maxDist : Nat) (final : Bool) (toks : List SymTok) :
    (encStatic final toks).Decodes pre maxDist := by
  intro data fuel pos out hfuel hok h
  obtain ⟨hh, ht⟩ := HasBits.append (a := bitsLE ((if final then 1 else 0) + 2) 3) h
  rw [bitsLE_length] at ht
  have hhdr := bitsAt_of_hasBits data 3 pos ((if final then 1 else 0) + 2) (by cases final <;> decide) hh
  have h256 : 256 < fixedLitLens.size ∧ 1 ≤ fixedLitLens.getD 256 0 := by decide +kernel
  have hne := encToks_ne_nil fixedLitLens fixedDistLens h256.2 toks
  have hsz := ht.le_size hne
  have hlen := toks_length_le fixedLitLens fixedDistLens toks (toksOk_len _ _ pre maxDist toks out hok)
  have hdec := decodeTokens_enc fixedLitLens fixedDistLens fixedLit_ok fixedDist_ok h256 pre maxDist data toks fuel (pos + 3) out #[]
    (by omega) hok ht
  unfold inflateBlock
  rw [hhdr]
  have hbt : ((if final then 1 else 0) + 2) / 2 = 1 := by cases final <;> rfl
  simp only [hbt, ↓reduceIte, Nat.reduceEqDiff, Nat.succ_ne_self]
  unfold fixedLitCode fixedDistCode
  rw [hdec]
  dsimp only
  have e : pos + 3 + (encToks fixedLitLens fixedDistLens toks).length = pos + ((encStatic final toks).bits pos).length := by
    simp only [encStatic, List.length_append, bitsLE_length]; omega
  rw [e]
  exact ⟨_, rfl, by cases final <;> simp [encStatic]⟩

/-- LZ77 expansion of a sequence of blocks -/
def expandBlocks (pre : Array UInt8) : Array UInt8 → List EncBlock → Array UInt8
  | out, [] => out
  | out, b :: bs => expandBlocks pre (expandToks pre out b.toks) bs

def blocksBits : Nat → List EncBlock → List Nat
  | _, [] => []
  | pos, b :: bs => b.bits pos ++ blocksBits (pos + (b.bits pos).length) bs

/-- a well-formed stream: every block decodes, has at least one bit, its tokens are well-formed where
    it stands, and exactly the last block is marked final -/
def BlocksOk (pre : Array UInt8) (maxDist : Nat) : Array UInt8 → List EncBlock → Prop
  | _, [] => False
  | out, [b] => b.final = true ∧ (∀ p, b.bits p ≠ []) ∧ b.Decodes pre maxDist ∧ ToksOk b.litLens b.distLens pre maxDist out b.toks
  | out, b :: b' :: rest => b.final = false ∧ (∀ p, b.bits p ≠ []) ∧ b.Decodes pre maxDist ∧
      ToksOk b.litLens b.distLens pre maxDist out b.toks ∧ BlocksOk pre maxDist (expandToks pre out b.toks) (b' :: rest)

/-- A SEQUENCE OF BLOCKS: the reference decoder reads them all, stops after the final one, and has
    produced the expansion. -/
theorem inflateBlocks_enc (pre : Array UInt8) (maxDist : Nat) (data : Array UInt8) :
    ∀ (bs : List EncBlock) (fuel pos : Nat) (out : Array UInt8) (acc : Array BlockInfo), 8 * data.size + 1 < fuel + pos →
    BlocksOk pre maxDist out bs → HasBits data pos (blocksBits pos bs) →
    ∃ infos, inflateBlocks pre maxDist data fuel pos out acc =
      .accept (pos + (blocksBits pos bs).length, expandBlocks pre out bs, infos) := by
  intro bs
  induction bs with
  | nil => intro fuel pos out acc _ h; exact absurd h id
  | cons b rest ih =>
    intro fuel pos out acc hfuel hok h
    obtain ⟨hb, hr⟩ := HasBits.append (a := b.bits pos) (b := blocksBits (pos + (b.bits pos).length) rest) h
    cases rest with
    | nil =>
      obtain ⟨hfin, hne, hdec, htok⟩ := hok
      have hsz := hb.le_size (hne pos)
      obtain ⟨f, rfl⟩ : ∃ f, fuel = f + 1 := ⟨fuel - 1, by omega⟩
      obtain ⟨info, hi, hif⟩ := hdec data f pos out (by omega) htok hb
      unfold inflateBlocks
      rw [hi]
      dsimp only
      rw [hif, hfin]
      simp only [↓reduceIte]
      have e1 : (blocksBits pos [b]).length = (b.bits pos).length := by simp [blocksBits]
      rw [e1]
      exact ⟨_, rfl⟩
    | cons b' rest' =>
      obtain ⟨hfin, hne, hdec, htok, hrest⟩ := hok
      have hsz := hb.le_size (hne pos)
      have hl : 0 < (b.bits pos).length := List.length_pos_iff.mpr (hne pos)
      obtain ⟨f, rfl⟩ : ∃ f, fuel = f + 1 := ⟨fuel - 1, by omega⟩
      obtain ⟨info, hi, hif⟩ := hdec data f pos out (by omega) htok hb
      unfold inflateBlocks
      rw [hi]
      dsimp only
      rw [hif, hfin]
      simp only [Bool.false_eq_true, ↓reduceIte]
      obtain ⟨infos, hrec⟩ := ih f (pos + (b.bits pos).length) (expandToks pre out b.toks) _ (by omega) hrest hr
      rw [hrec]
      have e1 : (blocksBits pos (b :: b' :: rest')).length = (b.bits pos).length + (blocksBits (pos + (b.bits pos).length) (b' :: rest')).length := by
        show (b.bits pos ++ blocksBits (pos + (b.bits pos).length) (b' :: rest')).length = _
        rw [List.length_append]
      rw [e1, Nat.add_assoc]
      exact ⟨_, rfl⟩

/-- THE ENCODER SPECIFICATION IS INVERTED BY THE REFERENCE DECODER: a byte string holding, from its
    first bit, the bits of a well-formed sequence of blocks is accepted by `Spec.inflateSpec` with
    exactly the LZ77 expansion of the blocks' tokens as plaintext and exactly their bits consumed —
    whatever follows. -/
theorem inflateSpec_enc (maxDist : Nat) (data : Array UInt8) (bs : List EncBlock)
    (hok : BlocksOk #[] maxDist #[] bs) (h : HasBits data 0 (blocksBits 0 bs)) :
    ∃ res, inflateSpec #[] maxDist data 0 = .accept res ∧ res.out = expandBlocks #[] #[] bs ∧
      res.bitsUsed = (blocksBits 0 bs).length := by
  obtain ⟨infos, hi⟩ := inflateBlocks_enc #[] maxDist data bs (fuelFor data) 0 #[] #[] (by unfold fuelFor; omega) hok h
  unfold inflateSpec
  rw [hi]
  exact ⟨_, rfl, rfl, by simp⟩

end Model.Core
