/-
Facts about the specification's canonical codes: a decoded symbol is an index into the length array.
-/
import MinizProof.Spec.Inflate
namespace Spec

theorem sortedSyms_foldl_lt (lens : Array Nat) (len : Nat) : ∀ (l : List Nat) (acc : Array Nat),
    (∀ x ∈ l, x < lens.size) → (∀ x ∈ acc.toList, x < lens.size) →
    ∀ x ∈ (l.foldl (fun a s => if lens.getD s 0 = len then a.push s else a) acc).toList, x < lens.size := by
  intro l
  induction l with
  | nil => intro acc _ h; exact h
  | cons s l ih =>
    intro acc hl hacc
    simp only [List.foldl_cons]
    apply ih
    · intro x hx; exact hl x (List.mem_cons_of_mem _ hx)
    · intro x hx
      split at hx
      · simp only [Array.toList_push, List.mem_append, List.mem_singleton] at hx
        rcases hx with hx | hx
        · exact hacc x hx
        · rw [hx]; exact hl s (List.mem_cons_self ..)
      · exact hacc x hx

theorem sortedSymsAux_lt (lens : Array Nat) : ∀ (fuel len : Nat) (acc : Array Nat),
    (∀ x ∈ acc.toList, x < lens.size) → ∀ x ∈ (sortedSymsAux lens fuel len acc).toList, x < lens.size := by
  intro fuel
  induction fuel with
  | zero => intro len acc h; exact h
  | succ fuel ih =>
    intro len acc h
    unfold sortedSymsAux
    apply ih
    exact sortedSyms_foldl_lt lens len _ acc (fun x hx => List.mem_range.mp hx) h

theorem decodeSymAux_mem (c : Code) (data : Array UInt8) : ∀ (fuel len pos code first index s p : Nat),
    decodeSymAux c data fuel len pos code first index = .sym s p → s = 0 ∨ s ∈ c.syms.toList := by
  intro fuel
  induction fuel with
  | zero => intro len pos code first index s p h; simp [decodeSymAux] at h
  | succ fuel ih =>
    intro len pos code first index s p h
    unfold decodeSymAux at h
    split at h
    · simp at h
    · cases hb : bitAt data pos with
      | none => simp [hb] at h
      | some b =>
        simp only [hb] at h
        split at h
        · simp only [SymResult.sym.injEq] at h
          rw [← h.1, Array.getD_eq_getD_getElem?]
          cases hg : c.syms[index + (code + b - first)]? with
          | none => left; rfl
          | some v =>
            right
            simp only [Option.getD_some]
            have := Array.mem_of_getElem? hg
            exact Array.mem_toList_iff.mpr this
        · exact ih _ _ _ _ _ _ _ h

/-- A symbol decoded with the canonical code of `lens` is an index into `lens`. -/
theorem decodeSym_lt {lens : Array Nat} {data : Array UInt8} {pos s p : Nat} (h0 : 0 < lens.size)
    (h : decodeSym (mkCode lens) data pos = .sym s p) : s < lens.size := by
  rcases decodeSymAux_mem _ _ _ _ _ _ _ _ _ _ h with h | h
  · omega
  · exact sortedSymsAux_lt lens 15 1 #[] (by simp) s h

end Spec
