/-
Two consecutive calls of `Model.Core.decompress` against the single call, at the level of call
results: the epilogue (give-back of read-ahead bytes, status override, per-call Adler-32, trailer
comparison) of the re-based run, and the composition theorem `decompress_resume`.
No property statements here (see Props/C07).
-/
import MinizProof.Lemmas.CoreCalls
import MinizProof.Props.C16
set_option maxRecDepth 100000
namespace Model.Core
open Spec

theorem extract_frame (o1 o2 : Array UInt8) (pos m : Nat) (hs : o2.size = o1.size)
    (hfr : ∀ i, i < m → o2[i]? = o1[i]?) : o2.extract pos m = o1.extract pos m := by
  apply Array.ext_getElem?
  intro i
  rw [Array.getElem?_extract, Array.getElem?_extract, hs]
  split
  · exact hfr _ (by omega)
  · rfl

theorem extract_cat (o : Array UInt8) (pos m e : Nat) (h1 : pos ≤ m) (h2 : m ≤ e) :
    o.extract pos e = o.extract pos m ++ o.extract m e := by
  rw [Array.extract_append_extract, Nat.min_eq_left h1, Nat.max_eq_right h2]

theorem exitUndo_zero {st : Int} {c : Ctx} {flags : Nat} (h : st = endOfInput flags ∨ Q c) : exitUndo st c = 0 := by
  unfold exitUndo
  rcases h with h | h
  · rw [h]
    unfold endOfInput
    split <;> simp
  · unfold Q at h
    split
    · rfl
    · omega

/-- The epilogue over the re-based final context of the single call against the epilogue of the
    second call. `m`: where the second call started writing; `y`: the checksum register the first
    call started from; the second call's register holds the first call's contribution. -/
theorem epilogue_rebase (flags pos m E : Nat) (st : Int) (c2 : Ctx) (out1 out2 : Array UInt8) (k y : Nat)
    (hpm : pos ≤ m) (hm : m ≤ c2.outPos) (hs : out2.size = out1.size)
    (hfr : ∀ i, i < m → out2[i]? = out1[i]?)
    (hchk : c2.r.checkAdler32 = if needAdler flags then adler32 y (out1.extract pos m).toList else y)
    (hq : st = endOfInput flags ∨ Q c2) :
    (epilogue flags pos E st (T k y c2) out2).status = (epilogue flags m E st c2 out2).status ∧
    (epilogue flags pos E st (T k y c2) out2).out = (epilogue flags m E st c2 out2).out ∧
    (epilogue flags pos E st (T k y c2) out2).written = (m - pos) + (epilogue flags m E st c2 out2).written ∧
    (epilogue flags pos E st (T k y c2) out2).consumed = k + (epilogue flags m E st c2 out2).consumed ∧
    ((0 ≤ exitStatus st c2 E ∨ needAdler flags = false) →
      (epilogue flags pos E st (T k y c2) out2).r = (epilogue flags m E st c2 out2).r) := by
  have hu : exitUndo st c2 = 0 := exitUndo_zero hq
  have hu' : exitUndo st (T k y c2) = 0 := exitUndo_zero (flags := flags) (hq.elim Or.inl fun h => Or.inr h)
  have hst : exitStatus st (T k y c2) E = exitStatus st c2 E := rfl
  have hregs : exitRegs st (T k y c2) = { exitRegs st c2 with checkAdler32 := y } := by
    unfold exitRegs
    rw [hu, hu']
    rfl
  have hcat : (out2.extract pos c2.outPos).toList = (out1.extract pos m).toList ++ (out2.extract m c2.outPos).toList := by
    rw [extract_cat out2 pos m c2.outPos hpm hm, extract_frame out1 out2 pos m hs hfr, Array.toList_append]
  refine ⟨?_, by simp, by simp; omega, by simp [hu, hu'], ?_⟩
  · unfold epilogue
    dsimp only
    rw [hst, hregs]
    by_cases hn : (needAdler flags && decide (exitStatus st c2 E ≥ 0)) = true
    · rw [if_pos hn, if_pos hn]
      have hna : needAdler flags = true := by
        simp only [Bool.and_eq_true] at hn; exact hn.1
      have hc2 : (exitRegs st c2).checkAdler32 = adler32 y (out1.extract pos m).toList := by
        show c2.r.checkAdler32 = _
        rw [hchk, if_pos hna]
      dsimp only
      rw [hc2, C16.adler32_append, ← hcat]
    · rw [if_neg hn, if_neg hn]
  · intro hcond
    unfold epilogue
    dsimp only
    rw [hst, hregs]
    by_cases hn : (needAdler flags && decide (exitStatus st c2 E ≥ 0)) = true
    · rw [if_pos hn, if_pos hn]
      have hna : needAdler flags = true := by
        simp only [Bool.and_eq_true] at hn; exact hn.1
      have hc2 : (exitRegs st c2).checkAdler32 = adler32 y (out1.extract pos m).toList := by
        show c2.r.checkAdler32 = _
        rw [hchk, if_pos hna]
      dsimp only
      rw [hc2, C16.adler32_append, ← hcat]
    · rw [if_neg hn, if_neg hn]
      dsimp only
      have hna : needAdler flags = false := by
        rcases hcond with h | h
        · simp only [Bool.and_eq_true, decide_eq_true_eq, not_and] at hn
          by_cases hq : needAdler flags = true
          · exact absurd h (hn hq)
          · simpa using hq
        · exact h
      have : (exitRegs st c2).checkAdler32 = y := by
        show c2.r.checkAdler32 = y
        rw [hchk, hna]; rfl
      rw [← this]

theorem callRun_adv (r : Regs) (inp out : Array UInt8) (outPos budget flags : Nat)
    (hg : badGeometry flags out.size outPos = false) :
    Adv (callEnv inp out outPos budget flags) { r := r, inPos := 0, outPos := outPos } out
      (callRun r inp out outPos budget flags).2.1 (callRun r inp out outPos budget flags).2.2 :=
  (run_ok (callEnv inp out outPos budget flags) _ { r := r, inPos := 0, outPos := outPos } out (callGeo hg)).1

theorem exitStatus_failed (c : Ctx) (E : Nat) : exitStatus stFailed c E < 0 := by
  unfold exitStatus
  have : (stFailed == stNeedsMoreInput) = false := by decide
  rw [this]
  simp only [Bool.false_and, Bool.false_eq_true, ↓reduceIte]
  decide

theorem exitRegs_tight {st : Int} {c : Ctx} (hB : B c) (hu : exitUndo st c = 0) (hbb : st ≠ stBlockBoundary) :
    exitRegs st c = c.r := by
  unfold exitRegs exitState
  rw [hu]
  have : (st == stBlockBoundary) = false := by simpa using hbb
  rw [this]
  show ({ c.r with numBits := c.r.numBits - 8 * 0, bitBuf := c.r.bitBuf % 2 ^ (c.r.numBits - 8 * 0), state := c.r.state } : Regs) = c.r
  rw [Nat.mul_zero, Nat.sub_zero, Nat.mod_eq_of_lt hB]

/-- an epilogue that reports "needs more input" or "has more output" was handed one of the two
    suspending statuses by the automaton -/
theorem raw_of_status (flags : Nat) {pos E : Nat} {st : Int} {c : Ctx} {out : Array UInt8} (e : Env)
    (he : e.eoi = endOfInput flags) (hf : FinOK e st c)
    (hs : (epilogue flags pos E st c out).status = stNeedsMoreInput ∨
          (epilogue flags pos E st c out).status = stHasMoreOutput) :
    (st = endOfInput flags ∨ st = stHasMoreOutput) ∧ (epilogue flags pos E st c out).status = exitStatus st c E := by
  have hes : (epilogue flags pos E st c out).status = exitStatus st c E := by
    rcases epilogue_status flags pos E st c out with h | ⟨h, _⟩
    · exact h
    · rcases hs with hs | hs <;> (rw [h] at hs; exact absurd hs (by decide))
  refine ⟨?_, hes⟩
  rw [hes] at hs
  have hst : st = stNeedsMoreInput ∨ st = stHasMoreOutput := by
    unfold exitStatus at hs
    split at hs
    · rename_i h
      simp only [Bool.and_eq_true, beq_iff_eq] at h
      exact Or.inl h.1.1
    · exact hs
  rcases hst with hst | hst
  · left
    rcases hf with h | h | h | h | h
    · rw [hst] at h; exact absurd h.1 (by decide)
    · rw [← he]; exact h.1
    · rw [hst] at h; exact absurd h.1 (by decide)
    · rw [hst] at h; exact absurd h.1 (by decide)
    · rw [hst] at h; exact absurd h.1 (by decide)
  · exact Or.inr hst

/-- TWO CALLS AGAINST ONE. `res1`: a call on `a` that reports "needs more input" or "has more
    output"; `res2`: the next call, on the unconsumed rest of `a` followed by `b`, writing where the
    first stopped, with a window that ends no earlier; `res`: the single call on `a ++ b` with that
    final window. Same status, same buffer, written counts add up; unless the stream fails, consumed
    counts add up; unless it fails or is truncated without the more-input flag, the registers agree. -/
theorem decompress_resume (r : Regs) (a b out : Array UInt8) (pos budget1 budget2 flags : Nat)
    (hb : Bnd r) (hg : badGeometry flags out.size pos = false)
    (hs : (decompress r a out pos budget1 flags).status = stNeedsMoreInput ∨
          (decompress r a out pos budget1 flags).status = stHasMoreOutput)
    (hbud : budget1 ≤ (decompress r a out pos budget1 flags).written + budget2) :
    let res1 := decompress r a out pos budget1 flags
    let res2 := decompress res1.r (a.extract res1.consumed a.size ++ b) res1.out (pos + res1.written) budget2 flags
    let res := decompress r (a ++ b) out pos (res1.written + budget2) flags
    res.status = res2.status ∧ res.out = res2.out ∧ res.written = res1.written + res2.written ∧
    (res.status ≠ stFailed → res.consumed = res1.consumed + res2.consumed) ∧
    (res.status ≠ stFailed → res.status ≠ stFailedCannotMakeProgress → res.r = res2.r) ∧
    Bnd res1.r ∧
    (res2.status = stNeedsMoreInput ∨ res2.status = stHasMoreOutput → Bnd res2.r) := by
  intro res1 res2 res
  -- the first call
  have hres1 : res1 = epilogue flags pos (min (pos + budget1) out.size) (callRun r a out pos budget1 flags).1
      (callRun r a out pos budget1 flags).2.1 (callRun r a out pos budget1 flags).2.2 := decompress_eq r a out pos budget1 flags hg
  have hfin1 := decompress_run_total r a out pos budget1 flags hg
  generalize hR1 : callRun r a out pos budget1 flags = R1 at hres1
  obtain ⟨st1, c1, out1⟩ := R1
  have hfin1' : FinOK (callEnv a out pos budget1 flags) st1 c1 := by
    have : FinOK (callEnv a out pos budget1 flags) (callRun r a out pos budget1 flags).1 (callRun r a out pos budget1 flags).2.1 := hfin1
    rw [hR1] at this; exact this
  dsimp only at hres1
  have hs' : res1.status = stNeedsMoreInput ∨ res1.status = stHasMoreOutput := hs
  rw [hres1] at hs'
  obtain ⟨hst, hes1⟩ := raw_of_status flags (callEnv a out pos budget1 flags) rfl hfin1' hs'
  have hw1 : res1.written = c1.outPos - pos := by rw [hres1]; simp
  have hE : min (pos + budget1) out.size ≤ min (c1.outPos + budget2) out.size := by
    have hb' : budget1 ≤ res1.written + budget2 := hbud
    have hmono : pos ≤ c1.outPos := by
      have := (callRun_adv r a out pos budget1 flags hg).mono
      rw [hR1] at this; exact this
    rw [hw1] at hb'
    omega
  obtain ⟨hsz, hmono, hk, hgeo2, hq1, hO, hchk2, hri2⟩ :=
    calls_compose r a b out pos budget1 budget2 flags res1.r.checkAdler32 hb hg st1 c1 out1 hR1 hst hE
  have hB1 : B c1 := hq1.elim (fun h => h.1.1) (fun h => h.2.1)
  have hu1 : exitUndo st1 c1 = 0 := exitUndo_zero (flags := flags) (hq1.elim (fun h => Or.inr h.2) (fun h => Or.inl h.1))
  have hbb1 : st1 ≠ stBlockBoundary := by
    rcases hst with h | h
    · rw [h]; unfold endOfInput; split <;> decide
    · rw [h]; decide
  have hx1 : exitRegs st1 c1 = c1.r := exitRegs_tight hB1 hu1 hbb1
  have hst1ge : 0 ≤ exitStatus st1 c1 (min (pos + budget1) out.size) := by
    rw [← hes1]
    rcases hs' with h | h <;> (rw [h]; decide)
  have hc1 : res1.consumed = c1.inPos := by rw [hres1]; simp [hu1]
  have ho1 : res1.out = out1 := by rw [hres1]; simp
  have hr1 : res1.r = { c1.r with checkAdler32 := res1.r.checkAdler32 } ∧
      res1.r.checkAdler32 = (if needAdler flags then adler32 c1.r.checkAdler32 (out1.extract pos c1.outPos).toList
        else c1.r.checkAdler32) := by
    rw [hres1]
    unfold epilogue
    dsimp only
    rw [hx1]
    by_cases hna : needAdler flags = true
    · have : (needAdler flags && decide (exitStatus st1 c1 (min (pos + budget1) out.size) ≥ 0)) = true := by
        simp [hna, hst1ge]
      rw [if_pos this, if_pos hna]
      exact ⟨rfl, rfl⟩
    · have hna' : needAdler flags = false := by simpa using hna
      have : ¬ (needAdler flags && decide (exitStatus st1 c1 (min (pos + budget1) out.size) ≥ 0)) = true := by
        simp [hna']
      rw [if_neg this, hna']
      exact ⟨rfl, rfl⟩
  -- the second call and the single call as epilogues of their runs
  have hpw : pos + res1.written = c1.outPos := by rw [hw1]; omega
  have hres2 : res2 = decompress { c1.r with checkAdler32 := res1.r.checkAdler32 }
      (a.extract c1.inPos a.size ++ b) out1 c1.outPos budget2 flags := by
    show decompress res1.r (a.extract res1.consumed a.size ++ b) res1.out (pos + res1.written) budget2 flags = _
    rw [hc1, ho1, hpw, ← hr1.1]
  rw [decompress_eq _ _ _ _ _ _ hgeo2] at hres2
  have hres : res = decompress r (a ++ b) out pos (c1.outPos - pos + budget2) flags := by
    show decompress r (a ++ b) out pos (res1.written + budget2) flags = _
    rw [hw1]
  rw [decompress_eq _ _ _ _ _ _ hg, hO] at hres
  dsimp only at hres
  generalize hR2 : callRun { c1.r with checkAdler32 := res1.r.checkAdler32 } (a.extract c1.inPos a.size ++ b) out1
    c1.outPos budget2 flags = R2 at hres hres2 hchk2 hri2
  obtain ⟨st2, c2, out2⟩ := R2
  dsimp only at hres hres2 hchk2 hri2
  have hEO : min (pos + (c1.outPos - pos + budget2)) out.size = min (c1.outPos + budget2) out1.size := by
    rw [hsz]; congr 1; omega
  rw [hEO] at hres
  -- geometry of the second run
  have hadv2 := callRun_adv { c1.r with checkAdler32 := res1.r.checkAdler32 } (a.extract c1.inPos a.size ++ b) out1
    c1.outPos budget2 flags hgeo2
  rw [hR2] at hadv2
  have hm2 : c1.outPos ≤ c2.outPos := hadv2.mono
  have hs2 : out2.size = out1.size := hadv2.frame.1
  have hfr2 : ∀ i, i < c1.outPos → out2[i]? = out1[i]? := fun i hi => hadv2.frame.2 i (Or.inl hi)
  obtain ⟨⟨hBC2, hZ2, hdisj2⟩, hns2⟩ := hri2
  have hBnd1 : Bnd res1.r := by
    rw [hr1.1]
    have hd : Q c1 ∨ Hungry c1 := by
      rcases hq1 with h | h
      · exact Or.inl h.2
      · -- starved: what the run of the first call left
        have hne1 : st1 ≠ stModelError := finOK_ne_modelError hfin1'
        obtain ⟨⟨_, _, hd⟩, _⟩ := run_I _ _ _ out (callGeo hg) (hb.toI 0 pos) st1 c1 out1 hR1 hne1
        rcases hd with ⟨_, hd⟩ | ⟨hne, _⟩
        · exact hd
        · exact absurd h.1 hne
    have hrun1 := run_I _ _ _ out (callGeo hg) (hb.toI 0 pos) st1 c1 out1 hR1 (finOK_ne_modelError hfin1')
    exact ⟨hrun1.1.1, hrun1.1.2.1, hd.elim Or.inl fun h => Or.inr (Or.inl h)⟩
  by_cases hF : st2 = stFailed
  · -- a failed stream: status, buffer and written count only
    have e1 : res.status = stFailed := by
      rw [hres, hF, epilogue_status_neg _ _ _ _ _ _ (exitStatus_failed _ _)]
      unfold exitStatus
      have : (stFailed == stNeedsMoreInput) = false := by decide
      rw [this]; rfl
    have e2 : res2.status = stFailed := by
      rw [hres2, hF, epilogue_status_neg _ _ _ _ _ _ (exitStatus_failed _ _)]
      unfold exitStatus
      have : (stFailed == stNeedsMoreInput) = false := by decide
      rw [this]; rfl
    refine ⟨by rw [e1, e2], by rw [hres, hres2]; simp, by rw [hres, hres2, hw1]; simp; omega,
      fun h => absurd e1 h, fun h => absurd e1 h, hBnd1, fun h => ?_⟩
    rw [e2] at h
    rcases h with h | h <;> exact absurd h (by decide)
  · have hq2 : st2 = endOfInput flags ∨ Q c2 := by
      rcases hdisj2 with ⟨he, _⟩ | ⟨_, h⟩
      · exact Or.inl he
      · exact h.elim Or.inr fun h => absurd h hF
    have hreb := epilogue_rebase flags pos c1.outPos (min (c1.outPos + budget2) out1.size) st2 c2 out1 out2
      c1.inPos c1.r.checkAdler32 hmono hm2 hs2 hfr2 (by rw [hchk2]; exact hr1.2) hq2
    rw [← hres, ← hres2] at hreb
    obtain ⟨a1, a2, a3, a4, a5⟩ := hreb
    have hstat2 := epilogue_status flags c1.outPos (min (c1.outPos + budget2) out1.size) st2 c2 out2
    rw [← hres2] at hstat2
    refine ⟨a1, a2, by rw [a3, hw1], fun _ => by rw [a4, hc1], ?_, hBnd1, ?_⟩
    · intro hnf hnp
      apply a5
      -- the status is not one of the two failures, so the exit status is not negative
      rcases hstat2 with h | ⟨_, h⟩
      · left
        rw [← h, ← a1]
        have hcases : st2 = endOfInput flags ∨ st2 = stHasMoreOutput ∨ st2 = stDone ∨ st2 = stBlockBoundary := by
          have hf2 := decompress_run_total { c1.r with checkAdler32 := res1.r.checkAdler32 }
            (a.extract c1.inPos a.size ++ b) out1 c1.outPos budget2 flags hgeo2
          have : FinOK (callEnv (a.extract c1.inPos a.size ++ b) out1 c1.outPos budget2 flags) st2 c2 := by
            have h0 : FinOK (callEnv (a.extract c1.inPos a.size ++ b) out1 c1.outPos budget2 flags)
              (callRun { c1.r with checkAdler32 := res1.r.checkAdler32 } (a.extract c1.inPos a.size ++ b) out1 c1.outPos budget2 flags).1
              (callRun { c1.r with checkAdler32 := res1.r.checkAdler32 } (a.extract c1.inPos a.size ++ b) out1 c1.outPos budget2 flags).2.1 := hf2
            rw [hR2] at h0; exact h0
          rcases this with h | h | h | h | h
          · exact Or.inr (Or.inl h.1)
          · exact Or.inl h.1
          · exact Or.inr (Or.inr (Or.inl h.1))
          · exact absurd h.1 hF
          · exact Or.inr (Or.inr (Or.inr h.1))
        -- res.status = exitStatus st2 c2 …; rule the two failures out
        have hres_status : res.status = exitStatus st2 c2 (min (c1.outPos + budget2) out1.size) := by rw [a1, h]
        rw [hres_status] at hnf hnp ⊢
        unfold exitStatus at hnf hnp ⊢
        split
        · decide
        · rename_i hno
          rw [if_neg hno] at hnf hnp
          rcases hcases with h | h | h | h
          · rw [h] at hnp ⊢
            unfold endOfInput at hnp ⊢
            split
            · decide
            · rename_i hh; rw [if_neg hh] at hnp; exact absurd rfl hnp
          · rw [h]; decide
          · rw [h]; decide
          · rw [h]; decide
      · left; rw [h]; decide
    · intro hcont
      -- the second call suspended: its registers keep the discipline
      have hes2 := (raw_of_status flags (callEnv (a.extract c1.inPos a.size ++ b) out1 c1.outPos budget2 flags) rfl
        (by
          have hf2 := decompress_run_total { c1.r with checkAdler32 := res1.r.checkAdler32 }
            (a.extract c1.inPos a.size ++ b) out1 c1.outPos budget2 flags hgeo2
          have h0 : FinOK (callEnv (a.extract c1.inPos a.size ++ b) out1 c1.outPos budget2 flags)
            (callRun { c1.r with checkAdler32 := res1.r.checkAdler32 } (a.extract c1.inPos a.size ++ b) out1 c1.outPos budget2 flags).1
            (callRun { c1.r with checkAdler32 := res1.r.checkAdler32 } (a.extract c1.inPos a.size ++ b) out1 c1.outPos budget2 flags).2.1 := hf2
          rw [hR2] at h0; exact h0)
        (by rw [← hres2]; exact hcont))
      obtain ⟨hst2', _⟩ := hes2
      have hst2 : st2 = endOfInput flags ∨ st2 = stHasMoreOutput := hst2'
      have hd2 : Q c2 ∨ Hungry c2 := by
        rcases hdisj2 with ⟨_, h⟩ | ⟨hne, h⟩
        · exact h
        · rcases hst2 with h2 | h2
          · exact absurd h2 hne
          · exact Or.inl (h.elim id fun h => absurd h hF)
      have hu2 : exitUndo st2 c2 = 0 := exitUndo_zero hq2
      have hbb2 : st2 ≠ stBlockBoundary := by
        rcases hst2 with h | h
        · rw [h]; unfold endOfInput; split <;> decide
        · rw [h]; decide
      have hx2 : exitRegs st2 c2 = c2.r := exitRegs_tight hBC2.1 hu2 hbb2
      have : ∃ x, res2.r = { c2.r with checkAdler32 := x } := by
        rw [hres2]
        unfold epilogue
        dsimp only
        rw [hx2]
        split
        · exact ⟨_, rfl⟩
        · exact ⟨c2.r.checkAdler32, rfl⟩
      obtain ⟨x, hx⟩ := this
      rw [hx]
      exact ⟨hBC2, hZ2, hd2.elim Or.inl fun h => Or.inr (Or.inl h)⟩

/-- a suspended call leaves registers that keep the buffer discipline -/
theorem decompress_bnd (r : Regs) (a out : Array UInt8) (pos budget flags : Nat)
    (hb : Bnd r) (hg : badGeometry flags out.size pos = false)
    (hs : (decompress r a out pos budget flags).status = stNeedsMoreInput ∨
          (decompress r a out pos budget flags).status = stHasMoreOutput) :
    Bnd (decompress r a out pos budget flags).r :=
  (decompress_resume r a #[] out pos budget budget flags hb hg hs (Nat.le_add_left _ _)).2.2.2.2.2.1

/-! ### Any number of calls -/

/-- A driver's sequence of calls: each call is offered the bytes the previous call left unconsumed
    followed by a new chunk, writes where the previous call stopped, and may fill the buffer up to
    `pos0 + g` (`g`: the total output grant so far, counted from the first call's position). -/
def runCalls (flags pos0 : Nat) : Regs → Array UInt8 → Nat → Array UInt8 → List (Array UInt8 × Nat) → List Res
  | _, _, _, _, [] => []
  | r, out, pos, carry, (chunk, g) :: rest =>
    let res := decompress r (carry ++ chunk) out pos (pos0 + g - pos) flags
    res :: runCalls flags pos0 res.r res.out (pos + res.written)
      ((carry ++ chunk).extract res.consumed (carry ++ chunk).size) rest

def catChunks : List (Array UInt8 × Nat) → Array UInt8
  | [] => #[]
  | (chunk, _) :: rest => chunk ++ catChunks rest

def lastGrant : List (Array UInt8 × Nat) → Nat
  | [] => 0
  | [(_, g)] => g
  | _ :: c :: rest => lastGrant (c :: rest)

def sumWritten (rs : List Res) : Nat := (rs.map (·.written)).sum
def sumConsumed (rs : List Res) : Nat := (rs.map (·.consumed)).sum

def suspended (res : Res) : Prop := res.status = stNeedsMoreInput ∨ res.status = stHasMoreOutput

/-- grants never shrink -/
def grantsMono : List (Array UInt8 × Nat) → Prop
  | [] => True
  | [_] => True
  | (_, g1) :: (c2, g2) :: rest => g1 ≤ g2 ∧ grantsMono ((c2, g2) :: rest)

theorem grantsMono_head_le_last : ∀ (calls : List (Array UInt8 × Nat)) (c : Array UInt8) (g : Nat),
    grantsMono ((c, g) :: calls) → g ≤ lastGrant ((c, g) :: calls) := by
  intro calls
  induction calls with
  | nil => intro c g _; exact Nat.le_refl _
  | cons hd tl ih =>
    intro c g h
    obtain ⟨c2, g2⟩ := hd
    exact Nat.le_trans h.1 (ih c2 g2 h.2)

/-- ANY NUMBER OF CALLS AGAINST ONE. If every call but the last reports "needs more input" or "has
    more output", the last call's result is the result of the single call on all the input offered,
    with the final grant: same status, same buffer; the written counts add up; unless the stream
    fails the consumed counts add up; unless it fails or is truncated without the more-input flag the
    registers agree. -/
theorem runCalls_last (flags pos0 : Nat) : ∀ (calls : List (Array UInt8 × Nat)) (r : Regs) (out : Array UInt8)
    (pos : Nat) (carry : Array UInt8) (c : Array UInt8) (g : Nat),
    Bnd r → badGeometry flags out.size pos = false → grantsMono ((c, g) :: calls) →
    (∀ res ∈ (runCalls flags pos0 r out pos carry ((c, g) :: calls)).dropLast, suspended res) →
    ∀ last, (runCalls flags pos0 r out pos carry ((c, g) :: calls)).getLast? = some last →
    let one := decompress r (carry ++ catChunks ((c, g) :: calls)) out pos (pos0 + lastGrant ((c, g) :: calls) - pos) flags
    one.status = last.status ∧ one.out = last.out ∧
    one.written = sumWritten (runCalls flags pos0 r out pos carry ((c, g) :: calls)) ∧
    (one.status ≠ stFailed → one.consumed = sumConsumed (runCalls flags pos0 r out pos carry ((c, g) :: calls))) ∧
    (one.status ≠ stFailed → one.status ≠ stFailedCannotMakeProgress → one.r = last.r) := by
  intro calls
  induction calls with
  | nil =>
    intro r out pos carry c g _ _ _ _ last hlast
    simp only [runCalls, List.getLast?_singleton, Option.some.injEq] at hlast
    subst hlast
    have hc : carry ++ catChunks [(c, g)] = carry ++ c := by simp [catChunks]
    rw [hc]
    refine ⟨rfl, rfl, ?_, fun _ => ?_, fun _ _ => rfl⟩
    · simp [runCalls, sumWritten, lastGrant]
    · simp [runCalls, sumConsumed, lastGrant]
  | cons hd tl ih =>
    intro r out pos carry c g hb hg hmono hsus last hlast
    obtain ⟨c2, g2⟩ := hd
    -- the first call is not the last one: it is suspended
    have hrc : runCalls flags pos0 r out pos carry ((c, g) :: (c2, g2) :: tl) =
        decompress r (carry ++ c) out pos (pos0 + g - pos) flags ::
          runCalls flags pos0 (decompress r (carry ++ c) out pos (pos0 + g - pos) flags).r
            (decompress r (carry ++ c) out pos (pos0 + g - pos) flags).out
            (pos + (decompress r (carry ++ c) out pos (pos0 + g - pos) flags).written)
            ((carry ++ c).extract (decompress r (carry ++ c) out pos (pos0 + g - pos) flags).consumed (carry ++ c).size)
            ((c2, g2) :: tl) := rfl
    generalize hres1 : decompress r (carry ++ c) out pos (pos0 + g - pos) flags = res1 at hrc
    have hne : runCalls flags pos0 res1.r res1.out (pos + res1.written)
        ((carry ++ c).extract res1.consumed (carry ++ c).size) ((c2, g2) :: tl) ≠ [] := by
      simp [runCalls]
    have hs1 : suspended res1 := by
      apply hsus
      rw [hrc, List.dropLast_cons_of_ne_nil hne]
      exact List.mem_cons_self
    have hsus' : ∀ res ∈ (runCalls flags pos0 res1.r res1.out (pos + res1.written)
        ((carry ++ c).extract res1.consumed (carry ++ c).size) ((c2, g2) :: tl)).dropLast, suspended res := by
      intro res hmem
      apply hsus
      rw [hrc, List.dropLast_cons_of_ne_nil hne]
      exact List.mem_cons_of_mem _ hmem
    have hlast' : (runCalls flags pos0 res1.r res1.out (pos + res1.written)
        ((carry ++ c).extract res1.consumed (carry ++ c).size) ((c2, g2) :: tl)).getLast? = some last := by
      obtain ⟨x, xs, hx⟩ := List.exists_cons_of_ne_nil hne
      rw [hrc, hx, List.getLast?_cons_cons] at hlast
      rw [hx]; exact hlast
    -- the two-call theorem, second "call" = the single call that stands for all later calls
    have hgl : g ≤ lastGrant ((c2, g2) :: tl) := Nat.le_trans hmono.1 (grantsMono_head_le_last tl c2 g2 hmono.2)
    have hfacts := decompress_facts r (carry ++ c) out pos (pos0 + g - pos) flags
    rw [hres1] at hfacts
    have hwb : res1.written ≤ pos0 + g - pos := hfacts.wBudget
    have hres := decompress_resume r (carry ++ c) (catChunks ((c2, g2) :: tl)) out pos (pos0 + g - pos)
      (pos0 + lastGrant ((c2, g2) :: tl) - (pos + res1.written)) flags hb hg (by rw [hres1]; exact hs1)
      (by rw [hres1]; omega)
    rw [hres1] at hres
    dsimp only at hres
    obtain ⟨e1, e2, e3, e4, e5, hb1, _⟩ := hres
    have hg1 : badGeometry flags res1.out.size (pos + res1.written) = false := by
      have hroom := hfacts.room
      simp only [badGeometry, Bool.or_eq_false_iff, decide_eq_false_iff_not, Nat.not_lt] at hg ⊢
      rw [hfacts.size]
      exact ⟨hg.1, by omega⟩
    have hIH := ih res1.r res1.out (pos + res1.written) ((carry ++ c).extract res1.consumed (carry ++ c).size)
      c2 g2 hb1 hg1 hmono.2 hsus' last hlast'
    dsimp only at hIH
    obtain ⟨i1, i2, i3, i4, i5⟩ := hIH
    -- the single call over everything is the `res` of the two-call theorem
    have hinp : carry ++ catChunks ((c, g) :: (c2, g2) :: tl) = (carry ++ c) ++ catChunks ((c2, g2) :: tl) := by
      show carry ++ (c ++ catChunks ((c2, g2) :: tl)) = _
      rw [Array.append_assoc]
    have hbudget : pos0 + lastGrant ((c, g) :: (c2, g2) :: tl) - pos =
        res1.written + (pos0 + lastGrant ((c2, g2) :: tl) - (pos + res1.written)) := by
      show pos0 + lastGrant ((c2, g2) :: tl) - pos = _
      omega
    rw [hinp, hbudget]
    have hsw : sumWritten (runCalls flags pos0 r out pos carry ((c, g) :: (c2, g2) :: tl)) =
        res1.written + sumWritten (runCalls flags pos0 res1.r res1.out (pos + res1.written)
          ((carry ++ c).extract res1.consumed (carry ++ c).size) ((c2, g2) :: tl)) := by
      rw [hrc]; simp [sumWritten]
    have hsc : sumConsumed (runCalls flags pos0 r out pos carry ((c, g) :: (c2, g2) :: tl)) =
        res1.consumed + sumConsumed (runCalls flags pos0 res1.r res1.out (pos + res1.written)
          ((carry ++ c).extract res1.consumed (carry ++ c).size) ((c2, g2) :: tl)) := by
      rw [hrc]; simp [sumConsumed]
    rw [hsw, hsc]
    refine ⟨e1.trans i1, e2.trans i2, by rw [e3, i3], fun hnf => ?_, fun hnf hnp => ?_⟩
    · rw [e4 hnf, i4 (by rw [← e1]; exact hnf)]
    · rw [e5 hnf hnp]
      exact i5 (by rw [← e1]; exact hnf) (by rw [← e1]; exact hnp)

/-- a fresh decoder keeps the buffer discipline -/
theorem Bnd_fresh : Bnd ({} : Regs) := by
  refine ⟨⟨by show (0 : Nat) < 2 ^ 0; decide, ⟨fun buf m _ => ?_, fun i => ?_⟩⟩, Z_of (s := sStart) rfl (fun _ => rfl) (fun _ => Or.inl rfl), Or.inl (by show (0 : Nat) < 8; decide)⟩
  · show decodeBuf { count := #[], syms := #[] } buf m ≠ .short
    unfold decodeBuf decodeBufAux
    simp
  · show (Array.replicate 19 0).getD i 0 ≤ 7
    simp only [Array.getD_eq_getD_getElem?, Array.getElem?_replicate]
    split <;> simp

end Model.Core
