/-
Call-level consequences of the per-state invariants (`Lemmas/CoreFrame`): what one call of the
decoder model guarantees about counts, writes and status. Helper lemmas for Props/C05, C08.
-/
import MinizProof.Lemmas.CoreFrame
namespace Model.Core

theorem eoi_cases (e : Env) : e.eoi = stNeedsMoreInput ∨ e.eoi = stFailedCannotMakeProgress := by
  unfold Env.eoi endOfInput; split <;> simp

@[simp] theorem epilogue_written (flags outPos outEnd : Nat) (st : Int) (c : Ctx) (out : Array UInt8) :
    (epilogue flags outPos outEnd st c out).written = c.outPos - outPos := by
  unfold epilogue; dsimp only; split <;> rfl
@[simp] theorem epilogue_consumed (flags outPos outEnd : Nat) (st : Int) (c : Ctx) (out : Array UInt8) :
    (epilogue flags outPos outEnd st c out).consumed = c.inPos - exitUndo st c := by
  unfold epilogue; dsimp only; split <;> rfl
@[simp] theorem epilogue_out (flags outPos outEnd : Nat) (st : Int) (c : Ctx) (out : Array UInt8) :
    (epilogue flags outPos outEnd st c out).out = out := by
  unfold epilogue; dsimp only; split <;> rfl
@[simp] theorem epilogue_state (flags outPos outEnd : Nat) (st : Int) (c : Ctx) (out : Array UInt8) :
    (epilogue flags outPos outEnd st c out).r.state = exitState st c := by
  unfold epilogue exitRegs; dsimp only; split <;> rfl
theorem epilogue_status_neg (flags outPos outEnd : Nat) (st : Int) (c : Ctx) (out : Array UInt8)
    (h : exitStatus st c outEnd < 0) :
    (epilogue flags outPos outEnd st c out).status = exitStatus st c outEnd := by
  unfold epilogue; dsimp only
  rw [if_neg]
  simp only [Bool.and_eq_true, decide_eq_true_eq, not_and, Int.not_le]
  intro _; exact h
theorem exitStatus_of_ne (st : Int) (c : Ctx) (outEnd : Nat) (h : st ≠ stNeedsMoreInput) :
    exitStatus st c outEnd = st := by
  unfold exitStatus
  rw [if_neg]
  simp [h]
theorem epilogue_status (flags outPos outEnd : Nat) (st : Int) (c : Ctx) (out : Array UInt8) :
    (epilogue flags outPos outEnd st c out).status = exitStatus st c outEnd ∨
    ((epilogue flags outPos outEnd st c out).status = stAdler32Mismatch ∧ exitStatus st c outEnd = stDone) := by
  unfold epilogue; dsimp only
  split
  · dsimp only
    split
    · rename_i h
      simp only [Bool.and_eq_true, beq_iff_eq] at h
      exact Or.inr ⟨rfl, h.1.1⟩
    · exact Or.inl rfl
  · exact Or.inl rfl

/-- What every call guarantees about its counts, its writes and its status. -/
structure CallFacts (inp out : Array UInt8) (outPos budget : Nat) (res : Res) : Prop where
  size     : res.out.size = out.size
  consumed : res.consumed ≤ inp.size
  wBudget  : res.written ≤ budget
  room     : res.written ≤ out.size - outPos
  frame    : ∀ i, (i < outPos ∨ outPos + res.written ≤ i) → res.out[i]? = out[i]?
  hmo      : res.status = stHasMoreOutput → res.written = min budget (out.size - outPos)
  nmi      : res.status = stNeedsMoreInput ∨ res.status = stFailedCannotMakeProgress → res.consumed = inp.size

theorem decompress_facts (r : Regs) (inp out : Array UInt8) (outPos budget flags : Nat) :
    CallFacts inp out outPos budget (decompress r inp out outPos budget flags) := by
  unfold decompress
  split
  · exact ⟨rfl, Nat.zero_le _, Nat.zero_le _, Nat.zero_le _, fun _ _ => rfl, by simp [stBadParam, stHasMoreOutput],
      by simp [stBadParam, stNeedsMoreInput, stFailedCannotMakeProgress]⟩
  · rename_i hgeo
    simp only [badGeometry, Bool.or_eq_true, Bool.and_eq_true, decide_eq_true_eq, not_or, Nat.not_lt] at hgeo
    dsimp only
    have g0 : Geo { inp := inp, flags := flags, outLen := out.size, outEnd := min (outPos + budget) out.size }
        { r := r, inPos := 0, outPos := outPos } out := ⟨Nat.zero_le _, by simp; omega, by simp; omega⟩
    have hr := run_ok _ (callFuel r inp (min (outPos + budget) out.size - outPos)) _ _ g0
    generalize run _ _ _ _ = R at hr
    obtain ⟨st, c, out'⟩ := R
    dsimp only at hr ⊢
    obtain ⟨⟨⟨gi, go, ge⟩, hm, hf⟩, hfin⟩ := hr
    dsimp only at gi go ge hm hf
    have hpos := hgeo.2
    refine ⟨by simp [hf.1], ?_, ?_, ?_, ?_, ?_, ?_⟩
    · simp; omega
    · simp; omega
    · simp; omega
    · intro i hi
      simp only [epilogue_out, epilogue_written] at hi ⊢
      exact hf.2 i (by omega)
    · intro hs
      simp only [epilogue_written]
      have hfull : c.outPos = min (outPos + budget) out.size := by
        rcases epilogue_status flags outPos (min (outPos + budget) out.size) st c out' with h | h
        · rw [h] at hs
          unfold exitStatus at hs
          split at hs
          · rename_i h2
            simp only [Bool.and_eq_true, beq_iff_eq] at h2
            exact h2.1.2
          · rcases hfin with h3 | h3 | h3 | h3 | h3 | h3
            · rw [h3] at hs; simp [stModelError, stHasMoreOutput] at hs
            · exact h3.2
            · have := eoi_cases { inp := inp, flags := flags, outLen := out.size, outEnd := min (outPos + budget) out.size }
              rw [← h3.1, hs] at this
              simp [stHasMoreOutput, stNeedsMoreInput, stFailedCannotMakeProgress] at this
            · rw [h3.1] at hs; simp [stDone, stHasMoreOutput] at hs
            · rw [h3.1] at hs; simp [stFailed, stHasMoreOutput] at hs
            · rw [h3.1] at hs; simp [stBlockBoundary, stHasMoreOutput] at hs
        · rw [h.1] at hs; simp [stAdler32Mismatch, stHasMoreOutput] at hs
      omega
    · intro hs
      simp only [epilogue_consumed]
      have hst : st = stNeedsMoreInput ∨ st = stFailedCannotMakeProgress := by
        rcases epilogue_status flags outPos (min (outPos + budget) out.size) st c out' with h | h
        · rw [h] at hs
          unfold exitStatus at hs
          split at hs
          · simp [stHasMoreOutput, stNeedsMoreInput, stFailedCannotMakeProgress] at hs
          · exact hs
        · rw [h.1] at hs; simp [stAdler32Mismatch, stNeedsMoreInput, stFailedCannotMakeProgress] at hs
      have hin : c.inPos = inp.size := by
        rcases hfin with h3 | h3 | h3 | h3 | h3 | h3
        · rw [h3] at hst; simp [stModelError, stNeedsMoreInput, stFailedCannotMakeProgress] at hst
        · rw [h3.1] at hst; simp [stHasMoreOutput, stNeedsMoreInput, stFailedCannotMakeProgress] at hst
        · exact h3.2
        · rw [h3.1] at hst; simp [stDone, stNeedsMoreInput, stFailedCannotMakeProgress] at hst
        · rw [h3.1] at hst; simp [stFailed, stNeedsMoreInput, stFailedCannotMakeProgress] at hst
        · rw [h3.1] at hst; simp [stBlockBoundary, stNeedsMoreInput, stFailedCannotMakeProgress] at hst
      have : exitUndo st c = 0 := by
        unfold exitUndo
        rcases hst with h | h <;> simp [h]
      omega

end Model.Core
