/-
The one-shot refinement theorem: whenever the specification's reference decoder (`Spec.inflateSpec`)
accepts a raw DEFLATE stream, one call of the decoder model on the whole input with a flat output
buffer that has room for the plaintext returns `Done`, writes exactly the specified bytes, and
reports exactly ⌈bits used / 8⌉ input bytes consumed. Block loop, fuel monotonicity, final theorem.
-/
import MinizProof.Lemmas.CoreDynamic
set_option linter.unusedVariables false
set_option linter.unusedSimpArgs false
namespace Model.Core
open Spec
variable {e : Env} {c : Ctx} {outA : Array UInt8}

theorem inflateBlock_size_le {pre : Array UInt8} {maxDist : Nat} {data : Array UInt8} {fuel pos : Nat}
    {o : Array UInt8} {R : Nat × Array UInt8 × BlockInfo}
    (h : inflateBlock pre maxDist data fuel pos o = .accept R) : o.size ≤ R.2.1.size := by
  unfold inflateBlock at h
  cases hv : bitsAt data pos 3 with
  | none => simp [hv] at h
  | some hdr =>
    simp only [hv] at h
    by_cases hb0 : hdr / 2 = 0
    · simp only [hb0, ↓reduceIte] at h
      revert h
      split
      · split
        · intro h; simp at h
        · split
          · intro h; simp at h
          · rename_i o2 hcp
            intro h
            simp only [Verdict.accept.injEq] at h
            rw [← h]
            have := (copyStored_spec _ _ _ _ _ hcp).2
            simp only; omega
      · intro h; simp at h
    · simp only [hb0, ↓reduceIte] at h
      by_cases hb1 : hdr / 2 = 1
      · simp only [hb1, ↓reduceIte] at h
        revert h
        split
        · rename_i p o2 toks ht
          intro h
          simp only [Verdict.accept.injEq] at h
          rw [← h]
          exact decodeTokens_size_le _ _ _ _ _ _ _ _ _ _ ht
        all_goals (intro h; simp at h)
      · simp only [hb1, ↓reduceIte] at h
        by_cases hb2 : hdr / 2 = 2
        · simp only [hb2, ↓reduceIte] at h
          revert h
          (repeat' split) <;> first
            | (intro h; simp at h; done)
            | (rename_i ht; intro h; simp only [Verdict.accept.injEq] at h; rw [← h];
               exact decodeTokens_size_le _ _ _ _ _ _ _ _ _ _ ht)
        · simp [hb2] at h

theorem inflateBlocks_size_le (pre : Array UInt8) (maxDist : Nat) (data : Array UInt8) :
    ∀ (fuel pos : Nat) (o : Array UInt8) (bl : Array BlockInfo) (R : Nat × Array UInt8 × Array BlockInfo),
    inflateBlocks pre maxDist data fuel pos o bl = .accept R → o.size ≤ R.2.1.size := by
  intro fuel
  induction fuel with
  | zero => intro pos o bl R h; simp [inflateBlocks] at h
  | succ fuel ih =>
    intro pos o bl R h
    rw [inflateBlocks] at h
    cases hb : inflateBlock pre maxDist data fuel pos o with
    | accept R1 =>
      obtain ⟨p1, o1, info⟩ := R1
      have h1 := inflateBlock_size_le hb
      simp only [hb] at h
      by_cases hf : info.final = true
      · simp only [hf, ↓reduceIte, Verdict.accept.injEq] at h
        rw [← h]; exact h1
      · simp only [hf, Bool.false_eq_true, ↓reduceIte] at h
        have := ih _ _ _ _ h
        simp only at h1; omega
    | reject w => simp [hb] at h
    | truncated p => simp [hb] at h
    | fuel => simp [hb] at h

/-- `BlockDone` after a non-final block: on to the next block header. -/
theorem micro_blockDone_next (hs : c.r.state = sBlockDone) (hf : c.r.finish = 0)
    (hstop : hasFlag e.flags fStopOnBlockBoundary = false) :
    step e c outA = .cont (setState c sReadBlockHeader) outA := by
  rw [step_BlockDone hs]
  unfold stBlockDone
  simp only [hf, ne_eq, not_true_eq_false, ↓reduceIte, hstop, Bool.false_eq_true]

/-- `BlockDone` after the final block of a raw stream, with fewer than 8 bits buffered: the rest
    of the last byte is dropped and the automaton is done. -/
theorem micro_blockDone_final (hs : c.r.state = sBlockDone) (hf : c.r.finish ≠ 0) (h8 : c.r.numBits < 8)
    (hz : hasFlag e.flags fParseZlib = false) :
    ∃ c1, step e c outA = .cont c1 outA ∧ c1.r.state = sDoneForever ∧ c1.r.numBits = 0 ∧ c1.inPos = c.inPos ∧
      c1.outPos = c.outPos := by
  rw [step_BlockDone hs]
  unfold stBlockDone
  have hm : c.r.numBits % 8 = c.r.numBits := Nat.mod_eq_of_lt h8
  simp only [hf, ne_eq, not_false_eq_true, ↓reduceIte, hz, Bool.false_eq_true, hm, Nat.sub_self, Nat.zero_div,
    Nat.zero_min, Nat.mul_zero, Nat.sub_zero]
  exact ⟨_, rfl, rfl, rfl, rfl, rfl⟩

/-- THE BLOCK LOOP: whenever the specification accepts the blocks of a stream, the model goes from
    `ReadBlockHeader` to the `BlockDone` of the final block. -/
theorem sim_blocks (hflat : e.ring = false) (hend : e.outEnd ≤ e.outLen)
    (hstop : hasFlag e.flags fStopOnBlockBoundary = false) (pre : Array UInt8) (maxDist : Nat) :
    ∀ (fuel pos : Nat) (o : Array UInt8) (bl : Array BlockInfo) (R : Nat × Array UInt8 × Array BlockInfo)
      (c : Ctx) (outA : Array UInt8),
    inflateBlocks pre maxDist e.inp fuel pos o bl = .accept R →
    c.r.state = sReadBlockHeader → Sim e c outA pos (pre ++ o) → Shape c → pre.size + R.2.1.size ≤ e.outEnd →
    ∃ c' outA', Reaches e c outA c' outA' ∧ c'.r.state = sBlockDone ∧ Sim e c' outA' R.1 (pre ++ R.2.1) ∧
      c'.r.finish ≠ 0 ∧ InvZ c c' := by
  intro fuel
  induction fuel with
  | zero => intro pos o bl R c outA h; simp [inflateBlocks] at h
  | succ fuel ih =>
    intro pos o bl R c outA h hs hsim hsh hroom
    have hmono := inflateBlocks_size_le pre maxDist e.inp _ _ _ _ _ h
    rw [inflateBlocks] at h
    cases hb : inflateBlock pre maxDist e.inp fuel pos o with
    | accept R1 =>
      obtain ⟨p1, o1, info⟩ := R1
      simp only [hb] at h
      by_cases hf : info.final = true
      · simp only [hf, ↓reduceIte, Verdict.accept.injEq] at h
        obtain ⟨c1, outA1, r1, hs1, hsim1, hfin1, z1, sh1⟩ :=
          sim_block (c := c) (outA := outA) hflat hend hb hs hsim hsh (by rw [← h] at hroom; exact hroom)
        rw [← h]
        exact ⟨c1, outA1, r1, hs1, hsim1, hfin1.mpr hf, z1⟩
      · simp only [hf, Bool.false_eq_true, ↓reduceIte] at h
        have hmono2 := inflateBlocks_size_le pre maxDist e.inp _ _ _ _ _ h
        obtain ⟨c1, outA1, r1, hs1, hsim1, hfin1, z1, sh1⟩ :=
          sim_block (c := c) (outA := outA) hflat hend hb hs hsim hsh (by omega)
        have hf0 : c1.r.finish = 0 := by
          by_cases hz : c1.r.finish = 0
          · exact hz
          · exact absurd (hfin1.mp hz) hf
        have st2 := micro_blockDone_next (e := e) (c := c1) (outA := outA1) hs1 hf0 hstop
        have hsim2 : Sim e (setState c1 sReadBlockHeader) outA1 p1 (pre ++ o1) :=
          ⟨hsim1.rep.of_eq rfl rfl rfl, hsim1.nb8, hsim1.outPos, hsim1.outEq, hsim1.size⟩
        obtain ⟨c', outA', r', hs', hsim', hfin', z'⟩ :=
          ih p1 o1 _ R (setState c1 sReadBlockHeader) outA1 h rfl hsim2 sh1 hroom
        exact ⟨c', outA', r1.trans ((Reaches.of_step st2).trans r'), hs', hsim', hfin',
          z1.trans ⟨z'.z0, z'.z1, z'.zA, z'.chk⟩⟩
    | reject w => simp [hb] at h
    | truncated p => simp [hb] at h
    | fuel => simp [hb] at h

/-- More fuel does not change a run that already ended with a real status. -/
theorem run_fuel_mono (e : Env) : ∀ (f : Nat) (c : Ctx) (o : Array UInt8), (run e f c o).1 ≠ stModelError →
    ∀ f', f ≤ f' → run e f' c o = run e f c o := by
  intro f
  induction f with
  | zero => intro c o h; simp [run] at h
  | succ f ih =>
    intro c o h f' hle
    obtain ⟨f'', rfl⟩ : ∃ f'', f' = f'' + 1 := ⟨f' - 1, by omega⟩
    rw [run] at h ⊢
    conv => rhs; rw [run]
    cases hst : step e c o with
    | cont c1 o1 =>
      rw [hst] at h
      simp only at h ⊢
      exact ih c1 o1 h f'' (by omega)
    | fin st c1 o1 => rfl

/-- If the model reaches `DoneForever` from the start of a call, the call's run ends there with
    status `Done`. -/
theorem run_of_reaches_done {r : Regs} {inp out : Array UInt8} {outPos budget flags : Nat} {cD : Ctx} {oD : Array UInt8}
    (hg : badGeometry flags out.size outPos = false)
    (hreach : Reaches { inp := inp, flags := flags, outLen := out.size, outEnd := min (outPos + budget) out.size }
      { r := r, inPos := 0, outPos := outPos } out cD oD)
    (hsD : cD.r.state = sDoneForever) :
    run { inp := inp, flags := flags, outLen := out.size, outEnd := min (outPos + budget) out.size }
      (callFuel r inp (min (outPos + budget) out.size - outPos)) { r := r, inPos := 0, outPos := outPos } out =
      (stDone, cD, oD) := by
  obtain ⟨k, hk⟩ := hreach
  have htot := decompress_run_total r inp out outPos budget flags hg
  simp only at htot
  have hne := finOK_ne_modelError htot
  have hbig := run_fuel_mono _ _ _ _ hne (callFuel r inp (min (outPos + budget) out.size - outPos) + 1 + k) (by omega)
  rw [← hbig, hk]
  rw [run, step_DoneForever hsD]

/-- `Start` of a raw (non-zlib) stream. -/
theorem micro_start_raw (hs : c.r.state = sStart) (hz : hasFlag e.flags fParseZlib = false) :
    ∃ c1, step e c outA = .cont c1 outA ∧ c1.r.state = sReadBlockHeader ∧ c1.r.numBits = 0 ∧ c1.r.bitBuf = 0 ∧
      c1.inPos = c.inPos ∧ c1.outPos = c.outPos ∧ c1.r.rawHeader = c.r.rawHeader ∧
      c1.r.tableSizes = c.r.tableSizes ∧ c1.r.lenCodes = c.r.lenCodes := by
  rw [step_Start hs]
  unfold stStart
  simp only [hz, Bool.false_eq_true, ↓reduceIte]
  exact ⟨_, rfl, rfl, rfl, rfl, rfl, rfl, rfl, rfl, rfl⟩

/-- ONE-SHOT REFINEMENT, raw DEFLATE, flat output buffer. -/
theorem refine_raw_flat (r : Regs) (inp out : Array UInt8) (outPos budget flags maxDist : Nat) (res : Inflated)
    (hstart : r.state = sStart) (hshape : r.rawHeader.size = 4 ∧ r.tableSizes.size = 3 ∧ r.lenCodes.size = 512)
    (hflat : hasFlag flags fNonWrapping = true) (hz : hasFlag flags fParseZlib = false)
    (hstop : hasFlag flags fStopOnBlockBoundary = false) (hpos : outPos ≤ out.size)
    (hspec : inflateSpec (out.extract 0 outPos) maxDist inp 0 = .accept res)
    (hroom : outPos + res.out.size ≤ min (outPos + budget) out.size) :
    (decompress r inp out outPos budget flags).status = stDone ∧
    (decompress r inp out outPos budget flags).written = res.out.size ∧
    (decompress r inp out outPos budget flags).consumed = (res.bitsUsed + 7) / 8 ∧
    (∀ i, i < res.out.size → (decompress r inp out outPos budget flags).out[outPos + i]? = res.out[i]?) := by
  have hg : badGeometry flags out.size outPos = false := by
    unfold badGeometry; simp [hflat]; omega
  -- the specification's run
  unfold inflateSpec at hspec
  cases hb : inflateBlocks (out.extract 0 outPos) maxDist inp (fuelFor inp) 0 #[] #[] with
  | accept R =>
    obtain ⟨pos', o', blocks⟩ := R
    simp only [hb, Verdict.accept.injEq] at hspec
    subst hspec
    simp only at hroom ⊢
    -- the environment of the call
    obtain ⟨e, he⟩ : ∃ e : Env, e = { inp := inp, flags := flags, outLen := out.size, outEnd := min (outPos + budget) out.size } := ⟨_, rfl⟩
    have hflat' : e.ring = false := by rw [he]; simp [Env.ring, hflat]
    have hend : e.outEnd ≤ e.outLen := by rw [he]; show min _ _ ≤ out.size; omega
    have hstop' : hasFlag e.flags fStopOnBlockBoundary = false := by rw [he]; exact hstop
    have hz' : hasFlag e.flags fParseZlib = false := by rw [he]; exact hz
    have hinp : e.inp = inp := by rw [he]
    have hpre : (out.extract 0 outPos).size = outPos := by simp; omega
    -- Start
    obtain ⟨c1, st1, hs1, hn1, hb1, hi1, ho1, rh1, ts1, lc1⟩ :=
      micro_start_raw (e := e) (c := { r := r, inPos := 0, outPos := outPos }) (outA := out) hstart hz'
    have hsim1 : Sim e c1 out 0 (out.extract 0 outPos ++ #[]) := by
      have hi1' : c1.inPos = 0 := hi1
      have ho1' : c1.outPos = outPos := ho1
      refine ⟨⟨by rw [hi1']; exact Nat.zero_le _, by rw [hi1', hn1], by rw [hn1, hb1]; decide,
        by rw [hn1]; intro i hi; omega⟩, by rw [hn1]; decide, by rw [ho1']; simp; omega, ?_, by rw [he]⟩
      intro i hi
      simp only [Array.append_empty] at hi ⊢
      rw [Array.getElem?_extract]
      have : i < min outPos out.size - 0 := by simpa using hi
      simp only [this, ↓reduceIte, Nat.zero_add]
    have hsh1 : Shape c1 := ⟨by rw [rh1]; exact hshape.1, by rw [ts1]; exact hshape.2.1, by rw [lc1]; exact hshape.2.2⟩
    obtain ⟨cB, outB, rB, hsB, hsimB, hfB, zB⟩ :=
      sim_blocks hflat' hend hstop' (out.extract 0 outPos) maxDist (fuelFor inp) 0 #[] #[] (pos', o', blocks) c1 out
        (by rw [hinp]; exact hb) hs1 hsim1 hsh1 (by rw [hpre]; rw [he]; exact hroom)
    simp only at hsimB
    obtain ⟨cD, stD, hsD, hnD, hiD, hoD⟩ := micro_blockDone_final (e := e) (c := cB) (outA := outB) hsB hfB hsimB.nb8 hz'
    have hreach : Reaches e { r := r, inPos := 0, outPos := outPos } out cD outB :=
      (Reaches.of_step st1).trans (rB.trans (Reaches.of_step stD))
    rw [he] at hreach
    have hrun := run_of_reaches_done hg hreach hsD
    have hdec : decompress r inp out outPos budget flags =
        epilogue flags outPos (min (outPos + budget) out.size) stDone cD outB := by
      unfold decompress
      rw [hg]
      simp only [Bool.false_eq_true, ↓reduceIte]
      rw [hrun]
    rw [hdec]
    have hundo : exitUndo stDone cD = 0 := by
      unfold exitUndo; simp [stDone, stNeedsMoreInput, stFailedCannotMakeProgress, hnD]
    have hrep := hsimB.rep
    have hpe := hrep.posEq
    have h8 := hsimB.nb8
    refine ⟨?_, ?_, ?_, ?_⟩
    · rcases epilogue_status flags outPos (min (outPos + budget) out.size) stDone cD outB with h | h
      · rw [h]; exact exitStatus_of_ne _ _ _ (by decide)
      · exfalso
        have := h.1
        unfold epilogue at this
        simp only [hz, Bool.and_false, Bool.false_and, Bool.false_eq_true, ↓reduceIte] at this
        have hx : exitStatus stDone cD (min (outPos + budget) out.size) = stDone := exitStatus_of_ne _ _ _ (by decide)
        split at this
        · simp only [hx] at this; simp [stDone, stAdler32Mismatch] at this
        · simp only [hx] at this; simp [stDone, stAdler32Mismatch] at this
    · rw [epilogue_written, hoD, hsimB.outPos]; simp; omega
    · rw [epilogue_consumed, hundo, hiD]; omega
    · intro i hi
      rw [epilogue_out]
      have := hsimB.outEq (outPos + i) (by simp; omega)
      rw [this, Array.getElem?_append_right (by omega)]
      congr 1
      omega
  | reject w => simp [hb] at hspec
  | truncated p => simp [hb] at hspec
  | fuel => simp [hb] at hspec

end Model.Core
