/-
Block-level simulation of the specification's reference decoder by the decoder model: block
headers, stored blocks, fixed and dynamic Huffman blocks, the block loop and the end of the stream.
Helper lemmas for the refinement theorems (Props/C03, C06).
-/
import MinizProof.Lemmas.CoreTokens
import MinizProof.Lemmas.FixedCodes
set_option linter.unusedVariables false
set_option linter.unusedSimpArgs false
namespace Model.Core
open Spec

/-- A field of `m + n` bits is its low `m` bits followed by its high `n` bits. -/
theorem bitsAt_add (data : Array UInt8) (n : Nat) : ∀ (m pos a b : Nat),
    bitsAt data pos m = some a → bitsAt data (pos + m) n = some b →
    bitsAt data pos (m + n) = some (a + 2 ^ m * b) := by
  intro m
  induction m with
  | zero =>
    intro pos a b ha hb
    simp only [bitsAt, Option.some.injEq] at ha
    simp only [Nat.zero_add, Nat.add_zero, Nat.pow_zero, Nat.one_mul] at hb ⊢
    rw [hb, ← ha, Nat.zero_add]
  | succ m ih =>
    intro pos a b ha hb
    have e : m + 1 + n = (m + n) + 1 := by omega
    rw [e]
    unfold bitsAt at ha ⊢
    cases h0 : bitAt data pos with
    | none => simp [h0] at ha
    | some b0 =>
      cases h1 : bitsAt data (pos + 1) m with
      | none => simp [h0, h1] at ha
      | some a1 =>
        simp only [h0, h1, Option.some.injEq] at ha
        have e2 : pos + 1 + m = pos + (m + 1) := by omega
        rw [ih (pos + 1) a1 b h1 (by rw [e2]; exact hb)]
        simp only [Option.some.injEq]
        rw [← ha, Nat.pow_succ, Nat.mul_add, Nat.add_assoc, Nat.mul_comm (2 ^ m) 2, Nat.mul_assoc]

theorem bitsAt_split (data : Array UInt8) (n : Nat) : ∀ (m pos v : Nat),
    bitsAt data pos (m + n) = some v →
    ∃ a b, bitsAt data pos m = some a ∧ bitsAt data (pos + m) n = some b ∧ v = a + 2 ^ m * b := by
  intro m
  induction m with
  | zero =>
    intro pos v h
    simp only [Nat.zero_add] at h
    exact ⟨0, v, rfl, by simpa using h, by simp⟩
  | succ m ih =>
    intro pos v h
    have e : m + 1 + n = (m + n) + 1 := by omega
    rw [e] at h
    unfold bitsAt at h
    cases h0 : bitAt data pos with
    | none => simp [h0] at h
    | some b0 =>
      cases h1 : bitsAt data (pos + 1) (m + n) with
      | none => simp [h0, h1] at h
      | some r =>
        simp only [h0, h1, Option.some.injEq] at h
        obtain ⟨a1, b, ha1, hb, hr⟩ := ih (pos + 1) r h1
        have e2 : pos + 1 + m = pos + (m + 1) := by omega
        refine ⟨b0 + 2 * a1, b, ?_, by rw [← e2]; exact hb, ?_⟩
        · unfold bitsAt; simp only [h0, ha1]
        · rw [← h, hr, Nat.pow_succ, Nat.mul_add, Nat.add_assoc, Nat.mul_comm (2 ^ m) 2, Nat.mul_assoc]

/-- A whole byte read as an 8-bit field. -/
theorem bitsAt_byte8 {data : Array UInt8} {k : Nat} {b : UInt8} (h : data[k]? = some b) :
    bitsAt data (8 * k) 8 = some b.toNat := by
  have := bitsAt_of_bits data 8 (8 * k) b.toNat (fun i hi => bitAt_byte h i hi)
  rw [this]
  have : b.toNat < 2 ^ 8 := b.toNat_lt
  rw [Nat.mod_eq_of_lt this]

/-- Everything `readBits` guarantees under the representation invariant, in one package. -/
theorem readBits_full {data : Array UInt8} {c : Ctx} {pos n v : Nat} (hr : Rep data c pos)
    (hv : bitsAt data pos n = some v) :
    ∃ c1, readBits data n c = (c1, some v) ∧ Rep data c1 (pos + n) ∧ (c.r.numBits < 8 → c1.r.numBits < 8) ∧
      ReadOK data c c1 ∧ c1.r.numBits + n = c.r.numBits + 8 * (c1.inPos - c.inPos) := by
  have h := readBits_rep hr hv
  have hacc := (readBits_spec data n c hr.inLe).2.2
  have hok := (readBits_spec data n c hr.inLe).1
  have h8 : c.r.numBits < 8 → (readBits data n c).1.r.numBits < 8 := fun h8 => readBits_nb8 h8 h.1
  generalize readBits data n c = q at h hok h8 hacc
  obtain ⟨c1, o⟩ := q
  obtain ⟨h1, h2⟩ := h
  simp only at h1 h2 hok h8 hacc
  subst h1
  exact ⟨c1, rfl, h2, h8, hok, hacc v rfl⟩

/-- zlib registers: untouched by everything between the header and the trailer. -/
structure InvZ (c c' : Ctx) : Prop where
  z0     : c'.r.zHeader0 = c.r.zHeader0
  z1     : c'.r.zHeader1 = c.r.zHeader1
  zA     : c'.r.zAdler32 = c.r.zAdler32
  chk    : c'.r.checkAdler32 = c.r.checkAdler32

theorem InvZ.refl (c : Ctx) : InvZ c c := ⟨rfl, rfl, rfl, rfl⟩
theorem InvZ.trans {a b c : Ctx} (h1 : InvZ a b) (h2 : InvZ b c) : InvZ a c :=
  ⟨h2.z0.trans h1.z0, h2.z1.trans h1.z1, h2.zA.trans h1.zA, h2.chk.trans h1.chk⟩
theorem InvZ.of_inv {c c' : Ctx} (i : Inv c c') : InvZ c c' := ⟨i.z0, i.z1, i.zA, i.chk⟩
theorem InvZ.of_read {inp : Array UInt8} {c c' : Ctx} (h : ReadOK inp c c') : InvZ c c' :=
  InvZ.of_inv (Inv.of_read h)

/-- Sizes of the array registers (kept by every transition). -/
def Shape (c : Ctx) : Prop := c.r.rawHeader.size = 4 ∧ c.r.tableSizes.size = 3 ∧ c.r.lenCodes.size = 512

variable {e : Env} {c : Ctx} {outA : Array UInt8}

/-- `ReadBlockHeader` for a stored block. -/
theorem micro_header_stored {pos hdr : Nat} (hs : c.r.state = sReadBlockHeader) (hr : Rep e.inp c pos)
    (hv : bitsAt e.inp pos 3 = some hdr) (hbt : hdr / 2 = 0) :
    ∃ c1, step e c outA = .cont c1 outA ∧ c1.r.state = sBlockTypeNoCompression ∧ c1.r.finish = hdr % 2 ∧
      Rep e.inp c1 (pos + 3) ∧ (c.r.numBits < 8 → c1.r.numBits < 8) ∧ c1.outPos = c.outPos ∧ InvZ c c1 ∧
      (Shape c → Shape c1) := by
  obtain ⟨c1, hrb, hr1, h8, hok, _⟩ := readBits_full hr hv
  rw [step_ReadBlockHeader hs]
  unfold stReadBlockHeader
  rw [hrb]
  have hz : hdr / 2 % 4 = 0 := by omega
  simp only [hz, ↓reduceIte]
  have i := InvZ.of_read hok
  have hreg := hok.regs
  exact ⟨_, rfl, rfl, rfl, hr1.of_eq rfl rfl rfl, h8, hok.outPos, ⟨i.z0, i.z1, i.zA, i.chk⟩,
    fun sh => ⟨by show c1.r.rawHeader.size = 4; rw [hreg]; exact sh.1, by show c1.r.tableSizes.size = 3; rw [hreg]; exact sh.2.1,
      by show c1.r.lenCodes.size = 512; rw [hreg]; exact sh.2.2⟩⟩

/-- `ReadBlockHeader` for a fixed-Huffman block: the tables are ready in the same transition. -/
theorem micro_header_fixed {pos hdr : Nat} (hs : c.r.state = sReadBlockHeader) (hr : Rep e.inp c pos)
    (hv : bitsAt e.inp pos 3 = some hdr) (hbt : hdr / 2 = 1) :
    ∃ c1, step e c outA = .cont c1 outA ∧ c1.r.state = sDecodeLitlen ∧ c1.r.finish = hdr % 2 ∧
      c1.r.litCode = fixedLitCode ∧ c1.r.distCode = fixedDistCode ∧
      Rep e.inp c1 (pos + 3) ∧ (c.r.numBits < 8 → c1.r.numBits < 8) ∧ c1.outPos = c.outPos ∧ InvZ c c1 ∧
      (Shape c → Shape c1) := by
  obtain ⟨c1, hrb, hr1, h8, hok, _⟩ := readBits_full hr hv
  rw [step_ReadBlockHeader hs]
  unfold stReadBlockHeader
  rw [hrb]
  have hz : hdr / 2 % 4 = 1 := by omega
  simp only [hz, ↓reduceIte, Nat.succ_ne_self, Nat.reduceEqDiff]
  unfold initTree
  simp only [Nat.succ_ne_self, Nat.reduceEqDiff, ↓reduceIte, fixed_dist_valid, fixed_lit_valid, Bool.not_true,
    Bool.false_eq_true]
  have i := InvZ.of_read hok
  have hreg := hok.regs
  exact ⟨_, rfl, rfl, rfl, rfl, rfl, hr1.of_eq rfl rfl rfl, h8, hok.outPos, ⟨i.z0, i.z1, i.zA, i.chk⟩,
    fun sh => ⟨by show c1.r.rawHeader.size = 4; rw [hreg]; exact sh.1, rfl,
      by show c1.r.lenCodes.size = 512; rw [hreg]; exact sh.2.2⟩⟩

/-- `ReadBlockHeader` for a dynamic-Huffman block. -/
theorem micro_header_dynamic {pos hdr : Nat} (hs : c.r.state = sReadBlockHeader) (hr : Rep e.inp c pos)
    (hv : bitsAt e.inp pos 3 = some hdr) (hbt : hdr / 2 = 2) :
    ∃ c1, step e c outA = .cont c1 outA ∧ c1.r.state = sReadTableSizes ∧ c1.r.finish = hdr % 2 ∧
      c1.r.counter = 0 ∧ c1.r.blockType = 2 ∧
      Rep e.inp c1 (pos + 3) ∧ (c.r.numBits < 8 → c1.r.numBits < 8) ∧ c1.outPos = c.outPos ∧ InvZ c c1 ∧
      (Shape c → Shape c1) := by
  obtain ⟨c1, hrb, hr1, h8, hok, _⟩ := readBits_full hr hv
  rw [step_ReadBlockHeader hs]
  unfold stReadBlockHeader
  rw [hrb]
  have hz : hdr / 2 % 4 = 2 := by omega
  simp only [hz, ↓reduceIte, Nat.succ_ne_self, Nat.reduceEqDiff]
  have i := InvZ.of_read hok
  have hreg := hok.regs
  exact ⟨_, rfl, rfl, rfl, rfl, rfl, hr1.of_eq rfl rfl rfl, h8, hok.outPos, ⟨i.z0, i.z1, i.zA, i.chk⟩,
    fun sh => ⟨by show c1.r.rawHeader.size = 4; rw [hreg]; exact sh.1, by show c1.r.tableSizes.size = 3; rw [hreg]; exact sh.2.1,
      by show c1.r.lenCodes.size = 512; rw [hreg]; exact sh.2.2⟩⟩

theorem copyStored_spec (data : Array UInt8) (n : Nat) : ∀ (q : Nat) (o o' : Array UInt8),
    copyStored data q o n = some o' → (0 < n → q + n ≤ data.size) ∧ o'.size = o.size + n := by
  induction n with
  | zero => intro q o o' h; simp [copyStored] at h; subst h; exact ⟨fun h => by omega, rfl⟩
  | succ n ih =>
    intro q o o' h
    unfold copyStored at h
    cases hb : data[q]? with
    | none => simp [hb] at h
    | some b =>
      simp only [hb] at h
      have := ih _ _ _ h
      have hq : q < data.size := by
        by_cases hlt : q < data.size
        · exact hlt
        · simp [Array.getElem?_eq_none (Nat.le_of_not_lt hlt)] at hb
      simp at this
      refine ⟨fun _ => ?_, by omega⟩
      by_cases hn : 0 < n
      · have := this.1 hn; omega
      · omega

theorem copyStored_append (data pre : Array UInt8) (n : Nat) : ∀ (q : Nat) (o o' : Array UInt8),
    copyStored data q o n = some o' → copyStored data q (pre ++ o) n = some (pre ++ o') := by
  induction n with
  | zero => intro q o o' h; simp [copyStored] at h ⊢; rw [h]
  | succ n ih =>
    intro q o o' h
    unfold copyStored at h ⊢
    cases hb : data[q]? with
    | none => simp [hb] at h
    | some b =>
      simp only [hb] at h ⊢
      rw [← Array.append_push]
      exact ih _ _ _ h

/-- One byte of the stored-block header (`RawHeader`, counter < 4) with an empty bit buffer. -/
theorem micro_rawHeader_byte {b : UInt8} (hs : c.r.state = sRawHeader) (hc : c.r.counter < 4)
    (hnb : c.r.numBits = 0) (hb : e.inp[c.inPos]? = some b) :
    step e c outA = .cont { c with r := { c.r with rawHeader := c.r.rawHeader.setIfInBounds c.r.counter b.toNat,
                                                   counter := c.r.counter + 1 }, inPos := c.inPos + 1 } outA := by
  rw [step_RawHeader hs]
  unfold stRawHeader
  simp only [hc, ↓reduceIte, hnb, ne_eq, not_true_eq_false, hb]

/-- Two aligned bytes read as a 16-bit little-endian field. -/
theorem bitsAt16_bytes {data : Array UInt8} {k v : Nat} (h : bitsAt data (8 * k) 16 = some v) :
    ∃ b0 b1, data[k]? = some b0 ∧ data[k + 1]? = some b1 ∧ v = b0.toNat + 256 * b1.toNat := by
  obtain ⟨a, b, ha, hb, hv⟩ := bitsAt_split data 8 8 (8 * k) v h
  have s0 := bitsAt_some_bitAt data 8 (8 * k) a ha 0 (by omega)
  obtain ⟨b0, hb0⟩ := bitAt_isSome_byte s0
  have s1 := bitsAt_some_bitAt data 8 (8 * k + 8) b hb 0 (by omega)
  obtain ⟨b1, hb1⟩ := bitAt_isSome_byte s1
  have e0 : (8 * k + 0) / 8 = k := by omega
  have e1 : (8 * k + 8 + 0) / 8 = k + 1 := by omega
  rw [e0] at hb0
  rw [e1] at hb1
  have a0 := bitsAt_byte8 hb0
  have a1 := bitsAt_byte8 hb1
  have e2 : 8 * (k + 1) = 8 * k + 8 := by omega
  rw [e2] at a1
  rw [a0] at ha
  rw [a1] at hb
  simp only [Option.some.injEq] at ha hb
  exact ⟨b0, b1, hb0, hb1, by rw [hv, ← ha, ← hb]⟩

/-- Registers a stored block leaves alone. -/
structure InvS (c c' : Ctx) : Prop where
  finish : c'.r.finish = c.r.finish
  z      : InvZ c c'
  ts     : c'.r.tableSizes = c.r.tableSizes
  lc     : c'.r.lenCodes = c.r.lenCodes
  rhsz   : c'.r.rawHeader.size = c.r.rawHeader.size

theorem InvS.refl (c : Ctx) : InvS c c := ⟨rfl, InvZ.refl c, rfl, rfl, rfl⟩
theorem InvS.trans {a b c : Ctx} (h1 : InvS a b) (h2 : InvS b c) : InvS a c :=
  ⟨h2.finish.trans h1.finish, h1.z.trans h2.z, h2.ts.trans h1.ts, h2.lc.trans h1.lc, h2.rhsz.trans h1.rhsz⟩
theorem InvS.of_read {inp : Array UInt8} {c c' : Ctx} (h : ReadOK inp c c') : InvS c c' := by
  have i := Inv.of_read h
  exact ⟨i.finish, InvZ.of_inv i, i.ts, i.lc, by rw [i.rh]⟩

/-- One header byte, packaged. -/
theorem rawHeader_step {k : Nat} {b : UInt8} (hs : c.r.state = sRawHeader) (hc : c.r.counter = k) (hk : k < 4)
    (hnb : c.r.numBits = 0) (hb : e.inp[c.inPos]? = some b) :
    ∃ c1, step e c outA = .cont c1 outA ∧ c1.r.state = sRawHeader ∧ c1.r.counter = k + 1 ∧ c1.r.numBits = 0 ∧
      c1.r.bitBuf = c.r.bitBuf ∧ c1.inPos = c.inPos + 1 ∧ c1.outPos = c.outPos ∧
      c1.r.rawHeader = c.r.rawHeader.setIfInBounds k b.toNat ∧ InvS c c1 := by
  have := micro_rawHeader_byte (e := e) (outA := outA) hs (by omega) hnb hb
  refine ⟨_, this, hs, by simp [hc], hnb, rfl, rfl, rfl, by simp [hc], ⟨rfl, ⟨rfl, rfl, rfl, rfl⟩, rfl, rfl, by simp⟩⟩

/-- The fifth `RawHeader` transition: LEN / NLEN check and dispatch (empty bit buffer). -/
theorem rawHeader_done {b0 b1 b2 b3 : Nat} (hs : c.r.state = sRawHeader) (hc : c.r.counter = 4)
    (hnb : c.r.numBits = 0)
    (h0 : c.r.rawHeader.getD 0 0 = b0) (h1 : c.r.rawHeader.getD 1 0 = b1)
    (h2 : c.r.rawHeader.getD 2 0 = b2) (h3 : c.r.rawHeader.getD 3 0 = b3)
    (hchk : (b0 + 256 * b1) + (b2 + 256 * b3) = 65535) :
    ∃ c1, step e c outA = .cont c1 outA ∧
      c1.r.state = (if b0 + 256 * b1 = 0 then sBlockDone else sRawMemcpy1) ∧
      c1.r.counter = b0 + 256 * b1 ∧ c1.r.numBits = 0 ∧ c1.r.bitBuf = c.r.bitBuf ∧ c1.inPos = c.inPos ∧
      c1.outPos = c.outPos ∧ InvS c c1 := by
  rw [step_RawHeader hs]
  unfold stRawHeader
  have hc4 : ¬ (c.r.counter < 4) := by omega
  simp only [hc4, ↓reduceIte, h0, h1, h2, h3, hchk, ne_eq, not_true_eq_false, hnb]
  by_cases hz : b0 + 256 * b1 = 0
  · simp only [hz, ↓reduceIte]
    exact ⟨_, rfl, rfl, rfl, (by first | rfl | exact hnb), rfl, rfl, rfl, ⟨rfl, ⟨rfl, rfl, rfl, rfl⟩, rfl, rfl, rfl⟩⟩
  · simp only [hz, ↓reduceIte]
    exact ⟨_, rfl, rfl, rfl, (by first | rfl | exact hnb), rfl, rfl, rfl, ⟨rfl, ⟨rfl, rfl, rfl, rfl⟩, rfl, rfl, rfl⟩⟩

theorem micro_memcpy1_go (hs : c.r.state = sRawMemcpy1) (h1 : c.r.counter ≠ 0) (h2 : c.outPos < e.outEnd) :
    step e c outA = .cont (setState c sRawMemcpy2) outA := by
  rw [step_RawMemcpy1 hs]; unfold stRawMemcpy1 wrBytesLeft
  have h2' : ¬ (e.outEnd - c.outPos = 0) := by omega
  simp only [h1, h2', ↓reduceIte]

theorem micro_memcpy1_done (hs : c.r.state = sRawMemcpy1) (h1 : c.r.counter = 0) :
    step e c outA = .cont (setState c sBlockDone) outA := by
  rw [step_RawMemcpy1 hs]; unfold stRawMemcpy1
  simp only [h1, ↓reduceIte]

theorem micro_memcpy2 {len : Nat} (hs : c.r.state = sRawMemcpy2) (hin : c.inPos < e.inp.size)
    (hmin : min (min (e.outEnd - c.outPos) (e.inp.size - c.inPos)) c.r.counter = len) :
    ∃ c2, step e c outA = .cont c2 (copyIn e.inp outA c.outPos c.inPos len) ∧ c2.r.state = sRawMemcpy1 ∧
      c2.r.counter = c.r.counter - len ∧ c2.inPos = c.inPos + len ∧ c2.outPos = c.outPos + len ∧
      c2.r.numBits = c.r.numBits ∧ c2.r.bitBuf = c.r.bitBuf ∧ InvS c c2 := by
  rw [step_RawMemcpy2 hs]; unfold stRawMemcpy2 wrBytesLeft
  simp only [hin, ↓reduceIte, hmin]
  exact ⟨_, rfl, rfl, rfl, rfl, rfl, rfl, rfl, ⟨rfl, ⟨rfl, rfl, rfl, rfl⟩, rfl, rfl, rfl⟩⟩

/-- The body of a stored block: `RawMemcpy1` → `RawMemcpy2` → `RawMemcpy1` → `BlockDone`. -/
theorem sim_memcpy {len : Nat} {full full' : Array UInt8} (hend : e.outEnd ≤ e.outLen)
    (hs : c.r.state = sRawMemcpy1) (hc : c.r.counter = len) (hpos : 0 < len)
    (ho : c.outPos = full.size) (heq : OutEq outA full) (hsz : outA.size = e.outLen)
    (hcopy : copyStored e.inp c.inPos full len = some full') (hroom : full'.size ≤ e.outEnd) :
    ∃ c3 outA3, Reaches e c outA c3 outA3 ∧ c3.r.state = sBlockDone ∧ c3.inPos = c.inPos + len ∧
      c3.r.numBits = c.r.numBits ∧ c3.r.bitBuf = c.r.bitBuf ∧ c3.outPos = full'.size ∧ OutEq outA3 full' ∧
      outA3.size = e.outLen ∧ InvS c c3 := by
  obtain ⟨havail, hsize⟩ := copyStored_spec e.inp len c.inPos full full' hcopy
  have havail := havail hpos
  have hst1 := micro_memcpy1_go (e := e) (outA := outA) hs (by omega) (by omega)
  obtain ⟨c2, hst2, hs2, hc2, hi2, ho2, hn2, hb2, i2⟩ :=
    micro_memcpy2 (e := e) (c := setState c sRawMemcpy2) (outA := outA) (len := len) rfl
      (by show c.inPos < _; omega)
      (by show min (min (e.outEnd - c.outPos) (e.inp.size - c.inPos)) c.r.counter = len; omega)
  have hst3 := micro_memcpy1_done (e := e) (c := c2) (outA := copyIn e.inp outA c.outPos c.inPos len) hs2
    (by rw [hc2]; show c.r.counter - len = 0; omega)
  refine ⟨setState c2 sBlockDone, _, (Reaches.of_step hst1).trans ((Reaches.of_step hst2).trans (Reaches.of_step hst3)),
    rfl, hi2, hn2, hb2, by show c2.outPos = _; rw [ho2]; show c.outPos + len = _; omega, ?_, ?_,
    ⟨i2.finish, ⟨i2.z.z0, i2.z.z1, i2.z.zA, i2.z.chk⟩, i2.ts, i2.lc, i2.rhsz⟩⟩
  · rw [ho]; exact copyIn_sim e.inp len outA full c.inPos full' heq (by omega) hcopy
  · rw [(copyIn_sameOutside _ _ _ _ _).1]; exact hsz

/-- THE STORED BLOCK: from `BlockTypeNoCompression` (just behind the 3 header bits) to `BlockDone`. -/
theorem sim_stored {P len nlen : Nat} {full full' : Array UInt8} (hend : e.outEnd ≤ e.outLen)
    (hs : c.r.state = sBlockTypeNoCompression) (hsim : Sim e c outA P full) (hrh : c.r.rawHeader.size = 4)
    (hlen : bitsAt e.inp (8 * ((P + 7) / 8)) 16 = some len)
    (hnlen : bitsAt e.inp (8 * ((P + 7) / 8) + 16) 16 = some nlen) (hchk : len + nlen = 65535)
    (hcopy : copyStored e.inp ((P + 7) / 8 + 4) full len = some full') (hroom : full'.size ≤ e.outEnd) :
    ∃ c' outA', Reaches e c outA c' outA' ∧ c'.r.state = sBlockDone ∧
      Sim e c' outA' (8 * ((P + 7) / 8 + 4 + len)) full' ∧ c'.r.finish = c.r.finish ∧ InvZ c c' ∧
      c'.r.rawHeader.size = 4 ∧ c'.r.tableSizes = c.r.tableSizes ∧ c'.r.lenCodes = c.r.lenCodes := by
  have hr := hsim.rep
  have h8 := hsim.nb8
  have hpe := hr.posEq
  -- 1. drop the bits up to the byte boundary
  have hmod : c.r.numBits % 8 = c.r.numBits := Nat.mod_eq_of_lt h8
  obtain ⟨c1, hrb, hr1, h81, hok1, hacc1⟩ := readBits_full hr (bitsAt_of_rep hr (c.r.numBits % 8) (by omega))
  have hst1 : step e c outA = .cont (setState { c1 with r := { c1.r with counter := 0 } } sRawHeader) outA := by
    rw [step_BlockTypeNoCompression hs]; unfold stBlockTypeNoCompression; rw [hrb]
  have h81' := h81 h8
  have hin1 : c1.inPos = c.inPos := by
    have := hok1.inLo; omega
  have hnb1 : c1.r.numBits = 0 := by omega
  have hQ : P + c.r.numBits % 8 = 8 * ((P + 7) / 8) := by omega
  rw [hQ] at hr1
  have hbpos : c1.inPos = (P + 7) / 8 := by have := hr1.posEq; omega
  -- 2. the four header bytes
  obtain ⟨b0, b1, hb0, hb1, hlenv⟩ := bitsAt16_bytes hlen
  have e16 : 8 * ((P + 7) / 8) + 16 = 8 * ((P + 7) / 8 + 2) := by omega
  rw [e16] at hnlen
  obtain ⟨b2, b3, hb2, hb3, hnlenv⟩ := bitsAt16_bytes hnlen
  have i01 : InvS c (setState { c1 with r := { c1.r with counter := 0 } } sRawHeader) := by
    have i := InvS.of_read hok1
    exact ⟨i.finish, ⟨i.z.z0, i.z.z1, i.z.zA, i.z.chk⟩, i.ts, i.lc, i.rhsz⟩
  obtain ⟨d1, hd1, hs1, hc1, hn1, hbb1, hi1, ho1, hrh1, i1⟩ :=
    rawHeader_step (e := e) (c := setState { c1 with r := { c1.r with counter := 0 } } sRawHeader) (outA := outA)
      (k := 0) (b := b0) rfl rfl (by omega) hnb1 (by show e.inp[c1.inPos]? = _; rw [hbpos]; exact hb0)
  obtain ⟨d2, hd2, hs2, hc2, hn2, hbb2, hi2, ho2, hrh2, i2⟩ :=
    rawHeader_step (e := e) (c := d1) (outA := outA) (k := 1) (b := b1) hs1 hc1 (by omega) hn1
      (by rw [hi1]; show e.inp[c1.inPos + 1]? = _; rw [hbpos]; exact hb1)
  obtain ⟨d3, hd3, hs3, hc3, hn3, hbb3, hi3, ho3, hrh3, i3⟩ :=
    rawHeader_step (e := e) (c := d2) (outA := outA) (k := 2) (b := b2) hs2 hc2 (by omega) hn2
      (by rw [hi2, hi1]; show e.inp[c1.inPos + 1 + 1]? = _; rw [hbpos]; exact hb2)
  obtain ⟨d4, hd4, hs4, hc4, hn4, hbb4, hi4, ho4, hrh4, i4⟩ :=
    rawHeader_step (e := e) (c := d3) (outA := outA) (k := 3) (b := b3) hs3 hc3 (by omega) hn3
      (by rw [hi3, hi2, hi1]; show e.inp[c1.inPos + 1 + 1 + 1]? = _; rw [hbpos]; exact hb3)
  have hsz0 : (setState { c1 with r := { c1.r with counter := 0 } } sRawHeader).r.rawHeader.size = 4 := by
    rw [i01.rhsz]; exact hrh
  have hrhv : d4.r.rawHeader = (((c1.r.rawHeader.setIfInBounds 0 b0.toNat).setIfInBounds 1 b1.toNat).setIfInBounds 2 b2.toNat).setIfInBounds 3 b3.toNat := by
    rw [hrh4, hrh3, hrh2, hrh1]; rfl
  have hsz1 : c1.r.rawHeader.size = 4 := hsz0
  have g0 : d4.r.rawHeader.getD 0 0 = b0.toNat := by
    rw [hrhv]; simp [Array.getD_eq_getD_getElem?, Array.getElem?_setIfInBounds, hsz1]
  have g1 : d4.r.rawHeader.getD 1 0 = b1.toNat := by
    rw [hrhv]; simp [Array.getD_eq_getD_getElem?, Array.getElem?_setIfInBounds, hsz1]
  have g2 : d4.r.rawHeader.getD 2 0 = b2.toNat := by
    rw [hrhv]; simp [Array.getD_eq_getD_getElem?, Array.getElem?_setIfInBounds, hsz1]
  have g3 : d4.r.rawHeader.getD 3 0 = b3.toNat := by
    rw [hrhv]; simp [Array.getD_eq_getD_getElem?, Array.getElem?_setIfInBounds, hsz1]
  obtain ⟨d5, hd5, hs5, hc5, hn5, hbb5, hi5, ho5, i5⟩ :=
    rawHeader_done (e := e) (c := d4) (outA := outA) hs4 hc4 hn4 g0 g1 g2 g3 (by rw [← hlenv, ← hnlenv]; exact hchk)
  have r05 : Reaches e c outA d5 outA :=
    (Reaches.of_step hst1).trans ((Reaches.of_step hd1).trans ((Reaches.of_step hd2).trans
      ((Reaches.of_step hd3).trans ((Reaches.of_step hd4).trans (Reaches.of_step hd5)))))
  have i05 : InvS c d5 := i01.trans (i1.trans (i2.trans (i3.trans (i4.trans i5))))
  have hin5 : d5.inPos = (P + 7) / 8 + 4 := by
    rw [hi5, hi4, hi3, hi2, hi1]; show c1.inPos + 1 + 1 + 1 + 1 = _; omega
  have hout5 : d5.outPos = full.size := by
    rw [ho5, ho4, ho3, ho2, ho1]; show c1.outPos = _; rw [hok1.outPos, hsim.outPos]
  have hbuf1 : c1.r.bitBuf = 0 := by
    have := hr1.lt; rw [hnb1] at this; omega
  have hbuf5 : d5.r.bitBuf = 0 := by
    rw [hbb5, hbb4, hbb3, hbb2, hbb1]; exact hbuf1
  rw [← hlenv] at hs5 hc5
  have hsz3 : (P + 7) / 8 + 2 + 1 < e.inp.size := by
    by_cases hlt : (P + 7) / 8 + 2 + 1 < e.inp.size
    · exact hlt
    · simp [Array.getElem?_eq_none (Nat.le_of_not_lt hlt)] at hb3
  have rep0 : ∀ (d : Ctx) (n : Nat), d.inPos = (P + 7) / 8 + 4 + n → d.inPos ≤ e.inp.size → d.r.numBits = 0 →
      d.r.bitBuf = 0 → Rep e.inp d (8 * ((P + 7) / 8 + 4 + n)) := by
    intro d n h1 h2 h3 h4
    exact ⟨h2, by rw [h1, h3]; rfl, by rw [h3, h4]; decide, by rw [h3]; intro i hi; omega⟩
  by_cases hz : len = 0
  · -- empty stored block
    rw [if_pos hz] at hs5
    subst hz
    simp only [copyStored, Option.some.injEq] at hcopy
    subst hcopy
    exact ⟨d5, outA, r05, hs5, ⟨rep0 d5 0 hin5 (by rw [hin5]; omega) hn5 hbuf5,
      by rw [hn5]; decide, hout5, hsim.outEq, hsim.size⟩, i05.finish, i05.z, by rw [i05.rhsz]; exact hrh, i05.ts, i05.lc⟩
  · rw [if_neg hz] at hs5
    obtain ⟨c3, outA3, r3, hs3', hi3', hn3', hb3', ho3', heq3, hsz3', i3'⟩ :=
      sim_memcpy (e := e) (c := d5) (outA := outA) hend hs5 hc5 (by omega) hout5 hsim.outEq hsim.size
        (by rw [hin5]; exact hcopy) hroom
    have hav := (copyStored_spec e.inp len _ full full' hcopy).1 (by omega)
    have i := i05.trans i3'
    exact ⟨c3, outA3, r05.trans r3, hs3', ⟨rep0 c3 len (by rw [hi3', hin5]) (by rw [hi3', hin5]; omega)
        (by rw [hn3', hn5]) (by rw [hb3', hbuf5]),
      by rw [hn3', hn5]; decide, ho3', heq3, hsz3'⟩, i.finish, i.z, by rw [i.rhsz]; exact hrh, i.ts, i.lc⟩

end Model.Core
