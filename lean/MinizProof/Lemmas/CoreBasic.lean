/-
Helper lemmas about the primitives of the decoder model (`Model.Core`): `readBits`, `decodeHuff`,
the three copy loops, and agreement of arrays outside a window. No property statements here.
-/
import MinizProof.Model.Core
namespace Model.Core
open Spec

/-- `a` and `b` have the same size and agree everywhere outside `[lo, hi)`. -/
def SameOutside (a b : Array UInt8) (lo hi : Nat) : Prop :=
  a.size = b.size ∧ ∀ i, (i < lo ∨ hi ≤ i) → a[i]? = b[i]?

theorem SameOutside.refl (a : Array UInt8) (lo hi : Nat) : SameOutside a a lo hi := ⟨rfl, fun _ _ => rfl⟩

theorem SameOutside.mono {a b : Array UInt8} {lo hi lo' hi' : Nat} (h : SameOutside a b lo hi)
    (h1 : lo' ≤ lo) (h2 : hi ≤ hi') : SameOutside a b lo' hi' :=
  ⟨h.1, fun i hi => h.2 i (by omega)⟩

theorem SameOutside.trans {a b c : Array UInt8} {lo hi : Nat} (h1 : SameOutside a b lo hi)
    (h2 : SameOutside b c lo hi) : SameOutside a c lo hi :=
  ⟨h1.1.trans h2.1, fun i hi => (h1.2 i hi).trans (h2.2 i hi)⟩

theorem sameOutside_set (a : Array UInt8) (p : Nat) (v : UInt8) :
    SameOutside (a.setIfInBounds p v) a p (p + 1) := by
  refine ⟨by simp, fun i hi => ?_⟩
  rw [Array.getElem?_setIfInBounds]
  have : p ≠ i := by omega
  simp [this]

theorem copyIn_sameOutside (inp : Array UInt8) (n : Nat) : ∀ (out : Array UInt8) (p q : Nat),
    SameOutside (copyIn inp out p q n) out p (p + n) := by
  induction n with
  | zero => intro out p q; exact SameOutside.refl _ _ _
  | succ n ih =>
    intro out p q
    unfold copyIn
    exact ((ih _ (p + 1) (q + 1)).mono (by omega) (by omega)).trans
      ((sameOutside_set out p _).mono (by omega) (by omega))

theorem copyBytes_sameOutside (ringSize : Nat) (ring : Bool) (n : Nat) : ∀ (out : Array UInt8) (p src : Nat),
    SameOutside (copyBytes out p src ringSize ring n) out p (p + n) := by
  induction n with
  | zero => intro out p src; exact SameOutside.refl _ _ _
  | succ n ih =>
    intro out p src
    unfold copyBytes
    exact ((ih _ (p + 1) (src + 1)).mono (by omega) (by omega)).trans
      ((sameOutside_set out p _).mono (by omega) (by omega))

/-- What one bit-level read may change: the bit buffer and the input cursor, nothing else. -/
structure ReadOK (inp : Array UInt8) (c c' : Ctx) : Prop where
  outPos : c'.outPos = c.outPos
  regs   : c'.r = { c.r with bitBuf := c'.r.bitBuf, numBits := c'.r.numBits }
  inLo   : c.inPos ≤ c'.inPos
  inHi   : c'.inPos ≤ inp.size

theorem ReadOK.refl {inp : Array UInt8} {c : Ctx} (h : c.inPos ≤ inp.size) : ReadOK inp c c :=
  ⟨rfl, rfl, Nat.le_refl _, h⟩

theorem ReadOK.trans {inp : Array UInt8} {a b c : Ctx} (h1 : ReadOK inp a b) (h2 : ReadOK inp b c) :
    ReadOK inp a c := by
  refine ⟨h2.outPos.trans h1.outPos, ?_, Nat.le_trans h1.inLo h2.inLo, h2.inHi⟩
  rw [h2.regs, h1.regs]

theorem ReadOK.state {inp : Array UInt8} {c c' : Ctx} (h : ReadOK inp c c') : c'.r.state = c.r.state := by
  rw [h.regs]

/-- pulling one byte into the bit buffer -/
def pull (c : Ctx) (b : UInt8) : Ctx :=
  { c with r := { c.r with bitBuf := c.r.bitBuf ||| (b.toNat <<< c.r.numBits), numBits := c.r.numBits + 8 }, inPos := c.inPos + 1 }

theorem pull_ok {inp : Array UInt8} {c : Ctx} {b : UInt8} (h : inp[c.inPos]? = some b) :
    ReadOK inp c (pull c b) := by
  have : c.inPos < inp.size := by
    by_cases hlt : c.inPos < inp.size
    · exact hlt
    · simp [Array.getElem?_eq_none (Nat.le_of_not_lt hlt)] at h
  exact ⟨rfl, rfl, by simp [pull], by simp [pull]; omega⟩

theorem getElem?_none_size {inp : Array UInt8} {i : Nat} (h : inp[i]? = none) (hi : i ≤ inp.size) :
    i = inp.size := by
  have := Array.getElem?_eq_none_iff.mp h
  omega

/-- `readBitsAux` with enough fuel: bounds, frame, bit accounting and starvation. -/
theorem readBitsAux_spec (inp : Array UInt8) (amount : Nat) : ∀ (fuel : Nat) (c : Ctx),
    c.inPos ≤ inp.size → inp.size - c.inPos < fuel →
    let p := readBitsAux inp amount fuel c
    ReadOK inp c p.1 ∧
    (p.2 = none → p.1.inPos = inp.size ∧ p.1.r.numBits < amount ∧
        p.1.r.numBits = c.r.numBits + 8 * (p.1.inPos - c.inPos)) ∧
    (∀ v, p.2 = some v → p.1.r.numBits + amount = c.r.numBits + 8 * (p.1.inPos - c.inPos)) := by
  intro fuel
  induction fuel with
  | zero => intro c _ h; omega
  | succ fuel ih =>
    intro c hle hf
    unfold readBitsAux
    by_cases hlt : c.r.numBits < amount
    · simp only [hlt, ↓reduceIte]
      cases hb : inp[c.inPos]? with
      | none =>
        have := getElem?_none_size hb hle
        simp only
        exact ⟨ReadOK.refl hle, fun _ => ⟨this, hlt, by simp⟩, by intro v hv; simp at hv⟩
      | some b =>
        have hok := pull_ok hb
        have hlt' : c.inPos < inp.size := by
          have := hok.inHi; simp [pull] at this; omega
        have := ih (pull c b) hok.inHi (by simp [pull]; omega)
        simp only
        change let p := readBitsAux inp amount fuel (pull c b); _
        intro p
        obtain ⟨h1, h2, h3⟩ := this
        refine ⟨hok.trans h1, ?_, ?_⟩
        · intro hn
          obtain ⟨a1, a2, a3⟩ := h2 hn
          refine ⟨a1, a2, ?_⟩
          have := h1.inLo
          simp [pull] at a3 this ⊢
          omega
        · intro v hv
          have a3 := h3 v hv
          have := h1.inLo
          simp [pull] at a3 this ⊢
          omega
    · simp only [hlt, ↓reduceIte]
      refine ⟨⟨rfl, rfl, Nat.le_refl _, hle⟩, by intro h; simp at h, ?_⟩
      intro v _
      simp
      omega

theorem readBits_spec (inp : Array UInt8) (amount : Nat) (c : Ctx) (hle : c.inPos ≤ inp.size) :
    let p := readBits inp amount c
    ReadOK inp c p.1 ∧
    (p.2 = none → p.1.inPos = inp.size ∧ p.1.r.numBits < amount ∧
        p.1.r.numBits = c.r.numBits + 8 * (p.1.inPos - c.inPos)) ∧
    (∀ v, p.2 = some v → p.1.r.numBits + amount = c.r.numBits + 8 * (p.1.inPos - c.inPos)) :=
  readBitsAux_spec inp amount _ c hle (by omega)

theorem decodeBufAux_len (c : Code) (buf n : Nat) : ∀ (fuel len used code first index s l : Nat),
    decodeBufAux c buf n fuel len used code first index = .sym s l → used < l ∧ l ≤ n := by
  intro fuel
  induction fuel with
  | zero => intro len used code first index s l h; simp [decodeBufAux] at h
  | succ fuel ih =>
    intro len used code first index s l h
    unfold decodeBufAux at h
    split at h
    · simp at h
    · split at h
      · simp at h
      · simp only at h
        split at h
        · simp only [BufSym.sym.injEq] at h
          omega
        · have := ih _ _ _ _ _ _ _ h
          omega

theorem decodeBuf_len {c : Code} {buf n s l : Nat} (h : decodeBuf c buf n = .sym s l) : 1 ≤ l ∧ l ≤ n := by
  have := decodeBufAux_len c buf n _ _ _ _ _ _ _ _ h
  omega

/-- `decodeHuffAux` with enough fuel: bounds, frame, starvation; a decoded symbol uses ≥ 1 bit. -/
theorem decodeHuffAux_spec (inp : Array UInt8) (code : Code) : ∀ (fuel : Nat) (c : Ctx),
    c.inPos ≤ inp.size → inp.size - c.inPos < fuel →
    let p := decodeHuffAux inp code fuel c
    ReadOK inp c p.1 ∧
    (p.2 = none → p.1.inPos = inp.size ∧ p.1.r.numBits = c.r.numBits + 8 * (p.1.inPos - c.inPos)) ∧
    (∀ v, p.2 = some v → ∃ l, 1 ≤ l ∧ p.1.r.numBits + l = c.r.numBits + 8 * (p.1.inPos - c.inPos)) := by
  intro fuel
  induction fuel with
  | zero => intro c _ h; omega
  | succ fuel ih =>
    intro c hle hf
    have hpull : ∀ b, inp[c.inPos]? = some b →
        let p := decodeHuffAux inp code fuel (pull c b)
        ReadOK inp c p.1 ∧
        (p.2 = none → p.1.inPos = inp.size ∧ p.1.r.numBits = c.r.numBits + 8 * (p.1.inPos - c.inPos)) ∧
        (∀ v, p.2 = some v → ∃ l, 1 ≤ l ∧ p.1.r.numBits + l = c.r.numBits + 8 * (p.1.inPos - c.inPos)) := by
      intro b hb
      have hok := pull_ok hb
      have hlt' : c.inPos < inp.size := by
        have := hok.inHi; simp [pull] at this; omega
      have := ih (pull c b) hok.inHi (by simp [pull]; omega)
      have hpi : (pull c b).inPos = c.inPos + 1 := rfl
      have hpn : (pull c b).r.numBits = c.r.numBits + 8 := rfl
      intro p
      obtain ⟨h1, h2, h3⟩ := this
      refine ⟨hok.trans h1, ?_, ?_⟩
      · intro hn
        obtain ⟨a1, a3⟩ := h2 hn
        refine ⟨a1, ?_⟩
        have := h1.inLo
        rw [hpi] at this a3
        rw [hpn] at a3
        show (decodeHuffAux inp code fuel (pull c b)).1.r.numBits = _ + 8 * ((decodeHuffAux inp code fuel (pull c b)).1.inPos - _)
        omega
      · intro v hv
        obtain ⟨l, hl, a3⟩ := h3 v hv
        refine ⟨l, hl, ?_⟩
        have := h1.inLo
        rw [hpi] at this a3
        rw [hpn] at a3
        show (decodeHuffAux inp code fuel (pull c b)).1.r.numBits + l = _ + 8 * ((decodeHuffAux inp code fuel (pull c b)).1.inPos - _)
        omega
    have hnone : inp[c.inPos]? = none →
        ReadOK inp c c ∧ (c.inPos = inp.size ∧ c.r.numBits = c.r.numBits + 8 * (c.inPos - c.inPos)) := by
      intro hb
      exact ⟨ReadOK.refl hle, getElem?_none_size hb hle, by simp⟩
    unfold decodeHuffAux
    cases hd : decodeBuf code c.r.bitBuf c.r.numBits with
    | sym s len =>
      have hl := decodeBuf_len hd
      simp only
      refine ⟨⟨rfl, rfl, Nat.le_refl _, hle⟩, by intro h; simp at h, ?_⟩
      intro v _
      exact ⟨len, hl.1, by simp; omega⟩
    | invalid =>
      simp only
      by_cases h1 : c.r.numBits ≥ 1
      · simp only [h1, ↓reduceIte]
        refine ⟨⟨rfl, rfl, Nat.le_refl _, hle⟩, by intro h; simp at h, ?_⟩
        intro v _
        exact ⟨1, Nat.le_refl _, by simp; omega⟩
      · simp only [h1, ↓reduceIte]
        cases hb : inp[c.inPos]? with
        | none =>
          obtain ⟨a, b⟩ := hnone hb
          exact ⟨a, fun _ => b, by intro v hv; simp at hv⟩
        | some b => exact hpull b hb
    | short =>
      simp only
      cases hb : inp[c.inPos]? with
      | none =>
        obtain ⟨a, b⟩ := hnone hb
        exact ⟨a, fun _ => b, by intro v hv; simp at hv⟩
      | some b => exact hpull b hb

theorem decodeHuff_spec (inp : Array UInt8) (code : Code) (c : Ctx) (hle : c.inPos ≤ inp.size) :
    let p := decodeHuff inp code c
    ReadOK inp c p.1 ∧
    (p.2 = none → p.1.inPos = inp.size ∧ p.1.r.numBits = c.r.numBits + 8 * (p.1.inPos - c.inPos)) ∧
    (∀ v, p.2 = some v → ∃ l, 1 ≤ l ∧ p.1.r.numBits + l = c.r.numBits + 8 * (p.1.inPos - c.inPos)) :=
  decodeHuffAux_spec inp code _ c hle (by omega)

end Model.Core
