/-
Arithmetic facts about the fixed-width operations of Gen/Prelude.lean: an operation whose exact
result is in range is the exact operation.
-/
import MinizProof.Gen.Prelude
namespace G

theorem two_pow_pos (b : Nat) : (0 : Int) < two ^ b := by
  unfold two; exact Int.pow_pos (by decide)

theorem wrap_u_of_lt {b : Nat} {x : Int} (h0 : 0 ≤ x) (h1 : x < two ^ b) : wrap (.u b) x = x := by
  unfold wrap
  exact Int.emod_eq_of_lt h0 h1

theorem two_pow_64 : two ^ 64 = 18446744073709551616 := by unfold two; decide
theorem two_pow_32 : two ^ 32 = 4294967296 := by unfold two; decide
theorem two_pow_16 : two ^ 16 = 65536 := by unfold two; decide
theorem two_pow_8 : two ^ 8 = 256 := by unfold two; decide

theorem add_u64_of_lt {a b : Int} (h0 : 0 ≤ a + b) (h1 : a + b < 18446744073709551616) :
    add (.u 64) a b = a + b := by
  unfold add; exact wrap_u_of_lt h0 (by rw [two_pow_64]; exact h1)

theorem mul_u64_of_lt {a b : Int} (h0 : 0 ≤ a * b) (h1 : a * b < 18446744073709551616) :
    mul (.u 64) a b = a * b := by
  unfold mul; exact wrap_u_of_lt h0 (by rw [two_pow_64]; exact h1)

theorem pat_nat (b : Nat) (a : Nat) (h : a < 2 ^ b) : pat b (a : Int) = a := by
  unfold pat two
  have h2 : ((2:Int) ^ b) = ((2 ^ b : Nat) : Int) := by norm_cast
  rw [h2, Int.emod_eq_of_lt (by omega) (by exact_mod_cast h)]
  simp

theorem band_u64_nat (a b : Nat) (ha : a < 2 ^ 64) (hb : b < 2 ^ 64) :
    band (.u 64) (a : Int) (b : Int) = ((a &&& b : Nat) : Int) := by
  unfold band Ty.bits
  rw [pat_nat 64 a ha, pat_nat 64 b hb]
  have hle : a &&& b ≤ a := Nat.and_le_left
  show wrap (.u 64) ((a &&& b : Nat) : Int) = _
  apply wrap_u_of_lt
  · exact Int.natCast_nonneg _
  · rw [two_pow_64]; omega

theorem band_u32_nat (a b : Nat) (ha : a < 2 ^ 32) (hb : b < 2 ^ 32) :
    band (.u 32) (a : Int) (b : Int) = ((a &&& b : Nat) : Int) := by
  unfold band Ty.bits
  rw [pat_nat 32 a ha, pat_nat 32 b hb]
  have hle : a &&& b ≤ a := Nat.and_le_left
  show wrap (.u 32) ((a &&& b : Nat) : Int) = _
  apply wrap_u_of_lt
  · exact Int.natCast_nonneg _
  · rw [two_pow_32]; omega

/-- Testing one flag bit: `f & 2^k ≠ 0` iff bit `k` of `f` is set. -/
theorem and_two_pow_ne_zero (f k : Nat) : (f &&& 2 ^ k ≠ 0) ↔ f / 2 ^ k % 2 = 1 := by
  have h2 := @Nat.testBit_eq_decide_div_mod_eq k f
  constructor
  · intro h
    by_cases ht : f.testBit k
    · rw [h2] at ht; simpa using ht
    · exfalso; apply h
      apply Nat.eq_of_testBit_eq
      intro j
      simp only [Nat.testBit_and, Nat.testBit_two_pow, Nat.zero_testBit]
      by_cases hj : k = j
      · subst hj; simp [ht]
      · simp [hj]
  · intro h hz
    have : (f &&& 2 ^ k).testBit k = true := by
      simp only [Nat.testBit_and, Nat.testBit_two_pow]
      simp [h2, h]
    rw [hz] at this
    simp at this

end G
