/-
The converse of the refinement: where the specification does NOT accept (it rejects, or the data
ends first), the decoder model does not report `Done`. The forward lemmas (`sim_*`) carry the model
along the accepted part of the stream; this file adds, for every way the specification stops, the
model's matching stop — a failure state, a starved exit, or (when the granted window is too small for
what the stream produces) a full window — none of which is `Done`.
Helper lemmas for Props/C04.
-/
import MinizProof.Lemmas.CoreSound
import MinizProof.Lemmas.CoreZlib
import MinizProof.Lemmas.CoreCalls
set_option linter.unusedVariables false
set_option linter.unusedSimpArgs false
set_option maxRecDepth 100000
namespace Model.Core
open Spec

/-- From here the run never reports `Done`, whatever the fuel. -/
def Stuck (e : Env) (c : Ctx) (o : Array UInt8) : Prop := ∀ f, (run e f c o).1 ≠ stDone

theorem modelError_ne_done : stModelError ≠ stDone := by decide

theorem Stuck.of_fin {e : Env} {c c' : Ctx} {o o' : Array UInt8} {st : Int}
    (h : step e c o = .fin st c' o') (hne : st ≠ stDone) : Stuck e c o := by
  intro f
  cases f with
  | zero => exact modelError_ne_done
  | succ f => rw [run, h]; exact hne

theorem Stuck.of_reaches {e : Env} {c c' : Ctx} {o o' : Array UInt8}
    (h : Reaches e c o c' o') (hs : Stuck e c' o') : Stuck e c o := by
  intro f hd
  obtain ⟨k, hk⟩ := h
  have hne : (run e f c o).1 ≠ stModelError := by rw [hd]; decide
  have := run_fuel_mono e f c o hne (f + k) (by omega)
  rw [hk] at this
  exact hs f (by rw [this]; exact hd)

theorem Stuck.of_step {e : Env} {c c' : Ctx} {o o' : Array UInt8}
    (h : step e c o = .cont c' o') (hs : Stuck e c' o') : Stuck e c o :=
  Stuck.of_reaches (Reaches.of_step h) hs

/-- A failure state never leads to `Done`. -/
theorem Stuck.of_failure {e : Env} {c : Ctx} {o : Array UInt8} (h : sDoneForever < c.r.state) : Stuck e c o := by
  have h1 : step e c o = .fin stFailed c o := by unfold step; exact stepAt_failed _ h e c o
  exact Stuck.of_fin h1 (by decide)

theorem eoi_ne_done (e : Env) : e.eoi ≠ stDone := fun h => done_ne_eoi e h.symm

/-! ### Reads that fail -/

theorem bitsAt_none_short (data : Array UInt8) : ∀ (n pos : Nat), bitsAt data pos n = none → 8 * data.size < pos + n := by
  intro n
  induction n with
  | zero => intro pos h; simp [bitsAt] at h
  | succ n ih =>
    intro pos h
    unfold bitsAt at h
    cases hb : bitAt data pos with
    | none =>
      unfold bitAt at hb
      cases hg : data[pos / 8]? with
      | none =>
        have := Array.getElem?_eq_none_iff.mp hg
        omega
      | some b => simp [hg] at hb
    | some b =>
      cases hr : bitsAt data (pos + 1) n with
      | none => have := ih _ hr; omega
      | some r => simp [hb, hr] at h

/-- `readBits` under the representation invariant when the stream is too short for the field. -/
theorem readBits_short {data : Array UInt8} {c : Ctx} {pos n : Nat} (hr : Rep data c pos)
    (h : bitsAt data pos n = none) : (readBits data n c).2 = none := by
  have hshort := bitsAt_none_short data n pos h
  have hspec := readBits_spec data n c hr.inLe
  simp only at hspec
  obtain ⟨hok, _, h3⟩ := hspec
  cases hv : (readBits data n c).2 with
  | none => rfl
  | some v =>
    exfalso
    have := h3 v hv
    have hp := hr.posEq
    have hhi := hok.inHi
    have hlo := hok.inLo
    omega

/-- Lock-step comparison when the specification's code walk does not end in a symbol. -/
theorem decodeBufAux_of_nosym (code : Code) (data : Array UInt8) (buf n p0 : Nat)
    (hbits : ∀ i, i < n → bitAt data (p0 + i) = some (bit buf i)) :
    ∀ (fuel len used cd first index : Nat),
    (decodeSymAux code data fuel len (p0 + used) cd first index = .short →
      decodeBufAux code buf n fuel len used cd first index = .short) ∧
    (decodeSymAux code data fuel len (p0 + used) cd first index = .invalid →
      decodeBufAux code buf n fuel len used cd first index = .invalid ∨
      decodeBufAux code buf n fuel len used cd first index = .short) := by
  intro fuel
  induction fuel with
  | zero =>
    intro len used cd first index
    exact ⟨fun h => by simp [decodeSymAux] at h, fun _ => .inl rfl⟩
  | succ fuel ih =>
    intro len used cd first index
    unfold decodeSymAux decodeBufAux
    by_cases hidx : index ≥ code.syms.size
    · simp only [hidx, ↓reduceIte]
      exact ⟨fun h => by simp at h, fun _ => .inl trivial⟩
    · simp only [hidx, ↓reduceIte]
      by_cases hu : used ≥ n
      · simp only [hu, ↓reduceIte]
        exact ⟨fun _ => trivial, fun _ => .inr trivial⟩
      · simp only [hu, ↓reduceIte]
        have hb := hbits used (by omega)
        rw [hb]
        simp only
        have hbit : buf >>> used % 2 = bit buf used := rfl
        rw [hbit]
        by_cases hlt : cd + bit buf used < first + code.count.getD len 0
        · simp only [hlt, ↓reduceIte]
          exact ⟨fun h => by simp at h, fun h => by simp at h⟩
        · simp only [hlt, ↓reduceIte]
          have e : p0 + used + 1 = p0 + (used + 1) := by omega
          rw [e]
          exact ih _ _ _ _ _

/-- `decodeHuff` when the data ends inside a code. -/
theorem decodeHuffAux_short (data : Array UInt8) (code : Code) : ∀ (fuel : Nat) (c : Ctx) (pos : Nat),
    Rep data c pos → data.size - c.inPos < fuel → decodeSym code data pos = .short →
    (decodeHuffAux data code fuel c).2 = none := by
  intro fuel
  induction fuel with
  | zero => intro c pos _ h; omega
  | succ fuel ih =>
    intro c pos hr hf hs
    have hd : decodeBuf code c.r.bitBuf c.r.numBits = .short :=
      (decodeBufAux_of_nosym code data c.r.bitBuf c.r.numBits pos hr.bits 15 1 0 0 0 0).1 (by rw [Nat.add_zero]; exact hs)
    unfold decodeHuffAux
    rw [hd]
    simp only
    cases hb : data[c.inPos]? with
    | none => rfl
    | some b =>
      have hlt' : c.inPos < data.size := by
        by_cases hlt : c.inPos < data.size
        · exact hlt
        · simp [Array.getElem?_eq_none (Nat.le_of_not_lt hlt)] at hb
      exact ih (pull c b) pos (hr.pull hb) (by simp [pull]; omega) hs

theorem decodeHuff_short {data : Array UInt8} {code : Code} {c : Ctx} {pos : Nat} (hr : Rep data c pos)
    (hs : decodeSym code data pos = .short) : (decodeHuff data code c).2 = none :=
  decodeHuffAux_short data code _ c pos hr (Nat.lt_succ_self _) hs

/-- `decodeHuff` on a bit pattern no code of an incomplete code matches: starved, or the filler
    symbol 286. -/
theorem decodeHuffAux_invalid (data : Array UInt8) (code : Code) : ∀ (fuel : Nat) (c : Ctx) (pos : Nat),
    Rep data c pos → data.size - c.inPos < fuel → decodeSym code data pos = .invalid →
    (decodeHuffAux data code fuel c).2 = none ∨ (decodeHuffAux data code fuel c).2 = some 286 := by
  intro fuel
  induction fuel with
  | zero => intro c pos _ h; omega
  | succ fuel ih =>
    intro c pos hr hf hs
    have hd := (decodeBufAux_of_nosym code data c.r.bitBuf c.r.numBits pos hr.bits 15 1 0 0 0 0).2 (by rw [Nat.add_zero]; exact hs)
    have hpull : ∀ b, data[c.inPos]? = some b →
        (decodeHuffAux data code fuel (pull c b)).2 = none ∨ (decodeHuffAux data code fuel (pull c b)).2 = some 286 := by
      intro b hb
      have hlt' : c.inPos < data.size := by
        by_cases hlt : c.inPos < data.size
        · exact hlt
        · simp [Array.getElem?_eq_none (Nat.le_of_not_lt hlt)] at hb
      exact ih (pull c b) pos (hr.pull hb) (by simp [pull]; omega) hs
    unfold decodeHuffAux
    rcases hd with hd | hd
    · rw [show decodeBuf code c.r.bitBuf c.r.numBits = .invalid from hd]
      simp only
      by_cases h1 : c.r.numBits ≥ 1
      · simp only [h1, ↓reduceIte]; exact .inr trivial
      · simp only [h1, ↓reduceIte]
        cases hb : data[c.inPos]? with
        | none => exact .inl rfl
        | some b => exact hpull b hb
    · rw [show decodeBuf code c.r.bitBuf c.r.numBits = .short from hd]
      simp only
      cases hb : data[c.inPos]? with
      | none => exact .inl rfl
      | some b => exact hpull b hb

theorem decodeHuff_invalid {data : Array UInt8} {code : Code} {c : Ctx} {pos : Nat} (hr : Rep data c pos)
    (hs : decodeSym code data pos = .invalid) :
    (decodeHuff data code c).2 = none ∨ (decodeHuff data code c).2 = some 286 :=
  decodeHuffAux_invalid data code _ c pos hr (Nat.lt_succ_self _) hs

/-! ### One token: the model's stop for every way the specification's token decoding stops -/

variable {e : Env} {c : Ctx} {outA : Array UInt8}

theorem Stuck.of_cont_failure {c' : Ctx} {o' : Array UInt8} (h : step e c outA = .cont c' o')
    (hf : sDoneForever < c'.r.state) : Stuck e c outA :=
  Stuck.of_step h (Stuck.of_failure hf)

theorem litlen_none_stuck (hs : c.r.state = sDecodeLitlen) (h : (decodeHuff e.inp c.r.litCode c).2 = none) :
    Stuck e c outA := by
  have : step e c outA = .fin e.eoi (decodeHuff e.inp c.r.litCode c).1 outA := by
    rw [step_DecodeLitlen hs]; unfold stDecodeLitlen
    generalize decodeHuff e.inp c.r.litCode c = q at h
    obtain ⟨c1, o⟩ := q; simp only at h; subst h; rfl
  exact Stuck.of_fin this (eoi_ne_done e)

theorem dist_none_stuck (hs : c.r.state = sDecodeDistance) (h : (decodeHuff e.inp c.r.distCode c).2 = none) :
    Stuck e c outA := by
  have : step e c outA = .fin e.eoi (decodeHuff e.inp c.r.distCode c).1 outA := by
    rw [step_DecodeDistance hs]; unfold stDecodeDistance
    generalize decodeHuff e.inp c.r.distCode c = q at h
    obtain ⟨c1, o⟩ := q; simp only at h; subst h; rfl
  exact Stuck.of_fin this (eoi_ne_done e)

theorem rebl_none_stuck (hs : c.r.state = sReadExtraBitsLitlen) (h : (readBits e.inp c.r.numExtra c).2 = none) :
    Stuck e c outA := by
  have : step e c outA = .fin e.eoi (readBits e.inp c.r.numExtra c).1 outA := by
    rw [step_ReadExtraBitsLitlen hs]; unfold stReadExtraBitsLitlen
    generalize readBits e.inp c.r.numExtra c = q at h
    obtain ⟨c1, o⟩ := q; simp only at h; subst h; rfl
  exact Stuck.of_fin this (eoi_ne_done e)

theorem rebd_none_stuck (hs : c.r.state = sReadExtraBitsDistance) (h : (readBits e.inp c.r.numExtra c).2 = none) :
    Stuck e c outA := by
  have : step e c outA = .fin e.eoi (readBits e.inp c.r.numExtra c).1 outA := by
    rw [step_ReadExtraBitsDistance hs]; unfold stReadExtraBitsDistance
    generalize readBits e.inp c.r.numExtra c = q at h
    obtain ⟨c1, o⟩ := q; simp only at h; subst h; rfl
  exact Stuck.of_fin this (eoi_ne_done e)

/-- A literal/length symbol above 285 (or the filler of an incomplete code) ends in `InvalidLitlen`. -/
theorem litlen_bad_stuck (hs : c.r.state = sWriteSymbol) (h1 : c.r.counter % 512 > 285) : Stuck e c outA := by
  have hc : 256 ≤ c.r.counter := by omega
  refine Stuck.of_step (micro_writeSymbol_hi (e := e) (outA := outA) hs hc) ?_
  have h2 : ∃ c', step e (setState c sHuffDecodeOuterLoop1) outA = .cont c' outA ∧ c'.r.state = sInvalidLitlen := by
    rw [step_HuffDecodeOuterLoop1 rfl]
    unfold stHuffDecodeOuterLoop1
    have hne : ¬ c.r.counter % 512 = 256 := by omega
    show ∃ c', (if c.r.counter % 512 = 256 then _ else if c.r.counter % 512 > 285 then _ else _) = _ ∧ _
    rw [if_neg hne, if_pos h1]
    exact ⟨_, rfl, rfl⟩
  obtain ⟨c', h2, hs2⟩ := h2
  exact Stuck.of_cont_failure h2 (by rw [hs2]; decide)

/-- `DecodeLitlen` when the decoder answers the filler symbol 286. -/
theorem litlen_286_stuck (hs : c.r.state = sDecodeLitlen) (h : (decodeHuff e.inp c.r.litCode c).2 = some 286) :
    Stuck e c outA := by
  have : step e c outA = .cont (setState { (decodeHuff e.inp c.r.litCode c).1 with
      r := { (decodeHuff e.inp c.r.litCode c).1.r with counter := 286 } } sWriteSymbol) outA := by
    rw [step_DecodeLitlen hs]; unfold stDecodeLitlen
    generalize decodeHuff e.inp c.r.litCode c = q at h
    obtain ⟨c1, o⟩ := q; simp only at h; subst h; rfl
  exact Stuck.of_step this (litlen_bad_stuck rfl (by show 286 % 512 > 285; decide))

/-- `DecodeDistance` on a distance symbol above 29 (or the filler 286). -/
theorem dist_bad_stuck {d : Nat} (hs : c.r.state = sDecodeDistance) (h : (decodeHuff e.inp c.r.distCode c).2 = some d)
    (hd : d > 29) : Stuck e c outA := by
  have : step e c outA = .cont (setState (decodeHuff e.inp c.r.distCode c).1 sInvalidDist) outA := by
    rw [step_DecodeDistance hs]; unfold stDecodeDistance
    generalize decodeHuff e.inp c.r.distCode c = q at h
    obtain ⟨c1, o⟩ := q; simp only at h; subst h
    simp only [hd, ↓reduceIte]
  exact Stuck.of_cont_failure this (by show sDoneForever < sInvalidDist; decide)

/-- From `DecodeLitlen` over a length symbol to the state that reads its extra bits (or, with none,
    the distance symbol). -/
theorem reach_len {pos s p1 : Nat} {full : Array UInt8}
    (hsim : Sim e c outA pos full) (hs : c.r.state = sDecodeLitlen)
    (hd : decodeSym c.r.litCode e.inp pos = .sym s p1) (h1 : 256 < s) (h2 : s ≤ 285) :
    ∃ c3, Reaches e c outA c3 outA ∧
      c3.r.state = (if (lengthBaseExtra s).2 ≠ 0 then sReadExtraBitsLitlen else sDecodeDistance) ∧
      c3.r.counter = (lengthBaseExtra s).1 ∧ c3.r.numExtra = (lengthBaseExtra s).2 ∧
      Rep e.inp c3 p1 ∧ c3.outPos = c.outPos ∧ Inv c c3 ∧ c3.r.numBits < 8 := by
  obtain ⟨c1, hst1, hs1, hc1, hr1, ho1, i1, h81⟩ := micro_decodeLitlen (outA := outA) hs hsim.rep hd
  have hst2 := micro_writeSymbol_hi (e := e) (outA := outA) hs1 (by rw [hc1]; omega)
  obtain ⟨c3, hst3, hs3, hc3, hn3, ho3, hi3, hnb3, hb3, i3⟩ :=
    micro_hol1_len (e := e) (c := setState c1 sHuffDecodeOuterLoop1) (outA := outA) rfl hc1 h1 h2
  exact ⟨c3, (Reaches.of_step hst1).trans ((Reaches.of_step hst2).trans (Reaches.of_step hst3)), hs3, hc3, hn3,
    hr1.of_eq hi3 hnb3 hb3, by rw [ho3]; exact ho1,
    i1.trans ⟨i3.finish, i3.z0, i3.z1, i3.zA, i3.chk, i3.lit, i3.dist, i3.rh, i3.ts, i3.lc⟩,
    by rw [hnb3]; exact h81 hsim.nb8⟩

/-- … on to the distance symbol. -/
theorem reach_dist {pos s p1 lx : Nat} {full : Array UInt8}
    (hsim : Sim e c outA pos full) (hs : c.r.state = sDecodeLitlen)
    (hd : decodeSym c.r.litCode e.inp pos = .sym s p1) (h1 : 256 < s) (h2 : s ≤ 285)
    (hlx : bitsAt e.inp p1 (lengthBaseExtra s).2 = some lx) :
    ∃ c4, Reaches e c outA c4 outA ∧ c4.r.state = sDecodeDistance ∧
      c4.r.counter = (lengthBaseExtra s).1 + lx ∧ Rep e.inp c4 (p1 + (lengthBaseExtra s).2) ∧
      c4.outPos = c.outPos ∧ Inv c c4 ∧ c4.r.numBits < 8 := by
  obtain ⟨c3, r03, hs3, hc3, hn3, hr3, ho3', i13, h83⟩ := reach_len hsim hs hd h1 h2
  by_cases hle : (lengthBaseExtra s).2 ≠ 0
  · rw [if_pos hle] at hs3
    obtain ⟨c4, hst4, hs4, hc4, hr4, ho4, i4, h84⟩ := micro_rebl (outA := outA) hs3 hr3 (by rw [hn3]; exact hlx)
    exact ⟨c4, r03.trans (Reaches.of_step hst4), hs4, by rw [hc4, hc3], by rw [hn3] at hr4; exact hr4,
      by rw [ho4, ho3'], i13.trans i4, h84 h83⟩
  · rw [if_neg hle] at hs3
    have hz : (lengthBaseExtra s).2 = 0 := by omega
    rw [hz, bitsAt_zero] at hlx
    simp only [Option.some.injEq] at hlx
    exact ⟨c3, r03, hs3, by rw [hc3, ← hlx]; simp, by rw [hz]; exact hr3, ho3', i13, h83⟩

/-- … over the distance symbol to the state that reads its extra bits (or, with none, the copy). -/
theorem reach_dist2 {pos s p1 lx d p3 : Nat} {full : Array UInt8}
    (hsim : Sim e c outA pos full) (hs : c.r.state = sDecodeLitlen)
    (hd : decodeSym c.r.litCode e.inp pos = .sym s p1) (h1 : 256 < s) (h2 : s ≤ 285)
    (hlx : bitsAt e.inp p1 (lengthBaseExtra s).2 = some lx)
    (hdd : decodeSym c.r.distCode e.inp (p1 + (lengthBaseExtra s).2) = .sym d p3) (hd29 : d ≤ 29) :
    ∃ c5, Reaches e c outA c5 outA ∧
      c5.r.state = (if (distBaseExtra d).2 ≠ 0 then sReadExtraBitsDistance else sHuffDecodeOuterLoop2) ∧
      c5.r.dist = (distBaseExtra d).1 ∧ c5.r.numExtra = (distBaseExtra d).2 ∧
      c5.r.counter = (lengthBaseExtra s).1 + lx ∧ Rep e.inp c5 p3 ∧ c5.outPos = c.outPos ∧ Inv c c5 ∧
      c5.r.numBits < 8 := by
  obtain ⟨c4, r04, hs4, hc4, hr4, ho4, i4, h84⟩ := reach_dist hsim hs hd h1 h2 hlx
  obtain ⟨c5, hst5, hs5, hdist5, hn5, hc5, hr5, ho5, i5, h85⟩ :=
    micro_decodeDistance (outA := outA) hs4 hr4 (by rw [i4.dist]; exact hdd) hd29
  exact ⟨c5, r04.trans (Reaches.of_step hst5), hs5, hdist5, hn5, by rw [hc5, hc4], hr5, by rw [ho5, ho4],
    i4.trans i5, h85 h84⟩

/-- … to the copy. -/
theorem reach_match {pos s p1 lx d p3 dx : Nat} {full : Array UInt8}
    (hsim : Sim e c outA pos full) (hs : c.r.state = sDecodeLitlen)
    (hd : decodeSym c.r.litCode e.inp pos = .sym s p1) (h1 : 256 < s) (h2 : s ≤ 285)
    (hlx : bitsAt e.inp p1 (lengthBaseExtra s).2 = some lx)
    (hdd : decodeSym c.r.distCode e.inp (p1 + (lengthBaseExtra s).2) = .sym d p3) (hd29 : d ≤ 29)
    (hdx : bitsAt e.inp p3 (distBaseExtra d).2 = some dx) :
    ∃ c6, Reaches e c outA c6 outA ∧ c6.r.state = sHuffDecodeOuterLoop2 ∧
      c6.r.dist = (distBaseExtra d).1 + dx ∧ c6.r.counter = (lengthBaseExtra s).1 + lx ∧
      Rep e.inp c6 (p3 + (distBaseExtra d).2) ∧ c6.outPos = c.outPos ∧ Inv c c6 ∧ c6.r.numBits < 8 := by
  obtain ⟨c5, r05, hs5, hdist5, hn5, hc5, hr5, ho5, i5, h85⟩ := reach_dist2 hsim hs hd h1 h2 hlx hdd hd29
  by_cases hde : (distBaseExtra d).2 ≠ 0
  · rw [if_pos hde] at hs5
    obtain ⟨c6, hst6, hs6, hd6, hc6, hr6, ho6, i6, h86⟩ := micro_rebd (outA := outA) hs5 hr5 (by rw [hn5]; exact hdx)
    exact ⟨c6, r05.trans (Reaches.of_step hst6), hs6, by rw [hd6, hdist5], by rw [hc6, hc5],
      by rw [hn5] at hr6; exact hr6, by rw [ho6, ho5], i5.trans i6, h86 h85⟩
  · rw [if_neg hde] at hs5
    have hz : (distBaseExtra d).2 = 0 := by omega
    rw [hz, bitsAt_zero] at hdx
    simp only [Option.some.injEq] at hdx
    exact ⟨c5, r05, hs5, by rw [hdist5, ← hdx]; simp, hc5, by rw [hz]; exact hr5, ho5, i5, h85⟩

/-- A distance that reaches before the start of a flat buffer. -/
theorem match_far_stuck (hflat : e.ring = false) (hs : c.r.state = sHuffDecodeOuterLoop2)
    (hfar : c.r.dist > c.outPos) : Stuck e c outA := by
  have : step e c outA = .cont (setState c sDistanceOutOfBounds) outA := by
    rw [step_Match1 hs]
    unfold stMatch
    have hoob : (c.r.dist > c.outPos ∧ (!e.ring) = true) ∨ c.r.dist > e.outLen := .inl ⟨hfar, by rw [hflat]; rfl⟩
    simp only [hoob, ↓reduceIte]
  exact Stuck.of_cont_failure this (by show sDoneForever < sDistanceOutOfBounds; decide)

/-- A match longer than the room left in the granted window: the window fills, the call reports
    "has more output". -/
theorem match_noroom_stuck (hflat : e.ring = false) (hs : c.r.state = sHuffDecodeOuterLoop2 ∨ c.r.state = sWriteLenBytesToEnd)
    (hd2 : c.r.dist ≤ c.outPos) (hpos : c.outPos ≤ e.outEnd) (hend : e.outEnd ≤ e.outLen)
    (hroom : e.outEnd - c.outPos < c.r.counter) : Stuck e c outA := by
  have hstep : step e c outA = stMatch e c outA := by
    rcases hs with hs | hs
    · exact step_Match1 hs
    · exact step_Match2 hs
  have hoob : ¬ ((c.r.dist > c.outPos ∧ (!e.ring) = true) ∨ c.r.dist > e.outLen) := by
    intro h; rcases h with h | h <;> omega
  have hc0 : ¬ c.r.counter = 0 := by omega
  by_cases hw : e.outEnd - c.outPos = 0
  · have : step e c outA = .fin stHasMoreOutput (setState c sWriteLenBytesToEnd) outA := by
      rw [hstep]; unfold stMatch wrBytesLeft
      simp only [hoob, hc0, hw, ↓reduceIte]
    exact Stuck.of_fin this (by decide)
  · have hmin : min (e.outEnd - c.outPos) c.r.counter = e.outEnd - c.outPos := by omega
    have hrem : ¬ c.r.counter - (e.outEnd - c.outPos) = 0 := by omega
    have h1 : ∃ c2 o2, step e c outA = .cont c2 o2 ∧ c2.r.state = sWriteLenBytesToEnd ∧ c2.r.dist = c.r.dist ∧
        c2.r.counter ≠ 0 ∧ c2.outPos = e.outEnd := by
      rw [hstep]; unfold stMatch wrBytesLeft
      simp only [hoob, hc0, hw, hmin, hrem, ↓reduceIte]
      exact ⟨_, _, rfl, rfl, rfl, hrem, by show c.outPos + (e.outEnd - c.outPos) = e.outEnd; omega⟩
    obtain ⟨c2, o2, hst, hs2, hd, hc2, ho2⟩ := h1
    refine Stuck.of_step hst ?_
    have hoob2 : ¬ ((c2.r.dist > c2.outPos ∧ (!e.ring) = true) ∨ c2.r.dist > e.outLen) := by
      rw [hd, ho2]; intro h; rcases h with h | h <;> omega
    have : step e c2 o2 = .fin stHasMoreOutput (setState c2 sWriteLenBytesToEnd) o2 := by
      rw [step_Match2 hs2]; unfold stMatch wrBytesLeft
      have hw2 : e.outEnd - c2.outPos = 0 := by rw [ho2]; omega
      simp only [hoob2, hc2, hw2, ↓reduceIte]
    exact Stuck.of_fin this (by decide)

/-- A literal with no room left in the granted window. -/
theorem lit_noroom_stuck {pos s p : Nat} {full : Array UInt8}
    (hsim : Sim e c outA pos full) (hs : c.r.state = sDecodeLitlen)
    (hd : decodeSym c.r.litCode e.inp pos = .sym s p) (hlt : s < 256) (hroom : e.outEnd ≤ full.size) :
    Stuck e c outA := by
  obtain ⟨c1, hst1, hs1, hc1, hr1, ho1, i1, h81⟩ := micro_decodeLitlen (outA := outA) hs hsim.rep hd
  refine Stuck.of_step hst1 ?_
  have : step e c1 outA = .fin stHasMoreOutput c1 outA := by
    rw [step_WriteSymbol hs1]; unfold stWriteSymbol wrBytesLeft
    have h1 : ¬ c1.r.counter ≥ 256 := by omega
    have h2 : ¬ e.outEnd - c1.outPos > 0 := by rw [ho1, hsim.outPos]; omega
    simp only [h1, h2, ↓reduceIte]
  exact Stuck.of_fin this (by decide)

set_option maxRecDepth 20000 in
/-- ONE TOKEN, EVERY WAY IT CAN FAIL: where the specification's token decoding rejects or runs out
    of data, the model (flat buffer) never reports `Done`. -/
theorem tok_stuck {pos maxDist : Nat} {full : Array UInt8} (hflat : e.ring = false)
    (hsim : Sim e c outA pos full) (hs : c.r.state = sDecodeLitlen) (hmax : 32768 ≤ maxDist)
    (hb : ∀ s p, decodeSym c.r.litCode e.inp pos = .sym s p → s < 512)
    (ht : (∃ w, decodeToken maxDist c.r.litCode c.r.distCode e.inp pos full.size = .reject w) ∨
          decodeToken maxDist c.r.litCode c.r.distCode e.inp pos full.size = .truncated) :
    Stuck e c outA := by
  unfold decodeToken at ht
  cases h1 : decodeSym c.r.litCode e.inp pos with
  | short => exact litlen_none_stuck hs (decodeHuff_short hsim.rep h1)
  | invalid =>
    rcases decodeHuff_invalid hsim.rep h1 with h | h
    · exact litlen_none_stuck hs h
    · exact litlen_286_stuck hs h
  | sym s p1 =>
    have hs512 := hb s p1 h1
    simp only [h1] at ht
    by_cases hlt : s < 256
    · simp [hlt] at ht
    · simp only [hlt, ↓reduceIte] at ht
      by_cases he : s = 256
      · simp [he] at ht
      · simp only [he, ↓reduceIte] at ht
        by_cases hg : s > 285
        · -- symbols 286, 287
          obtain ⟨c1, hst1, hs1, hc1, hr1, ho1, i1, h81⟩ := micro_decodeLitlen (outA := outA) hs hsim.rep h1
          exact Stuck.of_step hst1 (litlen_bad_stuck hs1 (by rw [hc1]; omega))
        · simp only [hg, ↓reduceIte] at ht
          have h256 : 256 < s := by omega
          have h285 : s ≤ 285 := by omega
          cases h2 : bitsAt e.inp p1 (lengthBaseExtra s).2 with
          | none =>
            obtain ⟨c3, r03, hs3, hc3, hn3, hr3, ho3, i3, h83⟩ := reach_len hsim hs h1 h256 h285
            have hne : (lengthBaseExtra s).2 ≠ 0 := by
              intro hz; rw [hz, bitsAt_zero] at h2; simp at h2
            rw [if_pos hne] at hs3
            exact Stuck.of_reaches r03 (rebl_none_stuck hs3 (readBits_short hr3 (by rw [hn3]; exact h2)))
          | some lx =>
            simp only [h2] at ht
            obtain ⟨c4, r04, hs4, hc4, hr4, ho4, i4, h84⟩ := reach_dist hsim hs h1 h256 h285 h2
            cases h3 : decodeSym c.r.distCode e.inp (p1 + (lengthBaseExtra s).2) with
            | short =>
              exact Stuck.of_reaches r04 (dist_none_stuck hs4 (decodeHuff_short hr4 (by rw [i4.dist]; exact h3)))
            | invalid =>
              rcases decodeHuff_invalid hr4 (code := c4.r.distCode) (by rw [i4.dist]; exact h3) with h | h
              · exact Stuck.of_reaches r04 (dist_none_stuck hs4 h)
              · exact Stuck.of_reaches r04 (dist_bad_stuck hs4 h (by decide))
            | sym d p3 =>
              simp only [h3] at ht
              by_cases hd : d > 29
              · have := (decodeHuff_rep hr4 (code := c4.r.distCode) (by rw [i4.dist]; exact h3)).1
                exact Stuck.of_reaches r04 (dist_bad_stuck hs4 this hd)
              · simp only [hd, ↓reduceIte] at ht
                have hd29 : d ≤ 29 := by omega
                cases h4 : bitsAt e.inp p3 (distBaseExtra d).2 with
                | none =>
                  obtain ⟨c5, r05, hs5, hdist5, hn5, hc5, hr5, ho5, i5, h85⟩ := reach_dist2 hsim hs h1 h256 h285 h2 h3 hd29
                  have hne : (distBaseExtra d).2 ≠ 0 := by
                    intro hz; rw [hz, bitsAt_zero] at h4; simp at h4
                  rw [if_pos hne] at hs5
                  exact Stuck.of_reaches r05 (rebd_none_stuck hs5 (readBits_short hr5 (by rw [hn5]; exact h4)))
                | some dx =>
                  simp only [h4] at ht
                  obtain ⟨c6, r06, hs6, hd6, hc6, hr6, ho6, i6, h86⟩ := reach_match hsim hs h1 h256 h285 h2 h3 hd29 h4
                  have hrange := distBase_range d hd29
                  have hdxlt := bitsAt_lt e.inp _ _ _ h4
                  by_cases hfar : ((distBaseExtra d).1 + dx > full.size || (distBaseExtra d).1 + dx > maxDist) = true
                  · simp only [Bool.or_eq_true, decide_eq_true_eq] at hfar
                    have hf : (distBaseExtra d).1 + dx > full.size := by
                      rcases hfar with h | h
                      · exact h
                      · omega
                    exact Stuck.of_reaches r06 (match_far_stuck hflat hs6 (by rw [hd6, ho6, hsim.outPos]; exact hf))
                  · simp only [hfar] at ht
                    simp at ht

/-- What is not an acceptance the granted window has room for. -/
def Bad {α : Type} (v : Verdict α) (tooBig : α → Prop) : Prop :=
  (∃ w, v = .reject w) ∨ (∃ p, v = .truncated p) ∨ (∃ R, v = .accept R ∧ tooBig R)

/-- THE TOKEN LOOP, CONVERSE: if the body of a Huffman block is rejected, or the data ends inside it,
    or it is accepted but produces more than the granted window holds, the model never reports `Done`. -/
theorem tokens_stuck (hflat : e.ring = false) (hend : e.outEnd ≤ e.outLen) (pre : Array UInt8) (maxDist : Nat)
    (hmax : 32768 ≤ maxDist) (lit dist : Code)
    (hb : ∀ pos s p, decodeSym lit e.inp pos = .sym s p → s < 512) :
    ∀ (fuel pos : Nat) (o : Array UInt8) (toks : Array Token) (c : Ctx) (outA : Array UInt8),
    Sim e c outA pos (pre ++ o) → c.r.state = sDecodeLitlen → c.r.litCode = lit → c.r.distCode = dist →
    pre.size + o.size ≤ e.outEnd →
    Bad (decodeTokens pre maxDist lit dist e.inp fuel pos o toks) (fun R => e.outEnd < pre.size + R.2.1.size) →
    Stuck e c outA := by
  intro fuel
  induction fuel with
  | zero =>
    intro pos o toks c outA _ _ _ _ _ hbad
    rcases hbad with ⟨w, h⟩ | ⟨p, h⟩ | ⟨R, h, _⟩ <;> simp [decodeTokens] at h
  | succ fuel ih =>
    intro pos o toks c outA hsim hs hlit hdist hfit hbad
    rw [decodeTokens] at hbad
    have hsz : (pre ++ o).size = pre.size + o.size := Array.size_append
    cases ht : decodeToken maxDist lit dist e.inp pos (pre.size + o.size) with
    | lit b p =>
      rw [ht] at hbad
      obtain ⟨s, hd, hlt, hbs⟩ := decodeToken_lit_inv ht
      by_cases hroom : pre.size + o.size < e.outEnd
      · obtain ⟨c2, outA2, r2, hs2, hsim2, i2⟩ :=
          sim_lit hend hsim hs (by rw [hlit]; exact hd) hlt (by rw [hsz]; exact hroom)
        rw [← hbs, ← Array.append_push] at hsim2
        exact Stuck.of_reaches r2 (ih _ _ _ c2 outA2 hsim2 hs2 (by rw [i2.lit, hlit]) (by rw [i2.dist, hdist])
          (by simp only [Array.size_push]; omega) hbad)
      · exact lit_noroom_stuck hsim hs (by rw [hlit]; exact hd) hlt (by rw [hsz]; omega)
    | eob p =>
      rw [ht] at hbad
      rcases hbad with ⟨w, h⟩ | ⟨p', h⟩ | ⟨R, h, hbig⟩
      · simp at h
      · simp at h
      · simp only [Verdict.accept.injEq] at h
        rw [← h] at hbig
        simp only at hbig
        omega
    | copy len dd p =>
      rw [ht] at hbad
      obtain ⟨s, p1, lx, d, p3, dx, hd, h1, h2, hlx, hdd, hd29, hdx, hlen, hddeq, hp, havail⟩ := decodeToken_copy_inv ht
      have hpos := distBase_pos d
      by_cases hroom : pre.size + o.size + len ≤ e.outEnd
      · obtain ⟨c9, outA9, r9, hs9, hsim9, i9⟩ :=
          sim_copy hflat hend hsim hs (by rw [hlit]; exact hd) h1 h2 hlx (by rw [hdist]; exact hdd) hd29 hdx
            (by rw [hsz]; omega) (by rw [hsz]; omega)
        rw [← hlen, ← hddeq, ← hp, ← copyMatch_eq pre dd (by omega) len o (by omega)] at hsim9
        exact Stuck.of_reaches r9 (ih _ _ _ c9 outA9 hsim9 hs9 (by rw [i9.lit, hlit]) (by rw [i9.dist, hdist])
          (by rw [copyMatch_size]; omega) hbad)
      · obtain ⟨c6, r06, hs6, hd6, hc6, hr6, ho6, i6, h86⟩ :=
          reach_match hsim hs (by rw [hlit]; exact hd) h1 h2 hlx (by rw [hdist]; exact hdd) hd29 hdx
        have ho : c6.outPos = pre.size + o.size := by rw [ho6, hsim.outPos, hsz]
        exact Stuck.of_reaches r06 (match_noroom_stuck hflat (.inl hs6) (by rw [hd6, ho]; omega) (by rw [ho]; exact hfit)
          hend (by rw [hc6, ho]; omega))
    | reject w =>
      refine tok_stuck hflat hsim hs hmax (fun s p h => hb pos s p (by rw [← hlit]; exact h)) (.inl ⟨w, ?_⟩)
      rw [hlit, hdist, hsz]; exact ht
    | truncated =>
      refine tok_stuck hflat hsim hs hmax (fun s p h => hb pos s p (by rw [← hlit]; exact h)) (.inr ?_)
      rw [hlit, hdist, hsz]; exact ht

/-! ### A complete code decodes every bit pattern -/

theorem kraftLeftAux_zero_counts (lens : Array Nat) : ∀ (k len left : Nat), len + k ≤ 16 → sumCnt lens len k = 0 →
    kraftLeftAux (countLens lens) k len left = some (2 ^ k * left) := by
  intro k
  induction k with
  | zero => intro len left _ _; simp [kraftLeftAux]
  | succ k ih =>
    intro len left hle hsum
    have hs : cntEq lens len + sumCnt lens (len + 1) k = 0 := hsum
    have hc : (countLens lens).getD len 0 = 0 := by rw [countLens_getD lens len (by omega)]; omega
    unfold kraftLeftAux
    simp only [hc, Nat.not_lt_zero, ↓reduceIte, Nat.sub_zero]
    rw [ih (len + 1) (2 * left) (by omega) (by omega), Nat.pow_succ, Nat.mul_assoc]

theorem bitAt_le_one {data : Array UInt8} {p b : Nat} (h : bitAt data p = some b) : b ≤ 1 := by
  unfold bitAt at h
  cases hg : data[p / 8]? with
  | none => simp [hg] at h
  | some x =>
    simp only [hg, Option.some.injEq] at h
    omega

/-- The counting walk over a complete code (Kraft sum exactly one) never falls off the code. -/
theorem decodeSymAux_complete (lens : Array Nat) (data : Array UInt8) :
    ∀ (fuel len pos code first index left : Nat), len + fuel = 16 →
    kraftLeftAux (countLens lens) fuel len left = some 0 →
    first ≤ code → code - first + 2 ≤ 2 * left →
    index + sumCnt lens len fuel = (mkCode lens).syms.size →
    decodeSymAux (mkCode lens) data fuel len pos code first index ≠ .invalid := by
  intro fuel
  induction fuel with
  | zero =>
    intro len pos code first index left _ hk _ hinv _
    simp only [kraftLeftAux, Option.some.injEq] at hk
    omega
  | succ fuel ih =>
    intro len pos code first index left hlen hk hfc hinv hidx
    unfold decodeSymAux
    by_cases hge : index ≥ (mkCode lens).syms.size
    · exfalso
      have hz : sumCnt lens len (fuel + 1) = 0 := by omega
      rw [kraftLeftAux_zero_counts lens (fuel + 1) len left (by omega) hz] at hk
      simp only [Option.some.injEq] at hk
      have hp : 0 < 2 ^ (fuel + 1) := Nat.pow_pos (by omega)
      have : left = 0 := by
        rcases Nat.mul_eq_zero.mp hk with h | h
        · omega
        · exact h
      omega
    · simp only [hge, ↓reduceIte]
      cases hb : bitAt data pos with
      | none => simp
      | some b =>
        have hb1 := bitAt_le_one hb
        simp only
        by_cases hlt : code + b < first + (mkCode lens).count.getD len 0
        · simp only [hlt, ↓reduceIte]; simp
        · simp only [hlt, ↓reduceIte]
          have hcnt : (mkCode lens).count.getD len 0 = cntEq lens len := countLens_getD lens len (by omega)
          unfold kraftLeftAux at hk
          have hcnt' : (countLens lens).getD len 0 = cntEq lens len := countLens_getD lens len (by omega)
          simp only [hcnt'] at hk
          by_cases hov : 2 * left < cntEq lens len
          · simp [hov] at hk
          · simp only [hov, ↓reduceIte] at hk
            have hs : sumCnt lens len (fuel + 1) = cntEq lens len + sumCnt lens (len + 1) fuel := rfl
            rw [hcnt] at hlt ⊢
            exact ih (len + 1) (pos + 1) (2 * (code + b)) (2 * (first + cntEq lens len)) (index + cntEq lens len)
              (2 * left - cntEq lens len) (by omega) hk (by omega) (by omega) (by omega)

theorem decodeSym_complete {lens : Array Nat} (hv : codeValid .clen lens = true) (data : Array UInt8) (pos : Nat) :
    decodeSym (mkCode lens) data pos ≠ .invalid := by
  have hk : kraftLeft (countLens lens) = some 0 := by
    unfold codeValid at hv
    cases hkl : kraftLeft (countLens lens) with
    | none => simp [hkl] at hv
    | some k =>
      cases k with
      | zero => rfl
      | succ k => simp [hkl] at hv
  unfold decodeSym
  refine decodeSymAux_complete lens data 15 1 pos 0 0 0 1 rfl hk (Nat.le_refl _) (by omega) ?_
  show 0 + sumCnt lens 1 15 = (sortedSymsAux lens 15 1 #[]).size
  rw [sortedSymsAux_size]; simp

/-! ### Stored blocks -/

theorem copyStored_none (data : Array UInt8) (n : Nat) : ∀ (q : Nat) (o : Array UInt8),
    copyStored data q o n = none → data.size < q + n := by
  induction n with
  | zero => intro q o h; simp [copyStored] at h
  | succ n ih =>
    intro q o h
    unfold copyStored at h
    cases hb : data[q]? with
    | none =>
      have := Array.getElem?_eq_none_iff.mp hb
      omega
    | some b =>
      simp only [hb] at h
      have := ih _ _ h
      omega

/-- `RawHeader` with too few input bytes left for the four length bytes. -/
theorem rawHeader_short_stuck : ∀ (n : Nat) (c : Ctx), c.r.state = sRawHeader → c.r.counter + n = 4 → c.r.numBits = 0 →
    c.inPos ≤ e.inp.size → e.inp.size < c.inPos + n → Stuck e c outA := by
  intro n
  induction n with
  | zero => intro c _ _ _ h1 h2; omega
  | succ n ih =>
    intro c hs hc hnb hle hshort
    cases hb : e.inp[c.inPos]? with
    | none =>
      have : step e c outA = .fin e.eoi c outA := by
        rw [step_RawHeader hs]; unfold stRawHeader
        have h4 : c.r.counter < 4 := by omega
        simp only [h4, ↓reduceIte, hnb, ne_eq, not_true_eq_false, hb]
      exact Stuck.of_fin this (eoi_ne_done e)
    | some b =>
      have hlt : c.inPos < e.inp.size := by
        by_cases hlt : c.inPos < e.inp.size
        · exact hlt
        · simp [Array.getElem?_eq_none (Nat.le_of_not_lt hlt)] at hb
      obtain ⟨c1, hst, hs1, hc1, hn1, _, hi1, _, _, _⟩ :=
        rawHeader_step (e := e) (c := c) (outA := outA) (k := c.r.counter) (b := b) hs rfl (by omega) hnb hb
      exact Stuck.of_step hst (ih c1 hs1 (by omega) hn1 (by omega) (by omega))

/-- The body of a stored block that cannot be completed: more bytes announced than the input holds or
    than the granted window has room for. -/
theorem memcpy_stuck (hs : c.r.state = sRawMemcpy1) (hle : c.inPos ≤ e.inp.size)
    (hbig : min (e.outEnd - c.outPos) (e.inp.size - c.inPos) < c.r.counter) : Stuck e c outA := by
  have hc0 : c.r.counter ≠ 0 := by omega
  by_cases hw : e.outEnd - c.outPos = 0
  · have : step e c outA = .fin stHasMoreOutput c outA := by
      rw [step_RawMemcpy1 hs]; unfold stRawMemcpy1 wrBytesLeft
      simp only [hc0, hw, ↓reduceIte]
    exact Stuck.of_fin this (by decide)
  · have hst1 := micro_memcpy1_go (e := e) (outA := outA) hs hc0 (by omega)
    refine Stuck.of_step hst1 ?_
    by_cases hin : c.inPos < e.inp.size
    · obtain ⟨c2, hst2, hs2, hc2, hi2, ho2, hn2, hb2, i2⟩ :=
        micro_memcpy2 (e := e) (c := setState c sRawMemcpy2) (outA := outA)
          (len := min (e.outEnd - c.outPos) (e.inp.size - c.inPos)) rfl hin
          (by show min (min (e.outEnd - c.outPos) (e.inp.size - c.inPos)) c.r.counter = _; omega)
      generalize copyIn e.inp outA (setState c sRawMemcpy2).outPos (setState c sRawMemcpy2).inPos
        (min (e.outEnd - c.outPos) (e.inp.size - c.inPos)) = o2 at hst2
      refine Stuck.of_step hst2 ?_
      have hc2' : c2.r.counter ≠ 0 := by rw [hc2]; show c.r.counter - _ ≠ 0; omega
      have hi2' : c2.inPos = c.inPos + min (e.outEnd - c.outPos) (e.inp.size - c.inPos) := hi2
      have ho2' : c2.outPos = c.outPos + min (e.outEnd - c.outPos) (e.inp.size - c.inPos) := ho2
      by_cases hw2 : e.outEnd - c2.outPos = 0
      · have : step e c2 o2 = .fin stHasMoreOutput c2 o2 := by
          rw [step_RawMemcpy1 hs2]; unfold stRawMemcpy1 wrBytesLeft
          simp only [hc2', hw2, ↓reduceIte]
        exact Stuck.of_fin this (by decide)
      · have hst3 := micro_memcpy1_go (e := e) (c := c2) (outA := o2) hs2 hc2' (by omega)
        refine Stuck.of_step hst3 ?_
        have hend2 : ¬ (setState c2 sRawMemcpy2).inPos < e.inp.size := by
          show ¬ c2.inPos < e.inp.size
          omega
        have : step e (setState c2 sRawMemcpy2) o2 = .fin e.eoi (setState c2 sRawMemcpy2) o2 := by
          rw [step_RawMemcpy2 rfl]; unfold stRawMemcpy2
          simp only [hend2, ↓reduceIte]
        exact Stuck.of_fin this (eoi_ne_done e)
    · have : step e (setState c sRawMemcpy2) outA = .fin e.eoi (setState c sRawMemcpy2) outA := by
        rw [step_RawMemcpy2 rfl]; unfold stRawMemcpy2
        have : ¬ (setState c sRawMemcpy2).inPos < e.inp.size := hin
        simp only [this, ↓reduceIte]
      exact Stuck.of_fin this (eoi_ne_done e)

theorem bitsAt16_of_bytes {data : Array UInt8} {k : Nat} {b0 b1 : UInt8} (h0 : data[k]? = some b0)
    (h1 : data[k + 1]? = some b1) : bitsAt data (8 * k) 16 = some (b0.toNat + 256 * b1.toNat) := by
  have a0 := bitsAt_byte8 h0
  have a1 := bitsAt_byte8 h1
  have e2 : 8 * (k + 1) = 8 * k + 8 := by omega
  rw [e2] at a1
  exact bitsAt_add data 8 8 (8 * k) _ _ a0 a1

/-- THE STORED BLOCK, CONVERSE: unless LEN/NLEN are present and complementary, the announced bytes
    are all there, and the window has room for them, the model never reports `Done`. -/
theorem stored_stuck {P : Nat} {full : Array UInt8} (hend : e.outEnd ≤ e.outLen)
    (hs : c.r.state = sBlockTypeNoCompression) (hsim : Sim e c outA P full) (hrh : c.r.rawHeader.size = 4)
    (hfit : full.size ≤ e.outEnd)
    (hbad : ∀ len nlen, bitsAt e.inp (8 * ((P + 7) / 8)) 16 = some len →
      bitsAt e.inp (8 * ((P + 7) / 8) + 16) 16 = some nlen → len + nlen = 65535 →
      ∀ full', copyStored e.inp ((P + 7) / 8 + 4) full len = some full' → e.outEnd < full'.size) :
    Stuck e c outA := by
  have hr := hsim.rep
  have h8 := hsim.nb8
  have hpe := hr.posEq
  have hmod : c.r.numBits % 8 = c.r.numBits := Nat.mod_eq_of_lt h8
  obtain ⟨c1, hrb, hr1, h81, hok1, hacc1⟩ := readBits_full hr (bitsAt_of_rep hr (c.r.numBits % 8) (by omega))
  have hst1 : step e c outA = .cont (setState { c1 with r := { c1.r with counter := 0 } } sRawHeader) outA := by
    rw [step_BlockTypeNoCompression hs]; unfold stBlockTypeNoCompression; rw [hrb]
  refine Stuck.of_step hst1 ?_
  have h81' := h81 h8
  have hin1 : c1.inPos = c.inPos := by
    have := hok1.inLo; omega
  have hnb1 : c1.r.numBits = 0 := by omega
  have hQ : P + c.r.numBits % 8 = 8 * ((P + 7) / 8) := by omega
  rw [hQ] at hr1
  have hbpos : c1.inPos = (P + 7) / 8 := by have := hr1.posEq; omega
  have hle1 : c1.inPos ≤ e.inp.size := hok1.inHi
  by_cases hshort : e.inp.size < (P + 7) / 8 + 4
  · exact rawHeader_short_stuck 4 _ rfl rfl hnb1 hle1 (by show e.inp.size < c1.inPos + 4; omega)
  have hb0 : e.inp[(P + 7) / 8]? = some e.inp[(P + 7) / 8] := Array.getElem?_eq_getElem (by omega)
  have hb1 : e.inp[(P + 7) / 8 + 1]? = some e.inp[(P + 7) / 8 + 1] := Array.getElem?_eq_getElem (by omega)
  have hb2 : e.inp[(P + 7) / 8 + 2]? = some e.inp[(P + 7) / 8 + 2] := Array.getElem?_eq_getElem (by omega)
  have hb3 : e.inp[(P + 7) / 8 + 2 + 1]? = some e.inp[(P + 7) / 8 + 2 + 1] := Array.getElem?_eq_getElem (by omega)
  generalize e.inp[(P + 7) / 8]'(by omega) = b0 at hb0
  generalize e.inp[(P + 7) / 8 + 1]'(by omega) = b1 at hb1
  generalize e.inp[(P + 7) / 8 + 2]'(by omega) = b2 at hb2
  generalize e.inp[(P + 7) / 8 + 2 + 1]'(by omega) = b3 at hb3
  have hlen := bitsAt16_of_bytes hb0 hb1
  have hnlen := bitsAt16_of_bytes hb2 hb3
  have e16 : 8 * ((P + 7) / 8 + 2) = 8 * ((P + 7) / 8) + 16 := by omega
  rw [e16] at hnlen
  have i01 : InvS c (setState { c1 with r := { c1.r with counter := 0 } } sRawHeader) := by
    have i := InvS.of_read hok1
    exact ⟨i.finish, ⟨i.z.z0, i.z.z1, i.z.zA, i.z.chk⟩, i.ts, i.lc, i.rhsz⟩
  obtain ⟨d1, hd1, hs1, hc1, hn1, hbb1, hi1, ho1, hrh1, i1⟩ :=
    rawHeader_step (e := e) (c := setState { c1 with r := { c1.r with counter := 0 } } sRawHeader) (outA := outA)
      (k := 0) (b := b0) rfl rfl (by omega) hnb1 (by show e.inp[c1.inPos]? = _; rw [hbpos]; exact hb0)
  obtain ⟨d2, hd2, hs2, hc2, hn2, hbb2, hi2, ho2, hrh2, i2⟩ :=
    rawHeader_step (e := e) (c := d1) (outA := outA) (k := 1) (b := b1) hs1 hc1 (by omega) hn1
      (by rw [hi1]; show e.inp[c1.inPos + 1]? = _; rw [hbpos]; exact hb1)
  obtain ⟨d3, hd3, hs3, hc3, hn3, hbb3, hi3, ho3, hrh3, i3⟩ :=
    rawHeader_step (e := e) (c := d2) (outA := outA) (k := 2) (b := b2) hs2 hc2 (by omega) hn2
      (by rw [hi2, hi1]; show e.inp[c1.inPos + 1 + 1]? = _; rw [hbpos]; exact hb2)
  obtain ⟨d4, hd4, hs4, hc4, hn4, hbb4, hi4, ho4, hrh4, i4⟩ :=
    rawHeader_step (e := e) (c := d3) (outA := outA) (k := 3) (b := b3) hs3 hc3 (by omega) hn3
      (by rw [hi3, hi2, hi1]; show e.inp[c1.inPos + 1 + 1 + 1]? = _; rw [hbpos]; exact hb3)
  have hsz0 : (setState { c1 with r := { c1.r with counter := 0 } } sRawHeader).r.rawHeader.size = 4 := by
    rw [i01.rhsz]; exact hrh
  have hrhv : d4.r.rawHeader = (((c1.r.rawHeader.setIfInBounds 0 b0.toNat).setIfInBounds 1 b1.toNat).setIfInBounds 2 b2.toNat).setIfInBounds 3 b3.toNat := by
    rw [hrh4, hrh3, hrh2, hrh1]; rfl
  have hsz1 : c1.r.rawHeader.size = 4 := hsz0
  have g0 : d4.r.rawHeader.getD 0 0 = b0.toNat := by
    rw [hrhv]; simp [Array.getD_eq_getD_getElem?, Array.getElem?_setIfInBounds, hsz1]
  have g1 : d4.r.rawHeader.getD 1 0 = b1.toNat := by
    rw [hrhv]; simp [Array.getD_eq_getD_getElem?, Array.getElem?_setIfInBounds, hsz1]
  have g2 : d4.r.rawHeader.getD 2 0 = b2.toNat := by
    rw [hrhv]; simp [Array.getD_eq_getD_getElem?, Array.getElem?_setIfInBounds, hsz1]
  have g3 : d4.r.rawHeader.getD 3 0 = b3.toNat := by
    rw [hrhv]; simp [Array.getD_eq_getD_getElem?, Array.getElem?_setIfInBounds, hsz1]
  refine Stuck.of_step hd1 (Stuck.of_step hd2 (Stuck.of_step hd3 (Stuck.of_step hd4 ?_)))
  by_cases hchk : (b0.toNat + 256 * b1.toNat) + (b2.toNat + 256 * b3.toNat) = 65535
  · obtain ⟨d5, hd5, hs5, hc5, hn5, hbb5, hi5, ho5, i5⟩ :=
      rawHeader_done (e := e) (c := d4) (outA := outA) hs4 hc4 hn4 g0 g1 g2 g3 hchk
    refine Stuck.of_step hd5 ?_
    have hin5 : d5.inPos = (P + 7) / 8 + 4 := by
      rw [hi5, hi4, hi3, hi2, hi1]; show c1.inPos + 1 + 1 + 1 + 1 = _; omega
    have hout5 : d5.outPos = full.size := by
      rw [ho5, ho4, ho3, ho2, ho1]; show c1.outPos = _; rw [hok1.outPos, hsim.outPos]
    have hbad' := hbad _ _ hlen hnlen hchk
    by_cases hz : b0.toNat + 256 * b1.toNat = 0
    · exfalso
      rw [hz] at hbad'
      have := hbad' full rfl
      omega
    · rw [if_neg hz] at hs5
      refine memcpy_stuck hs5 (by rw [hin5]; omega) ?_
      rw [hc5, hin5, hout5]
      cases hcp : copyStored e.inp ((P + 7) / 8 + 4) full (b0.toNat + 256 * b1.toNat) with
      | none => have := copyStored_none _ _ _ _ hcp; omega
      | some full' =>
        have h1 := hbad' full' hcp
        have h2 := (copyStored_spec _ _ _ _ _ hcp).2
        omega
  · have : step e d4 outA = .cont (setState { d4 with r := { d4.r with counter := d4.r.rawHeader.getD 0 0 + 256 * d4.r.rawHeader.getD 1 0 } } sBadRawLength) outA := by
      rw [step_RawHeader hs4]
      unfold stRawHeader
      have hc4' : ¬ (d4.r.counter < 4) := by omega
      simp only [hc4', ↓reduceIte, g0, g1, g2, g3, ne_eq, hchk, not_false_eq_true]
    exact Stuck.of_cont_failure this (by show sDoneForever < sBadRawLength; decide)

/-! ### The dynamic block header -/

theorem tableSize_none_stuck {pos k : Nat} (hs : c.r.state = sReadTableSizes) (hc : c.r.counter = k) (hk : k < 3)
    (hr : Rep e.inp c pos) (hv : bitsAt e.inp pos ([5, 5, 4].getD k 0) = none) : Stuck e c outA := by
  have hn := readBits_short hr hv
  have : step e c outA = .fin e.eoi (readBits e.inp ([5, 5, 4].getD k 0) c).1 outA := by
    rw [step_ReadTableSizes hs]; unfold stReadTableSizes
    have hlt : c.r.counter < 3 := by omega
    simp only [hlt, ↓reduceIte]
    rw [hc]
    generalize readBits e.inp ([5, 5, 4].getD k 0) c = q at hn
    obtain ⟨c1, o⟩ := q; simp only at hn; subst hn; rfl
  exact Stuck.of_fin this (eoi_ne_done e)

/-- The three table sizes: data ends inside them, or HLIT / HDIST out of range. -/
theorem tableSizes_stuck {pos : Nat} (hs : c.r.state = sReadTableSizes) (hc : c.r.counter = 0)
    (hts : c.r.tableSizes.size = 3) (hr : Rep e.inp c pos) (h8 : c.r.numBits < 8)
    (hbad : ∀ hlit hdist hclen, bitsAt e.inp pos 5 = some hlit → bitsAt e.inp (pos + 5) 5 = some hdist →
      bitsAt e.inp (pos + 10) 4 = some hclen → (hlit + 257 > 286 ∨ hdist + 1 > 30)) : Stuck e c outA := by
  cases h1 : bitsAt e.inp pos 5 with
  | none => exact tableSize_none_stuck (k := 0) hs hc (by omega) hr h1
  | some hlit =>
    obtain ⟨c1, st1, hs1, hc1, ht1, hr1, h81, i1, l1⟩ := micro_tableSize (outA := outA) (k := 0) hs hc (by omega) hr h1
    refine Stuck.of_step st1 ?_
    cases h2 : bitsAt e.inp (pos + 5) 5 with
    | none => exact tableSize_none_stuck (k := 1) hs1 hc1 (by omega) hr1 h2
    | some hdist =>
      obtain ⟨c2, st2, hs2, hc2, ht2, hr2, h82, i2, l2⟩ := micro_tableSize (outA := outA) (k := 1) hs1 hc1 (by omega) hr1 h2
      refine Stuck.of_step st2 ?_
      cases h3 : bitsAt e.inp (pos + 10) 4 with
      | none => exact tableSize_none_stuck (k := 2) hs2 hc2 (by omega) hr2 h3
      | some hclen =>
        obtain ⟨c3, st3, hs3, hc3, ht3, hr3, h83, i3, l3⟩ := micro_tableSize (outA := outA) (k := 2) hs2 hc2 (by omega) hr2 h3
        refine Stuck.of_step st3 ?_
        have hts3 : c3.r.tableSizes = #[hlit + 257, hdist + 1, hclen + 4] := by
          rw [ht3, ht2, ht1]
          exact set3 _ hts _ _ _
        have hb := hbad hlit hdist hclen h1 h2 h3
        have : ∃ c4, step e c3 outA = .cont c4 outA ∧ c4.r.state = sBadDistOrLiteralTableLength := by
          rw [step_ReadTableSizes hs3]
          unfold stReadTableSizes
          have hlt : ¬ c3.r.counter < 3 := by omega
          have hno : ¬ (c3.r.tableSizes.getD 0 0 ≤ 286 ∧ c3.r.tableSizes.getD 1 0 ≤ 30) := by
            rw [hts3]; simp; omega
          simp only [hlt, ↓reduceIte, hno]
          exact ⟨_, rfl, rfl⟩
        obtain ⟨c4, st4, hs4⟩ := this
        exact Stuck.of_cont_failure st4 (by rw [hs4]; decide)

/-- The lengths of the code-length code: data ends inside them. -/
theorem clens_stuck : ∀ (n k pos : Nat) (acc : Array Nat) (c : Ctx),
    c.r.state = sReadHufflenTableCodeSize → c.r.counter = k → c.r.tableSizes.getD 2 0 = k + n → k + n ≤ 19 →
    Rep e.inp c pos → c.r.numBits < 8 →
    readClens e.inp n pos (clenOrder.drop k) acc = none → Stuck e c outA := by
  intro n
  induction n with
  | zero => intro k pos acc c _ _ _ _ _ _ h; simp [readClens] at h
  | succ n ih =>
    intro k pos acc c hs hc hts hle hr h8 h
    rw [clenOrder_drop k (by omega)] at h
    unfold readClens at h
    cases hv : bitsAt e.inp pos 3 with
    | none =>
      have hn := readBits_short hr hv
      have : step e c outA = .fin e.eoi (readBits e.inp 3 c).1 outA := by
        rw [step_ReadHufflenTableCodeSize hs]; unfold stReadHufflenTableCodeSize
        have hlt : c.r.counter < c.r.tableSizes.getD 2 0 := by omega
        simp only [hlt, ↓reduceIte]
        generalize readBits e.inp 3 c = q at hn
        obtain ⟨c1, o⟩ := q; simp only at hn; subst hn; rfl
      exact Stuck.of_fin this (eoi_ne_done e)
    | some v =>
      simp only [hv] at h
      obtain ⟨c1, st1, hs1, hc1, hcl1, ht1, hr1, h81, i1, l1⟩ :=
        micro_hufflen (outA := outA) hs hc (by omega) hr hv
      exact Stuck.of_step st1 (ih (k + 1) (pos + 3) _ c1 hs1 hc1 (by rw [ht1]; omega) (by omega) hr1 (h81 h8) h)

/-- An over-subscribed or incomplete code-length code. -/
theorem hufflen_bad_stuck (hs : c.r.state = sReadHufflenTableCodeSize) (hc : c.r.counter = c.r.tableSizes.getD 2 0)
    (hbt : c.r.blockType = 2) (hvalid : codeValid .clen c.r.clenLens = false) : Stuck e c outA := by
  have : ∃ c1, step e c outA = .cont c1 outA ∧ c1.r.state = sBadTotalSymbols := by
    rw [step_ReadHufflenTableCodeSize hs]
    unfold stReadHufflenTableCodeSize
    have hlt : ¬ c.r.counter < c.r.tableSizes.getD 2 0 := by omega
    simp only [hlt, ↓reduceIte]
    unfold initTree
    simp only [hbt, ↓reduceIte, hvalid, Bool.false_eq_true]
    exact ⟨_, rfl, rfl⟩
  obtain ⟨c1, st, hs1⟩ := this
  exact Stuck.of_cont_failure st (by rw [hs1]; decide)

theorem rld_none_stuck (hs : c.r.state = sReadLitlenDistTablesCodeSize)
    (hlt : c.r.counter < c.r.tableSizes.getD 0 0 + c.r.tableSizes.getD 1 0)
    (h : (decodeHuff e.inp c.r.clenCode c).2 = none) : Stuck e c outA := by
  have : step e c outA = .fin e.eoi (decodeHuff e.inp c.r.clenCode c).1 outA := by
    rw [step_ReadLitlenDistTablesCodeSize hs]; unfold stReadLitlenDistTablesCodeSize
    simp only [hlt, ↓reduceIte]
    generalize decodeHuff e.inp c.r.clenCode c = q at h
    obtain ⟨c1, o⟩ := q; simp only at h; subst h; rfl
  exact Stuck.of_fin this (eoi_ne_done e)

theorem rebcs_none_stuck (hs : c.r.state = sReadExtraBitsCodeSize) (h : (readBits e.inp c.r.numExtra c).2 = none) :
    Stuck e c outA := by
  have : step e c outA = .fin e.eoi (readBits e.inp c.r.numExtra c).1 outA := by
    rw [step_ReadExtraBitsCodeSize hs]; unfold stReadExtraBitsCodeSize
    generalize readBits e.inp c.r.numExtra c = q at h
    obtain ⟨c1, o⟩ := q; simp only at h; subst h; rfl
  exact Stuck.of_fin this (eoi_ne_done e)

/-- One step of the code-length reading adds at most 138 lengths. -/
theorem readLenStep_size {cl : Code} {data : Array UInt8} {pos p' : Nat} {acc acc' : Array Nat}
    (h : readLenStep cl data pos acc = .more p' acc') : acc'.size ≤ acc.size + 138 := by
  unfold readLenStep at h
  cases hd : decodeSym cl data pos with
  | short => simp [hd] at h
  | invalid => simp [hd] at h
  | sym s p =>
    simp only [hd] at h
    by_cases h16 : s < 16
    · simp only [h16, ↓reduceIte, LenStep.more.injEq] at h
      rw [← h.2]; simp
    · simp only [h16, ↓reduceIte] at h
      by_cases e16 : s = 16
      · simp only [e16, ↓reduceIte] at h
        by_cases hz : acc.size = 0
        · simp [hz] at h
        · simp only [hz, ↓reduceIte] at h
          cases hb : bitsAt data p 2 with
          | none => simp [hb] at h
          | some r =>
            simp only [hb, LenStep.more.injEq] at h
            have := bitsAt_lt _ _ _ _ hb
            rw [← h.2]; simp; omega
      · simp only [e16, ↓reduceIte] at h
        by_cases e17 : s = 17
        · simp only [e17, ↓reduceIte] at h
          cases hb : bitsAt data p 3 with
          | none => simp [hb] at h
          | some r =>
            simp only [hb, LenStep.more.injEq] at h
            have := bitsAt_lt _ _ _ _ hb
            rw [← h.2]; simp; omega
        · simp only [e17, ↓reduceIte] at h
          cases hb : bitsAt data p 7 with
          | none => simp [hb] at h
          | some r =>
            simp only [hb, LenStep.more.injEq] at h
            have := bitsAt_lt _ _ _ _ hb
            rw [← h.2]; simp; omega

/-- One step of the code-length reading that fails: starved, or "repeat previous" with no previous. -/
theorem lenStep_stuck {cl : Code} {pos : Nat} {acc : Array Nat} {clens : Array Nat}
    (hs : c.r.state = sReadLitlenDistTablesCodeSize) (hcl : c.r.clenCode = cl) (hmk : cl = mkCode clens)
    (h19 : clens.size = 19) (hcv : codeValid .clen clens = true)
    (hlt : c.r.counter < c.r.tableSizes.getD 0 0 + c.r.tableSizes.getD 1 0)
    (hrep : LensRep c acc) (hr : Rep e.inp c pos) (h8 : c.r.numBits < 8)
    (hstep : (∃ w, readLenStep cl e.inp pos acc = .reject w) ∨ readLenStep cl e.inp pos acc = .truncated) :
    Stuck e c outA := by
  unfold readLenStep at hstep
  cases hd : decodeSym cl e.inp pos with
  | short => exact rld_none_stuck hs hlt (decodeHuff_short hr (by rw [hcl]; exact hd))
  | invalid => exact absurd hd (by rw [hmk]; exact decodeSym_complete hcv e.inp pos)
  | sym s p =>
    simp only [hd] at hstep
    have hs19 : s < 19 := by
      have := decodeSym_lt (lens := clens) (by omega) (by rw [← hmk]; exact hd)
      omega
    obtain ⟨c1, hok, hr1, h81, hst⟩ := micro_rld_sym (outA := outA) hs hlt hr (by rw [hcl]; exact hd)
    have hreg := hok.regs
    have hcnt1 : c1.r.counter = c.r.counter := by rw [hreg]
    by_cases h16 : s < 16
    · simp [h16] at hstep
    · simp only [h16, ↓reduceIte] at hstep hst
      by_cases hbad : s = 16 ∧ c1.r.counter = 0
      · simp only [hbad, and_self, ↓reduceIte] at hst
        exact Stuck.of_cont_failure hst (by show sDoneForever < sBadCodeSizeDistPrevLookup; decide)
      · simp only [hbad, ↓reduceIte] at hst
        refine Stuck.of_step hst ?_
        -- the extra bits are missing
        have hnone : bitsAt e.inp p ([2, 3, 7, 0].getD ((s - 16) % 4) 0) = none := by
          by_cases e16 : s = 16
          · simp only [e16, ↓reduceIte] at hstep
            have hz : ¬ acc.size = 0 := by
              intro hz; apply hbad; rw [hcnt1, hrep.cnt]; exact ⟨e16, hz⟩
            simp only [hz, ↓reduceIte] at hstep
            cases hb : bitsAt e.inp p 2 with
            | none => rw [e16]; exact hb
            | some r => simp [hb] at hstep
          · simp only [e16, ↓reduceIte] at hstep
            by_cases e17 : s = 17
            · simp only [e17, ↓reduceIte] at hstep
              cases hb : bitsAt e.inp p 3 with
              | none => rw [e17]; exact hb
              | some r => simp [hb] at hstep
            · simp only [e17, ↓reduceIte] at hstep
              have e18 : s = 18 := by omega
              cases hb : bitsAt e.inp p 7 with
              | none => rw [e18]; exact hb
              | some r => simp [hb] at hstep
        exact rebcs_none_stuck rfl (readBits_short (hr1.of_eq rfl rfl rfl) hnone)

/-- THE CODE-LENGTH LOOP, CONVERSE. -/
theorem lens_stuck {cl : Code} {clens : Array Nat} (hmk : cl = mkCode clens) (h19 : clens.size = 19)
    (hcv : codeValid .clen clens = true) (total : Nat) (htot : total ≤ 316) :
    ∀ (fuel pos : Nat) (acc : Array Nat) (c : Ctx),
    ((∃ w, readLens cl e.inp total fuel pos acc = .reject w) ∨ (∃ p, readLens cl e.inp total fuel pos acc = .truncated p)) →
    c.r.state = sReadLitlenDistTablesCodeSize → c.r.clenCode = cl →
    c.r.tableSizes.getD 0 0 + c.r.tableSizes.getD 1 0 = total →
    LensRep c acc → Rep e.inp c pos → c.r.numBits < 8 → Stuck e c outA := by
  intro fuel
  induction fuel with
  | zero => intro pos acc c h; rcases h with ⟨w, h⟩ | ⟨p, h⟩ <;> simp [readLens] at h
  | succ fuel ih =>
    intro pos acc c h hs hcl hts hrep hr h8
    rw [readLens] at h
    by_cases h1 : acc.size = total
    · simp only [h1, ↓reduceIte] at h
      rcases h with ⟨w, h⟩ | ⟨p, h⟩ <;> simp at h
    · simp only [h1, ↓reduceIte] at h
      by_cases h2 : acc.size > total
      · -- more lengths than announced
        have : ∃ c1, step e c outA = .cont c1 outA ∧ c1.r.state = sBadCodeSizeSum := by
          rw [step_ReadLitlenDistTablesCodeSize hs]
          unfold stReadLitlenDistTablesCodeSize
          have hlt : ¬ c.r.counter < c.r.tableSizes.getD 0 0 + c.r.tableSizes.getD 1 0 := by rw [hts, hrep.cnt]; omega
          have hne : c.r.counter ≠ c.r.tableSizes.getD 0 0 + c.r.tableSizes.getD 1 0 := by rw [hts, hrep.cnt]; omega
          simp only [hlt, ↓reduceIte, hne, ne_eq, not_false_eq_true]
          exact ⟨_, rfl, rfl⟩
        obtain ⟨c1, st, hs1⟩ := this
        exact Stuck.of_cont_failure st (by rw [hs1]; decide)
      · simp only [h2, ↓reduceIte] at h
        have hlt : c.r.counter < c.r.tableSizes.getD 0 0 + c.r.tableSizes.getD 1 0 := by rw [hts, hrep.cnt]; omega
        cases hst : readLenStep cl e.inp pos acc with
        | more p' acc' =>
          rw [hst] at h
          have hsz := readLenStep_size hst
          obtain ⟨c1, r1, hs1, hrep1, hr1, h81, i1, ht1, hcc1⟩ :=
            sim_lenStep (outA := outA) hs hcl hmk h19 hlt hrep hr h8 hst (by omega)
          exact Stuck.of_reaches r1 (ih p' acc' c1 h hs1 (by rw [hcc1, hcl]) (by rw [ht1]; exact hts) hrep1 hr1 h81)
        | reject w => exact lenStep_stuck hs hcl hmk h19 hcv hlt hrep hr h8 (.inl ⟨w, hst⟩)
        | truncated => exact lenStep_stuck hs hcl hmk h19 hcv hlt hrep hr h8 (.inr hst)

/-- An over-subscribed or incomplete literal/length or distance code (other than the ≤ 1-bit case). -/
theorem rld_done_bad_stuck {litLens distLens : Array Nat} (hs : c.r.state = sReadLitlenDistTablesCodeSize)
    (hc : c.r.counter = c.r.tableSizes.getD 0 0 + c.r.tableSizes.getD 1 0) (hbt : c.r.blockType = 2)
    (hl : c.r.lenCodes.extract 0 (c.r.tableSizes.getD 0 0) = litLens)
    (hd : c.r.lenCodes.extract (c.r.tableSizes.getD 0 0) (c.r.tableSizes.getD 0 0 + c.r.tableSizes.getD 1 0) = distLens)
    (hbad : codeValid .litlen litLens = false ∨ codeValid .dist distLens = false) : Stuck e c outA := by
  have : ∃ c1, step e c outA = .cont c1 outA ∧ c1.r.state = sBadTotalSymbols := by
    rw [step_ReadLitlenDistTablesCodeSize hs]
    unfold stReadLitlenDistTablesCodeSize
    have hlt : ¬ c.r.counter < c.r.tableSizes.getD 0 0 + c.r.tableSizes.getD 1 0 := by omega
    have hne : ¬ c.r.counter ≠ c.r.tableSizes.getD 0 0 + c.r.tableSizes.getD 1 0 := by omega
    simp only [hlt, ↓reduceIte, hne, hl, hd]
    unfold initTree
    have hbt1 : ¬ (c.r.blockType - 1 = 2) := by omega
    simp only [hbt1, ↓reduceIte]
    by_cases hvd : codeValid .dist distLens = true
    · have hvl : codeValid .litlen litLens = false := by
        rcases hbad with h | h
        · exact h
        · rw [hvd] at h; exact absurd h (by decide)
      simp only [hvd, hvl, Bool.not_true, Bool.false_eq_true, ↓reduceIte, Bool.not_false]
      exact ⟨_, rfl, rfl⟩
    · have hvd' : codeValid .dist distLens = false := by simpa using hvd
      simp only [hvd', Bool.not_false, ↓reduceIte]
      exact ⟨_, rfl, rfl⟩
  obtain ⟨c1, st, hs1⟩ := this
  exact Stuck.of_cont_failure st (by rw [hs1]; decide)

/-! ### One block -/

theorem header_none_stuck {pos : Nat} (hs : c.r.state = sReadBlockHeader) (hr : Rep e.inp c pos)
    (hv : bitsAt e.inp pos 3 = none) : Stuck e c outA := by
  have hn := readBits_short hr hv
  have : step e c outA = .fin e.eoi (readBits e.inp 3 c).1 outA := by
    rw [step_ReadBlockHeader hs]; unfold stReadBlockHeader
    generalize readBits e.inp 3 c = q at hn
    obtain ⟨c1, o⟩ := q; simp only at hn; subst hn; rfl
  exact Stuck.of_fin this (eoi_ne_done e)

theorem header_bt3_stuck {pos hdr : Nat} (hs : c.r.state = sReadBlockHeader) (hr : Rep e.inp c pos)
    (hv : bitsAt e.inp pos 3 = some hdr) (hbt : hdr / 2 = 3) : Stuck e c outA := by
  obtain ⟨c1, hrb, hr1, h8, hok, _⟩ := readBits_full hr hv
  have : ∃ c2, step e c outA = .cont c2 outA ∧ c2.r.state = sBlockTypeUnexpected := by
    rw [step_ReadBlockHeader hs]
    unfold stReadBlockHeader
    rw [hrb]
    have hz : hdr / 2 % 4 = 3 := by omega
    simp only [hz, ↓reduceIte, Nat.succ_ne_self, Nat.reduceEqDiff]
    exact ⟨_, rfl, rfl⟩
  obtain ⟨c2, st, hs2⟩ := this
  exact Stuck.of_cont_failure st (by rw [hs2]; decide)

theorem fixedLit_sym_lt {data : Array UInt8} {pos s p : Nat} (h : decodeSym fixedLitCode data pos = .sym s p) : s < 512 := by
  have := decodeSym_lt (lens := fixedLitLens) (by decide) h
  have hsz : fixedLitLens.size = 288 := by decide
  omega

/-- ONE BLOCK, CONVERSE: if the specification does not accept the block starting at `pos` — or accepts
    it with more output than the granted window holds — the model, at `ReadBlockHeader` on the same
    position with the same history, never reports `Done`. -/
theorem block_stuck (hflat : e.ring = false) (hend : e.outEnd ≤ e.outLen) {pre : Array UInt8} {maxDist fuel pos : Nat}
    {o : Array UInt8} (hmax : 32768 ≤ maxDist)
    (hs : c.r.state = sReadBlockHeader) (hsim : Sim e c outA pos (pre ++ o)) (hsh : Shape c)
    (hfit : pre.size + o.size ≤ e.outEnd)
    (hbad : Bad (inflateBlock pre maxDist e.inp fuel pos o) (fun R => e.outEnd < pre.size + R.2.1.size)) :
    Stuck e c outA := by
  unfold inflateBlock at hbad
  have hszf : (pre ++ o).size = pre.size + o.size := Array.size_append
  cases hv : bitsAt e.inp pos 3 with
  | none => exact header_none_stuck hs hsim.rep hv
  | some hdr =>
    simp only [hv] at hbad
    have hdr8 : hdr < 8 := bitsAt_lt _ _ _ _ hv
    by_cases hb0 : hdr / 2 = 0
    · -- stored
      simp only [hb0, ↓reduceIte] at hbad
      obtain ⟨c1, st1, hs1, hf1, hr1, h81, ho1, z1, sh1⟩ := micro_header_stored (outA := outA) hs hsim.rep hv hb0
      refine Stuck.of_step st1 ?_
      have hsim1 : Sim e c1 outA (pos + 3) (pre ++ o) :=
        ⟨hr1, h81 hsim.nb8, by rw [ho1]; exact hsim.outPos, hsim.outEq, hsim.size⟩
      refine stored_stuck hend hs1 hsim1 (sh1 hsh).1 (by rw [hszf]; exact hfit) ?_
      intro len nlen hl hn hchk full' hcp'
      simp only [hl, hn] at hbad
      have hne : ¬ len + nlen ≠ 65535 := by omega
      simp only [hne, ↓reduceIte] at hbad
      cases hcp : copyStored e.inp ((pos + 3 + 7) / 8 + 4) o len with
      | none =>
        exfalso
        have h1 := copyStored_none _ _ _ _ hcp
        have h2 := (copyStored_spec _ _ _ _ _ hcp').1
        by_cases hz : len = 0
        · subst hz; simp [copyStored] at hcp
        · have := h2 (by omega); omega
      | some o2 =>
        have := copyStored_append e.inp pre len _ o o2 hcp
        rw [this] at hcp'
        simp only [Option.some.injEq] at hcp'
        rw [← hcp', Array.size_append]
        simp only [hcp] at hbad
        rcases hbad with ⟨w, h⟩ | ⟨p, h⟩ | ⟨R, h, hbig⟩
        · simp at h
        · simp at h
        · simp only [Verdict.accept.injEq] at h
          rw [← h] at hbig
          exact hbig
    · simp only [hb0, ↓reduceIte] at hbad
      by_cases hb1 : hdr / 2 = 1
      · -- fixed Huffman
        simp only [hb1, ↓reduceIte] at hbad
        obtain ⟨c1, st1, hs1, hf1, hl1, hd1, hr1, h81, ho1, z1, sh1⟩ := micro_header_fixed (outA := outA) hs hsim.rep hv hb1
        refine Stuck.of_step st1 ?_
        have hsim1 : Sim e c1 outA (pos + 3) (pre ++ o) :=
          ⟨hr1, h81 hsim.nb8, by rw [ho1]; exact hsim.outPos, hsim.outEq, hsim.size⟩
        refine tokens_stuck hflat hend pre maxDist hmax fixedLitCode fixedDistCode (fun _ _ _ h => fixedLit_sym_lt h)
          fuel (pos + 3) o #[] c1 outA hsim1 hs1 hl1 hd1 hfit ?_
        cases ht : decodeTokens pre maxDist fixedLitCode fixedDistCode e.inp fuel (pos + 3) o #[] with
        | accept R =>
          obtain ⟨p, o2, toks⟩ := R
          simp only [ht] at hbad
          rcases hbad with ⟨w, h⟩ | ⟨p', h⟩ | ⟨R, h, hbig⟩
          · simp at h
          · simp at h
          · simp only [Verdict.accept.injEq] at h
            rw [← h] at hbig
            exact .inr (.inr ⟨_, rfl, hbig⟩)
        | reject w => exact .inl ⟨w, rfl⟩
        | truncated p => exact .inr (.inl ⟨p, rfl⟩)
        | fuel =>
          simp only [ht] at hbad
          rcases hbad with ⟨w, h⟩ | ⟨p', h⟩ | ⟨R, h, hbig⟩ <;> simp at h
      · simp only [hb1, ↓reduceIte] at hbad
        by_cases hb2 : hdr / 2 = 2
        · -- dynamic Huffman
          simp only [hb2, ↓reduceIte] at hbad
          obtain ⟨c1, st1, hs1, hf1, hc1, hbt1, hr1, h81, ho1, z1, sh1⟩ := micro_header_dynamic (outA := outA) hs hsim.rep hv hb2
          refine Stuck.of_step st1 ?_
          have h81' := h81 hsim.nb8
          cases h1 : bitsAt e.inp (pos + 3) 5 with
          | none =>
            exact tableSizes_stuck hs1 hc1 (sh1 hsh).2.1 hr1 h81' (fun a b c' e1 _ _ => by rw [h1] at e1; simp at e1)
          | some hlit =>
            cases h2 : bitsAt e.inp (pos + 3 + 5) 5 with
            | none =>
              exact tableSizes_stuck hs1 hc1 (sh1 hsh).2.1 hr1 h81' (fun a b c' _ e2 _ => by rw [h2] at e2; simp at e2)
            | some hdist =>
              cases h3 : bitsAt e.inp (pos + 3 + 10) 4 with
              | none =>
                exact tableSizes_stuck hs1 hc1 (sh1 hsh).2.1 hr1 h81' (fun a b c' _ _ e3 => by rw [h3] at e3; simp at e3)
              | some hclen =>
                simp only [h1, h2, h3] at hbad
                by_cases hbig : (decide (hlit + 257 > 286) || decide (hdist + 1 > 30)) = true
                · simp only [Bool.or_eq_true, decide_eq_true_eq] at hbig
                  refine tableSizes_stuck hs1 hc1 (sh1 hsh).2.1 hr1 h81' (fun a b c' e1 e2 e3 => ?_)
                  rw [h1] at e1; rw [h2] at e2
                  simp only [Option.some.injEq] at e1 e2
                  rw [← e1, ← e2]; exact hbig
                · simp only [hbig, Bool.false_eq_true, ↓reduceIte] at hbad
                  simp only [Bool.or_eq_true, decide_eq_true_eq] at hbig
                  have hclen16 := bitsAt_lt _ _ _ _ h3
                  obtain ⟨c4, r4, hs4, hc4, ht4, hcl4, hr4, h84, i4, l4⟩ :=
                    sim_tableSizes (outA := outA) hs1 hc1 (sh1 hsh).2.1 hr1 h81' h1 h2 h3 hbig
                  refine Stuck.of_reaches r4 ?_
                  have hd0 : clenOrder.drop 0 = clenOrder := rfl
                  cases hcl : readClens e.inp (hclen + 4) (pos + 3 + 14) clenOrder (Array.replicate 19 0) with
                  | none =>
                    exact clens_stuck (e := e) (outA := outA) (hclen + 4) 0 (pos + 3 + 14) (Array.replicate 19 0) c4 hs4 hc4
                      (by rw [ht4]; simp) (by omega) hr4 h84 (by rw [hd0]; exact hcl)
                  | some pc =>
                    obtain ⟨pos1, clens⟩ := pc
                    simp only [hcl] at hbad
                    obtain ⟨c5, r5, hs5, hc5, hcl5, ht5, hr5, h85, i5, l5⟩ :=
                      sim_clens (e := e) (outA := outA) (hclen + 4) 0 (pos + 3 + 14) (Array.replicate 19 0) c4 pos1 clens hs4 hc4
                        (by rw [ht4]; simp) (by omega) hcl4 hr4 h84 (by rw [hd0]; exact hcl)
                    refine Stuck.of_reaches r5 ?_
                    have hsz19 : clens.size = 19 := by
                      have := readClens_size _ _ _ _ _ _ _ hcl; simpa using this
                    have hbt5 : c5.r.blockType = 2 := by rw [i5.bt, i4.bt]; exact hbt1
                    by_cases hclv : codeValid .clen clens = true
                    · simp only [hclv, Bool.not_true, Bool.false_eq_true, ↓reduceIte] at hbad
                      obtain ⟨c6, st6, hs6, hc6, hcc6, ht6, hi6, hn6, hb6, i6, l6⟩ :=
                        micro_hufflen_done (e := e) (c := c5) (outA := outA) hs5 (by rw [hc5, ht5, ht4]; simp)
                          hbt5 (by rw [hcl5]; exact hclv)
                      refine Stuck.of_step st6 ?_
                      have hts6 : c6.r.tableSizes = #[hlit + 257, hdist + 1, 19] := by
                        rw [ht6, ht5, ht4]; simp [Array.setIfInBounds]
                      have hlc6 : c6.r.lenCodes = c1.r.lenCodes := by rw [l6, l5, l4]
                      have hrep6 : LensRep c6 #[] :=
                        ⟨by rw [hc6]; rfl, by intro i hi; simp at hi, by rw [hlc6]; exact (sh1 hsh).2.2⟩
                      have hr6 : Rep e.inp c6 pos1 := hr5.of_eq hi6 hn6 hb6
                      have h86 : c6.r.numBits < 8 := by rw [hn6]; exact h85
                      cases hlens : readLens (mkCode clens) e.inp (hlit + 257 + (hdist + 1)) fuel pos1 #[] with
                      | accept R2 =>
                        obtain ⟨pos2, lens⟩ := R2
                        simp only [hlens] at hbad
                        obtain ⟨c7, r7, hs7, hrep7, hsz7, hr7, h87, i7, ht7⟩ :=
                          sim_lens (e := e) (outA := outA) (cl := mkCode clens) (clens := clens) rfl hsz19
                            (hlit + 257 + (hdist + 1)) (by omega) fuel pos1 #[] c6 (pos2, lens) hlens hs6 (by rw [hcc6, hcl5])
                            (by rw [hts6]; simp) hrep6 hr6 h86
                        simp only at hrep7 hsz7 hr7
                        refine Stuck.of_reaches r7 ?_
                        have hts7 : c7.r.tableSizes = #[hlit + 257, hdist + 1, 19] := by rw [ht7]; exact hts6
                        have g0 : c7.r.tableSizes.getD 0 0 = hlit + 257 := by rw [hts7]; simp
                        have g1 : c7.r.tableSizes.getD 1 0 = hdist + 1 := by rw [hts7]; simp
                        have hbt7 : c7.r.blockType = 2 := by rw [i7.bt, i6.bt]; exact hbt5
                        have hex0 : c7.r.lenCodes.extract 0 (c7.r.tableSizes.getD 0 0) = lens.extract 0 (hlit + 257) := by
                          rw [g0]; exact extract_of_prefix hrep7.pre (by rw [hrep7.size]; omega) _ _ (by omega)
                        have hex1 : c7.r.lenCodes.extract (c7.r.tableSizes.getD 0 0) (c7.r.tableSizes.getD 0 0 + c7.r.tableSizes.getD 1 0) =
                            lens.extract (hlit + 257) (hlit + 257 + (hdist + 1)) := by
                          rw [g0, g1]; exact extract_of_prefix hrep7.pre (by rw [hrep7.size]; omega) _ _ (by omega)
                        have hcnt7 : c7.r.counter = c7.r.tableSizes.getD 0 0 + c7.r.tableSizes.getD 1 0 := by
                          rw [g0, g1, hrep7.cnt, hsz7]
                        by_cases hvl : codeValid .litlen (lens.extract 0 (hlit + 257)) = true
                        · simp only [hvl, Bool.not_true, Bool.false_eq_true, ↓reduceIte] at hbad
                          by_cases hvd : codeValid .dist (lens.extract (hlit + 257) (hlit + 257 + (hdist + 1))) = true
                          · simp only [hvd, Bool.not_true, Bool.false_eq_true, ↓reduceIte] at hbad
                            obtain ⟨c8, st8, hs8, hlit8, hdist8, hi8, hn8, hb8, ho8, hf8, z8, rh8, ts8, lc8⟩ :=
                              micro_rld_done (e := e) (c := c7) (outA := outA) hs7 hcnt7 hbt7 hex0 hex1 hvl hvd
                            refine Stuck.of_step st8 ?_
                            have i47 : InvD c1 c7 := i4.trans (i5.trans (i6.trans i7))
                            have hsim8 : Sim e c8 outA pos2 (pre ++ o) :=
                              ⟨hr7.of_eq hi8 hn8 hb8, by rw [hn8]; exact h87,
                               by rw [ho8, i47.outPos, ho1]; exact hsim.outPos, hsim.outEq, hsim.size⟩
                            have hexsz : (lens.extract 0 (hlit + 257)).size = hlit + 257 := by
                              simp only [Array.size_extract]; omega
                            refine tokens_stuck hflat hend pre maxDist hmax _ _ (fun pos' s p h => ?_)
                              fuel pos2 o #[] c8 outA hsim8 hs8 hlit8 hdist8 hfit ?_
                            · have := decodeSym_lt (lens := lens.extract 0 (hlit + 257)) (by omega) h
                              omega
                            · cases ht : decodeTokens pre maxDist (mkCode (lens.extract 0 (hlit + 257)))
                                  (mkCode (lens.extract (hlit + 257) (hlit + 257 + (hdist + 1)))) e.inp fuel pos2 o #[] with
                              | accept R =>
                                obtain ⟨p, o2, toks⟩ := R
                                simp only [ht] at hbad
                                rcases hbad with ⟨w, h⟩ | ⟨p', h⟩ | ⟨R, h, hbig'⟩
                                · simp at h
                                · simp at h
                                · simp only [Verdict.accept.injEq] at h
                                  rw [← h] at hbig'
                                  exact .inr (.inr ⟨_, rfl, hbig'⟩)
                              | reject w => exact .inl ⟨w, rfl⟩
                              | truncated p => exact .inr (.inl ⟨p, rfl⟩)
                              | fuel =>
                                simp only [ht] at hbad
                                rcases hbad with ⟨w, h⟩ | ⟨p', h⟩ | ⟨R, h, _⟩ <;> simp at h
                          · exact rld_done_bad_stuck hs7 hcnt7 hbt7 hex0 hex1 (.inr (by simpa using hvd))
                        · exact rld_done_bad_stuck hs7 hcnt7 hbt7 hex0 hex1 (.inl (by simpa using hvl))
                      | reject w =>
                        exact lens_stuck (e := e) (outA := outA) (cl := mkCode clens) rfl hsz19 hclv _ (by omega) fuel pos1 #[] c6
                          (.inl ⟨w, hlens⟩) hs6 (by rw [hcc6, hcl5]) (by rw [hts6]; simp) hrep6 hr6 h86
                      | truncated p =>
                        exact lens_stuck (e := e) (outA := outA) (cl := mkCode clens) rfl hsz19 hclv _ (by omega) fuel pos1 #[] c6
                          (.inr ⟨p, hlens⟩) hs6 (by rw [hcc6, hcl5]) (by rw [hts6]; simp) hrep6 hr6 h86
                      | fuel =>
                        simp only [hlens] at hbad
                        rcases hbad with ⟨w, h⟩ | ⟨p', h⟩ | ⟨R, h, _⟩ <;> simp at h
                    · exact hufflen_bad_stuck hs5 (by rw [hc5, ht5, ht4]; simp) hbt5 (by rw [hcl5]; simpa using hclv)
        · exact header_bt3_stuck hs hsim.rep hv (by omega)

/-! ### The block loop and the call -/

/-- THE BLOCK LOOP, CONVERSE. -/
theorem blocks_stuck (hflat : e.ring = false) (hend : e.outEnd ≤ e.outLen)
    (hstop : hasFlag e.flags fStopOnBlockBoundary = false) (pre : Array UInt8) (maxDist : Nat) (hmax : 32768 ≤ maxDist) :
    ∀ (fuel pos : Nat) (o : Array UInt8) (bl : Array BlockInfo) (c : Ctx) (outA : Array UInt8),
    c.r.state = sReadBlockHeader → Sim e c outA pos (pre ++ o) → Shape c → pre.size + o.size ≤ e.outEnd →
    Bad (inflateBlocks pre maxDist e.inp fuel pos o bl) (fun R => e.outEnd < pre.size + R.2.1.size) →
    Stuck e c outA := by
  intro fuel
  induction fuel with
  | zero =>
    intro pos o bl c outA _ _ _ _ hbad
    rcases hbad with ⟨w, h⟩ | ⟨p, h⟩ | ⟨R, h, _⟩ <;> simp [inflateBlocks] at h
  | succ fuel ih =>
    intro pos o bl c outA hs hsim hsh hfit hbad
    rw [inflateBlocks] at hbad
    cases hb : inflateBlock pre maxDist e.inp fuel pos o with
    | accept R1 =>
      obtain ⟨p1, o1, info⟩ := R1
      simp only [hb] at hbad
      by_cases hroom1 : pre.size + o1.size ≤ e.outEnd
      · obtain ⟨c1, outA1, r1, hs1, hsim1, hfin1, z1, sh1⟩ :=
          sim_block (c := c) (outA := outA) hflat hend hb hs hsim hsh hroom1
        refine Stuck.of_reaches r1 ?_
        by_cases hf : info.final = true
        · exfalso
          simp only [hf, ↓reduceIte] at hbad
          rcases hbad with ⟨w, h⟩ | ⟨p, h⟩ | ⟨R, h, hbig⟩
          · simp at h
          · simp at h
          · simp only [Verdict.accept.injEq] at h
            rw [← h] at hbig
            simp only at hbig
            omega
        · simp only [hf, Bool.false_eq_true, ↓reduceIte] at hbad
          have hf0 : c1.r.finish = 0 := by
            by_cases hz : c1.r.finish = 0
            · exact hz
            · exact absurd (hfin1.mp hz) hf
          have st2 := micro_blockDone_next (e := e) (c := c1) (outA := outA1) hs1 hf0 hstop
          have hsim2 : Sim e (setState c1 sReadBlockHeader) outA1 p1 (pre ++ o1) :=
            ⟨hsim1.rep.of_eq rfl rfl rfl, hsim1.nb8, hsim1.outPos, hsim1.outEq, hsim1.size⟩
          exact Stuck.of_step st2 (ih p1 o1 _ (setState c1 sReadBlockHeader) outA1 rfl hsim2 sh1 hroom1 hbad)
      · exact block_stuck hflat hend hmax hs hsim hsh hfit (.inr (.inr ⟨_, hb, by simp only; omega⟩))
    | reject w => exact block_stuck hflat hend hmax hs hsim hsh hfit (.inl ⟨w, hb⟩)
    | truncated p => exact block_stuck hflat hend hmax hs hsim hsh hfit (.inr (.inl ⟨p, hb⟩))
    | fuel =>
      simp only [hb] at hbad
      rcases hbad with ⟨w, h⟩ | ⟨p, h⟩ | ⟨R, h, _⟩ <;> simp at h

/-- A call that reports `Done` ran to `Done`. -/
theorem epilogue_done {flags p E : Nat} {st : Int} {c : Ctx} {o : Array UInt8}
    (h : (epilogue flags p E st c o).status = stDone) : st = stDone := by
  have hx : exitStatus st c E = stDone := by
    unfold epilogue at h
    dsimp only at h
    split at h
    · dsimp only at h
      split at h
      · exact absurd h (by decide)
      · exact h
    · exact h
  unfold exitStatus at hx
  split at hx
  · exact absurd hx (by decide)
  · exact hx

/-- DONE ⇒ VALID, raw DEFLATE into a flat buffer: if the call reports `Done`, the specification does
    not reject the input, does not find it truncated, and what it accepts fits the granted window. -/
theorem done_raw_flat (r : Regs) (inp out : Array UInt8) (outPos budget flags : Nat)
    (hstart : r.state = sStart) (hshape : r.rawHeader.size = 4 ∧ r.tableSizes.size = 3 ∧ r.lenCodes.size = 512)
    (hflat : hasFlag flags fNonWrapping = true) (hz : hasFlag flags fParseZlib = false)
    (hstop : hasFlag flags fStopOnBlockBoundary = false) (hpos : outPos ≤ out.size)
    (hdone : (decompress r inp out outPos budget flags).status = stDone) :
    (∃ res, inflateSpec (out.extract 0 outPos) 32768 inp 0 = .accept res ∧
      outPos + res.out.size ≤ min (outPos + budget) out.size) ∨
    inflateSpec (out.extract 0 outPos) 32768 inp 0 = .fuel := by
  have hg : badGeometry flags out.size outPos = false := by
    unfold badGeometry; simp [hflat]; omega
  rw [decompress_eq _ _ _ _ _ _ hg] at hdone
  have hrun := epilogue_done hdone
  obtain ⟨e, he⟩ : ∃ e : Env, e = { inp := inp, flags := flags, outLen := out.size, outEnd := min (outPos + budget) out.size } := ⟨_, rfl⟩
  have hflat' : e.ring = false := by rw [he]; simp [Env.ring, hflat]
  have hend : e.outEnd ≤ e.outLen := by rw [he]; show min _ _ ≤ out.size; omega
  have hstop' : hasFlag e.flags fStopOnBlockBoundary = false := by rw [he]; exact hstop
  have hz' : hasFlag e.flags fParseZlib = false := by rw [he]; exact hz
  have hinp : e.inp = inp := by rw [he]
  have hpre : (out.extract 0 outPos).size = outPos := by simp; omega
  obtain ⟨c1, st1, hs1, hn1, hb1, hi1, ho1, rh1, ts1, lc1⟩ :=
    micro_start_raw (e := e) (c := { r := r, inPos := 0, outPos := outPos }) (outA := out) hstart hz'
  have hsim1 : Sim e c1 out 0 (out.extract 0 outPos ++ #[]) := by
    have hi1' : c1.inPos = 0 := hi1
    have ho1' : c1.outPos = outPos := ho1
    refine ⟨⟨by rw [hi1']; exact Nat.zero_le _, by rw [hi1', hn1], by rw [hn1, hb1]; decide,
      by rw [hn1]; intro i hi; omega⟩, by rw [hn1]; decide, by rw [ho1']; simp; omega, ?_, by rw [he]⟩
    intro i hi
    simp only [Array.append_empty] at hi ⊢
    rw [Array.getElem?_extract]
    have : i < min outPos out.size - 0 := by simpa using hi
    simp only [this, ↓reduceIte, Nat.zero_add]
  have hsh1 : Shape c1 := ⟨by rw [rh1]; exact hshape.1, by rw [ts1]; exact hshape.2.1, by rw [lc1]; exact hshape.2.2⟩
  have hnot : ¬ Stuck e { r := r, inPos := 0, outPos := outPos } out := by
    intro hst
    have := hst (callFuel r inp (min (outPos + budget) out.size - outPos))
    rw [he] at this
    exact this hrun
  unfold inflateSpec
  cases hb : inflateBlocks (out.extract 0 outPos) 32768 inp (fuelFor inp) 0 #[] #[] with
  | accept R =>
    obtain ⟨pos', o', blocks⟩ := R
    by_cases hroom : outPos + o'.size ≤ min (outPos + budget) out.size
    · exact .inl ⟨_, rfl, hroom⟩
    · exfalso
      apply hnot
      refine Stuck.of_step st1 (blocks_stuck hflat' hend hstop' (out.extract 0 outPos) 32768 (Nat.le_refl _)
        (fuelFor inp) 0 #[] #[] c1 out hs1 hsim1 hsh1 (by rw [hpre, he]; simp; omega) (.inr (.inr ⟨_, by rw [hinp]; exact hb, ?_⟩)))
      rw [hpre, he]; simp only; omega
  | reject w =>
    exfalso
    apply hnot
    exact Stuck.of_step st1 (blocks_stuck hflat' hend hstop' (out.extract 0 outPos) 32768 (Nat.le_refl _)
      (fuelFor inp) 0 #[] #[] c1 out hs1 hsim1 hsh1 (by rw [hpre, he]; simp; omega) (.inl ⟨w, by rw [hinp]; exact hb⟩))
  | truncated p =>
    exfalso
    apply hnot
    exact Stuck.of_step st1 (blocks_stuck hflat' hend hstop' (out.extract 0 outPos) 32768 (Nat.le_refl _)
      (fuelFor inp) 0 #[] #[] c1 out hs1 hsim1 hsh1 (by rw [hpre, he]; simp; omega) (.inr (.inl ⟨p, by rw [hinp]; exact hb⟩)))
  | fuel => exact .inr rfl

/-! ### The zlib wrapper -/

/-- `ReadAdler32` with too few input bytes left for the trailer. -/
theorem adler_short_stuck : ∀ (n : Nat) (c : Ctx), c.r.state = sReadAdler32 → c.r.counter + n = 4 → c.r.numBits = 0 →
    c.inPos ≤ e.inp.size → e.inp.size < c.inPos + n → Stuck e c outA := by
  intro n
  induction n with
  | zero => intro c _ _ _ h1 h2; omega
  | succ n ih =>
    intro c hs hc hnb hle hshort
    cases hb : e.inp[c.inPos]? with
    | none =>
      have : step e c outA = .fin e.eoi c outA := by
        rw [step_ReadAdler32 hs]; unfold stReadAdler32
        have h4 : c.r.counter < 4 := by omega
        simp only [h4, ↓reduceIte, hnb, ne_eq, not_true_eq_false, hb]
      exact Stuck.of_fin this (eoi_ne_done e)
    | some b =>
      have hlt : c.inPos < e.inp.size := by
        by_cases hlt : c.inPos < e.inp.size
        · exact hlt
        · simp [Array.getElem?_eq_none (Nat.le_of_not_lt hlt)] at hb
      obtain ⟨c1, hst, hs1, hc1, hn1, hi1, _, _, _⟩ :=
        micro_adler_byte (e := e) (c := c) (outA := outA) (k := c.r.counter) (b := b) hs rfl (by omega) hnb hb
      exact Stuck.of_step hst (ih c1 hs1 (by omega) hn1 (by omega) (by omega))

/-- DONE ⇒ VALID, zlib format into a flat buffer. The trailer is part of validity unless the caller
    asked to ignore it. -/
theorem done_zlib_flat (r : Regs) (inp out : Array UInt8) (outPos budget flags : Nat)
    (hstart : r.state = sStart) (hshape : r.rawHeader.size = 4 ∧ r.tableSizes.size = 3 ∧ r.lenCodes.size = 512)
    (hflat : hasFlag flags fNonWrapping = true) (hz : hasFlag flags fParseZlib = true)
    (hstop : hasFlag flags fStopOnBlockBoundary = false) (hpos : outPos ≤ out.size)
    (hdone : (decompress r inp out outPos budget flags).status = stDone) :
    (∃ zr, zlibSpec (out.extract 0 outPos) 32768 inp (!hasFlag flags fIgnoreAdler) = .accept zr ∧
      outPos + zr.inner.out.size ≤ min (outPos + budget) out.size) ∨
    inflateSpec (out.extract 0 outPos) 32768 inp 16 = .fuel := by
  have hg : badGeometry flags out.size outPos = false := by
    unfold badGeometry; simp [hflat]; omega
  have hdone0 := hdone
  rw [decompress_eq _ _ _ _ _ _ hg] at hdone
  have hrun := epilogue_done hdone
  obtain ⟨e, he⟩ : ∃ e : Env, e = { inp := inp, flags := flags, outLen := out.size, outEnd := min (outPos + budget) out.size } := ⟨_, rfl⟩
  have hflat' : e.ring = false := by rw [he]; simp [Env.ring, hflat]
  have hend : e.outEnd ≤ e.outLen := by rw [he]; show min _ _ ≤ out.size; omega
  have hstop' : hasFlag e.flags fStopOnBlockBoundary = false := by rw [he]; exact hstop
  have hz' : hasFlag e.flags fParseZlib = true := by rw [he]; exact hz
  have hinp : e.inp = inp := by rw [he]
  have hpre : (out.extract 0 outPos).size = outPos := by simp; omega
  have hnot : ¬ Stuck e { r := r, inPos := 0, outPos := outPos } out := by
    intro hst
    have := hst (callFuel r inp (min (outPos + budget) out.size - outPos))
    rw [he] at this
    exact this hrun
  obtain ⟨c1, st1, hs1, hn1, hb1, hchk1, hza1, hi1, ho1, rh1, ts1, lc1⟩ :=
    micro_start_zlib (e := e) (c := { r := r, inPos := 0, outPos := outPos }) (outA := out) hstart hz'
  have hi1' : c1.inPos = 0 := hi1
  unfold zlibSpec
  cases h0 : inp[0]? with
  | none =>
    exfalso; apply hnot
    refine Stuck.of_step st1 ?_
    have : step e c1 out = .fin e.eoi c1 out := by
      rw [step_ReadZlibCmf hs1]; unfold stReadZlibCmf; rw [hi1', hinp, h0]
    exact Stuck.of_fin this (eoi_ne_done e)
  | some cmf =>
    have st2 := micro_cmf (e := e) (c := c1) (outA := out) (b := cmf) hs1 (by rw [hi1', hinp]; exact h0)
    cases h1 : inp[1]? with
    | none =>
      exfalso; apply hnot
      refine Stuck.of_step st1 (Stuck.of_step st2 ?_)
      have : step e (setState { c1 with r := { c1.r with zHeader0 := cmf.toNat }, inPos := c1.inPos + 1 } sReadZlibFlg) out =
          .fin e.eoi (setState { c1 with r := { c1.r with zHeader0 := cmf.toNat }, inPos := c1.inPos + 1 } sReadZlibFlg) out := by
        rw [step_ReadZlibFlg rfl]; unfold stReadZlibFlg
        have : e.inp[(setState { c1 with r := { c1.r with zHeader0 := cmf.toNat }, inPos := c1.inPos + 1 } sReadZlibFlg).inPos]? = none := by
          show e.inp[c1.inPos + 1]? = none; rw [hi1', hinp]; exact h1
        rw [this]
      exact Stuck.of_fin this (eoi_ne_done e)
    | some flg =>
      simp only
      by_cases hv : zlibHeaderValid cmf.toNat flg.toNat = true
      · simp only [hv, Bool.not_true, Bool.false_eq_true, ↓reduceIte]
        have st3 := micro_flg (e := e) (outA := out) (b := flg)
          (c := setState { c1 with r := { c1.r with zHeader0 := cmf.toNat }, inPos := c1.inPos + 1 } sReadZlibFlg) rfl
          (by show e.inp[c1.inPos + 1]? = _; rw [hi1', hinp]; exact h1) hflat' hv
        obtain ⟨c3, hc3⟩ : ∃ x, x = setState { (setState { c1 with r := { c1.r with zHeader0 := cmf.toNat }, inPos := c1.inPos + 1 } sReadZlibFlg) with
            r := { (setState { c1 with r := { c1.r with zHeader0 := cmf.toNat }, inPos := c1.inPos + 1 } sReadZlibFlg).r with zHeader1 := flg.toNat },
            inPos := (setState { c1 with r := { c1.r with zHeader0 := cmf.toNat }, inPos := c1.inPos + 1 } sReadZlibFlg).inPos + 1 } sReadBlockHeader := ⟨_, rfl⟩
        rw [← hc3] at st3
        have k1 : c3.r.state = sReadBlockHeader := by rw [hc3]; rfl
        have k2 : c3.inPos = 2 := by rw [hc3]; show c1.inPos + 1 + 1 = 2; omega
        have k3 : c3.r.numBits = 0 := by rw [hc3]; exact hn1
        have k4 : c3.r.bitBuf = 0 := by rw [hc3]; exact hb1
        have k5 : c3.outPos = outPos := by rw [hc3]; exact ho1
        have hsz2 : 2 ≤ inp.size := by
          by_cases hlt : 1 < inp.size
          · omega
          · simp [Array.getElem?_eq_none (Nat.le_of_not_lt hlt)] at h1
        have hsim3 : Sim e c3 out 16 (out.extract 0 outPos ++ #[]) := by
          refine ⟨⟨by rw [k2, hinp]; exact hsz2, by rw [k2, k3], by rw [k3, k4]; decide, by rw [k3]; intro i hi; omega⟩,
            by rw [k3]; decide, by rw [k5]; simp; omega, ?_, by rw [he]⟩
          intro i hi
          simp only [Array.append_empty] at hi ⊢
          rw [Array.getElem?_extract]
          have : i < min outPos out.size - 0 := by simpa using hi
          simp only [this, ↓reduceIte, Nat.zero_add]
        have hsh3 : Shape c3 := by
          rw [hc3]; exact ⟨by show c1.r.rawHeader.size = 4; rw [rh1]; exact hshape.1,
            by show c1.r.tableSizes.size = 3; rw [ts1]; exact hshape.2.1, by show c1.r.lenCodes.size = 512; rw [lc1]; exact hshape.2.2⟩
        have r03 : Reaches e { r := r, inPos := 0, outPos := outPos } out c3 out :=
          (Reaches.of_step st1).trans ((Reaches.of_step st2).trans (Reaches.of_step st3))
        have hfit3 : (out.extract 0 outPos).size + (#[] : Array UInt8).size ≤ e.outEnd := by
          rw [hpre, he]; simp; omega
        cases hi : inflateSpec (out.extract 0 outPos) 32768 inp 16 with
        | accept res =>
          simp only
          -- the body is accepted: room, trailer bytes, checksum
          have hbl : inflateBlocks (out.extract 0 outPos) 32768 inp (fuelFor inp) 16 #[] #[] =
              .accept (res.bitsUsed, res.out, res.blocks) := by
            unfold inflateSpec at hi
            cases hb : inflateBlocks (out.extract 0 outPos) 32768 inp (fuelFor inp) 16 #[] #[] with
            | accept R => simp only [hb, Verdict.accept.injEq] at hi; rw [← hi]
            | reject w => simp [hb] at hi
            | truncated p => simp [hb] at hi
            | fuel => simp [hb] at hi
          by_cases hroom : outPos + res.out.size ≤ min (outPos + budget) out.size
          · have hshortOr : e.inp.size < (res.bitsUsed + 7) / 8 + 4 ∨ (res.bitsUsed + 7) / 8 + 4 ≤ inp.size := by
              rw [hinp]; omega
            rcases hshortOr with hshort | hlong
            · -- trailer missing
              exfalso; apply hnot
              refine Stuck.of_reaches r03 ?_
              obtain ⟨cB, outB, rB, hsB, hsimB, hfB, zB⟩ :=
                sim_blocks hflat' hend hstop' (out.extract 0 outPos) 32768 (fuelFor inp) 16 #[] #[] (res.bitsUsed, res.out, res.blocks) c3 out
                  (by rw [hinp]; exact hbl) k1 hsim3 hsh3 (by rw [hpre]; rw [he]; exact hroom)
              simp only at hsimB
              have hpeB := hsimB.rep.posEq
              have h8B := hsimB.nb8
              have hinB : cB.inPos = (res.bitsUsed + 7) / 8 := by omega
              obtain ⟨cA, stA, hsA, hcA, hnA, hiA, hoA, hzA, hkA⟩ :=
                micro_blockDone_final_zlib (e := e) (c := cB) (outA := outB) hsB hfB h8B hz'
              refine Stuck.of_reaches rB (Stuck.of_step stA ?_)
              exact adler_short_stuck 4 cA hsA (by rw [hcA]) hnA (by rw [hiA]; exact hsimB.rep.inLe) (by rw [hiA, hinB]; exact hshort)
            · have ha : inp[(res.bitsUsed + 7) / 8]? = some inp[(res.bitsUsed + 7) / 8] := Array.getElem?_eq_getElem (by omega)
              have hb : inp[(res.bitsUsed + 7) / 8 + 1]? = some inp[(res.bitsUsed + 7) / 8 + 1] := Array.getElem?_eq_getElem (by omega)
              have hc : inp[(res.bitsUsed + 7) / 8 + 2]? = some inp[(res.bitsUsed + 7) / 8 + 2] := Array.getElem?_eq_getElem (by omega)
              have hd : inp[(res.bitsUsed + 7) / 8 + 3]? = some inp[(res.bitsUsed + 7) / 8 + 3] := Array.getElem?_eq_getElem (by omega)
              have hfw := (refine_zlib_flat r inp out outPos budget flags 32768 res cmf flg _ _ _ _ hstart hshape hflat hz hstop hpos
                h0 h1 hv hi ha hb hc hd hroom).1
              rw [hdone0] at hfw
              simp only [ha, hb, hc, hd]
              left
              by_cases hmis : ((!hasFlag flags fIgnoreAdler) &&
                  decide (((inp[(res.bitsUsed + 7) / 8].toNat * 256 + inp[(res.bitsUsed + 7) / 8 + 1].toNat) * 256 +
                    inp[(res.bitsUsed + 7) / 8 + 2].toNat) * 256 + inp[(res.bitsUsed + 7) / 8 + 3].toNat ≠ adler32 1 res.out.toList)) = true
              · exfalso
                simp only [Bool.and_eq_true, Bool.not_eq_true', decide_eq_true_eq] at hmis
                have : hasFlag flags fIgnoreAdler = false ∧ adler32 1 res.out.toList ≠
                    ((inp[(res.bitsUsed + 7) / 8].toNat * 256 + inp[(res.bitsUsed + 7) / 8 + 1].toNat) * 256 +
                    inp[(res.bitsUsed + 7) / 8 + 2].toNat) * 256 + inp[(res.bitsUsed + 7) / 8 + 3].toNat :=
                  ⟨hmis.1, fun h => hmis.2 h.symm⟩
                rw [if_pos this] at hfw
                exact absurd hfw (by decide)
              · simp only [hmis, Bool.false_eq_true, ↓reduceIte]
                exact ⟨_, rfl, hroom⟩
          · exfalso; apply hnot
            refine Stuck.of_reaches r03 (blocks_stuck hflat' hend hstop' (out.extract 0 outPos) 32768 (Nat.le_refl _)
              (fuelFor inp) 16 #[] #[] c3 out k1 hsim3 hsh3 hfit3 (.inr (.inr ⟨_, by rw [hinp]; exact hbl, ?_⟩)))
            rw [hpre, he]; simp only; omega
        | reject w =>
          exfalso; apply hnot
          have hbl : inflateBlocks (out.extract 0 outPos) 32768 inp (fuelFor inp) 16 #[] #[] = .reject w := by
            unfold inflateSpec at hi
            cases hb : inflateBlocks (out.extract 0 outPos) 32768 inp (fuelFor inp) 16 #[] #[] with
            | accept R => simp [hb] at hi
            | reject w' => simp only [hb, Verdict.reject.injEq] at hi; rw [hi]
            | truncated p => simp [hb] at hi
            | fuel => simp [hb] at hi
          exact Stuck.of_reaches r03 (blocks_stuck hflat' hend hstop' (out.extract 0 outPos) 32768 (Nat.le_refl _)
            (fuelFor inp) 16 #[] #[] c3 out k1 hsim3 hsh3 hfit3 (.inl ⟨w, by rw [hinp]; exact hbl⟩))
        | truncated p =>
          exfalso; apply hnot
          have hbl : inflateBlocks (out.extract 0 outPos) 32768 inp (fuelFor inp) 16 #[] #[] = .truncated p := by
            unfold inflateSpec at hi
            cases hb : inflateBlocks (out.extract 0 outPos) 32768 inp (fuelFor inp) 16 #[] #[] with
            | accept R => simp [hb] at hi
            | reject w' => simp [hb] at hi
            | truncated p' => simp only [hb, Verdict.truncated.injEq] at hi; rw [hi]
            | fuel => simp [hb] at hi
          exact Stuck.of_reaches r03 (blocks_stuck hflat' hend hstop' (out.extract 0 outPos) 32768 (Nat.le_refl _)
            (fuelFor inp) 16 #[] #[] c3 out k1 hsim3 hsh3 hfit3 (.inr (.inl ⟨p, by rw [hinp]; exact hbl⟩)))
        | fuel => exact .inr rfl
      · -- invalid header
        exfalso; apply hnot
        refine Stuck.of_step st1 (Stuck.of_step st2 ?_)
        have : ∃ c', step e (setState { c1 with r := { c1.r with zHeader0 := cmf.toNat }, inPos := c1.inPos + 1 } sReadZlibFlg) out =
            .cont c' out ∧ c'.r.state = sBadZlibHeader := by
          rw [step_ReadZlibFlg rfl]; unfold stReadZlibFlg
          have hb : e.inp[(setState { c1 with r := { c1.r with zHeader0 := cmf.toNat }, inPos := c1.inPos + 1 } sReadZlibFlg).inPos]? = some flg := by
            show e.inp[c1.inPos + 1]? = _; rw [hi1', hinp]; exact h1
          rw [hb]
          have hv' : zlibHeaderValid (setState { c1 with r := { c1.r with zHeader0 := cmf.toNat }, inPos := c1.inPos + 1 } sReadZlibFlg).r.zHeader0 flg.toNat = false := by
            show zlibHeaderValid cmf.toNat flg.toNat = false
            simpa using hv
          simp only [hv', hflat', Bool.not_false, Bool.true_or, ↓reduceIte]
          exact ⟨_, rfl, rfl⟩
        obtain ⟨c', st, hs'⟩ := this
        exact Stuck.of_cont_failure st (by rw [hs']; decide)

end Model.Core
