import MinizProof.Model.DeflStream
namespace Model.Defl

/-- Loop invariant: counts only grow, and never beyond what was offered. -/
theorem loop_counts (flush : Nat) : ∀ (script : List Resp) (inLeft outLeft c w : Nat) (calls : List (Nat × Nat))
    (r : Result) (cs : List (Nat × Nat)),
    loop flush inLeft outLeft c w calls script = .ok r cs →
    r.consumed ≤ c + inLeft ∧ r.written ≤ w + outLeft ∧ c ≤ r.consumed ∧ w ≤ r.written := by
  intro script
  induction script with
  | nil => intro inLeft outLeft c w calls r cs h; simp [loop] at h
  | cons x xs ih =>
    intro inLeft outLeft c w calls r cs h
    unfold loop at h
    simp only at h
    split at h
    · simp at h
    · rename_i hb
      have hb1 : x.cin ≤ inLeft := by omega
      have hb2 : x.cout ≤ outLeft := by omega
      repeat' split at h
      all_goals first
        | (simp only [Outcome.ok.injEq] at h; obtain ⟨hr, _⟩ := h; subst hr; simp only; omega)
        | (have := ih _ _ _ _ _ _ _ h; omega)

/-- A result `Ok` comes with progress since the call started, or with a flush request; and
    under Finish it comes with the output completely used. -/
theorem loop_ok (flush : Nat) : ∀ (script : List Resp) (inLeft outLeft c w : Nat) (calls : List (Nat × Nat))
    (r : Result) (cs : List (Nat × Nat)), 0 < outLeft →
    loop flush inLeft outLeft c w calls script = .ok r cs → r.status = rOk →
    (r.consumed > 0 ∨ r.written > 0 ∨ flush ≠ flNone) ∧ (flush = flFinish → r.written = w + outLeft) := by
  intro script
  induction script with
  | nil => intro inLeft outLeft c w calls r cs _ h; simp [loop] at h
  | cons x xs ih =>
    intro inLeft outLeft c w calls r cs hpos h hst
    unfold loop at h
    simp only at h
    split at h
    · simp at h
    · rename_i hb
      have hb1 : x.cin ≤ inLeft := by omega
      have hb2 : x.cout ≤ outLeft := by omega
      split at h
      · simp only [Outcome.ok.injEq] at h; obtain ⟨hr, _⟩ := h; subst hr; simp [rParam, rOk] at hst
      · split at h
        · simp only [Outcome.ok.injEq] at h; obtain ⟨hr, _⟩ := h; subst hr; simp [rStream, rOk] at hst
        · split at h
          · simp only [Outcome.ok.injEq] at h; obtain ⟨hr, _⟩ := h; subst hr; simp [rStreamEnd, rOk] at hst
          · split at h
            · -- output exhausted
              rename_i hout
              simp only [Outcome.ok.injEq] at h; obtain ⟨hr, _⟩ := h; subst hr
              simp only
              constructor
              · right; left; omega
              · intro _; omega
            · split at h
              · rename_i hin
                split at h
                · rename_i hp
                  simp only [Outcome.ok.injEq] at h; obtain ⟨hr, _⟩ := h; subst hr
                  simp only
                  constructor
                  · rcases hp with hp | hp | hp
                    · right; right; exact hp
                    · left; exact hp
                    · right; left; exact hp
                  · intro hf; exact absurd hf hin.2
                · simp only [Outcome.ok.injEq] at h; obtain ⟨hr, _⟩ := h; subst hr; simp [rBuf, rOk] at hst
              · rename_i hout hcont
                have hpos' : 0 < outLeft - x.cout := by omega
                have := ih _ _ _ _ _ _ _ hpos' h hst
                have hc := loop_counts flush xs _ _ _ _ _ _ _ h
                constructor
                · exact this.1
                · intro hf; have := this.2 hf; omega

/-- If the loop answers at all, the engine was called at least once and the last call it made is
    the one whose status decided the answer: `StreamEnd` only from `Done`, `Param` only from
    `BadParam`, `Stream` only from `PutBufFailed`. -/
theorem loop_status_origin (flush : Nat) : ∀ (script : List Resp) (inLeft outLeft c w : Nat) (calls : List (Nat × Nat))
    (r : Result) (cs : List (Nat × Nat)),
    loop flush inLeft outLeft c w calls script = .ok r cs →
    (r.status = rStreamEnd → ∃ x ∈ script, x.st = stDone) ∧
    (r.status = rParam → ∃ x ∈ script, x.st = stBadParam) ∧
    (r.status = rStream → ∃ x ∈ script, x.st = stPutBufFailed) ∧
    (r.status = rStreamEnd ∨ r.status = rParam ∨ r.status = rStream ∨ r.status = rOk ∨ r.status = rBuf) := by
  intro script
  induction script with
  | nil => intro inLeft outLeft c w calls r cs h; simp [loop] at h
  | cons x xs ih =>
    intro inLeft outLeft c w calls r cs h
    unfold loop at h
    simp only at h
    split at h
    · simp at h
    · split at h
      · rename_i hs
        simp only [Outcome.ok.injEq] at h; obtain ⟨hr, _⟩ := h; subst hr
        simp [rParam, rStreamEnd, rStream, hs]
      · split at h
        · rename_i hs
          simp only [Outcome.ok.injEq] at h; obtain ⟨hr, _⟩ := h; subst hr
          simp [rParam, rStreamEnd, rStream, hs]
        · split at h
          · rename_i hs
            simp only [Outcome.ok.injEq] at h; obtain ⟨hr, _⟩ := h; subst hr
            simp [rParam, rStreamEnd, rStream, hs]
          · split at h
            · simp only [Outcome.ok.injEq] at h; obtain ⟨hr, _⟩ := h; subst hr
              simp [rParam, rStreamEnd, rStream, rOk]
            · split at h
              · split at h
                · simp only [Outcome.ok.injEq] at h; obtain ⟨hr, _⟩ := h; subst hr
                  simp [rParam, rStreamEnd, rStream, rOk]
                · simp only [Outcome.ok.injEq] at h; obtain ⟨hr, _⟩ := h; subst hr
                  simp [rParam, rStreamEnd, rStream, rOk, rBuf]
              · have := ih _ _ _ _ _ _ _ h
                refine ⟨?_, ?_, ?_, this.2.2.2⟩
                · intro hs; obtain ⟨y, hy, hyd⟩ := this.1 hs; exact ⟨y, List.mem_cons_of_mem _ hy, hyd⟩
                · intro hs; obtain ⟨y, hy, hyd⟩ := this.2.1 hs; exact ⟨y, List.mem_cons_of_mem _ hy, hyd⟩
                · intro hs; obtain ⟨y, hy, hyd⟩ := this.2.2.1 hs; exact ⟨y, List.mem_cons_of_mem _ hy, hyd⟩

/-- Termination: if every engine response is a TDEFLStatus and every `Okay` response makes
    progress (consumes or writes something), the loop answers within `inLeft + outLeft + 1` engine calls. -/
theorem loop_terminates (flush : Nat) : ∀ (script : List Resp) (inLeft outLeft c w : Nat) (calls : List (Nat × Nat)),
    (∀ x ∈ script, (x.st = stOkay ∧ x.cin + x.cout > 0) ∨ x.st = stDone ∨ x.st = stBadParam ∨ x.st = stPutBufFailed) →
    inLeft + outLeft + 1 ≤ script.length →
    ∀ cs, loop flush inLeft outLeft c w calls script ≠ .stuck cs := by
  intro script
  induction script with
  | nil => intro inLeft outLeft c w calls _ hl; simp at hl
  | cons x xs ih =>
    intro inLeft outLeft c w calls hprog hl cs
    unfold loop
    simp only
    split
    · simp
    · rename_i hb
      split
      · simp
      · rename_i h1
        split
        · simp
        · rename_i h2
          split
          · simp
          · rename_i h3
            split
            · simp
            · split
              · split <;> simp
              · have hx := hprog x (List.mem_cons_self)
                have hp : x.cin + x.cout > 0 := by
                  rcases hx with ⟨_, hp⟩ | hd | hbp | hpf
                  · exact hp
                  · exact absurd hd h3
                  · exact absurd hbp h1
                  · exact absurd hpf h2
                apply ih
                · intro y hy; exact hprog y (List.mem_cons_of_mem _ hy)
                · simp only [List.length_cons] at hl; omega

end Model.Defl
