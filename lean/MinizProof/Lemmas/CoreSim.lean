/-
Simulation of the specification's reference decoder (`Spec.inflateBlocks`, flat output) by the
decoder model (`Model.Core.step`): output representation, LZ77 copies, and the token loop of a
Huffman block. Helper lemmas for the refinement theorems (Props/C03, C06).
-/
import MinizProof.Lemmas.CoreReach
set_option linter.unusedVariables false
namespace Model.Core
open Spec

/-- The first `full.size` bytes of the model's output buffer are `full`. -/
def OutEq (outA full : Array UInt8) : Prop := ∀ i, i < full.size → outA[i]? = full[i]?

theorem OutEq.getD {outA full : Array UInt8} (h : OutEq outA full) {i : Nat} (hi : i < full.size) :
    outA.getD i 0 = full.getD i 0 := by
  have := h i hi
  simp only [Array.getD_eq_getD_getElem?, this]

theorem OutEq.push {outA full : Array UInt8} (h : OutEq outA full) (v : UInt8) (hs : full.size < outA.size) :
    OutEq (outA.setIfInBounds full.size v) (full.push v) := by
  intro i hi
  simp only [Array.size_push] at hi
  rw [Array.getElem?_setIfInBounds, Array.getElem?_push]
  by_cases he : i = full.size
  · subst he; simp [hs]
  · have : full.size ≠ i := fun h => he h.symm
    simp only [this, ↓reduceIte, he]
    exact h i (by omega)

/-- LZ77 copy on the concatenation `pre ++ out`. -/
def copyFull (full : Array UInt8) (dist : Nat) : Nat → Array UInt8
  | 0 => full
  | n + 1 => copyFull (full.push (full.getD (full.size - dist) 0)) dist n

theorem copyFull_size (dist n : Nat) : ∀ full : Array UInt8, (copyFull full dist n).size = full.size + n := by
  induction n with
  | zero => intro full; rfl
  | succ n ih => intro full; unfold copyFull; rw [ih]; simp; omega

theorem histByte_eq (pre out : Array UInt8) (dist : Nat) (h1 : 1 ≤ dist) (h2 : dist ≤ pre.size + out.size) :
    histByte pre out dist = (pre ++ out).getD ((pre ++ out).size - dist) 0 := by
  unfold histByte
  simp only [Array.getD_eq_getD_getElem?, Array.size_append]
  by_cases h : dist ≤ out.size
  · simp only [h, ↓reduceIte]
    rw [Array.getElem?_append_right (by omega)]
    congr 2; omega
  · simp only [h, ↓reduceIte]
    rw [Array.getElem?_append_left (by omega)]

theorem copyMatch_eq (pre : Array UInt8) (dist : Nat) (h1 : 1 ≤ dist) (n : Nat) : ∀ out : Array UInt8,
    dist ≤ pre.size + out.size → pre ++ copyMatch pre out dist n = copyFull (pre ++ out) dist n := by
  induction n with
  | zero => intro out _; rfl
  | succ n ih =>
    intro out h2
    unfold copyMatch copyFull
    rw [ih _ (by simp; omega), histByte_eq pre out dist h1 h2, Array.append_push]

theorem copyMatch_size (pre : Array UInt8) (dist n : Nat) : ∀ out : Array UInt8,
    (copyMatch pre out dist n).size = out.size + n := by
  induction n with
  | zero => intro out; rfl
  | succ n ih => intro out; unfold copyMatch; rw [ih]; simp; omega

/-- The model's flat-buffer match copy produces the specification's bytes. -/
theorem copyBytes_sim (dist rs : Nat) (h1 : 1 ≤ dist) (n : Nat) : ∀ (outA full : Array UInt8),
    OutEq outA full → dist ≤ full.size → full.size + n ≤ outA.size →
    OutEq (copyBytes outA full.size (full.size - dist) rs false n) (copyFull full dist n) := by
  induction n with
  | zero => intro outA full h _ _; exact h
  | succ n ih =>
    intro outA full h h2 h3
    unfold copyBytes copyFull
    simp only [Bool.false_eq_true, ↓reduceIte]
    have hv : outA.getD (full.size - dist) 0 = full.getD (full.size - dist) 0 := h.getD (by omega)
    rw [hv]
    have hp := h.push (full.getD (full.size - dist) 0) (by omega)
    have := ih _ _ hp (by simp; omega) (by simp; omega)
    simp only [Array.size_push] at this
    have e : full.size + 1 - dist = full.size - dist + 1 := by omega
    rw [e] at this
    exact this

/-- Stored-block copy: the specification's byte-by-byte copy from the input. -/
theorem copyIn_sim (inp : Array UInt8) (n : Nat) : ∀ (outA full : Array UInt8) (q : Nat) (full' : Array UInt8),
    OutEq outA full → full.size + n ≤ outA.size → copyStored inp q full n = some full' →
    OutEq (copyIn inp outA full.size q n) full' := by
  induction n with
  | zero => intro outA full q full' h _ hc; simp [copyStored] at hc; rw [← hc]; exact h
  | succ n ih =>
    intro outA full q full' h h3 hc
    unfold copyStored at hc
    unfold copyIn
    cases hb : inp[q]? with
    | none => simp [hb] at hc
    | some b =>
      simp only [hb] at hc
      have hv : inp.getD q 0 = b := by simp [Array.getD_eq_getD_getElem?, hb]
      rw [hv]
      have hp := h.push b (by omega)
      have := ih _ _ (q + 1) full' hp (by simp; omega) hc
      simp only [Array.size_push] at this
      exact this

theorem Rep.of_eq {data : Array UInt8} {c c' : Ctx} {pos : Nat} (h : Rep data c pos)
    (h1 : c'.inPos = c.inPos) (h2 : c'.r.numBits = c.r.numBits) (h3 : c'.r.bitBuf = c.r.bitBuf) :
    Rep data c' pos :=
  ⟨by rw [h1]; exact h.inLe, by rw [h1, h2]; exact h.posEq, by rw [h2, h3]; exact h.lt,
   by rw [h2, h3]; exact h.bits⟩

/-- Registers a Huffman block leaves alone. -/
structure Inv (c c' : Ctx) : Prop where
  finish : c'.r.finish = c.r.finish
  z0     : c'.r.zHeader0 = c.r.zHeader0
  z1     : c'.r.zHeader1 = c.r.zHeader1
  zA     : c'.r.zAdler32 = c.r.zAdler32
  chk    : c'.r.checkAdler32 = c.r.checkAdler32
  lit    : c'.r.litCode = c.r.litCode
  dist   : c'.r.distCode = c.r.distCode
  rh     : c'.r.rawHeader = c.r.rawHeader
  ts     : c'.r.tableSizes = c.r.tableSizes
  lc     : c'.r.lenCodes = c.r.lenCodes

theorem Inv.refl (c : Ctx) : Inv c c := ⟨rfl, rfl, rfl, rfl, rfl, rfl, rfl, rfl, rfl, rfl⟩
theorem Inv.trans {a b c : Ctx} (h1 : Inv a b) (h2 : Inv b c) : Inv a c :=
  ⟨h2.finish.trans h1.finish, h2.z0.trans h1.z0, h2.z1.trans h1.z1, h2.zA.trans h1.zA,
   h2.chk.trans h1.chk, h2.lit.trans h1.lit, h2.dist.trans h1.dist, h2.rh.trans h1.rh, h2.ts.trans h1.ts,
   h2.lc.trans h1.lc⟩
theorem Inv.of_read {inp : Array UInt8} {c c' : Ctx} (h : ReadOK inp c c') : Inv c c' := by
  have := h.regs
  exact ⟨by rw [this], by rw [this], by rw [this], by rw [this], by rw [this], by rw [this], by rw [this],
    by rw [this], by rw [this], by rw [this]⟩

/-- The model state represents the specification's decoder state `(pos, full)`. -/
structure Sim (e : Env) (c : Ctx) (outA : Array UInt8) (pos : Nat) (full : Array UInt8) : Prop where
  rep    : Rep e.inp c pos
  nb8    : c.r.numBits < 8
  outPos : c.outPos = full.size
  outEq  : OutEq outA full
  size   : outA.size = e.outLen

variable {e : Env} {c : Ctx} {outA : Array UInt8}

/-- `DecodeLitlen`: one literal/length symbol. -/
theorem micro_decodeLitlen {pos s p : Nat} (hs : c.r.state = sDecodeLitlen) (hr : Rep e.inp c pos)
    (hd : decodeSym c.r.litCode e.inp pos = .sym s p) :
    ∃ c1, step e c outA = .cont c1 outA ∧ c1.r.state = sWriteSymbol ∧ c1.r.counter = s ∧
      Rep e.inp c1 p ∧ c1.outPos = c.outPos ∧ Inv c c1 ∧ (c.r.numBits < 8 → c1.r.numBits < 8) := by
  have h := decodeHuff_rep hr hd
  have hok := (decodeHuff_spec e.inp c.r.litCode c hr.inLe).1
  rw [step_DecodeLitlen hs]
  unfold stDecodeLitlen
  generalize decodeHuff e.inp c.r.litCode c = q at h hok
  obtain ⟨c1, o⟩ := q
  obtain ⟨h1, h2, h8⟩ := h
  simp only at h1 h2 hok h8
  subst h1
  have i := Inv.of_read hok
  exact ⟨_, rfl, rfl, rfl, h2.of_eq rfl rfl rfl, hok.outPos, ⟨i.finish, i.z0, i.z1, i.zA, i.chk, i.lit, i.dist, i.rh, i.ts, i.lc⟩, h8⟩

/-- `WriteSymbol` with a literal and room for it. -/
theorem micro_writeLiteral (hs : c.r.state = sWriteSymbol) (hc : c.r.counter < 256) (hroom : c.outPos < e.outEnd) :
    ∃ c1, step e c outA = .cont c1 (outA.setIfInBounds c.outPos (UInt8.ofNat c.r.counter)) ∧
      c1.r.state = sDecodeLitlen ∧ c1.outPos = c.outPos + 1 ∧ c1.inPos = c.inPos ∧
      c1.r.numBits = c.r.numBits ∧ c1.r.bitBuf = c.r.bitBuf ∧ Inv c c1 := by
  rw [step_WriteSymbol hs]
  unfold stWriteSymbol wrBytesLeft
  have h1 : ¬ (c.r.counter ≥ 256) := by omega
  have h2 : e.outEnd - c.outPos > 0 := by omega
  simp only [h1, h2, ↓reduceIte]
  exact ⟨_, rfl, rfl, rfl, rfl, rfl, rfl, ⟨rfl, rfl, rfl, rfl, rfl, rfl, rfl, rfl, rfl, rfl⟩⟩

/-- `WriteSymbol` with a length / end-of-block symbol. -/
theorem micro_writeSymbol_hi (hs : c.r.state = sWriteSymbol) (hc : 256 ≤ c.r.counter) :
    step e c outA = .cont (setState c sHuffDecodeOuterLoop1) outA := by
  rw [step_WriteSymbol hs]
  unfold stWriteSymbol
  simp only [ge_iff_le, hc, ↓reduceIte]

/-- `HuffDecodeOuterLoop1` on the end-of-block symbol. -/
theorem micro_hol1_eob (hs : c.r.state = sHuffDecodeOuterLoop1) (hc : c.r.counter = 256) :
    ∃ c1, step e c outA = .cont c1 outA ∧ c1.r.state = sBlockDone ∧ c1.outPos = c.outPos ∧ c1.inPos = c.inPos ∧
      c1.r.numBits = c.r.numBits ∧ c1.r.bitBuf = c.r.bitBuf ∧ Inv c c1 := by
  rw [step_HuffDecodeOuterLoop1 hs]
  unfold stHuffDecodeOuterLoop1
  simp only [hc]
  exact ⟨_, rfl, rfl, rfl, rfl, rfl, rfl, ⟨rfl, rfl, rfl, rfl, rfl, rfl, rfl, rfl, rfl, rfl⟩⟩

set_option maxRecDepth 20000 in
/-- `HuffDecodeOuterLoop1` on a length symbol 257..285. -/
theorem micro_hol1_len {s : Nat} (hs : c.r.state = sHuffDecodeOuterLoop1) (hc : c.r.counter = s)
    (h1 : 256 < s) (h2 : s ≤ 285) :
    ∃ c1, step e c outA = .cont c1 outA ∧
      c1.r.state = (if (lengthBaseExtra s).2 ≠ 0 then sReadExtraBitsLitlen else sDecodeDistance) ∧
      c1.r.counter = (lengthBaseExtra s).1 ∧ c1.r.numExtra = (lengthBaseExtra s).2 ∧
      c1.outPos = c.outPos ∧ c1.inPos = c.inPos ∧ c1.r.numBits = c.r.numBits ∧ c1.r.bitBuf = c.r.bitBuf ∧ Inv c c1 := by
  rw [step_HuffDecodeOuterLoop1 hs]
  unfold stHuffDecodeOuterLoop1
  have hm : s % 512 = s := by omega
  have hne : ¬ s = 256 := by omega
  have hle : ¬ s > 285 := by omega
  dsimp only
  rw [hc, hm, if_neg hne, if_neg hle]
  exact ⟨_, rfl, rfl, rfl, rfl, rfl, rfl, rfl, rfl, ⟨rfl, rfl, rfl, rfl, rfl, rfl, rfl, rfl, rfl, rfl⟩⟩

/-- `ReadExtraBitsLitlen`. -/
theorem micro_rebl {pos v : Nat} (hs : c.r.state = sReadExtraBitsLitlen) (hr : Rep e.inp c pos)
    (hv : bitsAt e.inp pos c.r.numExtra = some v) :
    ∃ c1, step e c outA = .cont c1 outA ∧ c1.r.state = sDecodeDistance ∧ c1.r.counter = c.r.counter + v ∧
      Rep e.inp c1 (pos + c.r.numExtra) ∧ c1.outPos = c.outPos ∧ Inv c c1 ∧ (c.r.numBits < 8 → c1.r.numBits < 8) := by
  have h := readBits_rep hr hv
  have h8 : c.r.numBits < 8 → (readBits e.inp c.r.numExtra c).1.r.numBits < 8 := fun h8 => readBits_nb8 h8 h.1
  have hok := (readBits_spec e.inp c.r.numExtra c hr.inLe).1
  rw [step_ReadExtraBitsLitlen hs]
  unfold stReadExtraBitsLitlen
  generalize readBits e.inp c.r.numExtra c = q at h hok h8
  obtain ⟨c1, o⟩ := q
  obtain ⟨h1, h2⟩ := h
  simp only at h1 h2 hok h8
  subst h1
  have i := Inv.of_read hok
  have hcnt : c1.r.counter = c.r.counter := by rw [hok.regs]
  exact ⟨_, rfl, rfl, by show c1.r.counter + v = _; rw [hcnt], h2.of_eq rfl rfl rfl, hok.outPos,
    ⟨i.finish, i.z0, i.z1, i.zA, i.chk, i.lit, i.dist, i.rh, i.ts, i.lc⟩, h8⟩

/-- `DecodeDistance` on a valid distance symbol. -/
theorem micro_decodeDistance {pos d p : Nat} (hs : c.r.state = sDecodeDistance) (hr : Rep e.inp c pos)
    (hd : decodeSym c.r.distCode e.inp pos = .sym d p) (hle : d ≤ 29) :
    ∃ c1, step e c outA = .cont c1 outA ∧
      c1.r.state = (if (distBaseExtra d).2 ≠ 0 then sReadExtraBitsDistance else sHuffDecodeOuterLoop2) ∧
      c1.r.dist = (distBaseExtra d).1 ∧ c1.r.numExtra = (distBaseExtra d).2 ∧ c1.r.counter = c.r.counter ∧
      Rep e.inp c1 p ∧ c1.outPos = c.outPos ∧ Inv c c1 ∧ (c.r.numBits < 8 → c1.r.numBits < 8) := by
  have h := decodeHuff_rep hr hd
  have hok := (decodeHuff_spec e.inp c.r.distCode c hr.inLe).1
  rw [step_DecodeDistance hs]
  unfold stDecodeDistance
  generalize decodeHuff e.inp c.r.distCode c = q at h hok
  obtain ⟨c1, o⟩ := q
  obtain ⟨h1, h2, h8⟩ := h
  simp only at h1 h2 hok h8
  subst h1
  have hgt : ¬ d > 29 := by omega
  simp only [hgt, ↓reduceIte]
  have i := Inv.of_read hok
  have hcnt : c1.r.counter = c.r.counter := by rw [hok.regs]
  exact ⟨_, rfl, rfl, rfl, rfl, hcnt, h2.of_eq rfl rfl rfl, hok.outPos,
    ⟨i.finish, i.z0, i.z1, i.zA, i.chk, i.lit, i.dist, i.rh, i.ts, i.lc⟩, h8⟩

/-- `ReadExtraBitsDistance`. -/
theorem micro_rebd {pos v : Nat} (hs : c.r.state = sReadExtraBitsDistance) (hr : Rep e.inp c pos)
    (hv : bitsAt e.inp pos c.r.numExtra = some v) :
    ∃ c1, step e c outA = .cont c1 outA ∧ c1.r.state = sHuffDecodeOuterLoop2 ∧ c1.r.dist = c.r.dist + v ∧
      c1.r.counter = c.r.counter ∧ Rep e.inp c1 (pos + c.r.numExtra) ∧ c1.outPos = c.outPos ∧ Inv c c1 ∧
      (c.r.numBits < 8 → c1.r.numBits < 8) := by
  have h := readBits_rep hr hv
  have h8 : c.r.numBits < 8 → (readBits e.inp c.r.numExtra c).1.r.numBits < 8 := fun h8 => readBits_nb8 h8 h.1
  have hok := (readBits_spec e.inp c.r.numExtra c hr.inLe).1
  rw [step_ReadExtraBitsDistance hs]
  unfold stReadExtraBitsDistance
  generalize readBits e.inp c.r.numExtra c = q at h hok h8
  obtain ⟨c1, o⟩ := q
  obtain ⟨h1, h2⟩ := h
  simp only at h1 h2 hok h8
  subst h1
  have i := Inv.of_read hok
  have hcnt : c1.r.counter = c.r.counter := by rw [hok.regs]
  have hdist : c1.r.dist = c.r.dist := by rw [hok.regs]
  exact ⟨_, rfl, rfl, by show c1.r.dist + v = _; rw [hdist], hcnt, h2.of_eq rfl rfl rfl, hok.outPos,
    ⟨i.finish, i.z0, i.z1, i.zA, i.chk, i.lit, i.dist, i.rh, i.ts, i.lc⟩, h8⟩

/-- The match copy in a flat buffer with room for the whole match. -/
theorem micro_match {full : Array UInt8} (hflat : e.ring = false) (hs : c.r.state = sHuffDecodeOuterLoop2)
    (ho : c.outPos = full.size) (heq : OutEq outA full) (hsz : outA.size = e.outLen)
    (hd1 : 1 ≤ c.r.dist) (hd2 : c.r.dist ≤ full.size) (hroom : full.size + c.r.counter ≤ e.outEnd)
    (hend : e.outEnd ≤ e.outLen) :
    ∃ c1 outA1, step e c outA = .cont c1 outA1 ∧ c1.r.state = sDecodeLitlen ∧
      c1.outPos = full.size + c.r.counter ∧ OutEq outA1 (copyFull full c.r.dist c.r.counter) ∧
      outA1.size = e.outLen ∧ c1.inPos = c.inPos ∧ c1.r.numBits = c.r.numBits ∧ c1.r.bitBuf = c.r.bitBuf ∧
      Inv c c1 := by
  rw [step_Match1 hs]
  unfold stMatch wrBytesLeft
  have hoob : ¬ ((c.r.dist > c.outPos ∧ (!e.ring) = true) ∨ c.r.dist > e.outLen) := by
    rw [ho]; intro h; rcases h with h | h <;> omega
  simp only [hoob, ↓reduceIte]
  by_cases hc0 : c.r.counter = 0
  · simp only [hc0, ↓reduceIte]
    refine ⟨_, _, rfl, rfl, by simp [ho], ?_, hsz, rfl, rfl, rfl, ⟨rfl, rfl, rfl, rfl, rfl, rfl, rfl, rfl, rfl, rfl⟩⟩
    simpa [copyFull] using heq
  · simp only [hc0, ↓reduceIte]
    have hw : ¬ (e.outEnd - c.outPos = 0) := by rw [ho]; omega
    simp only [hw, ↓reduceIte]
    have hmin : min (e.outEnd - c.outPos) c.r.counter = c.r.counter := by rw [ho]; omega
    simp only [hmin, Nat.sub_self, ↓reduceIte, hflat, Bool.false_eq_true]
    refine ⟨_, _, rfl, rfl, by simp [ho], ?_, ?_, rfl, rfl, rfl, ⟨rfl, rfl, rfl, rfl, rfl, rfl, rfl, rfl, rfl, rfl⟩⟩
    · rw [ho]
      exact copyBytes_sim c.r.dist _ hd1 c.r.counter outA full heq hd2 (by omega)
    · rw [(copyBytes_sameOutside _ _ _ _ _ _).1]; exact hsz

end Model.Core
