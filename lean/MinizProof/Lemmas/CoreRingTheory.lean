/-
FROM ONE FLAT CALL ON A WHOLE VALID STREAM TO THE RING DRIVER ON ANY PART OF IT, for any stream format.
`FlatTheory fl V P`: for every stream `z` with `V z` ("valid, plaintext `P`"), one flat call on `z`
from a fresh decoder reports `Done` with `P` written when `P` fits the window, "has more output"
when it does not (raw: C03 + C08 `Lemmas/CoreRefine, CoreFull`; zlib: `Lemmas/CoreZlib, CoreFull`).
From that alone, with the format-independent call theorems (input extension C06, call composition
C07, ring = flat C07): `RingTheory` — what the streaming wrapper needs to know about its inner calls
(`Lemmas/InflBytes`): on any part of a valid stream, in any chunks, over any number of laps of the
window, the ring driver's next call ends in one of four statuses; if `Done`, it has delivered `P`;
while suspended, a prefix of `P`.
-/
import MinizProof.Lemmas.CorePrefix
import MinizProof.Model.InflBytes
set_option linter.unusedVariables false
set_option maxRecDepth 100000
namespace Model.Core
open Spec

structure FlatTheory (fl : Nat) (V : Array UInt8 → Prop) (P : Array UInt8) (L : Nat) : Prop where
  flat : hasFlag fl fNonWrapping = true
  fits : ∀ (z out : Array UInt8) (budget : Nat), V z → P.size ≤ min budget out.size →
    (decompress {} z out 0 budget fl).status = stDone ∧ (decompress {} z out 0 budget fl).written = P.size ∧
    (∀ i, i < P.size → (decompress {} z out 0 budget fl).out[i]? = P[i]?) ∧
    (decompress {} z out 0 budget fl).consumed = L
  full : ∀ (z out : Array UInt8) (budget : Nat), V z → min budget out.size < P.size →
    (decompress {} z out 0 budget fl).status = stHasMoreOutput

/-- a call on part of a valid stream never fails -/
theorem FlatTheory.never {fl : Nat} {V : Array UInt8 → Prop} {P : Array UInt8} {L : Nat} (T : FlatTheory fl V P L)
    (a b out : Array UInt8) (budget : Nat) (hv : V (a ++ b)) :
    (decompress {} a out 0 budget fl).status = stDone ∨ (decompress {} a out 0 budget fl).status = stHasMoreOutput ∨
    (decompress {} a out 0 budget fl).status = stNeedsMoreInput ∨
    (decompress {} a out 0 budget fl).status = stFailedCannotMakeProgress := by
  have hg : badGeometry fl out.size 0 = false := by unfold badGeometry; simp [T.flat]
  by_cases he : isEoi (callRun {} a out 0 budget fl).1 = true
  · rw [decompress_eq _ _ _ _ _ _ hg]
    rcases (epilogue_eoi fl 0 (min (0 + budget) out.size) _ (callRun {} a out 0 budget fl).2.1
      (callRun {} a out 0 budget fl).2.2 he).1 with h | h | h
    · exact .inr (.inr (.inl h))
    · exact .inr (.inl h)
    · exact .inr (.inr (.inr h))
  · have hne : (callRun {} a out 0 budget fl).1 ≠ endOfInput fl := by
      intro h; rw [h, eoi_isEoi] at he; exact he rfl
    rw [← decompress_ext_same {} a b out 0 budget fl hne]
    by_cases hfit : P.size ≤ min budget out.size
    · exact .inl (T.fits _ out budget hv hfit).1
    · exact .inr (.inl (T.full _ out budget hv (by omega)))

/-- a call on part of a valid stream that reports `Done` has written the plaintext -/
theorem FlatTheory.done {fl : Nat} {V : Array UInt8 → Prop} {P : Array UInt8} {L : Nat} (T : FlatTheory fl V P L)
    (a b out : Array UInt8) (budget : Nat) (hv : V (a ++ b))
    (hd : (decompress {} a out 0 budget fl).status = stDone) :
    (decompress {} a out 0 budget fl).written = P.size ∧
    (∀ i, i < P.size → (decompress {} a out 0 budget fl).out[i]? = P[i]?) ∧
    (decompress {} a out 0 budget fl).consumed = L := by
  have hext := done_ext_same {} a b out 0 budget fl hd
  rw [← hext] at hd ⊢
  by_cases hfit : P.size ≤ min budget out.size
  · exact (T.fits _ out budget hv hfit).2
  · have := T.full _ out budget hv (by omega)
    rw [this] at hd; exact absurd hd (by decide)

/-- a suspended call on part of a valid stream has written a prefix of the plaintext -/
theorem FlatTheory.pref {fl : Nat} {V : Array UInt8 → Prop} {P : Array UInt8} {L : Nat} (T : FlatTheory fl V P L)
    (a b out : Array UInt8) (budget : Nat) (hv : V (a ++ b)) (hsize : budget + P.size ≤ out.size)
    (hs : suspended (decompress {} a out 0 budget fl)) :
    (decompress {} a out 0 budget fl).written ≤ P.size ∧
    ∀ i, i < (decompress {} a out 0 budget fl).written → (decompress {} a out 0 budget fl).out[i]? = P[i]? := by
  have hg : badGeometry fl out.size 0 = false := by unfold badGeometry; simp [T.flat]
  have hcomp := C07.two_calls_equal_one_call {} a b out 0 budget (budget + P.size) fl Bnd_fresh hg hs (by omega)
  dsimp only at hcomp
  obtain ⟨_, hout, hw, _⟩ := hcomp
  have hfacts1 := decompress_facts {} a out 0 budget fl
  generalize hr1 : decompress {} a out 0 budget fl = r1 at hout hw hfacts1 ⊢
  have hone := T.fits (a ++ b) out (r1.written + (budget + P.size)) hv (by
    have := hfacts1.wBudget
    exact Nat.le_min.mpr ⟨by omega, by omega⟩)
  obtain ⟨_, o2, o4, _⟩ := hone
  have hfacts2 := decompress_facts r1.r (a.extract r1.consumed a.size ++ b) r1.out (0 + r1.written) (budget + P.size) fl
  have hwle : r1.written ≤ P.size := by rw [← o2, hw]; omega
  refine ⟨hwle, fun i hi => ?_⟩
  have h1 := hfacts2.frame i (.inl (by omega))
  have h2 := o4 i (by omega)
  rw [hout] at h2
  rw [← h1, h2]

/-- THE RING DRIVER AGREES WITH ITS FLAT MIRROR ON EVERY PART OF A VALID STREAM (any format with a
    flat theory): the mirror never fails. -/
theorem ring_agrees_of_flat {flagsR flagsF W : Nat} {V : Array UInt8 → Prop} {P : Array UInt8} {L : Nat} (T : FlatTheory flagsF V P L)
    (hfl : FlagsRF flagsR flagsF) (hbig : 32768 ≤ W)
    (oR oF : Array UInt8) (hW : oR.size = W) (hg : badGeometry flagsR W 0 = false)
    (z : Array UInt8) (hv : V z) :
    ∀ (n : Nat) (chunks : List (Array UInt8)) (b : Array UInt8), chunks.length = n → catList chunks ++ b = z →
    W * (chunks.length + 1) ≤ oF.size →
    (∀ x ∈ (runRing flagsR W {} oR 0 #[] chunks).dropLast, suspended x.1) →
    RunsAgree 0 (runRing flagsR W {} oR 0 #[] chunks)
      (runCalls flagsF 0 {} oF 0 #[] (ringGrants flagsR W {} oR 0 0 #[] chunks)) := by
  have hWpos : 0 < W := by omega
  have hrel0 : RingRel W 0 0 oR oF := ⟨hW, fun i hi => absurd hi (Nat.not_lt_zero _), fun i _ hiW hb => by omega⟩
  intro n
  induction n with
  | zero =>
    intro chunks b hlen _ _ _
    have : chunks = [] := List.eq_nil_of_length_eq_zero hlen
    subst this; exact trivial
  | succ n ih =>
    intro chunks b hlen hcat hsz hsus
    rcases List.eq_nil_or_concat chunks with hnil | ⟨init, x, hcx⟩
    · subst hnil; simp at hlen
    rw [List.concat_eq_append] at hcx
    subst hcx
    have hlen' : init.length = n := by simp at hlen; omega
    obtain ⟨y, hy⟩ := runRing_snoc flagsR W init x {} oR 0 #[]
    obtain ⟨g, hgr⟩ := ringGrants_snoc flagsR W init x {} oR 0 0 #[]
    obtain ⟨f, hf⟩ := runCalls_snoc flagsF 0 (ringGrants flagsR W {} oR 0 0 #[] init) (x, g) {} oF 0 #[]
    have hsusInit : ∀ v ∈ runRing flagsR W {} oR 0 #[] init, suspended v.1 := by
      intro v hv
      apply hsus v
      rw [hy, List.dropLast_concat]; exact hv
    have hszInit : W * (init.length + 1) ≤ oF.size := by
      have e1 := Nat.mul_succ W (init.length + 1)
      simp only [List.length_append, List.length_singleton] at hsz
      have : W * (init.length + 1) ≤ W * (init.length + 1 + 1) := Nat.mul_le_mul_left W (by omega)
      omega
    have hcatInit : catList init ++ (x ++ b) = z := by
      rw [← hcat, catList_append]
      show catList init ++ (x ++ b) = catList init ++ (x ++ #[]) ++ b
      rw [Array.append_empty, Array.append_assoc]
    have hagI := ih init (x ++ b) hlen' hcatInit hszInit (fun v hv => hsusInit v (List.dropLast_subset _ hv))
    have hsusF := RunsAgree.all_suspended _ _ _ hagI hsusInit
    have hfne : f.status ≠ stFailed := by
      have hG : ringGrants flagsR W {} oR 0 0 #[] (init ++ [x]) ≠ [] := by rw [hgr]; simp
      obtain ⟨c0, g0, calls, hGe⟩ : ∃ c0 g0 calls, ringGrants flagsR W {} oR 0 0 #[] (init ++ [x]) = (c0, g0) :: calls := by
        cases hGd : ringGrants flagsR W {} oR 0 0 #[] (init ++ [x]) with
        | nil => exact absurd hGd hG
        | cons hd tl => exact ⟨hd.1, hd.2, tl, rfl⟩
      have hmono := grantsMono_ringGrants flagsR W (init ++ [x]) {} oR 0 0 #[]
      have hcatG := catChunks_ringGrants flagsR W (init ++ [x]) {} oR 0 0 #[]
      have hFall : runCalls flagsF 0 {} oF 0 #[] ((c0, g0) :: calls) =
          runCalls flagsF 0 {} oF 0 #[] (ringGrants flagsR W {} oR 0 0 #[] init) ++ [f] := by
        rw [← hGe, hgr]; exact hf
      have hgeoF : badGeometry flagsF oF.size 0 = false := by simp [badGeometry, hfl.flat]
      rw [hGe] at hmono hcatG
      have hone := runCalls_last flagsF 0 calls {} oF 0 #[] c0 g0 Bnd_fresh hgeoF hmono
        (by rw [hFall, List.dropLast_concat]; exact hsusF) f (by rw [hFall, List.getLast?_concat])
      dsimp only at hone
      rw [hcatG] at hone
      have hnever := T.never (#[] ++ catList (init ++ [x])) b oF (0 + lastGrant ((c0, g0) :: calls) - 0)
        (by rw [Array.empty_append, hcat]; exact hv)
      rw [hone.1] at hnever
      rcases hnever with h | h | h | h <;> rw [h] <;> decide
    have hnf : ∀ r' ∈ runCalls flagsF 0 {} oF (0 + 0) #[] (ringGrants flagsR W {} oR 0 0 #[] (init ++ [x])), r'.status ≠ stFailed := by
      intro r' hr'
      rw [hgr] at hr'
      have : r' ∈ runCalls flagsF 0 {} oF 0 #[] (ringGrants flagsR W {} oR 0 0 #[] init) ++ [f] := by rw [← hf]; exact hr'
      rcases List.mem_append.mp this with h | h
      · exact suspended_ne_failed (hsusF r' h)
      · simp only [List.mem_singleton] at h; rw [h]; exact hfne
    exact runRing_agrees flagsR flagsF W hfl hbig (init ++ [x]) {} oR oF 0 0 #[] Bnd_fresh hW hg (Or.inl hWpos) hrel0
      (by simpa using hsz) hsus hnf

/-- The ring driver against ONE flat call: with the calls before the last suspended, the last ring
    call has the status of the single flat call on everything supplied (budget: the last grant), and
    what the ring driver delivered is what that call wrote. -/
theorem ring_vs_one_flat_call {flagsR flagsF W : Nat} {V : Array UInt8 → Prop} {P : Array UInt8} {L : Nat} (T : FlatTheory flagsF V P L)
    (hfl : FlagsRF flagsR flagsF) (hbig : 32768 ≤ W)
    (oR : Array UInt8) (hW : oR.size = W) (hg : badGeometry flagsR W 0 = false)
    (c : Array UInt8) (cs : List (Array UInt8)) (b : Array UInt8) (hv : V (catList (c :: cs) ++ b))
    (hsus : ∀ x ∈ (runRing flagsR W {} oR 0 #[] (c :: cs)).dropLast, suspended x.1)
    (lastR : Res × Nat) (hlast : (runRing flagsR W {} oR 0 #[] (c :: cs)).getLast? = some lastR) (extra : Nat) :
    ∃ (oF : Array UInt8) (G : Nat), G + extra ≤ oF.size ∧
      (decompress {} (catList (c :: cs)) oF 0 G flagsF).status = lastR.1.status ∧
      deliveredRing (runRing flagsR W {} oR 0 #[] (c :: cs)) =
        (decompress {} (catList (c :: cs)) oF 0 G flagsF).out.extract 0 (decompress {} (catList (c :: cs)) oF 0 G flagsF).written ∧
      ((decompress {} (catList (c :: cs)) oF 0 G flagsF).status ≠ stFailed →
        (decompress {} (catList (c :: cs)) oF 0 G flagsF).consumed = ((runRing flagsR W {} oR 0 #[] (c :: cs)).map (·.1.consumed)).sum) := by
  generalize hoF : Array.replicate (W * ((c :: cs).length + 1) + extra) (0 : UInt8) = oF
  have hoFsz : oF.size = W * ((c :: cs).length + 1) + extra := by rw [← hoF]; simp
  have hA := ring_agrees_of_flat T hfl hbig oR oF hW hg _ hv (c :: cs).length (c :: cs) b rfl rfl (by rw [hoFsz]; omega) hsus
  generalize hfs : runCalls flagsF 0 {} oF 0 #[] (ringGrants flagsR W {} oR 0 0 #[] (c :: cs)) = fs at hA
  have hfne : fs ≠ [] := RunsAgree.nonempty _ _ _ hA (by simp [runRing])
  obtain ⟨lastF, hlastF⟩ : ∃ lf, fs.getLast? = some lf := by
    cases h : fs.getLast? with
    | none => exact absurd (List.getLast?_eq_none_iff.mp h) hfne
    | some lf => exact ⟨lf, rfl⟩
  have hsusF := RunsAgree.suspended _ _ _ hA hsus
  obtain ⟨hl1, _⟩ := RunsAgree.last _ _ _ hA lastR lastF hlast hlastF
  have hdel := RunsAgree.deliver _ _ _ hA
  have hgeoF : badGeometry flagsF oF.size 0 = false := by simp [badGeometry, hfl.flat]
  have hgr : ringGrants flagsR W {} oR 0 0 #[] (c :: cs) =
      (c, 0 + W) :: ringGrants flagsR W (decompress {} (#[] ++ c) oR 0 (W - 0) flagsR).r
        (decompress {} (#[] ++ c) oR 0 (W - 0) flagsR).out (ringNext W (0 + (decompress {} (#[] ++ c) oR 0 (W - 0) flagsR).written))
        (baseNext W 0 (0 + (decompress {} (#[] ++ c) oR 0 (W - 0) flagsR).written))
        ((#[] ++ c).extract (decompress {} (#[] ++ c) oR 0 (W - 0) flagsR).consumed (#[] ++ c).size) cs := rfl
  have hmono := grantsMono_ringGrants flagsR W (c :: cs) {} oR 0 0 #[]
  have hcat := catChunks_ringGrants flagsR W (c :: cs) {} oR 0 0 #[]
  have hroomG := lastGrant_ringGrants_le flagsR W (c :: cs) {} oR 0 0 #[] (by simp)
  have hdelF := runCalls_delivered flagsF 0 (ringGrants flagsR W {} oR 0 0 #[] (c :: cs)) {} oF 0 #[] lastF (by rw [hfs]; exact hlastF)
  rw [hfs] at hdelF
  rw [hgr] at hfs hmono hcat hroomG
  have hone := runCalls_last flagsF 0 _ {} oF 0 #[] c (0 + W)
    Bnd_fresh hgeoF hmono (by rw [hfs]; exact hsusF) lastF (by rw [hfs]; exact hlastF)
  dsimp only at hone
  rw [hcat] at hone
  obtain ⟨o1, o2, o3, o4, _⟩ := hone
  rw [hfs] at o3 o4
  have hsums := (RunsAgree.sums _ _ _ hA).2
  generalize hG : lastGrant ((c, 0 + W) :: ringGrants flagsR W (decompress {} (#[] ++ c) oR 0 (W - 0) flagsR).r
        (decompress {} (#[] ++ c) oR 0 (W - 0) flagsR).out (ringNext W (0 + (decompress {} (#[] ++ c) oR 0 (W - 0) flagsR).written))
        (baseNext W 0 (0 + (decompress {} (#[] ++ c) oR 0 (W - 0) flagsR).written))
        ((#[] ++ c).extract (decompress {} (#[] ++ c) oR 0 (W - 0) flagsR).consumed (#[] ++ c).size) cs) = G at o1 o2 o3 o4 hroomG
  have he : (#[] : Array UInt8) ++ catList (c :: cs) = catList (c :: cs) := Array.empty_append
  rw [he] at o1 o2 o3 o4
  have hGe : 0 + G - 0 = G := by omega
  rw [hGe] at o1 o2 o3 o4
  refine ⟨oF, G, ?_, by rw [o1, hl1], ?_, fun hnf => by rw [o4 hnf, hsums]⟩
  · rw [hoFsz]; simp only [List.length_cons] at hroomG ⊢
    have : W * (cs.length + 1 + 1) = W * (cs.length + 1) + W := by rw [Nat.mul_succ]
    omega
  · rw [hdel, hdelF, Nat.zero_add, ← o3, ← o2]

end Model.Core

namespace Model.Core
open Spec

/-- WHAT THE WRAPPER NEEDS TO KNOW ABOUT THE RING DRIVER under its flag word `flags`, for streams `z`
    satisfying `V z` ("`z` — everything supplied so far followed by what is still to come — is a
    valid stream with plaintext `P`"): while its calls are suspended the next call ends in one of
    four statuses; if that is `Done`, what has been delivered is `P`; while all calls are suspended
    what has been delivered is a prefix of `P`; the flag word announces more input. Derived from a flat theory
    (`ringTheory_of_flat`); instances: raw streams (`rawRingTheory`), zlib streams (`zlibRingTheory`). -/
structure RingTheory (flags : Nat) (V : Array UInt8 → Prop) (P : Array UInt8) (L : Nat) : Prop where
  status : ∀ (c : Array UInt8) (cs : List (Array UInt8)) (b : Array UInt8), V (catList (c :: cs) ++ b) →
    (∀ x ∈ (runRing flags Model.InflB.dictSize {} (Array.replicate Model.InflB.dictSize 0) 0 #[] (c :: cs)).dropLast, suspended x.1) →
    ∀ lastR, (runRing flags Model.InflB.dictSize {} (Array.replicate Model.InflB.dictSize 0) 0 #[] (c :: cs)).getLast? = some lastR →
    lastR.1.status = stDone ∨ lastR.1.status = stHasMoreOutput ∨ lastR.1.status = stNeedsMoreInput ∨
    lastR.1.status = stFailedCannotMakeProgress
  done : ∀ (c : Array UInt8) (cs : List (Array UInt8)) (b : Array UInt8), V (catList (c :: cs) ++ b) →
    (∀ x ∈ (runRing flags Model.InflB.dictSize {} (Array.replicate Model.InflB.dictSize 0) 0 #[] (c :: cs)).dropLast, suspended x.1) →
    ∀ lastR, (runRing flags Model.InflB.dictSize {} (Array.replicate Model.InflB.dictSize 0) 0 #[] (c :: cs)).getLast? = some lastR →
    lastR.1.status = stDone →
    deliveredRing (runRing flags Model.InflB.dictSize {} (Array.replicate Model.InflB.dictSize 0) 0 #[] (c :: cs)) = P ∧
    ((runRing flags Model.InflB.dictSize {} (Array.replicate Model.InflB.dictSize 0) 0 #[] (c :: cs)).map (·.1.consumed)).sum = L
  pref : ∀ (c : Array UInt8) (cs : List (Array UInt8)) (b : Array UInt8), V (catList (c :: cs) ++ b) →
    (∀ x ∈ runRing flags Model.InflB.dictSize {} (Array.replicate Model.InflB.dictSize 0) 0 #[] (c :: cs), suspended x.1) →
    ∃ n, n ≤ P.size ∧
      deliveredRing (runRing flags Model.InflB.dictSize {} (Array.replicate Model.InflB.dictSize 0) 0 #[] (c :: cs)) = P.extract 0 n
  more : hasFlag flags fHasMoreInput = true


open Model.InflB in
/-- FROM THE FLAT THEORY TO THE RING THEORY. -/
theorem ringTheory_of_flat {flagsR flagsF : Nat} {V : Array UInt8 → Prop} {P : Array UInt8} {L : Nat} (T : FlatTheory flagsF V P L)
    (hfl : FlagsRF flagsR flagsF) (hg : badGeometry flagsR dictSize 0 = false)
    (hmore : hasFlag flagsR fHasMoreInput = true) : RingTheory flagsR V P L where
  status := by
    intro c cs b hv hsus lastR hlast
    obtain ⟨oF, G, _, hst, _, _⟩ := ring_vs_one_flat_call T hfl (by decide) (Array.replicate dictSize 0) (by simp) hg c cs b hv hsus lastR hlast 0
    rw [← hst]
    exact T.never _ b oF G hv
  done := by
    intro c cs b hv hsus lastR hlast hd
    obtain ⟨oF, G, _, hst, hdel, hcons⟩ := ring_vs_one_flat_call T hfl (by decide) (Array.replicate dictSize 0) (by simp) hg c cs b hv hsus lastR hlast 0
    obtain ⟨hw, hb, hL⟩ := T.done _ b oF G hv (by rw [hst]; exact hd)
    refine ⟨?_, by rw [← hcons (by rw [hst, hd]; decide), hL]⟩
    rw [hdel, hw]
    have hf1 := decompress_facts {} (catList (c :: cs)) oF 0 G flagsF
    have hsz : P.size ≤ (decompress {} (catList (c :: cs)) oF 0 G flagsF).out.size := by
      rw [← hw, hf1.size]; have := hf1.room; omega
    have := extract_prefix_eq _ P P.size hsz (Nat.le_refl _) hb
    rw [this]; simp
  pref := by
    intro c cs b hv hsus
    obtain ⟨lastR, hlast⟩ : ∃ l, (runRing flagsR dictSize {} (Array.replicate dictSize 0) 0 #[] (c :: cs)).getLast? = some l := by
      cases h : (runRing flagsR dictSize {} (Array.replicate dictSize 0) 0 #[] (c :: cs)).getLast? with
      | none => simp [runRing] at h
      | some l => exact ⟨l, rfl⟩
    obtain ⟨oF, G, hsz, hst, hdel, _⟩ := ring_vs_one_flat_call T hfl (by decide) (Array.replicate dictSize 0) (by simp) hg c cs b hv
      (fun x hx => hsus x (List.dropLast_subset _ hx)) lastR hlast P.size
    have hls : suspended lastR.1 := hsus lastR (List.mem_of_getLast? hlast)
    obtain ⟨p1, p2⟩ := T.pref _ b oF G hv hsz (by unfold suspended; rw [hst]; exact hls)
    refine ⟨_, p1, ?_⟩
    rw [hdel]
    have hf1 := decompress_facts {} (catList (c :: cs)) oF 0 G flagsF
    exact extract_prefix_eq _ _ _ (by rw [hf1.size]; have := hf1.room; omega) p1 p2
  more := hmore

/-- the flat theory of RAW streams: `V z` = the reference decoder accepts `z` with result `res` -/
theorem rawFlatTheory (fl : Nat) (hflat : hasFlag fl fNonWrapping = true) (hz : hasFlag fl fParseZlib = false)
    (hstop : hasFlag fl fStopOnBlockBoundary = false) (res : Inflated) :
    FlatTheory fl (fun z => inflateSpec #[] 32768 z 0 = .accept res) res.out ((res.bitsUsed + 7) / 8) where
  flat := hflat
  fits := by
    intro z out budget hv hfit
    have h := refine_raw_flat {} z out 0 budget fl 32768 res rfl ⟨rfl, rfl, rfl⟩ hflat hz hstop (Nat.zero_le _)
      (by simpa using hv) (by simpa using hfit)
    exact ⟨h.1, h.2.1, fun i hi => by have := h.2.2.2 i hi; rwa [Nat.zero_add] at this, h.2.2.1⟩
  full := by
    intro z out budget hv hbig
    exact full_raw_flat {} z out 0 budget fl 32768 res rfl ⟨rfl, rfl, rfl⟩ hflat hz hstop (Nat.zero_le _)
      (by simpa using hv) (by simpa using hbig)

/-- the flat theory of ZLIB streams: `V z` = the reference decoder accepts `z` (header, body, trailer
    equal to the Adler-32 of the body's plaintext) with result `zr` -/
theorem zlibFlatTheory (fl : Nat) (hflat : hasFlag fl fNonWrapping = true) (hz : hasFlag fl fParseZlib = true)
    (hstop : hasFlag fl fStopOnBlockBoundary = false) (zr : ZInflated) :
    FlatTheory fl (fun z => zlibSpec #[] 32768 z true = .accept zr) zr.inner.out zr.bytesUsed where
  flat := hflat
  fits := by
    intro z out budget hv hfit
    have h := C03.valid_zlib_stream_decodes_one_shot {} z out 0 budget fl 32768 zr rfl ⟨rfl, rfl, rfl⟩ hflat hz hstop (Nat.zero_le _)
      (by simpa using hv) (by simpa using hfit)
    exact ⟨h.1, h.2.1, fun i hi => by have := h.2.2.2 i hi; rwa [Nat.zero_add] at this, h.2.2.1⟩
  full := by
    intro z out budget hv hbig
    have hv' : zlibSpec (out.extract 0 0) 32768 z true = .accept zr := by simpa using hv
    obtain ⟨cmf, flg, a, b, c, d, h0, h1, hvd, hi, _⟩ := zlibSpec_inv hv'
    exact full_zlib_flat {} z out 0 budget fl 32768 zr.inner cmf flg rfl ⟨rfl, rfl, rfl⟩ hflat hz hstop (Nat.zero_le _) h0 h1 hvd hi
      (by simpa using hbig)

end Model.Core
